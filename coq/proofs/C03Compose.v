(* C03Compose: composition of the emit.function model (EmitAst), the unparse / re-parse step (C03Spec.reparse_stmt)
   and the parse.function model (ParseSig + Merge) - property C03, function / method round trip.

   The docstring layer is decoupled exactly as the models are: the emitter takes the text [text] that
   to_docstring returned, the parser takes the docstring-derived IR [d]; every theorem quantifies over both and
   assumes only the named hypothesis doc_agrees (C03Spec).  All statements are unbounded in the number of
   parameters.

   PROVED
     outside the guard (every description the emitter accepts):
       emit_fn_inv / reparse_layout        the emitted argument list has one of two layouts; unparse / re-parse keeps
                                           layout, names and lengths;
       C03_kind_lemma                      static / self / cls is read back by every round trip that succeeds;
       C03_names_order_lemma               names and order, from C06Facts.map_outcome_arg_names + ParseSigFacts.
                                           parse_function_names: the IR's parameters in order, then the ** parameter iff
                                           documented;
       C03_default_alignment_lemma         positional vs keyword-only: the k-th parameter is paired with the k-th default;
     per entry:
       C03_annotation_codec_lemma          inline annotation of a canonical type: fixed point, prints back as the string;
       infer_default_codec / C03_default_codec_lemma   defaults per value class (None, bool, int >= 0, int < 0, float, str);
       param_entry_codec                   one parameter: signature entry + docstring entry -> merged -> _set_name_and_type;
       kwargs_entry_codec                  the ** parameter;
       returns_round_trip                  the return entry (annotation, generated return, _interpolate_return);
     whole:
       C03_refuted_lemma (vm_compute witness), C03_partial_lemma (guard + doc_agrees => the composed model succeeds -
       nothing raises - and hands back the same interface and kind), C03_nonvacuous_lemma, C03_class_witnesses_lemma,
       class-free corollaries C03_scalar_guard / C03_scalar_lemma, C03_return_only_guard / C03_return_only_lemma.
   NOT PROVED (hypotheses of the theorems, evaluated by the oracle on every in-guard point)
     doc_agrees for the text to_docstring produces (the ReST round trip of the indented, possibly wrapped text: C01 proves
     it for emit.docstring's text only);
     that reparse_stmt is what CPython does (a model; correspondence family c03);
     the prose conditions of the guard that concern the docstring layer only (prose_safe, the summary token test, the
     default-sentence test) are not used by the proofs: they make the classifier exact on the real code. *)
From Coq Require Import List Ascii Bool Arith ZArith Lia Permutation.
From Coq Require String.
Import String.StringSyntax.
From DT Require Import PyStr Sexp PyVal TyExpr Extracted PureUtils Defaults PyAst IR Merge ParseSig C12Spec C07Spec.
From DT Require Import PyStrFacts MergeFacts C12Facts ParseSigFacts C07Facts.
From DT Require EmitAst C06Spec C02Spec EmitAstFacts C06Facts.
From DT Require Import C03Spec.
Import ListNotations.

(* ------------------------------------------------------------------ *)
(* generic                                                             *)
(* ------------------------------------------------------------------ *)
Lemma mapM_ok_forall : forall {A B} (f : A -> outcome B) l,
  (forall x, In x l -> exists y, f x = Ok y) -> exists l', mapM f l = Ok l'.
Proof.
  intros A B f l; induction l as [|x r IH]; intros H; cbn [mapM]; [eexists; reflexivity|].
  destruct (H x (or_introl eq_refl)) as [y Hy]. rewrite Hy. cbn [bind].
  destruct IH as [l' Hl']; [intros z Hz; apply H; right; exact Hz|]. rewrite Hl'. cbn [bind]. eexists; reflexivity.
Qed.

Lemma mapM_map_ok : forall {A B} (f : A -> outcome B) (g : A -> B) l,
  (forall x, In x l -> f x = Ok (g x)) -> mapM f l = Ok (map g l).
Proof.
  intros A B f g l; induction l as [|x r IH]; intros H; cbn [mapM map]; [reflexivity|].
  rewrite (H x (or_introl eq_refl)). cbn [bind]. rewrite IH by (intros z Hz; apply H; right; exact Hz). reflexivity.
Qed.

Lemma mapM_app : forall {A B} (f : A -> outcome B) l1 l2 r1 r2,
  mapM f l1 = Ok r1 -> mapM f l2 = Ok r2 -> mapM f (l1 ++ l2) = Ok (r1 ++ r2).
Proof.
  intros A B f l1; induction l1 as [|x l1 IH]; intros l2 r1 r2 H1 H2; cbn [mapM app] in *.
  - inversion H1; subst. exact H2.
  - destruct (f x) as [y|]; cbn [bind] in *; [|discriminate].
    destruct (mapM f l1) as [ys|] eqn:E; cbn [bind] in *; [|discriminate].
    inversion H1; subst. rewrite (IH l2 ys r2 eq_refl H2). reflexivity.
Qed.

Lemma map_outcome_map_ok : forall {A B} (f : A -> outcome B) (g : A -> B) l,
  (forall x, In x l -> f x = Ok (g x)) -> EmitAst.map_outcome f l = Ok (map g l).
Proof.
  intros A B f g l; induction l as [|x r IH]; intros H; cbn [EmitAst.map_outcome map]; [reflexivity|].
  rewrite (H x (or_introl eq_refl)). cbn [bind]. rewrite IH by (intros z Hz; apply H; right; exact Hz). reflexivity.
Qed.

Lemma expr_eqb_true : forall a b, expr_eqb a b = true -> a = b.
Proof. exact EmitAstFacts.expr_eqb_eq. Qed.

Lemma kind_cases : forall k, kind_in_domain k = true -> k = L "static" \/ k = L "self" \/ k = L "cls".
Proof.
  intros k H. unfold kind_in_domain in H. apply orb_true_iff in H. destruct H as [H|H].
  - apply orb_true_iff in H. destruct H as [H|H]; apply str_eqb_eq in H; auto.
  - apply str_eqb_eq in H; auto.
Qed.

(* ------------------------------------------------------------------ *)
(* ast.parse on type strings: inside TyExpr's fragment the table is not consulted *)
(* ------------------------------------------------------------------ *)
Lemma parse_expr_src_nil : forall pt s e,
  EmitAst.parse_expr_src [] s = Ok e -> EmitAst.parse_expr_src pt s = Ok e.
Proof.
  intros pt s e H. unfold EmitAst.parse_expr_src in *.
  destruct (strip s) as [|cs ss]; [discriminate|].
  destruct (mem_c bt s && negb (mem_c sq s) && negb (mem_c dq s)); [discriminate|].
  destruct s as [|c0 sr]; [discriminate|].
  destruct (ascii_eqb c0 sp || ascii_eqb c0 tabch); [discriminate|].
  cbn [EmitAst.pt_lookup] in H.
  destruct (forallb EmitAst.printable (c0 :: sr) && negb (EmitAst.comma_before_rb (c0 :: sr) false)); [|discriminate].
  destruct (parse_ty (c0 :: sr)) as [t|]; [|discriminate].
  destruct (EmitAst.ty2expr t) as [e0|]; [exact H|discriminate].
Qed.

Lemma ast_parse_fix_nil : forall pt s e,
  EmitAst.ast_parse_fix [] s = Ok e -> EmitAst.ast_parse_fix pt s = Ok e.
Proof. intros pt s e H. unfold EmitAst.ast_parse_fix in *. apply parse_expr_src_nil; exact H. Qed.

(* ------------------------------------------------------------------ *)
(* the emitted signature, parameter by parameter                       *)
(* ------------------------------------------------------------------ *)
Definition nkp (i : ir) : list (str * gparam) := filter EmitAst.no_kwargs (ir_params i).
Definition kwp (i : ir) : list (str * gparam) := filter (fun kv => negb (EmitAst.no_kwargs kv)) (ir_params i).

(* the annotation emit.function writes for a parameter *)
Definition ann_of (o : fopts) (g : gparam) : option expr :=
  if fo_inline o then
    match g_typ g with
    | Has t => if in_simple_types t then Some (EName t)
               else match EmitAst.ast_parse_fix [] t with Ok e => Some e | Err _ => None end
    | _ => None
    end
  else None.

(* the default node emit.function writes for a parameter *)
Definition dflt_of (g : gparam) : expr :=
  match g_default g with
  | Some (DV v) => if in_none_types v then EmitAst.set_value VNone else EmitAst.set_value v
  | _ => EmitAst.set_value VNone
  end.

(* what the guard says about the type of an entry when types are inline *)
Definition typ_fits (o : fopts) (g : gparam) : Prop :=
  match g_typ g with
  | Has t => fo_inline o = true -> typ_inline_ok t = true
  | Missing => True
  | FNone => False
  end.

Lemma arg_of_param_fits : forall o n g, typ_fits o g ->
  EmitAst.arg_of_param (fo_pt o) (fo_inline o) (n, g) = Ok (mkArg n (ann_of o g)).
Proof.
  intros o n g H. unfold EmitAst.arg_of_param, ann_of, typ_fits in *. destruct (fo_inline o); [|reflexivity].
  destruct (g_typ g) as [| |t]; [reflexivity|contradiction|].
  specialize (H eq_refl). unfold typ_inline_ok in H.
  destruct (in_simple_types t); [reflexivity|]. cbn [orb] in H.
  destruct (EmitAst.ast_parse_fix [] t) as [e|] eqn:E; [|discriminate].
  rewrite (ast_parse_fix_nil _ _ _ E). reflexivity.
Qed.

Definition default_scalar (g : gparam) : Prop :=
  match g_default g with None => True | Some (DV _) => True | Some _ => False end.

Lemma default_of_param_scalar : forall n g, default_scalar g ->
  EmitAst.default_of_param (n, g) = Ok (dflt_of g).
Proof.
  intros n g H. unfold EmitAst.default_of_param, dflt_of, default_scalar in *. cbn [snd].
  destruct (g_default g) as [[v|e|r]|]; try contradiction; [|reflexivity].
  destruct (in_none_types v); reflexivity.
Qed.

(* ------------------------------------------------------------------ *)
(* the emitted function                                                *)
(* ------------------------------------------------------------------ *)
Definition args0 (k : str) : list arg := if str_eqb k (L "static") then [] else [mkArg k None].

Definition kwarg_of (i : ir) : option arg :=
  match kwp i with kv :: _ => Some (mkArg (fst kv) None) | [] => None end.

Definition afp_of (o : fopts) (i : ir) : list arg := map (fun kv => mkArg (fst kv) (ann_of o (snd kv))) (nkp i).
Definition dfp_of (i : ir) : list expr := map (fun kv => dflt_of (snd kv)) (nkp i).

Definition emitted_arguments (o : fopts) (i : ir) : arguments :=
  if fo_kwonly o
  then mkArguments (args0 (fo_kind o)) [] (afp_of o i) (map Some (dfp_of i)) None (kwarg_of i)
  else mkArguments (args0 (fo_kind o) ++ afp_of o i) (dfp_of i) [] [] None (kwarg_of i).

(* the `-> annotation` computation of emit.function *)
Definition ret_ann_o (o : fopts) (i : ir) : outcome (option expr) :=
  if fo_inline o then
    match EmitAst.returns_param i with
    | Some p => match fget (g_typ p) with
                | Some (c :: t) => do e <- EmitAst.parse_expr_src (fo_pt o) (c :: t); Ok (Some e)
                | _ => Ok None
                end
    | None => Ok None
    end
  else Ok None.

Definition emitted_body (text : str) (rv : option stmt) : list stmt :=
  SExpr (EmitAst.set_value (VStr text)) :: opt_list rv.

Lemma emit_fn_shape : forall o i text rv ann,
  kind_in_domain (fo_kind o) = true -> ir_internal i = None ->
  (forall kv, In kv (nkp i) -> typ_fits o (snd kv) /\ default_scalar (snd kv)) ->
  EmitAst.function_return_val (fo_pt o) i = Ok rv ->
  ret_ann_o o i = Ok ann ->
  emit_fn o i (Ok text) = Ok (SFunc fname (emitted_arguments o i) (emitted_body text rv) [] ann).
Proof.
  intros o i text rv ann Hk Hint Hps Hrv Hann.
  unfold emit_fn, EmitAst.emit_function.
  assert (Hf : EmitAst.py_or (Some fname) (ir_name i) = Ok (Some fname)) by reflexivity.
  rewrite Hf. cbn [bind].
  assert (Hkd : EmitAst.py_or (Some (fo_kind o)) (ir_type i) = Ok (Some (fo_kind o))).
  { destruct (kind_cases _ Hk) as [E|[E|E]]; rewrite E; reflexivity. }
  rewrite Hkd. cbn [bind].
  fold (nkp i).
  rewrite (map_outcome_map_ok (EmitAst.arg_of_param (fo_pt o) (fo_inline o))
                              (fun kv => mkArg (fst kv) (ann_of o (snd kv))) (nkp i)).
  2:{ intros [n g] Hin. cbn [fst snd]. apply arg_of_param_fits. apply (Hps _ Hin). }
  cbn [bind].
  rewrite (map_outcome_map_ok EmitAst.default_of_param (fun kv => dflt_of (snd kv)) (nkp i)).
  2:{ intros [n g] Hin. cbn [fst snd]. apply default_of_param_scalar. apply (Hps _ Hin). }
  cbn [bind].
  unfold EmitAst.get_internal_body. rewrite Hint. cbn [bind].
  rewrite Hrv. cbn [bind].
  unfold ret_ann_o in Hann. rewrite Hann. cbn [bind fst].
  unfold emitted_arguments, afp_of, dfp_of, kwarg_of, kwp, args0, emitted_body, EmitAst.set_arg.
  assert (Hbody : EmitAst.function_body_splice [] rv = opt_list rv).
  { unfold EmitAst.function_body_splice. destruct rv; reflexivity. }
  rewrite Hbody.
  destruct (fo_kwonly o); reflexivity.
Qed.

(* ------------------------------------------------------------------ *)
(* the unparse / re-parse step on the emitted function                 *)
(* ------------------------------------------------------------------ *)
(* the default node as it comes back *)
Definition rdflt (g : gparam) : expr :=
  match reparse_expr (dflt_of g) with Ok e => e | Err _ => dflt_of g end.

Definition rdfp_of (i : ir) : list expr := map (fun kv => rdflt (snd kv)) (nkp i).

Definition reparsed_arguments (o : fopts) (i : ir) : arguments :=
  if fo_kwonly o
  then mkArguments (args0 (fo_kind o)) [] (afp_of o i) (map Some (rdfp_of i)) None (kwarg_of i)
  else mkArguments (args0 (fo_kind o) ++ afp_of o i) (rdfp_of i) [] [] None (kwarg_of i).

(* annotations written by the emitter inside the guard are fixed points *)
Definition ann_stable (o : fopts) (g : gparam) : Prop := reparse_opt (ann_of o g) = Ok (ann_of o g).
Definition dflt_reparses (g : gparam) : Prop := exists e, reparse_expr (dflt_of g) = Ok e.

Lemma rdflt_ok : forall g, dflt_reparses g -> reparse_expr (dflt_of g) = Ok (rdflt g).
Proof. intros g [e He]. unfold rdflt. rewrite He. reflexivity. Qed.

Lemma reparse_args0 : forall k, mapM reparse_arg (args0 k) = Ok (args0 k).
Proof. intros k. unfold args0. destruct (str_eqb k (L "static")); reflexivity. Qed.

Lemma reparse_afp : forall o i, (forall kv, In kv (nkp i) -> ann_stable o (snd kv)) ->
  mapM reparse_arg (afp_of o i) = Ok (afp_of o i).
Proof.
  intros o i H. unfold afp_of. induction (nkp i) as [|[n g] l IH]; cbn [map mapM]; [reflexivity|].
  unfold reparse_arg at 1. cbn [a_ann a_name fst snd].
  pose proof (H (n, g) (or_introl eq_refl)) as Hs. unfold ann_stable in Hs. cbn [snd] in Hs. rewrite Hs. cbn [bind].
  rewrite IH by (intros kv Hkv; apply H; right; exact Hkv). reflexivity.
Qed.

Lemma reparse_dfp : forall i, (forall kv, In kv (nkp i) -> dflt_reparses (snd kv)) ->
  mapM reparse_expr (dfp_of i) = Ok (rdfp_of i).
Proof.
  intros i H. unfold dfp_of, rdfp_of. induction (nkp i) as [|[n g] l IH]; cbn [map mapM]; [reflexivity|].
  cbn [snd]. rewrite (rdflt_ok g (H (n, g) (or_introl eq_refl))). cbn [bind].
  rewrite IH by (intros kv Hkv; apply H; right; exact Hkv). reflexivity.
Qed.

Lemma reparse_dfp_opt : forall i, (forall kv, In kv (nkp i) -> dflt_reparses (snd kv)) ->
  mapM reparse_opt (map Some (dfp_of i)) = Ok (map Some (rdfp_of i)).
Proof.
  intros i H. unfold dfp_of, rdfp_of. induction (nkp i) as [|[n g] l IH]; cbn [map mapM]; [reflexivity|].
  cbn [snd reparse_opt]. rewrite (rdflt_ok g (H (n, g) (or_introl eq_refl))). cbn [bind].
  rewrite IH by (intros kv Hkv; apply H; right; exact Hkv). reflexivity.
Qed.

Lemma reparse_kwarg_of : forall i, reparse_opt_arg (kwarg_of i) = Ok (kwarg_of i).
Proof. intros i. unfold kwarg_of. destruct (kwp i) as [|kv r]; reflexivity. Qed.

Lemma reparse_emitted_arguments : forall o i,
  (forall kv, In kv (nkp i) -> ann_stable o (snd kv) /\ dflt_reparses (snd kv)) ->
  reparse_arguments (emitted_arguments o i) = Ok (reparsed_arguments o i).
Proof.
  intros o i H. unfold reparse_arguments, emitted_arguments, reparsed_arguments.
  assert (Ha : mapM reparse_arg (afp_of o i) = Ok (afp_of o i)) by (apply reparse_afp; intros kv Hkv; apply (H kv Hkv)).
  assert (Hd : mapM reparse_expr (dfp_of i) = Ok (rdfp_of i)) by (apply reparse_dfp; intros kv Hkv; apply (H kv Hkv)).
  assert (Hdo : mapM reparse_opt (map Some (dfp_of i)) = Ok (map Some (rdfp_of i)))
    by (apply reparse_dfp_opt; intros kv Hkv; apply (H kv Hkv)).
  destruct (fo_kwonly o); cbn [ar_args ar_defaults ar_kwonly ar_kw_defaults ar_vararg ar_kwarg].
  - rewrite reparse_args0. cbn [bind mapM]. rewrite Ha. cbn [bind]. rewrite Hdo. cbn [bind reparse_opt_arg].
    rewrite reparse_kwarg_of. reflexivity.
  - rewrite (mapM_app reparse_arg _ _ _ _ (reparse_args0 (fo_kind o)) Ha). cbn [bind]. rewrite Hd. cbn [bind mapM reparse_opt_arg].
    rewrite reparse_kwarg_of. reflexivity.
Qed.

Lemma fname_identifier : C06Spec.is_identifier fname = true.
Proof. vm_compute. reflexivity. Qed.

Lemma reparse_emitted : forall o i text rv rv' ann ann',
  (forall kv, In kv (nkp i) -> ann_stable o (snd kv) /\ dflt_reparses (snd kv)) ->
  mapM reparse_body_stmt (opt_list rv) = Ok (opt_list rv') ->
  reparse_opt ann = Ok ann' ->
  reparse_stmt (SFunc fname (emitted_arguments o i) (emitted_body text rv) [] ann)
  = Ok (SFunc fname (reparsed_arguments o i) (emitted_body text rv') [] ann').
Proof.
  intros o i text rv rv' ann ann' Hps Hrv Hann. unfold reparse_stmt. rewrite fname_identifier. cbn [negb].
  rewrite (reparse_emitted_arguments o i Hps). cbn [bind].
  unfold emitted_body. cbn [mapM]. unfold EmitAst.set_value at 1. cbn [reparse_body_stmt bind].
  rewrite Hrv. cbn [bind mapM]. rewrite Hann. cbn [bind]. reflexivity.
Qed.

(* ------------------------------------------------------------------ *)
(* parse.function on a function whose body starts with a docstring: the stages made explicit *)
(* ------------------------------------------------------------------ *)
Definition doc_returns_in (d : ir) : fld gparam := match ir_returns d with Has t => Has t | _ => FNone end.

Definition finish_returns (rets : fld gparam) : outcome (fld gparam) :=
  match rets with
  | Has p => do x <- set_name_and_type (L "return_type") p false true; Ok (Has (snd x))
  | y => Ok y
  end.

Lemma parse_fn_eq : forall d n a text rest r T app m params2 rets rets',
  arg_exprs_ok a = true ->
  kw_split a (ir_params d) = Ok (T, app) ->
  params_modelled T = true -> params_modelled (od_of_pairs (sig_pairs a (pos_args a))) = true ->
  merge_params id_perm T (od_of_pairs (sig_pairs a (pos_args a))) = Ok m ->
  set_names_and_types (append_kw app (sort_by_sig (sig_pos_names a) m)) false true = Ok params2 ->
  interpolate_return rest r (doc_returns_in d) = Ok rets ->
  finish_returns rets = Ok rets' ->
  exists it,
    parse_fn (Some d) (SFunc n a (SExpr (EConst (VStr text)) :: rest) [] r)
    = Ok (mkIR (Has n) (Has (get_function_type a)) (ir_doc d) params2 rets' it).
Proof.
  intros d n a text rest r T app m params2 rets rets' Hok Hkw HmT HmO Hm Hsnt Hir Hfin.
  unfold parse_fn, parse_function, pf_prepare. rewrite Hok. cbn [negb docstring_of bind tl].
  unfold kw_split in Hkw.
  set (internal' := match rest with
                    | [] => ir_internal d
                    | _ :: _ => Some (mkInternal rest (Has n) (Has (get_function_type a)))
                    end).
  assert (Hkw' : (match ar_kwarg a with
                  | Some k =>
                    match od_get (a_name k) (ir_params d) with
                    | Some p => if fld_present (g_typ p)
                                then Ok (od_pop (a_name k) (ir_params d),
                                         [(a_name k, mkG (g_doc p) (g_typ p) (Some (DV (VStr NoneStr))))])
                                else Err AssertionError
                    | None => Ok (ir_params d, [])
                    end
                  | None => Ok (ir_params d, [])
                  end) = Ok (T, app)) by exact Hkw.
  rewrite Hkw'. cbn [bind fst snd].
  unfold ir_merge. cbn [pp_target pp_other ir_params ir_returns ir_internal ir_name ir_type ir_doc].
  change (if str_eqb (get_function_type a) (L "static") then ar_args a else tl (ar_args a)) with (pos_args a).
  rewrite HmT, HmO. cbn [andb negb].
  rewrite Hm. cbn [bind].
  assert (Hmr : merge_returns id_perm (ir_returns d) FNone = Ok (doc_returns_in d)).
  { unfold merge_returns, doc_returns_in. destruct (ir_returns d); reflexivity. }
  rewrite Hmr. cbn [bind].
  unfold pf_finish. cbn [pp_append pp_sig pp_body pp_returns ir_params ir_returns ir_name ir_type ir_doc ir_internal].
  fold (sig_pos_names a). fold (append_kw app (sort_by_sig (sig_pos_names a) m)).
  rewrite Hsnt. cbn [bind]. rewrite Hir. cbn [bind].
  unfold finish_returns in Hfin.
  eexists.
  destruct rets as [| |p].
  - inversion Hfin; subst. cbn [bind]. unfold opt_or. reflexivity.
  - inversion Hfin; subst. cbn [bind]. unfold opt_or. reflexivity.
  - destruct (set_name_and_type (L "return_type") p false true) as [x|]; cbn [bind] in *; [|discriminate].
    inversion Hfin; subst. unfold opt_or. reflexivity.
Qed.

(* ------------------------------------------------------------------ *)
(* defaults, per value class                                           *)
(* ------------------------------------------------------------------ *)
(* the default an entry comes back with *)
Definition back (v : pyval) : dval := if in_none_types v then DV (VStr NoneStr) else DV v.

(* value texts of the domain *)
Definition value_ok (v : pyval) : bool :=
  match v with
  | VStr s => ascii_only s
  | VFloat r => negb (contains (L "nan") r) && negb (startswith (L "--") r) && negb (str_eqb r (L "-"))
  | _ => true
  end.

Definition str_ok (v : pyval) : bool :=
  match v with VStr s => in_none_types (VStr s) || str_keeps_quotes s | _ => true end.

Lemma in_none_types_NoneStr : in_none_types (VStr NoneStr) = true.
Proof. vm_compute. reflexivity. Qed.

Lemma in_none_types_VNone : in_none_types VNone = true.
Proof. vm_compute. reflexivity. Qed.

Lemma NoneStr_is_none_like : forall s, str_eqb s NoneStr = true -> in_none_types (VStr s) = true.
Proof. intros s H. apply str_eqb_eq in H. subst s. apply in_none_types_NoneStr. Qed.

Lemma not_none_not_NoneStr : forall s, in_none_types (VStr s) = false -> str_eqb s NoneStr = false.
Proof.
  intros s H. destruct (str_eqb s NoneStr) eqn:E; [|reflexivity]. rewrite (NoneStr_is_none_like s E) in H. discriminate.
Qed.

(* the default node as it comes back from unparse / re-parse, by value class *)
Lemma rdflt_none_like : forall g v, g_default g = Some (DV v) -> in_none_types v = true -> rdflt g = EConst VNone.
Proof. intros g v Hg Hv. unfold rdflt, dflt_of. rewrite Hg, Hv. reflexivity. Qed.

Lemma rdflt_bool : forall g b, g_default g = Some (DV (VBool b)) -> rdflt g = EConst (VBool b).
Proof. intros g b Hg. unfold rdflt, dflt_of. rewrite Hg. reflexivity. Qed.

Lemma rdflt_int : forall g z, g_default g = Some (DV (VInt z)) ->
  rdflt g = if (z <? 0)%Z then EUnary usub (EConst (VInt (- z))) else EConst (VInt z).
Proof. intros g z Hg. unfold rdflt, dflt_of. rewrite Hg. reflexivity. Qed.

Lemma rdflt_float : forall g r, g_default g = Some (DV (VFloat r)) -> contains (L "nan") r = false ->
  rdflt g = match r with
            | c :: r' => if ascii_eqb c (ch 45) then EUnary usub (EConst (VFloat r')) else EConst (VFloat r)
            | [] => EConst (VFloat r)
            end.
Proof.
  intros g r Hg Hn. unfold rdflt, dflt_of. rewrite Hg. cbn [in_none_types EmitAst.set_value reparse_expr].
  rewrite Hn. destruct r as [|c r']; [reflexivity|]. destruct (ascii_eqb c (ch 45)); reflexivity.
Qed.

Lemma rdflt_str : forall g s, g_default g = Some (DV (VStr s)) -> in_none_types (VStr s) = false ->
  str_keeps_quotes s = true -> ascii_only s = true -> rdflt g = EConst (VStr s).
Proof.
  intros g s Hg Hn Hk Ha. unfold rdflt, dflt_of. rewrite Hg, Hn. unfold EmitAst.set_value.
  unfold str_keeps_quotes in Hk. apply andb_true_iff in Hk. destruct Hk as [Hk _]. apply str_eqb_eq in Hk. rewrite Hk.
  cbn [reparse_expr]. rewrite Ha. reflexivity.
Qed.

Lemma dflt_reparses_ok : forall g v, g_default g = Some (DV v) -> value_ok v = true -> str_ok v = true ->
  dflt_reparses g.
Proof.
  intros g v Hg Hv Hs. unfold dflt_reparses, dflt_of. rewrite Hg.
  destruct (in_none_types v) eqn:En; [eexists; reflexivity|].
  destruct v as [|b|z|r|s]; cbn [EmitAst.set_value reparse_expr]; try (eexists; reflexivity).
  - cbn [value_ok] in Hv. apply andb_true_iff in Hv. destruct Hv as [Hv _]. apply andb_true_iff in Hv. destruct Hv as [Hv _].
    apply negb_true_iff in Hv. rewrite Hv. eexists; reflexivity.
  - cbn [str_ok] in Hs. rewrite En in Hs. cbn [orb] in Hs. unfold str_keeps_quotes in Hs.
    apply andb_true_iff in Hs. destruct Hs as [Hs _]. apply str_eqb_eq in Hs. rewrite Hs.
    cbn [value_ok] in Hv. rewrite Hv. eexists; reflexivity.
Qed.

(* the type an entry has after _infer_default, inside the guard *)
Definition rtyp (qt : fld str) (v : pyval) : fld str :=
  match qt with
  | Has t => Has t
  | x => if in_none_types v then x else Missing
  end.

Definition code_val (v : pyval) : bool :=
  match v with VStr s => code_quoted s && negb (str_eqb s NoneStr) | _ => false end.

Lemma unquote_keeps : forall s, str_keeps_quotes s = true -> unquote s = s.
Proof. intros s H. unfold str_keeps_quotes in H. apply andb_true_iff in H. destruct H as [_ H]. apply str_eqb_eq in H. exact H. Qed.

Lemma known_usub : known_unop usub = true.
Proof. vm_compute. reflexivity. Qed.

Lemma usub_is : str_eqb usub (L "USub") = true.
Proof. vm_compute. reflexivity. Qed.

Lemma neg_float_back : forall r', r' <> [] -> startswith [ch 45] r' = false -> neg_float_repr r' = ch 45 :: r'.
Proof.
  intros r' Hne H. unfold neg_float_repr. destruct r' as [|c x]; [congruence|].
  cbn [startswith] in H. rewrite andb_true_r in H. unfold ascii_eqb in *. rewrite Ascii.eqb_sym in H. rewrite H. reflexivity.
Qed.

(* _infer_default on the re-parsed default node of an in-guard entry: value and Python type come back *)
Lemma infer_default_codec : forall q g v nq,
  g_default g = Some (DV v) -> value_ok v = true -> str_ok v = true ->
  needs_quoting (fget (g_typ q)) = Ok nq ->
  (forall t, g_typ q = Has t -> code_val v = true -> contains [ch 91] t = true) ->
  (fld_is_none (g_typ q) = true -> in_none_types v || code_val v = true) ->
  infer_default q (DE (rdflt g)) false = Ok (mkG (g_doc q) (rtyp (g_typ q) v) (Some (back v))).
Proof.
  intros q g v nq Hg Hv Hs Hnq Hcode Hunt.
  destruct (in_none_types v) eqn:En.
  - (* None, "None", NoneStr: emitted as None *)
    rewrite (rdflt_none_like g v Hg En). rewrite infer_default_DE_const. cbn [none_to_NoneStr].
    unfold infer_default. cbn [bind dval_in_none_types]. rewrite in_none_types_NoneStr. cbn [andb bind].
    rewrite Hnq. cbn [bind]. rewrite orb_true_r. rewrite unquote_NoneStr.
    cbv beta iota delta [bind]. cbn [dval_is_NoneStr]. rewrite str_eqb_refl. cbn [negb andb]. rewrite andb_false_r.
    unfold back, rtyp. rewrite En. destruct (g_typ q); reflexivity.
  - unfold back. rewrite En.
    destruct v as [|b|z|r|s].
    + rewrite in_none_types_VNone in En. discriminate.
    + (* bool *)
      rewrite (rdflt_bool g b Hg). rewrite infer_default_DE_const. cbn [none_to_NoneStr].
      unfold infer_default. cbn [bind dval_in_none_types in_none_types andb]. rewrite Hnq. cbn [bind].
      rewrite orb_false_r.
      assert (Ht : exists t, g_typ q = Has t).
      { destruct (g_typ q) as [| |t] eqn:Eq; [| |eexists; reflexivity]; specialize (Hunt eq_refl); cbn in Hunt; discriminate. }
      destruct Ht as [t Ht]. rewrite Ht. cbn [fld_is_none andb]. destruct nq; cbn [bind dval_is_NoneStr negb code_quoted_dval andb rtyp]; reflexivity.
    + (* int *)
      assert (Ht : exists t, g_typ q = Has t).
      { destruct (g_typ q) as [| |t] eqn:Eq; [| |eexists; reflexivity]; specialize (Hunt eq_refl); cbn in Hunt; discriminate. }
      destruct Ht as [t Ht].
      rewrite (rdflt_int g z Hg). destruct (z <? 0)%Z eqn:Ez.
      * unfold infer_default. cbn [bind dval_in_none_types andb]. rewrite Ht. cbn [fld_is_none andb].
        cbn [expr_ok]. rewrite known_usub. cbn [is_opaque negb andb bind lit_eval]. rewrite usub_is.
        cbn [bind dval_of_lval lval_type_name]. cbn [dval_is_NoneStr negb code_quoted_dval andb rtyp].
        rewrite Z.opp_involutive. reflexivity.
      * rewrite infer_default_DE_const. cbn [none_to_NoneStr].
        unfold infer_default. cbn [bind dval_in_none_types in_none_types andb]. rewrite Hnq. cbn [bind].
        rewrite orb_false_r. rewrite Ht. cbn [fld_is_none andb].
        destruct nq; cbn [bind dval_is_NoneStr negb code_quoted_dval andb rtyp]; reflexivity.
    + (* float *)
      assert (Ht : exists t, g_typ q = Has t).
      { destruct (g_typ q) as [| |t] eqn:Eq; [| |eexists; reflexivity]; specialize (Hunt eq_refl); cbn in Hunt; discriminate. }
      destruct Ht as [t Ht].
      cbn [value_ok] in Hv. apply andb_true_iff in Hv. destruct Hv as [Hv Hdash].
      apply andb_true_iff in Hv. destruct Hv as [Hnan Hmm].
      apply negb_true_iff in Hnan. apply negb_true_iff in Hmm. apply negb_true_iff in Hdash.
      rewrite (rdflt_float g r Hg Hnan).
      assert (Hconst : infer_default q (DE (EConst (VFloat r))) false
                       = Ok (mkG (g_doc q) (rtyp (g_typ q) (VFloat r)) (Some (DV (VFloat r))))).
      { rewrite infer_default_DE_const. cbn [none_to_NoneStr].
        unfold infer_default. cbn [bind dval_in_none_types in_none_types andb]. rewrite Hnq. cbn [bind].
        rewrite orb_false_r. rewrite Ht. cbn [fld_is_none andb].
        destruct nq; cbn [bind dval_is_NoneStr negb code_quoted_dval andb rtyp]; reflexivity. }
      destruct r as [|c r']; [exact Hconst|].
      destruct (ascii_eqb c (ch 45)) eqn:Ec; [|exact Hconst].
      apply ascii_eqb_eq in Ec. subst c.
      assert (Hr' : startswith [ch 45] r' = false).
      { destruct r' as [|c2 x]; [reflexivity|]. cbn [startswith] in Hmm |- *.
        change (ascii_eqb (ch 45) (ch 45)) with true in Hmm. cbn [andb] in Hmm. exact Hmm. }
      unfold infer_default. cbn [bind dval_in_none_types andb]. rewrite Ht. cbn [fld_is_none andb].
      cbn [expr_ok]. rewrite known_usub. cbn [is_opaque negb andb bind lit_eval]. rewrite usub_is.
      cbn [bind dval_of_lval lval_type_name]. cbn [dval_is_NoneStr negb code_quoted_dval andb rtyp].
      rewrite (neg_float_back r' ltac:(intros ->; discriminate) Hr'). reflexivity.
    + (* str *)
      cbn [str_ok] in Hs. rewrite En in Hs. cbn [orb] in Hs. cbn [value_ok] in Hv.
      rewrite (rdflt_str g s Hg En Hs Hv). rewrite infer_default_DE_const. cbn [none_to_NoneStr].
      unfold infer_default. cbn [bind dval_in_none_types]. rewrite En. cbn [andb]. cbv beta iota delta [bind].
      rewrite Hnq. rewrite orb_true_r. rewrite (unquote_keeps s Hs). cbv beta iota delta [bind].
      cbn [dval_is_NoneStr]. rewrite (not_none_not_NoneStr s En). cbn [negb andb].
      cbn [code_quoted_dval dval_type_name type_name].
      destruct (g_typ q) as [| |t] eqn:Et; cbn [fld_is_none andb bind rtyp].
      * specialize (Hunt eq_refl). cbn [orb code_val] in Hunt.
        apply andb_true_iff in Hunt. destruct Hunt as [Hc _]. rewrite Hc, En.
        change (contains [ch 91] (L "str")) with false. reflexivity.
      * specialize (Hunt eq_refl). cbn [orb code_val] in Hunt.
        apply andb_true_iff in Hunt. destruct Hunt as [Hc _]. rewrite Hc, En.
        change (contains [ch 91] (L "str")) with false. reflexivity.
      * destruct (code_quoted s) eqn:Ec; [|reflexivity].
        rewrite (Hcode t eq_refl); [reflexivity|]. cbn [code_val]. rewrite Ec, (not_none_not_NoneStr s En). reflexivity.
Qed.

(* ------------------------------------------------------------------ *)
(* second half of _set_name_and_type, forwards                         *)
(* ------------------------------------------------------------------ *)
Definition rdoc (qd : fld str) : fld str :=
  match qd with Has (c :: r) => Has (reflow (c :: r)) | _ => Missing end.

Definition starts_optional (s : str) : bool := startswith (L "(Optional)") s || startswith (L "Optional") s.

Lemma snt_post_codec : forall qd rt dflt,
  (forall t, rt = Has t -> endswith google_opt t = false) ->
  (forall c r, qd = Has (c :: r) -> starts_optional (reflow (c :: r)) = true ->
               rt = Missing \/ exists t, rt = Has t /\ startswith (L "Optional[") t = true) ->
  snt_post (mkG qd rt dflt) true = Ok (mkG (rdoc qd) rt dflt).
Proof.
  intros qd rt dflt Hg Ho. unfold snt_post. cbn [g_typ g_doc g_default].
  destruct rt as [| |t].
  - destruct qd as [| |[|c r]]; try reflexivity.
    change (rstrip (join [sp] (map strip (split [nl] (c :: r))))) with (reflow (c :: r)). cbn [rdoc].
    destruct (startswith (L "(Optional)") (reflow (c :: r)) || startswith (L "Optional") (reflow (c :: r))); reflexivity.
  - destruct qd as [| |[|c r]]; try reflexivity.
    change (rstrip (join [sp] (map strip (split [nl] (c :: r))))) with (reflow (c :: r)). cbn [rdoc].
    destruct (startswith (L "(Optional)") (reflow (c :: r)) || startswith (L "Optional") (reflow (c :: r))) eqn:Eo; [|reflexivity].
    destruct (Ho c r eq_refl Eo) as [E|[t [E _]]]; discriminate.
  - rewrite (Hg t eq_refl).
    destruct qd as [| |[|c r]]; try reflexivity.
    change (rstrip (join [sp] (map strip (split [nl] (c :: r))))) with (reflow (c :: r)). cbn [rdoc].
    destruct (startswith (L "(Optional)") (reflow (c :: r)) || startswith (L "Optional") (reflow (c :: r))) eqn:Eo; [|reflexivity].
    destruct (Ho c r eq_refl Eo) as [E|[t' [E Hs]]]; [discriminate|]. inversion E; subst t'. rewrite Hs. reflexivity.
Qed.

(* one positional / keyword-only entry through _set_name_and_type *)
Lemma snt_param_codec : forall n q g v nq,
  kwargs_like n = false ->
  g_default q = Some (DE (rdflt g)) ->
  g_default g = Some (DV v) -> value_ok v = true -> str_ok v = true ->
  needs_quoting (fget (g_typ q)) = Ok nq ->
  (forall t, g_typ q = Has t -> code_val v = true -> contains [ch 91] t = true) ->
  (fld_is_none (g_typ q) = true -> in_none_types v || code_val v = true) ->
  (forall t, g_typ q = Has t -> endswith google_opt t = false) ->
  (forall c r, g_doc q = Has (c :: r) -> starts_optional (reflow (c :: r)) = true ->
               g_typ q = Missing \/ exists t, g_typ q = Has t /\ startswith (L "Optional[") t = true) ->
  snt_param n q false true = Ok (mkG (rdoc (g_doc q)) (rtyp (g_typ q) v) (Some (back v))).
Proof.
  intros n q g v nq Hk Hq Hg Hv Hs Hnq Hcode Hunt Hgo Hopt.
  unfold snt_param, snt_pre. rewrite Hk, Hq.
  rewrite (infer_default_codec q g v nq Hg Hv Hs Hnq Hcode Hunt). cbn [bind].
  apply snt_post_codec.
  - intros t Ht. unfold rtyp in Ht. destruct (g_typ q) as [| |t0] eqn:Eq.
    + destruct (in_none_types v); discriminate.
    + destruct (in_none_types v); discriminate.
    + inversion Ht; subst. apply Hgo; reflexivity.
  - intros c r Hd Hso. destruct (Hopt c r Hd Hso) as [Hm|[t [Ht Hst]]].
    + left. unfold rtyp. rewrite Hm. destruct (in_none_types v); reflexivity.
    + right. exists t. unfold rtyp. rewrite Ht. split; [reflexivity|exact Hst].
Qed.

(* ------------------------------------------------------------------ *)
(* the re-parsed argument list as parse.function reads it               *)
(* ------------------------------------------------------------------ *)
Definition nk_names (i : ir) : list str := map fst (nkp i).

Lemma afp_names : forall o i, map a_name (afp_of o i) = nk_names i.
Proof. intros o i. unfold afp_of, nk_names. rewrite map_map. reflexivity. Qed.

Definition not_self_cls (n : str) : bool := negb (str_eqb n (L "self") || str_eqb n (L "cls")).

(* kind preservation at the level of the argument list: get_function_type reads the kind back *)
Lemma found_type_kind : forall o i,
  kind_in_domain (fo_kind o) = true -> forallb not_self_cls (nk_names i) = true ->
  get_function_type (reparsed_arguments o i) = fo_kind o.
Proof.
  intros o i Hk Hn. unfold get_function_type, reparsed_arguments, args0.
  destruct (kind_cases _ Hk) as [E|[E|E]]; rewrite E.
  - change (str_eqb (L "static") (L "static")) with true. cbv iota.
    destruct (fo_kwonly o); cbn [ar_args app]; [reflexivity|].
    pose proof (afp_names o i) as Hnames.
    destruct (afp_of o i) as [|x l]; [reflexivity|]. cbn [map] in Hnames.
    destruct (nk_names i) as [|n ns]; [discriminate|]. inversion Hnames as [[Hx Hl]].
    cbn [forallb] in Hn. apply andb_true_iff in Hn. destruct Hn as [Hn _]. unfold not_self_cls in Hn.
    apply negb_true_iff in Hn. rewrite Hx, Hn. reflexivity.
  - change (str_eqb (L "self") (L "static")) with false. cbv iota.
    destruct (fo_kwonly o); reflexivity.
  - change (str_eqb (L "cls") (L "static")) with false. cbv iota.
    destruct (fo_kwonly o); reflexivity.
Qed.

Lemma pos_args_reparsed : forall o i,
  kind_in_domain (fo_kind o) = true -> forallb not_self_cls (nk_names i) = true ->
  pos_args (reparsed_arguments o i) = if fo_kwonly o then [] else afp_of o i.
Proof.
  intros o i Hk Hn. unfold pos_args. rewrite (found_type_kind o i Hk Hn).
  unfold reparsed_arguments, args0.
  destruct (kind_cases _ Hk) as [E|[E|E]]; rewrite E.
  - change (str_eqb (L "static") (L "static")) with true. cbv iota. destruct (fo_kwonly o); reflexivity.
  - change (str_eqb (L "self") (L "static")) with false. cbv iota. destruct (fo_kwonly o); reflexivity.
  - change (str_eqb (L "cls") (L "static")) with false. cbv iota. destruct (fo_kwonly o); reflexivity.
Qed.

Lemma kwonly_reparsed : forall o i, ar_kwonly (reparsed_arguments o i) = if fo_kwonly o then afp_of o i else [].
Proof. intros o i. unfold reparsed_arguments. destruct (fo_kwonly o); reflexivity. Qed.

Lemma sig_pos_names_reparsed : forall o i,
  kind_in_domain (fo_kind o) = true -> forallb not_self_cls (nk_names i) = true ->
  sig_pos_names (reparsed_arguments o i) = nk_names i.
Proof.
  intros o i Hk Hn. unfold sig_pos_names. rewrite (pos_args_reparsed o i Hk Hn), kwonly_reparsed.
  destruct (fo_kwonly o); cbn [map app]; rewrite ?app_nil_r; apply afp_names.
Qed.

(* positional vs keyword-only default alignment: in both layouts every parameter is paired with ITS default node *)
Definition sig_entry_of (o : fopts) (kv : str * gparam) : str * gparam :=
  func_arg2param (mkArg (fst kv) (ann_of o (snd kv))) (Some (rdflt (snd kv))).

Lemma map2_func_maps : forall o (l : list (str * gparam)),
  map2 func_arg2param (map (fun kv => mkArg (fst kv) (ann_of o (snd kv))) l)
       (map Some (map (fun kv => rdflt (snd kv)) l))
  = map (sig_entry_of o) l.
Proof. intros o l. induction l as [|kv l IH]; cbn [map map2]; [reflexivity|]. rewrite IH. reflexivity. Qed.

Lemma sig_pairs_reparsed : forall o i,
  kind_in_domain (fo_kind o) = true -> forallb not_self_cls (nk_names i) = true ->
  sig_pairs (reparsed_arguments o i) (pos_args (reparsed_arguments o i)) = map (sig_entry_of o) (nkp i).
Proof.
  intros o i Hk Hn. unfold sig_pairs. rewrite (pos_args_reparsed o i Hk Hn), kwonly_reparsed.
  unfold reparsed_arguments. destruct (fo_kwonly o); cbn [ar_defaults ar_kw_defaults map map2 app List.length].
  - rewrite pad_defaults_exact by (unfold afp_of, rdfp_of; rewrite !map_length; reflexivity).
    unfold afp_of, rdfp_of. apply map2_func_maps.
  - rewrite app_nil_r. rewrite pad_defaults_exact by (unfold afp_of, rdfp_of; rewrite !map_length; reflexivity).
    unfold afp_of, rdfp_of. apply map2_func_maps.
Qed.

Lemma sig_entries_keys : forall o l, od_keys (map (sig_entry_of o) l) = map fst l.
Proof. intros o l. unfold od_keys. rewrite map_map. reflexivity. Qed.

(* ------------------------------------------------------------------ *)
(* ir_merge, forwards                                                  *)
(* ------------------------------------------------------------------ *)
Definition no_DO (ps : list (str * gparam)) : Prop :=
  forall k o, od_get k ps = Some o -> forall r, g_default o <> Some (DO r).

Lemma merge_param_total : forall t o, (forall r, g_default o <> Some (DO r)) -> exists q, merge_param t o = Ok q.
Proof.
  intros t o H. unfold merge_param.
  match goal with |- context [if default_in_none_types ?d then _ else _] => destruct (default_in_none_types d) end;
    [|eexists; reflexivity].
  destruct (g_default o) as [[v|e|r]|]; try (eexists; reflexivity).
  - destruct v; cbn [not_in_none_frozenset bind]; eexists; reflexivity.
  - exfalso. apply (H r). reflexivity.
Qed.

Lemma inter_loop_ok : forall op l tp, no_DO op ->
  (forall k, In k l -> In k (od_keys tp) /\ In k (od_keys op)) ->
  exists tp', fold_outcome (inter_step op) l tp = Ok tp'.
Proof.
  intros op l; induction l as [|x l IH]; intros tp Hno H; cbn [fold_outcome]; [eexists; reflexivity|].
  destruct (H x (or_introl eq_refl)) as [Ht Ho].
  destruct (od_get_In_keys _ _ Ht) as [t Hgt]. destruct (od_get_In_keys _ _ Ho) as [o Hgo].
  destruct (merge_param_total t o (Hno x o Hgo)) as [q Hq].
  assert (Hs : inter_step op x tp = Ok (od_set x q tp)).
  { unfold inter_step. rewrite Hgt, Hgo, Hq. reflexivity. }
  rewrite Hs. cbn [bind]. apply IH; [exact Hno|].
  intros k Hk. destruct (H k (or_intror Hk)) as [Hkt Hko]. split; [|exact Hko].
  rewrite od_keys_set_present by exact Ht. exact Hkt.
Qed.

Lemma merge_params_ok : forall tp op, no_DO op -> exists m, merge_params id_perm tp op = Ok m.
Proof.
  intros tp op Hno. unfold merge_params.
  destruct tp as [|t0 tr]; [eexists; reflexivity|]. destruct op as [|o0 orr]; [eexists; reflexivity|].
  destruct (inter_loop_ok (o0 :: orr) (id_perm (inter_keys (o0 :: orr) (t0 :: tr))) (t0 :: tr) Hno) as [tp' Htp'].
  - intros k Hk. unfold id_perm in Hk. apply inter_keys_spec in Hk. tauto.
  - unfold inter_loop. rewrite Htp'. cbn [bind]. eexists; reflexivity.
Qed.

(* merging a docstring entry that carries no default with a signature entry *)
Definition sig_typ (x : arg) : fld str :=
  match a_ann x with None => FNone | Some e => Has (rstrip_chars [nl] (show_expr e)) end.

Definition mtyp (tt : fld str) (x : arg) : fld str :=
  if fld_is_none tt && fld_truthy (sig_typ x) then sig_typ x else tt.

Lemma default_in_none_types_None : default_in_none_types None = true.
Proof. vm_compute. reflexivity. Qed.

Lemma merge_doc_sig : forall t x e, g_default t = None ->
  merge_param t (sig_gparam x (Some e)) = Ok (mkG (g_doc t) (mtyp (g_typ t) x) (Some (DE e))).
Proof.
  intros t x e Hd. unfold merge_param, sig_gparam, func_arg2param, mtyp, sig_typ.
  cbn [snd g_doc g_typ g_default option_map].
  destruct t as [td tt tdf]. cbn [g_doc g_typ g_default] in *. subst tdf.
  destruct (a_ann x) as [a|].
  - destruct (rstrip_chars [nl] (show_expr a)) as [|c s];
      destruct td as [| |[|cd sd]]; destruct tt as [| |ty]; cbn [fld_truthy fld_is_none andb negb g_doc g_typ g_default];
      rewrite default_in_none_types_None; reflexivity.
  - destruct td as [| |[|cd sd]]; destruct tt as [| |ty]; cbn [fld_truthy fld_is_none andb negb g_doc g_typ g_default];
      rewrite default_in_none_types_None; reflexivity.
Qed.

(* ------------------------------------------------------------------ *)
(* lists with distinct names                                           *)
(* ------------------------------------------------------------------ *)
Lemma In_fst_unique : forall (P : list (str * gparam)) n g g',
  NoDup (map fst P) -> In (n, g) P -> In (n, g') P -> g = g'.
Proof.
  intros P n g g' Hnd H1 H2.
  assert (E1 : od_get n P = Some g) by (apply In_od_get; assumption).
  assert (E2 : od_get n P = Some g') by (apply In_od_get; assumption).
  congruence.
Qed.

Lemma list_eqb_str_eq : forall a b : list str, list_eqb str_eqb a b = true -> a = b.
Proof. intros a b H. apply (EmitAstFacts.list_eqb_eq_simple str_eqb); [|exact H]. intros x y E. apply str_eqb_eq; exact E. Qed.

Lemma kwargs_split : forall P : list (str * gparam),
  kwargs_last (map fst P) = true ->
  P = filter EmitAst.no_kwargs P ++ filter (fun kv => negb (EmitAst.no_kwargs kv)) P
  /\ (filter (fun kv => negb (EmitAst.no_kwargs kv)) P = []
      \/ exists kv, filter (fun kv => negb (EmitAst.no_kwargs kv)) P = [kv]).
Proof.
  induction P as [|x P IH]; intros H; [split; [reflexivity|left; reflexivity]|].
  destruct P as [|y P'].
  - cbn [filter]. destruct (EmitAst.no_kwargs x); cbn [negb app]; split; try reflexivity; [left|right; exists x]; reflexivity.
  - assert (Hx : EmitAst.no_kwargs x = true /\ kwargs_last (map fst (y :: P')) = true).
    { unfold kwargs_last in *. cbn [map removelast] in H.
      change (removelast (fst x :: fst y :: map fst P')) with (fst x :: removelast (fst y :: map fst P')) in H.
      cbn [forallb] in H. apply andb_true_iff in H. destruct H as [H1 H2]. split; [exact H1|exact H2]. }
    destruct Hx as [Hx Hr]. destruct (IH Hr) as [IH1 IH2].
    cbn [filter]. rewrite Hx. cbn [negb app].
    change (filter EmitAst.no_kwargs (y :: P')) with (filter EmitAst.no_kwargs (y :: P')) in *.
    split; [f_equal; exact IH1|exact IH2].
Qed.

(* ------------------------------------------------------------------ *)
(* reading the guard                                                   *)
(* ------------------------------------------------------------------ *)
Lemma first_class_None : forall f ps, first_class f ps = None -> forall n g, In (n, g) ps -> f n g = None.
Proof.
  intros f ps; induction ps as [|[n0 g0] ps IH]; intros H n g Hin; [destruct Hin|].
  cbn [first_class] in H. destruct (f n0 g0) eqn:E; [discriminate|].
  destruct Hin as [Hin|Hin]; [inversion Hin; subst; exact E|apply IH; assumption].
Qed.

Record guard_facts (o : fopts) (i : ir) : Prop := mkGF {
  gf_kind : kind_in_domain (fo_kind o) = true;
  gf_nodup : NoDup (map fst (ir_params i));
  gf_names : forall n, In n (map fst (ir_params i)) -> name_in_domain n = true;
  gf_kwlast : kwargs_last (map fst (ir_params i)) = true;
  gf_entries : forall n g, In (n, g) (ir_params i) -> entry_in_domain g = true;
  gf_ret_dom : match ir_returns i with Has g => entry_in_domain g = true | Missing => False | FNone => True end;
  gf_internal : ir_internal i = None;
  gf_params : forall n g, In (n, g) (ir_params i) -> C03Spec.param_class o n g = None;
  gf_ret : forall g, ir_returns i = Has g -> C03Spec.return_class o g = None
}.

Lemma guard_inv : forall o i, guard_C03 o i = true -> guard_facts o i.
Proof.
  intros o i H. unfold guard_C03 in H. apply andb_true_iff in H. destruct H as [Hd Hc].
  unfold C03_domain in Hd. repeat (apply andb_true_iff in Hd; destruct Hd as [Hd ?]).
  destruct (finding_class_C03 o i) eqn:Ef; [discriminate|]. unfold finding_class_C03 in Ef.
  match type of Ef with (if ?c then _ else _) = None => destruct c; [discriminate|] end.
  match type of Ef with (if ?c then _ else _) = None => destruct c; [discriminate|] end.
  destruct (first_class (C03Spec.param_class o) (ir_params i)) eqn:Efc; [discriminate|].
  constructor.
  - exact Hd.
  - apply strs_distinct_NoDup. assumption.
  - intros n Hn. match goal with Hx : forallb name_in_domain _ = true |- _ => rewrite forallb_forall in Hx; apply Hx; exact Hn end.
  - assumption.
  - intros n g Hin. match goal with Hx : forallb (fun kv => entry_in_domain (snd kv)) _ = true |- _ =>
      rewrite forallb_forall in Hx; apply (Hx (n, g) Hin) end.
  - destruct (ir_returns i); [discriminate|exact I|assumption].
  - destruct (ir_internal i); [discriminate|reflexivity].
  - intros n g Hin. eapply first_class_None; eassumption.
  - intros g Hg. rewrite Hg in Ef. exact Ef.
Qed.

Lemma entry_value_ok : forall g v, entry_in_domain g = true -> g_default g = Some (DV v) -> value_ok v = true.
Proof.
  intros g v H Hv. unfold entry_in_domain in H. repeat (apply andb_true_iff in H; destruct H as [H ?]).
  rewrite Hv in *. destruct v; try reflexivity; assumption.
Qed.

Lemma entry_fields : forall g, entry_in_domain g = true ->
  g_doc g <> FNone /\ (g_typ g = Missing \/ exists c t, g_typ g = Has (c :: t))
  /\ (g_default g = None \/ exists v, g_default g = Some (DV v)).
Proof.
  intros g H. unfold entry_in_domain in H. repeat (apply andb_true_iff in H; destruct H as [H ?]).
  split; [destruct (g_doc g); congruence|]. split.
  - destruct (g_typ g) as [| |[|c t]]; try discriminate; [left; reflexivity|right; eauto].
  - destruct (g_default g) as [[v|e|r]|]; try discriminate; [right; eauto|left; reflexivity].
Qed.

(* a positional / keyword-only parameter outside every class *)
Record param_facts (o : fopts) (g : gparam) (v : pyval) : Prop := mkPF {
  pf_default : g_default g = Some (DV v);
  pf_value : value_ok v = true;
  pf_str : str_ok v = true;
  pf_prose : prose_class g = None;
  pf_typed : forall t, g_typ g = Has t ->
             typ_parses t = true /\ (fo_inline o = true -> typ_inline_ok t = true)
             /\ (fo_inline o = false -> has_prose g = true)
             /\ (code_val v = true -> contains [ch 91] t = true);
  pf_untyped : g_typ g = Missing -> in_none_types v || code_val v = true
}.

Lemma param_class_inv : forall o n g, kwargs_name n = false -> entry_in_domain g = true ->
  C03Spec.param_class o n g = None -> exists v, param_facts o g v.
Proof.
  intros o n g Hk Hdom H. unfold C03Spec.param_class in H. rewrite Hk in H.
  destruct (prose_class g) eqn:Ep; [discriminate|].
  destruct (g_default g) as [dv|] eqn:Ed; [|discriminate].
  destruct (entry_fields g Hdom) as (_ & _ & [Hn|[v Hv]]); [congruence|].
  rewrite Ed in Hv. inversion Hv; subst dv. exists v.
  match type of H with (if ?c then _ else _) = None => destruct c eqn:Eq; [discriminate|] end.
  assert (Hstr : str_ok v = true).
  { destruct v as [| | | |s]; try reflexivity. cbn [dv_str] in Eq. cbn [str_ok].
    destruct (in_none_types (VStr s)); [reflexivity|]. cbn [negb andb orb] in *. apply negb_false_iff in Eq. exact Eq. }
  constructor; try assumption.
  - exact (entry_value_ok g v Hdom Ed).
  - intros t Ht. rewrite Ht in H.
    destruct (typ_parses t); [|discriminate]. cbn [negb] in H.
    destruct (fo_inline o) eqn:Ei; cbn [andb negb] in H.
    + destruct (typ_inline_ok t); [|discriminate]. cbn [negb] in H.
      destruct (C02Spec.d_code_quoted (DV v) && negb (contains [ch 91] t)) eqn:Ec; [discriminate|].
      split; [reflexivity|]. split; [reflexivity|]. split; [discriminate|].
      intros Hcv. destruct v as [| | | |s]; try discriminate. cbn [C02Spec.d_code_quoted code_val] in *.
      rewrite Hcv in Ec. cbn [andb] in Ec. apply negb_false_iff in Ec. exact Ec.
    + destruct (has_prose g); [|discriminate]. cbn [negb] in H.
      destruct (C02Spec.d_code_quoted (DV v) && negb (contains [ch 91] t)) eqn:Ec; [discriminate|].
      split; [reflexivity|]. split; [discriminate|]. split; [reflexivity|].
      intros Hcv. destruct v as [| | | |s]; try discriminate. cbn [C02Spec.d_code_quoted code_val] in *.
      rewrite Hcv in Ec. cbn [andb] in Ec. apply negb_false_iff in Ec. exact Ec.
  - intros Ht. rewrite Ht in H.
    destruct (C02Spec.d_none_like (DV v) || C02Spec.d_code_quoted (DV v)) eqn:Eu; [|discriminate].
    destruct v as [|b|z|r|s]; exact Eu.
Qed.

(* ------------------------------------------------------------------ *)
(* annotations                                                         *)
(* ------------------------------------------------------------------ *)
Lemma simple_type_rstrip : forall t, in_simple_types t = true -> rstrip_chars [nl] t = t /\ t <> [].
Proof.
  intros t H. unfold in_simple_types in H. apply existsb_exists in H. destruct H as [x [Hin Hx]].
  apply str_eqb_eq in Hx. subst x. unfold Extracted.simple_type_names in Hin.
  repeat (destruct Hin as [<-|Hin]; [split; [vm_compute; reflexivity|discriminate]|]). destruct Hin.
Qed.

Lemma ann_of_typed : forall o g t, fo_inline o = true -> g_typ g = Has t -> typ_inline_ok t = true ->
  exists e, ann_of o g = Some e /\ reparse_expr e = Ok e /\ expr_ok e = true /\ rstrip_chars [nl] (show_expr e) = t.
Proof.
  intros o g t Hi Ht Hok. unfold ann_of. rewrite Hi, Ht. unfold typ_inline_ok in Hok.
  destruct (in_simple_types t) eqn:Es.
  - exists (EName t). split; [reflexivity|]. split; [reflexivity|]. split; [reflexivity|].
    cbn [show_expr show_prec]. apply (simple_type_rstrip t Es).
  - cbn [orb] in Hok. destruct (EmitAst.ast_parse_fix [] t) as [e|]; [|discriminate].
    unfold expr_prints_as in Hok. apply andb_true_iff in Hok. destruct Hok as [Hok Hs].
    apply andb_true_iff in Hok. destruct Hok as [Hr He].
    exists e. split; [reflexivity|].
    destruct (reparse_expr e) as [e'|] eqn:Er; [|discriminate]. apply expr_eqb_true in Hr. subst e'.
    split; [reflexivity|]. split; [exact He|]. apply str_eqb_eq; exact Hs.
Qed.

Lemma ann_of_none : forall o g, fo_inline o = false \/ g_typ g = Missing -> ann_of o g = None.
Proof. intros o g [H|H]; unfold ann_of; rewrite H; [reflexivity|]. destruct (fo_inline o); reflexivity. Qed.

(* ------------------------------------------------------------------ *)
(* the docstring-derived IR, entry by entry                            *)
(* ------------------------------------------------------------------ *)
Lemma doc_lookup : forall et P D n g,
  NoDup (map fst P) -> doc_params_agree et P D = true -> In (n, g) P ->
  if has_prose g then exists dp, od_get n D = Some dp /\ doc_entry_agrees et n g dp = true
  else od_get n D = None.
Proof.
  intros et P D n g Hnd H Hin. unfold doc_params_agree in H. apply andb_true_iff in H. destruct H as [Hk Hf].
  apply list_eqb_str_eq in Hk. destruct (has_prose g) eqn:Ep.
  - rewrite forallb_forall in Hf. specialize (Hf (n, g)). cbn [fst snd] in Hf.
    assert (Hd : In (n, g) (documented P)) by (unfold documented; apply filter_In; auto).
    destruct (od_get n D) as [dp|]; [exists dp; split; [reflexivity|exact (Hf Hd)]|]. specialize (Hf Hd). discriminate.
  - apply od_get_None_iff. rewrite <- Hk. unfold documented, od_keys. intros Hx. apply in_map_iff in Hx.
    destruct Hx as [[n' g'] [Hn Hx]]. cbn [fst] in Hn. subst n'. apply filter_In in Hx. destruct Hx as [Hx Hp]. cbn [snd] in Hp.
    rewrite (In_fst_unique P n g g' Hnd Hin Hx) in Ep. congruence.
Qed.

Lemma doc_keys_sub : forall et P D k, doc_params_agree et P D = true -> In k (od_keys D) ->
  exists g, In (k, g) P /\ has_prose g = true.
Proof.
  intros et P D k H Hk. unfold doc_params_agree in H. apply andb_true_iff in H. destruct H as [He _].
  apply list_eqb_str_eq in He. rewrite <- He in Hk. unfold documented, od_keys in Hk. apply in_map_iff in Hk.
  destruct Hk as [[n g] [Hn Hx]]. cbn [fst] in Hn. subst n. apply filter_In in Hx. exists g. exact Hx.
Qed.

Lemma doc_keys_NoDup : forall et P D, NoDup (map fst P) -> doc_params_agree et P D = true -> NoDup (od_keys D).
Proof.
  intros et P D Hnd H. unfold doc_params_agree in H. apply andb_true_iff in H. destruct H as [He _].
  apply list_eqb_str_eq in He. rewrite <- He. unfold documented.
  change (od_keys (filter (fun kv : str * gparam => has_prose (snd kv)) P)) with (map fst (filter (fun kv : str * gparam => has_prose (snd kv)) P)).
  clear - Hnd. induction P as [|[n g] P IH]; cbn [filter map]; [constructor|].
  cbn [map fst] in Hnd. inversion Hnd as [|? ? Hn Hr]; subst. cbn [snd]. destruct (has_prose g); cbn [map fst].
  - constructor; [|apply IH; exact Hr]. intros Hx. apply Hn. apply in_map_iff in Hx. destruct Hx as [kv [Hk Hx]].
    apply filter_In in Hx. apply in_map_iff. exists kv. tauto.
  - apply IH; exact Hr.
Qed.

(* ------------------------------------------------------------------ *)
(* names of the domain                                                 *)
(* ------------------------------------------------------------------ *)
Lemma id_start_not_star : forall c, is_id_start c = true -> ascii_eqb c (ch 42) = false.
Proof.
  intros c H. destruct (ascii_eqb c (ch 42)) eqn:E; [|reflexivity].
  apply ascii_eqb_eq in E. subst c. vm_compute in H. discriminate.
Qed.

Lemma name_facts : forall n, name_in_domain n = true ->
  name_ok n = true /\ not_self_cls n = true /\ startswith (L "**") n = false /\ n <> L "return_type".
Proof.
  intros n H. unfold name_in_domain in H. apply andb_true_iff in H. destruct H as [Hi Hr].
  unfold C06Spec.is_identifier in Hi. destruct n as [|c r]; [discriminate|].
  repeat (apply andb_true_iff in Hi; destruct Hi as [Hi ?]).
  pose proof (id_start_not_star c Hi) as Hc.
  unfold reserved_name in Hr. apply negb_true_iff in Hr. apply orb_false_iff in Hr. destruct Hr as [Hr Hrt].
  split; [cbn [name_ok]; rewrite Hc; reflexivity|]. split; [unfold not_self_cls; rewrite Hr; reflexivity|].
  split.
  - destruct (startswith (L "**") (c :: r)) eqn:E; [|reflexivity]. apply startswith_iff in E. destruct E as [x E].
    cbn in E. inversion E; subst c. vm_compute in Hc. discriminate.
  - intros E. rewrite E in Hrt. vm_compute in Hrt. discriminate.
Qed.

Lemma kwargs_like_name : forall n, name_in_domain n = true -> kwargs_like n = kwargs_name n.
Proof.
  intros n H. destruct (name_facts n H) as (_ & _ & Hs & _). unfold kwargs_like, kwargs_name. rewrite Hs. apply orb_false_r.
Qed.

Lemma reflow_nil : reflow [] = [].
Proof. vm_compute. reflexivity. Qed.

Lemma pyval_eqb_rfl : forall v, pyval_eqb v v = true.
Proof. exact C07Facts.pyval_eqb_refl. Qed.

Lemma same_default_back : forall v, C02Spec.same_default (DV v) (back v) = true.
Proof.
  intros v. unfold C02Spec.same_default, back. destruct (in_none_types v) eqn:E.
  - cbn [C02Spec.d_none_like]. rewrite E, in_none_types_NoneStr. reflexivity.
  - cbn [C02Spec.d_none_like dval_eqb]. rewrite E, pyval_eqb_rfl. reflexivity.
Qed.

Lemma typ_parses_nq : forall t, typ_parses t = true ->
  exists nq, needs_quoting (Some t) = Ok nq /\ endswith google_opt t = false.
Proof.
  intros t H. unfold typ_parses in H. apply andb_true_iff in H. destruct H as [H1 H2]. apply negb_true_iff in H2.
  destruct (needs_quoting (Some t)) as [nq|]; [exists nq; split; [reflexivity|exact H2]|discriminate].
Qed.

(* ------------------------------------------------------------------ *)
(* one positional / keyword-only parameter, from the IR through the signature and the docstring back to the IR *)
(* ------------------------------------------------------------------ *)
Lemma param_entry_codec : forall o n g v dpo,
  param_facts o g v -> entry_in_domain g = true -> name_in_domain n = true -> kwargs_name n = false ->
  (if has_prose g then exists dp, dpo = Some dp /\ doc_entry_agrees (negb (fo_inline o)) n g dp = true
   else dpo = None) ->
  exists q rp,
    (match dpo with
     | Some t => merge_param t (sig_gparam (mkArg n (ann_of o g)) (Some (rdflt g))) = Ok q
     | None => q = sig_gparam (mkArg n (ann_of o g)) (Some (rdflt g))
     end)
    /\ snt_param n q false true = Ok rp /\ same_param_fn g rp = true.
Proof.
  intros o n g v dpo F Hdom Hname Hkw Hdoc.
  destruct F as [Hdef Hval Hstr Hprose Htyped Huntyped].
  destruct (entry_fields g Hdom) as (Hdocf & Htypf & _).
  assert (Hkl : kwargs_like n = false) by (rewrite (kwargs_like_name n Hname); exact Hkw).
  (* the annotation and what it prints as *)
  assert (Hsig : (fo_inline o = true /\ exists t e, g_typ g = Has t /\ ann_of o g = Some e /\ expr_ok e = true
                                          /\ rstrip_chars [nl] (show_expr e) = t)
                 \/ ((fo_inline o = false \/ g_typ g = Missing) /\ ann_of o g = None)).
  { destruct (fo_inline o) eqn:Ei.
    - destruct Htypf as [Hm|[c [t Ht]]].
      + right. split; [right; exact Hm|]. apply ann_of_none. right; exact Hm.
      + left. split; [reflexivity|]. destruct (Htyped _ Ht) as (_ & Hin & _).
        destruct (ann_of_typed o g (c :: t) Ei Ht (Hin eq_refl)) as (e & He & _ & Hok & Hshow).
        exists (c :: t), e. auto.
    - right. split; [left; reflexivity|]. apply ann_of_none. left; exact Ei. }
  (* the merged entry: prose of the docstring entry, the declared type, the re-parsed default node *)
  assert (Hq : exists q, (match dpo with
                          | Some t => merge_param t (sig_gparam (mkArg n (ann_of o g)) (Some (rdflt g))) = Ok q
                          | None => q = sig_gparam (mkArg n (ann_of o g)) (Some (rdflt g))
                          end)
                         /\ g_default q = Some (DE (rdflt g))
                         /\ (g_typ q = g_typ g \/ (g_typ q = FNone /\ g_typ g = Missing /\ g_doc q = FNone))
                         /\ (match prose_of g with
                             | Some x => exists c r, g_doc q = Has (c :: r) /\ reflow (c :: r) = x
                             | None => g_doc q = FNone
                             end)).
  { unfold has_prose in Hdoc. destruct (prose_of g) as [x|] eqn:Epr.
    - destruct Hdoc as [dp [-> Hag]]. unfold doc_entry_agrees in Hag. rewrite Epr, Hkw in Hag.
      apply andb_true_iff in Hag. destruct Hag as [Hy Hrest]. apply andb_true_iff in Hrest. destruct Hrest as [Hty Hdf].
      destruct (g_doc dp) as [| |y] eqn:Edoc; try discriminate. apply str_eqb_eq in Hy.
      destruct (g_default dp) eqn:Edd; [discriminate|].
      eexists. split; [apply merge_doc_sig; exact Edd|]. cbn [g_default g_typ g_doc]. split; [reflexivity|]. split.
      + left. unfold mtyp, sig_typ. cbn [a_ann].
        destruct Hsig as [[Hi [t [e [Ht [He [_ Hshow]]]]]]|[Hor Hnone]].
        * rewrite Hi in Hty. cbn [negb] in Hty. destruct (g_typ dp); try discriminate.
          rewrite He, Hshow. cbn [fld_is_none andb]. rewrite Ht.
          destruct Htypf as [Hm|[c [t' Ht']]]; [congruence|]. rewrite Ht in Ht'. inversion Ht'; subst t. reflexivity.
        * rewrite Hnone. cbn [fld_truthy]. rewrite andb_false_r.
          destruct Hor as [Hi|Hm].
          -- rewrite Hi in Hty. cbn [negb] in Hty. destruct (g_typ dp) as [| |a], (g_typ g) as [| |b]; try discriminate; try reflexivity.
             cbn [fld_eqb] in Hty. apply str_eqb_eq in Hty. subst; reflexivity.
          -- rewrite Hm in *. destruct (negb (fo_inline o)); destruct (g_typ dp); try discriminate; reflexivity.
      + destruct y as [|c r]; [rewrite reflow_nil in Hy; unfold prose_of, C02Spec.prose_of in Epr;
                               destruct (g_doc g) as [| |[|? ?]]; try discriminate; inversion Epr; subst; discriminate|].
        exists c, r. split; [exact Edoc|symmetry; exact Hy].
    - subst dpo. eexists. split; [reflexivity|]. unfold sig_gparam, func_arg2param. cbn [snd g_default g_typ g_doc a_ann].
      split; [reflexivity|]. split; [|reflexivity].
      destruct Hsig as [[Hi [t [e [Ht [He [_ Hshow]]]]]]|[Hor Hnone]].
      + left. rewrite He, Hshow, Ht. reflexivity.
      + rewrite Hnone. destruct Hor as [Hi|Hm]; [|right; split; [reflexivity|split; [exact Hm|reflexivity]]].
        destruct Htypf as [Hm|[c [t Ht]]]; [right; split; [reflexivity|split; [exact Hm|reflexivity]]|].
        destruct (Htyped _ Ht) as (_ & _ & Hpr & _). specialize (Hpr Hi). unfold has_prose in Hpr. rewrite Epr in Hpr. discriminate. }
  destruct Hq as (q & Hmerge & Hqd & Hqt & Hqdoc).
  (* needs_quoting of the effective type *)
  assert (Hnq : exists nq, needs_quoting (fget (g_typ q)) = Ok nq).
  { destruct Hqt as [Hqt|[Hqt [Hm _]]]; rewrite Hqt.
    - destruct Htypf as [Hm|[c [t Ht]]]; [rewrite Hm; eexists; reflexivity|].
      rewrite Ht. destruct (Htyped _ Ht) as (Hp & _). destruct (typ_parses_nq _ Hp) as [nq [Hnq _]].
      exists nq. exact Hnq.
    - eexists; reflexivity. }
  destruct Hnq as [nq Hnq].
  exists q. eexists. split; [exact Hmerge|]. split.
  - apply (snt_param_codec n q g v nq Hkl Hqd Hdef Hval Hstr Hnq).
    + intros t Ht Hc. destruct Hqt as [Hqt|[Hqt _]]; [|congruence]. rewrite Hqt in Ht.
      destruct (Htyped _ Ht) as (_ & _ & _ & Hb). apply Hb; exact Hc.
    + intros Hn. apply Huntyped. destruct Hqt as [Hqt|[_ [Hm _]]]; [|exact Hm]. rewrite Hqt in Hn.
      destruct Htypf as [Hm|[c [t Ht]]]; [exact Hm|]. rewrite Ht in Hn. discriminate.
    + intros t Ht. destruct Hqt as [Hqt|[Hqt _]]; [|congruence]. rewrite Hqt in Ht.
      destruct (Htyped _ Ht) as (Hp & _). destruct (typ_parses_nq _ Hp) as [nq' [_ Hg]]. exact Hg.
    + intros c r Hd Hso. destruct (prose_of g) as [x|] eqn:Epr; [|rewrite Hqdoc in Hd; discriminate].
      destruct Hqdoc as (c' & r' & Hd' & Hrf). rewrite Hd in Hd'. inversion Hd'; subst c' r'. rewrite Hrf in Hso.
      unfold prose_class in Hprose. rewrite Epr in Hprose.
      destruct (negb (prose_safe x)); [discriminate|].
      change (C02Spec.prose_starts_optional x) with (starts_optional x) in Hprose. rewrite Hso in Hprose. cbn [andb] in Hprose.
      destruct Hqt as [Hqt|[_ [_ Hfn]]]; [|congruence].
      rewrite Hqt. destruct (g_typ g) as [| |t]; [left; reflexivity|destruct Htypf as [Hm|[? [? Ht]]]; discriminate|].
      right. exists t. split; [reflexivity|]. destruct (startswith (L "Optional[") t); [reflexivity|discriminate].
  - unfold same_param_fn. cbn [g_typ g_doc g_default].
    apply andb_true_iff. split; [apply andb_true_iff; split|].
    + (* type *)
      unfold C02Spec.same_typ. cbn [g_typ].
      destruct Hqt as [Hqt|[Hqt [Hm _]]]; rewrite Hqt.
      * destruct Htypf as [Hm|[c [t Ht]]].
        -- rewrite Hm. cbn [rtyp fget]. destruct (in_none_types v); reflexivity.
        -- rewrite Ht. cbn [rtyp fget C02Spec.opt_str_eqb]. apply str_eqb_refl.
      * rewrite Hm. cbn [rtyp fget]. destruct (in_none_types v); reflexivity.
    + (* prose *)
      unfold C02Spec.same_prose. fold (prose_of g). cbn [g_doc].
      destruct (prose_of g) as [x|] eqn:Epr.
      * destruct Hqdoc as (c & r & Hd & Hrf). rewrite Hd. cbn [rdoc]. rewrite Hrf.
        unfold prose_of, C02Spec.prose_of in Epr. destruct (g_doc g) as [| |[|c0 r0]]; try discriminate. inversion Epr; subst x.
        cbn [C02Spec.prose_of g_doc C02Spec.opt_str_eqb]. apply str_eqb_refl.
      * rewrite Hqdoc. reflexivity.
    + (* default *)
      unfold C02Spec.default_same. cbn [g_default]. rewrite Hdef. apply same_default_back.
Qed.

(* ------------------------------------------------------------------ *)
(* the ** parameter                                                    *)
(* ------------------------------------------------------------------ *)
Definition opt_dict : str := L "Optional[dict]".

Lemma fld_eqb_eq : forall a b, fld_eqb a b = true -> a = b.
Proof. intros [| |a] [| |b] H; try discriminate; try reflexivity. cbn in H. apply str_eqb_eq in H. subst; reflexivity. Qed.

Lemma kwargs_entry_codec : forall et kn kg dp,
  kwargs_name kn = true -> kwargs_class kg = None -> doc_entry_agrees et kn kg dp = true ->
  fld_present (g_typ dp) = true
  /\ exists rp, snt_param kn (mkG (g_doc dp) (g_typ dp) (Some (DV (VStr NoneStr)))) false true = Ok rp
                /\ same_param_fn kg rp = true.
Proof.
  intros et kn kg dp Hkn Hcls Hag. unfold kwargs_class in Hcls.
  destruct (has_prose kg) eqn:Ehp; [|discriminate]. cbn [negb] in Hcls.
  destruct (prose_class kg) eqn:Epc; [discriminate|].
  destruct (fld_eqb (g_typ kg) (Has (L "Optional[dict]"))) eqn:Et; [|discriminate]. cbn [andb] in Hcls.
  destruct (g_default kg) as [dv|] eqn:Ed; [|discriminate].
  destruct (C02Spec.d_none_like dv) eqn:Edn; [|discriminate].
  apply fld_eqb_eq in Et.
  unfold doc_entry_agrees in Hag. rewrite Hkn in Hag. unfold has_prose in Ehp.
  destruct (prose_of kg) as [x|] eqn:Epr; [|discriminate].
  apply andb_true_iff in Hag. destruct Hag as [Hy Hrest]. apply andb_true_iff in Hrest. destruct Hrest as [Hty Hdf].
  apply fld_eqb_eq in Hty. rewrite Et in Hty.
  destruct (g_doc dp) as [| |y] eqn:Edoc; try discriminate. apply str_eqb_eq in Hy.
  split; [rewrite Hty; reflexivity|].
  assert (Hkl : kwargs_like kn = true) by (unfold kwargs_like; unfold kwargs_name in Hkn; rewrite Hkn; reflexivity).
  unfold snt_param, snt_pre. rewrite Hkl. cbn [g_typ g_default g_doc]. rewrite Hty.
  change (str_eqb (L "Optional[dict]") (L "dict")) with false. cbv iota. cbn [bind].
  eexists. split.
  - apply snt_post_codec.
    + intros t Ht. inversion Ht; subst t. vm_compute. reflexivity.
    + intros c r _ _. right. exists (L "Optional[dict]"). split; [reflexivity|vm_compute; reflexivity].
  - unfold same_param_fn. cbn [g_typ g_doc g_default].
    apply andb_true_iff. split; [apply andb_true_iff; split|].
    + unfold C02Spec.same_typ. cbn [g_typ]. rewrite Et. cbn [fget C02Spec.opt_str_eqb]. apply str_eqb_refl.
    + unfold C02Spec.same_prose. fold (prose_of kg). rewrite Epr. cbn [g_doc].
      destruct y as [|c r].
      * rewrite reflow_nil in Hy. unfold prose_of, C02Spec.prose_of in Epr.
        destruct (g_doc kg) as [| |[|? ?]]; try discriminate. inversion Epr; subst; discriminate.
      * cbn [rdoc]. rewrite <- Hy.
        unfold prose_of, C02Spec.prose_of in Epr. destruct (g_doc kg) as [| |[|c0 r0]]; try discriminate. inversion Epr; subst x.
        cbn [C02Spec.prose_of g_doc C02Spec.opt_str_eqb]. apply str_eqb_refl.
    + unfold C02Spec.default_same. cbn [g_default]. rewrite Ed. unfold C02Spec.same_default. rewrite Edn.
      cbn [C02Spec.d_none_like]. rewrite in_none_types_NoneStr. reflexivity.
Qed.

(* ------------------------------------------------------------------ *)
(* lists of parameters: small facts                                    *)
(* ------------------------------------------------------------------ *)
Lemma NoDup_fst_filter : forall (f : str * gparam -> bool) P, NoDup (map fst P) -> NoDup (map fst (filter f P)).
Proof.
  intros f P; induction P as [|[n g] P IH]; intros Hnd; cbn [filter map]; [constructor|].
  cbn [map fst] in Hnd. inversion Hnd as [|? ? Hn Hr]; subst. destruct (f (n, g)); cbn [map fst].
  - constructor; [|apply IH; exact Hr]. intros Hx. apply Hn. apply in_map_iff in Hx. destruct Hx as [kv [Hk Hx]].
    apply filter_In in Hx. apply in_map_iff. exists kv. tauto.
  - apply IH; exact Hr.
Qed.

Lemma forallb_od_pop : forall (f : str * gparam -> bool) k l, forallb f l = true -> forallb f (od_pop k l) = true.
Proof.
  intros f k l; induction l as [|[k0 v0] l IH]; intros H; cbn [od_pop]; [reflexivity|].
  cbn [forallb] in H. apply andb_true_iff in H. destruct H as [H1 H2].
  destruct (str_eqb k k0); [exact H2|]. cbn [forallb]. rewrite H1, (IH H2). reflexivity.
Qed.

Lemma kwarg_reparsed : forall o i, ar_kwarg (reparsed_arguments o i) = kwarg_of i.
Proof. intros o i. unfold reparsed_arguments. destruct (fo_kwonly o); reflexivity. Qed.

Lemma nkp_In : forall i n g, In (n, g) (nkp i) <-> In (n, g) (ir_params i) /\ kwargs_name n = false.
Proof.
  intros i n g. unfold nkp. rewrite filter_In. unfold EmitAst.no_kwargs, kwargs_name. cbn [fst].
  split; intros [H1 H2]; (split; [exact H1|]); [apply negb_true_iff in H2|apply negb_true_iff]; exact H2.
Qed.

Lemma kwp_In : forall i n g, In (n, g) (kwp i) <-> In (n, g) (ir_params i) /\ kwargs_name n = true.
Proof.
  intros i n g. unfold kwp. rewrite filter_In. unfold EmitAst.no_kwargs, kwargs_name. cbn [fst].
  rewrite negb_involutive. tauto.
Qed.

Lemma sig_entries_no_DO : forall o l, no_DO (map (sig_entry_of o) l).
Proof.
  intros o l k p H r Hr. apply od_get_Some_In in H. apply in_map_iff in H. destruct H as [kv [He _]].
  unfold sig_entry_of, func_arg2param in He. inversion He; subst p. cbn [g_default option_map] in Hr. discriminate.
Qed.

Lemma sig_entries_modelled : forall o l, params_modelled (map (sig_entry_of o) l) = true.
Proof.
  intros o l. unfold params_modelled. induction l as [|kv l IH]; cbn [map forallb]; [reflexivity|]. rewrite IH. reflexivity.
Qed.

Lemma sig_entries_get : forall o l n g, NoDup (map fst l) -> In (n, g) l ->
  od_get n (map (sig_entry_of o) l) = Some (sig_gparam (mkArg n (ann_of o g)) (Some (rdflt g))).
Proof.
  intros o l n g Hnd Hin. apply In_od_get; [rewrite sig_entries_keys; exact Hnd|].
  apply in_map_iff. exists (n, g). split; [reflexivity|exact Hin].
Qed.

(* keys after the merge and the sort into signature order *)
Lemma sorted_keys : forall S T O m, NoDup S -> od_keys O = S -> (forall k, In k (od_keys T) -> In k S) ->
  merge_params id_perm T O = Ok m -> od_keys (sort_by_sig S m) = S.
Proof.
  intros S T O m HS HO HT Hm. apply merge_params_keys in Hm; [|rewrite HO; exact HS]. rewrite HO in Hm.
  rewrite sort_by_sig_keys by exact HS. rewrite Hm.
  rewrite (filter_all_true (fun k => mem_str k (od_keys T ++ filter (fun k0 => negb (mem_str k0 (od_keys T))) S)) S).
  - rewrite filter_app.
    rewrite (filter_all_false _ (od_keys T)) by (intros k Hk; apply negb_false_iff; apply mem_str_In; apply HT; exact Hk).
    rewrite (filter_all_false _ (filter _ S)); [apply app_nil_r|].
    intros k Hk. apply filter_In in Hk. destruct Hk as [Hk _]. apply negb_false_iff. apply mem_str_In; exact Hk.
  - intros k Hk. apply mem_str_In. destruct (mem_str k (od_keys T)) eqn:E.
    + apply in_or_app; left. apply mem_str_In; exact E.
    + apply in_or_app; right. apply filter_In. split; [exact Hk|rewrite E; reflexivity].
Qed.

(* ------------------------------------------------------------------ *)
(* all parameters: docstring entries + re-parsed signature -> parameters of the result *)
(* ------------------------------------------------------------------ *)
Lemma doc_params_modelled : forall et P D, NoDup (map fst P) -> doc_params_agree et P D = true ->
  params_modelled D = true.
Proof.
  intros et P D Hnd H. unfold params_modelled. apply forallb_forall. intros [k p] Hin. cbn [snd].
  pose proof (doc_keys_NoDup et P D Hnd H) as HndD.
  assert (Hg : od_get k D = Some p) by (apply In_od_get; assumption).
  destruct (doc_keys_sub et P D k H (od_get_Some_In_keys _ _ _ Hg)) as [g [Hgin Hpr]].
  pose proof (doc_lookup et P D k g Hnd H Hgin) as Hl. rewrite Hpr in Hl. destruct Hl as [dp [Hdp Hag]].
  rewrite Hg in Hdp. inversion Hdp; subst dp. unfold doc_entry_agrees in Hag.
  apply andb_true_iff in Hag. destruct Hag as [_ Hag].
  destruct (kwargs_name k); apply andb_true_iff in Hag; destruct Hag as [_ Hag].
  - destruct (g_default p) as [[v|e|r]|]; try reflexivity; discriminate.
  - destruct (g_default p); [discriminate|reflexivity].
Qed.

Lemma params_round_trip : forall o i d,
  guard_facts o i -> doc_params_agree (negb (fo_inline o)) (ir_params i) (ir_params d) = true ->
  exists T app m params2,
    kw_split (reparsed_arguments o i) (ir_params d) = Ok (T, app)
    /\ params_modelled T = true
    /\ params_modelled (od_of_pairs (sig_pairs (reparsed_arguments o i) (pos_args (reparsed_arguments o i)))) = true
    /\ merge_params id_perm T (od_of_pairs (sig_pairs (reparsed_arguments o i) (pos_args (reparsed_arguments o i)))) = Ok m
    /\ set_names_and_types (append_kw app (sort_by_sig (sig_pos_names (reparsed_arguments o i)) m)) false true = Ok params2
    /\ same_params_fn (ir_params i) params2 = true.
Proof.
  intros o i d GF DA.
  destruct (kwargs_split (ir_params i) (gf_kwlast _ _ GF)) as [Hsplit Hkwcases].
  fold (nkp i) in Hsplit. fold (kwp i) in Hsplit, Hkwcases.
  set (P := ir_params i) in *. set (D := ir_params d) in *. set (et := negb (fo_inline o)) in *.
  pose proof (gf_nodup _ _ GF) as HndP. fold P in HndP.
  assert (HndS : NoDup (nk_names i)) by (unfold nk_names, nkp; apply NoDup_fst_filter; exact HndP).
  assert (HinS : forall n, In n (nk_names i) -> exists g, In (n, g) (nkp i)).
  { intros n Hn. unfold nk_names in Hn. apply in_map_iff in Hn. destruct Hn as [[n' g] [E Hin]]. cbn [fst] in E. subst n'. eauto. }
  assert (Hns : forallb not_self_cls (nk_names i) = true).
  { apply forallb_forall. intros n Hn. destruct (HinS n Hn) as [g Hg]. apply nkp_In in Hg. destruct Hg as [Hg _].
    apply (name_facts n). apply (gf_names _ _ GF). apply in_map_iff. exists (n, g). auto. }
  pose proof (gf_kind _ _ GF) as Hkind.
  rewrite (sig_pairs_reparsed o i Hkind Hns), (sig_pos_names_reparsed o i Hkind Hns).
  rewrite (od_of_pairs_NoDup (map (sig_entry_of o) (nkp i))) by (rewrite sig_entries_keys; exact HndS).
  set (O := map (sig_entry_of o) (nkp i)) in *. set (S := nk_names i) in *.
  assert (HkO : od_keys O = S) by (apply sig_entries_keys).
  pose proof (doc_keys_NoDup et P D HndP DA) as HndD.
  pose proof (doc_params_modelled et P D HndP DA) as HmD.
  (* names of S are not ** names; the ** name is not in S *)
  assert (HSnk : forall n, In n S -> kwargs_name n = false).
  { intros n Hn. destruct (HinS n Hn) as [g Hg]. apply nkp_In in Hg. tauto. }
  (* a documented name other than the ** one is in S *)
  assert (HDS : forall k, In k (od_keys D) -> kwargs_name k = false -> In k S).
  { intros k Hk Hnk. destruct (doc_keys_sub et P D k DA Hk) as [g [Hg _]].
    unfold S, nk_names. apply in_map_iff. exists (k, g). split; [reflexivity|]. apply nkp_In. auto. }
  (* the kwargs step *)
  assert (Hks : exists T app, kw_split (reparsed_arguments o i) D = Ok (T, app) /\ params_modelled T = true
                 /\ (forall k, In k (od_keys T) -> In k S) /\ (forall n, In n S -> od_get n T = od_get n D)
                 /\ ((app = [] /\ kwp i = [])
                     \/ exists kn kg dp, kwp i = [(kn, kg)] /\ kwargs_name kn = true /\ In (kn, kg) P
                          /\ app = [(kn, mkG (g_doc dp) (g_typ dp) (Some (DV (VStr NoneStr))))]
                          /\ doc_entry_agrees et kn kg dp = true /\ kwargs_class kg = None)).
  { unfold kw_split. rewrite kwarg_reparsed. unfold kwarg_of.
    destruct Hkwcases as [Hk0|[[kn kg] Hk1]].
    - rewrite Hk0. exists D, []. split; [reflexivity|]. split; [exact HmD|]. split.
      + intros k Hk. apply HDS; [exact Hk|]. destruct (doc_keys_sub et P D k DA Hk) as [g [Hg _]].
        destruct (kwargs_name k) eqn:E; [|reflexivity]. exfalso.
        assert (Hin : In (k, g) (kwp i)) by (apply kwp_In; auto). rewrite Hk0 in Hin. destruct Hin.
      + split; [reflexivity|]. left. auto.
    - rewrite Hk1. cbn [fst a_name].
      assert (Hkin : In (kn, kg) (kwp i)) by (rewrite Hk1; left; reflexivity).
      apply kwp_In in Hkin. destruct Hkin as [HkP Hknm].
      pose proof (gf_params _ _ GF kn kg HkP) as Hcls. unfold C03Spec.param_class in Hcls. rewrite Hknm in Hcls.
      assert (Hpr : has_prose kg = true).
      { unfold kwargs_class in Hcls. destruct (has_prose kg); [reflexivity|discriminate]. }
      pose proof (doc_lookup et P D kn kg HndP DA HkP) as Hl. rewrite Hpr in Hl. destruct Hl as [dp [Hdp Hag]].
      destruct (kwargs_entry_codec et kn kg dp Hknm Hcls Hag) as [Hfp _].
      rewrite Hdp, Hfp.
      exists (od_pop kn D), [(kn, mkG (g_doc dp) (g_typ dp) (Some (DV (VStr NoneStr))))].
      split; [reflexivity|]. split; [unfold params_modelled in *; apply forallb_od_pop; exact HmD|]. split.
      + intros k Hk. rewrite (od_keys_pop kn D HndD) in Hk. apply filter_In in Hk. destruct Hk as [Hk Hne].
        apply HDS; [exact Hk|]. destruct (doc_keys_sub et P D k DA Hk) as [g [Hg _]].
        destruct (kwargs_name k) eqn:E; [|reflexivity]. exfalso.
        assert (Hin : In (k, g) (kwp i)) by (apply kwp_In; auto). rewrite Hk1 in Hin. destruct Hin as [Hin|[]].
        inversion Hin; subst. rewrite str_eqb_refl in Hne. discriminate.
      + split.
        * intros n Hn. apply od_get_pop_other. intros ->. rewrite (HSnk _ Hn) in Hknm. discriminate.
        * right. exists kn, kg, dp. auto 10. }
  destruct Hks as (T & app & Hkw & HmT & HTS & HTget & Happ).
  destruct (merge_params_ok T O (sig_entries_no_DO o (nkp i))) as [m Hm].
  exists T, app, m.
  (* the merged map in signature order *)
  set (X := sort_by_sig S m).
  assert (HkX : od_keys X = S) by (apply (sorted_keys S T O m HndS HkO HTS Hm)).
  assert (HndO : NoDup (od_keys O)) by (rewrite HkO; exact HndS).
  (* every positional / keyword-only entry *)
  assert (Hentry : forall n g, In (n, g) (nkp i) ->
            exists q rp, od_get n X = Some q /\ snt_param n q false true = Ok rp /\ same_param_fn g rp = true).
  { intros n g Hin. pose proof Hin as Hin'. apply nkp_In in Hin'. destruct Hin' as [HinP Hnk].
    assert (HnS : In n S) by (unfold S, nk_names; apply in_map_iff; exists (n, g); auto).
    pose proof (gf_entries _ _ GF n g HinP) as Hdom.
    assert (Hname : name_in_domain n = true) by (apply (gf_names _ _ GF); apply in_map_iff; exists (n, g); auto).
    destruct (param_class_inv o n g Hnk Hdom (gf_params _ _ GF n g HinP)) as [v F].
    pose proof (doc_lookup et P D n g HndP DA HinP) as Hl.
    destruct (param_entry_codec o n g v (od_get n D) F Hdom Hname Hnk) as (q & rp & Hmerge & Hsnt & Hsame).
    { destruct (has_prose g); [destruct Hl as [dp [Hdp Hag]]; exists dp; auto|exact Hl]. }
    exists q, rp. split; [|auto].
    unfold X. rewrite (sort_by_sig_get S m n HndS).
    pose proof (sig_entries_get o (nkp i) n g HndS Hin) as HgO. fold O in HgO.
    destruct (od_get n D) as [t|] eqn:EgD.
    - assert (HgT : od_get n T = Some t) by (rewrite (HTget n HnS); exact EgD).
      destruct (merge_params_get_both id_perm T O m n t _ id_perm_ok HndO Hm HgT HgO) as [t' [Hmp Hgm]].
      rewrite Hmerge in Hmp. inversion Hmp; subst t'. exact Hgm.
    - assert (HgT : od_get n T = None) by (rewrite (HTget n HnS); exact EgD).
      rewrite (merge_params_get_new id_perm T O m n id_perm_ok HndO Hm HgT). rewrite HgO, Hmerge. reflexivity. }
  (* the parameter map handed to _set_name_and_type *)
  set (params1 := append_kw app X).
  assert (Hp1 : od_keys params1 = map fst P
                /\ (forall n g, In (n, g) P -> exists q rp, od_get n params1 = Some q /\ snt_param n q false true = Ok rp
                                                           /\ same_param_fn g rp = true)).
  { destruct Happ as [[Ha Hk0]|(kn & kg & dp & Hk1 & Hknm & HkP & Ha & Hag & Hcls)].
    - subst app. unfold params1, append_kw. cbn [fold_left]. split.
      + rewrite HkX. rewrite Hsplit, Hk0, app_nil_r. reflexivity.
      + intros n g Hin. apply Hentry. rewrite Hsplit, Hk0, app_nil_r in Hin. exact Hin.
    - subst app. unfold params1, append_kw. cbn [fold_left fst snd].
      assert (HknS : ~ In kn S) by (intros Hx; rewrite (HSnk _ Hx) in Hknm; discriminate).
      split.
      + rewrite od_keys_set_absent by (rewrite HkX; exact HknS). rewrite HkX. rewrite Hsplit, Hk1, map_app. reflexivity.
      + intros n g Hin. rewrite Hsplit, Hk1 in Hin. apply in_app_or in Hin. destruct Hin as [Hin|[Hin|[]]].
        * destruct (Hentry n g Hin) as (q & rp & Hg & Hs & Hsm). exists q, rp. split; [|auto].
          rewrite od_get_set_other; [exact Hg|]. intros ->. apply HknS. unfold S, nk_names. apply in_map_iff. exists (n, g). auto.
        * inversion Hin; subst n g.
          destruct (kwargs_entry_codec et kn kg dp Hknm Hcls Hag) as [_ [rp [Hs Hsm]]].
          eexists. exists rp. split; [apply od_get_set_same|]. auto. }
  destruct Hp1 as [Hkeys1 Hget1].
  assert (Hnd1 : NoDup (od_keys params1)) by (rewrite Hkeys1; exact HndP).
  assert (Hok1 : forallb name_ok (od_keys params1) = true).
  { rewrite Hkeys1. apply forallb_forall. intros n Hn. apply (name_facts n). apply (gf_names _ _ GF). exact Hn. }
  (* _set_name_and_type succeeds on every entry *)
  assert (Hsnt : exists params2, set_names_and_types params1 false true = Ok params2).
  { unfold set_names_and_types.
    destruct (mapM_ok_forall (fun kv => set_name_and_type (fst kv) (snd kv) false true) params1) as [l Hl].
    - intros [k q] Hin. cbn [fst snd].
      assert (Hgq : od_get k params1 = Some q) by (apply In_od_get; assumption).
      assert (Hk : In k (map fst P)) by (rewrite <- Hkeys1; eapply od_get_Some_In_keys; exact Hgq).
      apply in_map_iff in Hk. destruct Hk as [[n g] [E HinP]]. cbn [fst] in E. subst n.
      destruct (Hget1 k g HinP) as (q' & rp & Hg' & Hs & _). rewrite Hgq in Hg'. inversion Hg'; subst q'.
      unfold set_name_and_type. rewrite Hs. cbn [bind]. eexists; reflexivity.
    - rewrite Hl. cbn [bind]. eexists; reflexivity. }
  destruct Hsnt as [params2 Hsnt].
  exists params2. split; [exact Hkw|]. split; [exact HmT|]. split; [apply sig_entries_modelled|]. split; [exact Hm|].
  split; [exact Hsnt|].
  (* same parameters *)
  unfold same_params_fn. apply andb_true_iff. split.
  - rewrite (set_names_and_types_keys params1 false true params2 Hnd1 Hok1 Hsnt). rewrite Hkeys1.
    unfold od_keys. apply list_eqb_str_refl.
  - apply forallb_forall. intros [n g] Hin. cbn [fst snd].
    destruct (Hget1 n g Hin) as (q & rp & Hg & Hs & Hsm).
    destruct (set_names_and_types_get params1 false true params2 n q Hnd1 Hok1 Hsnt Hg) as (rp' & Hs' & Hg2).
    rewrite Hs in Hs'. inversion Hs'; subst rp'. rewrite Hg2. exact Hsm.
Qed.

(* ------------------------------------------------------------------ *)
(* the return entry                                                    *)
(* ------------------------------------------------------------------ *)
Record ret_facts (o : fopts) (g : gparam) : Prop := mkRF {
  rf_prose : prose_class g = None;
  rf_typ : forall t, g_typ g = Has t -> typ_parses t = true /\ (fo_inline o = true -> ret_typ_inline_ok t = true);
  rf_cases :
    (g_default g = None /\ (has_prose g = true \/ (fo_inline o = true /\ exists t, g_typ g = Has t)))
    \/ (exists c s, g_default g = Some (DV (VStr (c :: s)))
          /\ ret_code_ok (fo_pt o) (c :: s) = true /\ str_keeps_quotes (c :: s) = true
          /\ (forall t, g_typ g = Has t -> contains [ch 91] t = true /\ (fo_inline o = false -> has_prose g = true))
          /\ (g_typ g = Missing -> in_none_types (VStr (c :: s)) || code_val (VStr (c :: s)) = true))
}.

Lemma return_class_inv : forall o g, entry_in_domain g = true -> C03Spec.return_class o g = None -> ret_facts o g.
Proof.
  intros o g Hdom H. unfold C03Spec.return_class in H.
  destruct (prose_class g) eqn:Ep; [discriminate|].
  destruct (return_typ_class o g) eqn:Et; [discriminate|].
  destruct (entry_fields g Hdom) as (_ & Htypf & _).
  constructor; [exact Ep| |].
  - intros t Ht. unfold return_typ_class in Et. rewrite Ht in Et.
    destruct (typ_parses t); [|discriminate]. cbn [negb orb] in Et.
    split; [reflexivity|]. intros Hi. rewrite Hi in Et. cbn [andb] in Et.
    destruct (ret_typ_inline_ok t); [reflexivity|discriminate].
  - destruct (g_default g) as [dv|] eqn:Ed.
    + right. destruct dv as [v|e|r]; cbn [dv_str] in H; try discriminate.
      destruct v as [| | | |[|c s]]; cbn [dv_str] in H; try discriminate.
      exists c, s. split; [reflexivity|].
      destruct (ret_code_ok (fo_pt o) (c :: s)); [|discriminate].
      destruct (str_keeps_quotes (c :: s)); [|discriminate]. cbn [negb orb] in H.
      split; [reflexivity|]. split; [reflexivity|]. split.
      * intros t Ht. rewrite Ht in H. destruct (contains [ch 91] t); [|discriminate]. cbn [negb] in H.
        split; [reflexivity|]. intros Hi. rewrite Hi in H. cbn [negb andb] in H.
        destruct (has_prose g); [reflexivity|discriminate].
      * intros Hm. rewrite Hm in H.
        destruct (C02Spec.d_none_like (DV (VStr (c :: s))) || C02Spec.d_code_quoted (DV (VStr (c :: s)))) eqn:E; [exact E|discriminate].
    + left. split; [reflexivity|]. destruct (has_prose g); [left; reflexivity|]. right.
      destruct (fo_inline o); [|discriminate]. cbn [andb] in H. split; [reflexivity|].
      destruct (g_typ g) as [| |t]; try discriminate. exists t. reflexivity.
Qed.

Lemma dval_eqb_DV : forall d v, dval_eqb d (DV v) = true -> d = DV v.
Proof.
  intros d v H. destruct d as [w|e|r]; try discriminate. cbn [dval_eqb] in H.
  apply EmitAstFacts.pyval_eqb_eq in H. subst. reflexivity.
Qed.

Lemma ret_typ_ann : forall o t, ret_typ_inline_ok t = true ->
  exists e, EmitAst.parse_expr_src (fo_pt o) t = Ok e /\ reparse_expr e = Ok e /\ expr_ok e = true
            /\ rstrip_chars [nl] (show_expr e) = t.
Proof.
  intros o t H. unfold ret_typ_inline_ok in H.
  destruct (EmitAst.parse_expr_src [] t) as [e|] eqn:E; [|discriminate].
  unfold expr_prints_as in H. apply andb_true_iff in H. destruct H as [H Hs].
  apply andb_true_iff in H. destruct H as [Hr He].
  exists e. split; [apply parse_expr_src_nil; exact E|].
  destruct (reparse_expr e) as [e'|] eqn:Er; [|discriminate]. apply expr_eqb_true in Hr. subst e'.
  split; [reflexivity|]. split; [exact He|]. apply str_eqb_eq; exact Hs.
Qed.

(* _infer_default on a scalar str default (the return entry's) *)
Lemma infer_default_DV_str : forall q s nq,
  ascii_only s = true -> in_none_types (VStr s) || str_keeps_quotes s = true ->
  needs_quoting (fget (g_typ q)) = Ok nq ->
  (forall t, g_typ q = Has t -> code_val (VStr s) = true -> contains [ch 91] t = true) ->
  (fld_is_none (g_typ q) = true -> in_none_types (VStr s) || code_val (VStr s) = true) ->
  infer_default q (DV (VStr s)) false = Ok (mkG (g_doc q) (rtyp (g_typ q) (VStr s)) (Some (back (VStr s)))).
Proof.
  intros q s nq Ha Hk Hnq Hcode Hunt.
  set (g' := mkG Missing Missing (Some (DV (VStr s)))).
  pose proof (infer_default_codec q g' (VStr s) nq eq_refl Ha Hk Hnq Hcode Hunt) as H.
  destruct (in_none_types (VStr s)) eqn:En.
  - rewrite (rdflt_none_like g' (VStr s) eq_refl En) in H. rewrite <- H.
    unfold infer_default. cbn [bind dval_in_none_types none_to_NoneStr]. rewrite En, in_none_types_NoneStr. reflexivity.
  - cbn [orb] in Hk. rewrite (rdflt_str g' s eq_refl En Hk Ha) in H. rewrite <- H. reflexivity.
Qed.

(* _interpolate_return, forwards *)
Definition rt_of (rets : fld gparam) : gparam := match rets with Has p => p | _ => mkG Missing Missing None end.

Definition with_annotation (r : option expr) (rets1 : fld gparam) : fld gparam :=
  match r with
  | Some e => Has (mkG (g_doc (rt_of rets1)) (Has (rstrip_chars [nl] (show_expr e))) (g_default (rt_of rets1)))
  | None => rets1
  end.

Lemma interp_no_return : forall r rets, (forall e, r = Some e -> expr_ok e = true) ->
  interpolate_return [] r rets = Ok (with_annotation r rets).
Proof.
  intros r rets H. unfold interpolate_return. cbn [last_return rev List.find bind]. unfold with_annotation, rt_of.
  destruct r as [e|]; [|reflexivity]. rewrite (H e eq_refl). reflexivity.
Qed.

Definition typ_kept (t : fld str) : fld str :=
  match t with Has x => if contains [ch 91] x then Has x else Missing | y => y end.

Lemma interp_return : forall v r rets dflt, expr_ok v = true -> g_typ (rt_of rets) <> FNone ->
  ret_default_of v = Ok dflt -> (forall e, r = Some e -> expr_ok e = true) ->
  interpolate_return [SReturn (Some v)] r rets
  = Ok (with_annotation r (Has (mkG (g_doc (rt_of rets)) (typ_kept (g_typ (rt_of rets))) (Some dflt)))).
Proof.
  intros v r rets dflt Hv Hfn Hd Hr. unfold interpolate_return.
  assert (Hl : last_return [SReturn (Some v)] = Some (Some v)) by reflexivity. rewrite Hl. rewrite Hv. cbn [negb].
  fold (rt_of rets).
  assert (Ht : (match g_typ (rt_of rets) with
                | Missing => Ok Missing
                | FNone => Err TypeError
                | Has t => Ok (if contains [ch 91] t then Has t else Missing)
                end) = Ok (typ_kept (g_typ (rt_of rets)))).
  { unfold typ_kept. destruct (g_typ (rt_of rets)); [reflexivity|congruence|reflexivity]. }
  rewrite Ht. cbn [bind].
  unfold ret_default_of in Hd. rewrite Hd. cbn [bind].
  unfold with_annotation. destruct r as [e|]; [|reflexivity]. rewrite (Hr e eq_refl). reflexivity.
Qed.

Lemma finish_has : forall p rp, snt_param (L "return_type") p false true = Ok rp -> finish_returns (Has p) = Ok (Has rp).
Proof. intros p rp H. unfold finish_returns, set_name_and_type. rewrite H. reflexivity. Qed.

Lemma return_type_not_kwargs : kwargs_like (L "return_type") = false.
Proof. vm_compute. reflexivity. Qed.

Lemma return_type_not_kwargs_name : kwargs_name (L "return_type") = false.
Proof. vm_compute. reflexivity. Qed.

(* the return entry through _set_name_and_type, without and with a default *)
Lemma snt_return_no_default : forall qd qt,
  (forall t, qt = Has t -> endswith google_opt t = false) ->
  (forall c r, qd = Has (c :: r) -> starts_optional (reflow (c :: r)) = true ->
               qt = Missing \/ exists t, qt = Has t /\ startswith (L "Optional[") t = true) ->
  snt_param (L "return_type") (mkG qd qt None) false true = Ok (mkG (rdoc qd) qt None).
Proof.
  intros qd qt Hg Ho. unfold snt_param, snt_pre. rewrite return_type_not_kwargs. cbn [g_default bind].
  apply snt_post_codec; assumption.
Qed.

Lemma snt_return_default : forall qd qt s nq,
  ascii_only s = true -> in_none_types (VStr s) || str_keeps_quotes s = true ->
  needs_quoting (fget qt) = Ok nq ->
  (forall t, qt = Has t -> code_val (VStr s) = true -> contains [ch 91] t = true) ->
  (fld_is_none qt = true -> in_none_types (VStr s) || code_val (VStr s) = true) ->
  (forall t, qt = Has t -> endswith google_opt t = false) ->
  (forall c r, qd = Has (c :: r) -> starts_optional (reflow (c :: r)) = true ->
               qt = Missing \/ exists t, qt = Has t /\ startswith (L "Optional[") t = true) ->
  snt_param (L "return_type") (mkG qd qt (Some (DV (VStr s)))) false true
  = Ok (mkG (rdoc qd) (rtyp qt (VStr s)) (Some (back (VStr s)))).
Proof.
  intros qd qt s nq Ha Hk Hnq Hcode Hunt Hg Ho. unfold snt_param, snt_pre. rewrite return_type_not_kwargs. cbn [g_default].
  rewrite (infer_default_DV_str (mkG qd qt (Some (DV (VStr s)))) s nq Ha Hk Hnq Hcode Hunt). cbn [bind g_doc g_typ].
  apply snt_post_codec.
  - intros t Ht. unfold rtyp in Ht. destruct qt as [| |t0].
    + destruct (in_none_types (VStr s)); discriminate.
    + destruct (in_none_types (VStr s)); discriminate.
    + inversion Ht; subst. apply Hg; reflexivity.
  - intros c r Hd Hso. destruct (Ho c r Hd Hso) as [Hm|[t [Ht Hst]]].
    + left. unfold rtyp. rewrite Hm. destruct (in_none_types (VStr s)); reflexivity.
    + right. exists t. unfold rtyp. rewrite Ht. split; [reflexivity|exact Hst].
Qed.

Lemma returns_round_trip : forall o i d,
  guard_facts o i -> doc_returns_agree (negb (fo_inline o)) (ir_returns i) (ir_returns d) = true ->
  exists rv rv' ann ann',
    EmitAst.function_return_val (fo_pt o) i = Ok rv
    /\ ret_ann_o o i = Ok ann
    /\ mapM reparse_body_stmt (opt_list rv) = Ok (opt_list rv')
    /\ reparse_opt ann = Ok ann'
    /\ exists rets rets',
         interpolate_return (opt_list rv') ann' (doc_returns_in d) = Ok rets
         /\ finish_returns rets = Ok rets'
         /\ same_returns_fn (ir_returns i) rets' = true.
Proof.
  intros o i d GF DA. pose proof (gf_ret_dom _ _ GF) as Hrd. pose proof (gf_ret _ _ GF) as Hrc.
  unfold doc_returns_agree in DA. unfold EmitAst.function_return_val, ret_ann_o, EmitAst.returns_param.
  destruct (ir_returns i) as [| |g] eqn:Er; [contradiction| |].
  - (* no return entry *)
    cbn [fget] in *. exists None, None, None, None.
    split; [reflexivity|]. split; [destruct (fo_inline o); reflexivity|]. split; [reflexivity|]. split; [reflexivity|].
    assert (Hd : doc_returns_in d = FNone) by (unfold doc_returns_in; destruct (ir_returns d); try discriminate; reflexivity).
    rewrite Hd. exists FNone, FNone. repeat split; reflexivity.
  - cbn [fget] in *. pose proof (return_class_inv o g Hrd (Hrc g eq_refl)) as RF.
    destruct RF as [Hprose Htyp Hcases].
    destruct (entry_fields g Hrd) as (Hdocf & Htypf & _).
    set (et := negb (fo_inline o)) in *.
    (* what the docstring layer hands over *)
    assert (Hrt : exists rt, rt_of (doc_returns_in d) = rt /\ g_default rt = None
                   /\ (has_prose g = true -> g_typ rt = (if et then g_typ g else Missing) /\ doc_returns_in d = Has rt)
                   /\ (has_prose g = false -> g_typ rt = Missing /\ doc_returns_in d = FNone)
                   /\ (match prose_of g with
                       | Some x => exists c r, g_doc rt = Has (c :: r) /\ reflow (c :: r) = x
                       | None => g_doc rt = Missing
                       end)).
    { unfold has_prose in *. destruct (prose_of g) as [x|] eqn:Epr.
      - destruct (ir_returns d) as [| |dp] eqn:Edr; try discriminate.
        unfold doc_entry_agrees in DA. rewrite Epr, return_type_not_kwargs_name in DA.
        apply andb_true_iff in DA. destruct DA as [Hy Hrest]. apply andb_true_iff in Hrest. destruct Hrest as [Hty Hdf].
        destruct (g_doc dp) as [| |y] eqn:Edoc; try discriminate. apply str_eqb_eq in Hy. apply fld_eqb_eq in Hty.
        destruct (g_default dp) eqn:Edd; [discriminate|].
        exists dp. unfold doc_returns_in. rewrite Edr. cbn [rt_of]. split; [reflexivity|]. split; [exact Edd|].
        split; [intros _; split; [exact Hty|reflexivity]|]. split; [discriminate|].
        destruct y as [|c r].
        + rewrite reflow_nil in Hy. unfold prose_of, C02Spec.prose_of in Epr.
          destruct (g_doc g) as [| |[|? ?]]; try discriminate. inversion Epr; subst; discriminate.
        + exists c, r. split; [exact Edoc|symmetry; exact Hy].
      - assert (Hd : doc_returns_in d = FNone) by (unfold doc_returns_in; destruct (ir_returns d); try discriminate; reflexivity).
        exists (mkG Missing Missing None). rewrite Hd. cbn [rt_of g_default g_typ g_doc].
        split; [reflexivity|]. split; [reflexivity|]. split; [discriminate|]. split; [intros _; split; reflexivity|reflexivity]. }
    destruct Hrt as (rt & Hrt & Hrtd & Hrtp & Hrtn & Hrtdoc).
    (* the annotation *)
    assert (Hann : exists ann, (if fo_inline o then
                                  match fget (g_typ g) with
                                  | Some (c :: t) => do e <- EmitAst.parse_expr_src (fo_pt o) (c :: t); Ok (Some e)
                                  | _ => Ok None
                                  end
                                else Ok None) = Ok ann
                   /\ reparse_opt ann = Ok ann
                   /\ ((fo_inline o = true /\ exists t e, g_typ g = Has t /\ ann = Some e /\ expr_ok e = true
                                                      /\ rstrip_chars [nl] (show_expr e) = t)
                       \/ ((fo_inline o = false \/ g_typ g = Missing) /\ ann = None))).
    { destruct (fo_inline o) eqn:Ei.
      - destruct Htypf as [Hm|[c [t Ht]]].
        + rewrite Hm. cbn [fget]. exists None. split; [reflexivity|]. split; [reflexivity|]. right. auto.
        + rewrite Ht. cbn [fget]. destruct (Htyp _ Ht) as (_ & Hin).
          destruct (ret_typ_ann o (c :: t) (Hin eq_refl)) as (e & Hp & Hre & Hok & Hshow).
          rewrite Hp. cbn [bind]. exists (Some e). split; [reflexivity|]. split; [cbn [reparse_opt]; rewrite Hre; reflexivity|].
          left. split; [reflexivity|]. exists (c :: t), e. auto.
      - exists None. split; [reflexivity|]. split; [reflexivity|]. right. auto. }
    destruct Hann as (ann & Hann & Hannre & Hanncases).
    assert (Hannok : forall e, ann = Some e -> expr_ok e = true).
    { intros e He. destruct Hanncases as [[_ (t & e' & _ & Ha & Hok & _)]|[_ Ha]]; [rewrite Ha in He; inversion He; subst; exact Hok|congruence]. }
    (* type, google suffix, Optional prose: the conditions of the second half of _set_name_and_type *)
    assert (Hgo : forall t, g_typ g = Has t -> endswith google_opt t = false).
    { intros t Ht. destruct (Htyp _ Ht) as (Hp & _). destruct (typ_parses_nq _ Hp) as [nq [_ Hg]]. exact Hg. }
    assert (Hopt : forall c r, g_doc rt = Has (c :: r) -> starts_optional (reflow (c :: r)) = true ->
                     g_typ g = Missing \/ exists t, g_typ g = Has t /\ startswith (L "Optional[") t = true).
    { intros c r Hd Hso. destruct (prose_of g) as [x|] eqn:Epr; [|rewrite Hrtdoc in Hd; discriminate].
      destruct Hrtdoc as (c' & r' & Hd' & Hrf). rewrite Hd in Hd'. inversion Hd'; subst c' r'. rewrite Hrf in Hso.
      unfold prose_class in Hprose. rewrite Epr in Hprose. destruct (negb (prose_safe x)); [discriminate|].
      change (C02Spec.prose_starts_optional x) with (starts_optional x) in Hprose. rewrite Hso in Hprose. cbn [andb] in Hprose.
      destruct (g_typ g) as [| |t]; [left; reflexivity|destruct Htypf as [Hm|[? [? Ht]]]; discriminate|].
      right. exists t. split; [reflexivity|]. destruct (startswith (L "Optional[") t); [reflexivity|discriminate]. }
    (* prose comes back *)
    assert (Hpr_back : C02Spec.opt_str_eqb (C02Spec.prose_of g) (C02Spec.prose_of (mkG (rdoc (g_doc rt)) (g_typ g) None)) = true).
    { fold (prose_of g). destruct (prose_of g) as [x|] eqn:Epr.
      - destruct Hrtdoc as (c & r & Hd & Hrf). rewrite Hd. cbn [rdoc]. rewrite Hrf.
        unfold prose_of, C02Spec.prose_of in Epr. destruct (g_doc g) as [| |[|c0 r0]]; try discriminate. inversion Epr; subst x.
        cbn [C02Spec.prose_of g_doc C02Spec.opt_str_eqb]. apply str_eqb_refl.
      - rewrite Hrtdoc. reflexivity. }
    destruct Hcases as [[Hdef Hwritten]|(c & s & Hdef & Hcode & Hkeep & Htyped & Huntyped)].
    + (* no return default: the body is the docstring alone *)
      rewrite Hdef. exists None, None, ann, ann.
      split; [reflexivity|]. split; [exact Hann|]. split; [reflexivity|]. split; [exact Hannre|].
      cbn [opt_list]. rewrite (interp_no_return ann (doc_returns_in d) Hannok).
      assert (Hrets : with_annotation ann (doc_returns_in d) = Has (mkG (g_doc rt) (g_typ g) None)).
      { unfold with_annotation. rewrite Hrt.
        destruct Hanncases as [[Hi (t & e & Ht & Ha & _ & Hshow)]|[Hor Ha]]; rewrite Ha.
        - rewrite Hshow, Hrtd, Ht. reflexivity.
        - assert (Hp : has_prose g = true).
          { destruct Hwritten as [Hp|[Hi [t Ht]]]; [exact Hp|]. destruct Hor as [Hi'|Hm]; congruence. }
          destruct (Hrtp Hp) as [Hty Hdr]. rewrite Hdr. f_equal.
          destruct rt as [rd rty rdf]. cbn [g_doc g_typ g_default] in *. subst rdf. f_equal.
          rewrite Hty. destruct Hor as [Hi|Hm]; [unfold et; rewrite Hi; reflexivity|].
          rewrite Hm. destruct et; reflexivity. }
      rewrite Hrets. eexists. eexists. split; [reflexivity|]. split.
      * apply finish_has. apply snt_return_no_default; [exact Hgo|exact Hopt].
      * unfold same_returns_fn. cbn [fget]. unfold same_param_fn. cbn [g_typ g_doc g_default].
        apply andb_true_iff. split; [apply andb_true_iff; split|].
        -- unfold C02Spec.same_typ. cbn [g_typ]. destruct (fget (g_typ g)); cbn [C02Spec.opt_str_eqb]; [apply str_eqb_refl|reflexivity].
        -- exact Hpr_back.
        -- unfold C02Spec.default_same. cbn [g_default]. rewrite Hdef. reflexivity.
    + (* a return default: emitted as `return <code>`, read back from the body *)
      rewrite Hdef. unfold ret_code_ok in Hcode.
      destruct (EmitAst.parse_expr_src (fo_pt o) (strip_chars [bt] (c :: s))) as [e|] eqn:Epe; [|discriminate].
      destruct (reparse_expr e) as [e'|] eqn:Ere; [|discriminate].
      apply andb_true_iff in Hcode. destruct Hcode as [Hok' Hdv].
      destruct (ret_default_of e') as [dv|] eqn:Erd; [|discriminate]. apply dval_eqb_DV in Hdv. subst dv.
      cbn [bind]. exists (Some (SReturn (Some e))), (Some (SReturn (Some e'))), ann, ann.
      split; [reflexivity|]. split; [exact Hann|].
      split; [cbn [opt_list mapM reparse_body_stmt reparse_opt]; rewrite Ere; reflexivity|]. split; [exact Hannre|].
      cbn [opt_list].
      assert (Hnf : g_typ (rt_of (doc_returns_in d)) <> FNone).
      { rewrite Hrt. destruct (has_prose g) eqn:Ep.
        - destruct (Hrtp eq_refl) as [Hty _]. rewrite Hty. destruct et; [|discriminate].
          destruct Htypf as [Hm|[? [? Ht]]]; [rewrite Hm|rewrite Ht]; discriminate.
        - destruct (Hrtn eq_refl) as [Hty _]. rewrite Hty. discriminate. }
      rewrite (interp_return e' ann (doc_returns_in d) _ Hok' Hnf Erd Hannok).
      assert (Hrets : with_annotation ann (Has (mkG (g_doc (rt_of (doc_returns_in d))) (typ_kept (g_typ (rt_of (doc_returns_in d))))
                                                   (Some (DV (VStr (c :: s))))))
                      = Has (mkG (g_doc rt) (g_typ g) (Some (DV (VStr (c :: s)))))).
      { unfold with_annotation. rewrite Hrt. cbn [rt_of g_doc g_default].
        destruct Hanncases as [[Hi (t & e0 & Ht & Ha & _ & Hshow)]|[Hor Ha]]; rewrite Ha.
        - rewrite Hshow, Ht. reflexivity.
        - f_equal. f_equal.
          destruct Htypf as [Hm|[c0 [t Ht]]].
          + rewrite Hm. destruct (has_prose g) eqn:Ep.
            * destruct (Hrtp eq_refl) as [Hty _]. rewrite Hty, Hm. destruct et; reflexivity.
            * destruct (Hrtn eq_refl) as [Hty _]. rewrite Hty. reflexivity.
          + destruct Hor as [Hi|Hm]; [|congruence]. destruct (Htyped _ Ht) as [Hbr Hp]. specialize (Hp Hi).
            destruct (Hrtp Hp) as [Hty _]. rewrite Hty. unfold et. rewrite Hi. cbn [negb]. rewrite Ht. cbn [typ_kept]. rewrite Hbr. reflexivity. }
      rewrite Hrets.
      assert (Hascii : ascii_only (c :: s) = true).
      { unfold entry_in_domain in Hrd. repeat (apply andb_true_iff in Hrd; destruct Hrd as [Hrd ?]). rewrite Hdef in *. assumption. }
      assert (Hnq : exists nq, needs_quoting (fget (g_typ g)) = Ok nq).
      { destruct Htypf as [Hm|[c0 [t Ht]]]; [rewrite Hm; eexists; reflexivity|].
        rewrite Ht. destruct (Htyp _ Ht) as (Hp & _). destruct (typ_parses_nq _ Hp) as [nq [Hnq _]]. exists nq. exact Hnq. }
      destruct Hnq as [nq Hnq].
      eexists. eexists. split; [reflexivity|]. split.
      * apply finish_has. apply (snt_return_default (g_doc rt) (g_typ g) (c :: s) nq Hascii).
        -- rewrite Hkeep. apply orb_true_r.
        -- exact Hnq.
        -- intros t Ht _. apply (Htyped t Ht).
        -- intros Hn. apply Huntyped. destruct Htypf as [Hm|[? [? Ht]]]; [exact Hm|rewrite Ht in Hn; discriminate].
        -- exact Hgo.
        -- exact Hopt.
      * unfold same_returns_fn. cbn [fget]. unfold same_param_fn. cbn [g_typ g_doc g_default].
        apply andb_true_iff. split; [apply andb_true_iff; split|].
        -- unfold C02Spec.same_typ. cbn [g_typ]. destruct Htypf as [Hm|[c0 [t Ht]]].
           ++ rewrite Hm. cbn [rtyp fget]. destruct (in_none_types (VStr (c :: s))); reflexivity.
           ++ rewrite Ht. cbn [rtyp fget C02Spec.opt_str_eqb]. apply str_eqb_refl.
        -- exact Hpr_back.
        -- unfold C02Spec.default_same. cbn [g_default]. rewrite Hdef. apply same_default_back.
Qed.

(* ------------------------------------------------------------------ *)
(* what every positional / keyword-only parameter of an in-guard description provides *)
(* ------------------------------------------------------------------ *)
Lemma rdflt_expr_ok : forall g v, g_default g = Some (DV v) -> value_ok v = true -> str_ok v = true ->
  expr_ok (rdflt g) = true.
Proof.
  intros g v Hg Hv Hs. destruct (in_none_types v) eqn:En.
  - rewrite (rdflt_none_like g v Hg En). reflexivity.
  - destruct v as [|b|z|r|s].
    + rewrite in_none_types_VNone in En. discriminate.
    + rewrite (rdflt_bool g b Hg). reflexivity.
    + rewrite (rdflt_int g z Hg). destruct (z <? 0)%Z; [|reflexivity]. cbn [expr_ok]. rewrite known_usub. reflexivity.
    + cbn [value_ok] in Hv. apply andb_true_iff in Hv. destruct Hv as [Hv _]. apply andb_true_iff in Hv. destruct Hv as [Hn _].
      apply negb_true_iff in Hn. rewrite (rdflt_float g r Hg Hn). destruct r as [|c r']; [reflexivity|].
      destruct (ascii_eqb c (ch 45)); [|reflexivity]. cbn [expr_ok]. rewrite known_usub. reflexivity.
    + cbn [str_ok] in Hs. rewrite En in Hs. cbn [orb] in Hs. cbn [value_ok] in Hv.
      rewrite (rdflt_str g s Hg En Hs Hv). cbn [expr_ok]. exact Hv.
Qed.

Record emitted_param_facts (o : fopts) (g : gparam) : Prop := mkEPF {
  epf_fits : typ_fits o g;
  epf_scalar : default_scalar g;
  epf_stable : ann_stable o g;
  epf_reparses : dflt_reparses g;
  epf_ann_ok : forall e, ann_of o g = Some e -> expr_ok e = true;
  epf_dflt_ok : expr_ok (rdflt g) = true
}.

Lemma param_emitted_facts : forall o g v, entry_in_domain g = true -> param_facts o g v -> emitted_param_facts o g.
Proof.
  intros o g v Hdom F. destruct F as [Hdef Hval Hstr _ Htyped _].
  destruct (entry_fields g Hdom) as (_ & Htypf & _).
  assert (Hann : (exists e, ann_of o g = Some e /\ reparse_expr e = Ok e /\ expr_ok e = true) \/ ann_of o g = None).
  { destruct (fo_inline o) eqn:Ei; [|right; apply ann_of_none; left; exact Ei].
    destruct Htypf as [Hm|[c [t Ht]]]; [right; apply ann_of_none; right; exact Hm|].
    destruct (Htyped _ Ht) as (_ & Hin & _).
    destruct (ann_of_typed o g (c :: t) Ei Ht (Hin eq_refl)) as (e & He & Hre & Hok & _). left. exists e. auto. }
  constructor.
  - unfold typ_fits. destruct Htypf as [Hm|[c [t Ht]]]; [rewrite Hm; exact I|]. rewrite Ht. apply (Htyped _ Ht).
  - unfold default_scalar. rewrite Hdef. exact I.
  - unfold ann_stable. destruct Hann as [(e & He & Hre & _)|Hn]; [rewrite He; cbn [reparse_opt]; rewrite Hre; reflexivity|].
    rewrite Hn. reflexivity.
  - apply (dflt_reparses_ok g v Hdef Hval Hstr).
  - intros e He. destruct Hann as [(e' & He' & _ & Hok)|Hn]; [rewrite He' in He; inversion He; subst; exact Hok|congruence].
  - apply (rdflt_expr_ok g v Hdef Hval Hstr).
Qed.

Lemma reparsed_exprs_ok : forall o i,
  (forall kv, In kv (nkp i) -> emitted_param_facts o (snd kv)) -> arg_exprs_ok (reparsed_arguments o i) = true.
Proof.
  intros o i H. unfold arg_exprs_ok.
  assert (Ha0 : forallb (fun x => match a_ann x with Some e => expr_ok e | None => true end) (args0 (fo_kind o)) = true).
  { unfold args0. destruct (str_eqb (fo_kind o) (L "static")); reflexivity. }
  assert (Ha : forallb (fun x => match a_ann x with Some e => expr_ok e | None => true end) (afp_of o i) = true).
  { unfold afp_of. apply forallb_forall. intros x Hx. apply in_map_iff in Hx. destruct Hx as [kv [<- Hkv]]. cbn [a_ann].
    destruct (ann_of o (snd kv)) as [e|] eqn:E; [|reflexivity]. apply (epf_ann_ok _ _ (H kv Hkv)); exact E. }
  assert (Hd : forallb expr_ok (rdfp_of i) = true).
  { unfold rdfp_of. apply forallb_forall. intros x Hx. apply in_map_iff in Hx. destruct Hx as [kv [<- Hkv]].
    apply (epf_dflt_ok _ _ (H kv Hkv)). }
  assert (Hdo : forallb (fun d => match d with Some e => expr_ok e | None => true end) (map Some (rdfp_of i)) = true).
  { apply forallb_forall. intros x Hx. apply in_map_iff in Hx. destruct Hx as [e [<- He]].
    rewrite forallb_forall in Hd. apply Hd; exact He. }
  unfold reparsed_arguments. destruct (fo_kwonly o); cbn [ar_args ar_kwonly ar_defaults ar_kw_defaults];
    rewrite ?forallb_app, ?Ha0, ?Ha, ?Hd, ?Hdo; reflexivity.
Qed.

(* ------------------------------------------------------------------ *)
(* C03_partial                                                         *)
(* ------------------------------------------------------------------ *)
Theorem C03_partial_lemma : forall o i text d,
  guard_C03 o i = true -> doc_agrees o i d = true -> C03_at o i text d.
Proof.
  intros o i text d G DA. pose proof (guard_inv o i G) as GF.
  unfold doc_agrees in DA. apply andb_true_iff in DA. destruct DA as [DAp DAr].
  destruct (returns_round_trip o i d GF DAr)
    as (rv & rv' & ann & ann' & Hrv & Hann & Hrvre & Hannre & rets & rets' & Hir & Hfin & Hsame_r).
  assert (Hps : forall kv, In kv (nkp i) -> emitted_param_facts o (snd kv)).
  { intros [n g] Hin. cbn [snd]. apply nkp_In in Hin. destruct Hin as [HinP Hnk].
    pose proof (gf_entries _ _ GF n g HinP) as Hdom.
    destruct (param_class_inv o n g Hnk Hdom (gf_params _ _ GF n g HinP)) as [v F].
    apply (param_emitted_facts o g v Hdom F). }
  assert (Hemit : emit_fn o i (Ok text) = Ok (SFunc fname (emitted_arguments o i) (emitted_body text rv) [] ann)).
  { apply emit_fn_shape; [exact (gf_kind _ _ GF)|exact (gf_internal _ _ GF)| |exact Hrv|exact Hann].
    intros kv Hkv. split; [apply (epf_fits _ _ (Hps kv Hkv))|apply (epf_scalar _ _ (Hps kv Hkv))]. }
  assert (Hre : reparse_stmt (SFunc fname (emitted_arguments o i) (emitted_body text rv) [] ann)
                = Ok (SFunc fname (reparsed_arguments o i) (emitted_body text rv') [] ann')).
  { apply reparse_emitted; [|exact Hrvre|exact Hannre].
    intros kv Hkv. split; [apply (epf_stable _ _ (Hps kv Hkv))|apply (epf_reparses _ _ (Hps kv Hkv))]. }
  destruct (params_round_trip o i d GF DAp) as (T & app & m & params2 & Hkw & HmT & HmO & Hm & Hsnt & Hsame_p).
  pose proof (reparsed_exprs_ok o i Hps) as Hok.
  destruct (parse_fn_eq d fname (reparsed_arguments o i) (EmitAst.set_value_str text) (opt_list rv') ann'
                        T app m params2 rets rets' Hok Hkw HmT HmO Hm Hsnt Hir Hfin) as [it Hparse].
  unfold C03_at, round_trip_fn. rewrite Hemit. cbn [bind]. rewrite Hre. cbn [bind].
  unfold emitted_body, EmitAst.set_value. rewrite Hparse.
  eexists. split; [reflexivity|].
  unfold same_interface_fn. cbn [ir_params ir_returns]. rewrite Hsame_p, Hsame_r. cbn [andb].
  unfold kind_preserved. cbn [ir_type].
  assert (HinS : forallb not_self_cls (nk_names i) = true).
  { apply forallb_forall. intros n Hn. unfold nk_names in Hn. apply in_map_iff in Hn. destruct Hn as [[n' g] [E Hin]].
    cbn [fst] in E. subst n'. apply nkp_In in Hin. destruct Hin as [Hin _].
    apply (name_facts n). apply (gf_names _ _ GF). apply in_map_iff. exists (n, g). auto. }
  rewrite (found_type_kind o i (gf_kind _ _ GF) HinS). apply str_eqb_refl.
Qed.

(* ================================================================== *)
(* Signature-level codec, outside the guard: for EVERY description the emitter accepts *)
(* ================================================================== *)

(* the argument list emit.function builds, in its two layouts *)
Definition layout (kw : bool) (k : str) (afp : list arg) (dfp : list expr) (kwarg : option arg) : arguments :=
  if kw then mkArguments (args0 k) [] afp (map Some dfp) None kwarg
  else mkArguments (args0 k ++ afp) dfp [] [] None kwarg.

Lemma emit_fn_inv : forall o i tds s, kind_in_domain (fo_kind o) = true -> emit_fn o i tds = Ok s ->
  exists afp dfp text rest ret,
    s = SFunc fname (layout (fo_kwonly o) (fo_kind o) afp dfp (kwarg_of i)) (SExpr (EConst (VStr text)) :: rest) [] ret
    /\ map a_name afp = nk_names i /\ List.length dfp = List.length afp.
Proof.
  intros o i tds s Hk H. unfold emit_fn in H.
  destruct (EmitAst.emit_function (fo_pt o) i (Some fname) (Some (fo_kind o)) (fo_inline o) (fo_kwonly o) tds) as [[s0 i0]|] eqn:E;
    cbn [bind fst] in H; [|discriminate]. inversion H; subst s0. clear H.
  unfold EmitAst.emit_function in E.
  assert (Hf : EmitAst.py_or (Some fname) (ir_name i) = Ok (Some fname)) by reflexivity.
  rewrite Hf in E. cbn [bind] in E.
  assert (Hkd : EmitAst.py_or (Some (fo_kind o)) (ir_type i) = Ok (Some (fo_kind o))).
  { destruct (kind_cases _ Hk) as [Ek|[Ek|Ek]]; rewrite Ek; reflexivity. }
  rewrite Hkd in E. cbn [bind] in E.
  apply EmitAstFacts.bind_Ok in E. destruct E as [afp [Hafp E]].
  apply EmitAstFacts.bind_Ok in E. destruct E as [dfp [Hdfp E]].
  apply EmitAstFacts.bind_Ok in E. destruct E as [ib [_ E]].
  apply EmitAstFacts.bind_Ok in E. destruct E as [rv [_ E]].
  apply EmitAstFacts.bind_Ok in E. destruct E as [text [_ E]].
  apply EmitAstFacts.bind_Ok in E. destruct E as [ret [_ E]].
  inversion E; subst s i0. clear E.
  exists afp, dfp, (EmitAst.set_value_str text). eexists. exists ret. split.
  - unfold layout, args0, kwarg_of, kwp, EmitAst.set_arg, EmitAst.set_value. destruct (fo_kwonly o); reflexivity.
  - split.
    + unfold nk_names, nkp. apply (C06Facts.map_outcome_arg_names _ _ _ _ Hafp).
    + rewrite (EmitAstFacts.map_outcome_length _ _ _ Hdfp), (EmitAstFacts.map_outcome_length _ _ _ Hafp). reflexivity.
Qed.

Lemma mapM_length : forall {A B} (f : A -> outcome B) l l', mapM f l = Ok l' -> List.length l' = List.length l.
Proof. intros A B f l l' H. apply mapM_Forall2 in H. induction H as [|x y l l' _ _ IH]; [reflexivity|]. cbn [List.length]. rewrite IH. reflexivity. Qed.

Lemma reparse_args_names : forall l l', mapM reparse_arg l = Ok l' -> map a_name l' = map a_name l.
Proof.
  intros l l' H. apply mapM_Forall2 in H. induction H as [|x y l l' Hxy _ IH]; [reflexivity|]. cbn [map]. f_equal; [|exact IH].
  unfold reparse_arg in Hxy. destruct (reparse_opt (a_ann x)); cbn [bind] in Hxy; [|discriminate]. inversion Hxy; reflexivity.
Qed.

Lemma mapM_app_inv : forall {A B} (f : A -> outcome B) l1 l2 r,
  mapM f (l1 ++ l2) = Ok r -> exists r1 r2, mapM f l1 = Ok r1 /\ mapM f l2 = Ok r2 /\ r = r1 ++ r2.
Proof.
  intros A B f l1; induction l1 as [|x l1 IH]; intros l2 r H; cbn [app mapM] in *.
  - exists [], r. auto.
  - destruct (f x) as [y|]; cbn [bind] in *; [|discriminate].
    destruct (mapM f (l1 ++ l2)) as [ys|] eqn:E; cbn [bind] in *; [|discriminate]. inversion H; subst r.
    destruct (IH l2 ys E) as (r1 & r2 & H1 & H2 & ->). rewrite H1. cbn [bind]. exists (y :: r1), r2. auto.
Qed.

Lemma reparse_opt_Some_map : forall l l', mapM reparse_opt (map Some l) = Ok l' -> exists l2, l' = map Some l2 /\ List.length l2 = List.length l.
Proof.
  induction l as [|x l IH]; intros l' H; cbn [map mapM] in H.
  - inversion H. exists []. auto.
  - cbn [reparse_opt] in H. destruct (reparse_expr x) as [y|]; cbn [bind] in H; [|discriminate].
    destruct (mapM reparse_opt (map Some l)) as [ys|] eqn:E; cbn [bind] in H; [|discriminate]. inversion H; subst l'.
    destruct (IH ys eq_refl) as (l2 & -> & Hl). exists (y :: l2). cbn [map List.length]. auto.
Qed.

(* the unparse / re-parse step keeps the layout, the names and the pairing of arguments and defaults *)
Lemma reparse_layout : forall kw k afp dfp kwarg a',
  reparse_arguments (layout kw k afp dfp kwarg) = Ok a' ->
  exists afp' dfp' kwarg', a' = layout kw k afp' dfp' kwarg'
    /\ map a_name afp' = map a_name afp /\ List.length dfp' = List.length dfp
    /\ option_map a_name kwarg' = option_map a_name kwarg.
Proof.
  intros kw k afp dfp kwarg a' H. unfold reparse_arguments, layout in H.
  assert (Hkwarg : forall kw', reparse_opt_arg kwarg = Ok kw' -> option_map a_name kw' = option_map a_name kwarg).
  { intros kw' Hx. unfold reparse_opt_arg in Hx. destruct kwarg as [x|]; [|inversion Hx; reflexivity].
    unfold reparse_arg in Hx. destruct (reparse_opt (a_ann x)); cbn [bind] in Hx; [|discriminate]. inversion Hx; reflexivity. }
  destruct kw; cbn [ar_args ar_defaults ar_kwonly ar_kw_defaults ar_vararg ar_kwarg] in H.
  - rewrite reparse_args0 in H. cbn [bind mapM] in H.
    destruct (mapM reparse_arg afp) as [afp'|] eqn:Ea; cbn [bind] in H; [|discriminate].
    destruct (mapM reparse_opt (map Some dfp)) as [kwd|] eqn:Ed; cbn [bind reparse_opt_arg] in H; [|discriminate].
    destruct (reparse_opt_arg kwarg) as [kw'|] eqn:Ek; cbn [bind] in H; [|discriminate]. inversion H; subst a'.
    destruct (reparse_opt_Some_map dfp kwd Ed) as (dfp' & -> & Hl).
    exists afp', dfp', kw'. split; [reflexivity|]. split; [apply reparse_args_names; exact Ea|]. split; [exact Hl|apply Hkwarg; reflexivity].
  - destruct (mapM reparse_arg (args0 k ++ afp)) as [args'|] eqn:Ea; cbn [bind] in H; [|discriminate].
    destruct (mapM_app_inv _ _ _ _ Ea) as (r1 & afp' & H1 & H2 & ->). rewrite reparse_args0 in H1. inversion H1; subst r1.
    destruct (mapM reparse_expr dfp) as [dfp'|] eqn:Ed; cbn [bind mapM reparse_opt_arg] in H; [|discriminate].
    destruct (reparse_opt_arg kwarg) as [kw'|] eqn:Ek; cbn [bind] in H; [|discriminate]. inversion H; subst a'.
    exists afp', dfp', kw'. split; [reflexivity|]. split; [apply reparse_args_names; exact H2|].
    split; [apply (mapM_length _ _ _ Ed)|apply Hkwarg; reflexivity].
Qed.

(* get_function_type reads the kind back from either layout *)
Lemma layout_kind : forall kw k afp dfp kwarg,
  kind_in_domain k = true -> forallb not_self_cls (map a_name afp) = true ->
  get_function_type (layout kw k afp dfp kwarg) = k.
Proof.
  intros kw k afp dfp kwarg Hk Hn. unfold get_function_type, layout, args0.
  destruct (kind_cases _ Hk) as [E|[E|E]]; rewrite E.
  - change (str_eqb (L "static") (L "static")) with true. cbv iota.
    destruct kw; cbn [ar_args app]; [reflexivity|].
    destruct afp as [|x l]; [reflexivity|]. cbn [map forallb] in Hn. apply andb_true_iff in Hn. destruct Hn as [Hn _].
    unfold not_self_cls in Hn. apply negb_true_iff in Hn. rewrite Hn. reflexivity.
  - change (str_eqb (L "self") (L "static")) with false. cbv iota. destruct kw; reflexivity.
  - change (str_eqb (L "cls") (L "static")) with false. cbv iota. destruct kw; reflexivity.
Qed.

Lemma layout_pos_args : forall kw k afp dfp kwarg,
  kind_in_domain k = true -> forallb not_self_cls (map a_name afp) = true ->
  pos_args (layout kw k afp dfp kwarg) = if kw then [] else afp.
Proof.
  intros kw k afp dfp kwarg Hk Hn. unfold pos_args. rewrite (layout_kind kw k afp dfp kwarg Hk Hn).
  unfold layout, args0. destruct (kind_cases _ Hk) as [E|[E|E]]; rewrite E.
  - change (str_eqb (L "static") (L "static")) with true. cbv iota. destruct kw; reflexivity.
  - change (str_eqb (L "self") (L "static")) with false. cbv iota. destruct kw; reflexivity.
  - change (str_eqb (L "cls") (L "static")) with false. cbv iota. destruct kw; reflexivity.
Qed.

(* POSITIONAL vs KEYWORD-ONLY default alignment: in both layouts parse.function pairs the k-th parameter with the
   k-th default node (every parameter carries one: len defaults = len parameters) *)
Theorem C03_default_alignment_lemma : forall kw k afp dfp kwarg,
  kind_in_domain k = true -> forallb not_self_cls (map a_name afp) = true -> List.length dfp = List.length afp ->
  sig_pairs (layout kw k afp dfp kwarg) (pos_args (layout kw k afp dfp kwarg))
  = map2 func_arg2param afp (map Some dfp).
Proof.
  intros kw k afp dfp kwarg Hk Hn Hl. unfold sig_pairs. rewrite (layout_pos_args kw k afp dfp kwarg Hk Hn).
  unfold layout. destruct kw; cbn [ar_defaults ar_kw_defaults ar_kwonly map map2 app List.length].
  - rewrite pad_defaults_exact by (rewrite map_length; symmetry; exact Hl). reflexivity.
  - rewrite app_nil_r. rewrite pad_defaults_exact by (rewrite map_length; symmetry; exact Hl). reflexivity.
Qed.

(* parse.function reports the kind it finds in the argument list *)
Lemma parse_function_type : forall pi pj d n a b dc r it ww res,
  parse_function pi pj d (SFunc n a b dc r) it ww None None = Ok res -> ir_type res = Has (get_function_type a).
Proof.
  intros pi pj d n a b dc r it ww res H. unfold parse_function in H.
  destruct (pf_prepare d (SFunc n a b dc r) None None) as [pp|] eqn:Epp; cbn [bind] in H; [|discriminate].
  destruct (ir_merge pi pj (pp_target pp) (pp_other pp)) as [m|] eqn:Em; cbn [bind] in H; [|discriminate].
  assert (Ht : ir_type (pp_target pp) = Has (get_function_type a)).
  { unfold pf_prepare in Epp. destruct (negb (arg_exprs_ok a)); [discriminate|]. cbn [negb] in Epp.
    apply EmitAstFacts.bind_Ok in Epp. destruct Epp as [base [_ Epp]].
    apply EmitAstFacts.bind_Ok in Epp. destruct Epp as [kw [_ Epp]]. inversion Epp; subst pp. reflexivity. }
  assert (Hm : ir_type m = ir_type (pp_target pp)).
  { unfold ir_merge in Em. destruct (negb _); [discriminate|].
    apply EmitAstFacts.bind_Ok in Em. destruct Em as [ps [_ Em]].
    apply EmitAstFacts.bind_Ok in Em. destruct Em as [rs [_ Em]]. inversion Em; reflexivity. }
  unfold pf_finish in H.
  apply EmitAstFacts.bind_Ok in H. destruct H as [p2 [_ H]].
  apply EmitAstFacts.bind_Ok in H. destruct H as [rets [_ H]].
  apply EmitAstFacts.bind_Ok in H. destruct H as [rets' [_ H]]. inversion H; subst res. cbn [ir_type]. rewrite Hm. exact Ht.
Qed.

(* KIND: static / self / cls is preserved by every round trip that succeeds, for every description whose
   parameters are not themselves called self or cls *)
Theorem C03_kind_lemma : forall o i tds d r,
  kind_in_domain (fo_kind o) = true -> forallb not_self_cls (nk_names i) = true ->
  round_trip_fn o i tds d = Ok r -> kind_preserved (fo_kind o) r = true.
Proof.
  intros o i tds d r Hk Hn H. unfold round_trip_fn in H.
  apply EmitAstFacts.bind_Ok in H. destruct H as [s [Hs H]].
  apply EmitAstFacts.bind_Ok in H. destruct H as [s' [Hs' H]].
  destruct (emit_fn_inv o i tds s Hk Hs) as (afp & dfp & text & rest & ret & -> & Hnames & Hlen).
  unfold reparse_stmt in Hs'. rewrite fname_identifier in Hs'. cbn [negb] in Hs'.
  apply EmitAstFacts.bind_Ok in Hs'. destruct Hs' as [a' [Ha' Hs']].
  apply EmitAstFacts.bind_Ok in Hs'. destruct Hs' as [b' [_ Hs']].
  apply EmitAstFacts.bind_Ok in Hs'. destruct Hs' as [dc' [_ Hs']].
  apply EmitAstFacts.bind_Ok in Hs'. destruct Hs' as [r' [_ Hs']]. inversion Hs'; subst s'.
  destruct (reparse_layout _ _ _ _ _ _ Ha') as (afp' & dfp' & kwarg' & -> & Hn' & _ & _).
  unfold parse_fn in H. apply parse_function_type in H. unfold kind_preserved. rewrite H.
  rewrite layout_kind; [apply str_eqb_refl|exact Hk|]. rewrite Hn', Hnames. exact Hn.
Qed.

(* NAMES AND ORDER, from C06 (the emitted argument list carries the IR's names in order) and C07 (parse.function lists
   the signature's names in source order, then a documented ** parameter): for every description, whatever its types,
   prose and defaults, whenever the round trip succeeds on a well-formed definition *)
Theorem C03_names_order_lemma : forall o i tds d s s' r,
  kind_in_domain (fo_kind o) = true -> forallb not_self_cls (nk_names i) = true ->
  emit_fn o i tds = Ok s -> reparse_stmt s = Ok s' -> C07_domain (Some d) s' = true -> parse_fn (Some d) s' = Ok r ->
  od_keys (ir_params r)
  = nk_names i ++ (match kwarg_of i with
                   | Some k => if mem_str (a_name k) (od_keys (ir_params d)) then [a_name k] else []
                   | None => []
                   end).
Proof.
  intros o i tds d s s' r Hk Hn Hs Hs' Hdom H.
  unfold parse_fn in H. rewrite (parse_function_names _ _ _ _ _ _ _ _ _ Hdom H).
  destruct (emit_fn_inv o i tds s Hk Hs) as (afp & dfp & text & rest & ret & -> & Hnames & Hlen).
  unfold reparse_stmt in Hs'. rewrite fname_identifier in Hs'. cbn [negb] in Hs'.
  apply EmitAstFacts.bind_Ok in Hs'. destruct Hs' as [a' [Ha' Hs']].
  apply EmitAstFacts.bind_Ok in Hs'. destruct Hs' as [b' [Hb' Hs']].
  apply EmitAstFacts.bind_Ok in Hs'. destruct Hs' as [dc' [_ Hs']].
  apply EmitAstFacts.bind_Ok in Hs'. destruct Hs' as [r' [_ Hs']]. inversion Hs'; subst s'.
  destruct (reparse_layout _ _ _ _ _ _ Ha') as (afp' & dfp' & kwarg' & -> & Hn' & Hl' & Hkw').
  cbn [mapM reparse_body_stmt] in Hb'. cbn [bind] in Hb'.
  destruct (mapM reparse_body_stmt rest) as [rest'|]; cbn [bind] in Hb'; [|discriminate]. inversion Hb'; subst b'.
  unfold C07_domain in Hdom. apply andb_true_iff in Hdom. destruct Hdom as [Hwf Hdoc].
  pose proof (wf_doc_facts _ _ _ _ _ _ Hdoc) as D.
  rewrite (expected_names_domain _ _ _ _ _ _ D).
  assert (Hn2 : forallb not_self_cls (map a_name afp') = true) by (rewrite Hn', Hnames; exact Hn).
  unfold sig_pos_names. rewrite (layout_pos_args _ _ _ _ _ Hk Hn2).
  assert (Hsp : map a_name (if fo_kwonly o then [] else afp') ++ map a_name (ar_kwonly (layout (fo_kwonly o) (fo_kind o) afp' dfp' kwarg'))
                = nk_names i).
  { unfold layout. destruct (fo_kwonly o); cbn [ar_kwonly map app]; rewrite ?app_nil_r, Hn', Hnames; reflexivity. }
  rewrite Hsp. f_equal.
  unfold kwarg_documented, kwarg_name.
  assert (Hkn : ar_kwarg (layout (fo_kwonly o) (fo_kind o) afp' dfp' kwarg') = kwarg') by (unfold layout; destruct (fo_kwonly o); reflexivity).
  rewrite Hkn. unfold doc_names, doc_params, fd_body. cbn [docstring_of].
  destruct kwarg' as [k'|]; destruct (kwarg_of i) as [k|]; cbn [option_map] in Hkw'; try discriminate; [|reflexivity].
  inversion Hkw' as [Hkk]. cbn [option_map opt_list]. rewrite Hkk.
  destruct (mem_str (a_name k) (od_keys (ir_params d))); reflexivity.
Qed.

(* ================================================================== *)
(* Named codec theorems (restatements) *)
(* ================================================================== *)

(* INLINE ANNOTATIONS: for a canonical type the emitter writes an annotation that the unparse / re-parse step leaves
   alone and that parse.function prints back as the very type string *)
Theorem C03_annotation_codec_lemma : forall o n g t dflt,
  fo_inline o = true -> g_typ g = Has t -> typ_inline_ok t = true ->
  exists e, EmitAst.arg_of_param (fo_pt o) true (n, g) = Ok (mkArg n (Some e))
            /\ reparse_expr e = Ok e
            /\ g_typ (snd (func_arg2param (mkArg n (Some e)) dflt)) = Has t.
Proof.
  intros o n g t dflt Hi Ht Hok.
  destruct (ann_of_typed o g t Hi Ht Hok) as (e & He & Hre & _ & Hshow).
  exists e. split.
  - assert (Hf : typ_fits o g) by (unfold typ_fits; rewrite Ht; intros _; exact Hok).
    pose proof (arg_of_param_fits o n g Hf) as H. rewrite Hi, He in H. exact H.
  - split; [exact Hre|]. unfold func_arg2param. cbn [snd g_typ a_ann]. rewrite Hshow. reflexivity.
Qed.

(* DEFAULTS, per value class (None / bool / int >= 0 / int < 0 / float / str): the default node the emitter writes, after
   unparse / re-parse, is read back by _infer_default as the same value with the same Python type *)
Theorem C03_default_codec_lemma : forall q g v nq,
  g_default g = Some (DV v) -> value_ok v = true -> str_ok v = true ->
  needs_quoting (fget (g_typ q)) = Ok nq ->
  (forall t, g_typ q = Has t -> code_val v = true -> contains [ch 91] t = true) ->
  (fld_is_none (g_typ q) = true -> in_none_types v || code_val v = true) ->
  infer_default q (DE (rdflt g)) false = Ok (mkG (g_doc q) (rtyp (g_typ q) v) (Some (back v)))
  /\ C02Spec.same_default (DV v) (back v) = true.
Proof. intros. split; [eapply infer_default_codec; eassumption|apply same_default_back]. Qed.

(* ================================================================== *)
(* Refutation, non-vacuity *)
(* ================================================================== *)
Definition w3_opts : fopts := mkFO (L "static") true true 1 true false true [].

(* one keyword-only parameter x: int without default, emitted with the default None *)
Definition w3_ir : ir :=
  mkIR (Has (L "f")) (Has (L "static")) (Has (L "Summary."))
       [(L "x", mkG (Has (L "the x.")) (Has (L "int")) None)] FNone None.

Definition w3_doc : ir :=
  mkIR FNone (Has (L "static")) (Has (L "Summary."))
       [(L "x", mkG (Has (L "the x.")) Missing None)] FNone None.

Lemma C03_refuted_lemma : ~ C03_statement.
Proof.
  intros H. specialize (H w3_opts w3_ir (L "text") w3_doc).
  destruct H as [r [Hr Hs]]; [vm_compute; reflexivity|vm_compute; reflexivity|].
  assert (Hb : C03_at_b w3_opts w3_ir (L "text") w3_doc = false) by (vm_compute; reflexivity).
  unfold C03_at_b in Hb. rewrite Hr in Hb. congruence.
Qed.

Lemma C03_witness_class : finding_class_C03 w3_opts w3_ir = Some K3_no_default_becomes_none.
Proof. vm_compute. reflexivity. Qed.

Definition nv3_opts : fopts := mkFO (L "self") true false 2 true false true [].

Definition nv3_ir : ir :=
  mkIR (Has (L "f")) (Has (L "static")) (Has (L "Summary."))
       [(L "dataset_name", mkG (Has (L "name of the dataset.")) (Has (L "str")) (Some (DV (VStr (L "mnist")))));
        (L "K", mkG (Has (L "backend.")) (Has (L "Literal['np', 'tf']")) (Some (DV (VStr (L "np")))));
        (L "lr", mkG Missing (Has (L "Optional[float]")) (Some (DV VNone)));
        (L "n", mkG (Has (L "count.")) (Has (L "int")) (Some (DV (VInt (-5)%Z))));
        (L "flag", mkG (Has (L "whether.")) (Has (L "bool")) (Some (DV (VBool true))));
        (L "items", mkG (Has (L "the items.")) (Has (L "List[int]")) (Some (DV (VStr (L "```[1, 2]```")))));
        (L "data_loader_kwargs", mkG (Has (L "passed on.")) (Has (L "Optional[dict]")) (Some (DV (VStr NoneStr))))]
       (Has (mkG (Has (L "the pair.")) (Has (L "Tuple[int, int]")) (Some (DV (VStr (L "```[1, 2]```")))))) None.

Definition nv3_doc : ir :=
  mkIR FNone (Has (L "static")) (Has (L "Summary."))
       [(L "dataset_name", mkG (Has (L "name of the dataset.")) Missing None);
        (L "K", mkG (Has (L "backend.")) Missing None);
        (L "n", mkG (Has (L "count.")) Missing None);
        (L "flag", mkG (Has (L "whether.")) Missing None);
        (L "items", mkG (Has (L "the items.")) Missing None);
        (L "data_loader_kwargs", mkG (Has (L "passed on.")) (Has (L "Optional[dict]")) (Some (DV (VStr NoneStr))))]
       (Has (mkG (Has (L "the pair.")) Missing None)) None.

Lemma C03_nonvacuous_lemma :
  guard_C03 nv3_opts nv3_ir = true /\ doc_agrees nv3_opts nv3_ir nv3_doc = true
  /\ List.length (ir_params nv3_ir) = 7 /\ C03_at_b nv3_opts nv3_ir (L "text") nv3_doc = true.
Proof. vm_compute. repeat split; reflexivity. Qed.

(* one minimal witness per finding class (the same descriptions fail on the real code: harness/prop_C03.py) *)
Definition wB : fopts := mkFO (L "static") true true 1 true false true [].
Definition wB_edd : fopts := mkFO (L "static") true true 1 true true true [].
Definition wB_doctyp : fopts := mkFO (L "static") false true 1 true false true [].
Definition w_ir1 (n : String.string) (g : gparam) : ir :=
  mkIR FNone (Has (L "static")) (Has (L "Summary.")) [(L n, g)] FNone None.
Arguments w_ir1 n%string_scope g.
Definition w_irR (g : gparam) : ir := mkIR FNone (Has (L "static")) (Has (L "Summary.")) [] (Has g) None.
Definition dI (z : Z) : option dval := Some (DV (VInt z)).
Definition dS (s : String.string) : option dval := Some (DV (VStr (L s))).
Arguments dS s%string_scope.

Definition class_witnesses : list (fopts * ir * c03_class) :=
  [ (wB_edd, w_ir1 "x" (mkG (Has (L "the x.")) (Has (L "int")) (dI 5)), K3_default_sentence_kept);
    (wB, w_ir1 "x" (mkG (Has (L " the x.")) (Has (L "int")) (dI 5)), K3_prose_not_docstring_safe);
    (wB, w_ir1 "x" (mkG (Has (L "Optional thing.")) (Has (L "int")) (dI 5)), K3_prose_starts_optional);
    (wB, w_ir1 "kwargs" (mkG Missing (Has (L "Optional[dict]")) (Some (DV VNone))), K3_kwargs_undocumented);
    (wB, w_ir1 "kwargs" (mkG (Has (L "the kw.")) (Has (L "dict")) (Some (DV VNone))), K3_kwargs_shape);
    (wB, w_ir1 "x" (mkG (Has (L "the x.")) (Has (L "int")) None), K3_no_default_becomes_none);
    (wB, w_ir1 "x" (mkG (Has (L "the x.")) Missing (dI 5)), K3_untyped_acquires_type);
    (wB, w_ir1 "x" (mkG (Has (L "the x.")) (Has (L "Optional[ int ]")) (dI 5)), K3_type_not_canonical);
    (wB_doctyp, w_ir1 "x" (mkG Missing (Has (L "Optional[int]")) (Some (DV VNone))), K3_type_lost_without_prose);
    (wB, w_ir1 "x" (mkG (Has (L "the x.")) (Has (L "np.ndarray")) (dS "```np.zeros(3)```")), K3_code_default_drops_type);
    (wB, w_ir1 "x" (mkG (Has (L "the x.")) (Has (L "str")) (dS "'a'")), K3_str_default_requoted);
    (wB_doctyp, w_irR (mkG Missing (Has (L "int")) None), K3_return_vanishes);
    (wB, w_irR (mkG (Has (L "the r.")) (Has (L "List[int]")) (dS "```5```")), K3_return_default_not_code);
    (wB, w_irR (mkG (Has (L "the r.")) (Has (L "int")) (dS "```[1, 2]```")), K3_return_type_dropped) ].

Definition class_eqb (a b : c03_class) : bool := str_eqb (c03_class_name a) (c03_class_name b).

Lemma C03_class_witnesses_lemma :
  forallb (fun w => match w with
                    | (o, i, k) => C03_domain o i
                                   && match finding_class_C03 o i with Some k' => class_eqb k k' | None => false end
                    end) class_witnesses = true.
Proof. vm_compute. reflexivity. Qed.

(* ================================================================== *)
(* Class-free corollaries *)
(* ================================================================== *)
Lemma first_class_all_None : forall f ps, (forall n g, In (n, g) ps -> f n g = None) -> first_class f ps = None.
Proof.
  intros f ps; induction ps as [|[n g] ps IH]; intros H; cbn [first_class]; [reflexivity|].
  rewrite (H n g (or_introl eq_refl)). apply IH. intros n' g' Hin. apply H. right; exact Hin.
Qed.

Definition plain_prose (doc : str) : bool := prose_safe doc && negb (starts_optional doc).

(* a documented parameter with a scalar type name and a default of a scalar kind that is not back-tick code *)
Definition scalar_param (kv : str * gparam) : bool :=
  negb (kwargs_name (fst kv))
  && match g_doc (snd kv), g_typ (snd kv), g_default (snd kv) with
     | Has (c :: r), Has t, Some (DV v) =>
       plain_prose (c :: r) && in_simple_types t
       && match v with
          | VStr s => (in_none_types (VStr s) || str_keeps_quotes s) && negb (code_quoted s)
          | _ => true
          end
     | _, _, _ => false
     end.

Definition scalar_ir (o : fopts) (i : ir) : bool :=
  C03_domain o i && negb (fo_edd o)
  && negb (match ir_doc i with Has d => C02Spec.prose_has_token d | _ => false end)
  && forallb scalar_param (ir_params i)
  && match ir_returns i with FNone => true | _ => false end.

Lemma simple_types_parse : forallb (fun t => typ_parses t && ret_typ_inline_ok t) Extracted.simple_type_names = true.
Proof. vm_compute. reflexivity. Qed.

Lemma simple_type_facts : forall t, in_simple_types t = true -> typ_parses t = true /\ ret_typ_inline_ok t = true.
Proof.
  intros t H. unfold in_simple_types in H. apply existsb_exists in H. destruct H as [x [Hin Hx]].
  apply str_eqb_eq in Hx. subst x. pose proof simple_types_parse as Hp. rewrite forallb_forall in Hp.
  specialize (Hp t Hin). apply andb_true_iff in Hp. exact Hp.
Qed.

Lemma prose_class_plain : forall g c r, g_doc g = Has (c :: r) -> plain_prose (c :: r) = true -> prose_class g = None.
Proof.
  intros g c r Hd Hp. unfold prose_class, prose_of, C02Spec.prose_of. rewrite Hd.
  unfold plain_prose in Hp. apply andb_true_iff in Hp. destruct Hp as [Hs Ho]. rewrite Hs. cbn [negb].
  apply negb_true_iff in Ho. change (C02Spec.prose_starts_optional (c :: r)) with (starts_optional (c :: r)). rewrite Ho. reflexivity.
Qed.

Theorem C03_scalar_guard : forall o i, scalar_ir o i = true -> guard_C03 o i = true.
Proof.
  intros o i H. unfold scalar_ir in H.
  apply andb_true_iff in H. destruct H as [H Hret]. apply andb_true_iff in H. destruct H as [H Hps].
  apply andb_true_iff in H. destruct H as [H Hsum]. apply andb_true_iff in H. destruct H as [H Hedd].
  apply negb_true_iff in Hedd. apply negb_true_iff in Hsum.
  unfold guard_C03. rewrite H. cbn [andb]. unfold finding_class_C03. rewrite Hedd, Hsum. cbn [andb].
  rewrite first_class_all_None.
  - destruct (ir_returns i); try discriminate; reflexivity.
  - intros n g Hin. rewrite forallb_forall in Hps. specialize (Hps (n, g) Hin). unfold scalar_param in Hps. cbn [fst snd] in Hps.
    apply andb_true_iff in Hps. destruct Hps as [Hk Hg]. apply negb_true_iff in Hk.
    unfold C03Spec.param_class. rewrite Hk.
    destruct (g_doc g) as [| |[|c r]] eqn:Ed; try discriminate.
    destruct (g_typ g) as [| |t] eqn:Et; try discriminate.
    destruct (g_default g) as [[v|e|x]|] eqn:Edf; try discriminate.
    apply andb_true_iff in Hg. destruct Hg as [Hg Hv]. apply andb_true_iff in Hg. destruct Hg as [Hp Hst].
    rewrite (prose_class_plain g c r Ed Hp).
    destruct (simple_type_facts t Hst) as [Htp _].
    assert (Hreq : (match dv_str (DV v) with
                    | Some s => negb (in_none_types (VStr s)) && negb (str_keeps_quotes s)
                    | None => false
                    end) = false).
    { destruct v as [| | | |s]; try reflexivity. cbn [dv_str]. apply andb_true_iff in Hv. destruct Hv as [Hv _].
      destruct (in_none_types (VStr s)); [reflexivity|]. cbn [orb] in Hv. rewrite Hv. reflexivity. }
    rewrite Hreq, Htp. cbn [negb].
    assert (Hin_ok : typ_inline_ok t = true) by (unfold typ_inline_ok; rewrite Hst; reflexivity).
    rewrite Hin_ok. cbn [negb]. rewrite andb_false_r.
    assert (Hhp : has_prose g = true) by (unfold has_prose, prose_of, C02Spec.prose_of; rewrite Ed; reflexivity).
    rewrite Hhp. cbn [negb]. rewrite andb_false_r.
    assert (Hcq : C02Spec.d_code_quoted (DV v) = false).
    { destruct v as [| | | |s]; try reflexivity. cbn [C02Spec.d_code_quoted]. apply andb_true_iff in Hv. destruct Hv as [_ Hv].
      apply negb_true_iff in Hv. rewrite Hv. reflexivity. }
    rewrite Hcq. reflexivity.
Qed.

(* every documented, scalar-typed, defaulted description round-trips, inline or docstring types, positional or keyword-only,
   static / self / cls, any number of parameters *)
Theorem C03_scalar_lemma : forall o i text d,
  scalar_ir o i = true -> doc_agrees o i d = true -> C03_at o i text d.
Proof. intros o i text d H DA. apply C03_partial_lemma; [apply C03_scalar_guard; exact H|exact DA]. Qed.

(* a function that documents only its return value: parsing never raises *)
Definition return_only_ir (o : fopts) (i : ir) : bool :=
  C03_domain o i && negb (fo_edd o)
  && negb (match ir_doc i with Has d => C02Spec.prose_has_token d | _ => false end)
  && match ir_params i, ir_returns i with
     | [], Has g =>
       match g_doc g, g_default g with
       | Has (c :: r), None =>
         plain_prose (c :: r)
         && match g_typ g with Has t => in_simple_types t | Missing => true | FNone => false end
       | _, _ => false
       end
     | _, _ => false
     end.

Theorem C03_return_only_guard : forall o i, return_only_ir o i = true -> guard_C03 o i = true.
Proof.
  intros o i H. unfold return_only_ir in H.
  apply andb_true_iff in H. destruct H as [H Hr]. apply andb_true_iff in H. destruct H as [H Hsum].
  apply andb_true_iff in H. destruct H as [H Hedd]. apply negb_true_iff in Hedd. apply negb_true_iff in Hsum.
  unfold guard_C03. rewrite H. cbn [andb]. unfold finding_class_C03. rewrite Hedd, Hsum. cbn [andb].
  destruct (ir_params i); [|discriminate]. cbn [first_class].
  destruct (ir_returns i) as [| |g]; try discriminate.
  destruct (g_doc g) as [| |[|c r]] eqn:Ed; try discriminate.
  destruct (g_default g) eqn:Edf; [discriminate|].
  apply andb_true_iff in Hr. destruct Hr as [Hp Ht].
  unfold C03Spec.return_class. rewrite (prose_class_plain g c r Ed Hp). rewrite Edf.
  assert (Hhp : has_prose g = true) by (unfold has_prose, prose_of, C02Spec.prose_of; rewrite Ed; reflexivity).
  rewrite Hhp. unfold return_typ_class.
  destruct (g_typ g) as [| |t]; [reflexivity|discriminate|].
  destruct (simple_type_facts t Ht) as [Htp Hri]. rewrite Htp, Hri. cbn [negb orb]. rewrite andb_false_r. reflexivity.
Qed.

Theorem C03_return_only_lemma : forall o i text d,
  return_only_ir o i = true -> doc_agrees o i d = true -> C03_at o i text d.
Proof. intros o i text d H DA. apply C03_partial_lemma; [apply C03_return_only_guard; exact H|exact DA]. Qed.
