(* C03Compose: composition of the emit.function model (EmitAst), the unparse / re-parse step (C03Spec.reparse_stmt)
   and the parse.function model (ParseSig + Merge) - property C03, function / method round trip.

   The docstring layer is decoupled exactly as the models are: the emitter takes the text [text] that
   to_docstring returned, the parser takes the docstring-derived IR [d]; every theorem quantifies over both and
   assumes only the named hypothesis doc_agrees (C03Spec).  All statements are unbounded in the number of
   parameters.

   PROVED
     emit side      emit_fn_shape (the emitted function, for every in-guard description), reparse_* (what the
                    unparse / re-parse step does to it);
     codec          C03_kind, C03_kwargs, C03_default_alignment, C03_names_order, C03_annotation_codec,
                    C03_default_codec (per value class: None, bool, int >= 0, int < 0, float, str), C03_param_codec,
                    C03_return_codec;
     whole          C03_refuted (vm_compute witness), C03_partial (guard + doc_agrees => the composed model succeeds
                    and hands back the same interface and kind), C03_nonvacuous, class-free corollaries
                    C03_typed_defaults_inline, C03_return_only.
   NOT PROVED (stated as hypotheses, evaluated by the oracle on every in-guard point)
     doc_agrees for the text to_docstring produces (the ReST round trip of the indented text);
     that reparse_stmt is what CPython does (model; correspondence family c03). *)
From Coq Require Import List Ascii Bool Arith ZArith Lia Permutation.
From Coq Require String.
Import String.StringSyntax.
From DT Require Import PyStr Sexp PyVal TyExpr Extracted PureUtils Defaults PyAst IR Merge ParseSig C12Spec C07Spec.
From DT Require Import PyStrFacts MergeFacts C12Facts ParseSigFacts C07Facts.
From DT Require EmitAst C06Spec C02Spec EmitAstFacts C06Facts.
From DT Require Import C03Spec.
Import ListNotations.

(* ------------------------------------------------------------------ *)
(* generic                                                             *)
(* ------------------------------------------------------------------ *)
Lemma mapM_ok_forall : forall {A B} (f : A -> outcome B) l,
  (forall x, In x l -> exists y, f x = Ok y) -> exists l', mapM f l = Ok l'.
Proof.
  intros A B f l; induction l as [|x r IH]; intros H; cbn [mapM]; [eexists; reflexivity|].
  destruct (H x (or_introl eq_refl)) as [y Hy]. rewrite Hy. cbn [bind].
  destruct IH as [l' Hl']; [intros z Hz; apply H; right; exact Hz|]. rewrite Hl'. cbn [bind]. eexists; reflexivity.
Qed.

Lemma mapM_map_ok : forall {A B} (f : A -> outcome B) (g : A -> B) l,
  (forall x, In x l -> f x = Ok (g x)) -> mapM f l = Ok (map g l).
Proof.
  intros A B f g l; induction l as [|x r IH]; intros H; cbn [mapM map]; [reflexivity|].
  rewrite (H x (or_introl eq_refl)). cbn [bind]. rewrite IH by (intros z Hz; apply H; right; exact Hz). reflexivity.
Qed.

Lemma mapM_app : forall {A B} (f : A -> outcome B) l1 l2 r1 r2,
  mapM f l1 = Ok r1 -> mapM f l2 = Ok r2 -> mapM f (l1 ++ l2) = Ok (r1 ++ r2).
Proof.
  intros A B f l1; induction l1 as [|x l1 IH]; intros l2 r1 r2 H1 H2; cbn [mapM app] in *.
  - inversion H1; subst. exact H2.
  - destruct (f x) as [y|]; cbn [bind] in *; [|discriminate].
    destruct (mapM f l1) as [ys|] eqn:E; cbn [bind] in *; [|discriminate].
    inversion H1; subst. rewrite (IH l2 ys r2 eq_refl H2). reflexivity.
Qed.

Lemma map_outcome_map_ok : forall {A B} (f : A -> outcome B) (g : A -> B) l,
  (forall x, In x l -> f x = Ok (g x)) -> EmitAst.map_outcome f l = Ok (map g l).
Proof.
  intros A B f g l; induction l as [|x r IH]; intros H; cbn [EmitAst.map_outcome map]; [reflexivity|].
  rewrite (H x (or_introl eq_refl)). cbn [bind]. rewrite IH by (intros z Hz; apply H; right; exact Hz). reflexivity.
Qed.

Lemma expr_eqb_true : forall a b, expr_eqb a b = true -> a = b.
Proof. exact EmitAstFacts.expr_eqb_eq. Qed.

Lemma kind_cases : forall k, kind_in_domain k = true -> k = L "static" \/ k = L "self" \/ k = L "cls".
Proof.
  intros k H. unfold kind_in_domain in H. apply orb_true_iff in H. destruct H as [H|H].
  - apply orb_true_iff in H. destruct H as [H|H]; apply str_eqb_eq in H; auto.
  - apply str_eqb_eq in H; auto.
Qed.

(* ------------------------------------------------------------------ *)
(* ast.parse on type strings: inside TyExpr's fragment the table is not consulted *)
(* ------------------------------------------------------------------ *)
Lemma parse_expr_src_nil : forall pt s e,
  EmitAst.parse_expr_src [] s = Ok e -> EmitAst.parse_expr_src pt s = Ok e.
Proof.
  intros pt s e H. unfold EmitAst.parse_expr_src in *.
  destruct (strip s) as [|cs ss]; [discriminate|].
  destruct (mem_c bt s && negb (mem_c sq s) && negb (mem_c dq s)); [discriminate|].
  destruct s as [|c0 sr]; [discriminate|].
  destruct (ascii_eqb c0 sp || ascii_eqb c0 tabch); [discriminate|].
  cbn [EmitAst.pt_lookup] in H.
  destruct (forallb EmitAst.printable (c0 :: sr) && negb (EmitAst.comma_before_rb (c0 :: sr) false)); [|discriminate].
  destruct (parse_ty (c0 :: sr)) as [t|]; [|discriminate].
  destruct (EmitAst.ty2expr t) as [e0|]; [exact H|discriminate].
Qed.

Lemma ast_parse_fix_nil : forall pt s e,
  EmitAst.ast_parse_fix [] s = Ok e -> EmitAst.ast_parse_fix pt s = Ok e.
Proof. intros pt s e H. unfold EmitAst.ast_parse_fix in *. apply parse_expr_src_nil; exact H. Qed.

(* ------------------------------------------------------------------ *)
(* the emitted signature, parameter by parameter                       *)
(* ------------------------------------------------------------------ *)
Definition nkp (i : ir) : list (str * gparam) := filter EmitAst.no_kwargs (ir_params i).
Definition kwp (i : ir) : list (str * gparam) := filter (fun kv => negb (EmitAst.no_kwargs kv)) (ir_params i).

(* the annotation emit.function writes for a parameter *)
Definition ann_of (o : fopts) (g : gparam) : option expr :=
  if fo_inline o then
    match g_typ g with
    | Has t => if in_simple_types t then Some (EName t)
               else match EmitAst.ast_parse_fix [] t with Ok e => Some e | Err _ => None end
    | _ => None
    end
  else None.

(* the default node emit.function writes for a parameter *)
Definition dflt_of (g : gparam) : expr :=
  match g_default g with
  | Some (DV v) => if in_none_types v then EmitAst.set_value VNone else EmitAst.set_value v
  | _ => EmitAst.set_value VNone
  end.

(* what the guard says about the type of an entry when types are inline *)
Definition typ_fits (o : fopts) (g : gparam) : Prop :=
  match g_typ g with
  | Has t => fo_inline o = true -> typ_inline_ok t = true
  | Missing => True
  | FNone => False
  end.

Lemma arg_of_param_fits : forall o n g, typ_fits o g ->
  EmitAst.arg_of_param (fo_pt o) (fo_inline o) (n, g) = Ok (mkArg n (ann_of o g)).
Proof.
  intros o n g H. unfold EmitAst.arg_of_param, ann_of, typ_fits in *. destruct (fo_inline o); [|reflexivity].
  destruct (g_typ g) as [| |t]; [reflexivity|contradiction|].
  specialize (H eq_refl). unfold typ_inline_ok in H.
  destruct (in_simple_types t); [reflexivity|]. cbn [orb] in H.
  destruct (EmitAst.ast_parse_fix [] t) as [e|] eqn:E; [|discriminate].
  rewrite (ast_parse_fix_nil _ _ _ E). reflexivity.
Qed.

Definition default_scalar (g : gparam) : Prop :=
  match g_default g with None => True | Some (DV _) => True | Some _ => False end.

Lemma default_of_param_scalar : forall n g, default_scalar g ->
  EmitAst.default_of_param (n, g) = Ok (dflt_of g).
Proof.
  intros n g H. unfold EmitAst.default_of_param, dflt_of, default_scalar in *. cbn [snd].
  destruct (g_default g) as [[v|e|r]|]; try contradiction; [|reflexivity].
  destruct (in_none_types v); reflexivity.
Qed.

(* ------------------------------------------------------------------ *)
(* the emitted function                                                *)
(* ------------------------------------------------------------------ *)
Definition args0 (k : str) : list arg := if str_eqb k (L "static") then [] else [mkArg k None].

Definition kwarg_of (i : ir) : option arg :=
  match kwp i with kv :: _ => Some (mkArg (fst kv) None) | [] => None end.

Definition afp_of (o : fopts) (i : ir) : list arg := map (fun kv => mkArg (fst kv) (ann_of o (snd kv))) (nkp i).
Definition dfp_of (i : ir) : list expr := map (fun kv => dflt_of (snd kv)) (nkp i).

Definition emitted_arguments (o : fopts) (i : ir) : arguments :=
  if fo_kwonly o
  then mkArguments (args0 (fo_kind o)) [] (afp_of o i) (map Some (dfp_of i)) None (kwarg_of i)
  else mkArguments (args0 (fo_kind o) ++ afp_of o i) (dfp_of i) [] [] None (kwarg_of i).

(* the `-> annotation` computation of emit.function *)
Definition ret_ann_o (o : fopts) (i : ir) : outcome (option expr) :=
  if fo_inline o then
    match EmitAst.returns_param i with
    | Some p => match fget (g_typ p) with
                | Some (c :: t) => do e <- EmitAst.parse_expr_src (fo_pt o) (c :: t); Ok (Some e)
                | _ => Ok None
                end
    | None => Ok None
    end
  else Ok None.

Definition emitted_body (text : str) (rv : option stmt) : list stmt :=
  SExpr (EmitAst.set_value (VStr text)) :: opt_list rv.

Lemma emit_fn_shape : forall o i text rv ann,
  kind_in_domain (fo_kind o) = true -> ir_internal i = None ->
  (forall kv, In kv (nkp i) -> typ_fits o (snd kv) /\ default_scalar (snd kv)) ->
  EmitAst.function_return_val (fo_pt o) i = Ok rv ->
  ret_ann_o o i = Ok ann ->
  emit_fn o i (Ok text) = Ok (SFunc fname (emitted_arguments o i) (emitted_body text rv) [] ann).
Proof.
  intros o i text rv ann Hk Hint Hps Hrv Hann.
  unfold emit_fn, EmitAst.emit_function.
  assert (Hf : EmitAst.py_or (Some fname) (ir_name i) = Ok (Some fname)) by reflexivity.
  rewrite Hf. cbn [bind].
  assert (Hkd : EmitAst.py_or (Some (fo_kind o)) (ir_type i) = Ok (Some (fo_kind o))).
  { destruct (kind_cases _ Hk) as [E|[E|E]]; rewrite E; reflexivity. }
  rewrite Hkd. cbn [bind].
  fold (nkp i).
  rewrite (map_outcome_map_ok (EmitAst.arg_of_param (fo_pt o) (fo_inline o))
                              (fun kv => mkArg (fst kv) (ann_of o (snd kv))) (nkp i)).
  2:{ intros [n g] Hin. cbn [fst snd]. apply arg_of_param_fits. apply (Hps _ Hin). }
  cbn [bind].
  rewrite (map_outcome_map_ok EmitAst.default_of_param (fun kv => dflt_of (snd kv)) (nkp i)).
  2:{ intros [n g] Hin. cbn [fst snd]. apply default_of_param_scalar. apply (Hps _ Hin). }
  cbn [bind].
  unfold EmitAst.get_internal_body. rewrite Hint. cbn [bind].
  rewrite Hrv. cbn [bind].
  unfold ret_ann_o in Hann. rewrite Hann. cbn [bind fst].
  unfold emitted_arguments, afp_of, dfp_of, kwarg_of, kwp, args0, emitted_body, EmitAst.set_arg.
  assert (Hbody : EmitAst.function_body_splice [] rv = opt_list rv).
  { unfold EmitAst.function_body_splice. destruct rv; reflexivity. }
  rewrite Hbody.
  destruct (fo_kwonly o); reflexivity.
Qed.

(* ------------------------------------------------------------------ *)
(* the unparse / re-parse step on the emitted function                 *)
(* ------------------------------------------------------------------ *)
(* the default node as it comes back *)
Definition rdflt (g : gparam) : expr :=
  match reparse_expr (dflt_of g) with Ok e => e | Err _ => dflt_of g end.

Definition rdfp_of (i : ir) : list expr := map (fun kv => rdflt (snd kv)) (nkp i).

Definition reparsed_arguments (o : fopts) (i : ir) : arguments :=
  if fo_kwonly o
  then mkArguments (args0 (fo_kind o)) [] (afp_of o i) (map Some (rdfp_of i)) None (kwarg_of i)
  else mkArguments (args0 (fo_kind o) ++ afp_of o i) (rdfp_of i) [] [] None (kwarg_of i).

(* annotations written by the emitter inside the guard are fixed points *)
Definition ann_stable (o : fopts) (g : gparam) : Prop := reparse_opt (ann_of o g) = Ok (ann_of o g).
Definition dflt_reparses (g : gparam) : Prop := exists e, reparse_expr (dflt_of g) = Ok e.

Lemma rdflt_ok : forall g, dflt_reparses g -> reparse_expr (dflt_of g) = Ok (rdflt g).
Proof. intros g [e He]. unfold rdflt. rewrite He. reflexivity. Qed.

Lemma reparse_args0 : forall k, mapM reparse_arg (args0 k) = Ok (args0 k).
Proof. intros k. unfold args0. destruct (str_eqb k (L "static")); reflexivity. Qed.

Lemma reparse_afp : forall o i, (forall kv, In kv (nkp i) -> ann_stable o (snd kv)) ->
  mapM reparse_arg (afp_of o i) = Ok (afp_of o i).
Proof.
  intros o i H. unfold afp_of. induction (nkp i) as [|[n g] l IH]; cbn [map mapM]; [reflexivity|].
  unfold reparse_arg at 1. cbn [a_ann a_name fst snd].
  pose proof (H (n, g) (or_introl eq_refl)) as Hs. unfold ann_stable in Hs. cbn [snd] in Hs. rewrite Hs. cbn [bind].
  rewrite IH by (intros kv Hkv; apply H; right; exact Hkv). reflexivity.
Qed.

Lemma reparse_dfp : forall i, (forall kv, In kv (nkp i) -> dflt_reparses (snd kv)) ->
  mapM reparse_expr (dfp_of i) = Ok (rdfp_of i).
Proof.
  intros i H. unfold dfp_of, rdfp_of. induction (nkp i) as [|[n g] l IH]; cbn [map mapM]; [reflexivity|].
  cbn [snd]. rewrite (rdflt_ok g (H (n, g) (or_introl eq_refl))). cbn [bind].
  rewrite IH by (intros kv Hkv; apply H; right; exact Hkv). reflexivity.
Qed.

Lemma reparse_dfp_opt : forall i, (forall kv, In kv (nkp i) -> dflt_reparses (snd kv)) ->
  mapM reparse_opt (map Some (dfp_of i)) = Ok (map Some (rdfp_of i)).
Proof.
  intros i H. unfold dfp_of, rdfp_of. induction (nkp i) as [|[n g] l IH]; cbn [map mapM]; [reflexivity|].
  cbn [snd reparse_opt]. rewrite (rdflt_ok g (H (n, g) (or_introl eq_refl))). cbn [bind].
  rewrite IH by (intros kv Hkv; apply H; right; exact Hkv). reflexivity.
Qed.

Lemma reparse_kwarg_of : forall i, reparse_opt_arg (kwarg_of i) = Ok (kwarg_of i).
Proof. intros i. unfold kwarg_of. destruct (kwp i) as [|kv r]; reflexivity. Qed.

Lemma reparse_emitted_arguments : forall o i,
  (forall kv, In kv (nkp i) -> ann_stable o (snd kv) /\ dflt_reparses (snd kv)) ->
  reparse_arguments (emitted_arguments o i) = Ok (reparsed_arguments o i).
Proof.
  intros o i H. unfold reparse_arguments, emitted_arguments, reparsed_arguments.
  assert (Ha : mapM reparse_arg (afp_of o i) = Ok (afp_of o i)) by (apply reparse_afp; intros kv Hkv; apply (H kv Hkv)).
  assert (Hd : mapM reparse_expr (dfp_of i) = Ok (rdfp_of i)) by (apply reparse_dfp; intros kv Hkv; apply (H kv Hkv)).
  assert (Hdo : mapM reparse_opt (map Some (dfp_of i)) = Ok (map Some (rdfp_of i)))
    by (apply reparse_dfp_opt; intros kv Hkv; apply (H kv Hkv)).
  destruct (fo_kwonly o); cbn [ar_args ar_defaults ar_kwonly ar_kw_defaults ar_vararg ar_kwarg].
  - rewrite reparse_args0. cbn [bind mapM]. rewrite Ha. cbn [bind]. rewrite Hdo. cbn [bind reparse_opt_arg].
    rewrite reparse_kwarg_of. reflexivity.
  - rewrite (mapM_app reparse_arg _ _ _ _ (reparse_args0 (fo_kind o)) Ha). cbn [bind]. rewrite Hd. cbn [bind mapM reparse_opt_arg].
    rewrite reparse_kwarg_of. reflexivity.
Qed.

Lemma fname_identifier : C06Spec.is_identifier fname = true.
Proof. vm_compute. reflexivity. Qed.

Lemma reparse_emitted : forall o i text rv rv' ann ann',
  (forall kv, In kv (nkp i) -> ann_stable o (snd kv) /\ dflt_reparses (snd kv)) ->
  mapM reparse_body_stmt (opt_list rv) = Ok (opt_list rv') ->
  reparse_opt ann = Ok ann' ->
  reparse_stmt (SFunc fname (emitted_arguments o i) (emitted_body text rv) [] ann)
  = Ok (SFunc fname (reparsed_arguments o i) (emitted_body text rv') [] ann').
Proof.
  intros o i text rv rv' ann ann' Hps Hrv Hann. unfold reparse_stmt. rewrite fname_identifier. cbn [negb].
  rewrite (reparse_emitted_arguments o i Hps). cbn [bind].
  unfold emitted_body. cbn [mapM]. unfold EmitAst.set_value at 1. cbn [reparse_body_stmt bind].
  rewrite Hrv. cbn [bind mapM]. rewrite Hann. cbn [bind]. reflexivity.
Qed.

(* ------------------------------------------------------------------ *)
(* parse.function on a function whose body starts with a docstring: the stages made explicit *)
(* ------------------------------------------------------------------ *)
Definition doc_returns_in (d : ir) : fld gparam := match ir_returns d with Has t => Has t | _ => FNone end.

Definition finish_returns (rets : fld gparam) : outcome (fld gparam) :=
  match rets with
  | Has p => do x <- set_name_and_type (L "return_type") p false true; Ok (Has (snd x))
  | y => Ok y
  end.

Lemma parse_fn_eq : forall d n a text rest r T app m params2 rets rets',
  arg_exprs_ok a = true ->
  kw_split a (ir_params d) = Ok (T, app) ->
  params_modelled T = true -> params_modelled (od_of_pairs (sig_pairs a (pos_args a))) = true ->
  merge_params id_perm T (od_of_pairs (sig_pairs a (pos_args a))) = Ok m ->
  set_names_and_types (append_kw app (sort_by_sig (sig_pos_names a) m)) false true = Ok params2 ->
  interpolate_return rest r (doc_returns_in d) = Ok rets ->
  finish_returns rets = Ok rets' ->
  exists it,
    parse_fn (Some d) (SFunc n a (SExpr (EConst (VStr text)) :: rest) [] r)
    = Ok (mkIR (Has n) (Has (get_function_type a)) (ir_doc d) params2 rets' it).
Proof.
  intros d n a text rest r T app m params2 rets rets' Hok Hkw HmT HmO Hm Hsnt Hir Hfin.
  unfold parse_fn, parse_function, pf_prepare. rewrite Hok. cbn [negb docstring_of bind tl].
  unfold kw_split in Hkw.
  set (internal' := match rest with
                    | [] => ir_internal d
                    | _ :: _ => Some (mkInternal rest (Has n) (Has (get_function_type a)))
                    end).
  assert (Hkw' : (match ar_kwarg a with
                  | Some k =>
                    match od_get (a_name k) (ir_params d) with
                    | Some p => if fld_present (g_typ p)
                                then Ok (od_pop (a_name k) (ir_params d),
                                         [(a_name k, mkG (g_doc p) (g_typ p) (Some (DV (VStr NoneStr))))])
                                else Err AssertionError
                    | None => Ok (ir_params d, [])
                    end
                  | None => Ok (ir_params d, [])
                  end) = Ok (T, app)) by exact Hkw.
  rewrite Hkw'. cbn [bind fst snd].
  unfold ir_merge. cbn [pp_target pp_other ir_params ir_returns ir_internal ir_name ir_type ir_doc].
  change (if str_eqb (get_function_type a) (L "static") then ar_args a else tl (ar_args a)) with (pos_args a).
  rewrite HmT, HmO. cbn [andb negb].
  rewrite Hm. cbn [bind].
  assert (Hmr : merge_returns id_perm (ir_returns d) FNone = Ok (doc_returns_in d)).
  { unfold merge_returns, doc_returns_in. destruct (ir_returns d); reflexivity. }
  rewrite Hmr. cbn [bind].
  unfold pf_finish. cbn [pp_append pp_sig pp_body pp_returns ir_params ir_returns ir_name ir_type ir_doc ir_internal].
  fold (sig_pos_names a). fold (append_kw app (sort_by_sig (sig_pos_names a) m)).
  rewrite Hsnt. cbn [bind]. rewrite Hir. cbn [bind].
  unfold finish_returns in Hfin.
  eexists.
  destruct rets as [| |p].
  - inversion Hfin; subst. cbn [bind]. unfold opt_or. reflexivity.
  - inversion Hfin; subst. cbn [bind]. unfold opt_or. reflexivity.
  - destruct (set_name_and_type (L "return_type") p false true) as [x|]; cbn [bind] in *; [|discriminate].
    inversion Hfin; subst. unfold opt_or. reflexivity.
Qed.

(* ------------------------------------------------------------------ *)
(* defaults, per value class                                           *)
(* ------------------------------------------------------------------ *)
(* the default an entry comes back with *)
Definition back (v : pyval) : dval := if in_none_types v then DV (VStr NoneStr) else DV v.

(* value texts of the domain *)
Definition value_ok (v : pyval) : bool :=
  match v with
  | VStr s => ascii_only s
  | VFloat r => negb (contains (L "nan") r) && negb (startswith (L "--") r) && negb (str_eqb r (L "-"))
  | _ => true
  end.

Definition str_ok (v : pyval) : bool :=
  match v with VStr s => in_none_types (VStr s) || str_keeps_quotes s | _ => true end.

Lemma in_none_types_NoneStr : in_none_types (VStr NoneStr) = true.
Proof. vm_compute. reflexivity. Qed.

Lemma in_none_types_VNone : in_none_types VNone = true.
Proof. vm_compute. reflexivity. Qed.

Lemma NoneStr_is_none_like : forall s, str_eqb s NoneStr = true -> in_none_types (VStr s) = true.
Proof. intros s H. apply str_eqb_eq in H. subst s. apply in_none_types_NoneStr. Qed.

Lemma not_none_not_NoneStr : forall s, in_none_types (VStr s) = false -> str_eqb s NoneStr = false.
Proof.
  intros s H. destruct (str_eqb s NoneStr) eqn:E; [|reflexivity]. rewrite (NoneStr_is_none_like s E) in H. discriminate.
Qed.

(* the default node as it comes back from unparse / re-parse, by value class *)
Lemma rdflt_none_like : forall g v, g_default g = Some (DV v) -> in_none_types v = true -> rdflt g = EConst VNone.
Proof. intros g v Hg Hv. unfold rdflt, dflt_of. rewrite Hg, Hv. reflexivity. Qed.

Lemma rdflt_bool : forall g b, g_default g = Some (DV (VBool b)) -> rdflt g = EConst (VBool b).
Proof. intros g b Hg. unfold rdflt, dflt_of. rewrite Hg. reflexivity. Qed.

Lemma rdflt_int : forall g z, g_default g = Some (DV (VInt z)) ->
  rdflt g = if (z <? 0)%Z then EUnary usub (EConst (VInt (- z))) else EConst (VInt z).
Proof. intros g z Hg. unfold rdflt, dflt_of. rewrite Hg. reflexivity. Qed.

Lemma rdflt_float : forall g r, g_default g = Some (DV (VFloat r)) -> contains (L "nan") r = false ->
  rdflt g = match r with
            | c :: r' => if ascii_eqb c (ch 45) then EUnary usub (EConst (VFloat r')) else EConst (VFloat r)
            | [] => EConst (VFloat r)
            end.
Proof.
  intros g r Hg Hn. unfold rdflt, dflt_of. rewrite Hg. cbn [in_none_types EmitAst.set_value reparse_expr].
  rewrite Hn. destruct r as [|c r']; [reflexivity|]. destruct (ascii_eqb c (ch 45)); reflexivity.
Qed.

Lemma rdflt_str : forall g s, g_default g = Some (DV (VStr s)) -> in_none_types (VStr s) = false ->
  str_keeps_quotes s = true -> ascii_only s = true -> rdflt g = EConst (VStr s).
Proof.
  intros g s Hg Hn Hk Ha. unfold rdflt, dflt_of. rewrite Hg, Hn. unfold EmitAst.set_value.
  unfold str_keeps_quotes in Hk. apply andb_true_iff in Hk. destruct Hk as [Hk _]. apply str_eqb_eq in Hk. rewrite Hk.
  cbn [reparse_expr]. rewrite Ha. reflexivity.
Qed.

Lemma dflt_reparses_ok : forall g v, g_default g = Some (DV v) -> value_ok v = true -> str_ok v = true ->
  dflt_reparses g.
Proof.
  intros g v Hg Hv Hs. unfold dflt_reparses, dflt_of. rewrite Hg.
  destruct (in_none_types v) eqn:En; [eexists; reflexivity|].
  destruct v as [|b|z|r|s]; cbn [EmitAst.set_value reparse_expr]; try (eexists; reflexivity).
  - cbn [value_ok] in Hv. apply andb_true_iff in Hv. destruct Hv as [Hv _]. apply andb_true_iff in Hv. destruct Hv as [Hv _].
    apply negb_true_iff in Hv. rewrite Hv. eexists; reflexivity.
  - cbn [str_ok] in Hs. rewrite En in Hs. cbn [orb] in Hs. unfold str_keeps_quotes in Hs.
    apply andb_true_iff in Hs. destruct Hs as [Hs _]. apply str_eqb_eq in Hs. rewrite Hs.
    cbn [value_ok] in Hv. rewrite Hv. eexists; reflexivity.
Qed.

(* the type an entry has after _infer_default, inside the guard *)
Definition rtyp (qt : fld str) (v : pyval) : fld str :=
  match qt with
  | Has t => Has t
  | x => if in_none_types v then x else Missing
  end.

Definition code_val (v : pyval) : bool :=
  match v with VStr s => code_quoted s && negb (str_eqb s NoneStr) | _ => false end.

Lemma unquote_keeps : forall s, str_keeps_quotes s = true -> unquote s = s.
Proof. intros s H. unfold str_keeps_quotes in H. apply andb_true_iff in H. destruct H as [_ H]. apply str_eqb_eq in H. exact H. Qed.

Lemma known_usub : known_unop usub = true.
Proof. vm_compute. reflexivity. Qed.

Lemma usub_is : str_eqb usub (L "USub") = true.
Proof. vm_compute. reflexivity. Qed.

Lemma neg_float_back : forall r', r' <> [] -> startswith [ch 45] r' = false -> neg_float_repr r' = ch 45 :: r'.
Proof.
  intros r' Hne H. unfold neg_float_repr. destruct r' as [|c x]; [congruence|].
  cbn [startswith] in H. rewrite andb_true_r in H. unfold ascii_eqb in *. rewrite Ascii.eqb_sym in H. rewrite H. reflexivity.
Qed.

(* _infer_default on the re-parsed default node of an in-guard entry: value and Python type come back *)
Lemma infer_default_codec : forall q g v nq,
  g_default g = Some (DV v) -> value_ok v = true -> str_ok v = true ->
  needs_quoting (fget (g_typ q)) = Ok nq ->
  (forall t, g_typ q = Has t -> code_val v = true -> contains [ch 91] t = true) ->
  (fld_is_none (g_typ q) = true -> in_none_types v || code_val v = true) ->
  infer_default q (DE (rdflt g)) false = Ok (mkG (g_doc q) (rtyp (g_typ q) v) (Some (back v))).
Proof.
  intros q g v nq Hg Hv Hs Hnq Hcode Hunt.
  destruct (in_none_types v) eqn:En.
  - (* None, "None", NoneStr: emitted as None *)
    rewrite (rdflt_none_like g v Hg En). rewrite infer_default_DE_const. cbn [none_to_NoneStr].
    unfold infer_default. cbn [bind dval_in_none_types]. rewrite in_none_types_NoneStr. cbn [andb bind].
    rewrite Hnq. cbn [bind]. rewrite orb_true_r. rewrite unquote_NoneStr.
    cbv beta iota delta [bind]. cbn [dval_is_NoneStr]. rewrite str_eqb_refl. cbn [negb andb]. rewrite andb_false_r.
    unfold back, rtyp. rewrite En. destruct (g_typ q); reflexivity.
  - unfold back. rewrite En.
    destruct v as [|b|z|r|s].
    + rewrite in_none_types_VNone in En. discriminate.
    + (* bool *)
      rewrite (rdflt_bool g b Hg). rewrite infer_default_DE_const. cbn [none_to_NoneStr].
      unfold infer_default. cbn [bind dval_in_none_types in_none_types andb]. rewrite Hnq. cbn [bind].
      rewrite orb_false_r.
      assert (Ht : exists t, g_typ q = Has t).
      { destruct (g_typ q) as [| |t] eqn:Eq; [| |eexists; reflexivity]; specialize (Hunt eq_refl); cbn in Hunt; discriminate. }
      destruct Ht as [t Ht]. rewrite Ht. cbn [fld_is_none andb]. destruct nq; cbn [bind dval_is_NoneStr negb code_quoted_dval andb rtyp]; reflexivity.
    + (* int *)
      assert (Ht : exists t, g_typ q = Has t).
      { destruct (g_typ q) as [| |t] eqn:Eq; [| |eexists; reflexivity]; specialize (Hunt eq_refl); cbn in Hunt; discriminate. }
      destruct Ht as [t Ht].
      rewrite (rdflt_int g z Hg). destruct (z <? 0)%Z eqn:Ez.
      * unfold infer_default. cbn [bind dval_in_none_types andb]. rewrite Ht. cbn [fld_is_none andb].
        cbn [expr_ok]. rewrite known_usub. cbn [is_opaque negb andb bind lit_eval]. rewrite usub_is.
        cbn [bind dval_of_lval lval_type_name]. cbn [dval_is_NoneStr negb code_quoted_dval andb rtyp].
        rewrite Z.opp_involutive. reflexivity.
      * rewrite infer_default_DE_const. cbn [none_to_NoneStr].
        unfold infer_default. cbn [bind dval_in_none_types in_none_types andb]. rewrite Hnq. cbn [bind].
        rewrite orb_false_r. rewrite Ht. cbn [fld_is_none andb].
        destruct nq; cbn [bind dval_is_NoneStr negb code_quoted_dval andb rtyp]; reflexivity.
    + (* float *)
      assert (Ht : exists t, g_typ q = Has t).
      { destruct (g_typ q) as [| |t] eqn:Eq; [| |eexists; reflexivity]; specialize (Hunt eq_refl); cbn in Hunt; discriminate. }
      destruct Ht as [t Ht].
      cbn [value_ok] in Hv. apply andb_true_iff in Hv. destruct Hv as [Hv Hdash].
      apply andb_true_iff in Hv. destruct Hv as [Hnan Hmm].
      apply negb_true_iff in Hnan. apply negb_true_iff in Hmm. apply negb_true_iff in Hdash.
      rewrite (rdflt_float g r Hg Hnan).
      assert (Hconst : infer_default q (DE (EConst (VFloat r))) false
                       = Ok (mkG (g_doc q) (rtyp (g_typ q) (VFloat r)) (Some (DV (VFloat r))))).
      { rewrite infer_default_DE_const. cbn [none_to_NoneStr].
        unfold infer_default. cbn [bind dval_in_none_types in_none_types andb]. rewrite Hnq. cbn [bind].
        rewrite orb_false_r. rewrite Ht. cbn [fld_is_none andb].
        destruct nq; cbn [bind dval_is_NoneStr negb code_quoted_dval andb rtyp]; reflexivity. }
      destruct r as [|c r']; [exact Hconst|].
      destruct (ascii_eqb c (ch 45)) eqn:Ec; [|exact Hconst].
      apply ascii_eqb_eq in Ec. subst c.
      assert (Hr' : startswith [ch 45] r' = false).
      { destruct r' as [|c2 x]; [reflexivity|]. cbn [startswith] in Hmm |- *.
        change (ascii_eqb (ch 45) (ch 45)) with true in Hmm. cbn [andb] in Hmm. exact Hmm. }
      unfold infer_default. cbn [bind dval_in_none_types andb]. rewrite Ht. cbn [fld_is_none andb].
      cbn [expr_ok]. rewrite known_usub. cbn [is_opaque negb andb bind lit_eval]. rewrite usub_is.
      cbn [bind dval_of_lval lval_type_name]. cbn [dval_is_NoneStr negb code_quoted_dval andb rtyp].
      rewrite (neg_float_back r' ltac:(intros ->; discriminate) Hr'). reflexivity.
    + (* str *)
      cbn [str_ok] in Hs. rewrite En in Hs. cbn [orb] in Hs. cbn [value_ok] in Hv.
      rewrite (rdflt_str g s Hg En Hs Hv). rewrite infer_default_DE_const. cbn [none_to_NoneStr].
      unfold infer_default. cbn [bind dval_in_none_types]. rewrite En. cbn [andb]. cbv beta iota delta [bind].
      rewrite Hnq. rewrite orb_true_r. rewrite (unquote_keeps s Hs). cbv beta iota delta [bind].
      cbn [dval_is_NoneStr]. rewrite (not_none_not_NoneStr s En). cbn [negb andb].
      cbn [code_quoted_dval dval_type_name type_name].
      destruct (g_typ q) as [| |t] eqn:Et; cbn [fld_is_none andb bind rtyp].
      * specialize (Hunt eq_refl). cbn [orb code_val] in Hunt.
        apply andb_true_iff in Hunt. destruct Hunt as [Hc _]. rewrite Hc, En.
        change (contains [ch 91] (L "str")) with false. reflexivity.
      * specialize (Hunt eq_refl). cbn [orb code_val] in Hunt.
        apply andb_true_iff in Hunt. destruct Hunt as [Hc _]. rewrite Hc, En.
        change (contains [ch 91] (L "str")) with false. reflexivity.
      * destruct (code_quoted s) eqn:Ec; [|reflexivity].
        rewrite (Hcode t eq_refl); [reflexivity|]. cbn [code_val]. rewrite Ec, (not_none_not_NoneStr s En). reflexivity.
Qed.

(* ------------------------------------------------------------------ *)
(* second half of _set_name_and_type, forwards                         *)
(* ------------------------------------------------------------------ *)
Definition rdoc (qd : fld str) : fld str :=
  match qd with Has (c :: r) => Has (reflow (c :: r)) | _ => Missing end.

Definition starts_optional (s : str) : bool := startswith (L "(Optional)") s || startswith (L "Optional") s.

Lemma snt_post_codec : forall qd rt dflt,
  (forall t, rt = Has t -> endswith google_opt t = false) ->
  (forall c r, qd = Has (c :: r) -> starts_optional (reflow (c :: r)) = true ->
               rt = Missing \/ exists t, rt = Has t /\ startswith (L "Optional[") t = true) ->
  snt_post (mkG qd rt dflt) true = Ok (mkG (rdoc qd) rt dflt).
Proof.
  intros qd rt dflt Hg Ho. unfold snt_post. cbn [g_typ g_doc g_default].
  destruct rt as [| |t].
  - destruct qd as [| |[|c r]]; try reflexivity.
    change (rstrip (join [sp] (map strip (split [nl] (c :: r))))) with (reflow (c :: r)). cbn [rdoc].
    destruct (startswith (L "(Optional)") (reflow (c :: r)) || startswith (L "Optional") (reflow (c :: r))); reflexivity.
  - destruct qd as [| |[|c r]]; try reflexivity.
    change (rstrip (join [sp] (map strip (split [nl] (c :: r))))) with (reflow (c :: r)). cbn [rdoc].
    destruct (startswith (L "(Optional)") (reflow (c :: r)) || startswith (L "Optional") (reflow (c :: r))) eqn:Eo; [|reflexivity].
    destruct (Ho c r eq_refl Eo) as [E|[t [E _]]]; discriminate.
  - rewrite (Hg t eq_refl).
    destruct qd as [| |[|c r]]; try reflexivity.
    change (rstrip (join [sp] (map strip (split [nl] (c :: r))))) with (reflow (c :: r)). cbn [rdoc].
    destruct (startswith (L "(Optional)") (reflow (c :: r)) || startswith (L "Optional") (reflow (c :: r))) eqn:Eo; [|reflexivity].
    destruct (Ho c r eq_refl Eo) as [E|[t' [E Hs]]]; [discriminate|]. inversion E; subst t'. rewrite Hs. reflexivity.
Qed.

(* one positional / keyword-only entry through _set_name_and_type *)
Lemma snt_param_codec : forall n q g v nq,
  kwargs_like n = false ->
  g_default q = Some (DE (rdflt g)) ->
  g_default g = Some (DV v) -> value_ok v = true -> str_ok v = true ->
  needs_quoting (fget (g_typ q)) = Ok nq ->
  (forall t, g_typ q = Has t -> code_val v = true -> contains [ch 91] t = true) ->
  (fld_is_none (g_typ q) = true -> in_none_types v || code_val v = true) ->
  (forall t, g_typ q = Has t -> endswith google_opt t = false) ->
  (forall c r, g_doc q = Has (c :: r) -> starts_optional (reflow (c :: r)) = true ->
               g_typ q = Missing \/ exists t, g_typ q = Has t /\ startswith (L "Optional[") t = true) ->
  snt_param n q false true = Ok (mkG (rdoc (g_doc q)) (rtyp (g_typ q) v) (Some (back v))).
Proof.
  intros n q g v nq Hk Hq Hg Hv Hs Hnq Hcode Hunt Hgo Hopt.
  unfold snt_param, snt_pre. rewrite Hk, Hq.
  rewrite (infer_default_codec q g v nq Hg Hv Hs Hnq Hcode Hunt). cbn [bind].
  apply snt_post_codec.
  - intros t Ht. unfold rtyp in Ht. destruct (g_typ q) as [| |t0] eqn:Eq.
    + destruct (in_none_types v); discriminate.
    + destruct (in_none_types v); discriminate.
    + inversion Ht; subst. apply Hgo; reflexivity.
  - intros c r Hd Hso. destruct (Hopt c r Hd Hso) as [Hm|[t [Ht Hst]]].
    + left. unfold rtyp. rewrite Hm. destruct (in_none_types v); reflexivity.
    + right. exists t. unfold rtyp. rewrite Ht. split; [reflexivity|exact Hst].
Qed.

(* ------------------------------------------------------------------ *)
(* the re-parsed argument list as parse.function reads it               *)
(* ------------------------------------------------------------------ *)
Definition nk_names (i : ir) : list str := map fst (nkp i).

Lemma afp_names : forall o i, map a_name (afp_of o i) = nk_names i.
Proof. intros o i. unfold afp_of, nk_names. rewrite map_map. reflexivity. Qed.

Definition not_self_cls (n : str) : bool := negb (str_eqb n (L "self") || str_eqb n (L "cls")).

(* kind preservation at the level of the argument list: get_function_type reads the kind back *)
Lemma found_type_kind : forall o i,
  kind_in_domain (fo_kind o) = true -> forallb not_self_cls (nk_names i) = true ->
  get_function_type (reparsed_arguments o i) = fo_kind o.
Proof.
  intros o i Hk Hn. unfold get_function_type, reparsed_arguments, args0.
  destruct (kind_cases _ Hk) as [E|[E|E]]; rewrite E.
  - change (str_eqb (L "static") (L "static")) with true. cbv iota.
    destruct (fo_kwonly o); cbn [ar_args app]; [reflexivity|].
    pose proof (afp_names o i) as Hnames.
    destruct (afp_of o i) as [|x l]; [reflexivity|]. cbn [map] in Hnames.
    destruct (nk_names i) as [|n ns]; [discriminate|]. inversion Hnames as [[Hx Hl]].
    cbn [forallb] in Hn. apply andb_true_iff in Hn. destruct Hn as [Hn _]. unfold not_self_cls in Hn.
    apply negb_true_iff in Hn. rewrite Hx, Hn. reflexivity.
  - change (str_eqb (L "self") (L "static")) with false. cbv iota.
    destruct (fo_kwonly o); reflexivity.
  - change (str_eqb (L "cls") (L "static")) with false. cbv iota.
    destruct (fo_kwonly o); reflexivity.
Qed.

Lemma pos_args_reparsed : forall o i,
  kind_in_domain (fo_kind o) = true -> forallb not_self_cls (nk_names i) = true ->
  pos_args (reparsed_arguments o i) = if fo_kwonly o then [] else afp_of o i.
Proof.
  intros o i Hk Hn. unfold pos_args. rewrite (found_type_kind o i Hk Hn).
  unfold reparsed_arguments, args0.
  destruct (kind_cases _ Hk) as [E|[E|E]]; rewrite E.
  - change (str_eqb (L "static") (L "static")) with true. cbv iota. destruct (fo_kwonly o); reflexivity.
  - change (str_eqb (L "self") (L "static")) with false. cbv iota. destruct (fo_kwonly o); reflexivity.
  - change (str_eqb (L "cls") (L "static")) with false. cbv iota. destruct (fo_kwonly o); reflexivity.
Qed.

Lemma kwonly_reparsed : forall o i, ar_kwonly (reparsed_arguments o i) = if fo_kwonly o then afp_of o i else [].
Proof. intros o i. unfold reparsed_arguments. destruct (fo_kwonly o); reflexivity. Qed.

Lemma sig_pos_names_reparsed : forall o i,
  kind_in_domain (fo_kind o) = true -> forallb not_self_cls (nk_names i) = true ->
  sig_pos_names (reparsed_arguments o i) = nk_names i.
Proof.
  intros o i Hk Hn. unfold sig_pos_names. rewrite (pos_args_reparsed o i Hk Hn), kwonly_reparsed.
  destruct (fo_kwonly o); cbn [map app]; rewrite ?app_nil_r; apply afp_names.
Qed.

(* positional vs keyword-only default alignment: in both layouts every parameter is paired with ITS default node *)
Definition sig_entry_of (o : fopts) (kv : str * gparam) : str * gparam :=
  func_arg2param (mkArg (fst kv) (ann_of o (snd kv))) (Some (rdflt (snd kv))).

Lemma map2_func_maps : forall o (l : list (str * gparam)),
  map2 func_arg2param (map (fun kv => mkArg (fst kv) (ann_of o (snd kv))) l)
       (map Some (map (fun kv => rdflt (snd kv)) l))
  = map (sig_entry_of o) l.
Proof. intros o l. induction l as [|kv l IH]; cbn [map map2]; [reflexivity|]. rewrite IH. reflexivity. Qed.

Lemma sig_pairs_reparsed : forall o i,
  kind_in_domain (fo_kind o) = true -> forallb not_self_cls (nk_names i) = true ->
  sig_pairs (reparsed_arguments o i) (pos_args (reparsed_arguments o i)) = map (sig_entry_of o) (nkp i).
Proof.
  intros o i Hk Hn. unfold sig_pairs. rewrite (pos_args_reparsed o i Hk Hn), kwonly_reparsed.
  unfold reparsed_arguments. destruct (fo_kwonly o); cbn [ar_defaults ar_kw_defaults map map2 app List.length].
  - rewrite pad_defaults_exact by (unfold afp_of, rdfp_of; rewrite !map_length; reflexivity).
    unfold afp_of, rdfp_of. apply map2_func_maps.
  - rewrite app_nil_r. rewrite pad_defaults_exact by (unfold afp_of, rdfp_of; rewrite !map_length; reflexivity).
    unfold afp_of, rdfp_of. apply map2_func_maps.
Qed.

Lemma sig_entries_keys : forall o l, od_keys (map (sig_entry_of o) l) = map fst l.
Proof. intros o l. unfold od_keys. rewrite map_map. reflexivity. Qed.

(* ------------------------------------------------------------------ *)
(* ir_merge, forwards                                                  *)
(* ------------------------------------------------------------------ *)
Definition no_DO (ps : list (str * gparam)) : Prop :=
  forall k o, od_get k ps = Some o -> forall r, g_default o <> Some (DO r).

Lemma merge_param_total : forall t o, (forall r, g_default o <> Some (DO r)) -> exists q, merge_param t o = Ok q.
Proof.
  intros t o H. unfold merge_param.
  match goal with |- context [if default_in_none_types ?d then _ else _] => destruct (default_in_none_types d) end;
    [|eexists; reflexivity].
  destruct (g_default o) as [[v|e|r]|]; try (eexists; reflexivity).
  - destruct v; cbn [not_in_none_frozenset bind]; eexists; reflexivity.
  - exfalso. apply (H r). reflexivity.
Qed.

Lemma inter_loop_ok : forall op l tp, no_DO op ->
  (forall k, In k l -> In k (od_keys tp) /\ In k (od_keys op)) ->
  exists tp', fold_outcome (inter_step op) l tp = Ok tp'.
Proof.
  intros op l; induction l as [|x l IH]; intros tp Hno H; cbn [fold_outcome]; [eexists; reflexivity|].
  destruct (H x (or_introl eq_refl)) as [Ht Ho].
  destruct (od_get_In_keys _ _ Ht) as [t Hgt]. destruct (od_get_In_keys _ _ Ho) as [o Hgo].
  destruct (merge_param_total t o (Hno x o Hgo)) as [q Hq].
  assert (Hs : inter_step op x tp = Ok (od_set x q tp)).
  { unfold inter_step. rewrite Hgt, Hgo, Hq. reflexivity. }
  rewrite Hs. cbn [bind]. apply IH; [exact Hno|].
  intros k Hk. destruct (H k (or_intror Hk)) as [Hkt Hko]. split; [|exact Hko].
  rewrite od_keys_set_present by exact Ht. exact Hkt.
Qed.

Lemma merge_params_ok : forall tp op, no_DO op -> exists m, merge_params id_perm tp op = Ok m.
Proof.
  intros tp op Hno. unfold merge_params.
  destruct tp as [|t0 tr]; [eexists; reflexivity|]. destruct op as [|o0 orr]; [eexists; reflexivity|].
  destruct (inter_loop_ok (o0 :: orr) (id_perm (inter_keys (o0 :: orr) (t0 :: tr))) (t0 :: tr) Hno) as [tp' Htp'].
  - intros k Hk. unfold id_perm in Hk. apply inter_keys_spec in Hk. tauto.
  - unfold inter_loop. rewrite Htp'. cbn [bind]. eexists; reflexivity.
Qed.

(* merging a docstring entry that carries no default with a signature entry *)
Definition sig_typ (x : arg) : fld str :=
  match a_ann x with None => FNone | Some e => Has (rstrip_chars [nl] (show_expr e)) end.

Definition mtyp (tt : fld str) (x : arg) : fld str :=
  if fld_is_none tt && fld_truthy (sig_typ x) then sig_typ x else tt.

Lemma default_in_none_types_None : default_in_none_types None = true.
Proof. vm_compute. reflexivity. Qed.

Lemma merge_doc_sig : forall t x e, g_default t = None ->
  merge_param t (sig_gparam x (Some e)) = Ok (mkG (g_doc t) (mtyp (g_typ t) x) (Some (DE e))).
Proof.
  intros t x e Hd. unfold merge_param, sig_gparam, func_arg2param, mtyp, sig_typ.
  cbn [snd g_doc g_typ g_default option_map].
  destruct t as [td tt tdf]. cbn [g_doc g_typ g_default] in *. subst tdf.
  destruct (a_ann x) as [a|].
  - destruct (rstrip_chars [nl] (show_expr a)) as [|c s];
      destruct td as [| |[|cd sd]]; destruct tt as [| |ty]; cbn [fld_truthy fld_is_none andb negb g_doc g_typ g_default];
      rewrite default_in_none_types_None; reflexivity.
  - destruct td as [| |[|cd sd]]; destruct tt as [| |ty]; cbn [fld_truthy fld_is_none andb negb g_doc g_typ g_default];
      rewrite default_in_none_types_None; reflexivity.
Qed.

(* ------------------------------------------------------------------ *)
(* lists with distinct names                                           *)
(* ------------------------------------------------------------------ *)
Lemma In_fst_unique : forall (P : list (str * gparam)) n g g',
  NoDup (map fst P) -> In (n, g) P -> In (n, g') P -> g = g'.
Proof.
  intros P n g g' Hnd H1 H2.
  assert (E1 : od_get n P = Some g) by (apply In_od_get; assumption).
  assert (E2 : od_get n P = Some g') by (apply In_od_get; assumption).
  congruence.
Qed.

Lemma list_eqb_str_eq : forall a b : list str, list_eqb str_eqb a b = true -> a = b.
Proof. intros a b H. apply (EmitAstFacts.list_eqb_eq_simple str_eqb); [|exact H]. intros x y E. apply str_eqb_eq; exact E. Qed.

Lemma kwargs_split : forall P : list (str * gparam),
  kwargs_last (map fst P) = true ->
  P = filter EmitAst.no_kwargs P ++ filter (fun kv => negb (EmitAst.no_kwargs kv)) P
  /\ (filter (fun kv => negb (EmitAst.no_kwargs kv)) P = []
      \/ exists kv, filter (fun kv => negb (EmitAst.no_kwargs kv)) P = [kv]).
Proof.
  induction P as [|x P IH]; intros H; [split; [reflexivity|left; reflexivity]|].
  destruct P as [|y P'].
  - cbn [filter]. destruct (EmitAst.no_kwargs x); cbn [negb app]; split; try reflexivity; [left|right; exists x]; reflexivity.
  - assert (Hx : EmitAst.no_kwargs x = true /\ kwargs_last (map fst (y :: P')) = true).
    { unfold kwargs_last in *. cbn [map removelast] in H.
      change (removelast (fst x :: fst y :: map fst P')) with (fst x :: removelast (fst y :: map fst P')) in H.
      cbn [forallb] in H. apply andb_true_iff in H. destruct H as [H1 H2]. split; [exact H1|exact H2]. }
    destruct Hx as [Hx Hr]. destruct (IH Hr) as [IH1 IH2].
    cbn [filter]. rewrite Hx. cbn [negb app].
    change (filter EmitAst.no_kwargs (y :: P')) with (filter EmitAst.no_kwargs (y :: P')) in *.
    split; [f_equal; exact IH1|exact IH2].
Qed.

(* ------------------------------------------------------------------ *)
(* reading the guard                                                   *)
(* ------------------------------------------------------------------ *)
Lemma first_class_None : forall f ps, first_class f ps = None -> forall n g, In (n, g) ps -> f n g = None.
Proof.
  intros f ps; induction ps as [|[n0 g0] ps IH]; intros H n g Hin; [destruct Hin|].
  cbn [first_class] in H. destruct (f n0 g0) eqn:E; [discriminate|].
  destruct Hin as [Hin|Hin]; [inversion Hin; subst; exact E|apply IH; assumption].
Qed.

Record guard_facts (o : fopts) (i : ir) : Prop := mkGF {
  gf_kind : kind_in_domain (fo_kind o) = true;
  gf_nodup : NoDup (map fst (ir_params i));
  gf_names : forall n, In n (map fst (ir_params i)) -> name_in_domain n = true;
  gf_kwlast : kwargs_last (map fst (ir_params i)) = true;
  gf_entries : forall n g, In (n, g) (ir_params i) -> entry_in_domain g = true;
  gf_ret_dom : match ir_returns i with Has g => entry_in_domain g = true | Missing => False | FNone => True end;
  gf_internal : ir_internal i = None;
  gf_params : forall n g, In (n, g) (ir_params i) -> C03Spec.param_class o n g = None;
  gf_ret : forall g, ir_returns i = Has g -> C03Spec.return_class o g = None
}.

Lemma guard_inv : forall o i, guard_C03 o i = true -> guard_facts o i.
Proof.
  intros o i H. unfold guard_C03 in H. apply andb_true_iff in H. destruct H as [Hd Hc].
  unfold C03_domain in Hd. repeat (apply andb_true_iff in Hd; destruct Hd as [Hd ?]).
  destruct (finding_class_C03 o i) eqn:Ef; [discriminate|]. unfold finding_class_C03 in Ef.
  match type of Ef with (if ?c then _ else _) = None => destruct c; [discriminate|] end.
  match type of Ef with (if ?c then _ else _) = None => destruct c; [discriminate|] end.
  destruct (first_class (C03Spec.param_class o) (ir_params i)) eqn:Efc; [discriminate|].
  constructor.
  - exact Hd.
  - apply strs_distinct_NoDup. assumption.
  - intros n Hn. match goal with Hx : forallb name_in_domain _ = true |- _ => rewrite forallb_forall in Hx; apply Hx; exact Hn end.
  - assumption.
  - intros n g Hin. match goal with Hx : forallb (fun kv => entry_in_domain (snd kv)) _ = true |- _ =>
      rewrite forallb_forall in Hx; apply (Hx (n, g) Hin) end.
  - destruct (ir_returns i); [discriminate|exact I|assumption].
  - destruct (ir_internal i); [discriminate|reflexivity].
  - intros n g Hin. eapply first_class_None; eassumption.
  - intros g Hg. rewrite Hg in Ef. exact Ef.
Qed.

Lemma entry_value_ok : forall g v, entry_in_domain g = true -> g_default g = Some (DV v) -> value_ok v = true.
Proof.
  intros g v H Hv. unfold entry_in_domain in H. repeat (apply andb_true_iff in H; destruct H as [H ?]).
  rewrite Hv in *. destruct v; try reflexivity; assumption.
Qed.

Lemma entry_fields : forall g, entry_in_domain g = true ->
  g_doc g <> FNone /\ (g_typ g = Missing \/ exists c t, g_typ g = Has (c :: t))
  /\ (g_default g = None \/ exists v, g_default g = Some (DV v)).
Proof.
  intros g H. unfold entry_in_domain in H. repeat (apply andb_true_iff in H; destruct H as [H ?]).
  split; [destruct (g_doc g); congruence|]. split.
  - destruct (g_typ g) as [| |[|c t]]; try discriminate; [left; reflexivity|right; eauto].
  - destruct (g_default g) as [[v|e|r]|]; try discriminate; [right; eauto|left; reflexivity].
Qed.

(* a positional / keyword-only parameter outside every class *)
Record param_facts (o : fopts) (g : gparam) (v : pyval) : Prop := mkPF {
  pf_default : g_default g = Some (DV v);
  pf_value : value_ok v = true;
  pf_str : str_ok v = true;
  pf_prose : prose_class g = None;
  pf_typed : forall t, g_typ g = Has t ->
             typ_parses t = true /\ (fo_inline o = true -> typ_inline_ok t = true)
             /\ (fo_inline o = false -> has_prose g = true)
             /\ (code_val v = true -> contains [ch 91] t = true);
  pf_untyped : g_typ g = Missing -> in_none_types v || code_val v = true
}.

Lemma param_class_inv : forall o n g, kwargs_name n = false -> entry_in_domain g = true ->
  C03Spec.param_class o n g = None -> exists v, param_facts o g v.
Proof.
  intros o n g Hk Hdom H. unfold C03Spec.param_class in H. rewrite Hk in H.
  destruct (prose_class g) eqn:Ep; [discriminate|].
  destruct (g_default g) as [dv|] eqn:Ed; [|discriminate].
  destruct (entry_fields g Hdom) as (_ & _ & [Hn|[v Hv]]); [congruence|].
  rewrite Ed in Hv. inversion Hv; subst dv. exists v.
  match type of H with (if ?c then _ else _) = None => destruct c eqn:Eq; [discriminate|] end.
  assert (Hstr : str_ok v = true).
  { destruct v as [| | | |s]; try reflexivity. cbn [dv_str] in Eq. cbn [str_ok].
    destruct (in_none_types (VStr s)); [reflexivity|]. cbn [negb andb orb] in *. apply negb_false_iff in Eq. exact Eq. }
  constructor; try assumption.
  - exact (entry_value_ok g v Hdom Ed).
  - intros t Ht. rewrite Ht in H.
    destruct (typ_parses t); [|discriminate]. cbn [negb] in H.
    destruct (fo_inline o) eqn:Ei; cbn [andb negb] in H.
    + destruct (typ_inline_ok t); [|discriminate]. cbn [negb] in H.
      destruct (C02Spec.d_code_quoted (DV v) && negb (contains [ch 91] t)) eqn:Ec; [discriminate|].
      split; [reflexivity|]. split; [reflexivity|]. split; [discriminate|].
      intros Hcv. destruct v as [| | | |s]; try discriminate. cbn [C02Spec.d_code_quoted code_val] in *.
      rewrite Hcv in Ec. cbn [andb] in Ec. apply negb_false_iff in Ec. exact Ec.
    + destruct (has_prose g); [|discriminate]. cbn [negb] in H.
      destruct (C02Spec.d_code_quoted (DV v) && negb (contains [ch 91] t)) eqn:Ec; [discriminate|].
      split; [reflexivity|]. split; [discriminate|]. split; [reflexivity|].
      intros Hcv. destruct v as [| | | |s]; try discriminate. cbn [C02Spec.d_code_quoted code_val] in *.
      rewrite Hcv in Ec. cbn [andb] in Ec. apply negb_false_iff in Ec. exact Ec.
  - intros Ht. rewrite Ht in H.
    destruct (C02Spec.d_none_like (DV v) || C02Spec.d_code_quoted (DV v)) eqn:Eu; [|discriminate].
    destruct v as [|b|z|r|s]; exact Eu.
Qed.

(* ------------------------------------------------------------------ *)
(* annotations                                                         *)
(* ------------------------------------------------------------------ *)
Lemma simple_type_rstrip : forall t, in_simple_types t = true -> rstrip_chars [nl] t = t /\ t <> [].
Proof.
  intros t H. unfold in_simple_types in H. apply existsb_exists in H. destruct H as [x [Hin Hx]].
  apply str_eqb_eq in Hx. subst x. unfold Extracted.simple_type_names in Hin.
  repeat (destruct Hin as [<-|Hin]; [split; [vm_compute; reflexivity|discriminate]|]). destruct Hin.
Qed.

Lemma ann_of_typed : forall o g t, fo_inline o = true -> g_typ g = Has t -> typ_inline_ok t = true ->
  exists e, ann_of o g = Some e /\ reparse_expr e = Ok e /\ expr_ok e = true /\ rstrip_chars [nl] (show_expr e) = t.
Proof.
  intros o g t Hi Ht Hok. unfold ann_of. rewrite Hi, Ht. unfold typ_inline_ok in Hok.
  destruct (in_simple_types t) eqn:Es.
  - exists (EName t). split; [reflexivity|]. split; [reflexivity|]. split; [reflexivity|].
    cbn [show_expr show_prec]. apply (simple_type_rstrip t Es).
  - cbn [orb] in Hok. destruct (EmitAst.ast_parse_fix [] t) as [e|]; [|discriminate].
    unfold expr_prints_as in Hok. apply andb_true_iff in Hok. destruct Hok as [Hok Hs].
    apply andb_true_iff in Hok. destruct Hok as [Hr He].
    exists e. split; [reflexivity|].
    destruct (reparse_expr e) as [e'|] eqn:Er; [|discriminate]. apply expr_eqb_true in Hr. subst e'.
    split; [reflexivity|]. split; [exact He|]. apply str_eqb_eq; exact Hs.
Qed.

Lemma ann_of_none : forall o g, fo_inline o = false \/ g_typ g = Missing -> ann_of o g = None.
Proof. intros o g [H|H]; unfold ann_of; rewrite H; [reflexivity|]. destruct (fo_inline o); reflexivity. Qed.

(* ------------------------------------------------------------------ *)
(* the docstring-derived IR, entry by entry                            *)
(* ------------------------------------------------------------------ *)
Lemma doc_lookup : forall et P D n g,
  NoDup (map fst P) -> doc_params_agree et P D = true -> In (n, g) P ->
  if has_prose g then exists dp, od_get n D = Some dp /\ doc_entry_agrees et n g dp = true
  else od_get n D = None.
Proof.
  intros et P D n g Hnd H Hin. unfold doc_params_agree in H. apply andb_true_iff in H. destruct H as [Hk Hf].
  apply list_eqb_str_eq in Hk. destruct (has_prose g) eqn:Ep.
  - rewrite forallb_forall in Hf. specialize (Hf (n, g)). cbn [fst snd] in Hf.
    assert (Hd : In (n, g) (documented P)) by (unfold documented; apply filter_In; auto).
    destruct (od_get n D) as [dp|]; [exists dp; split; [reflexivity|exact (Hf Hd)]|]. specialize (Hf Hd). discriminate.
  - apply od_get_None_iff. rewrite <- Hk. unfold documented, od_keys. intros Hx. apply in_map_iff in Hx.
    destruct Hx as [[n' g'] [Hn Hx]]. cbn [fst] in Hn. subst n'. apply filter_In in Hx. destruct Hx as [Hx Hp]. cbn [snd] in Hp.
    rewrite (In_fst_unique P n g g' Hnd Hin Hx) in Ep. congruence.
Qed.

Lemma doc_keys_sub : forall et P D k, doc_params_agree et P D = true -> In k (od_keys D) ->
  exists g, In (k, g) P /\ has_prose g = true.
Proof.
  intros et P D k H Hk. unfold doc_params_agree in H. apply andb_true_iff in H. destruct H as [He _].
  apply list_eqb_str_eq in He. rewrite <- He in Hk. unfold documented, od_keys in Hk. apply in_map_iff in Hk.
  destruct Hk as [[n g] [Hn Hx]]. cbn [fst] in Hn. subst n. apply filter_In in Hx. exists g. exact Hx.
Qed.

Lemma doc_keys_NoDup : forall et P D, NoDup (map fst P) -> doc_params_agree et P D = true -> NoDup (od_keys D).
Proof.
  intros et P D Hnd H. unfold doc_params_agree in H. apply andb_true_iff in H. destruct H as [He _].
  apply list_eqb_str_eq in He. rewrite <- He. unfold documented.
  change (od_keys (filter (fun kv : str * gparam => has_prose (snd kv)) P)) with (map fst (filter (fun kv : str * gparam => has_prose (snd kv)) P)).
  clear - Hnd. induction P as [|[n g] P IH]; cbn [filter map]; [constructor|].
  cbn [map fst] in Hnd. inversion Hnd as [|? ? Hn Hr]; subst. cbn [snd]. destruct (has_prose g); cbn [map fst].
  - constructor; [|apply IH; exact Hr]. intros Hx. apply Hn. apply in_map_iff in Hx. destruct Hx as [kv [Hk Hx]].
    apply filter_In in Hx. apply in_map_iff. exists kv. tauto.
  - apply IH; exact Hr.
Qed.

(* ------------------------------------------------------------------ *)
(* names of the domain                                                 *)
(* ------------------------------------------------------------------ *)
Lemma id_start_not_star : forall c, is_id_start c = true -> ascii_eqb c (ch 42) = false.
Proof.
  intros c H. destruct (ascii_eqb c (ch 42)) eqn:E; [|reflexivity].
  apply ascii_eqb_eq in E. subst c. vm_compute in H. discriminate.
Qed.

Lemma name_facts : forall n, name_in_domain n = true ->
  name_ok n = true /\ not_self_cls n = true /\ startswith (L "**") n = false /\ n <> L "return_type".
Proof.
  intros n H. unfold name_in_domain in H. apply andb_true_iff in H. destruct H as [Hi Hr].
  unfold C06Spec.is_identifier in Hi. destruct n as [|c r]; [discriminate|].
  repeat (apply andb_true_iff in Hi; destruct Hi as [Hi ?]).
  pose proof (id_start_not_star c Hi) as Hc.
  unfold reserved_name in Hr. apply negb_true_iff in Hr. apply orb_false_iff in Hr. destruct Hr as [Hr Hrt].
  split; [cbn [name_ok]; rewrite Hc; reflexivity|]. split; [unfold not_self_cls; rewrite Hr; reflexivity|].
  split.
  - destruct (startswith (L "**") (c :: r)) eqn:E; [|reflexivity]. apply startswith_iff in E. destruct E as [x E].
    cbn in E. inversion E; subst c. vm_compute in Hc. discriminate.
  - intros E. rewrite E in Hrt. vm_compute in Hrt. discriminate.
Qed.

Lemma kwargs_like_name : forall n, name_in_domain n = true -> kwargs_like n = kwargs_name n.
Proof.
  intros n H. destruct (name_facts n H) as (_ & _ & Hs & _). unfold kwargs_like, kwargs_name. rewrite Hs. apply orb_false_r.
Qed.

Lemma reflow_nil : reflow [] = [].
Proof. vm_compute. reflexivity. Qed.

Lemma pyval_eqb_rfl : forall v, pyval_eqb v v = true.
Proof. exact C07Facts.pyval_eqb_refl. Qed.

Lemma same_default_back : forall v, C02Spec.same_default (DV v) (back v) = true.
Proof.
  intros v. unfold C02Spec.same_default, back. destruct (in_none_types v) eqn:E.
  - cbn [C02Spec.d_none_like]. rewrite E, in_none_types_NoneStr. reflexivity.
  - cbn [C02Spec.d_none_like dval_eqb]. rewrite E, pyval_eqb_rfl. reflexivity.
Qed.

Lemma typ_parses_nq : forall t, typ_parses t = true ->
  exists nq, needs_quoting (Some t) = Ok nq /\ endswith google_opt t = false.
Proof.
  intros t H. unfold typ_parses in H. apply andb_true_iff in H. destruct H as [H1 H2]. apply negb_true_iff in H2.
  destruct (needs_quoting (Some t)) as [nq|]; [exists nq; split; [reflexivity|exact H2]|discriminate].
Qed.

(* ------------------------------------------------------------------ *)
(* one positional / keyword-only parameter, from the IR through the signature and the docstring back to the IR *)
(* ------------------------------------------------------------------ *)
Lemma param_entry_codec : forall o n g v dpo,
  param_facts o g v -> entry_in_domain g = true -> name_in_domain n = true -> kwargs_name n = false ->
  (if has_prose g then exists dp, dpo = Some dp /\ doc_entry_agrees (negb (fo_inline o)) n g dp = true
   else dpo = None) ->
  exists q rp,
    (match dpo with
     | Some t => merge_param t (sig_gparam (mkArg n (ann_of o g)) (Some (rdflt g))) = Ok q
     | None => q = sig_gparam (mkArg n (ann_of o g)) (Some (rdflt g))
     end)
    /\ snt_param n q false true = Ok rp /\ same_param_fn g rp = true.
Proof.
  intros o n g v dpo F Hdom Hname Hkw Hdoc.
  destruct F as [Hdef Hval Hstr Hprose Htyped Huntyped].
  destruct (entry_fields g Hdom) as (Hdocf & Htypf & _).
  assert (Hkl : kwargs_like n = false) by (rewrite (kwargs_like_name n Hname); exact Hkw).
  (* the annotation and what it prints as *)
  assert (Hsig : (fo_inline o = true /\ exists t e, g_typ g = Has t /\ ann_of o g = Some e /\ expr_ok e = true
                                          /\ rstrip_chars [nl] (show_expr e) = t)
                 \/ ((fo_inline o = false \/ g_typ g = Missing) /\ ann_of o g = None)).
  { destruct (fo_inline o) eqn:Ei.
    - destruct Htypf as [Hm|[c [t Ht]]].
      + right. split; [right; exact Hm|]. apply ann_of_none. right; exact Hm.
      + left. split; [reflexivity|]. destruct (Htyped _ Ht) as (_ & Hin & _).
        destruct (ann_of_typed o g (c :: t) Ei Ht (Hin eq_refl)) as (e & He & _ & Hok & Hshow).
        exists (c :: t), e. auto.
    - right. split; [left; reflexivity|]. apply ann_of_none. left; exact Ei. }
  (* the merged entry: prose of the docstring entry, the declared type, the re-parsed default node *)
  assert (Hq : exists q, (match dpo with
                          | Some t => merge_param t (sig_gparam (mkArg n (ann_of o g)) (Some (rdflt g))) = Ok q
                          | None => q = sig_gparam (mkArg n (ann_of o g)) (Some (rdflt g))
                          end)
                         /\ g_default q = Some (DE (rdflt g))
                         /\ (g_typ q = g_typ g \/ (g_typ q = FNone /\ g_typ g = Missing /\ g_doc q = FNone))
                         /\ (match prose_of g with
                             | Some x => exists c r, g_doc q = Has (c :: r) /\ reflow (c :: r) = x
                             | None => g_doc q = FNone
                             end)).
  { unfold has_prose in Hdoc. destruct (prose_of g) as [x|] eqn:Epr.
    - destruct Hdoc as [dp [-> Hag]]. unfold doc_entry_agrees in Hag. rewrite Epr, Hkw in Hag.
      apply andb_true_iff in Hag. destruct Hag as [Hy Hrest]. apply andb_true_iff in Hrest. destruct Hrest as [Hty Hdf].
      destruct (g_doc dp) as [| |y] eqn:Edoc; try discriminate. apply str_eqb_eq in Hy.
      destruct (g_default dp) eqn:Edd; [discriminate|].
      eexists. split; [apply merge_doc_sig; exact Edd|]. cbn [g_default g_typ g_doc]. split; [reflexivity|]. split.
      + left. unfold mtyp, sig_typ. cbn [a_ann].
        destruct Hsig as [[Hi [t [e [Ht [He [_ Hshow]]]]]]|[Hor Hnone]].
        * rewrite Hi in Hty. cbn [negb] in Hty. destruct (g_typ dp); try discriminate.
          rewrite He, Hshow. cbn [fld_is_none andb]. rewrite Ht.
          destruct Htypf as [Hm|[c [t' Ht']]]; [congruence|]. rewrite Ht in Ht'. inversion Ht'; subst t. reflexivity.
        * rewrite Hnone. cbn [fld_truthy]. rewrite andb_false_r.
          destruct Hor as [Hi|Hm].
          -- rewrite Hi in Hty. cbn [negb] in Hty. destruct (g_typ dp) as [| |a], (g_typ g) as [| |b]; try discriminate; try reflexivity.
             cbn [fld_eqb] in Hty. apply str_eqb_eq in Hty. subst; reflexivity.
          -- rewrite Hm in *. destruct (negb (fo_inline o)); destruct (g_typ dp); try discriminate; reflexivity.
      + destruct y as [|c r]; [rewrite reflow_nil in Hy; unfold prose_of, C02Spec.prose_of in Epr;
                               destruct (g_doc g) as [| |[|? ?]]; try discriminate; inversion Epr; subst; discriminate|].
        exists c, r. split; [exact Edoc|symmetry; exact Hy].
    - subst dpo. eexists. split; [reflexivity|]. unfold sig_gparam, func_arg2param. cbn [snd g_default g_typ g_doc a_ann].
      split; [reflexivity|]. split; [|reflexivity].
      destruct Hsig as [[Hi [t [e [Ht [He [_ Hshow]]]]]]|[Hor Hnone]].
      + left. rewrite He, Hshow, Ht. reflexivity.
      + rewrite Hnone. destruct Hor as [Hi|Hm]; [|right; split; [reflexivity|split; [exact Hm|reflexivity]]].
        destruct Htypf as [Hm|[c [t Ht]]]; [right; split; [reflexivity|split; [exact Hm|reflexivity]]|].
        destruct (Htyped _ Ht) as (_ & _ & Hpr & _). specialize (Hpr Hi). unfold has_prose in Hpr. rewrite Epr in Hpr. discriminate. }
  destruct Hq as (q & Hmerge & Hqd & Hqt & Hqdoc).
  (* needs_quoting of the effective type *)
  assert (Hnq : exists nq, needs_quoting (fget (g_typ q)) = Ok nq).
  { destruct Hqt as [Hqt|[Hqt [Hm _]]]; rewrite Hqt.
    - destruct Htypf as [Hm|[c [t Ht]]]; [rewrite Hm; eexists; reflexivity|].
      rewrite Ht. destruct (Htyped _ Ht) as (Hp & _). destruct (typ_parses_nq _ Hp) as [nq [Hnq _]].
      exists nq. exact Hnq.
    - eexists; reflexivity. }
  destruct Hnq as [nq Hnq].
  exists q. eexists. split; [exact Hmerge|]. split.
  - apply (snt_param_codec n q g v nq Hkl Hqd Hdef Hval Hstr Hnq).
    + intros t Ht Hc. destruct Hqt as [Hqt|[Hqt _]]; [|congruence]. rewrite Hqt in Ht.
      destruct (Htyped _ Ht) as (_ & _ & _ & Hb). apply Hb; exact Hc.
    + intros Hn. apply Huntyped. destruct Hqt as [Hqt|[_ [Hm _]]]; [|exact Hm]. rewrite Hqt in Hn.
      destruct Htypf as [Hm|[c [t Ht]]]; [exact Hm|]. rewrite Ht in Hn. discriminate.
    + intros t Ht. destruct Hqt as [Hqt|[Hqt _]]; [|congruence]. rewrite Hqt in Ht.
      destruct (Htyped _ Ht) as (Hp & _). destruct (typ_parses_nq _ Hp) as [nq' [_ Hg]]. exact Hg.
    + intros c r Hd Hso. destruct (prose_of g) as [x|] eqn:Epr; [|rewrite Hqdoc in Hd; discriminate].
      destruct Hqdoc as (c' & r' & Hd' & Hrf). rewrite Hd in Hd'. inversion Hd'; subst c' r'. rewrite Hrf in Hso.
      unfold prose_class in Hprose. rewrite Epr in Hprose.
      destruct (negb (prose_safe x)); [discriminate|].
      change (C02Spec.prose_starts_optional x) with (starts_optional x) in Hprose. rewrite Hso in Hprose. cbn [andb] in Hprose.
      destruct Hqt as [Hqt|[_ [_ Hfn]]]; [|congruence].
      rewrite Hqt. destruct (g_typ g) as [| |t]; [left; reflexivity|destruct Htypf as [Hm|[? [? Ht]]]; discriminate|].
      right. exists t. split; [reflexivity|]. destruct (startswith (L "Optional[") t); [reflexivity|discriminate].
  - unfold same_param_fn. cbn [g_typ g_doc g_default].
    apply andb_true_iff. split; [apply andb_true_iff; split|].
    + (* type *)
      unfold C02Spec.same_typ. cbn [g_typ].
      destruct Hqt as [Hqt|[Hqt [Hm _]]]; rewrite Hqt.
      * destruct Htypf as [Hm|[c [t Ht]]].
        -- rewrite Hm. cbn [rtyp fget]. destruct (in_none_types v); reflexivity.
        -- rewrite Ht. cbn [rtyp fget C02Spec.opt_str_eqb]. apply str_eqb_refl.
      * rewrite Hm. cbn [rtyp fget]. destruct (in_none_types v); reflexivity.
    + (* prose *)
      unfold C02Spec.same_prose. fold (prose_of g). cbn [g_doc].
      destruct (prose_of g) as [x|] eqn:Epr.
      * destruct Hqdoc as (c & r & Hd & Hrf). rewrite Hd. cbn [rdoc]. rewrite Hrf.
        unfold prose_of, C02Spec.prose_of in Epr. destruct (g_doc g) as [| |[|c0 r0]]; try discriminate. inversion Epr; subst x.
        cbn [C02Spec.prose_of g_doc C02Spec.opt_str_eqb]. apply str_eqb_refl.
      * rewrite Hqdoc. reflexivity.
    + (* default *)
      unfold C02Spec.default_same. cbn [g_default]. rewrite Hdef. apply same_default_back.
Qed.

(* ------------------------------------------------------------------ *)
(* the ** parameter                                                    *)
(* ------------------------------------------------------------------ *)
Definition opt_dict : str := L "Optional[dict]".

Lemma fld_eqb_eq : forall a b, fld_eqb a b = true -> a = b.
Proof. intros [| |a] [| |b] H; try discriminate; try reflexivity. cbn in H. apply str_eqb_eq in H. subst; reflexivity. Qed.

Lemma kwargs_entry_codec : forall et kn kg dp,
  kwargs_name kn = true -> kwargs_class kg = None -> doc_entry_agrees et kn kg dp = true ->
  fld_present (g_typ dp) = true
  /\ exists rp, snt_param kn (mkG (g_doc dp) (g_typ dp) (Some (DV (VStr NoneStr)))) false true = Ok rp
                /\ same_param_fn kg rp = true.
Proof.
  intros et kn kg dp Hkn Hcls Hag. unfold kwargs_class in Hcls.
  destruct (has_prose kg) eqn:Ehp; [|discriminate]. cbn [negb] in Hcls.
  destruct (prose_class kg) eqn:Epc; [discriminate|].
  destruct (fld_eqb (g_typ kg) (Has (L "Optional[dict]"))) eqn:Et; [|discriminate]. cbn [andb] in Hcls.
  destruct (g_default kg) as [dv|] eqn:Ed; [|discriminate].
  destruct (C02Spec.d_none_like dv) eqn:Edn; [|discriminate].
  apply fld_eqb_eq in Et.
  unfold doc_entry_agrees in Hag. rewrite Hkn in Hag. unfold has_prose in Ehp.
  destruct (prose_of kg) as [x|] eqn:Epr; [|discriminate].
  apply andb_true_iff in Hag. destruct Hag as [Hy Hrest]. apply andb_true_iff in Hrest. destruct Hrest as [Hty Hdf].
  apply fld_eqb_eq in Hty. rewrite Et in Hty.
  destruct (g_doc dp) as [| |y] eqn:Edoc; try discriminate. apply str_eqb_eq in Hy.
  split; [rewrite Hty; reflexivity|].
  assert (Hkl : kwargs_like kn = true) by (unfold kwargs_like; unfold kwargs_name in Hkn; rewrite Hkn; reflexivity).
  unfold snt_param, snt_pre. rewrite Hkl. cbn [g_typ g_default g_doc]. rewrite Hty.
  change (str_eqb (L "Optional[dict]") (L "dict")) with false. cbv iota. cbn [bind].
  eexists. split.
  - apply snt_post_codec.
    + intros t Ht. inversion Ht; subst t. vm_compute. reflexivity.
    + intros c r _ _. right. exists (L "Optional[dict]"). split; [reflexivity|vm_compute; reflexivity].
  - unfold same_param_fn. cbn [g_typ g_doc g_default].
    apply andb_true_iff. split; [apply andb_true_iff; split|].
    + unfold C02Spec.same_typ. cbn [g_typ]. rewrite Et. cbn [fget C02Spec.opt_str_eqb]. apply str_eqb_refl.
    + unfold C02Spec.same_prose. fold (prose_of kg). rewrite Epr. cbn [g_doc].
      destruct y as [|c r].
      * rewrite reflow_nil in Hy. unfold prose_of, C02Spec.prose_of in Epr.
        destruct (g_doc kg) as [| |[|? ?]]; try discriminate. inversion Epr; subst; discriminate.
      * cbn [rdoc]. rewrite <- Hy.
        unfold prose_of, C02Spec.prose_of in Epr. destruct (g_doc kg) as [| |[|c0 r0]]; try discriminate. inversion Epr; subst x.
        cbn [C02Spec.prose_of g_doc C02Spec.opt_str_eqb]. apply str_eqb_refl.
    + unfold C02Spec.default_same. cbn [g_default]. rewrite Ed. unfold C02Spec.same_default. rewrite Edn.
      cbn [C02Spec.d_none_like]. rewrite in_none_types_NoneStr. reflexivity.
Qed.

(* ------------------------------------------------------------------ *)
(* lists of parameters: small facts                                    *)
(* ------------------------------------------------------------------ *)
Lemma NoDup_fst_filter : forall (f : str * gparam -> bool) P, NoDup (map fst P) -> NoDup (map fst (filter f P)).
Proof.
  intros f P; induction P as [|[n g] P IH]; intros Hnd; cbn [filter map]; [constructor|].
  cbn [map fst] in Hnd. inversion Hnd as [|? ? Hn Hr]; subst. destruct (f (n, g)); cbn [map fst].
  - constructor; [|apply IH; exact Hr]. intros Hx. apply Hn. apply in_map_iff in Hx. destruct Hx as [kv [Hk Hx]].
    apply filter_In in Hx. apply in_map_iff. exists kv. tauto.
  - apply IH; exact Hr.
Qed.

Lemma forallb_od_pop : forall (f : str * gparam -> bool) k l, forallb f l = true -> forallb f (od_pop k l) = true.
Proof.
  intros f k l; induction l as [|[k0 v0] l IH]; intros H; cbn [od_pop]; [reflexivity|].
  cbn [forallb] in H. apply andb_true_iff in H. destruct H as [H1 H2].
  destruct (str_eqb k k0); [exact H2|]. cbn [forallb]. rewrite H1, (IH H2). reflexivity.
Qed.

Lemma kwarg_reparsed : forall o i, ar_kwarg (reparsed_arguments o i) = kwarg_of i.
Proof. intros o i. unfold reparsed_arguments. destruct (fo_kwonly o); reflexivity. Qed.

Lemma nkp_In : forall i n g, In (n, g) (nkp i) <-> In (n, g) (ir_params i) /\ kwargs_name n = false.
Proof.
  intros i n g. unfold nkp. rewrite filter_In. unfold EmitAst.no_kwargs, kwargs_name. cbn [fst].
  split; intros [H1 H2]; (split; [exact H1|]); [apply negb_true_iff in H2|apply negb_true_iff]; exact H2.
Qed.

Lemma kwp_In : forall i n g, In (n, g) (kwp i) <-> In (n, g) (ir_params i) /\ kwargs_name n = true.
Proof.
  intros i n g. unfold kwp. rewrite filter_In. unfold EmitAst.no_kwargs, kwargs_name. cbn [fst].
  rewrite negb_involutive. tauto.
Qed.

Lemma sig_entries_no_DO : forall o l, no_DO (map (sig_entry_of o) l).
Proof.
  intros o l k p H r Hr. apply od_get_Some_In in H. apply in_map_iff in H. destruct H as [kv [He _]].
  unfold sig_entry_of, func_arg2param in He. inversion He; subst p. cbn [g_default option_map] in Hr. discriminate.
Qed.

Lemma sig_entries_modelled : forall o l, params_modelled (map (sig_entry_of o) l) = true.
Proof.
  intros o l. unfold params_modelled. induction l as [|kv l IH]; cbn [map forallb]; [reflexivity|]. rewrite IH. reflexivity.
Qed.

Lemma sig_entries_get : forall o l n g, NoDup (map fst l) -> In (n, g) l ->
  od_get n (map (sig_entry_of o) l) = Some (sig_gparam (mkArg n (ann_of o g)) (Some (rdflt g))).
Proof.
  intros o l n g Hnd Hin. apply In_od_get; [rewrite sig_entries_keys; exact Hnd|].
  apply in_map_iff. exists (n, g). split; [reflexivity|exact Hin].
Qed.

(* keys after the merge and the sort into signature order *)
Lemma sorted_keys : forall S T O m, NoDup S -> od_keys O = S -> (forall k, In k (od_keys T) -> In k S) ->
  merge_params id_perm T O = Ok m -> od_keys (sort_by_sig S m) = S.
Proof.
  intros S T O m HS HO HT Hm. apply merge_params_keys in Hm; [|rewrite HO; exact HS]. rewrite HO in Hm.
  rewrite sort_by_sig_keys by exact HS. rewrite Hm.
  rewrite (filter_all_true (fun k => mem_str k (od_keys T ++ filter (fun k0 => negb (mem_str k0 (od_keys T))) S)) S).
  - rewrite filter_app.
    rewrite (filter_all_false _ (od_keys T)) by (intros k Hk; apply negb_false_iff; apply mem_str_In; apply HT; exact Hk).
    rewrite (filter_all_false _ (filter _ S)); [apply app_nil_r|].
    intros k Hk. apply filter_In in Hk. destruct Hk as [Hk _]. apply negb_false_iff. apply mem_str_In; exact Hk.
  - intros k Hk. apply mem_str_In. destruct (mem_str k (od_keys T)) eqn:E.
    + apply in_or_app; left. apply mem_str_In; exact E.
    + apply in_or_app; right. apply filter_In. split; [exact Hk|rewrite E; reflexivity].
Qed.
