(* NGScanLink: the scan link of C01 for the numpydoc and google styles, proved.
   For every IR inside guard_C01_ng, the indent-driven scanner of DocParseNG (scan_ng), run on the text that the
   specification printer text_of_o writes, returns exactly the blocks scanned_of; the text is over the alphabet.
   Unbounded in the number of parameters and in the length of every text field.  Proofs only. *)
From Coq Require Import List Ascii Bool Arith ZArith Lia.
From Coq Require String.
Import String.StringSyntax.
From DT Require Import PyStr Sexp PyVal TyExpr PureUtils Defaults PyAst IR Extracted Run C17Spec
     DocParseNG C01SpecNG PyStrFacts SplitFacts DocParseNGFacts.
Import ListNotations.

(* ------------------------------------------------------------------ *)
(* 1. searching a text for a token                                      *)
(* ------------------------------------------------------------------ *)

Lemma find_cons_skip : forall p c s,
    startswith p (c :: s) = false -> find p (c :: s) = option_map S (find p s).
Proof. intros p c s H. rewrite find_cons, H. reflexivity. Qed.

Lemma startswith_head_neq : forall p c s,
    startswith [c] p = false -> p <> [] -> startswith p (c :: s) = false.
Proof.
  intros [|y p] c s H Hne; [contradiction|]. cbn [startswith] in *. rewrite andb_true_r in H.
  rewrite ascii_eqb_sym, H. reflexivity.
Qed.

(* a doubled separator character: a pattern that neither starts nor ends with it and does not contain the pair
   cannot lie across it *)
Lemma find_sep2 : forall p d c x,
    find p d = None -> p <> [] -> startswith [c] p = false -> endswith [c] p = false ->
    contains [c; c] p = false ->
    find p (d ++ c :: c :: x) = option_map (fun i => List.length d + 2 + i) (find p x).
Proof.
  intros p d c x. induction d as [|a d IH]; intros Hnone Hne Hs He Hcc.
  - cbn [app List.length].
    rewrite find_cons_skip by (apply startswith_head_neq; assumption).
    rewrite find_cons_skip by (apply startswith_head_neq; assumption).
    destruct (find p x); reflexivity.
  - rewrite find_cons in Hnone. destruct (startswith p (a :: d)) eqn:Hsw; [discriminate|].
    destruct (find p d) as [k|] eqn:Hk; [discriminate|].
    change ((a :: d) ++ c :: c :: x) with (a :: (d ++ c :: c :: x)). rewrite find_cons.
    change (a :: (d ++ c :: c :: x)) with ((a :: d) ++ c :: c :: x).
    destruct (startswith p ((a :: d) ++ c :: c :: x)) eqn:E.
    + exfalso. apply startswith_app_cases in E. destruct E as [E|[q [Hq1 [Hq2 Hq3]]]]; [congruence|].
      destruct q as [|z q]; [contradiction|].
      cbn [startswith] in Hq3. apply andb_true_iff in Hq3. destruct Hq3 as [Hz Hq3].
      apply ascii_eqb_eq in Hz. subst z.
      destruct q as [|z q].
      * assert (Hend : endswith [c] p = true) by (apply endswith_iff; exists (a :: d); exact Hq1).
        congruence.
      * cbn [startswith] in Hq3. apply andb_true_iff in Hq3. destruct Hq3 as [Hz _].
        apply ascii_eqb_eq in Hz. subst z.
        assert (Hin : contains [c; c] p = true).
        { rewrite Hq1. change (c :: c :: q) with ([c; c] ++ q). apply contains_app_mid. }
        congruence.
    + rewrite (IH eq_refl Hne Hs He Hcc).
      destruct (find p x) as [i|]; cbn [option_map List.length]; [f_equal; lia|reflexivity].
Qed.

(* characters that are not the first character of the pattern can be skipped *)
Lemma find_skip_nohead : forall p d x,
    p <> [] -> (forall c, head_c p = Some c -> mem_c c d = false) ->
    find p (d ++ x) = option_map (fun i => List.length d + i) (find p x).
Proof.
  intros p d x Hne. induction d as [|a d IH]; intros Hh.
  - cbn [app List.length]. destruct (find p x); reflexivity.
  - destruct p as [|y p]; [contradiction|].
    pose proof (Hh y eq_refl) as Hy. rewrite mem_c_cons in Hy. apply orb_false_iff in Hy.
    destruct Hy as [Hya Hyd].
    change ((a :: d) ++ x) with (a :: (d ++ x)). rewrite find_cons_skip.
    + rewrite IH.
      * destruct (find (y :: p) x) as [i|]; cbn [option_map List.length]; reflexivity.
      * intros c Hc. injection Hc as Hc. subst c. exact Hyd.
    + cbn [startswith]. rewrite Hya. reflexivity.
Qed.

Lemma split_at_unique : forall c (P D a b : str),
    mem_c c P = false -> mem_c c D = false -> P ++ c :: D = a ++ c :: b -> a = P /\ b = D.
Proof.
  intros c P. induction P as [|x P IH]; intros D a b HP HD E.
  - destruct a as [|y a].
    + cbn [app] in E. injection E as E. split; [reflexivity|symmetry; exact E].
    + cbn [app] in E. injection E as Ey E. subst y. exfalso.
      rewrite E in HD. rewrite mem_c_app, mem_c_cons, ascii_eqb_refl in HD.
      rewrite orb_true_l, orb_true_r in HD. discriminate.
  - rewrite mem_c_cons in HP. apply orb_false_iff in HP. destruct HP as [Hcx HP].
    destruct a as [|y a].
    + cbn [app] in E. injection E as Ex _. subst x. rewrite ascii_eqb_refl in Hcx. discriminate.
    + cbn [app] in E. injection E as Ex E. subst y.
      destruct (IH D a b HP HD E) as [Ea Eb]. subst. split; reflexivity.
Qed.

(* a two-line pattern P <newline> D against a line t followed by text that does not begin with D *)
Lemma startswith_two_line : forall P D t z,
    mem_c nl P = false -> mem_c nl D = false -> mem_c nl t = false -> startswith D z = false ->
    startswith (P ++ nl :: D) (t ++ nl :: z) = false.
Proof.
  intros P D t z HP HD Ht Hz.
  destruct (startswith (P ++ nl :: D) (t ++ nl :: z)) eqn:E; [|reflexivity].
  exfalso. apply startswith_app_cases in E. destruct E as [E|[q [Hq1 [Hq2 Hq3]]]].
  - apply startswith_iff in E. destruct E as [r Hr]. rewrite Hr in Ht.
    rewrite !mem_c_app, mem_c_cons, ascii_eqb_refl in Ht.
    rewrite orb_true_l, orb_true_r, orb_true_l in Ht. discriminate.
  - destruct q as [|y q]; [contradiction|].
    cbn [startswith] in Hq3. apply andb_true_iff in Hq3. destruct Hq3 as [Hy Hq3].
    apply ascii_eqb_eq in Hy. subst y.
    destruct (split_at_unique nl P D t q HP HD Hq1) as [_ Eq]. subst q. congruence.
Qed.

Lemma mem_c_skip_false : forall c (t : str) a, mem_c c (a :: t) = false -> mem_c c t = false.
Proof. intros c t a H. rewrite mem_c_cons in H. apply orb_false_iff in H. apply H. Qed.

Lemma find_line_sep : forall P D t z,
    mem_c nl P = false -> mem_c nl D = false -> mem_c nl t = false -> startswith D z = false ->
    find (P ++ nl :: D) (t ++ nl :: z)
    = option_map (fun i => List.length t + 1 + i) (find (P ++ nl :: D) z).
Proof.
  intros P D t z HP HD Ht Hz. induction t as [|a t IH].
  - cbn [app List.length]. rewrite find_cons_skip.
    + destruct (find (P ++ nl :: D) z); reflexivity.
    + apply (startswith_two_line P D [] z HP HD eq_refl Hz).
  - change ((a :: t) ++ nl :: z) with (a :: (t ++ nl :: z)). rewrite find_cons_skip.
    + rewrite (IH (mem_c_skip_false _ _ _ Ht)).
      destruct (find (P ++ nl :: D) z) as [i|]; cbn [option_map List.length]; [f_equal; lia|reflexivity].
    + apply (startswith_two_line P D (a :: t) z HP HD Ht Hz).
Qed.

(* location_within with the identity normaliser over a one-element tuple *)
Lemma location_within_found : forall c e i,
    find e c = Some i -> location_within (fun x => x) c [e] = Some (i, i + List.length e, e).
Proof.
  intros c e i H. cbn [location_within]. pose proof (find_Some_bound _ _ _ H) as Hb.
  destruct (Nat.ltb_spec (List.length c) (List.length e)) as [Hlt|_]; [lia|]. rewrite H. reflexivity.
Qed.

Lemma location_within_none : forall c e,
    find e c = None -> location_within (fun x => x) c [e] = None.
Proof.
  intros c e H. cbn [location_within]. rewrite H.
  destruct (Nat.ltb (List.length c) (List.length e)); reflexivity.
Qed.

(* ------------------------------------------------------------------ *)
(* 2. strip                                                             *)
(* ------------------------------------------------------------------ *)

Lemma dropwhile_all_app : forall (p : ascii -> bool) (a s : str),
    forallb p a = true -> dropwhile p (a ++ s) = dropwhile p s.
Proof.
  intros p a s. induction a as [|x a IH]; intros H; [reflexivity|].
  cbn [forallb] in H. apply andb_true_iff in H. destruct H as [Hx Ha].
  cbn [app dropwhile]. rewrite Hx. apply IH. exact Ha.
Qed.

Lemma dropwhile_all : forall (p : ascii -> bool) (a : str), forallb p a = true -> dropwhile p a = [].
Proof.
  intros p a H. rewrite <- (app_nil_r a). rewrite dropwhile_all_app; [reflexivity|exact H].
Qed.

Lemma strip_around : forall doc a b,
    forallb isspace a = true -> forallb isspace b = true -> clean_ends doc = true ->
    strip (a ++ doc ++ b) = doc.
Proof.
  intros doc a b Ha Hb Hce. destruct (clean_ends_inv doc Hce) as [Hh Hl].
  unfold strip, strip_by, lstrip_by, rstrip_by. rewrite dropwhile_all_app; [|exact Ha].
  destruct doc as [|c doc].
  - cbn [app]. rewrite (dropwhile_all isspace b Hb). reflexivity.
  - rewrite (dropwhile_head_false isspace ((c :: doc) ++ b)).
    2:{ intros x Hx. apply Hh. exact Hx. }
    rewrite rev_app_distr. rewrite dropwhile_all_app.
    2:{ rewrite forallb_forall in *. intros x Hx. apply Hb. apply in_rev. exact Hx. }
    rewrite dropwhile_head_false; [apply rev_involutive|].
    intros x Hx. apply Hl. unfold last_c. unfold head_c in Hx. destruct (rev (c :: doc)); congruence.
Qed.

(* ------------------------------------------------------------------ *)
(* 3. lines                                                             *)
(* ------------------------------------------------------------------ *)

Definition nonl (l : str) : Prop := mem_c nl l = false.

Lemma nonl_notin : forall l, nonl l -> ~ In nl l.
Proof. intros l H Hin. apply mem_c_In in Hin. unfold nonl in H. congruence. Qed.

Lemma join_app_nl : forall a b, a <> [] -> b <> [] ->
    join [nl] (a ++ b) = join [nl] a ++ nl :: join [nl] b.
Proof.
  intros a b Ha Hb. induction a as [|x a IH]; [contradiction|].
  destruct a as [|y a].
  - cbn [app]. rewrite join_cons_nonnil; [|exact Hb]. reflexivity.
  - change ((x :: y :: a) ++ b) with (x :: ((y :: a) ++ b)).
    rewrite join_cons_nonnil; [|discriminate]. rewrite IH; [|discriminate].
    rewrite join_cons_cons. cbn [app]. rewrite <- !app_assoc. reflexivity.
Qed.

Lemma join_snoc_blank : forall a, a <> [] -> join [nl] (a ++ [[]]) = join [nl] a ++ [nl].
Proof. intros a Ha. rewrite join_app_nl; [reflexivity|exact Ha|discriminate]. Qed.

Lemma concat_nonnil : forall (us : list (list str)), us <> [] -> Forall (fun u => u <> []) us -> concat us <> [].
Proof.
  intros [|u us] Hne H; [contradiction|]. inversion H as [|u' us' Hu Hus]; subst.
  cbn [concat]. destruct u; [contradiction|discriminate].
Qed.

Lemma join_join_concat : forall (us : list (list str)),
    Forall (fun u => u <> []) us -> join [nl] (map (join [nl]) us) = join [nl] (concat us).
Proof.
  induction us as [|u us IH]; intros H; [reflexivity|].
  inversion H as [|u' us' Hu Hus]; subst.
  destruct us as [|v us].
  - cbn [map concat join]. rewrite app_nil_r. reflexivity.
  - cbn [map]. rewrite join_cons_cons. change (map (join [nl]) (v :: us)) with (map (join [nl]) (v :: us)) in IH.
    cbn [map] in IH. rewrite (IH Hus).
    change (concat (u :: v :: us)) with (u ++ concat (v :: us)).
    rewrite join_app_nl; [reflexivity|exact Hu|]. apply concat_nonnil; [discriminate|exact Hus].
Qed.

(* text that ends with a newline: its lines are the joined lines *)
Lemma splitlines_join_trailing : forall ls,
    Forall nonl ls -> ls <> [] -> splitlines (join [nl] ls ++ [nl]) = ls.
Proof.
  intros ls Hall Hne.
  assert (E : split_c nl (join [nl] ls ++ [nl]) = ls ++ [[]]).
  { rewrite <- (join_snoc_blank ls Hne). apply split_c_join.
    - destruct ls; discriminate.
    - apply Forall_app. split.
      + eapply Forall_impl; [|exact Hall]. intros l Hl. apply nonl_notin. exact Hl.
      + constructor; [intros []|constructor]. }
  remember (join [nl] ls ++ [nl]) as s eqn:Es. clear Es.
  unfold splitlines. destruct s as [|c s].
  - cbn [split_c] in E. exfalso. destruct ls as [|l ls]; [contradiction|].
    destruct ls; discriminate E.
  - cbv zeta. rewrite split_nl_eq, E. rewrite rev_app_distr. cbn [rev app]. apply rev_involutive.
Qed.

(* ------------------------------------------------------------------ *)
(* 4. the scanner after the section token has been located              *)
(* ------------------------------------------------------------------ *)

Definition atok (style : ngstyle) : str := nth 0 (arg_tokens_of style) [].
Definition rtok (style : ngstyle) : str := nth 0 (return_tokens_of style) [].

Lemma arg_tokens_one : forall style, arg_tokens_of style = [atok style].
Proof. intros []; reflexivity. Qed.
Lemma return_tokens_one : forall style, return_tokens_of style = [rtok style].
Proof. intros []; reflexivity. Qed.

(* what _scan_phase_numpydoc_and_google does after its for-loop (transcribed from scan_ng) *)
Definition post (style : ngstyle) (ns_is_arg : bool) (doc : str) (stacker : list (list str))
           (brk : option (list (list str) * (option (list str) * option (list str)))) : outcome scanned :=
  let '(args0, ret0, aft0) :=
      match brk with
      | None => ([], RUnits [], None)
      | Some (copied, (la_ret, la_aft)) =>
        let args1 := if ns_is_arg then copied else [] in
        let ret1 := if ns_is_arg then RUnits [] else RUnits copied in
        let ret2 := match la_ret with Some l => RLines l | None => ret1 end in
        let aft := match la_aft with
                   | Some (x :: r) => Some (x :: r)
                   | _ => None
                   end in
        (args1, ret2, aft)
      end in
  let '(stacker1, ret1) :=
      if negb (retv_truthy ret0) then
        let '(st, set_ret) := return_parse_phase style [rtok style] stacker in
        (st, match set_ret with Some u => RUnits u | None => ret0 end)
      else (stacker, ret0) in
  let '(args2, ret2) :=
      match stacker1 with
      | [] => (args0, ret1)
      | _ => if ns_is_arg then (stacker1, ret1) else (args0, RUnits stacker1)
      end in
  Ok (mkScanned doc args2 ret2 aft0).

Lemma skipn_past_token : forall (pre tok rest : str) c,
    skipn (List.length pre + List.length tok + 1) (pre ++ tok ++ c :: rest) = rest.
Proof.
  intros pre tok rest c. rewrite <- Nat.add_assoc. rewrite <- skipn_add.
  rewrite skipn_app_exact. apply skipn_app_succ.
Qed.

(* the section token of the parameters is the first token found *)
Lemma scan_ng_arg : forall style text pre rest l0 ls stacker brk,
    text = pre ++ atok style ++ nl :: rest ->
    find (atok style) text = Some (List.length pre) ->
    splitlines rest = l0 :: ls ->
    stack_lines [rtok style] (indent_of l0) (l0 :: ls) [] = Ok (stacker, brk) ->
    scan_ng style text = post style true (strip pre) stacker brk.
Proof.
  intros style text pre rest l0 ls stacker brk Et Hf Hs Hst.
  unfold scan_ng. cbv zeta. rewrite arg_tokens_one, return_tokens_one.
  rewrite (location_within_found _ _ _ Hf). cbv beta iota.
  subst text. rewrite skipn_past_token. rewrite Hs. cbv beta iota.
  rewrite Hst. cbn [bind]. rewrite firstn_app_exact. reflexivity.
Qed.

(* no parameter section; the section token of the return entry is found *)
Lemma scan_ng_ret : forall style text pre rest l0 ls stacker brk,
    text = pre ++ rtok style ++ nl :: rest ->
    find (atok style) text = None ->
    find (rtok style) text = Some (List.length pre) ->
    splitlines rest = l0 :: ls ->
    stack_lines [rtok style] (indent_of l0) (l0 :: ls) [] = Ok (stacker, brk) ->
    scan_ng style text = post style false (strip pre) stacker brk.
Proof.
  intros style text pre rest l0 ls stacker brk Et Hfa Hf Hs Hst.
  unfold scan_ng. cbv zeta. rewrite arg_tokens_one, return_tokens_one.
  rewrite (location_within_none _ _ Hfa). rewrite (location_within_found _ _ _ Hf). cbv beta iota.
  subst text. rewrite skipn_past_token. rewrite Hs. cbv beta iota.
  rewrite Hst. cbn [bind]. rewrite firstn_app_exact. reflexivity.
Qed.

Lemma scan_ng_none : forall style text,
    find (atok style) text = None -> find (rtok style) text = None ->
    scan_ng style text = Ok (mkScanned (strip text) [] (RUnits []) None).
Proof.
  intros style text Ha Hr. unfold scan_ng. cbv zeta. rewrite arg_tokens_one, return_tokens_one.
  rewrite (location_within_none _ _ Ha), (location_within_none _ _ Hr). reflexivity.
Qed.

(* ------------------------------------------------------------------ *)
(* 5. indentation, look-ahead, the numpydoc return split                *)
(* ------------------------------------------------------------------ *)

Lemma indent_of_nonspace : forall s, head_nonspace s -> indent_of s = 0.
Proof.
  intros [|c s] H; [reflexivity|]. unfold indent_of. cbn [takewhile]. rewrite (H c eq_refl). reflexivity.
Qed.

Lemma indent_of_sp : forall s, indent_of (sp :: s) = S (indent_of s).
Proof. intros s. reflexivity. Qed.

Lemma indent_of_nil : indent_of [] = 0.
Proof. reflexivity. Qed.

Lemma indent_2 : forall s, head_nonspace s -> indent_of (L "  " ++ s) = 2.
Proof.
  intros s H. cbn [L String.list_ascii_of_string app]. change " "%char with sp.
  rewrite !indent_of_sp, (indent_of_nonspace s H). reflexivity.
Qed.

Lemma indent_3 : forall s, head_nonspace s -> indent_of (L "   " ++ s) = 3.
Proof.
  intros s H. cbn [L String.list_ascii_of_string app]. change " "%char with sp.
  rewrite !indent_of_sp, (indent_of_nonspace s H). reflexivity.
Qed.

Lemma indent_tab : forall s, head_nonspace s -> indent_of (tab ++ s) = 4.
Proof.
  intros s H. unfold tab, Extracted.tab. cbn [L String.list_ascii_of_string app]. change " "%char with sp.
  rewrite !indent_of_sp, (indent_of_nonspace s H). reflexivity.
Qed.

(* google: the look-ahead after the blank line that ends the parameter section *)
Lemma lookahead_nil : forall rt, lookahead rt [] = (None, Some []).
Proof. intros rt. reflexivity. Qed.

Lemma lookahead_google_ret : forall l1 d',
    head_nonspace d' ->
    lookahead [rtok SGoogle] [rtok SGoogle; l1; L "   " ++ d'] = (Some [l1; L "   " ++ d'], Some []).
Proof.
  intros l1 d' Hd. unfold lookahead.
  assert (E : Nat.ltb 2 (List.length [rtok SGoogle; l1; L "   " ++ d'])
              && existsb (fun t => str_eqb t (nth 0 [rtok SGoogle; l1; L "   " ++ d'] []) && negb (is_empty t))
                         [rtok SGoogle] = true) by reflexivity.
  rewrite E. cbv zeta. cbn [nth skipn]. rewrite (indent_3 d' Hd).
  unfold count_at_least. cbn [takewhile]. rewrite (indent_3 d' Hd). reflexivity.
Qed.

(* numpydoc: the search for the return section in the stack *)
Definition nodash (u : list str) : Prop :=
  match u with
  | [] => False
  | h :: _ => forall c, head_c h = Some c -> ascii_eqb c (ch 45) = false
  end.

Definition rev_rtok_np : list str := rev (splitlines (rtok SNumpydoc)).

Lemma rev_rtok_np_eq : rev_rtok_np = [L "-------"; L "Returns"].
Proof. vm_compute. reflexivity. Qed.

Lemma nth_nodash : forall (st : list (list str)) i, Forall nodash st -> i < List.length st -> nodash (nth i st []).
Proof.
  intros st. induction st as [|u st IH]; intros i H Hi; [cbn in Hi; lia|].
  inversion H as [|u' st' Hu Hst]; subst. destruct i as [|i]; [exact Hu|].
  cbn [nth]. apply IH; [exact Hst|cbn in Hi; lia].
Qed.

Lemma ret_split_idx_none : forall st i,
    Forall nodash st -> i < List.length st -> ret_split_idx rev_rtok_np st i = None.
Proof.
  intros st i Hall. induction i as [|i IH]; intros Hi.
  - reflexivity.
  - cbn [ret_split_idx].
    pose proof (nth_nodash st (S i) Hall Hi) as Hn.
    destruct (nth (S i) st []) as [|h r] eqn:En; [contradiction|].
    rewrite rev_rtok_np_eq. cbn [app strs_eqb].
    assert (Eh : str_eqb h (L "-------") = false).
    { apply str_eqb_neq. intros E. subst h. specialize (Hn (ch 45) eq_refl). discriminate Hn. }
    rewrite Eh. cbn [andb]. rewrite andb_false_r. rewrite <- rev_rtok_np_eq. apply IH. lia.
Qed.

Lemma return_parse_none : forall st,
    Forall nodash st -> return_parse_phase SNumpydoc [rtok SNumpydoc] st = (st, None).
Proof.
  intros st H. unfold return_parse_phase. destruct st as [|u st]; [reflexivity|].
  cbn [nth]. fold rev_rtok_np. rewrite ret_split_idx_none; [reflexivity|exact H|cbn [List.length]; lia].
Qed.

Lemma nth_app_exact : forall {A} (a b : list A) k d, nth (List.length a + k) (a ++ b) d = nth k b d.
Proof. intros A a b k d. rewrite app_nth2; [|lia]. f_equal. lia. Qed.

Lemma firstn_units : forall {A} (U : list A) x rest, firstn (List.length U + 1) (U ++ x :: rest) = U ++ [x].
Proof. intros A U x rest. induction U as [|u U IH]; [reflexivity|]. cbn [List.length Nat.add app firstn]. rewrite IH. reflexivity. Qed.

Lemma skipn_units : forall {A} (U : list A) x y z rest, skipn (List.length U + 3) (U ++ x :: y :: z :: rest) = rest.
Proof. intros A U x y z rest. induction U as [|u U IH]; [reflexivity|]. cbn [List.length Nat.add app skipn]. exact IH. Qed.

(* the stack of a numpydoc text with parameters and a return entry *)
Lemma return_parse_found : forall (U : list (list str)) t dl,
    U <> [] ->
    return_parse_phase SNumpydoc [rtok SNumpydoc]
                       (U ++ [[[]]; [L "Returns"]; [L "-------"]; [t; dl]; [[]]])
    = (U ++ [[[]]], Some [[t; dl]; [[]]]).
Proof.
  intros U t dl HU. unfold return_parse_phase.
  destruct (U ++ [[[]]; [L "Returns"]; [L "-------"]; [t; dl]; [[]]]) as [|u0 r0] eqn:Est.
  { destruct U; discriminate. }
  rewrite <- Est. clear u0 r0 Est.
  cbn [nth]. fold rev_rtok_np.
  set (st := U ++ [[[]]; [L "Returns"]; [L "-------"]; [t; dl]; [[]]]).
  assert (Elen : List.length st - 1 = S (S (List.length U + 2))).
  { unfold st. rewrite app_length. cbn [List.length]. lia. }
  rewrite Elen.
  assert (N4 : nth (List.length U + 4) st [] = [[]]) by (unfold st; rewrite nth_app_exact; reflexivity).
  assert (N3 : nth (List.length U + 3) st [] = [t; dl]) by (unfold st; rewrite nth_app_exact; reflexivity).
  assert (N2 : nth (List.length U + 2) st [] = [L "-------"]) by (unfold st; rewrite nth_app_exact; reflexivity).
  assert (N1 : nth (List.length U + 1) st [] = [L "Returns"]) by (unfold st; rewrite nth_app_exact; reflexivity).
  (* i = |U| + 4 *)
  cbn [ret_split_idx].
  replace (S (S (List.length U + 2))) with (List.length U + 4) by lia.
  replace (List.length U + 4 - 1) with (List.length U + 3) by lia.
  rewrite N4, N3. rewrite rev_rtok_np_eq. cbn [app strs_eqb str_eqb andb]. rewrite andb_false_r.
  (* i = |U| + 3 *)
  replace (S (List.length U + 2)) with (List.length U + 3) by lia.
  rewrite <- rev_rtok_np_eq.
  replace (List.length U + 3) with (S (List.length U + 2)) at 1 by lia.
  cbn [ret_split_idx].
  replace (S (List.length U + 2)) with (List.length U + 3) by lia.
  replace (List.length U + 3 - 1) with (List.length U + 2) by lia.
  rewrite N3, N2. rewrite rev_rtok_np_eq. cbn [app strs_eqb].
  rewrite !andb_false_r.
  (* i = |U| + 2 *)
  rewrite <- rev_rtok_np_eq.
  destruct (List.length U) as [|k] eqn:Ek.
  { destruct U; [contradiction|discriminate]. }
  cbn [ret_split_idx Nat.add].
  replace (S (k + 2) - 1) with (S k + 1) by lia.
  change (S (k + 2)) with (S k + 2).
  rewrite N2, N1. rewrite rev_rtok_np_eq.
  assert (Elt : Nat.ltb 1 (S k + 2) = true) by (apply Nat.ltb_lt; lia).
  rewrite Elt.
  assert (Eeq : strs_eqb ([L "-------"] ++ [L "Returns"]) [L "-------"; L "Returns"] = true) by reflexivity.
  rewrite Eeq. cbn [andb].
  replace (S k + 2 - 1) with (S k + 1) by lia.
  replace (S k + 2 + 1) with (S k + 3) by lia. rewrite <- Ek.
  unfold st. rewrite firstn_units, skipn_units. reflexivity.
Qed.

(* ------------------------------------------------------------------ *)
(* 6. the state after the loop, evaluated                               *)
(* ------------------------------------------------------------------ *)

Lemma post_google_noret : forall doc us,
    post SGoogle true doc [] (Some (us, (None, Some []))) = Ok (mkScanned doc us (RUnits []) None).
Proof. intros doc us. reflexivity. Qed.

Lemma post_google_ret : forall doc us a b,
    post SGoogle true doc [] (Some (us, (Some [a; b], Some []))) = Ok (mkScanned doc us (RLines [a; b]) None).
Proof. intros doc us a b. reflexivity. Qed.

Lemma post_np_arg : forall doc st st' sr,
    return_parse_phase SNumpydoc [rtok SNumpydoc] st = (st', sr) -> st' <> [] ->
    post SNumpydoc true doc st None
    = Ok (mkScanned doc st' (match sr with Some u => RUnits u | None => RUnits [] end) None).
Proof.
  intros doc st st' sr H Hne. unfold post. cbn [retv_truthy is_empty negb]. rewrite H.
  destruct st' as [|u r]; [contradiction|]. reflexivity.
Qed.

Lemma post_np_ret : forall doc t dl,
    post SNumpydoc false doc [[t; dl]; [[]]] None = Ok (mkScanned doc [] (RUnits [[t; dl]; [[]]]) None).
Proof. intros doc t dl. reflexivity. Qed.

Lemma strs_eqb_refl : forall a, strs_eqb a a = true.
Proof. induction a as [|x a IH]; [reflexivity|]. cbn [strs_eqb]. rewrite str_eqb_refl, IH. reflexivity. Qed.

Lemma units_eqb_refl : forall a, units_eqb a a = true.
Proof. induction a as [|x a IH]; [reflexivity|]. cbn [units_eqb]. rewrite strs_eqb_refl, IH. reflexivity. Qed.

Lemma scanned_eqb_refl : forall a, scanned_eqb a a = true.
Proof.
  intros [d a r f]. unfold scanned_eqb. cbn [sc_doc sc_args sc_ret sc_afterward].
  rewrite str_eqb_refl, units_eqb_refl.
  assert (Er : retv_eqb r r = true) by (destruct r; cbn [retv_eqb]; [apply strs_eqb_refl|apply units_eqb_refl]).
  rewrite Er. destruct f as [x|]; [rewrite strs_eqb_refl|]; reflexivity.
Qed.

(* ------------------------------------------------------------------ *)
(* 7. the alphabet                                                      *)
(* ------------------------------------------------------------------ *)

Definition alpha (s : str) : Prop := forallb in_alphabet s = true.

Lemma alpha_app : forall a b, alpha a -> alpha b -> alpha (a ++ b).
Proof. intros a b Ha Hb. unfold alpha in *. rewrite forallb_app, Ha, Hb. reflexivity. Qed.

Lemma alpha_cons : forall c s, in_alphabet c = true -> alpha s -> alpha (c :: s).
Proof. intros c s Hc Hs. unfold alpha in *. cbn [forallb]. rewrite Hc, Hs. reflexivity. Qed.

Lemma alpha_nil : alpha [].
Proof. reflexivity. Qed.

Lemma id_char_alphabet : forall c, is_id_char c = true -> in_alphabet c = true.
Proof.
  intros [b0 b1 b2 b3 b4 b5 b6 b7].
  destruct b0, b1, b2, b3, b4, b5, b6, b7; vm_compute; intros H; try reflexivity; discriminate H.
Qed.

Lemma intchar_alphabet : forall c, intchar c = true -> in_alphabet c = true.
Proof.
  intros [b0 b1 b2 b3 b4 b5 b6 b7].
  destruct b0, b1, b2, b3, b4, b5, b6, b7; vm_compute; intros H; try reflexivity; discriminate H.
Qed.

Lemma ident_alpha : forall s, is_ident s = true -> alpha s.
Proof.
  intros s H. unfold is_ident in H. destruct s as [|c s]; [discriminate|].
  apply andb_true_iff in H. destruct H as [_ H]. unfold alpha.
  eapply forallb_impl; [|exact H]. exact id_char_alphabet.
Qed.

Lemma py_str_alpha : forall v, pyval_in_alphabet v = true -> alpha (py_str v).
Proof.
  intros [|[|]|z|r|s] H; cbn [py_str]; try reflexivity; try exact H.
  unfold alpha. eapply forallb_impl; [|apply dec_of_Z_intchars]. exact intchar_alphabet.
Qed.

Lemma quote_alpha : forall s, alpha s -> alpha (quote s).
Proof.
  intros s H. unfold quote. destruct s as [|c s]; [exact H|].
  destruct (last_c (c :: s)) as [d|]; [|exact H].
  destruct (ascii_eqb c d && (ascii_eqb c sq || ascii_eqb c dq)); [exact H|].
  apply alpha_cons; [reflexivity|]. apply alpha_app; [exact H|reflexivity].
Qed.

Lemma shown_default_alpha : forall v typ w,
    pyval_in_alphabet v = true -> shown_default v typ = Ok w -> alpha (py_str w).
Proof.
  intros v typ w Hv H. unfold shown_default in H.
  destruct v as [|b|z|r|s].
  - apply bind_Ok_inv' in H. destruct H as [nq [_ H]]. destruct nq; injection H as H; subst w; reflexivity.
  - injection H as H. subst w. apply py_str_alpha. exact Hv.
  - injection H as H. subst w. apply py_str_alpha. exact Hv.
  - injection H as H. subst w. apply py_str_alpha. exact Hv.
  - apply bind_Ok_inv' in H. destruct H as [nq [_ H]]. destruct nq.
    + cbn [quote_val] in H. injection H as H. subst w. cbn [py_str]. apply quote_alpha. exact Hv.
    + injection H as H. subst w. exact Hv.
Qed.

Lemma doc_with_default_alpha : forall name p d d',
    doc_with_default name p = Ok d' -> p_doc p = Has d -> alpha d ->
    (forall v, p_default p = Some v -> pyval_in_alphabet v = true) -> alpha d'.
Proof.
  intros name p d d' H Hd Ha Hv. unfold doc_with_default in H.
  apply bind_Ok_inv' in H. destruct H as [p' [Hp' H]].
  unfold set_default_doc in Hp'. rewrite Hd in Hp'. cbv zeta in Hp'. rewrite andb_false_r in Hp'.
  assert (Hsame : Ok p = Ok p' -> alpha d').
  { intros E. injection E as E. subst p'. rewrite Hd in H. injection H as H. subst d'. exact Ha. }
  destruct (p_default p) as [dflt|] eqn:Edf; [|apply Hsame; exact Hp'].
  destruct (negb (contains (L "Defaults") d || contains (L "defaults") d) && true); [|apply Hsame; exact Hp'].
  set (dflt' := if pyval_eqb dflt (VStr NoneStr) then VNone else dflt) in *.
  assert (Hd' : pyval_in_alphabet dflt' = true).
  { unfold dflt'. destruct (pyval_eqb dflt (VStr NoneStr)); [reflexivity|]. apply Hv. reflexivity. }
  destruct (negb (pyval_eqb dflt' VNone) || negb (endswith (L "kwargs") name)).
  - destruct (last_c d) as [c|]; [|discriminate].
    apply bind_Ok_inv' in Hp'. destruct Hp' as [shown [Hsh Hp']]. injection Hp' as Hp'. subst p'.
    cbn [p_doc] in H. injection H as H. subst d'.
    pose proof (shown_default_alpha _ _ _ Hd' Hsh) as Hs.
    apply alpha_app.
    + destruct (ascii_eqb c (ch 46) || ascii_eqb c (ch 44)); [exact Ha|].
      apply alpha_app; [exact Ha|reflexivity].
    + cbn [L String.list_ascii_of_string app]. repeat (apply alpha_cons; [reflexivity|]). exact Hs.
  - injection Hp' as Hp'. subst p'. cbn [p_doc] in H. try rewrite Hd in H. injection H as H. subst d'. exact Ha.
Qed.

(* ------------------------------------------------------------------ *)
(* 8. the lines written for one entry                                   *)
(* ------------------------------------------------------------------ *)

Definition fi_of (style : ngstyle) : nat := match style with SGoogle => 2 | SNumpydoc => 0 end.

Definition unit_ok (style : ngstyle) (u : list str) : Prop :=
  is_unit (fi_of style) u /\ Forall nonl u /\ Forall alpha u /\ nodash u.

Lemma id_start_not_dash : forall c, is_id_start c = true -> ascii_eqb c (ch 45) = false.
Proof.
  intros c H. destruct (ascii_eqb c (ch 45)) eqn:E; [|reflexivity].
  apply ascii_eqb_eq in E. subst c. discriminate H.
Qed.

Lemma type_shape_nonl : forall style t, type_shape_ok style t = true -> nonl t.
Proof.
  intros style t H. unfold type_shape_ok in H.
  apply andb_true_iff in H. destruct H as [H _].
  apply andb_true_iff in H. destruct H as [H _].
  apply andb_true_iff in H. destruct H as [_ H]. apply negb_true_iff in H. exact H.
Qed.

Lemma gparam_domain_alpha : forall g p,
    gparam_in_domain g = true -> param_of_gparam g = Some p ->
    (forall t, p_typ p = Has t -> alpha t) /\ (forall d, p_doc p = Has d -> alpha d)
    /\ (forall v, p_default p = Some v -> pyval_in_alphabet v = true).
Proof.
  intros g p H Hp. destruct (gparam_in_domain_param g H) as [p' [Hp' [Hpd [Hpt Hpdef]]]].
  rewrite Hp in Hp'. injection Hp' as E. subst p'.
  unfold gparam_in_domain in H. apply andb_true_iff in H. destruct H as [H Hdef].
  apply andb_true_iff in H. destruct H as [Had Hat].
  split; [|split].
  - intros t Ht. rewrite Hpt in Ht. rewrite Ht in Hat. cbn [fld_in_alphabet] in Hat.
    apply andb_true_iff in Hat. apply Hat.
  - intros d Hd. rewrite Hpd in Hd. rewrite Hd in Had. cbn [fld_in_alphabet] in Had.
    apply andb_true_iff in Had. apply Had.
  - intros v Hv. rewrite Hpdef in Hv. unfold sdefault in Hv.
    destruct (g_default g) as [[w|e|r]|]; try discriminate. injection Hv as Hv. subst w. exact Hdef.
Qed.

Lemma ident_nonl : forall name, is_ident name = true -> nonl name.
Proof. intros name H. apply is_ident_no_char; [exact H|reflexivity]. Qed.

Lemma nonl_tab_app : forall d, nonl d -> nonl (tab ++ d).
Proof. intros d H. unfold nonl in *. rewrite mem_c_app, H. reflexivity. Qed.

Lemma alpha_tab_app : forall d, alpha d -> alpha (tab ++ d).
Proof. intros d H. apply alpha_app; [reflexivity|exact H]. Qed.

Lemma entry_unit : forall style name g p t,
    is_ident name = true -> str_eqb name return_type_name = false -> gparam_in_domain g = true ->
    entry_facts style name g p t ->
    emit_param style name p = Ok (join [nl] (unit_of_entry style name g))
    /\ unit_ok style (unit_of_entry style name g).
Proof.
  intros style name g p t Hid Hnr Hgd [Hp [Ht [Htne [Httf [Hts [Hpdef Hdoc]]]]]].
  destruct (ident_facts name Hid) as [Hne [Hh [Hl [H58 [H40 _]]]]].
  pose proof (ident_nonl name Hid) as Hnnl. pose proof (ident_alpha name Hid) as Hna.
  pose proof (type_shape_nonl style t Hts) as Htnl.
  destruct (gparam_domain_alpha g p Hgd Hp) as [Hat [Had Hav]].
  pose proof (Hat t Ht) as Hta.
  assert (Egt : fget (g_typ g) = Some t).
  { unfold param_of_gparam in Hp. destruct (g_default g) as [[v|e|r]|]; try discriminate;
      injection Hp as Hp; subst p; cbn [p_typ] in Ht; rewrite Ht; reflexivity. }
  assert (Hnd : forall r, nodash [name ++ r]).
  { intros r. cbn [nodash]. intros c Hc. apply id_start_not_dash.
    unfold is_ident in Hid. destruct name as [|x name]; [discriminate|].
    cbn [app head_c] in Hc. injection Hc as Hc. subst c. apply andb_true_iff in Hid. apply Hid. }
  unfold unit_of_entry. rewrite Egt. unfold written_doc. rewrite Hp.
  destruct Hdoc as [[Hd Hw] | [d [d' [Hd [Hdne [Hce [Hdnl [Hna' [Hdtf [Hopt [Hdd Hws]]]]]]]]]]].
  - rewrite Hd. cbn [truthy_fld]. rewrite (emit_param_nodoc style name p t Hnr Ht Htne Hd).
    destruct style; cbn [join].
    + split; [reflexivity|]. split; [|split; [|split]].
      * cbn [is_unit fi_of]. split; [|constructor].
        apply indent_2. apply head_nonspace_app; assumption.
      * constructor; [|constructor]. unfold nonl in *. rewrite !mem_c_app, Hnnl, Htnl. reflexivity.
      * constructor; [|constructor].
        repeat apply alpha_app; try assumption; reflexivity.
      * cbn [nodash]. intros c Hc. injection Hc as Hc. subst c. reflexivity.
    + split; [reflexivity|]. split; [|split; [|split]].
      * cbn [is_unit fi_of]. split; [|constructor].
        apply indent_of_nonspace. apply head_nonspace_app; assumption.
      * constructor; [|constructor]. unfold nonl in *. rewrite !mem_c_app, Hnnl, Htnl. reflexivity.
      * constructor; [|constructor].
        repeat apply alpha_app; try assumption; reflexivity.
      * apply Hnd.
  - rewrite Hd, (truthy_Has d Hdne), Hdd.
    destruct (written_shape_inv style d' Hws) as [_ Hd'nl].
    destruct (clean_ends_inv d Hce) as [Hdh _].
    destruct (doc_with_default_prefix name p d d' Hdd Hd) as [x Hx].
    assert (Hd'h : head_nonspace d') by (subst d'; apply head_nonspace_app; assumption).
    pose proof (doc_with_default_alpha name p d d' Hdd Hd (Had d Hd) Hav) as Hd'a.
    rewrite (emit_param_doc style name p t d d' Hnr Ht Htne Hd Hdne Hdd Hdh Hd'nl).
    destruct style; cbn [join].
    + split; [reflexivity|]. split; [|split; [|split]].
      * cbn [is_unit fi_of]. split; [|constructor].
        apply indent_2. apply head_nonspace_app; assumption.
      * constructor; [|constructor]. unfold nonl in *. rewrite !mem_c_app, Hnnl, Htnl, Hd'nl. reflexivity.
      * constructor; [|constructor].
        repeat apply alpha_app; try assumption; reflexivity.
      * cbn [nodash]. intros c Hc. injection Hc as Hc. subst c. reflexivity.
    + split; [reflexivity|]. split; [|split; [|split]].
      * cbn [is_unit fi_of]. split.
        -- apply indent_of_nonspace. apply head_nonspace_app; assumption.
        -- constructor; [|constructor]. rewrite (indent_tab d' Hd'h). lia.
      * constructor; [|constructor; [|constructor]].
        -- unfold nonl in *. rewrite !mem_c_app, Hnnl, Htnl. reflexivity.
        -- apply nonl_tab_app. exact Hd'nl.
      * constructor; [|constructor; [|constructor]].
        -- repeat apply alpha_app; try assumption; reflexivity.
        -- apply alpha_tab_app. exact Hd'a.
      * apply Hnd.
Qed.

(* ------------------------------------------------------------------ *)
(* 9. the return entry and the parameter list                           *)
(* ------------------------------------------------------------------ *)

Definition ret_unit (style : ngstyle) (t d' : str) : list str :=
  match style with
  | SGoogle => [L "  " ++ t ++ L ":"; L "   " ++ d']
  | SNumpydoc => [t; tab ++ d']
  end.

Definition ret_props (t d' : str) : Prop :=
  t <> [] /\ head_nonspace t /\ head_nonspace d' /\ nonl t /\ nonl d' /\ alpha t /\ alpha d'.

Lemma return_unit : forall style g p t,
    gparam_in_domain g = true -> entry_facts style return_type_name g p t -> (exists d, p_doc p = Has d) ->
    exists d', return_lines g = Some (t, d')
               /\ emit_param style return_type_name p = Ok (join [nl] (ret_unit style t d'))
               /\ ret_props t d'.
Proof.
  intros style g p t Hgd [Hp [Ht [Htne [Httf [Hts [Hpdef Hdoc]]]]]] [d0 Hd0].
  pose proof (type_shape_nonl style t Hts) as Htnl.
  destruct (type_shape_inv style t Hts) as [Htce _].
  destruct (clean_ends_inv t Htce) as [Hth _].
  destruct (gparam_domain_alpha g p Hgd Hp) as [Hat [Had Hav]].
  assert (Egt : fget (g_typ g) = Some t).
  { unfold param_of_gparam in Hp. destruct (g_default g) as [[v|e|r]|]; try discriminate;
      injection Hp as Hp; subst p; cbn [p_typ] in Ht; rewrite Ht; reflexivity. }
  destruct Hdoc as [[Hd Hw] | [d [d' [Hd [Hdne [Hce [Hdnl [Hna' [Hdtf [Hopt [Hdd Hws]]]]]]]]]]]; [congruence|].
  destruct (written_shape_inv style d' Hws) as [_ Hd'nl].
  destruct (clean_ends_inv d Hce) as [Hdh _].
  destruct (doc_with_default_prefix _ p d d' Hdd Hd) as [x Hx].
  assert (Hd'h : head_nonspace d') by (subst d'; apply head_nonspace_app; assumption).
  pose proof (doc_with_default_alpha _ p d d' Hdd Hd (Had d Hd) Hav) as Hd'a.
  exists d'. split; [|split].
  - unfold return_lines. rewrite Egt. unfold written_doc. rewrite Hp, Hd, (truthy_Has d Hdne), Hdd. reflexivity.
  - rewrite (emit_param_return style p t d d' Ht Htne Hd Hdne Hdd Hdh Hd'nl). destruct style; reflexivity.
  - unfold ret_props. repeat split; try assumption. apply Hat. exact Ht.
Qed.

Lemma params_units : forall style ps,
    Forall (entry_guard style) ps ->
    map_o (fun np => do p <- scalar_param (snd np); emit_param style (fst np) p) ps
    = Ok (map (join [nl]) (units_of_params style ps))
    /\ Forall (unit_ok style) (units_of_params style ps).
Proof.
  intros style ps H. induction H as [|[name g] ps [Hid [Hnr [Hgd [Hec _]]]] Hps [IH1 IH2]].
  - split; [reflexivity|constructor].
  - cbn [fst snd] in *.
    destruct (entry_facts_of_guard style name g Hgd Hec) as [p [t Hef]].
    destruct (entry_unit style name g p t Hid Hnr Hgd Hef) as [Hemit Hok].
    assert (Hsp : scalar_param g = Ok p).
    { unfold scalar_param. destruct Hef as [Hp _]. rewrite Hp. reflexivity. }
    split.
    + cbn [map_o fst snd]. rewrite Hsp. cbn [bind]. rewrite Hemit. cbn [bind]. rewrite IH1. reflexivity.
    + cbn [units_of_params map fst snd]. constructor; [exact Hok|exact IH2].
Qed.

Definition tailnl (style : ngstyle) : str := match style with SNumpydoc => [nl] | SGoogle => [] end.

(* the text of a guard IR, as lines *)
Lemma text_form : forall style i,
    guard_C01_ng style i = true ->
    exists doc ret,
      ir_doc i = Has doc /\ clean_ends doc = true /\ token_free doc = true /\ alpha doc
      /\ Forall (unit_ok style) (units_of_params style (ir_params i))
      /\ (style = SGoogle -> ir_params i <> [])
      /\ text_of_o style i
         = Ok (nl :: doc ++ [nl; nl; nl]
                  ++ join [nl] (match map (join [nl]) (units_of_params style (ir_params i)) with
                                | [] => []
                                | _ => atok style :: map (join [nl]) (units_of_params style (ir_params i))
                                end)
                  ++ [nl] ++ ret ++ [nl] ++ tailnl style)
      /\ ((ret = [] /\ match ir_returns i with Has g => return_lines g | _ => None end = None)
          \/ exists t d', match ir_returns i with Has g => return_lines g | _ => None end = Some (t, d')
                          /\ ret = nl :: rtok style ++ nl :: join [nl] (ret_unit style t d')
                          /\ ret_props t d').
Proof.
  intros style i Hg. unfold guard_C01_ng in Hg. apply andb_true_iff in Hg. destruct Hg as [Hdom Hcls].
  destruct (finding_class_C01_ng style i) eqn:Hfc; [discriminate|]. clear Hcls.
  destruct (guard_entry_guards style i Hdom Hfc) as [Hall _].
  destruct (finding_class_None_inv style i Hfc) as [Hdtf [Hdce [Hgne [_ [_ Hret]]]]].
  destruct (in_domain_ng_inv i Hdom) as [[doc Hdoc] [_ [_ Hrd]]].
  rewrite Hdoc in Hdtf, Hdce. cbn [fld_all] in Hdtf, Hdce.
  assert (Hda : alpha doc).
  { unfold in_domain_ng in Hdom. rewrite Hdoc in Hdom.
    apply andb_true_iff in Hdom. destruct Hdom as [Hdom _].
    apply andb_true_iff in Hdom. destruct Hdom as [Hdom _].
    apply andb_true_iff in Hdom. destruct Hdom as [Hdom _]. exact Hdom. }
  destruct (params_units style (ir_params i) Hall) as [Hmap Hunits].
  assert (Hr : exists ret,
             match ir_returns i with
             | Has g => do p <- scalar_param g;
                        do l <- emit_param style return_type_name p;
                        Ok (nl :: nth 0 (return_tokens_of style) [] ++ nl :: l)
             | _ => Ok []
             end = Ok ret
             /\ ((ret = [] /\ match ir_returns i with Has g => return_lines g | _ => None end = None)
                 \/ exists t d', match ir_returns i with Has g => return_lines g | _ => None end = Some (t, d')
                                 /\ ret = nl :: rtok style ++ nl :: join [nl] (ret_unit style t d')
                                 /\ ret_props t d')).
  { destruct (ir_returns i) as [| |g] eqn:Er.
    - exists []. split; [reflexivity|]. left. split; reflexivity.
    - exists []. split; [reflexivity|]. left. split; reflexivity.
    - cbn [returns_ok] in Hret. destruct Hret as [_ [[t0 [d0 [Ht0 Hd0]]] [Hec _]]].
      pose proof (Hrd g eq_refl) as Hgd.
      destruct (entry_facts_of_guard style return_type_name g Hgd Hec) as [p [t Hef]].
      assert (Hsp : scalar_param g = Ok p).
      { unfold scalar_param. destruct Hef as [Hp _]. rewrite Hp. reflexivity. }
      assert (Hpdoc : exists d, p_doc p = Has d).
      { destruct (gparam_in_domain_param g Hgd) as [p' [Hp' [Hpd' _]]].
        destruct Hef as [Hp _]. rewrite Hp in Hp'. injection Hp' as E. subst p'.
        rewrite Hpd'. destruct (g_doc g) as [| |d]; try discriminate. exists d. reflexivity. }
      destruct (return_unit style g p t Hgd Hef Hpdoc) as [d' [Hrl [Hemit Hprops]]].
      rewrite Hsp. cbn [bind]. rewrite Hemit. cbn [bind]. eexists. split; [reflexivity|].
      right. exists t, d'. split; [exact Hrl|]. split; [reflexivity|exact Hprops]. }
  destruct Hr as [ret [Hret' Hcases]].
  exists doc, ret. split; [exact Hdoc|]. split; [exact Hdce|]. split; [exact Hdtf|]. split; [exact Hda|].
  split; [exact Hunits|]. split; [exact Hgne|]. split; [|exact Hcases].
  unfold text_of_o. rewrite Hdoc. cbn [bind]. rewrite Hmap. cbn [bind]. rewrite Hret'. cbn [bind].
  reflexivity.
Qed.

(* ------------------------------------------------------------------ *)
(* 10. locating the section token after the summary                     *)
(* ------------------------------------------------------------------ *)

Definition tokp (tok : str) : Prop :=
  tok <> [] /\ startswith [nl] tok = false /\ endswith [nl] tok = false /\ contains [nl; nl] tok = false
  /\ In tok all_tokens /\ alpha tok.

Lemma atok_props : forall style, tokp (atok style).
Proof.
  intros []; unfold tokp; (split; [discriminate|]); (split; [reflexivity|]); (split; [reflexivity|]);
    (split; [reflexivity|]); (split; [|reflexivity]); vm_compute; tauto.
Qed.

Lemma rtok_props : forall style, tokp (rtok style).
Proof.
  intros []; unfold tokp; (split; [discriminate|]); (split; [reflexivity|]); (split; [reflexivity|]);
    (split; [reflexivity|]); (split; [|reflexivity]); vm_compute; tauto.
Qed.

Lemma find_in_nl_doc : forall tok doc, tokp tok -> token_free doc = true -> find tok (nl :: doc) = None.
Proof.
  intros tok doc [Hne [Hs [_ [_ [Hin _]]]]] Htf.
  rewrite find_cons_skip by (apply startswith_head_neq; assumption).
  pose proof (token_free_In doc tok Htf Hin) as Hf. unfold free in Hf. apply contains_false_iff in Hf.
  rewrite Hf. reflexivity.
Qed.

Lemma nls_nohead : forall tok nls, tokp tok -> forallb (ascii_eqb nl) nls = true ->
    forall c, head_c tok = Some c -> mem_c c nls = false.
Proof.
  intros tok nls [Hne [Hs _]] Hn c Hc.
  assert (Hcn : ascii_eqb nl c = false).
  { destruct tok as [|y tok]; [discriminate|]. injection Hc as Hc. subst y.
    cbn [startswith] in Hs. rewrite andb_true_r in Hs. exact Hs. }
  induction nls as [|x nls IH]; [reflexivity|].
  cbn [forallb] in Hn. apply andb_true_iff in Hn. destruct Hn as [Hx Hn].
  apply ascii_eqb_eq in Hx. subst x. rewrite mem_c_cons. rewrite ascii_eqb_sym, Hcn. cbn [orb]. apply IH. exact Hn.
Qed.

Lemma find_after_doc : forall tok doc nls rest,
    tokp tok -> token_free doc = true -> forallb (ascii_eqb nl) nls = true ->
    find tok (((nl :: doc) ++ nl :: nl :: nls) ++ tok ++ rest)
    = Some (List.length ((nl :: doc) ++ nl :: nl :: nls)).
Proof.
  intros tok doc nls rest Hp Htf Hn. pose proof Hp as [Hne [Hs [He [Hcc _]]]].
  rewrite <- app_assoc. cbn [app]. change (nl :: doc ++ nl :: nl :: nls ++ tok ++ rest)
    with ((nl :: doc) ++ nl :: nl :: (nls ++ tok ++ rest)).
  rewrite find_sep2; try assumption; [|apply find_in_nl_doc; assumption].
  rewrite find_skip_nohead; [|exact Hne|apply nls_nohead; assumption].
  rewrite find_app_here. cbn [option_map]. f_equal.
  change (nl :: doc ++ nl :: nl :: nls) with ((nl :: doc) ++ nl :: nl :: nls).
  rewrite !app_length. cbn [List.length]. lia.
Qed.

Lemma find_none_after_doc : forall tok doc x,
    tokp tok -> token_free doc = true -> find tok x = None ->
    find tok ((nl :: doc) ++ nl :: nl :: x) = None.
Proof.
  intros tok doc x Hp Htf Hx. pose proof Hp as [Hne [Hs [He [Hcc _]]]].
  rewrite find_sep2; try assumption; [|apply find_in_nl_doc; assumption]. rewrite Hx. reflexivity.
Qed.

Lemma strip_pre : forall doc nls,
    clean_ends doc = true -> forallb (ascii_eqb nl) nls = true ->
    strip ((nl :: doc) ++ nl :: nl :: nls) = doc.
Proof.
  intros doc nls Hce Hn.
  change ((nl :: doc) ++ nl :: nl :: nls) with ([nl] ++ doc ++ (nl :: nl :: nls)).
  apply strip_around; [reflexivity| |exact Hce].
  cbn [forallb]. change (isspace nl) with true. cbn [andb].
  eapply forallb_impl; [|exact Hn]. intros c Hc. apply ascii_eqb_eq in Hc. subst c. reflexivity.
Qed.

Lemma alpha_join : forall ls, Forall alpha ls -> alpha (join [nl] ls).
Proof.
  intros ls H. induction H as [|x r Hx Hr IH]; [reflexivity|].
  destruct r as [|y r]; [exact Hx|].
  rewrite join_cons_cons. apply alpha_app; [exact Hx|]. apply alpha_app; [reflexivity|exact IH].
Qed.

Lemma scan_ng_arg_lines : forall style text pre rest lines l0 stacker brk,
    text = pre ++ atok style ++ nl :: rest ->
    find (atok style) text = Some (List.length pre) ->
    splitlines rest = lines -> lines <> [] -> nth 0 lines [] = l0 ->
    stack_lines [rtok style] (indent_of l0) lines [] = Ok (stacker, brk) ->
    scan_ng style text = post style true (strip pre) stacker brk.
Proof.
  intros style text pre rest lines l0 stacker brk Et Hf Hs Hne Hn Hst.
  destruct lines as [|l ls]; [contradiction|]. cbn [nth] in Hn. subst l.
  apply (scan_ng_arg style text pre rest l0 ls stacker brk Et Hf Hs Hst).
Qed.

(* ------------------------------------------------------------------ *)
(* 11. texts with a parameter section                                   *)
(* ------------------------------------------------------------------ *)

Definition plines (style : ngstyle) (us : list (list str)) : list str :=
  match map (join [nl]) us with
  | [] => []
  | _ => atok style :: map (join [nl]) us
  end.

Definition whole (style : ngstyle) (doc : str) (us : list (list str)) (ret : str) : str :=
  nl :: doc ++ [nl; nl; nl] ++ join [nl] (plines style us) ++ [nl] ++ ret ++ [nl] ++ tailnl style.

Lemma unit_ok_nonnil : forall style us, Forall (unit_ok style) us -> Forall (fun u => u <> []) us.
Proof.
  intros style us H. eapply Forall_impl; [|exact H]. intros u [Hu _]. destruct u; [contradiction|discriminate].
Qed.

Lemma whole_args_shape : forall style doc us ret,
    us <> [] -> Forall (fun u => u <> []) us ->
    whole style doc us ret
    = ((nl :: doc) ++ nl :: nl :: [nl]) ++ atok style ++ nl
         :: (join [nl] (concat us) ++ [nl] ++ ret ++ [nl] ++ tailnl style).
Proof.
  intros style doc us ret Hne Hall. unfold whole, plines.
  rewrite <- (join_join_concat us Hall).
  destruct us as [|u us]; [contradiction|]. cbn [map].
  rewrite join_cons_nonnil; [|discriminate].
  cbn [app]. rewrite <- !app_assoc. cbn [app]. reflexivity.
Qed.

Lemma rest_lines : forall (LLu tailL : list str), LLu <> [] -> tailL <> [] ->
    join [nl] LLu ++ nl :: join [nl] tailL ++ [nl] = join [nl] (LLu ++ tailL) ++ [nl].
Proof.
  intros LLu tailL H1 H2. rewrite join_app_nl; [|exact H1|exact H2]. rewrite <- app_assoc. reflexivity.
Qed.

Lemma Forall_concat : forall {A} (P : A -> Prop) (ls : list (list A)),
    Forall (Forall P) ls -> Forall P (concat ls).
Proof.
  intros A P ls H. induction H as [|l ls Hl Hls IH]; [constructor|].
  cbn [concat]. apply Forall_app. split; assumption.
Qed.

Lemma first_line_indent : forall style us (tailL : list str),
    Forall (unit_ok style) us -> us <> [] ->
    indent_of (nth 0 (concat us ++ tailL) []) = fi_of style.
Proof.
  intros style us tailL H Hne. destruct us as [|u us]; [contradiction|].
  inversion H as [|u' us' [Hu _] _]; subst. destruct u as [|h cs]; [contradiction|].
  destruct Hu as [Hh _]. exact Hh.
Qed.

Lemma scan_args_general : forall style doc us ret tailL stacker brk,
    clean_ends doc = true -> token_free doc = true -> us <> [] -> Forall (unit_ok style) us ->
    [nl] ++ ret ++ [nl] ++ tailnl style = nl :: join [nl] tailL ++ [nl] ->
    tailL <> [] -> Forall nonl tailL ->
    stack_lines [rtok style] (fi_of style) (concat us ++ tailL) [] = Ok (stacker, brk) ->
    scan_ng style (whole style doc us ret) = post style true doc stacker brk.
Proof.
  intros style doc us ret tailL stacker brk Hce Htf Hne Hok Htail HtailL Hnonl Hst.
  pose proof (unit_ok_nonnil style us Hok) as Hnn.
  pose proof (concat_nonnil us Hne Hnn) as Hcne.
  rewrite (whole_args_shape style doc us ret Hne Hnn).
  replace (post style true doc stacker brk)
    with (post style true (strip ((nl :: doc) ++ nl :: nl :: [nl])) stacker brk)
    by (rewrite (strip_pre doc [nl] Hce eq_refl); reflexivity).
  eapply (scan_ng_arg_lines style _ ((nl :: doc) ++ nl :: nl :: [nl]) _ (concat us ++ tailL)
                           (nth 0 (concat us ++ tailL) [])).
  - reflexivity.
  - apply find_after_doc; [apply atok_props|exact Htf|reflexivity].
  - rewrite Htail. rewrite rest_lines; [|exact Hcne|exact HtailL].
    apply splitlines_join_trailing.
    + apply Forall_app. split; [|exact Hnonl]. apply Forall_concat.
      eapply Forall_impl; [|exact Hok]. intros u [_ [Hu _]]. exact Hu.
    + intros E. apply app_eq_nil in E. destruct E as [E _]. contradiction.
  - intros E. apply app_eq_nil in E. destruct E as [E _]. contradiction.
  - reflexivity.
  - rewrite (first_line_indent style us tailL Hok Hne). exact Hst.
Qed.

Lemma units_is_unit : forall style us, Forall (unit_ok style) us -> Forall (is_unit (fi_of style)) us.
Proof. intros style us H. eapply Forall_impl; [|exact H]. intros u [Hu _]. exact Hu. Qed.

Lemma units_nodash : forall style us, Forall (unit_ok style) us -> Forall nodash us.
Proof. intros style us H. eapply Forall_impl; [|exact H]. intros u [_ [_ [_ Hu]]]. exact Hu. Qed.

(* google, parameters, no return entry *)
Lemma scan_google_noret : forall doc us,
    clean_ends doc = true -> token_free doc = true -> us <> [] -> Forall (unit_ok SGoogle) us ->
    scan_ng SGoogle (whole SGoogle doc us []) = Ok (mkScanned doc us (RUnits []) None).
Proof.
  intros doc us Hce Htf Hne Hok.
  rewrite (scan_args_general SGoogle doc us [] [[]] [] (Some (us, (None, Some []))) Hce Htf Hne Hok).
  - apply post_google_noret.
  - reflexivity.
  - discriminate.
  - constructor; [reflexivity|constructor].
  - rewrite stack_lines_units_break; [reflexivity|apply (units_is_unit SGoogle us Hok)|].
    cbn [fi_of]. rewrite indent_of_nil. lia.
Qed.

(* google, parameters and a return entry *)
Lemma scan_google_ret : forall doc us t d',
    clean_ends doc = true -> token_free doc = true -> us <> [] -> Forall (unit_ok SGoogle) us ->
    ret_props t d' ->
    scan_ng SGoogle (whole SGoogle doc us (nl :: rtok SGoogle ++ nl :: join [nl] (ret_unit SGoogle t d')))
    = Ok (mkScanned doc us (RLines [L "  " ++ t ++ L ":"; L "   " ++ d']) None).
Proof.
  intros doc us t d' Hce Htf Hne Hok [Htne [Hth [Hdh [Htnl [Hdnl [Hta Hda]]]]]].
  rewrite (scan_args_general SGoogle doc us _ [[]; rtok SGoogle; L "  " ++ t ++ L ":"; L "   " ++ d'] []
             (Some (us, (Some [L "  " ++ t ++ L ":"; L "   " ++ d'], Some []))) Hce Htf Hne Hok).
  - apply post_google_ret.
  - cbn [ret_unit join tailnl].
    repeat (first [rewrite <- app_assoc | progress cbn [app]]). reflexivity.
  - discriminate.
  - constructor; [reflexivity|]. constructor; [reflexivity|]. constructor.
    + unfold nonl in *. rewrite !mem_c_app, Htnl. reflexivity.
    + constructor; [|constructor]. unfold nonl in *. rewrite !mem_c_app, Hdnl. reflexivity.
  - rewrite stack_lines_units_break; [|apply (units_is_unit SGoogle us Hok)|cbn [fi_of]; rewrite indent_of_nil; lia].
    rewrite (lookahead_google_ret _ d' Hdh). reflexivity.
Qed.

(* numpydoc, parameters, no return entry *)
Lemma scan_np_noret : forall doc us,
    clean_ends doc = true -> token_free doc = true -> us <> [] -> Forall (unit_ok SNumpydoc) us ->
    scan_ng SNumpydoc (whole SNumpydoc doc us []) = Ok (mkScanned doc (us ++ [[[]]; [[]]]) (RUnits []) None).
Proof.
  intros doc us Hce Htf Hne Hok.
  rewrite (scan_args_general SNumpydoc doc us [] [[]; []] (us ++ [[[]]; [[]]]) None Hce Htf Hne Hok).
  - rewrite (post_np_arg doc _ (us ++ [[[]]; [[]]]) None); [reflexivity| |].
    + apply return_parse_none. apply Forall_app. split; [apply (units_nodash _ _ Hok)|].
      constructor; [intros c Hc; discriminate|]. constructor; [intros c Hc; discriminate|constructor].
    + intros E. apply app_eq_nil in E. destruct E as [E _]. contradiction.
  - reflexivity.
  - discriminate.
  - constructor; [reflexivity|]. constructor; [reflexivity|constructor].
  - change [[]; []] with (concat [[([] : str)]; [[]]]). rewrite <- concat_app.
    apply stack_lines_units_end. apply Forall_app. split; [apply (units_is_unit SNumpydoc us Hok)|].
    constructor; [split; [reflexivity|constructor]|]. constructor; [split; [reflexivity|constructor]|constructor].
Qed.

Lemma rtok_np_lines : rtok SNumpydoc = L "Returns" ++ nl :: L "-------".
Proof. reflexivity. Qed.

(* numpydoc, parameters and a return entry *)
Lemma scan_np_ret : forall doc us t d',
    clean_ends doc = true -> token_free doc = true -> us <> [] -> Forall (unit_ok SNumpydoc) us ->
    ret_props t d' ->
    scan_ng SNumpydoc (whole SNumpydoc doc us (nl :: rtok SNumpydoc ++ nl :: join [nl] (ret_unit SNumpydoc t d')))
    = Ok (mkScanned doc (us ++ [[[]]]) (RUnits [[t; tab ++ d']; [[]]]) None).
Proof.
  intros doc us t d' Hce Htf Hne Hok [Htne [Hth [Hdh [Htnl [Hdnl [Hta Hda]]]]]].
  rewrite (scan_args_general SNumpydoc doc us _ [[]; L "Returns"; L "-------"; t; tab ++ d'; []]
             (us ++ [[[]]; [L "Returns"]; [L "-------"]; [t; tab ++ d']; [[]]]) None Hce Htf Hne Hok).
  - rewrite (post_np_arg doc _ (us ++ [[[]]]) (Some [[t; tab ++ d']; [[]]])); [reflexivity| |].
    + apply return_parse_found. exact Hne.
    + intros E. apply app_eq_nil in E. destruct E as [E _]. contradiction.
  - rewrite rtok_np_lines. cbn [ret_unit join tailnl].
    repeat (first [rewrite <- app_assoc | progress cbn [app]]). reflexivity.
  - discriminate.
  - constructor; [reflexivity|]. constructor; [reflexivity|]. constructor; [reflexivity|].
    constructor; [exact Htnl|]. constructor; [apply nonl_tab_app; exact Hdnl|]. constructor; [reflexivity|constructor].
  - change [[]; L "Returns"; L "-------"; t; tab ++ d'; []]
      with (concat [[([] : str)]; [L "Returns"]; [L "-------"]; [t; tab ++ d']; [[]]]).
    rewrite <- concat_app.
    apply stack_lines_units_end. apply Forall_app. split; [apply (units_is_unit SNumpydoc us Hok)|].
    constructor; [split; [reflexivity|constructor]|].
    constructor; [split; [reflexivity|constructor]|].
    constructor; [split; [reflexivity|constructor]|].
    constructor.
    { split; [apply indent_of_nonspace; exact Hth|]. constructor; [|constructor].
      rewrite (indent_tab d' Hdh). cbn [fi_of]. lia. }
    constructor; [split; [reflexivity|constructor]|constructor].
Qed.

(* ------------------------------------------------------------------ *)
(* 12. numpydoc texts without a parameter section                       *)
(* ------------------------------------------------------------------ *)

Lemma scan_np_empty : forall doc,
    clean_ends doc = true -> token_free doc = true ->
    scan_ng SNumpydoc (whole SNumpydoc doc [] []) = Ok (mkScanned doc [] (RUnits []) None).
Proof.
  intros doc Hce Htf.
  change (whole SNumpydoc doc [] []) with ((nl :: doc) ++ nl :: nl :: [nl; nl; nl; nl]).
  rewrite scan_ng_none.
  - rewrite (strip_pre doc [nl; nl; nl; nl] Hce eq_refl). reflexivity.
  - apply find_none_after_doc; [apply atok_props|exact Htf|reflexivity].
  - apply find_none_after_doc; [apply rtok_props|exact Htf|reflexivity].
Qed.

Lemma atok_np_lines : atok SNumpydoc = L "Parameters" ++ nl :: L "----------".
Proof. reflexivity. Qed.

Lemma scan_np_ret_only : forall doc t d',
    clean_ends doc = true -> token_free doc = true -> ret_props t d' ->
    scan_ng SNumpydoc (whole SNumpydoc doc [] (nl :: rtok SNumpydoc ++ nl :: join [nl] (ret_unit SNumpydoc t d')))
    = Ok (mkScanned doc [] (RUnits [[t; tab ++ d']; [[]]]) None).
Proof.
  intros doc t d' Hce Htf [Htne [Hth [Hdh [Htnl [Hdnl [Hta Hda]]]]]].
  set (rest := t ++ nl :: (tab ++ d') ++ nl :: [nl]).
  assert (Ew : whole SNumpydoc doc [] (nl :: rtok SNumpydoc ++ nl :: join [nl] (ret_unit SNumpydoc t d'))
               = ((nl :: doc) ++ nl :: nl :: [nl; nl; nl]) ++ rtok SNumpydoc ++ nl :: rest).
  { unfold whole, plines, rest. cbn [map join ret_unit tailnl].
    repeat (first [rewrite <- app_assoc | progress cbn [app]]). reflexivity. }
  rewrite Ew.
  assert (Er : rest = join [nl] [t; tab ++ d'; []] ++ [nl]).
  { unfold rest. cbn [join]. repeat (first [rewrite <- app_assoc | progress cbn [app]]). reflexivity. }
  rewrite (scan_ng_ret SNumpydoc _ ((nl :: doc) ++ nl :: nl :: [nl; nl; nl]) rest t [tab ++ d'; []]
                       [[t; tab ++ d']; [[]]] None).
  - rewrite (strip_pre doc [nl; nl; nl] Hce eq_refl). apply post_np_ret.
  - reflexivity.
  - rewrite <- app_assoc. cbn [app].
    change (nl :: doc ++ nl :: nl :: nl :: nl :: nl :: rtok SNumpydoc ++ nl :: rest)
      with ((nl :: doc) ++ nl :: nl :: (([nl; nl; nl] ++ rtok SNumpydoc ++ [nl]) ++ rest)).
    apply find_none_after_doc; [apply atok_props|exact Htf|].
    rewrite find_skip_nohead; [|discriminate|intros c Hc; injection Hc as Hc; subst c; reflexivity].
    rewrite atok_np_lines. unfold rest.
    rewrite find_line_sep; [|reflexivity|reflexivity|exact Htnl|reflexivity].
    rewrite find_line_sep; [|reflexivity|reflexivity|apply nonl_tab_app; exact Hdnl|reflexivity].
    reflexivity.
  - apply find_after_doc; [apply rtok_props|exact Htf|reflexivity].
  - rewrite Er. apply splitlines_join_trailing; [|discriminate].
    constructor; [exact Htnl|]. constructor; [apply nonl_tab_app; exact Hdnl|]. constructor; [reflexivity|constructor].
  - rewrite (indent_of_nonspace t Hth).
    change [t; tab ++ d'; []] with (concat [[t; tab ++ d']; [[]]]).
    apply stack_lines_units_end.
    constructor.
    { split; [apply indent_of_nonspace; exact Hth|]. constructor; [|constructor].
      rewrite (indent_tab d' Hdh). lia. }
    constructor; [split; [reflexivity|constructor]|constructor].
Qed.

(* ------------------------------------------------------------------ *)
(* 13. the scan link                                                    *)
(* ------------------------------------------------------------------ *)

Lemma alpha_ret_unit : forall style t d', ret_props t d' -> Forall alpha (ret_unit style t d').
Proof.
  intros style t d' [_ [_ [_ [_ [_ [Hta Hda]]]]]]. destruct style; cbn [ret_unit].
  - constructor; [|constructor; [|constructor]].
    + repeat apply alpha_app; try assumption; reflexivity.
    + apply alpha_app; [reflexivity|exact Hda].
  - constructor; [exact Hta|]. constructor; [apply alpha_tab_app; exact Hda|constructor].
Qed.

Lemma alpha_whole : forall style doc us ret,
    alpha doc -> Forall (unit_ok style) us -> alpha ret -> alpha (whole style doc us ret).
Proof.
  intros style doc us ret Hd Hok Hr. unfold whole.
  apply alpha_cons; [reflexivity|]. apply alpha_app; [exact Hd|]. apply alpha_app; [reflexivity|].
  apply alpha_app.
  - apply alpha_join. unfold plines.
    assert (Hm : Forall alpha (map (join [nl]) us)).
    { apply Forall_map. eapply Forall_impl; [|exact Hok]. intros u [_ [_ [Hu _]]]. apply alpha_join. exact Hu. }
    destruct (map (join [nl]) us) as [|x r] eqn:Em; [constructor|].
    constructor; [|exact Hm]. destruct (atok_props style) as [_ [_ [_ [_ [_ Ha]]]]]. exact Ha.
  - apply alpha_app; [reflexivity|]. apply alpha_app; [exact Hr|]. apply alpha_app; [reflexivity|].
    destruct style; reflexivity.
Qed.

(* THE SCAN LINK: for every IR inside the guard, the scanner run on the emitted text returns the blocks scanned_of,
   and the text is over the alphabet.  Any number of parameters, any length of text. *)
Theorem scan_link_holds : forall style i,
    guard_C01_ng style i = true -> scan_link_b style i = true.
Proof.
  intros style i Hg.
  destruct (text_form style i Hg) as [doc [ret [Hdoc [Hce [Htf [Hda [Hok [Hgne [Htext Hcases]]]]]]]]].
  change (text_of_o style i = Ok (whole style doc (units_of_params style (ir_params i)) ret)) in Htext.
  assert (Hra : alpha ret).
  { destruct Hcases as [[Hret _] | [t [d' [_ [Hret Hprops]]]]]; subst ret; [reflexivity|].
    apply alpha_cons; [reflexivity|]. apply alpha_app.
    - destruct (rtok_props style) as [_ [_ [_ [_ [_ Ha]]]]]. exact Ha.
    - apply alpha_cons; [reflexivity|]. apply alpha_join. apply alpha_ret_unit. exact Hprops. }
  pose proof (alpha_whole style doc _ ret Hda Hok Hra) as Halpha.
  assert (Hscan : scan_ng style (whole style doc (units_of_params style (ir_params i)) ret)
                  = Ok (scanned_of style i)).
  { unfold scanned_of. rewrite Hdoc. cbv zeta.
    destruct Hcases as [[Hret Hrl] | [t [d' [Hrl [Hret Hprops]]]]]; rewrite Hrl; subst ret.
    - destruct style.
      + apply scan_google_noret; try assumption.
        specialize (Hgne eq_refl). destruct (ir_params i); [contradiction|discriminate].
      + destruct (ir_params i) as [|np ps] eqn:Eps.
        * apply scan_np_empty; assumption.
        * apply scan_np_noret; try assumption. discriminate.
    - destruct style.
      + apply scan_google_ret; try assumption.
        specialize (Hgne eq_refl). destruct (ir_params i); [contradiction|discriminate].
      + destruct (ir_params i) as [|np ps] eqn:Eps.
        * apply scan_np_ret_only; assumption.
        * apply scan_np_ret; try assumption. discriminate. }
  unfold scan_link_b. rewrite Htext. unfold alpha in Halpha. rewrite Halpha. cbn [andb].
  rewrite Hscan. apply scanned_eqb_refl.
Qed.

(* C01 for numpydoc and google with no scan-link hypothesis *)
Theorem C01_ng_partial : forall style i,
    guard_C01_ng style i = true -> C01_ng_at style i.
Proof.
  intros style i Hg. apply C01_ng_partial_modulo_scan; [exact Hg|apply scan_link_holds; exact Hg].
Qed.

(* the scanner's result, stated as an equation *)
Corollary scan_ng_guard : forall style i,
    guard_C01_ng style i = true ->
    exists text, text_of_o style i = Ok text /\ forallb in_alphabet text = true
                 /\ scan_ng style text = Ok (scanned_of style i).
Proof.
  intros style i Hg. pose proof (scan_link_holds style i Hg) as H. unfold scan_link_b in H.
  destruct (text_of_o style i) as [text|e]; [|discriminate]. exists text. split; [reflexivity|].
  apply andb_true_iff in H. destruct H as [Ha Hs]. split; [exact Ha|].
  destruct (scan_ng style text) as [sc|e]; [|discriminate]. apply scanned_eqb_eq in Hs. subst sc. reflexivity.
Qed.

(* not vacuous: several parameters, defaults, a parameter without prose, a return entry with a default *)
Definition w_ng : ir :=
  mkIR FNone (Has (L "static")) (Has (L "Acquire from the official model zoo."))
       [(L "dataset_name", mkG (Has (L "name of dataset.")) (Has (L "str")) (Some (DV (VStr (L "mnist")))));
        (L "K", mkG (Has (L "backend engine, e.g., `np` or `tf`.")) (Has (L "Literal['np', 'tf']"))
                    (Some (DV (VStr (L "np")))));
        (L "n", mkG (Has (L "how many.")) (Has (L "int")) (Some (DV (VInt 5))))]
       (Has (mkG (Has (L "Train and tests dataset splits.")) (Has (L "Tuple[int, int]"))
                 (Some (DV (VStr (L "(1, 2)")))))) None.

Definition w_ng_plain : ir :=
  mkIR FNone (Has (L "static")) (Has (L "Sum."))
       [(L "a", mkG (Has (L "first.")) (Has (L "int")) None); (L "b", mkG Missing (Has (L "int")) None)]
       (Has (mkG (Has (L "the result.")) (Has (L "int")) None)) None.

Example C01_ng_partial_nonvacuous :
  guard_C01_ng SGoogle w_ng = true /\ guard_C01_ng SNumpydoc w_ng = true
  /\ guard_C01_ng SGoogle w_ng_plain = true /\ guard_C01_ng SNumpydoc w_ng_plain = true.
Proof. vm_compute. repeat split. Qed.

