(* C02DocLink: the docstring layer of the config-class round trip (property C02).
   doc_agrees i d  --  until now a named hypothesis of C02_partial -- is PROVED for the text that
   DocEmit.to_docstring produces for the class and the IR that DocParse.parse_dot_docstring reads back from it
   after emit.class_'s :param -> :cvar rewriting, ast.get_docstring's inspect.cleandoc and parse.class_'s
   :cvar -> :param rewriting (definitions in model/C02DocLinkDefs.v), under the boolean side condition
   doc_link_ok.  Unbounded in the number of parameters.

   Part A  generic facts about str.replace / replace(.., 1), join, cleandoc
   Part B  the emitter: to_docstring on the folded IR in closed form (entries -> lines)
   Part C  emit.class_'s three replaces and rstrip in closed form
   Part D  cleandoc and the :cvar -> :param replace in closed form
   Part E  the parser on that text (reusing the scanner / parse-phase lemmas of DocParseFacts)
   Part F  the link and the closed corollary of C02_partial *)
From Coq Require Import List Ascii Bool Arith ZArith Lia.
From Coq Require String.
Import String.StringSyntax.
From DT Require Import PyStr Sexp PyVal TyExpr Extracted PureUtils Defaults PyAst IR EmitAst ParseAst.
From DT Require Import C17Spec C01Spec C02Spec C02Codec C02DocLinkDefs.
From DT Require DocEmit DocParse SyncProps C18Spec.
From DT Require Import PyStrFacts SplitFacts DefaultsFacts DocParseFacts.
From DT Require DocEmitFacts FillFacts C02Compose PureUtilsFacts.
Import ListNotations.

(* ================================================================== *)
(* Part A: str.replace                                                 *)
(* ================================================================== *)

Lemma replace_aux_fuel : forall a b f f' s,
    a <> [] -> List.length s < f -> List.length s < f' -> replace_aux f a b s = replace_aux f' a b s.
Proof.
  intros a b f. induction f as [|f IH]; intros f' s Ha Hf Hf'; [lia|].
  destruct f' as [|f']; [lia|].
  destruct s as [|c r]; [reflexivity|]. cbn [replace_aux].
  destruct (startswith a (c :: r)) eqn:E.
  - f_equal. apply IH; [exact Ha| |].
    + rewrite skipn_length. destruct a as [|x a']; [contradiction|]. cbn [List.length] in *. lia.
    + rewrite skipn_length. destruct a as [|x a']; [contradiction|]. cbn [List.length] in *. lia.
  - f_equal. apply IH; [exact Ha| |]; cbn [List.length] in *; lia.
Qed.

Lemma replace_nil : forall a b, replace a b [] = [].
Proof. reflexivity. Qed.

Lemma replace_miss : forall a b c r, a <> [] ->
    startswith a (c :: r) = false -> replace a b (c :: r) = c :: replace a b r.
Proof.
  intros a b c r Ha H. unfold replace. cbn [replace_aux List.length]. rewrite H. reflexivity.
Qed.

Lemma replace_hit : forall a b y, a <> [] -> replace a b (a ++ y) = b ++ replace a b y.
Proof.
  intros a b y Ha.
  assert (Hlen : List.length y < List.length (a ++ y)).
  { rewrite app_length. destruct a; [contradiction|]. cbn [List.length]. lia. }
  unfold replace at 1.
  destruct (a ++ y) as [|c r] eqn:E.
  - destruct a; [contradiction|discriminate].
  - rewrite replace_aux_step_match by (rewrite <- E; apply startswith_app).
    rewrite <- E. rewrite skipn_app_exact. f_equal.
    unfold replace. apply replace_aux_fuel; [exact Ha|rewrite E; exact Hlen|lia].
Qed.

(* no occurrence of a starts inside x when x is followed by y *)
Definition nomatch (a x y : str) : Prop :=
  forall x1 x2, x = x1 ++ x2 -> x2 <> [] -> startswith a (x2 ++ y) = false.

Lemma nomatch_nil : forall a y, nomatch a [] y.
Proof. intros a y x1 x2 E Hne. destruct x1; destruct x2; try discriminate. contradiction. Qed.

Lemma nomatch_cons : forall a c x y,
    startswith a (c :: x ++ y) = false -> nomatch a x y -> nomatch a (c :: x) y.
Proof.
  intros a c x y H0 H x1 x2 E Hne. destruct x1 as [|c1 x1].
  - cbn [app] in E. subst x2. exact H0.
  - cbn [app] in E. injection E as E1 E2. apply (H x1 x2 E2 Hne).
Qed.

Lemma nomatch_tail : forall a c x y, nomatch a (c :: x) y -> nomatch a x y.
Proof. intros a c x y H x1 x2 E Hne. apply (H (c :: x1) x2); [cbn [app]; rewrite E; reflexivity|exact Hne]. Qed.

Lemma nomatch_head : forall a c x y, nomatch a (c :: x) y -> startswith a (c :: x ++ y) = false.
Proof. intros a c x y H. apply (H [] (c :: x)); [reflexivity|discriminate]. Qed.

Lemma nomatch_app : forall a x1 x2 y, nomatch a x1 (x2 ++ y) -> nomatch a x2 y -> nomatch a (x1 ++ x2) y.
Proof.
  intros a x1. induction x1 as [|c x1 IH]; intros x2 y H1 H2; [exact H2|].
  cbn [app]. apply nomatch_cons.
  - rewrite <- app_assoc. apply (nomatch_head a c x1 (x2 ++ y) H1).
  - apply IH; [apply (nomatch_tail a c); exact H1|exact H2].
Qed.

(* the first character of the pattern does not occur in x *)
Lemma nomatch_first_char : forall c a' x y, mem_c c x = false -> nomatch (c :: a') x y.
Proof.
  intros c a' x. induction x as [|d x IH]; intros y H; [apply nomatch_nil|].
  rewrite mem_c_cons in H. apply orb_false_iff in H. destruct H as [Hd Hx].
  apply nomatch_cons; [|apply IH; exact Hx].
  cbn [startswith]. rewrite Hd. reflexivity.
Qed.

(* a piece of the pattern does not occur in x followed by y *)
Lemma nomatch_core : forall p core q x y, contains core (x ++ y) = false -> nomatch (p ++ core ++ q) x y.
Proof.
  intros p core q x y H x1 x2 E Hne.
  destruct (startswith (p ++ core ++ q) (x2 ++ y)) eqn:S; [|reflexivity]. exfalso.
  apply startswith_iff in S. destruct S as [r Er].
  apply (contains_false_no_occ core (x ++ y) (x1 ++ p) (q ++ r) H).
  rewrite E, <- !app_assoc. rewrite Er, <- !app_assoc. reflexivity.
Qed.

Lemma replace_skip : forall a b x y, a <> [] -> nomatch a x y -> replace a b (x ++ y) = x ++ replace a b y.
Proof.
  intros a b x. induction x as [|c x IH]; intros y Ha H; [reflexivity|].
  cbn [app]. rewrite replace_miss; [|exact Ha|apply nomatch_head; exact H].
  f_equal. apply IH; [exact Ha|apply (nomatch_tail a c); exact H].
Qed.

Lemma replace1_skip : forall a b x y, nomatch a x y -> replace1 a b (x ++ y) = x ++ replace1 a b y.
Proof.
  intros a b x. induction x as [|c x IH]; intros y H; [reflexivity|].
  cbn [app]. pose proof (nomatch_head a c x y H) as H0.
  destruct a as [|a0 a'].
  - cbn [startswith] in H0. discriminate.
  - cbn [replace1]. cbn [app] in H0. rewrite H0. f_equal. apply IH. apply (nomatch_tail (a0 :: a') c). exact H.
Qed.

Lemma replace1_hit : forall a b y, replace1 a b (a ++ y) = b ++ y.
Proof.
  intros a b y. destruct a as [|a0 a']; [destruct y; reflexivity|].
  cbn [app replace1]. change (a0 :: a' ++ y) with ((a0 :: a') ++ y).
  rewrite startswith_app. rewrite skipn_app_exact. reflexivity.
Qed.

Lemma replace1_none : forall a b x, a <> [] -> nomatch a x [] -> replace1 a b x = x.
Proof.
  intros a b x Ha H. rewrite <- (app_nil_r x) at 1. rewrite replace1_skip by exact H.
  destruct a as [|a0 a']; [contradiction|]. cbn [replace1 startswith]. apply app_nil_r.
Qed.

Lemma replace_none : forall a b x, a <> [] -> nomatch a x [] -> replace a b x = x.
Proof.
  intros a b x Ha H. rewrite <- (app_nil_r x) at 1. rewrite replace_skip by assumption.
  rewrite replace_nil. apply app_nil_r.
Qed.

(* ---- patterns without a line break work line by line ---- *)

Lemma startswith_line : forall a l z, mem_c nl a = false -> startswith a (l ++ nl :: z) = startswith a l.
Proof.
  intros a l z Ha. destruct (startswith a l) eqn:E.
  - apply startswith_app_r. exact E.
  - destruct (startswith a (l ++ nl :: z)) eqn:E2; [|reflexivity]. exfalso.
    apply startswith_app_cases in E2. destruct E2 as [E2|[q [Hq1 [Hq2 Hq3]]]]; [congruence|].
    destruct q as [|c q]; [contradiction|]. cbn [startswith] in Hq3.
    apply andb_true_iff in Hq3. destruct Hq3 as [Hc _]. apply ascii_eqb_eq in Hc. subst c.
    rewrite Hq1, mem_c_app, mem_c_cons, ascii_eqb_refl in Ha. rewrite orb_true_r in Ha. discriminate.
Qed.

Lemma nomatch_line : forall a l z, mem_c nl a = false -> nomatch a l [] -> nomatch a l (nl :: z).
Proof.
  intros a l z Ha H x1 x2 E Hne. rewrite startswith_line by exact Ha.
  rewrite <- (app_nil_r x2). apply (H x1 x2 E Hne).
Qed.

Lemma nomatch_contains : forall a x, contains a x = false -> nomatch a x [].
Proof.
  intros a x H. pose proof (nomatch_core [] a [] x [] ) as N. cbn [app] in N. rewrite !app_nil_r in N.
  apply N. exact H.
Qed.

(* ---- join ---- *)

Lemma join_nl_concat : forall x (l : list str), join [nl] (x :: l) = x ++ concat (map (fun y => nl :: y) l).
Proof.
  intros x l. revert x. induction l as [|y l IH]; intros x.
  - cbn [join map concat]. rewrite app_nil_r. reflexivity.
  - rewrite join_cons_cons. rewrite IH. cbn [map concat app]. reflexivity.
Qed.

(* ================================================================== *)
(* Part B: the emitter                                                 *)
(* ================================================================== *)

Definition bslash : ascii := ch 92.

(* a written line of prose: starts and ends with a non-blank, no line break, does not end in a backslash *)
Definition wfine (d : str) : Prop :=
  (exists c r, d = c :: r /\ isspace c = false) /\ mem_c nl d = false
  /\ exists l, last_c d = Some l /\ isspace l = false /\ l <> bslash.

Lemma wfine_edge : forall d, wfine d -> edge_ok d.
Proof.
  intros d [[c [r [E Hc]]] [_ [l [Hl [Hls _]]]]]. split.
  - exists c, r. split; assumption.
  - exists l. split; assumption.
Qed.

Lemma rstrip_by_pad : forall p s b, forallb p b = true -> rstrip_by p (s ++ b) = rstrip_by p s.
Proof.
  intros p s b H. unfold rstrip_by. rewrite rev_app_distr. rewrite dropwhile_app_all; [reflexivity|].
  rewrite forallb_forall in *. intros c Hc. apply H. apply in_rev. exact Hc.
Qed.

Lemma splitlines_single : forall c r, mem_c nl (c :: r) = false -> splitlines (c :: r) = [c :: r].
Proof.
  intros c r H. unfold splitlines. rewrite (split_nl_single _ H). reflexivity.
Qed.

Lemma multiline_single : forall d, wfine d -> multiline_noquote d = d.
Proof.
  intros d [[c [r [E Hc]]] [Hnl [l [Hl [Hls Hb]]]]]. unfold multiline_noquote. subst d.
  rewrite (splitlines_single c r Hnl). cbn [map join].
  change (L " \" ++ [nl]) with [sp; ch 92; nl]. rewrite PureUtilsFacts.drop_last3_app.
  unfold rstrip_chars. apply (PureUtilsFacts.rstrip_by_last_false _ _ l Hl).
  assert (E1 : ascii_eqb l sp = false).
  { apply ascii_eqb_neq. intros E. subst l. discriminate. }
  assert (E2 : ascii_eqb l nl = false).
  { apply ascii_eqb_neq. intros E. subst l. discriminate. }
  change (existsb (ascii_eqb l) [sp; nl] = false). cbn [existsb]. rewrite E1, E2. reflexivity.
Qed.

Lemma iabf_wfine : forall d n, wfine d -> indent_all_but_first d n false = d.
Proof.
  intros d n [[c [r [E Hc]]] [Hnl _]]. subst d.
  apply DocEmitFacts.indent_all_but_first_one_line; [|exact Hc].
  intros Hin. apply mem_c_In in Hin. congruence.
Qed.

Lemma sdd_idem : forall n p edd d' p',
    DocEmit.sdd_doc n p edd = Ok (d', p') ->
    (edd = false -> exists d, p_doc p = Has d /\ no_announce d = true) ->
    DocEmit.sdd_doc n p' edd = Ok (d', p').
Proof.
  intros n p edd d' p' H Hoff. unfold DocEmit.sdd_doc in *.
  destruct (set_default_doc n p edd) as [q|e] eqn:Eq; [|discriminate]. cbn [bind] in H.
  destruct (p_doc q) as [| |dq] eqn:Edq; try discriminate. injection H as H1 H2. subst dq q.
  destruct edd.
  - rewrite (set_default_doc_idem n p p' Eq). cbn [bind]. rewrite Edq. reflexivity.
  - destruct (Hoff eq_refl) as [d [Hd Hno]].
    rewrite (set_default_doc_no_announce n p d Hd Hno) in Eq. injection Eq as Eq. subst p'.
    rewrite (set_default_doc_no_announce n p d Hd Hno). cbn [bind]. rewrite Edq. reflexivity.
Qed.

Lemma tab1 : repeat_str tab 1 = tab.
Proof. reflexivity. Qed.

Lemma rest_doc_line_no_nl : forall n d, mem_c nl n = false -> mem_c nl d = false ->
    mem_c nl (DocEmit.rest_doc_line n d) = false.
Proof.
  intros n d Hn Hd. unfold DocEmit.rest_doc_line, DocEmit.rest_key.
  destruct (DocEmit.is_return n); rewrite !mem_c_app, ?Hn, ?Hd; reflexivity.
Qed.

Definition wrap_fine (w : nat) (ww : bool) (s : str) : Prop :=
  ww = true -> 0 < w /\ C18Spec.nowrap_line w s = true.

Lemma fill_or_id_fine : forall w ww s, wrap_fine w ww s -> DocEmit.fill_or_id ww w s = Ok s.
Proof.
  intros w ww s H. unfold DocEmit.fill_or_id. destruct ww; [|reflexivity].
  destruct (H eq_refl) as [Hw Hn]. apply FillFacts.nowrap_line_fill; assumption.
Qed.

Lemma td_fill_fine : forall w ww il c r, mem_c nl (c :: r) = false -> wrap_fine w ww (c :: r) ->
    DocEmit.td_fill w ww il (c :: r) = Ok (c :: r).
Proof.
  intros w ww il c r Hnl H. unfold DocEmit.td_fill. destruct ww; [|reflexivity].
  destruct (H eq_refl) as [Hw Hn]. rewrite (splitlines_single c r Hnl). cbn [existsb].
  unfold C18Spec.nowrap_line, C18Spec.fits in Hn. apply andb_true_iff in Hn. destruct Hn as [_ Hf].
  apply Nat.leb_le in Hf.
  assert (E : Nat.ltb w (List.length (c :: r)) = false) by (apply Nat.ltb_ge; exact Hf).
  rewrite E. reflexivity.
Qed.

Lemma td_param_doc : forall w ww edd n c r T v d' p',
    no_announce (c :: r) = true ->
    DocEmit.sdd_doc n (mkParam (Has (c :: r)) T v) edd = Ok (d', p') ->
    wfine d' -> mem_c nl n = false ->
    wrap_fine w ww (DocEmit.rest_doc_line n d') ->
    exists p'', DocEmit.td_param w ww edd false 1 n (mkParam (Has (c :: r)) T v)
                = Ok (Some (DocEmit.rest_doc_line n d' ++ nl :: tab), p'').
Proof.
  intros w ww edd n c r T v d' p' Hno Hsdd Hfine Hn Hwrap.
  unfold DocEmit.td_param. cbn [p_doc].
  unfold extract_default_fld. rewrite (extract_default_no_announce (c :: r) true None edd Hno).
  cbn [bind fst snd p_doc DocEmit.truthy_fld]. rewrite Hsdd. cbn [bind fst snd].
  rewrite (iabf_wfine d' (DocEmit.abs_pred 1) Hfine), (multiline_single d' Hfine).
  destruct (DocEmitFacts.sdd_doc_typ _ _ _ _ _ Hsdd) as [Htyp Hdoc]. cbn [p_typ] in Htyp.
  assert (Ep : mkParam (Has d') (p_typ p') (p_default p') = p').
  { destruct p' as [a b e]. cbn [p_doc p_typ p_default] in *. subst a. reflexivity. }
  rewrite Ep.
  assert (Hsdd2 : DocEmit.sdd_doc n p' edd = Ok (d', p')).
  { apply (sdd_idem n _ edd d' p' Hsdd). intros _. exists (c :: r). split; [reflexivity|exact Hno]. }
  assert (Hline : mem_c nl (DocEmit.rest_doc_line n d') = false).
  { apply rest_doc_line_no_nl; [exact Hn|apply Hfine]. }
  assert (Hemit : DocEmit.emit_param_str w n p' DocEmit.Rest true false ww edd
                  = Ok (DocEmit.rest_doc_line n d', p')).
  { unfold DocEmit.emit_param_str, DocEmit.rest_raw_lines. rewrite Hdoc.
    destruct Hfine as [[c' [r' [Ed' _]]] _]. rewrite Ed'. cbn [DocEmit.truthy_fld]. rewrite <- Ed'.
    rewrite Hsdd2. cbn [bind fst snd DocEmit.cat_options DocEmit.mapM].
    rewrite (fill_or_id_fine w ww _ Hwrap). cbn [bind map join].
    unfold DocEmit.rest_doc_line in *. rewrite (iabf_colon_line _ Hline). reflexivity. }
  rewrite Hemit. cbn [bind fst snd].
  assert (Eb : (match p_typ p' with
                | Has _ => if false then
                             do sp <- DocEmit.emit_param_str w n p' DocEmit.Rest false true ww edd;
                             Ok (Some (fst sp), snd sp)
                           else Ok (None, p')
                | _ => Ok (None, p')
                end) = Ok (@None str, p')) by (destruct (p_typ p'); reflexivity).
  rewrite Eb. cbn [bind fst snd]. unfold DocEmit.td_joiner.
  unfold DocEmit.rest_doc_line in *.
  change (L ":" ++ DocEmit.rest_key n ++ L ": " ++ d') with (ch 58 :: (DocEmit.rest_key n ++ L ": " ++ d')) in *.
  rewrite (td_fill_fine w ww 1 _ _ Hline Hwrap). cbn [bind]. rewrite tab1. eexists. reflexivity.
Qed.

Lemma td_param_undoc : forall w ww edd n p,
    DocEmit.truthy_fld (p_doc p) = None -> (forall d, p_doc p = Has d -> d = []) ->
    exists p'', DocEmit.td_param w ww edd false 1 n p = Ok (None, p'').
Proof.
  intros w ww edd n [doc T v] Ht Hd. cbn [p_doc] in *.
  destruct doc as [| |d]; [| |rewrite (Hd d eq_refl)]; destruct T; eexists; reflexivity.
Qed.

(* ---- all entries ---- *)

(* an entry of the docstring: name and prose as written (default sentence included) *)
Definition eline (e : str * str) : str := DocEmit.rest_doc_line (fst e) (snd e).
Definition T1blk (e : str * str) : str := nl :: tab ++ eline e ++ nl :: tab.

(* the text of to_docstring(indent_level=1, emit_types=False, emit_separating_tab=True) *)
Definition T1 (S : str) (es : list (str * str)) : str :=
  nl :: tab ++ S ++ nl :: tab ++ concat (map T1blk es) ++ nl :: tab.

Inductive emits (w : nat) (ww edd : bool) : list (str * param) -> list (str * str) -> Prop :=
| em_nil : emits w ww edd [] []
| em_doc : forall n c r T v d' p' ps es,
    no_announce (c :: r) = true ->
    DocEmit.sdd_doc n (mkParam (Has (c :: r)) T v) edd = Ok (d', p') ->
    wfine d' -> mem_c nl n = false ->
    wrap_fine w ww (DocEmit.rest_doc_line n d') ->
    emits w ww edd ps es ->
    emits w ww edd ((n, mkParam (Has (c :: r)) T v) :: ps) ((n, d') :: es)
| em_undoc : forall n p ps es,
    DocEmit.truthy_fld (p_doc p) = None ->
    emits w ww edd ps es ->
    emits w ww edd ((n, p) :: ps) es.

Definition p2dp_item (w : nat) (ww edd : bool) (k : str) (p : param) : outcome (str * param) :=
  do op <- DocEmit.td_param w ww edd false 1 k p;
  Ok (match fst op with Some s => s | None => [] end, snd op).

Lemma emits_items : forall w ww edd ps es, emits w ww edd ps es ->
    exists items ps', DocEmit.emit_items (p2dp_item w ww edd) ps = Ok (items, ps')
                      /\ filter DocEmit.nonempty items = map (fun e => eline e ++ nl :: tab) es.
Proof.
  intros w ww edd ps es H. induction H as [|n c r T v d' p' ps es Hno Hsdd Hf Hn Hw Hes [items [ps' [IH1 IH2]]]
                                           |n p ps es Ht Hes [items [ps' [IH1 IH2]]]].
  - exists [], []. split; reflexivity.
  - destruct (td_param_doc w ww edd n c r T v d' p' Hno Hsdd Hf Hn Hw) as [p'' Htd].
    eexists. eexists. cbn [DocEmit.emit_items]. unfold p2dp_item at 1. rewrite Htd. cbn [bind fst snd].
    rewrite IH1. cbn [bind fst snd]. split; [reflexivity|].
    cbn [filter]. unfold DocEmit.rest_doc_line at 1. cbn [app DocEmit.nonempty]. cbn [map]. rewrite IH2. reflexivity.
  - destruct (td_param_undoc w ww edd n p Ht) as [p'' Htd].
    { intros d Hd. rewrite Hd in Ht. destruct d; [reflexivity|discriminate]. }
    eexists. eexists. cbn [DocEmit.emit_items]. unfold p2dp_item at 1. rewrite Htd. cbn [bind fst snd].
    rewrite IH1. cbn [bind fst snd]. split; [reflexivity|]. cbn [filter DocEmit.nonempty]. exact IH2.
Qed.

Lemma sep_join_blocks : forall sep (ls : list str), ls <> [] ->
    sep ++ join sep (map (fun l => l ++ sep) ls) = concat (map (fun l => sep ++ l ++ sep) ls).
Proof.
  intros sep ls. induction ls as [|x ls IH]; intros Hne; [contradiction|].
  destruct ls as [|y ls].
  - cbn [map join concat]. rewrite app_nil_r. reflexivity.
  - change (map (fun l => l ++ sep) (x :: y :: ls)) with ((x ++ sep) :: map (fun l => l ++ sep) (y :: ls)).
    change (map (fun l => sep ++ l ++ sep) (x :: y :: ls))
      with ((sep ++ x ++ sep) :: map (fun l => sep ++ l ++ sep) (y :: ls)).
    rewrite join_cons_nonnil by discriminate. cbn [concat]. rewrite <- IH by discriminate.
    rewrite <- !app_assoc. reflexivity.
Qed.

Lemma indent_single : forall pre c r, mem_c nl (c :: r) = false -> isspace c = false ->
    indent pre (c :: r) = pre ++ c :: r.
Proof.
  intros pre c r Hnl Hc. unfold indent. rewrite (split_nl_single _ Hnl). cbn [indent_lines forallb].
  rewrite Hc. reflexivity.
Qed.

Lemma to_docstring_T1 : forall w ww edd i2 S ps es,
    ir_doc i2 = Has S -> edge_ok S -> mem_c nl S = false -> wrap_fine w ww S ->
    DocEmit.params_of (ir_params i2) = Some ps ->
    (forall g, ir_returns i2 <> Has g) ->
    emits w ww edd ps es -> es <> [] ->
    DocEmit.to_docstring w i2 edd DocEmit.Rest 1 false true ww = Ok (T1 S es, i2).
Proof.
  intros w ww edd i2 S ps es Hdoc He Hnl Hw Hps Hret Hem Hne.
  unfold DocEmit.to_docstring. rewrite Hps.
  assert (Er : (match ir_returns i2 with Has g => option_map Some (param_of_gparam g) | _ => Some None end)
               = Some None).
  { destruct (ir_returns i2) as [| |g]; try reflexivity. exfalso. apply (Hret g). reflexivity. }
  rewrite Er. rewrite Hdoc.
  pose proof He as [[c [r [ES Hc]]] [l [Hl Hls]]]. subst S. cbn [DocEmit.truthy_fld].
  rewrite (td_fill_fine w ww 1 c r Hnl Hw). cbn [bind]. rewrite tab1.
  rewrite (indent_single tab c r Hnl Hc).
  assert (Eend : endswith [nl] (rstrip_chars (L " " ++ [tabch]) (c :: r)) = false).
  { unfold rstrip_chars. rewrite rstrip_by_id.
    - destruct (endswith [nl] (c :: r)) eqn:E; [|reflexivity]. apply endswith_single in E.
      rewrite Hl in E. injection E as E. subst l. discriminate.
    - intros c' Hc'. rewrite Hl in Hc'. injection Hc' as Hc'. subst c'.
      change (existsb (ascii_eqb l) [sp; tabch] = false). cbn [existsb].
      assert (E1 : ascii_eqb l sp = false) by (apply ascii_eqb_neq; intros E; subst l; discriminate).
      assert (E2 : ascii_eqb l tabch = false) by (apply ascii_eqb_neq; intros E; subst l; discriminate).
      rewrite E1, E2. reflexivity. }
  rewrite Eend.
  destruct (emits_items w ww edd ps es Hem) as [items [ps' [Hit Hfil]]].
  destruct ps as [|kp ps0].
  { inversion Hem. subst es. contradiction. }
  fold (p2dp_item w ww edd). rewrite Hit. cbn [bind fst snd]. rewrite Hfil.
  assert (EJ : [nl] ++ tab ++ join (nl :: tab) (map (fun e => eline e ++ nl :: tab) es) = concat (map T1blk es)).
  { rewrite <- (map_map eline (fun l => l ++ nl :: tab)).
    change ([nl] ++ tab ++ join (nl :: tab) (map (fun l => l ++ nl :: tab) (map eline es)))
      with ((nl :: tab) ++ join (nl :: tab) (map (fun l => l ++ nl :: tab) (map eline es))).
    rewrite sep_join_blocks by (destruct es; [contradiction|discriminate]).
    rewrite map_map. reflexivity. }
  unfold T1. rewrite <- EJ. f_equal. f_equal. rewrite app_nil_r. rewrite <- !app_assoc. reflexivity.
Qed.

(* ================================================================== *)
(* Part C: emit.class_'s three replaces and rstrip                     *)
(* ================================================================== *)

Ltac norm_app := repeat (progress (cbn [app]; rewrite <- ?app_assoc)).

Definition A1 : str := nl :: tab ++ L ":param ".
Definition B1 : str := L ":cvar ".
Definition A2 : str := tab ++ L ":cvar ".
Definition B2 : str := nl :: tab ++ L ":cvar ".
Definition A3 : str := nl :: tab ++ L ":returns:".
Definition B3 : str := L ":cvar return_type:".

Definition cv (e : str * str) : str := L ":cvar " ++ fst e ++ L ": " ++ snd e.
Definition PB' (e : str * str) : str := nl :: tab ++ cv e.
Definition RB (d : str) : str := nl :: tab ++ L ":returns: " ++ d ++ nl :: tab.

(* the value of the docstring node of the emitted class *)
Definition T3 (S : str) (es : list (str * str)) : str := nl :: tab ++ S ++ [nl] ++ concat (map PB' es).

Definition rt_name : str := L "return_type".
Definition ret_list (r : option str) : list (str * str) := match r with Some d => [(rt_name, d)] | None => [] end.

Lemma startswith_app_same : forall p a s, startswith (p ++ a) (p ++ s) = startswith a s.
Proof. induction p as [|c p IH]; intros a s; [reflexivity|]. cbn [app startswith]. rewrite ascii_eqb_refl. apply IH. Qed.

Lemma startswith_prefix_contains : forall t q s, startswith (t ++ q) s = true -> contains t s = true.
Proof.
  intros t q s H. apply startswith_iff in H. destruct H as [r E]. subst s.
  apply contains_true_iff. exists [], (q ++ r). rewrite <- app_assoc. reflexivity.
Qed.

Lemma tab_no_nl : mem_c nl tab = false.
Proof. reflexivity. Qed.

Definition entry_plain (e : str * str) : Prop :=
  mem_c nl (fst e) = false /\ mem_c nl (snd e) = false.

Lemma eline_param : forall e, DocEmit.is_return (fst e) = false ->
    T1blk e = A1 ++ (fst e ++ L ": " ++ snd e) ++ nl :: tab.
Proof.
  intros [n d] H. unfold T1blk, eline, DocEmit.rest_doc_line, DocEmit.rest_key. cbn [fst snd] in *. rewrite H.
  unfold A1. cbn [app]. rewrite <- !app_assoc. reflexivity.
Qed.

Lemma eline_return : forall e, DocEmit.is_return (fst e) = true ->
    T1blk e = nl :: (tab ++ L ":returns: " ++ snd e) ++ nl :: tab /\ fst e = rt_name.
Proof.
  intros [n d] H. unfold T1blk, eline, DocEmit.rest_doc_line, DocEmit.rest_key. cbn [fst snd] in *. rewrite H.
  split.
  - cbn [app]. rewrite <- !app_assoc. reflexivity.
  - unfold DocEmit.is_return in H. apply str_eqb_eq in H. exact H.
Qed.

Definition blkA (e : str * str) : str :=
  if DocEmit.is_return (fst e) then RB (snd e) else cv e ++ nl :: tab.

(* skipping  line, nl, tab  in front of something that starts with nl, for a pattern that starts with nl *)
Lemma replace_skip_line_nltab : forall a' b l z,
    mem_c nl l = false -> startswith (nl :: a') (nl :: tab ++ nl :: z) = false ->
    replace (nl :: a') b (l ++ nl :: tab ++ nl :: z) = l ++ nl :: tab ++ replace (nl :: a') b (nl :: z).
Proof.
  intros a' b l z Hl H.
  rewrite (replace_skip (nl :: a') b l) by (try discriminate; apply nomatch_first_char; exact Hl).
  f_equal. change (nl :: tab ++ nl :: z) with ((nl :: tab) ++ nl :: z).
  rewrite (replace_skip (nl :: a') b (nl :: tab)); [reflexivity|discriminate|].
  apply nomatch_cons; [exact H|]. apply nomatch_first_char. reflexivity.
Qed.

Lemma replace_skip_nl_line_nltab : forall a' b l z,
    mem_c nl l = false -> startswith (nl :: a') (nl :: l ++ nl :: tab ++ nl :: z) = false ->
    startswith (nl :: a') (nl :: tab ++ nl :: z) = false ->
    replace (nl :: a') b (nl :: l ++ nl :: tab ++ nl :: z) = nl :: l ++ nl :: tab ++ replace (nl :: a') b (nl :: z).
Proof.
  intros a' b l z Hl H0 H. rewrite replace_miss by (try discriminate; exact H0). f_equal.
  apply replace_skip_line_nltab; assumption.
Qed.

Lemma stepA1_blocks : forall es,
    (forall e, In e es -> entry_plain e) ->
    replace A1 B1 (concat (map T1blk es) ++ nl :: tab) = concat (map blkA es) ++ nl :: tab.
Proof.
  induction es as [|e es IH]; intros Hp; [reflexivity|].
  assert (Hrest : exists z, concat (map T1blk es) ++ nl :: tab = nl :: z).
  { destruct es as [|e' es']; [eexists; reflexivity|]. cbn [map concat]. unfold T1blk at 1. eexists. reflexivity. }
  destruct Hrest as [z Hz]. destruct (Hp e (or_introl eq_refl)) as [Hn Hd].
  cbn [map concat]. rewrite <- app_assoc. unfold blkA at 1.
  assert (HA1 : A1 <> []) by discriminate.
  specialize (IH (fun e' He' => Hp e' (or_intror He'))).
  destruct (DocEmit.is_return (fst e)) eqn:Er.
  - destruct (eline_return e Er) as [E1 _]. rewrite E1. rewrite Hz.
    set (l := tab ++ L ":returns: " ++ snd e).
    assert (Hl : mem_c nl l = false) by (unfold l; rewrite !mem_c_app, Hd; reflexivity).
    cbn [app]. rewrite <- !app_assoc. cbn [app]. unfold A1.
    rewrite (replace_skip_nl_line_nltab _ B1 l z Hl); [| |reflexivity].
    2:{ unfold l. reflexivity. }
    fold A1. rewrite <- Hz, IH. unfold RB, l. cbn [app]. rewrite <- !app_assoc. reflexivity.
  - rewrite (eline_param e Er). rewrite Hz.
    set (l := fst e ++ L ": " ++ snd e).
    assert (Hl : mem_c nl l = false) by (unfold l; rewrite !mem_c_app, Hn, Hd; reflexivity).
    rewrite <- !app_assoc. rewrite replace_hit by exact HA1. cbn [app]. unfold A1.
    rewrite (replace_skip_line_nltab _ B1 l z Hl) by reflexivity.
    fold A1. rewrite <- Hz, IH. unfold cv, B1, l. rewrite <- !app_assoc. reflexivity.
Qed.

(* the summary line *)
Definition sum_fine (S : str) : Prop :=
  edge_ok S /\ mem_c nl S = false /\ no_rest_token S = true.

Lemma sum_no_tok : forall S t, sum_fine S -> In t Extracted.rest_tokens -> contains t S = false.
Proof. intros S t [_ [_ H]] Ht. apply (proj1 (no_rest_token_spec S) H t Ht). Qed.

Lemma sum_startswith_false : forall S t q z, sum_fine S -> In t Extracted.rest_tokens -> mem_c nl (t ++ q) = false ->
    startswith (t ++ q) (S ++ nl :: z) = false.
Proof.
  intros S t q z HS Ht Hnl. rewrite startswith_line by exact Hnl.
  destruct (startswith (t ++ q) S) eqn:E; [|reflexivity].
  apply startswith_prefix_contains in E. rewrite (sum_no_tok S t HS Ht) in E. discriminate.
Qed.

Lemma stepA1 : forall S es, sum_fine S -> (forall e, In e es -> entry_plain e) ->
    replace A1 B1 (T1 S es) = nl :: tab ++ S ++ nl :: tab ++ concat (map blkA es) ++ nl :: tab.
Proof.
  intros S es HS Hp. unfold T1.
  assert (Hrest : exists z, concat (map T1blk es) ++ nl :: tab = nl :: z).
  { destruct es as [|e' es']; [eexists; reflexivity|]. cbn [map concat]. unfold T1blk at 1. eexists. reflexivity. }
  destruct Hrest as [z Hz]. rewrite Hz.
  set (l := tab ++ S).
  assert (Hl : mem_c nl l = false).
  { unfold l. rewrite mem_c_app. destruct HS as [_ [Hnl _]]. rewrite Hnl. reflexivity. }
  replace (nl :: tab ++ S ++ nl :: tab ++ nl :: z) with (nl :: l ++ nl :: tab ++ nl :: z)
    by (unfold l; rewrite <- app_assoc; reflexivity).
  unfold A1. rewrite (replace_skip_nl_line_nltab _ B1 l z Hl); [| |reflexivity].
  2:{ unfold l. cbn [startswith]. rewrite ascii_eqb_refl. cbn [andb]. rewrite <- app_assoc.
      rewrite startswith_app_same. apply (sum_startswith_false S (L ":param") (L " ")); [exact HS| |reflexivity].
      left. reflexivity. }
  fold A1. rewrite <- Hz. rewrite (stepA1_blocks es Hp). unfold l. rewrite <- app_assoc. reflexivity.
Qed.

(* ---- the blocks with the separator moved in front ---- *)

Lemma shift_blocks : forall ps,
    nl :: tab ++ concat (map (fun e => cv e ++ nl :: tab) ps) = concat (map PB' ps) ++ nl :: tab.
Proof.
  induction ps as [|e ps IH]; [cbn [map concat]; rewrite app_nil_r; reflexivity|].
  cbn [map concat]. unfold PB' at 1. rewrite <- !app_assoc. cbn [app]. rewrite <- !app_assoc.
  f_equal. f_equal. f_equal. exact IH.
Qed.

Definition TAIL (r : option str) : str :=
  nl :: tab ++ (match r with Some d => RB d | None => [] end) ++ nl :: tab.

Definition all_params (ps : list (str * str)) : Prop := forall e, In e ps -> DocEmit.is_return (fst e) = false.

Lemma blocks_split : forall ps r, all_params ps ->
    nl :: tab ++ concat (map blkA (ps ++ ret_list r)) ++ nl :: tab = concat (map PB' ps) ++ TAIL r.
Proof.
  intros ps r Hps. rewrite map_app, concat_app.
  assert (E1 : map blkA ps = map (fun e => cv e ++ nl :: tab) ps).
  { apply map_ext_in. intros e He. unfold blkA. rewrite (Hps e He). reflexivity. }
  rewrite E1. rewrite <- app_assoc. rewrite app_comm_cons. rewrite app_assoc.
  change (nl :: tab ++ concat (map (fun e => cv e ++ nl :: tab) ps))
    with (nl :: tab ++ concat (map (fun e => cv e ++ nl :: tab) ps)).
  replace ((nl :: tab) ++ concat (map (fun e => cv e ++ nl :: tab) ps))
    with (nl :: tab ++ concat (map (fun e => cv e ++ nl :: tab) ps)) by reflexivity.
  rewrite shift_blocks. rewrite <- app_assoc. f_equal. unfold TAIL.
  destruct r as [d|]; cbn [ret_list map concat blkA fst snd]; [|reflexivity].
  change (DocEmit.is_return rt_name) with true. cbv iota. rewrite app_nil_r. reflexivity.
Qed.

Lemma contains_cons_other : forall c t x s, ascii_eqb c x = false ->
    contains (c :: t) (x :: s) = contains (c :: t) s.
Proof.
  intros c t x s H. unfold contains. rewrite find_cons. cbn [startswith]. rewrite H. cbn [andb].
  destruct (find (c :: t) s); reflexivity.
Qed.

Lemma contains_skip_prefix : forall c t pre s, mem_c c pre = false ->
    contains (c :: t) (pre ++ s) = contains (c :: t) s.
Proof.
  intros c t pre s. induction pre as [|x pre IH]; intros H; [reflexivity|].
  rewrite mem_c_cons in H. apply orb_false_iff in H. destruct H as [Hx Hp].
  cbn [app]. rewrite contains_cons_other by exact Hx. apply IH. exact Hp.
Qed.

Definition entry_fine (e : str * str) : Prop := mem_c nl (fst e) = false /\ wfine (snd e).

Lemma entry_fine_plain : forall e, entry_fine e -> entry_plain e.
Proof. intros e [H1 [_ [H2 _]]]. split; assumption. Qed.

Lemma stepA2 : forall S e1 ps Z, sum_fine S ->
    replace1 A2 B2 (nl :: tab ++ S ++ concat (map PB' (e1 :: ps)) ++ Z)
    = nl :: tab ++ S ++ [nl] ++ concat (map PB' (e1 :: ps)) ++ Z.
Proof.
  intros S e1 ps Z HS.
  change (concat (map PB' (e1 :: ps))) with (PB' e1 ++ concat (map PB' ps)).
  rewrite <- !app_assoc. set (W := concat (map PB' ps) ++ Z). unfold PB', cv.
  set (Y := fst e1 ++ L ": " ++ snd e1).
  set (l := tab ++ S).
  assert (Hl : nomatch A2 l (nl :: A2 ++ Y ++ W)).
  { apply nomatch_line; [reflexivity|]. unfold A2.
    apply (nomatch_core tab (L ":cvar") (L " ")). rewrite app_nil_r. unfold l.
    change (L ":cvar") with (ch 58 :: L "cvar"). rewrite contains_skip_prefix by reflexivity.
    apply (sum_no_tok S (L ":cvar") HS). right. left. reflexivity. }
  replace (nl :: tab ++ S ++ (nl :: tab ++ L ":cvar " ++ Y) ++ W)
    with (([nl] ++ l ++ [nl]) ++ A2 ++ Y ++ W).
  2:{ unfold l, A2. cbn [app]. rewrite <- !app_assoc. cbn [app]. reflexivity. }
  rewrite replace1_skip.
  - rewrite replace1_hit. unfold l, B2. cbn [app]. rewrite <- !app_assoc. cbn [app]. reflexivity.
  - apply nomatch_app; [apply nomatch_first_char; reflexivity|].
    apply nomatch_app; [exact Hl|]. apply nomatch_first_char. reflexivity.
Qed.

Lemma nomatch_A3_blocks : forall ps y y',
    (forall e, In e ps -> entry_plain e) -> y = nl :: y' -> nomatch A3 (concat (map PB' ps)) y.
Proof.
  induction ps as [|e ps IH]; intros y y' Hp Ey; [apply nomatch_nil|].
  cbn [map concat]. destruct (Hp e (or_introl eq_refl)) as [Hn Hd].
  apply nomatch_app; [|apply (IH y y'); [intros e' He'; apply Hp; right; exact He'|exact Ey]].
  unfold PB'. apply nomatch_cons; [reflexivity|].
  apply nomatch_first_char. unfold cv. rewrite !mem_c_app, Hn, Hd. reflexivity.
Qed.

Lemma nomatch_nltab : forall a z, startswith a (nl :: tab ++ nl :: z) = false ->
    (exists a', a = nl :: a') -> nomatch a (nl :: tab) (nl :: z).
Proof.
  intros a z H [a' Ea]. apply nomatch_cons; [exact H|]. subst a. apply nomatch_first_char. reflexivity.
Qed.

Lemma TAIL_head : forall r, exists z, TAIL r = nl :: tab ++ nl :: z.
Proof. intros [d|]; unfold TAIL, RB; eexists; cbn [app]; reflexivity. Qed.

Lemma stepA3_tail : forall r, replace1 A3 B3 (TAIL r) = concat (map PB' (ret_list r)) ++ nl :: tab ++ nl :: tab.
Proof.
  intros [d|]; [|reflexivity]. unfold TAIL, RB. cbn [ret_list map concat]. rewrite app_nil_r.
  replace (nl :: tab ++ (nl :: tab ++ L ":returns: " ++ d ++ nl :: tab) ++ nl :: tab)
    with ((nl :: tab) ++ A3 ++ (L " " ++ d ++ nl :: tab ++ nl :: tab)).
  2:{ unfold A3. cbn [app]. rewrite <- !app_assoc. cbn [app]. reflexivity. }
  rewrite replace1_skip.
  - rewrite replace1_hit. unfold PB', cv, B3, rt_name. cbn [fst snd app]. rewrite <- !app_assoc. reflexivity.
  - unfold A3 at 2. cbn [app]. apply nomatch_nltab; [reflexivity|eexists; reflexivity].
Qed.

Lemma stepA3 : forall S e1 ps r, sum_fine S -> (forall e, In e (e1 :: ps) -> entry_plain e) ->
    replace1 A3 B3 (nl :: tab ++ S ++ [nl] ++ concat (map PB' (e1 :: ps)) ++ TAIL r)
    = T3 S ((e1 :: ps) ++ ret_list r) ++ nl :: tab ++ nl :: tab.
Proof.
  intros S e1 ps r HS Hp. destruct (TAIL_head r) as [z Hz].
  set (l := tab ++ S).
  assert (Hb : exists b, concat (map PB' (e1 :: ps)) = nl :: b) by (eexists; reflexivity).
  destruct Hb as [b Hb].
  replace (nl :: tab ++ S ++ [nl] ++ concat (map PB' (e1 :: ps)) ++ TAIL r)
    with (([nl] ++ l ++ [nl] ++ concat (map PB' (e1 :: ps))) ++ TAIL r).
  2:{ unfold l. cbn [app]. rewrite <- !app_assoc. cbn [app]. reflexivity. }
  rewrite replace1_skip.
  - rewrite stepA3_tail. unfold T3, l. rewrite map_app, concat_app. cbn [app]. rewrite <- !app_assoc. cbn [app].
    rewrite <- !app_assoc. reflexivity.
  - apply nomatch_app.
    { apply nomatch_cons; [|apply nomatch_nil]. unfold l, A3. cbn [app startswith]. rewrite ascii_eqb_refl. cbn [andb].
      rewrite <- !app_assoc. rewrite startswith_app_same.
      apply (sum_startswith_false S (L ":return") (L "s:")); [exact HS| |reflexivity].
      right. right. right. right. right. left. reflexivity. }
    apply nomatch_app.
    { apply nomatch_first_char. unfold l. rewrite mem_c_app. destruct HS as [_ [Hnl _]]. rewrite Hnl. reflexivity. }
    apply nomatch_app.
    { rewrite Hb. apply nomatch_cons; [reflexivity|apply nomatch_nil]. }
    apply (nomatch_A3_blocks (e1 :: ps) (TAIL r) (tab ++ nl :: z) Hp Hz).
Qed.

Lemma T3_last : forall S es el, snd el <> [] -> last_c (T3 S (es ++ [el])) = last_c (snd el).
Proof.
  intros S es el Hne.
  assert (E : T3 S (es ++ [el])
              = (nl :: tab ++ S ++ [nl] ++ concat (map PB' es) ++ nl :: tab ++ L ":cvar " ++ fst el ++ L ": ") ++ snd el).
  { unfold T3. rewrite map_app, concat_app. cbn [map concat]. rewrite app_nil_r. unfold PB' at 2. unfold cv.
    norm_app. reflexivity. }
  rewrite E. apply last_c_app_nonnil. exact Hne.
Qed.

(* emit.class_ on the text of to_docstring: entries  e1 :: ps  are parameters, r is the prose of the return entry *)
Theorem class_docstring_T1 : forall S e1 ps r,
    sum_fine S -> all_params (e1 :: ps) ->
    (forall e, In e ((e1 :: ps) ++ ret_list r) -> entry_fine e) ->
    class_docstring (T1 S ((e1 :: ps) ++ ret_list r)) = T3 S ((e1 :: ps) ++ ret_list r).
Proof.
  intros S e1 ps r HS Hps Hf. unfold class_docstring.
  change ([nl] ++ cls_sep ++ L ":param ") with A1. change ([nl] ++ cls_sep ++ L ":returns:") with A3.
  change ([nl] ++ cls_sep ++ L ":cvar ") with B2. change (cls_sep ++ L ":cvar ") with A2.
  change (L ":cvar ") with B1. change (L ":cvar return_type:") with B3.
  assert (Hplain : forall e, In e ((e1 :: ps) ++ ret_list r) -> entry_plain e).
  { intros e He. apply entry_fine_plain. apply Hf. exact He. }
  rewrite (stepA1 S _ HS Hplain).
  rewrite (blocks_split (e1 :: ps) r Hps).
  rewrite (stepA2 S e1 ps (TAIL r) HS).
  rewrite (stepA3 S e1 ps r HS).
  2:{ intros e He. apply Hplain. apply in_or_app. left. exact He. }
  change (nl :: tab ++ nl :: tab) with ((nl :: tab) ++ nl :: tab).
  rewrite rstrip_pad by reflexivity.
  unfold rstrip. apply rstrip_by_id.
  assert (Hlast : exists es el, (e1 :: ps) ++ ret_list r = es ++ [el] /\ In el ((e1 :: ps) ++ ret_list r)).
  { destruct (exists_last (l := (e1 :: ps) ++ ret_list r)) as [es [el E]]; [discriminate|].
    exists es, el. split; [exact E|]. rewrite E. apply in_or_app. right. left. reflexivity. }
  destruct Hlast as [es [el [E Hin]]]. rewrite E.
  destruct (Hf el Hin) as [_ [[c [r' [Ed Hc]]] [_ [l [Hl [Hls _]]]]]].
  intros c' Hc'.
  assert (Hl' : last_c (T3 S (es ++ [el])) = Some l).
  { rewrite T3_last; [exact Hl|]. intros E0. assert (X : c :: r' = []) by (rewrite <- Ed; exact E0). discriminate X. }
  rewrite Hl' in Hc'. injection Hc' as Hc'. subst c'. exact Hls.
Qed.

(* ================================================================== *)
(* Part D: inspect.cleandoc and the :cvar -> :param replace            *)
(* ================================================================== *)

Lemma T3_lines : forall S es,
    T3 S es = join [nl] ([] :: (tab ++ S) :: [] :: map (fun e => tab ++ cv e) es).
Proof.
  intros S es. rewrite join_nl_concat. unfold T3. cbn [map concat app]. rewrite <- app_assoc. cbn [app].
  f_equal. f_equal. f_equal. f_equal. rewrite map_map. reflexivity.
Qed.

Lemma lstrip_tab : forall x c r, x = c :: r -> isspace c = false -> lstrip (tab ++ x) = x.
Proof.
  intros x c r E Hc. rewrite (lstrip_pad tab x eq_refl). unfold lstrip. apply lstrip_by_id.
  intros c' Hc'. rewrite E in Hc'. injection Hc' as Hc'. subst c'. exact Hc.
Qed.

Lemma indent_of_tab : forall x c r, x = c :: r -> isspace c = false -> SyncProps.indent_of (tab ++ x) = Some 4.
Proof.
  intros x c r E Hc. unfold SyncProps.indent_of. rewrite (lstrip_tab x c r E Hc). subst x.
  rewrite app_length. change (List.length tab) with 4. f_equal. lia.
Qed.

Lemma min_margin_cv : forall es, SyncProps.min_margin (map (fun e => tab ++ cv e) es) (Some 4) = Some 4.
Proof.
  induction es as [|e es IH]; [reflexivity|]. cbn [map SyncProps.min_margin].
  rewrite (indent_of_tab (cv e) (ch 58) (L "cvar " ++ fst e ++ L ": " ++ snd e)); [exact IH|reflexivity|reflexivity].
Qed.

Lemma skipn_tab : forall x, skipn 4 (tab ++ x) = x.
Proof. intros x. change 4 with (List.length tab). apply skipn_app_exact. Qed.

Lemma dropwhile_last_keep : forall (p : str -> bool) (l : list str) x, p x = false ->
    rev (dropwhile p (rev (l ++ [x]))) = l ++ [x].
Proof.
  intros p l x H. rewrite rev_app_distr. cbn [rev app dropwhile]. rewrite H.
  change (x :: rev l) with ([x] ++ rev l). rewrite rev_app_distr, rev_involutive. reflexivity.
Qed.

Definition cleaned (S : str) (es : list (str * str)) : str := join [nl] (S :: [] :: map cv es).

Lemma cleandoc_T3 : forall S es,
    sum_fine S -> es <> [] -> (forall e, In e es -> entry_plain e) ->
    SyncProps.cleandoc (T3 S es) = cleaned S es.
Proof.
  intros S es HS Hne Hp. pose proof HS as [[[c [r [ES Hc]]] _] [HSnl _]].
  rewrite T3_lines. unfold SyncProps.cleandoc. rewrite split_nl_eq. rewrite split_c_join.
  2:{ discriminate. }
  2:{ constructor; [intros []|]. constructor.
      { intros Hin. apply mem_c_In in Hin. rewrite mem_c_app, HSnl in Hin. discriminate. }
      constructor; [intros []|]. apply Forall_forall. intros x Hx. apply in_map_iff in Hx.
      destruct Hx as [e [Ex He]]. subst x. destruct (Hp e He) as [Hn Hd]. intros Hin. apply mem_c_In in Hin.
      unfold cv in Hin. rewrite !mem_c_app, Hn, Hd in Hin. discriminate. }
  cbn [SyncProps.min_margin]. rewrite (indent_of_tab S c r ES Hc).
  change (SyncProps.indent_of []) with (@None nat). cbv iota. rewrite min_margin_cv.
  cbn [map]. rewrite skipn_tab. rewrite map_map.
  assert (Em : map (fun x => skipn 4 (tab ++ cv x)) es = map cv es).
  { apply map_ext. intros e. apply skipn_tab. }
  rewrite Em. change (lstrip []) with (@nil ascii). change (skipn 4 []) with (@nil ascii).
  destruct (exists_last Hne) as [es0 [el Ees]]. rewrite Ees. rewrite map_app. cbn [map].
  change ([] :: S :: [] :: map cv es0 ++ [cv el]) with (([] :: S :: [] :: map cv es0) ++ [cv el]).
  rewrite dropwhile_last_keep by reflexivity.
  cbn [app dropwhile SyncProps.is_empty]. rewrite ES. cbn [SyncProps.is_empty].
  unfold cleaned. rewrite map_app. reflexivity.
Qed.

Lemma forallb_concat_map : forall {A} (P : ascii -> bool) (f : A -> str) l,
    (forall x, In x l -> forallb P (f x) = true) -> forallb P (concat (map f l)) = true.
Proof.
  intros A P f l. induction l as [|x l IH]; intros H; [reflexivity|].
  cbn [map concat]. rewrite forallb_app. rewrite (H x (or_introl eq_refl)). cbn [andb].
  apply IH. intros y Hy. apply H. right. exact Hy.
Qed.

Lemma T3_ascii : forall S es, ascii_text S = true ->
    (forall e, In e es -> ascii_text (fst e) = true /\ ascii_text (snd e) = true) ->
    forallb SyncProps.doc_char_ok (T3 S es) = true.
Proof.
  intros S es HS He. unfold T3. cbn [forallb]. rewrite !forallb_app. unfold ascii_text in HS. rewrite HS.
  cbn [forallb andb].
  assert (Ht : forallb SyncProps.doc_char_ok tab = true) by reflexivity. rewrite Ht.
  change (SyncProps.doc_char_ok nl) with true. cbn [andb].
  apply forallb_concat_map. intros e Hin. destruct (He e Hin) as [H1 H2]. unfold ascii_text in *.
  unfold PB', cv. cbn [forallb]. rewrite !forallb_app, Ht, H1, H2. reflexivity.
Qed.

(* ---- :cvar -> :param ---- *)

Definition A4 : str := L ":cvar".
Definition B4 : str := L ":param".
Definition pm (e : str * str) : str := L ":param " ++ fst e ++ L ": " ++ snd e.

Definition entry_tok (e : str * str) : Prop :=
  mem_c colon (fst e) = false /\ no_rest_token (snd e) = true.

Lemma body_no_cvar : forall e, entry_tok e -> contains A4 (L " " ++ fst e ++ L ": " ++ snd e) = false.
Proof.
  intros e [Hn Hd].
  pose proof (key_body_token_free (fst e) (snd e) [] Hn Hd eq_refl) as H. rewrite app_nil_r in H.
  apply (proj1 (no_rest_token_spec _) H A4). right. left. reflexivity.
Qed.

Lemma nomatch_any_line : forall a l y, mem_c nl a = false -> nomatch a l [] ->
    (y = [] \/ exists z, y = nl :: z) -> nomatch a l y.
Proof.
  intros a l y Ha H [E|[z E]]; subst y; [exact H|]. apply nomatch_line; assumption.
Qed.

Lemma stepA4_blocks : forall es,
    (forall e, In e es -> entry_tok e) ->
    replace A4 B4 (concat (map (fun e => nl :: cv e) es)) = concat (map (fun e => nl :: pm e) es).
Proof.
  induction es as [|e es IH]; intros Ht; [reflexivity|].
  cbn [map concat].
  assert (HA : A4 <> []) by discriminate.
  set (rest := concat (map (fun e0 => nl :: cv e0) es)).
  assert (Hrest : rest = [] \/ exists z, rest = nl :: z).
  { unfold rest. destruct es as [|e' es']; [left; reflexivity|right; eexists; reflexivity]. }
  change ((nl :: cv e) ++ rest) with ([nl] ++ cv e ++ rest).
  rewrite (replace_skip A4 B4 [nl]); [|exact HA|apply nomatch_first_char; reflexivity].
  unfold cv at 1.
  replace ((L ":cvar " ++ fst e ++ L ": " ++ snd e) ++ rest)
    with (A4 ++ (L " " ++ fst e ++ L ": " ++ snd e) ++ rest) by (unfold A4; norm_app; reflexivity).
  rewrite replace_hit by exact HA.
  rewrite (replace_skip A4 B4 (L " " ++ fst e ++ L ": " ++ snd e)); [|exact HA|].
  2:{ apply nomatch_any_line; [reflexivity| |exact Hrest].
      apply nomatch_contains. apply body_no_cvar. apply Ht. left. reflexivity. }
  unfold rest. rewrite IH by (intros e' He'; apply Ht; right; exact He').
  unfold pm, B4. norm_app. reflexivity.
Qed.

Definition parsed_text (S : str) (es : list (str * str)) : str :=
  S ++ [nl] ++ concat (map (fun e => nl :: pm e) es).

Lemma stepA4 : forall S es, sum_fine S -> (forall e, In e es -> entry_tok e) ->
    replace A4 B4 (cleaned S es) = parsed_text S es.
Proof.
  intros S es HS Ht. unfold cleaned. rewrite join_nl_concat. cbn [map concat]. rewrite map_map.
  assert (HA : A4 <> []) by discriminate.
  rewrite (replace_skip A4 B4 S); [|exact HA|].
  2:{ change ([] ++ concat (map (fun x => nl :: cv x) es)) with (concat (map (fun x => nl :: cv x) es)).
      cbn [app]. apply nomatch_line; [reflexivity|]. apply nomatch_contains.
      apply (sum_no_tok S A4 HS). right. left. reflexivity. }
  change ((nl :: []) ++ concat (map (fun x => nl :: cv x) es)) with ([nl] ++ concat (map (fun x => nl :: cv x) es)).
  rewrite (replace_skip A4 B4 [nl]); [|exact HA|apply nomatch_first_char; reflexivity].
  rewrite (stepA4_blocks es Ht). reflexivity.
Qed.

(* ================================================================== *)
(* Part E: the parser on that text                                     *)
(* ================================================================== *)

Fixpoint dblocks (es : list (str * str)) : list (str * str) :=
  match es with
  | [] => []
  | e :: r => dblock (fst e) (snd e) (match r with [] => [] | _ => [nl] end) :: dblocks r
  end.

Lemma pm_blk : forall e ws, pm e ++ ws = blk (dblock (fst e) (snd e) ws).
Proof. intros e ws. unfold pm, blk, dblock. cbn [fst snd]. norm_app. reflexivity. Qed.

Lemma parsed_blocks : forall es, es <> [] ->
    concat (map (fun e => nl :: pm e) es) = nl :: concat (map blk (dblocks es)).
Proof.
  induction es as [|e es IH]; intros Hne; [contradiction|].
  destruct es as [|e2 es].
  - cbn [map concat dblocks]. rewrite <- pm_blk. rewrite !app_nil_r. reflexivity.
  - change (concat (map (fun e0 => nl :: pm e0) (e :: e2 :: es)))
      with ((nl :: pm e) ++ concat (map (fun e0 => nl :: pm e0) (e2 :: es))).
    change (concat (map blk (dblocks (e :: e2 :: es))))
      with (blk (dblock (fst e) (snd e) [nl]) ++ concat (map blk (dblocks (e2 :: es)))).
    rewrite IH by discriminate. rewrite <- pm_blk. norm_app. reflexivity.
Qed.

Lemma parsed_text_form : forall S es, es <> [] ->
    parsed_text S es = (S ++ [nl; nl]) ++ concat (map blk (dblocks es)).
Proof. intros S es Hne. unfold parsed_text. rewrite (parsed_blocks es Hne). norm_app. reflexivity. Qed.

(* the generic tail of the ReST parse: a summary part and entries, no return block
   (the proof of DocParseFacts.C01_rest_partial_lemma, for arbitrary entries) *)
Lemma parse_entries : forall docpart sdoc ents,
    no_rest_token docpart = true -> strip docpart = sdoc -> docpart <> [] -> ents <> [] ->
    (forall e, In e ents -> entry_ok true false e) -> NoDup (map e_name ents) ->
    DocParse.parse_dot_docstring DocParse.ng_unmodelled (docpart ++ concat (map blk (all_blocks ents))) false true false
    = Ok (DocParse.ir_of_parts sdoc (map (fun e => (e_name e, e_fin e)) ents) None).
Proof.
  intros docpart sdoc ents Hdoctok Hdocstrip Hdne Hne Hoks Hnd.
  set (blocks := all_blocks ents).
  assert (Hblocks_good : forall b, In b blocks -> block_good b).
  { intros b Hb. unfold blocks, all_blocks in Hb. apply in_concat in Hb.
    destruct Hb as [bl [Hbl Hb]]. apply in_map_iff in Hbl. destruct Hbl as [e [Ee He]]. subst bl.
    destruct (Hoks e He) as [_ [_ [Hg _]]]. apply Hg. exact Hb. }
  destruct ents as [|e1 es1]; [contradiction|].
  assert (Hblocks_ne : exists b0, In b0 blocks).
  { destruct (Hoks e1) as [_ [_ [_ Hne1]]]; [left; reflexivity|].
    destruct (e_blocks e1) as [|b0 bl] eqn:Eb; [contradiction|].
    exists b0. unfold blocks, all_blocks. cbn [map concat]. rewrite Eb. left. reflexivity. }
  assert (Hscan : DocParse.scan_rest (docpart ++ concat (map blk blocks)) = (false, docpart) :: map as_line blocks).
  { apply scan_rest_blocks; [exact Hdoctok|exact Hblocks_good|].
    left. destruct Hblocks_ne as [b0 Hb0]. intros E. rewrite E in Hb0. destruct Hb0. }
  assert (Hphase : exists cur', DocParse.parse_phase_rest ((false, docpart) :: map as_line blocks) false true true false
                   = Ok (DocParse.mkRS sdoc (map (fun e => (e_name e, e_mid e)) (e1 :: es1)) None cur')).
  { unfold DocParse.parse_phase_rest. cbn [DocParse.fold_outcome]. unfold DocParse.parse_rest_line at 1.
    cbn [DocParse.init_rstate DocParse.rs_doc].
    rewrite Hdocstrip. unfold DocParse.init_rstate.
    cbn [bind DocParse.rs_params DocParse.rs_returns DocParse.rs_cur DocParse.rs_doc].
    unfold blocks. rewrite <- all_lines_blocks. fold (step true false).
    rewrite (run_entries true false (e1 :: es1) sdoc [] None (None, DocParse.empty_param) Hoks).
    2:{ cbn [names_ok]. split; [reflexivity|].
        apply (names_ok_of_nodup true false).
        - intros e He. apply Hoks. right. exact He.
        - destruct (Hoks e1) as [[_ Hb] _]; [left; reflexivity|exact Hb].
        - exact Hnd. }
    cbn [bind DocParse.rs_doc DocParse.rs_params DocParse.rs_returns DocParse.rs_cur].
    cbn [run_spec]. change (flushed [] (None, DocParse.empty_param)) with (@nil (str * param)).
    destruct (final_params es1 [] (e_name e1) (e_mid e1)) as [nl' [pl [H1 [H2 H3]]]].
    { cbn [map app]. exact Hnd. }
    rewrite H1. cbn [fst snd].
    assert (Hlast : exists e, In e (e1 :: es1) /\ nl' = e_name e /\ pl = e_mid e).
    { destruct H3 as [[E1 [E2 E3]]|[e [He [E2 E3]]]].
      - exists e1. split; [left; reflexivity|]. split; assumption.
      - exists e. split; [right; exact He|]. split; assumption. }
    destruct Hlast as [el [Hel [Enl Epl]]]. subst nl' pl.
    destruct (Hoks el Hel) as [_ [[_ [[mi [HI HS]] _]] _]].
    rewrite HI. cbn [bind]. rewrite HS. cbn [bind fst snd]. unfold DocParse.maybe_remove. rewrite andb_false_r. cbn [bind].
    rewrite H2. eexists. reflexivity. }
  destruct Hphase as [cur' Hphase].
  assert (Hparse : DocParse.parse_rest (docpart ++ concat (map blk blocks)) false true true false
                   = Ok (DocParse.ir_of_parts sdoc (map (fun e => (e_name e, e_fin e)) (e1 :: es1)) None)).
  { unfold DocParse.parse_rest. rewrite Hscan, Hphase.
    cbn [bind DocParse.rs_params DocParse.rs_returns DocParse.rs_doc].
    rewrite (map_params_entries false (e1 :: es1)).
    2:{ intros e He. destruct (Hoks e He) as [_ [[_ [_ H]] _]]. exact H. }
    cbn [bind DocParse.map_returns DocParse.post_remove fst snd]. reflexivity. }
  assert (Hstyle : DocParse.detect_style (Some (docpart ++ concat (map blk blocks))) = DocParse.Rest).
  { destruct Hblocks_ne as [b0 Hb0].
    apply (detect_style_rest _ (fst b0)).
    - rewrite <- rest_scan_tokens_eq. apply (Hblocks_good b0 Hb0).
    - apply contains_block_token. exact Hb0. }
  rewrite parse_dot_rest; [exact Hparse| |exact Hstyle].
  intros E. apply app_eq_nil in E. destruct E as [E _]. contradiction.
Qed.

(* ================================================================== *)
(* Part F: the link                                                    *)
(* ================================================================== *)

(* ---- reading one entry back ---- *)

(* e = (name, prose as written); d = the prose the parser stores *)
Definition reads (e : str * str) (d : str) : Prop :=
  good_name (fst e) /\ no_rest_token (snd e) = true /\
  forall ws, forallb isspace ws = true ->
    exists mid fin, entry_spec true false (fst e) [dline (fst e) (snd e) ws] mid fin /\ p_doc fin = Has d.

Lemma reads_plain : forall n d, good_name n -> prose_facts d -> no_rest_token d = true -> reads (n, d) d.
Proof.
  intros n d Hn Hd Ht. split; [exact Hn|]. split; [exact Ht|]. intros ws Hws. cbn [fst snd].
  destruct (IS_nodefault true false n (Some d) None (proj1 (proj2 Hn))) as [HI HS].
  { intros d' E. injection E as E. subst d'. exact Hd. }
  { intros t' E. discriminate. }
  exists (mkParam (Has d) Missing None), (mkParam (Has d) Missing None). split; [|reflexivity].
  split; [|split].
  - intros sdoc done rets cur Hcur. cbn [DocParse.fold_outcome].
    rewrite (run_doc_line_nodefault true false n d ws sdoc done rets cur Hn Hcur Hd Hws). reflexivity.
  - eexists. split; [exact HI|exact HS].
  - exact HI.
Qed.

Lemma build_entries : forall es ds, Forall2 reads es ds ->
    exists ents, map e_name ents = map fst es /\ all_blocks ents = dblocks es
                 /\ (forall e, In e ents -> entry_ok true false e)
                 /\ map (fun e => p_doc (e_fin e)) ents = map (@Has str) ds.
Proof.
  intros es ds H. induction H as [|e d es ds Hr _ [ents [IH1 [IH2 [IH3 IH4]]]]].
  - exists []. split; [reflexivity|]. split; [reflexivity|]. split; [intros e []|reflexivity].
  - destruct Hr as [Hn [Ht Hspec]].
    set (ws := match es with [] => [] | _ :: _ => [nl] end).
    assert (Hws : forallb isspace ws = true) by (unfold ws; destruct es; reflexivity).
    destruct (Hspec ws Hws) as [mid [fin [Hsp Hfin]]].
    exists (mkE (fst e) [dblock (fst e) (snd e) ws] mid fin :: ents).
    split; [cbn [map e_name]; rewrite IH1; reflexivity|].
    split.
    { unfold all_blocks in *. cbn [map concat e_blocks app]. rewrite IH2. reflexivity. }
    split; [|cbn [map e_fin]; rewrite IH4, Hfin; reflexivity].
    intros e' [E|He']; [|apply IH3; exact He']. subst e'.
    split; [cbn [e_name]; apply good_name_basic; exact Hn|].
    split; [exact Hsp|]. split; [|discriminate].
    intros b [Eb|[]]. subst b. apply dblock_good; [apply Hn|exact Ht|exact Hws].
Qed.

(* ---- the entries of an IR ---- *)

Inductive link (w : nat) (ww edd : bool)
  : list (str * gparam) -> list (str * param) -> list (str * str) -> list str -> Prop :=
| lk_nil : link w ww edd [] [] [] []
| lk_doc : forall n g c r v d' p' gps ps es ds,
    g_doc g = Has (c :: r) -> param_of_gparam g = Some (mkParam (Has (c :: r)) (g_typ g) v) ->
    no_announce (c :: r) = true ->
    DocEmit.sdd_doc n (mkParam (Has (c :: r)) (g_typ g) v) edd = Ok (d', p') ->
    wfine d' -> mem_c nl n = false -> wrap_fine w ww (DocEmit.rest_doc_line n d') ->
    reads (n, d') (c :: r) -> ascii_text n = true -> ascii_text d' = true ->
    link w ww edd gps ps es ds ->
    link w ww edd ((n, g) :: gps) ((n, mkParam (Has (c :: r)) (g_typ g) v) :: ps) ((n, d') :: es) ((c :: r) :: ds)
| lk_undoc : forall n g p gps ps es ds,
    prose_of g = None -> param_of_gparam g = Some p ->
    link w ww edd gps ps es ds -> link w ww edd ((n, g) :: gps) ((n, p) :: ps) es ds.

Lemma link_app : forall w ww edd g1 p1 e1 d1 g2 p2 e2 d2,
    link w ww edd g1 p1 e1 d1 -> link w ww edd g2 p2 e2 d2 ->
    link w ww edd (g1 ++ g2) (p1 ++ p2) (e1 ++ e2) (d1 ++ d2).
Proof.
  intros w ww edd g1 p1 e1 d1 g2 p2 e2 d2 H H2.
  induction H as [|n g c r v d' p' gps ps es ds Hdoc Hpar Hno Hsdd Hwf Hnl Hwr Hrd Han Had Hlk IH
                  |n g p gps ps es ds Hpr Hpar Hlk IH]; cbn [app].
  - exact H2.
  - eapply lk_doc; eassumption.
  - eapply lk_undoc; eassumption.
Qed.

Lemma link_params_of : forall w ww edd gps ps es ds, link w ww edd gps ps es ds -> DocEmit.params_of gps = Some ps.
Proof.
  intros w ww edd gps ps es ds H. induction H as [|n g c r v d' p' gps ps es ds Hdoc Hpar Hno Hsdd Hwf Hnl Hwr Hrd Han Had Hlk IH|n g p gps ps es ds Hpr Hpar Hlk IH]; [reflexivity| |].
  - cbn [DocEmit.params_of]. rewrite Hpar, IH. reflexivity.
  - cbn [DocEmit.params_of]. rewrite Hpar, IH. reflexivity.
Qed.

Lemma param_of_gparam_doc : forall g p, param_of_gparam g = Some p -> p_doc p = g_doc g.
Proof.
  intros g p H. unfold param_of_gparam in H. destruct (g_default g) as [[v|e|o]|]; try discriminate;
    injection H as H; subst p; reflexivity.
Qed.

Lemma link_emits : forall w ww edd gps ps es ds, link w ww edd gps ps es ds -> emits w ww edd ps es.
Proof.
  intros w ww edd gps ps es ds H. induction H as [|n g c r v d' p' gps ps es ds Hdoc Hpar Hno Hsdd Hwf Hnl Hwr Hrd Han Had Hlk IH|n g p gps ps es ds Hpr Hpar Hlk IH].
  - constructor.
  - eapply em_doc; eassumption.
  - apply em_undoc; [|exact IH].
    rewrite (param_of_gparam_doc g p Hpar). unfold prose_of in Hpr. unfold DocEmit.truthy_fld.
    destruct (g_doc g) as [| |[|c r]]; try reflexivity. discriminate.
Qed.

Lemma link_reads : forall w ww edd gps ps es ds, link w ww edd gps ps es ds -> Forall2 reads es ds.
Proof. intros w ww edd gps ps es ds H. induction H as [|n g c r v d' p' gps ps es ds Hdoc Hpar Hno Hsdd Hwf Hnl Hwr Hrd Han Had Hlk IH|n g p gps ps es ds Hpr Hpar Hlk IH]; [constructor|constructor; assumption|assumption]. Qed.

Lemma link_entries : forall w ww edd gps ps es ds, link w ww edd gps ps es ds ->
    forall e, In e es -> entry_fine e /\ entry_tok e /\ ascii_text (fst e) = true /\ ascii_text (snd e) = true
                         /\ In (fst e) (map fst gps).
Proof.
  intros w ww edd gps ps es ds H. induction H as [|n g c r v d' p' gps ps es ds Hdoc Hpar Hno Hsdd Hwf Hnl Hwr Hrd Han Had Hlk IH|n g p gps ps es ds Hpr Hpar Hlk IH]; intros e He.
  - destruct He.
  - destruct He as [E|He].
    + subst e. cbn [fst snd map]. destruct Hrd as [[Hc _] [Ht _]]. cbn [fst snd] in *.
      split; [split; assumption|]. split; [split; assumption|]. split; [assumption|]. split; [assumption|].
      left. reflexivity.
    + destruct (IH e He) as [A [B [C [D E]]]].
      split; [exact A|]. split; [exact B|]. split; [exact C|]. split; [exact D|]. right. exact E.
  - destruct (IH e He) as [A [B [C [D E]]]].
    split; [exact A|]. split; [exact B|]. split; [exact C|]. split; [exact D|]. right. exact E.
Qed.

Lemma link_names : forall w ww edd gps ps es ds, link w ww edd gps ps es ds ->
    map fst es = map fst (filter documented gps) /\ List.length ds = List.length es.
Proof.
  intros w ww edd gps ps es ds H. induction H as [|n g c r v d' p' gps ps es ds Hdoc Hpar Hno Hsdd Hwf Hnl Hwr Hrd Han Had Hlk IH|n g p gps ps es ds Hpr Hpar Hlk IH].
  - split; reflexivity.
  - destruct IH as [I1 I2]. cbn [filter]. unfold documented at 1, prose_of. cbn [snd]. rewrite Hdoc.
    cbn [map fst List.length]. rewrite I1, I2. split; reflexivity.
  - destruct IH as [I1 I2]. cbn [filter]. unfold documented at 1. cbn [snd]. rewrite Hpr. split; assumption.
Qed.

Lemma link_agrees : forall w ww edd gps ps es ds, link w ww edd gps ps es ds ->
    forall X, map fst X = map fst es -> map (fun kv => g_doc (snd kv)) X = map (@Has str) ds ->
    same_params C02Spec.same_prose (filter documented gps) X = true.
Proof.
  intros w ww edd gps ps es ds H. induction H as [|n g c r v d' p' gps ps es ds Hdoc Hpar Hno Hsdd Hwf Hnl Hwr Hrd Han Had Hlk IH|n g p gps ps es ds Hpr Hpar Hlk IH]; intros X HX1 HX2.
  - destruct X; [reflexivity|discriminate].
  - cbn [filter]. unfold documented at 1, prose_of. cbn [snd]. rewrite Hdoc.
    destruct X as [|[n' g'] X]; [discriminate|]. cbn [map fst snd] in HX1, HX2.
    injection HX1 as Hn HX1. injection HX2 as Hg HX2. subst n'.
    cbn [same_params]. rewrite str_eqb_refl. cbn [andb].
    unfold C02Spec.same_prose, prose_of. rewrite Hdoc, Hg. cbn [opt_str_eqb]. rewrite str_eqb_refl. cbn [andb].
    apply IH; assumption.
  - cbn [filter]. unfold documented at 1. cbn [snd]. rewrite Hpr. apply IH; assumption.
Qed.

Lemma NoDup_map_filter : forall {A} (f : str * A -> bool) (l : list (str * A)),
    NoDup (map fst l) -> NoDup (map fst (filter f l)).
Proof.
  intros A f l. induction l as [|x l IH]; intros H; [constructor|].
  cbn [map] in H. inversion H as [|y l' Hnotin Hnd]; subst.
  cbn [filter]. destruct (f x); [|apply IH; exact Hnd].
  cbn [map]. constructor; [|apply IH; exact Hnd].
  intros Hin. apply Hnotin. apply in_map_iff in Hin. destruct Hin as [z [Ez Hz]].
  apply filter_In in Hz. destruct Hz as [Hz _]. apply in_map_iff. exists z. split; assumption.
Qed.

Lemma NoDup_snoc : forall (l : list str) x, NoDup l -> ~ In x l -> NoDup (l ++ [x]).
Proof.
  induction l as [|y l IH]; intros x Hnd Hx; cbn [app].
  - constructor; [intros []|constructor].
  - inversion Hnd as [|y' l' Hy Hl]; subst. constructor.
    + intros Hin. apply in_app_or in Hin. destruct Hin as [Hin|[E|[]]]; [contradiction|].
      subst. apply Hx. left. reflexivity.
    + apply IH; [exact Hl|]. intros Hi. apply Hx. right. exact Hi.
Qed.

Lemma link_ret_shape : forall w ww edd i ps es ds,
    link w ww edd (C02Compose.ret_entry i) ps es ds -> exists r, es = ret_list r.
Proof.
  intros w ww edd i ps es ds H. unfold C02Compose.ret_entry in H.
  destruct (ir_returns i) as [| |g].
  - inversion H; subst. exists None. reflexivity.
  - inversion H; subst. exists None. reflexivity.
  - inversion H as [|n g' c r v d' p' gps ps' es' ds' Hdoc Hpar Hno Hsdd Hwf Hnl Hwr Hrd Han Had Hlk
                    |n g' p gps ps' es' ds' Hpr Hpar Hlk]; subst.
    + inversion Hlk; subst. exists (Some d'). reflexivity.
    + inversion Hlk; subst. exists None. reflexivity.
Qed.

Theorem link_doc_agrees : forall w ww edd i S ps_p es_p ds_p ps_r es_r ds_r,
    ir_doc i = Has S -> sum_fine S -> ascii_text S = true -> wrap_fine w ww S ->
    C02_domain i = true ->
    link w ww edd (ir_params i) ps_p es_p ds_p -> es_p <> [] ->
    link w ww edd (C02Compose.ret_entry i) ps_r es_r ds_r ->
    exists text d, class_docstring_text w edd ww i = Ok text /\ class_docstring_ir text = Ok d
                   /\ doc_agrees i d = true.
Proof.
  intros w ww edd i S ps_p es_p ds_p ps_r es_r ds_r Hdoc HS HSa HSw Hdom Hlp Hne Hlr.
  destruct (C02Compose.C02_domain_facts i Hdom) as [Hnd [Hnr _]].
  pose proof (C02Compose.fold_returns_params i Hnr) as Hfold.
  pose proof (link_app _ _ _ _ _ _ _ _ _ _ _ Hlp Hlr) as Hl.
  destruct (link_ret_shape _ _ _ _ _ _ _ Hlr) as [r Er].
  set (gps := ir_params i ++ C02Compose.ret_entry i) in *.
  set (es := es_p ++ es_r) in *. set (ds := ds_p ++ ds_r) in *.
  assert (Hes_ne : es <> []).
  { unfold es. destruct es_p; [contradiction|discriminate]. }
  (* the emitter *)
  assert (Hi2doc : ir_doc (class_fold_returns i) = Has S).
  { unfold class_fold_returns. destruct (ir_returns i); exact Hdoc. }
  assert (Hi2ret : forall g, ir_returns (class_fold_returns i) <> Has g).
  { intros g. unfold class_fold_returns. destruct (ir_returns i) eqn:E; cbn [ir_returns]; try rewrite E; discriminate. }
  assert (Htext : class_docstring_text w edd ww i = Ok (T1 S es)).
  { unfold class_docstring_text.
    rewrite (to_docstring_T1 w ww edd (class_fold_returns i) S (ps_p ++ ps_r) es Hi2doc (proj1 HS) (proj1 (proj2 HS)) HSw).
    - reflexivity.
    - rewrite Hfold. apply (link_params_of _ _ _ _ _ _ _ Hl).
    - exact Hi2ret.
    - apply (link_emits _ _ _ _ _ _ _ Hl).
    - exact Hes_ne. }
  exists (T1 S es).
  (* facts about the entries *)
  pose proof (link_entries _ _ _ _ _ _ _ Hl) as Hent.
  assert (Hall : all_params es_p).
  { intros e He. destruct (link_entries _ _ _ _ _ _ _ Hlp e He) as [_ [_ [_ [_ Hin]]]].
    unfold DocEmit.is_return. apply str_eqb_neq. intros E. apply Hnr.
    change return_type_key with (L "return_type"). rewrite <- E. exact Hin. }
  assert (Hfine : forall e, In e es -> entry_fine e) by (intros e He; apply (Hent e He)).
  assert (Hplain : forall e, In e es -> entry_plain e) by (intros e He; apply entry_fine_plain; apply Hfine; exact He).
  assert (Htok : forall e, In e es -> entry_tok e) by (intros e He; apply (Hent e He)).
  (* emit.class_ and get_docstring *)
  assert (Hcd : class_docstring (T1 S es) = T3 S es).
  { unfold es. rewrite Er. destruct es_p as [|e1 ps']; [contradiction|].
    apply class_docstring_T1; [exact HS|exact Hall|]. rewrite <- Er. exact Hfine. }
  assert (Hget : class_get_docstring (T1 S es) = Ok (cleaned S es)).
  { unfold class_get_docstring. rewrite Hcd. rewrite T3_ascii; [|exact HSa|].
    - rewrite (cleandoc_T3 S es HS Hes_ne Hplain). reflexivity.
    - intros e He. destruct (Hent e He) as [_ [_ [A [B _]]]]. split; assumption. }
  (* the parser *)
  destruct (build_entries es ds (link_reads _ _ _ _ _ _ _ Hl)) as [ents [Hnames [Hblocks [Hoks Hdocs]]]].
  assert (Hents_ne : ents <> []).
  { intros E. subst ents. cbn [map] in Hnames. destruct es; [contradiction|discriminate]. }
  destruct (link_names _ _ _ _ _ _ _ Hl) as [Hn1 Hn2].
  assert (Hndup : NoDup (map e_name ents)).
  { rewrite Hnames, Hn1. apply NoDup_map_filter. unfold gps. rewrite map_app.
    unfold C02Compose.ret_entry. destruct (ir_returns i); cbn [map]; try (rewrite app_nil_r; exact Hnd).
    cbn [fst]. apply NoDup_snoc; assumption. }
  pose proof HS as [He [HSnl HStok]].
  assert (Hparse : class_docstring_ir (T1 S es)
                   = Ok (DocParse.ir_of_parts S (map (fun e => (e_name e, e_fin e)) ents) None)).
  { unfold class_docstring_ir. rewrite Hget. cbn [bind].
    change (L ":cvar") with A4. change (L ":param") with B4.
    rewrite (stepA4 S es HS Htok). rewrite (parsed_text_form S es Hes_ne). rewrite <- Hblocks.
    apply parse_entries.
    - apply no_rest_token_ws; [exact HStok|reflexivity].
    - change (S ++ [nl; nl]) with ([] ++ S ++ [nl; nl]). apply strip_pad; [reflexivity|reflexivity|exact He].
    - destruct He as [[c [r' [E _]]] _]. rewrite E. discriminate.
    - exact Hents_ne.
    - exact Hoks.
    - exact Hndup. }
  eexists. split; [exact Htext|]. split; [exact Hparse|].
  unfold doc_agrees. rewrite Hfold. fold gps.
  unfold DocParse.ir_of_parts. cbn [ir_params ir_returns]. rewrite andb_true_r.
  apply (link_agrees _ _ _ _ _ _ _ Hl).
  - rewrite !map_map. cbn [fst]. exact Hnames.
  - rewrite !map_map. cbn [snd gparam_of_param g_doc]. exact Hdocs.
Qed.

(* ---- from the boolean side condition to the relation ---- *)

Lemma line_ok_facts : forall d, link_line_ok d = true ->
    (exists c r, d = c :: r) /\ edge_ok d /\ mem_c nl d = false /\ ascii_text d = true
    /\ no_rest_token d = true /\ no_announce d = true.
Proof.
  intros d H. unfold link_line_ok in H.
  apply andb_true_iff in H. destruct H as [H Hann]. apply andb_true_iff in H. destruct H as [H Htok].
  apply andb_true_iff in H. destruct H as [H Hasc]. apply andb_true_iff in H. destruct H as [Hne Hcl].
  unfold clean_line in Hcl. apply andb_true_iff in Hcl. destruct Hcl as [Hst Hnl].
  apply str_eqb_eq in Hst. apply negb_true_iff in Hnl.
  destruct d as [|c r]; [discriminate|].
  split; [exists c, r; reflexivity|]. split; [apply strip_fix_edge_ok; [discriminate|exact Hst]|].
  repeat split; assumption.
Qed.

Lemma name_ok_facts : forall n, link_name_ok n = true ->
    ascii_text n = true /\ mem_c nl n = false /\ good_name n.
Proof.
  intros n H. unfold link_name_ok in H.
  apply andb_true_iff in H. destruct H as [H Hkw]. apply andb_true_iff in H. destruct H as [H Hstar].
  apply andb_true_iff in H. destruct H as [H Hnl]. apply andb_true_iff in H. destruct H as [Hasc Hcol].
  apply negb_true_iff in Hkw. apply negb_true_iff in Hnl. apply negb_true_iff in Hcol.
  destruct n as [|c r]; [discriminate|]. apply negb_true_iff in Hstar. apply ascii_eqb_neq in Hstar.
  split; [exact Hasc|]. split; [exact Hnl|]. split; [exact Hcol|]. split.
  - split; [exact Hkw|]. change (L "**") with [ch 42; ch 42]. cbn [startswith].
    assert (E : ascii_eqb (ch 42) c = false) by (apply ascii_eqb_neq; intros E; apply Hstar; symmetry; exact E).
    rewrite E. reflexivity.
  - exists c, r. split; [reflexivity|exact Hstar].
Qed.

Lemma wfine_of : forall d, edge_ok d -> mem_c nl d = false -> no_trailing_bslash d = true -> wfine d.
Proof.
  intros d [[c [r [E Hc]]] [l [Hl Hls]]] Hnl Hb. split; [exists c, r; split; assumption|]. split; [exact Hnl|].
  exists l. split; [exact Hl|]. split; [exact Hls|]. unfold no_trailing_bslash in Hb. rewrite Hl in Hb.
  apply negb_true_iff in Hb. apply ascii_eqb_neq in Hb. exact Hb.
Qed.

Lemma wrap_fine_of : forall w ww s, nowrap_ok w ww s = true -> wrap_fine w ww s.
Proof.
  intros w ww s H Hww. subst ww. unfold nowrap_ok in H. cbn [negb orb] in H.
  apply andb_true_iff in H. destruct H as [H1 H2]. apply Nat.ltb_lt in H2. split; assumption.
Qed.

Lemma prose_of_Some : forall g d, prose_of g = Some d -> exists c r, d = c :: r /\ g_doc g = Has (c :: r).
Proof.
  intros g d H. unfold prose_of in H. destruct (g_doc g) as [| |[|c r]]; try discriminate.
  injection H as H. subst d. exists c, r. split; reflexivity.
Qed.

Lemma param_of_gparam_shape : forall g p, param_of_gparam g = Some p ->
    exists v, p = mkParam (g_doc g) (g_typ g) v
              /\ (g_default g = None /\ v = None \/ exists x, g_default g = Some (DV x) /\ v = Some x).
Proof.
  intros g p H. unfold param_of_gparam in H. destruct (g_default g) as [[x|e|o]|]; try discriminate;
    injection H as H; subst p; eexists; (split; [reflexivity|]).
  - right. exists x. split; reflexivity.
  - left. split; reflexivity.
Qed.

Lemma reads_sentence : forall n d s v typ v1 typ1 w1,
    good_name n -> prose_facts d -> no_rest_token d = true ->
    guard_C17 ADefaultsTo d v typ = true -> shown_value v typ = Ok s -> value_text_clean s = true ->
    coerce_default None s = Ok v1 -> infer_res Missing (unquote_val v1) = Ok (typ1, w1) ->
    settled typ1 w1 = true ->
    reads (n, sentence d s) d.
Proof.
  intros n d s v typ v1 typ1 w1 Hn Hd Ht Hg Hs Hclean Hv1 Hr1 Hset.
  split; [exact Hn|]. split; [apply (sentence_fine d s (proj1 Hd) Hclean Ht)|].
  intros ws Hws. cbn [fst snd].
  set (mid := mkParam (Has d) typ1 (Some w1)).
  assert (HI : DocParse.interpolate_defaults mid default_announces false false = Ok mid).
  { unfold mid. apply I_noannounce. apply Hd. }
  exists mid, mid. split; [|reflexivity]. split; [|split].
  - intros sdoc done rets cur Hcur. cbn [DocParse.fold_outcome].
    rewrite (run_doc_line_default true false n d s v typ Hn Hd Ht Hg Hs Hclean v1 typ1 w1 ws sdoc done rets cur
               Hv1 Hr1 Hcur Hws). reflexivity.
  - exists mid. split; [exact HI|].
    apply S_plain; [apply Hn| |apply (infer_res_missing_fine _ _ _ Hr1)|apply Hd].
    unfold mid. cbn [p_default]. apply infer_default_of_res. apply settled_inv. exact Hset.
  - exact HI.
Qed.

Lemma ascii_text_app : forall a b, ascii_text a = true -> ascii_text b = true -> ascii_text (a ++ b) = true.
Proof. intros a b Ha Hb. unfold ascii_text in *. rewrite forallb_app, Ha, Hb. reflexivity. Qed.

(* one entry of the (folded) parameter list *)
Lemma link_one : forall w ww edd n g t gps ps es ds,
    g_typ g = Has t -> (exists p, param_of_gparam g = Some p) ->
    link_entry_ok edd (n, g) = true -> entry_nowrap w edd ww (n, g) = true ->
    link w ww edd gps ps es ds ->
    exists ps' es' ds', link w ww edd ((n, g) :: gps) ps' es' ds'.
Proof.
  intros w ww edd n g t gps ps es ds Htyp [p Hpar] Hok Hnw Hl.
  destruct (prose_of g) as [d|] eqn:Epr.
  2:{ eexists. eexists. eexists. eapply lk_undoc; eassumption. }
  destruct (prose_of_Some g d Epr) as [c [r [Ed Hdoc]]].
  destruct (param_of_gparam_shape g p Hpar) as [v [Ep Hv]]. rewrite Hdoc in Ep.
  unfold link_entry_ok in Hok. cbn [fst snd] in Hok. rewrite Epr in Hok.
  apply andb_true_iff in Hok. destruct Hok as [Hok Hdef]. apply andb_true_iff in Hok. destruct Hok as [Hok Hopt].
  apply andb_true_iff in Hok. destruct Hok as [Hok Hname]. apply andb_true_iff in Hok. destruct Hok as [Hline Hbs].
  apply negb_true_iff in Hopt.
  destruct (line_ok_facts d Hline) as [_ [Hedge [Hnl [Hasc [Htok Hann]]]]].
  destruct (name_ok_facts n Hname) as [Hnasc [Hnnl Hgn]].
  assert (Hdf : doc_fine d).
  { split; [rewrite Ed; discriminate|]. split; [exact Hnl|]. split; [exact Hedge|exact Hopt]. }
  assert (Hpf : prose_facts d) by (split; assumption).
  rewrite Ed in *.
  (* what the emitter writes *)
  assert (Hcases : (DocEmit.sdd_doc n p edd = Ok (c :: r, p))
                   \/ (edd = true /\ exists x, g_default g = Some (DV x) /\ v = Some x)).
  { destruct edd.
    - destruct Hv as [[Hg0 Hv0]|[x [Hgx Hvx]]].
      + left. unfold DocEmit.sdd_doc. rewrite (set_default_doc_no_default n p).
        * cbn [bind]. rewrite Ep. reflexivity.
        * rewrite Ep, Hv0. reflexivity.
        * rewrite Ep. discriminate.
      + right. split; [reflexivity|]. exists x. split; assumption.
    - left. unfold DocEmit.sdd_doc. rewrite (set_default_doc_no_announce n p (c :: r)).
      + cbn [bind]. rewrite Ep. reflexivity.
      + rewrite Ep. reflexivity.
      + exact Hann. }
  destruct Hcases as [Hsdd|[Eedd [x [Hgx Hvx]]]].
  - (* the prose as it is *)
    assert (Hwr : wrap_fine w ww (DocEmit.rest_doc_line n (c :: r))).
    { intros Eww. subst ww. unfold entry_nowrap in Hnw. cbn [negb orb fst snd] in Hnw.
      rewrite Epr, Hpar, Hsdd in Hnw. apply (wrap_fine_of w true _ Hnw). reflexivity. }
    rewrite Ep in Hpar, Hsdd.
    eexists. eexists. eexists.
    eapply (lk_doc w ww edd n g c r v (c :: r)); try eassumption.
    + apply wfine_of; assumption.
    + apply reads_plain; assumption.
  - (* the prose with the default sentence *)
    subst edd v. rewrite Hgx in Hdef. rewrite Htyp in Hdef. cbn [fget] in Hdef.
    unfold sentence_ok in Hdef. apply andb_true_iff in Hdef. destruct Hdef as [Hg17 Hdef].
    destruct (shown_value x (Some t)) as [s|] eqn:Es; [|discriminate].
    apply andb_true_iff in Hdef. destruct Hdef as [Hdef Hjour]. apply andb_true_iff in Hdef. destruct Hdef as [Hdef Hsb].
    apply andb_true_iff in Hdef. destruct Hdef as [Hclean Hsasc].
    destruct (coerce_default None s) as [v1|] eqn:Ev1; [|discriminate].
    destruct (infer_res Missing (unquote_val v1)) as [[typ1 w1]|] eqn:Er1; [|discriminate].
    assert (Hkw : endswith (L "kwargs") n = false) by apply Hgn.
    destruct (sentence_written n (c :: r) x (Some t) s Hg17 Es Hkw) as [v' Hsw].
    cbn [C17Spec.fld_of_opt] in Hsw.
    assert (Ep' : p = mkParam (Has (c :: r)) (g_typ g) (Some x)) by exact Ep.
    rewrite Htyp in Ep'.
    assert (Hsdd : DocEmit.sdd_doc n p true = Ok (sentence (c :: r) s, mkParam (Has (sentence (c :: r) s)) (Has t) (Some v'))).
    { unfold DocEmit.sdd_doc. rewrite Ep'. unfold str in *. rewrite Hsw. reflexivity. }
    destruct (sentence_fine (c :: r) s Hdf Hclean Htok) as [Hsf Hstok].
    assert (Hwr : wrap_fine w ww (DocEmit.rest_doc_line n (sentence (c :: r) s))).
    { intros Eww. subst ww. unfold entry_nowrap in Hnw. cbn [negb orb fst snd] in Hnw.
      rewrite Epr, Hpar, Hsdd in Hnw. apply (wrap_fine_of w true _ Hnw). reflexivity. }
    assert (Hwf : wfine (sentence (c :: r) s)).
    { destruct Hsf as [_ [Hsnl [Hse _]]]. apply wfine_of; [exact Hse|exact Hsnl|].
      unfold no_trailing_bslash in *. unfold sentence.
      destruct (value_text_clean_inv s Hclean) as [_ [_ [l [Hls _]]]].
      rewrite app_assoc. rewrite last_c_app_nonnil; [exact Hsb|]. intros E. rewrite E in Hls. discriminate. }
    rewrite Ep in Hpar. rewrite Ep', <- Htyp in Hsdd.
    eexists. eexists. eexists.
    eapply (lk_doc w ww true n g c r (Some x) (sentence (c :: r) s)); try eassumption.
    + apply (reads_sentence n (c :: r) s x (Some t) v1 typ1 w1); assumption.
    + unfold sentence. apply ascii_text_app; [exact Hasc|]. apply ascii_text_app; [reflexivity|exact Hsasc].
Qed.

Lemma link_all : forall w ww edd gps,
    Forall (fun kv => gparam_ok_C02 (snd kv) = true) gps ->
    forallb (link_entry_ok edd) gps = true -> forallb (entry_nowrap w edd ww) gps = true ->
    exists ps es ds, link w ww edd gps ps es ds.
Proof.
  intros w ww edd gps. induction gps as [|[n g] gps IH]; intros Hok Hle Hnw.
  - exists [], [], []. constructor.
  - inversion Hok as [|kv l Hg Hrest]; subst. cbn [forallb] in Hle, Hnw.
    apply andb_true_iff in Hle. destruct Hle as [Hle1 Hle]. apply andb_true_iff in Hnw. destruct Hnw as [Hnw1 Hnw].
    destruct (IH Hrest Hle Hnw) as [ps [es [ds Hl]]].
    cbn [snd] in Hg. unfold gparam_ok_C02 in Hg. destruct (g_typ g) as [| |t] eqn:Et; try discriminate.
    apply andb_true_iff in Hg. destruct Hg as [_ Hdef].
    apply (link_one w ww edd n g t gps ps es ds Et); try assumption.
    unfold default_ok_C02 in Hdef. unfold param_of_gparam.
    destruct (g_default g) as [[x|e|o]|]; try discriminate; eexists; reflexivity.
Qed.

(* ---- the link, from the guard and the boolean side condition ---- *)

Theorem C02_doc_link_lemma : forall w edd ww i,
    guard_C02_ast i = true -> doc_link_ok w edd ww i = true ->
    exists text d, class_docstring_text w edd ww i = Ok text /\ class_docstring_ir text = Ok d
                   /\ doc_agrees i d = true.
Proof.
  intros w edd ww i Hg Hok.
  destruct (C02Compose.guard_C02_ast_inv i Hg) as [Hdom [_ [Hpok [Hrok _]]]].
  destruct (C02Compose.C02_domain_facts i Hdom) as [_ [Hnr _]].
  pose proof (C02Compose.forall_folded_ok i Hpok Hrok) as Hall.
  apply Forall_app in Hall. destruct Hall as [Hallp Hallr].
  unfold doc_link_ok in Hok. rewrite (C02Compose.fold_returns_params i Hnr) in Hok.
  apply andb_true_iff in Hok. destruct Hok as [Hok Hnw]. apply andb_true_iff in Hok. destruct Hok as [Hok Hle].
  apply andb_true_iff in Hok. destruct Hok as [Hsum Hex].
  rewrite forallb_app in Hle, Hnw.
  apply andb_true_iff in Hle. destruct Hle as [Hlep Hler]. apply andb_true_iff in Hnw. destruct Hnw as [Hnwp Hnwr].
  destruct (ir_doc i) as [| |S] eqn:Edoc; try discriminate.
  apply andb_true_iff in Hsum. destruct Hsum as [Hsl Hsw].
  destruct (line_ok_facts S Hsl) as [_ [Hedge [Hnl [Hasc [Htok _]]]]].
  destruct (link_all w ww edd (ir_params i) Hallp Hlep Hnwp) as [ps_p [es_p [ds_p Hlp]]].
  destruct (link_all w ww edd (C02Compose.ret_entry i) Hallr Hler Hnwr) as [ps_r [es_r [ds_r Hlr]]].
  apply (link_doc_agrees w ww edd i S ps_p es_p ds_p ps_r es_r ds_r); try assumption.
  - split; [exact Hedge|]. split; assumption.
  - apply wrap_fine_of. exact Hsw.
  - destruct (link_names _ _ _ _ _ _ _ Hlp) as [Hn1 _]. intros E. subst es_p. cbn [map] in Hn1.
    apply existsb_exists in Hex. destruct Hex as [kv [Hin Hd]].
    assert (Hf : In kv (filter documented (ir_params i))) by (apply filter_In; split; assumption).
    destruct (filter documented (ir_params i)); [destruct Hf|discriminate].
Qed.

(* ---- the closed corollary of C02_partial: no docstring hypothesis ---- *)

Theorem C02_partial_closed_lemma : forall w pt i cn bs ds edd ww it ww',
    guard_C02_ast i = true -> doc_link_ok w edd ww i = true ->
    exists text s i',
      class_docstring_text w edd ww i = Ok text
      /\ emit_class pt i false cn bs ds ww (class_docstring_text w edd ww i) = Ok (s, i)
      /\ parse_class (Some (class_docstring_ir text)) (CStmt s) None it ww' = Ok i'
      /\ ir_params i' = norm_params_C02 (ir_params i)
      /\ ir_returns i' = norm_returns_C02 (ir_returns i)
      /\ same_interface_strict (zero_default_norm i) i' = true
      /\ same_interface (zero_default_norm i) i' = true
      /\ same_interface i i' = true.
Proof.
  intros w pt i cn bs ds edd ww it ww' Hg Hok.
  destruct (C02_doc_link_lemma w edd ww i Hg Hok) as [text [d [Ht [Hd Ha]]]].
  destruct (C02Compose.C02_partial_lemma pt i cn bs ds ww text d it ww' Hg Ha) as [s [i' H]].
  exists text, s, i'. rewrite Ht, Hd. split; [reflexivity|]. exact H.
Qed.

(* ---- non-vacuity and the excluded region ---- *)

Definition gp (d t : option str) (v : option pyval) : gparam :=
  mkG (match d with Some x => Has x | None => Missing end) (match t with Some x => Has x | None => Missing end)
      (option_map DV v).

(* several parameters, with and without defaults and prose, a return entry *)
Definition w_link_ok : ir :=
  mkIR FNone (Has (L "static")) (Has (L "Doc summary."))
       [(L "a", gp (Some (L "first one.")) (Some (L "int")) (Some (VInt 5)));
        (L "b", gp (Some (L "second")) (Some (L "str")) None);
        (L "s", gp (Some (L "a name,")) (Some (L "str")) (Some (VStr (L "hello"))));
        (L "c", gp None (Some (L "float")) (Some (VFloat (L "1.5"))))]
       (Has (gp (Some (L "the result")) (Some (L "int")) None)) None.

Lemma C02_doc_link_nonvacuous :
  guard_C02_ast w_link_ok = true
  /\ forallb (fun o => doc_link_ok 100 (fst o) (snd o) w_link_ok && doc_link_b 100 (fst o) (snd o) w_link_ok)
             [(false, false); (false, true); (true, false); (true, true)] = true.
Proof. vm_compute. split; reflexivity. Qed.

Definition one_param (d : str) (edd_default : option pyval) : ir :=
  mkIR FNone (Has (L "static")) (Has (L "Doc."))
       [(L "a", gp (Some d) (Some (L "int")) edd_default)] FNone None.

(* inside guard_C02_ast, outside doc_link_ok, and the link really fails (the composed model does not give back
   the prose): one witness per reason *)
Definition link_fails (edd : bool) (i : ir) : bool :=
  guard_C02_ast i && negb (doc_link_ok 100 edd false i) && negb (doc_link_b 100 edd false i).

Definition w_no_terminal : ir := one_param (L "first one") (Some (VInt 5)).     (* edd: a full stop is inserted *)
Definition w_backslash : ir := one_param (L "ends with \") None.               (* regression point: multiline() used to strip it (fixed in /repo) *)
Definition w_tab : ir := one_param (L "a" ++ [tabch] ++ L "b") None.             (* cleandoc expands the tab *)
Definition w_token : ir := one_param (L "see :cvar x") None.                     (* the scanner splits the prose *)
Definition w_announces : ir := one_param (L "it defaults to 3.") None.          (* read as a default, removed *)
Definition w_no_entry : ir :=                                                    (* read as numpydoc: declined *)
  mkIR FNone (Has (L "static")) (Has (L "Doc.")) [(L "a", gp None (Some (L "int")) None)] FNone None.

Lemma C02_doc_link_refuted_outside :
  link_fails true w_no_terminal = true /\ link_fails false w_tab = true
  /\ link_fails false w_token = true /\ link_fails false w_announces = true /\ link_fails false w_no_entry = true.
Proof. vm_compute. repeat split; reflexivity. Qed.

(* so doc_agrees does NOT follow from guard_C02_ast alone *)
Theorem C02_doc_link_needs_side_condition :
  ~ (forall w edd ww i, guard_C02_ast i = true ->
       exists text d, class_docstring_text w edd ww i = Ok text /\ class_docstring_ir text = Ok d
                      /\ doc_agrees i d = true).
Proof.
  intros H. destruct (H 100 false false w_tab eq_refl) as [text [d [Ht [Hd Ha]]]].
  assert (E : doc_link_b 100 false false w_tab = true).
  { unfold doc_link_b. rewrite Ht, Hd. exact Ha. }
  vm_compute in E. discriminate E.
Qed.

(* regression point for the /repo fix of pure_utils.multiline (it used to end with rstrip over blank, newline and
   backslash, which ate a backslash at the end of the prose: 'ends with \' came back 'ends with'; found by this proof):
   the point is inside the guard, in no finding class, and the docstring link now holds there *)
Lemma C02_trailing_backslash_regression :
  finding_class_C02 (mkO02 false false) w_backslash = None /\ finding_class_C02 (mkO02 true true) w_backslash = None
  /\ C02_domain w_backslash = true /\ guard_C02_ast w_backslash = true
  /\ doc_link_b 100 false false w_backslash = true.
Proof. vm_compute. repeat split; reflexivity. Qed.
