(* C16Facts: the splice sites of EmitAst carry bodies verbatim inside the guards of C16Spec; the full
   statement is refuted by three witnesses. *)
From Coq Require Import List Ascii Bool Arith ZArith Lia.
From Coq Require String.
Import String.StringSyntax.
From DT Require Import PyStr Sexp PyVal TyExpr PureUtils Defaults PyAst IR EmitAst C16Spec PyStrFacts EmitAstFacts.
Import ListNotations.

(* ------------------------------------------------------------------ function *)
Lemma splice_none : forall b, function_body_splice b None = b.
Proof. intros b. unfold function_body_splice. apply app_nil_r. Qed.

Lemma splice_struct : forall b r, function_body_splice b (Some r) = strip_final_return b ++ [r].
Proof. intros b r. reflexivity. Qed.

Lemma strip_final_return_prefix : forall b,
    exists tail, b = strip_final_return b ++ tail
                 /\ (tail = [] \/ exists x, tail = [x] /\ is_return x = true).
Proof.
  intros b. unfold strip_final_return. destruct (last_is_return b) eqn:E.
  - apply last_is_return_true in E. destruct E as [b' [r [Hb Hr]]]. subst b.
    rewrite removelast_last. exists [r]. split; [reflexivity|]. right. eauto.
  - exists []. split; [now rewrite app_nil_r | now left].
Qed.

Lemma splice_same : forall b r, is_return r = true ->
    function_body_splice (b ++ [r]) (Some r) = b ++ [r].
Proof.
  intros b r Hr. rewrite splice_struct. unfold strip_final_return.
  rewrite last_is_return_app, Hr, removelast_last. reflexivity.
Qed.

(* exactly one final return: the generated one *)
Lemma splice_final_return : forall b r, is_return r = true ->
    last_is_return (function_body_splice b (Some r)) = true
    /\ (last_is_return b = true -> last_is_return (strip_final_return b) = true -> 
        exists b' x y, b = b' ++ [x; y]).
Proof.
  intros b r Hr. split.
  - rewrite splice_struct, last_is_return_app. exact Hr.
  - intros Hb Hs. apply last_is_return_true in Hb. destruct Hb as [b' [y [Hb Hy]]]. subst b.
    unfold strip_final_return in Hs. rewrite last_is_return_app, Hy, removelast_last in Hs.
    apply last_is_return_true in Hs. destruct Hs as [b'' [x [Hb' Hx]]]. subst b'.
    exists b'', x, y. now rewrite <- app_assoc.
Qed.

Lemma ends_with_spec : forall b r, ends_with b r = true -> exists b', b = b' ++ [r].
Proof.
  intros b r H. unfold ends_with in H. destruct (rev b) as [|s l] eqn:E; [discriminate|].
  apply stmt_eqb_eq in H. subst s. exists (rev l). rewrite <- (rev_involutive b), E. reflexivity.
Qed.

Lemma C16_function_partial_lemma : forall b rv,
    guard_C16_function b rv = true -> function_body_splice b rv = b.
Proof.
  intros b rv G. unfold guard_C16_function, finding_class_C16_function in G.
  destruct rv as [r|]; [|apply splice_none].
  destruct (ends_with b r && is_return r) eqn:E.
  - apply andb_true_iff in E. destruct E as [E1 E2]. apply ends_with_spec in E1. destruct E1 as [b' Hb].
    subst b. now apply splice_same.
  - destruct (last_is_return b); discriminate.
Qed.

Lemma emit_function_body : forall pt i fn ft it kw tds n a body d r i2,
    emit_function pt i fn ft it kw tds = Ok (SFunc n a body d r, i2) ->
    exists text b rv fname ftype,
      py_or fn (ir_name i) = Ok fname /\ py_or ft (ir_type i) = Ok ftype
      /\ get_internal_body fname ftype i = Ok b
      /\ function_return_val pt i = Ok rv
      /\ body = SExpr (set_value (VStr text)) :: function_body_splice b rv.
Proof.
  intros pt i fn ft it kw tds n a body d r i2 H. unfold emit_function in H.
  apply bind_Ok in H. destruct H as [fname [Hfn H]].
  apply bind_Ok in H. destruct H as [ftype [Hft H]].
  apply bind_Ok in H. destruct H as [afp [Hafp H]].
  apply bind_Ok in H. destruct H as [dfp [Hdfp H]].
  apply bind_Ok in H. destruct H as [b [Hb H]].
  apply bind_Ok in H. destruct H as [rv [Hrv H]].
  apply bind_Ok in H. destruct H as [text [Htds H]].
  apply bind_Ok in H. destruct H as [rets [Hrets H]].
  destruct fname as [nm|]; [|discriminate].
  inversion H. subst. exists text, b, rv, (Some n), ftype. repeat split; assumption.
Qed.

(* ------------------------------------------------------------------ get_internal_body *)
Lemma get_internal_body_spec : forall n t i b,
    get_internal_body n t i = Ok b ->
    b = [] \/ exists it, ir_internal i = Some it /\ b = in_body it
                         /\ fld_eq_opt (in_from_name it) n = true /\ fld_eq_opt (in_from_type it) t = true.
Proof.
  intros n t i b H. unfold get_internal_body in H.
  destruct (ir_internal i) as [it|] eqn:Ei; [|inversion H; now left].
  destruct (in_body it) as [|s0 rest] eqn:Eb; [inversion H; now left|].
  destruct (in_from_name it) as [| |fnm] eqn:En; try discriminate.
  - destruct (fld_eq_opt FNone n) eqn:E1.
    + destruct (in_from_type it) as [| |ftp] eqn:Et; try discriminate.
      * destruct (fld_eq_opt FNone t) eqn:E2; inversion H; [right | now left].
        exists it. rewrite En, Et. repeat split; auto.
      * destruct (fld_eq_opt (Has ftp) t) eqn:E2; inversion H; [right | now left].
        exists it. rewrite En, Et. repeat split; auto.
    + inversion H. now left.
  - destruct (fld_eq_opt (Has fnm) n) eqn:E1.
    + destruct (in_from_type it) as [| |ftp] eqn:Et; try discriminate.
      * destruct (fld_eq_opt FNone t) eqn:E2; inversion H; [right | now left].
        exists it. rewrite En, Et. repeat split; auto.
      * destruct (fld_eq_opt (Has ftp) t) eqn:E2; inversion H; [right | now left].
        exists it. rewrite En, Et. repeat split; auto.
    + inversion H. now left.
Qed.

(* ------------------------------------------------------------------ argparse *)
Lemma C16_argparse_partial_lemma : forall b, argparse_guard b = true -> argparse_body_skip b = Ok b.
Proof.
  intros b G. destruct b as [|s0 rest]; [reflexivity|]. cbn in G. unfold argparse_body_skip.
  destruct s0; cbn in G |- *; try reflexivity.
  destruct (get_value_expr e) as [o|x] eqn:E; cbn; [|discriminate].
  destruct o as [v| | |]; try reflexivity. destruct v; try reflexivity. discriminate.
Qed.

Lemma argparse_return_is_return : forall pt i r, argparse_return pt i = Ok r -> is_return r = true.
Proof.
  intros pt i r H. unfold argparse_return in H.
  destruct (returns_param i) as [p|]; [|inversion H; reflexivity].
  destruct (g_default p) as [[v|e|o]|]; try discriminate; [|inversion H; reflexivity].
  destruct v; try discriminate.
  destruct (code_quoted s); [inversion H; reflexivity|].
  apply bind_Ok in H. destruct H as [e [_ H]]. inversion H. reflexivity.
Qed.

(* the carried statements are followed by exactly one final return: their own, or the emitter's *)
Lemma argparse_tail_spec : forall pt i b tail,
    argparse_guard b = true -> argparse_tail pt i b = Ok tail ->
    (last_is_return b = true /\ tail = b)
    \/ (last_is_return b = false /\ exists r, tail = b ++ [r] /\ is_return r = true).
Proof.
  intros pt i b tail G H. unfold argparse_tail in H.
  rewrite (C16_argparse_partial_lemma b G) in H. cbn in H.
  destruct (last_is_return b) eqn:E.
  - cbn in H. inversion H. left. split; [reflexivity | apply app_nil_r].
  - apply bind_Ok in H. destruct H as [ret [Hret H]]. apply bind_Ok in Hret. destruct Hret as [r [Hr Hret]].
    inversion Hret. subst ret. inversion H. right. split; [reflexivity|]. exists r. split; [reflexivity|].
    eapply argparse_return_is_return; eauto.
Qed.

Lemma emit_argparse_body : forall pt i edd fn ft wd ww ds n a body d r i2,
    emit_argparse pt i edd fn ft wd ww ds = Ok (SFunc n a body d r, i2) ->
    exists doc desc adds b tail fname ftype,
      py_or fn (ir_name i) = Ok fname /\ py_or ft (ir_type i) = Ok ftype
      /\ get_internal_body fname ftype i = Ok b
      /\ argparse_tail pt i b = Ok tail
      /\ List.length adds = List.length (ir_params i)
      /\ body = doc :: desc :: adds ++ tail.
Proof.
  intros pt i edd fn ft wd ww ds n a body d r i2 H. unfold emit_argparse in H.
  apply bind_Ok in H. destruct H as [fname [Hfn H]].
  apply bind_Ok in H. destruct H as [ftype [Hft H]].
  apply bind_Ok in H. destruct H as [b [Hb H]].
  apply bind_Ok in H. destruct H as [dtext [Hds H]].
  apply bind_Ok in H. destruct H as [desc [Hdesc H]].
  apply bind_Ok in H. destruct H as [ps [Hps H]].
  apply bind_Ok in H. destruct H as [spliced [Hsp H]].
  apply bind_Ok in H. destruct H as [ret [Hret H]].
  destruct fname as [nm|]; [|discriminate]. inversion H. subst.
  exists (SExpr (set_value (VStr (indent tab dtext ++ tab)))), (description_assign desc), ps, b,
         (spliced ++ ret), (Some n), ftype.
  split; [assumption|]. split; [assumption|]. split; [assumption|].
  split; [unfold argparse_tail; rewrite Hsp; cbn; rewrite Hret; reflexivity|].
  split; [eapply map_outcome_length; eauto|].
  now rewrite app_assoc.
Qed.

(* ------------------------------------------------------------------ class __call__ *)
Lemma in_ids_mem : forall ids id, ids <> [] -> in_ids ids id = mem_id ids id.
Proof. intros ids id H. destruct ids; [contradiction | reflexivity]. Qed.

Lemma rewrite_expr_subst : forall ids e, ids <> [] -> rewrite_expr ids e = subst_expr ids e.
Proof.
  intros ids e Hne.
  induction e as [v|id|e a IHe|e s IHe IHs|es IH|es IH|ks vs IHk IHv|f args kws IHf IHa IHk|op e IHe|s]
                   using expr_ind'; cbn.
  - reflexivity.
  - now rewrite in_ids_mem.
  - now rewrite IHe.
  - now rewrite IHe, IHs.
  - f_equal. now apply map_ext_Forall.
  - f_equal. now apply map_ext_Forall.
  - f_equal; now apply map_ext_Forall.
  - f_equal; [assumption | now apply map_ext_Forall |].
    apply map_ext_Forall. eapply Forall_impl; [|exact IHk]. intros p Hp. now rewrite Hp.
  - now rewrite IHe.
  - reflexivity.
Qed.

Lemma rewrite_opt_subst : forall ids (o : option expr), ids <> [] ->
    option_map (rewrite_expr ids) o = option_map (subst_expr ids) o.
Proof. intros ids [e|] H; cbn; [now rewrite rewrite_expr_subst | reflexivity]. Qed.

Lemma rewrite_exprs_subst : forall ids (l : list expr), ids <> [] ->
    map (rewrite_expr ids) l = map (subst_expr ids) l.
Proof. intros ids l H. apply map_ext. intros e. now apply rewrite_expr_subst. Qed.

Lemma rewrite_arg_subst : forall ids a, ids <> [] -> rewrite_arg ids a = subst_arg ids a.
Proof. intros ids a H. unfold rewrite_arg, subst_arg. now rewrite rewrite_opt_subst. Qed.

Lemma rewrite_arguments_subst : forall ids a, ids <> [] -> rewrite_arguments ids a = subst_arguments ids a.
Proof.
  intros ids a H. unfold rewrite_arguments, subst_arguments. f_equal.
  - apply map_ext. intros x. now apply rewrite_arg_subst.
  - now apply rewrite_exprs_subst.
  - apply map_ext. intros x. now apply rewrite_arg_subst.
  - apply map_ext. intros x. now apply rewrite_opt_subst.
  - destruct (ar_vararg a); cbn; [now rewrite rewrite_arg_subst | reflexivity].
  - destruct (ar_kwarg a); cbn; [now rewrite rewrite_arg_subst | reflexivity].
Qed.

Lemma remove_ids_none_bound : forall bound ids, none_bound bound ids = true -> remove_ids bound ids = ids.
Proof.
  intros bound ids H. unfold remove_ids, none_bound in *. induction ids as [|x r IH]; cbn in *; [reflexivity|].
  apply andb_true_iff in H. destruct H as [H1 H2]. rewrite H1. f_equal. now apply IH.
Qed.

Lemma forallb_Forall_impl : forall {A} (f : A -> bool) (P : A -> Prop) l,
    Forall (fun x => f x = true -> P x) l -> forallb f l = true -> Forall P l.
Proof.
  intros A f P l H. induction H as [|x r Hx Hr IH]; intros E; cbn in E; constructor.
  - apply Hx. now apply andb_true_iff in E.
  - apply IH. now apply andb_true_iff in E.
Qed.

Lemma rewrite_stmt_subst : forall ids s, ids <> [] -> no_shadow ids s = true ->
    rewrite_stmt ids s = subst_stmt ids s.
Proof.
  intros ids s Hne.
  induction s as [n a b d r IH|n bs b d IH|t a v|ts v|e|e|t h bl IH] using stmt_ind'; intros NS; cbn in NS |- *.
  - apply andb_true_iff in NS. destruct NS as [NB NSb].
    rewrite (remove_ids_none_bound _ _ NB).
    rewrite rewrite_arguments_subst, rewrite_exprs_subst, rewrite_opt_subst by assumption.
    f_equal. apply map_ext_Forall. eapply forallb_Forall_impl; [|exact NSb]. exact IH.
  - apply andb_true_iff in NS. destruct NS as [NB NSb].
    rewrite (remove_ids_none_bound _ _ NB).
    rewrite !rewrite_exprs_subst by assumption.
    f_equal. apply map_ext_Forall. eapply forallb_Forall_impl; [|exact NSb]. exact IH.
  - now rewrite !rewrite_expr_subst, rewrite_opt_subst.
  - now rewrite rewrite_exprs_subst, rewrite_expr_subst.
  - now rewrite rewrite_expr_subst.
  - now rewrite rewrite_opt_subst.
  - f_equal. apply map_ext_Forall.
    eapply forallb_Forall_impl; [|exact NS].
    eapply Forall_impl; [|exact IH]. intros blk Hblk NSblk.
    apply map_ext_Forall. eapply forallb_Forall_impl; [|exact NSblk]. exact Hblk.
Qed.

Lemma C16_call_partial_lemma : forall ids b,
    guard_C16_call ids b = true -> rewrite_body ids b = Ok (map (subst_stmt ids) b).
Proof.
  intros ids b G. unfold guard_C16_call, finding_class_C16_call in G.
  destruct ids as [|i0 ids']; [discriminate|]. set (ids := i0 :: ids') in *.
  destruct (forallb (rewritable_stmt ids) b) eqn:ER; cbn in G; [|discriminate].
  destruct (forallb (no_shadow ids) b) eqn:ENS; cbn in G; [|discriminate].
  unfold rewrite_body. rewrite ER. f_equal.
  apply map_ext_Forall. eapply forallb_Forall_impl; [|exact ENS].
  apply Forall_forall. intros s _ NS. apply rewrite_stmt_subst; [discriminate | assumption].
Qed.

(* emit.class_ never reaches RewriteName's "empty set: rewrite every name" branch *)
Local Opaque class_docstring set_value param2ast call_meth_of_dict.
Lemma emit_class_call_body : forall pt i cn bs ds ww tds n bases body decos i2 s0 rest,
    emit_class pt i true cn bs ds ww tds = Ok (SClass n bases body decos, i2) ->
    (match ir_internal i with Some it => in_body it | None => [] end) = s0 :: rest ->
    (ir_params i = [] /\ In (call_meth (s0 :: rest)) body)
    \/ (ir_params i <> [] /\ exists b', rewrite_body (od_keys (ir_params i)) (s0 :: rest) = Ok b'
                                        /\ In (call_meth b') body).
Proof.
  intros pt i cn bs ds ww tds n bases body decos i2 s0 rest H Hb. unfold emit_class in H. rewrite Hb in H.
  destruct (ir_params i) as [|[k0 g0] ps] eqn:Ep.
  - left. split; [reflexivity|].
    cbn [od_keys map fst] in H.
    apply bind_Ok in H. destruct H as [ib [Hib H]]. injection Hib as Hib. subst ib.
    apply bind_Ok in H. destruct H as [text [Htds H]].
    apply bind_Ok in H. destruct H as [meth [Hm H]]. injection Hm as Hm. subst meth.
    apply bind_Ok in H. destruct H as [attrs [Ha H]]. inversion H. subst.
    right. apply in_or_app. right. now left.
  - right. split; [discriminate|].
    cbn [od_keys map fst] in H.
    apply bind_Ok in H. destruct H as [ib [Hib H]].
    apply bind_Ok in Hib. destruct Hib as [b' [Hrw Hib]]. inversion Hib. subst ib.
    exists b'. split; [exact Hrw|].
    apply bind_Ok in H. destruct H as [text [Htds H]].
    apply bind_Ok in H. destruct H as [meth [Hm H]].
    assert (Hmeth : meth = [call_meth b']).
    { unfold rewrite_body in Hrw. destruct (forallb _ _); [|discriminate]. inversion Hrw. subst b'.
      cbn [map] in Hm. injection Hm as Hm. now subst meth. }
    subst meth.
    apply bind_Ok in H. destruct H as [attrs [Ha H]]. inversion H. subst.
    right. apply in_or_app. right. now left.
Qed.
Local Transparent class_docstring set_value param2ast call_meth_of_dict.

(* ------------------------------------------------------------------ refutations *)
Definition w_inner : stmt :=
  SFunc (L "inner") (mkArguments [mkArg (L "a") None] [] [] [] None None) [SReturn (Some (EName (L "a")))] [] None.

Lemma C16_function_refuted_lemma : ~ (forall b rv, function_body_splice b rv = b).
Proof. intros H. specialize (H [] (Some (SReturn None))). discriminate. Qed.

(* a body ending in `return y` re-emitted under a declared return default `x`: the body's own return is lost *)
Lemma C16_function_replaced_witness :
  function_body_splice [SReturn (Some (EName (L "y")))] (Some (SReturn (Some (EName (L "x")))))
  = [SReturn (Some (EName (L "x")))].
Proof. reflexivity. Qed.

Lemma C16_argparse_refuted_lemma : ~ (forall b, argparse_body_skip b = Ok b).
Proof.
  intros H. specialize (H [SExpr (EConst (VStr (L "note"))); SExpr (EName (L "x"))]). vm_compute in H. discriminate.
Qed.

Lemma C16_call_refuted_lemma : ~ (forall ids s, ids <> [] -> rewrite_stmt ids s = subst_stmt ids s).
Proof.
  intros H. specialize (H [L "a"] w_inner). assert (Hne : [L "a"] <> []) by discriminate.
  specialize (H Hne). vm_compute in H. discriminate.
Qed.

Lemma C16_refuted_lemma : ~ C16_statement.
Proof. intros [H _]. now apply C16_function_refuted_lemma. Qed.

(* ------------------------------------------------------------------ non-vacuity *)
Definition w_body : list stmt :=
  [SAssign [EName (L "t")] (ECall (EName (L "f")) [EName (L "a")] [(Some (L "b"), EName (L "b"))]);
   SOther (L "If") (L "if t:" ++ [nl] ++ L "    pass") [[SReturn (Some (EName (L "a")))]];
   SFunc (L "inner") (mkArguments [mkArg (L "q") None] [] [] [] None None)
         [SReturn (Some (ECall (EName (L "g")) [EName (L "q"); EName (L "b")] []))] [] None;
   SReturn (Some (ETuple [EName (L "t"); EName (L "b")]))].

Lemma C16_nonvacuous_lemma :
  guard_C16_call [L "a"; L "b"] w_body = true
  /\ guard_C16_function w_body (Some (SReturn (Some (ETuple [EName (L "t"); EName (L "b")])))) = true
  /\ argparse_guard w_body = true
  /\ rewrite_body [L "a"; L "b"] w_body <> Ok w_body.
Proof. repeat split; try (vm_compute; reflexivity). vm_compute. discriminate. Qed.
