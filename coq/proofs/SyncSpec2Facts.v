(* Facts about the refined sync classifiers (model/SyncSpec2.v): each refinement returns the old class of
   model/SyncSpec.v wherever there is one, and otherwise only ever ADDS one of the two new classes, each under the
   law instance that names it; one computed lemma per recorded witness (old classifier None, refined classifier the new
   class). *)
From Coq Require Import List Ascii Bool Arith.
From Coq Require String.
Import String.StringSyntax.
From DT Require Import PyStr Sexp PyVal FS Sync SyncSpec SyncSpec2.
Import ListNotations.

(* ---- the old class is kept *)
Lemma classify_install_r_old : forall d c k,
    classify_install d (ob2_base c) = Some k -> classify_install_r d c = Some (K2_old k).
Proof.
  intros d c k H. unfold classify_install_r. rewrite H. reflexivity.
Qed.

Lemma classify_repeat_r_old : forall d c0 c1 k,
    classify_repeat d (ob2_base c0) (option_map ob2_base c1) = Some k -> classify_repeat_r d c0 c1 = Some (K2_old k).
Proof.
  intros d c0 c1 k H. unfold classify_repeat_r. rewrite H. reflexivity.
Qed.

Lemma classify_target_r_old : forall d c0 c1 k,
    classify_target d (ob2_base c0) (option_map ob2_base c1) = Some k -> classify_target_r d c0 c1 = Some (K2_old k).
Proof.
  intros d c0 c1 k H. unfold classify_target_r. apply classify_repeat_r_old. exact H.
Qed.

(* the frame classifier over the embedded old class of the target is the embedded old frame classifier *)
Lemma classify_frame_r_old : forall od ods wm tc,
    classify_frame_r od ods wm (option_map K2_old tc) = option_map K2_old (classify_frame od ods wm tc).
Proof.
  intros od ods wm tc. unfold classify_frame_r, classify_frame.
  destruct (od && wm); [reflexivity|]. destruct (ods && wm); reflexivity.
Qed.

(* ---- the refinement only ever adds the new classes, each under its own law instance *)
Lemma classify_install_r_adds : forall d c k2,
    classify_install_r d c = Some k2 ->
    (exists k, classify_install d (ob2_base c) = Some k /\ k2 = K2_old k)
    \/ (classify_install d (ob2_base c) = None /\ standin_replaced_on d c = true /\ k2 = K2_standin_replaced).
Proof.
  intros d c k2 H. unfold classify_install_r in H.
  destruct (classify_install d (ob2_base c)) as [k|] eqn:E.
  - left. exists k. split; [reflexivity|]. injection H as H. symmetry. exact H.
  - right. destruct (standin_replaced_on d c) eqn:S; [|discriminate H].
    injection H as H. split; [reflexivity|]. split; [reflexivity|]. symmetry. exact H.
Qed.

Lemma classify_repeat_r_adds : forall d c0 c1 k2,
    classify_repeat_r d c0 c1 = Some k2 ->
    (exists k, classify_repeat d (ob2_base c0) (option_map ob2_base c1) = Some k /\ k2 = K2_old k)
    \/ (classify_repeat d (ob2_base c0) (option_map ob2_base c1) = None
        /\ (exists c, c1 = Some c /\ standin_replaced_on d c = true) /\ k2 = K2_standin_replaced).
Proof.
  intros d c0 c1 k2 H. unfold classify_repeat_r in H.
  destruct (classify_repeat d (ob2_base c0) (option_map ob2_base c1)) as [k|] eqn:E.
  - left. exists k. split; [reflexivity|]. injection H as H. symmetry. exact H.
  - right. destruct c1 as [c|]; [|discriminate H].
    destruct (standin_replaced_on d c) eqn:S; [|discriminate H].
    injection H as H. split; [reflexivity|]. split; [exists c; split; [reflexivity|exact S]|]. symmetry. exact H.
Qed.

Lemma classify_frame_r_adds : forall od ods wm tc k2,
    classify_frame_r od ods wm tc = Some k2 ->
    (exists k, classify_frame od ods wm None = Some k /\ k2 = K2_old k) \/ tc = Some k2.
Proof.
  intros od ods wm tc k2 H. unfold classify_frame_r in H.
  destruct (classify_frame od ods wm None) as [k|] eqn:E.
  - left. exists k. split; [reflexivity|]. injection H as H. symmetry. exact H.
  - right. exact H.
Qed.

(* a raise is classified only as the forward-declared function target, and only under its law instance *)
Lemma classify_raise_r_adds : forall c k2,
    classify_raise_r c = Some k2 -> forward_declared_raises_on c = true /\ k2 = K2_forward_declared_raises.
Proof.
  intros c k2 H. unfold classify_raise_r in H.
  destruct (forward_declared_raises_on c) eqn:F; [|discriminate H].
  injection H as H. split; [reflexivity|]. symmetry. exact H.
Qed.

(* what each new class needs of the observations (so that a different way of failing is not absorbed) *)
Lemma standin_replaced_on_needs : forall d c,
    standin_replaced_on d c = true ->
    d = false /\ ob_found (ob2_base c) = true /\ ob_cmp (ob2_base c) = false /\ ob_replaced (ob2_base c) = true
    /\ ob_rebinding (ob2_base c) = false /\ ob2_standin_first c = true.
Proof.
  intros d c H. unfold standin_replaced_on in H.
  repeat (apply andb_true_iff in H; destruct H as [H ?]).
  repeat match goal with
         | X : negb _ = true |- _ => apply negb_true_iff in X
         end.
  repeat split; assumption.
Qed.

Lemma forward_declared_raises_on_needs : forall c,
    forward_declared_raises_on c = true ->
    ob_found (ob2_base c) = true /\ ob2_found_assign c = true /\ ob2_fun_kind c = true /\ ob2_assert_before_emit c = true.
Proof.
  intros c H. unfold forward_declared_raises_on in H.
  repeat (apply andb_true_iff in H; destruct H as [H ?]).
  repeat split; assumption.
Qed.

(* the refined guard lies inside the old one *)
Lemma guard_sync_target_r_inside : forall d c0 c1,
    guard_sync_target_r d c0 c1 = true -> guard_sync_target d (ob2_base c0) (option_map ob2_base c1) = true.
Proof.
  intros d c0 c1 H. unfold guard_sync_target_r in H. unfold guard_sync_target.
  destruct (classify_install_r d c0); [discriminate H|].
  destruct (classify_target_r d c0 c1) as [k2|] eqn:E; [discriminate H|].
  destruct (classify_target d (ob2_base c0) (option_map ob2_base c1)) as [k|] eqn:E0; [|reflexivity].
  apply classify_target_r_old in E0. rewrite E0 in E. discriminate E.
Qed.

(* ---- witnesses (the observations are those recorded from the unchanged /repo on the files under findings/) *)

(* (A) truth class ConfigClass (a: int = 5); target file: import sys / if sys.version_info < (3, 8): class ConfigClass
   (stand_in: int = 0) / class ConfigClass (stale, b: int = 1).  Every run: existed, found, differs, replaced; the
   definition is present, no enclosing class, no rebinding; the stand-in is what the rewrite meets first *)
Definition wA_call : call_obs2 := mkObs2 (mkObs true true false true true false false) true false false false.

Lemma standin_witness_install :
  classify_install false (ob2_base wA_call) = None
  /\ classify_install_r false wA_call = Some K2_standin_replaced.
Proof. vm_compute. split; reflexivity. Qed.

Lemma standin_witness_repeat :
  classify_target false (ob2_base wA_call) (Some (ob2_base wA_call)) = None
  /\ classify_target_r false wA_call (Some wA_call) = Some K2_standin_replaced.
Proof. vm_compute. split; reflexivity. Qed.

Lemma standin_witness_frame :
  classify_frame false false true (classify_target false (ob2_base wA_call) (Some (ob2_base wA_call))) = None
  /\ classify_frame_r false false true (classify_target_r false wA_call (Some wA_call)) = Some K2_standin_replaced.
Proof. vm_compute. split; reflexivity. Qed.

(* the same file without the conditional stand-in (the rewrite meets the definition itself): no class, old or new *)
Lemma standin_absent_unclassified :
  classify_install_r false (mkObs2 (mkObs true true false true true false false) false false false false) = None.
Proof. vm_compute. reflexivity. Qed.

(* (B) target file: train = None followed by def train with the keyword-only parameter a: int = 5.  Every run: existed, found (the assignment), the call raised
   AssertionError before the emitter was entered (so nothing compared, nothing replaced).  The old classifiers have no
   class for a raise; on this call's observations the old install classifier answers found-definition-not-replaced,
   which stands for a stale definition left in place (ABSORBS: interface), not for a raise *)
Definition wB_call : call_obs2 := mkObs2 (mkObs true true false false false false true) false true true true.

Lemma forward_declared_witness :
  classify_raise_r wB_call = Some K2_forward_declared_raises
  /\ classify_install false (ob2_base wB_call) = Some K_found_not_replaced
  /\ classify_target false (ob2_base wB_call) (Some (ob2_base wB_call)) = None.
Proof. vm_compute. repeat split; reflexivity. Qed.

(* a raise of the same target that is not that assertion (or a class target, or a found definition) stays unclassified *)
Lemma other_raises_unclassified :
  classify_raise_r (mkObs2 (mkObs true true false false false false true) false true true false) = None
  /\ classify_raise_r (mkObs2 (mkObs true true false false false false true) false true false true) = None
  /\ classify_raise_r (mkObs2 (mkObs true true false false false false false) false false true true) = None.
Proof. vm_compute. repeat split; reflexivity. Qed.
