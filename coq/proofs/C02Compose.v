(* C02Compose: the AST-level composition of the config-class round trip,
     parse_class d (emit_class pt i ...)            (models EmitAst / ParseAst, docstring layer decoupled)
   unbounded in the number of parameters.

   Part 1  the body loop of parse.class_ on the statements emit.class_ produces, in closed form:
           documented attributes update the docstring's entries in place, undocumented ones are appended,
           the attribute return_type goes to "returns" (class_loop_emitted).
   Part 2  names and order (C02_names_order_lemma): for every IR of C02_domain whose undocumented parameters do
           not precede documented ones, whenever the emitter and the parser succeed the parameter names come
           back in order, and the return entry is present exactly when it was -- whatever the types and
           defaults are.
   Part 3  types: ast.unparse of the node ast.parse builds for a canonical type text is that text
           (ty_roundtrip, typ_ast_parse, typ_ast_code).
   Part 4  one attribute: what param2ast emits and what the parser reads back, per class of declared type
           (scalar / generic, quoting / not) and of default value (absent, None, int, float, bool, str).
   Part 5  the codec (C02_ast_partial_lemma): inside guard_C02_ast the parser returns exactly norm_C02 of the
           input, which is same_interface_strict to zero_default_norm of the input.
   Part 6  the docstring hypothesis is satisfiable for every IR (doc_agrees_doc_ir_of); the statement at full strength
           is refuted; one computed witness per AST-visible finding class; a failure the classifier does not
           name (float default -0.0); non-vacuity.
   Proofs only. *)
From Coq Require Import List Ascii Bool Arith ZArith Lia.
From Coq Require String.
Import String.StringSyntax.
From DT Require Import PyStr Sexp PyVal TyExpr Extracted PureUtils Defaults PyAst IR EmitAst ParseAst C02Spec C02Codec.
From DT Require Import PyStrFacts PureUtilsFacts ParseAstFacts.
From DT Require EmitAstFacts C06Facts DocParseFacts.
Import ListNotations.

(* ================================================================== *)
(* Part 1: the body loop in closed form                                 *)
(* ================================================================== *)

Definition upd1 (x : attr) (kv : str * gparam) : str * gparam :=
  (fst kv, mkG (g_doc (snd kv)) (Has (at_typ x)) (Some (at_def x))).

Fixpoint zipupd (xs : list attr) (todo : list (str * gparam)) : list (str * gparam) :=
  match xs, todo with
  | x :: xs', kv :: todo' => upd1 x kv :: zipupd xs' todo'
  | _, _ => todo
  end.

Definition fresh (x : attr) : str * gparam := (at_name x, mkG Missing (Has (at_typ x)) (Some (at_def x))).

Definition ret_upd (xsR : list attr) (r : fld gparam) : fld gparam :=
  match xsR with
  | x :: _ => Has (mkG (match r with Has old => g_doc old | _ => Missing end) (Has (at_typ x)) (Some (at_def x)))
  | [] => r
  end.

Definition not_assign (s : stmt) : bool := negb (is_assignment s).

Lemma zipupd_keys : forall xs todo, keys (zipupd xs todo) = keys todo.
Proof.
  induction xs as [|x xs IH]; intros [|kv todo]; cbn [zipupd keys map]; try reflexivity.
  cbn [upd1 fst]. f_equal. apply IH.
Qed.

Lemma keys_app : forall {A} (a b : list (str * A)), keys (a ++ b) = keys a ++ keys b.
Proof. intros A a b. unfold keys. apply map_app. Qed.

Lemma od_get_app_notin : forall {A} k (a b : list (str * A)), ~ In k (keys a) -> od_get k (a ++ b) = od_get k b.
Proof.
  intros A k a b. induction a as [|[k' v'] a IH]; cbn [app od_get keys map fst In]; intros Hn; [reflexivity|].
  destruct (str_eqb k k') eqn:E.
  - apply str_eqb_eq in E. subst k'. exfalso. apply Hn. left. reflexivity.
  - apply IH. intros H. apply Hn. right. exact H.
Qed.

Lemma od_set_app_notin : forall {A} k (v : A) (a b : list (str * A)),
    ~ In k (keys a) -> od_set k v (a ++ b) = a ++ od_set k v b.
Proof.
  intros A k v a b. induction a as [|[k' v'] a IH]; cbn [app od_set keys map fst In]; intros Hn; [reflexivity|].
  destruct (str_eqb k k') eqn:E.
  - apply str_eqb_eq in E. subst k'. exfalso. apply Hn. left. reflexivity.
  - f_equal. apply IH. intros H. apply Hn. right. exact H.
Qed.

Lemma od_pop_app_notin : forall {A} k (a b : list (str * A)),
    ~ In k (keys a) -> od_pop k (a ++ b) = a ++ od_pop k b.
Proof.
  intros A k a b. induction a as [|[k' v'] a IH]; cbn [app od_pop keys map fst In]; intros Hn; [reflexivity|].
  destruct (str_eqb k k') eqn:E.
  - apply str_eqb_eq in E. subst k'. exfalso. apply Hn. left. reflexivity.
  - f_equal. apply IH. intros H. apply Hn. right. exact H.
Qed.

Lemma NoDup_app_l : forall (a b : list str), NoDup (a ++ b) -> NoDup a.
Proof.
  induction a as [|x a IH]; intros b H; [constructor|]. cbn [app] in H. inversion H as [|y l Hx Hr]; subst.
  constructor; [|eapply IH; exact Hr]. intros Hin. apply Hx. apply in_or_app. left. exact Hin.
Qed.

Lemma NoDup_app_notin : forall (a b : list str) x, NoDup (a ++ x :: b) -> ~ In x a.
Proof.
  intros a b x H Hin. apply NoDup_remove_2 in H. apply H. apply in_or_app. left. exact Hin.
Qed.

(* one documented attribute: the entry is updated where it stands *)
Lemma class_annassign_documented : forall x done k g todo returns,
    attr_ok x -> at_name x = k -> ~ In k (keys done) ->
    class_annassign (done ++ (k, g) :: todo) returns (EName (at_name x)) (at_ann x) (at_val x)
    = Ok (done ++ upd1 x (k, g) :: todo, returns).
Proof.
  intros x done k g todo returns [Hc Hd] Hk Hn. unfold class_annassign. rewrite Hc, Hd. cbn [bind target_id].
  rewrite Hk. rewrite (od_get_app_notin k done _ Hn). cbn [od_get]. rewrite str_eqb_refl.
  rewrite (od_set_app_notin k _ done _ Hn). cbn [od_set]. rewrite str_eqb_refl. reflexivity.
Qed.

Lemma loop_documented : forall xs done todo returns rest,
    map at_name xs = keys todo -> NoDup (keys done ++ keys todo) -> Forall attr_ok xs ->
    class_body_loop (done ++ todo) returns (map attr_stmt xs ++ rest)
    = class_body_loop (done ++ zipupd xs todo) returns rest.
Proof.
  induction xs as [|x xs IH]; intros done todo returns rest Hk Hnd Hok.
  - destruct todo; [|discriminate Hk]. reflexivity.
  - destruct todo as [|[k g] todo]; [discriminate Hk|].
    cbn [map keys fst] in Hk. injection Hk as Hk1 Hk2.
    inversion Hok as [|x' xs' Hx Hxs]; subst x' xs'.
    cbn [map app]. unfold attr_stmt at 1. cbn [class_body_loop].
    assert (Hn : ~ In k (keys done)) by (eapply NoDup_app_notin; exact Hnd).
    rewrite (class_annassign_documented x done k g todo returns Hx Hk1 Hn). cbn [bind fst snd zipupd].
    change (done ++ upd1 x (k, g) :: zipupd xs todo) with (done ++ [upd1 x (k, g)] ++ zipupd xs todo).
    change (done ++ upd1 x (k, g) :: todo) with (done ++ [upd1 x (k, g)] ++ todo).
    rewrite !app_assoc. apply IH.
    + exact Hk2.
    + rewrite keys_app. cbn [keys map upd1 fst app]. rewrite <- app_assoc. exact Hnd.
    + exact Hxs.
Qed.

(* one undocumented attribute other than return_type: appended *)
Lemma class_annassign_fresh : forall x acc returns,
    attr_ok x -> ~ In (at_name x) (keys acc) -> at_name x <> return_type_key -> returns <> Missing ->
    class_annassign acc returns (EName (at_name x)) (at_ann x) (at_val x) = Ok (acc ++ [fresh x], returns).
Proof.
  intros x acc returns [Hc Hd] Hn Hr Hm. unfold class_annassign. rewrite Hc, Hd. cbn [bind target_id].
  assert (Hg : od_get (at_name x) acc = None) by (apply od_get_None_iff; exact Hn).
  rewrite Hg. apply str_eqb_neq in Hr.
  destruct returns as [| |old]; [contradiction|rewrite Hr|rewrite Hr];
    rewrite (od_set_keys_notin _ _ _ Hn); reflexivity.
Qed.

Lemma loop_undocumented : forall xs acc returns rest,
    NoDup (keys acc ++ map at_name xs) -> ~ In return_type_key (map at_name xs) -> returns <> Missing ->
    Forall attr_ok xs ->
    class_body_loop acc returns (map attr_stmt xs ++ rest)
    = class_body_loop (acc ++ map fresh xs) returns rest.
Proof.
  induction xs as [|x xs IH]; intros acc returns rest Hnd Hr Hm Hok.
  - cbn [map app]. rewrite app_nil_r. reflexivity.
  - inversion Hok as [|x' xs' Hx Hxs]; subst x' xs'. cbn [map app]. unfold attr_stmt at 1. cbn [class_body_loop].
    assert (Hn : ~ In (at_name x) (keys acc)) by (eapply NoDup_app_notin; exact Hnd).
    assert (Hne : at_name x <> return_type_key).
    { intros He. apply Hr. left. exact He. }
    rewrite (class_annassign_fresh x acc returns Hx Hn Hne Hm). cbn [bind fst snd].
    rewrite IH.
    + rewrite <- app_assoc. reflexivity.
    + rewrite keys_app. cbn [keys map fresh fst]. rewrite <- app_assoc. exact Hnd.
    + intros H. apply Hr. right. exact H.
    + exact Hm.
    + exact Hxs.
Qed.

(* the attribute return_type, not among the parameters: goes to "returns" *)
Lemma class_annassign_return : forall x acc returns,
    attr_ok x -> at_name x = return_type_key -> ~ In return_type_key (keys acc) -> returns <> Missing ->
    class_annassign acc returns (EName (at_name x)) (at_ann x) (at_val x) = Ok (acc, ret_upd [x] returns).
Proof.
  intros x acc returns [Hc Hd] Hk Hn Hm. unfold class_annassign. rewrite Hc, Hd. cbn [bind target_id].
  rewrite Hk. assert (Hg : od_get return_type_key acc = None) by (apply od_get_None_iff; exact Hn).
  rewrite Hg. destruct returns as [| |old]; [contradiction| |]; rewrite str_eqb_refl; reflexivity.
Qed.

Lemma loop_skip : forall meth acc returns,
    forallb not_assign meth = true -> class_body_loop acc returns meth = Ok (acc, returns).
Proof.
  induction meth as [|s meth IH]; intros acc returns H; [reflexivity|].
  cbn [forallb] in H. apply andb_true_iff in H. destruct H as [Hs Hm].
  destruct s; cbn [not_assign is_assignment negb] in Hs; try discriminate Hs; cbn [class_body_loop]; apply IH; exact Hm.
Qed.

Definition xsR_ok (xsR : list attr) : Prop :=
  xsR = [] \/ exists x, xsR = [x] /\ at_name x = return_type_key.

Theorem class_loop_emitted : forall xsP xsU xsR D0 returns0 meth,
    map at_name xsP = keys D0 ->
    NoDup (keys D0 ++ map at_name xsU) ->
    ~ In return_type_key (keys D0 ++ map at_name xsU) ->
    returns0 <> Missing ->
    xsR_ok xsR ->
    Forall attr_ok (xsP ++ xsU ++ xsR) ->
    forallb not_assign meth = true ->
    class_body_loop D0 returns0 (map attr_stmt (xsP ++ xsU ++ xsR) ++ meth)
    = Ok (zipupd xsP D0 ++ map fresh xsU, ret_upd xsR returns0).
Proof.
  intros xsP xsU xsR D0 returns0 meth HkP Hnd Hrt Hm HR Hok Hmeth.
  apply Forall_app in Hok. destruct Hok as [HokP Hok]. apply Forall_app in Hok. destruct Hok as [HokU HokR].
  rewrite !map_app, <- !app_assoc.
  change D0 with ([] ++ D0) at 1.
  rewrite (loop_documented xsP [] D0 returns0 _ HkP); [|cbn [keys map app]; eapply NoDup_app_l; exact Hnd|exact HokP].
  cbn [app].
  rewrite (loop_undocumented xsU (zipupd xsP D0) returns0 _); [|rewrite zipupd_keys; exact Hnd| |exact Hm|exact HokU].
  2:{ intros H. apply Hrt. apply in_or_app. right. exact H. }
  destruct HR as [HR|[x [HR Hx]]]; subst xsR.
  - cbn [map app ret_upd]. apply loop_skip. exact Hmeth.
  - cbn [map app]. unfold attr_stmt at 1. cbn [class_body_loop].
    inversion HokR as [|x' l' Hxok _]; subst x' l'.
    rewrite (class_annassign_return x _ returns0 Hxok Hx); [| |exact Hm].
    + cbn [bind fst snd]. apply loop_skip. exact Hmeth.
    + rewrite keys_app, zipupd_keys. unfold keys at 2. rewrite map_map. cbn [fresh fst].
      exact Hrt.
Qed.

(* ================================================================== *)
(* Part 2: names and order                                              *)
(* ================================================================== *)

(* ---- what emit.class_ produces ---- *)

Lemma call_meth_of_dict_shape : forall pt ids ww p m,
    call_meth_of_dict pt ids ww p = Ok m -> not_assign m = true.
Proof.
  intros pt ids ww p m H. unfold call_meth_of_dict in H. binv H. binv H. inversion H; subst m. reflexivity.
Qed.

Lemma emit_class_inv : forall pt i ec cn bs ds ww tds s i0,
    emit_class pt i ec cn bs ds ww tds = Ok (s, i0) ->
    exists text attrs meth,
      tds = Ok text
      /\ map_outcome (fun kv => do r <- param2ast pt (fst kv) (snd kv); Ok (fst r))
                     (ir_params (class_fold_returns i)) = Ok attrs
      /\ s = SClass cn (map EName bs)
                    (SExpr (EConst (VStr (set_value_str (class_docstring text)))) :: attrs ++ meth) (map EName ds)
      /\ forallb not_assign meth = true
      /\ (ec = false -> meth = [])
      /\ i0 = i.
Proof.
  intros pt i ec cn bs ds ww tds s i0 H. unfold emit_class in H.
  binv H. rename a into ib. binv H. rename a into text. binv H. rename a into meth. binv H. rename a into attrs.
  inversion H; subst s i0. exists text, attrs, meth.
  split; [exact Ha0|]. split; [exact Ha2|]. split; [reflexivity|]. split; [|split; [|reflexivity]].
  - destruct ec; [|inversion Ha1; reflexivity].
    destruct ib as [[|s0 b]|].
    + inversion Ha1; reflexivity.
    + inversion Ha1; reflexivity.
    + destruct (od_get (L "return_type") (ir_params (class_fold_returns i))) as [p|]; [|discriminate Ha1].
      destruct (gparam_nonempty p).
      * binv Ha1. inversion Ha1; subst meth. cbn [forallb]. rewrite (call_meth_of_dict_shape _ _ _ _ _ Ha3). reflexivity.
      * inversion Ha1; reflexivity.
  - intros He. subst ec. inversion Ha1; reflexivity.
Qed.

Lemma map_outcome_attr_shapes : forall pt (l : list (str * gparam)) attrs,
    map_outcome (fun kv => do r <- param2ast pt (fst kv) (snd kv); Ok (fst r)) l = Ok attrs ->
    Forall2 (fun kv s => exists a v, s = SAnnAssign (EName (fst kv)) a (Some v)) l attrs.
Proof.
  intros pt l. induction l as [|[k g] l IH]; intros attrs H; cbn [map_outcome] in H.
  - inversion H; subst. constructor.
  - binv H. binv H. inversion H; subst attrs. binv Ha. destruct a1 as [s g']. inversion Ha; subst a.
    constructor; [|apply IH; exact Ha0].
    cbn [fst snd] in *. eapply C06Facts.param2ast_shape. exact Ha1.
Qed.

(* ---- the parser on such a class ---- *)

Definition split_return (d : ir) : list (str * gparam) * fld gparam :=
  match od_get return_type_key (ir_params d) with
  | Some g => (od_pop return_type_key (ir_params d), Has g)
  | None => (ir_params d, ir_returns d)
  end.

Lemma parse_class_on_emitted : forall d cn bases decos ds body it ww,
    parse_class (Some (Ok d)) (CStmt (SClass cn bases (SExpr (EConst (VStr ds)) :: body) decos)) None it ww
    = (do r <- class_body_loop (fst (split_return d)) (snd (split_return d)) body;
       do params2 <- set_names_and_types (fst r) it ww;
       Ok (mkIR (ir_name d) (ir_type d) (ir_doc d) params2 (snd r)
                (Some (mkInternal (filter (fun s => negb (is_assignment s)) body) (Has cn) (Has (L "cls")))))).
Proof.
  intros d cn bases decos ds body it ww. unfold parse_class, split_return.
  cbn [find_class is_class_other bind docstring_of tl].
  destruct (od_get return_type_key (ir_params d)) as [g|]; cbn [fst snd];
    destruct (class_body_loop _ _ body) as [[p1 r1]|e]; reflexivity.
Qed.

(* success of the loop on attribute statements yields the attribute records *)
Lemma loop_success_attrs : forall (kvs : list (str * gparam)) stmts rest p r res,
    Forall2 (fun kv s => exists a v, s = SAnnAssign (EName (fst kv)) a (Some v)) kvs stmts ->
    class_body_loop p r (stmts ++ rest) = Ok res ->
    exists xs, stmts = map attr_stmt xs /\ map at_name xs = map fst kvs /\ Forall attr_ok xs.
Proof.
  intros kvs stmts rest p r res HF. revert p r. induction HF as [|kv s kvs stmts [a [v Hs]] HF IH]; intros p r H.
  - exists []. split; [reflexivity|]. split; [reflexivity|constructor].
  - subst s. cbn [app class_body_loop] in H. binv H. destruct a0 as [p1 r1]. cbn [fst snd] in H.
    destruct (IH _ _ H) as [xs [Hxs [Hn Hok]]].
    unfold class_annassign in Ha. binv Ha. rename a0 into typ. binv Ha. rename a0 into dv.
    exists (mkAttr (fst kv) a (Some v) typ dv :: xs). split; [|split].
    + cbn [map]. unfold attr_stmt at 1. cbn [at_name at_ann at_val]. rewrite Hxs. reflexivity.
    + cbn [map at_name]. rewrite Hn. reflexivity.
    + constructor; [|exact Hok]. split; assumption.
Qed.

(* ---- documented prefix, undocumented suffix ---- *)

Lemma undoc_true_all : forall ps, undocumented_precedes true ps = false -> forallb (fun kv => negb (documented kv)) ps = true.
Proof.
  induction ps as [|[n g] ps IH]; intros H; [reflexivity|]. cbn [undocumented_precedes] in H.
  cbn [forallb]. unfold documented at 1. cbn [snd]. destruct (prose_of g) as [doc|]; [discriminate H|].
  cbn [negb andb]. apply IH. exact H.
Qed.

Lemma undoc_split : forall ps,
    undocumented_precedes false ps = false ->
    exists P U, ps = P ++ U /\ forallb documented P = true /\ forallb (fun kv => negb (documented kv)) U = true.
Proof.
  induction ps as [|[n g] ps IH]; intros H.
  - exists [], []. repeat split; reflexivity.
  - cbn [undocumented_precedes] in H. destruct (prose_of g) as [doc|] eqn:Ep.
    + cbn [orb] in H. destruct (IH H) as [P [U [Hps [HP HU]]]].
      exists ((n, g) :: P), U. split; [rewrite Hps; reflexivity|]. split; [|exact HU].
      cbn [forallb]. unfold documented at 1. cbn [snd]. rewrite Ep. exact HP.
    + exists [], ((n, g) :: ps). split; [reflexivity|]. split; [reflexivity|].
      cbn [forallb]. unfold documented at 1. cbn [snd]. rewrite Ep. cbn [negb andb]. apply undoc_true_all. exact H.
Qed.

Lemma filter_all : forall {A} (f : A -> bool) l, forallb f l = true -> filter f l = l.
Proof.
  intros A f l. induction l as [|x l IH]; intros H; [reflexivity|]. cbn [forallb] in H.
  apply andb_true_iff in H. destruct H as [Hx Hl]. cbn [filter]. rewrite Hx, (IH Hl). reflexivity.
Qed.

Lemma filter_none : forall {A} (f : A -> bool) l, forallb (fun x => negb (f x)) l = true -> filter f l = [].
Proof.
  intros A f l. induction l as [|x l IH]; intros H; [reflexivity|]. cbn [forallb] in H.
  apply andb_true_iff in H. destruct H as [Hx Hl]. apply negb_true_iff in Hx. cbn [filter]. rewrite Hx. apply IH. exact Hl.
Qed.

(* ---- the comparison relation on lists ---- *)

Lemma same_params_app_inv : forall cmp a1 a2 b,
    same_params cmp (a1 ++ a2) b = true ->
    exists b1 b2, b = b1 ++ b2 /\ same_params cmp a1 b1 = true /\ same_params cmp a2 b2 = true.
Proof.
  intros cmp a1. induction a1 as [|[n1 p1] a1 IH]; intros a2 b H.
  - exists [], b. split; [reflexivity|]. split; [reflexivity|exact H].
  - cbn [app same_params] in H. destruct b as [|[n2 p2] b]; [discriminate H|].
    apply andb_true_iff in H. destruct H as [H Hr]. destruct (IH _ _ Hr) as [b1 [b2 [Hb [H1 H2]]]].
    exists ((n2, p2) :: b1), b2. split; [rewrite Hb; reflexivity|]. split; [|exact H2].
    cbn [same_params]. rewrite H, H1. reflexivity.
Qed.

Lemma same_params_keys : forall cmp a b, same_params cmp a b = true -> keys b = keys a.
Proof.
  intros cmp a. induction a as [|[n1 p1] a IH]; intros [|[n2 p2] b] H; cbn [same_params] in H; try discriminate H.
  - reflexivity.
  - apply andb_true_iff in H. destruct H as [H Hr]. apply andb_true_iff in H. destruct H as [Hn _].
    apply str_eqb_eq in Hn. subst n2. cbn [keys map fst]. f_equal. apply IH. exact Hr.
Qed.

Lemma same_params_nil_r : forall cmp b, same_params cmp [] b = true -> b = [].
Proof. intros cmp [|[n p] b] H; [reflexivity|discriminate H]. Qed.

Lemma same_params_single : forall cmp n p b,
    same_params cmp [(n, p)] b = true -> exists g, b = [(n, g)] /\ cmp p g = true.
Proof.
  intros cmp n p [|[n2 g] b] H; cbn [same_params] in H; [discriminate H|].
  apply andb_true_iff in H. destruct H as [H Hr]. apply andb_true_iff in H. destruct H as [Hn Hc].
  apply str_eqb_eq in Hn. subst n2. destruct b as [|[n3 p3] b]; [|discriminate Hr]. exists g. split; [reflexivity|exact Hc].
Qed.

(* ---- the domain ---- *)

Lemma names_distinct_NoDup : forall l, names_distinct l = true -> NoDup l.
Proof.
  induction l as [|x l IH]; intros H; [constructor|]. cbn [names_distinct] in H.
  apply andb_true_iff in H. destruct H as [Hx Hl]. constructor; [|apply IH; exact Hl].
  intros Hin. apply negb_true_iff in Hx.
  assert (Ht : existsb (str_eqb x) l = true).
  { apply existsb_exists. exists x. split; [exact Hin|apply str_eqb_refl]. }
  rewrite Ht in Hx. discriminate Hx.
Qed.

Lemma is_bare_word_no_star : forall n, is_bare_word n = true -> startswith [ch 42] n = false.
Proof.
  intros [|c n] H; [reflexivity|]. unfold is_bare_word in H.
  apply andb_true_iff in H. destruct H as [H _]. apply andb_true_iff in H. destruct H as [Hc _].
  cbn [startswith]. destruct (ascii_eqb (ch 42) c) eqn:E; [|reflexivity].
  apply ascii_eqb_eq in E. subst c. vm_compute in Hc. discriminate Hc.
Qed.

Definition name_ok_C02 (n : str) : bool :=
  ident_ok n || (kwargs_name n && ident_ok (lstrip_chars [ch 42] n) && negb (startswith [ch 42] n)).

Lemma name_ok_no_star : forall n, name_ok_C02 n = true -> startswith [ch 42] n = false.
Proof.
  intros n H. unfold name_ok_C02 in H. apply orb_true_iff in H. destruct H as [H|H].
  - unfold ident_ok in H. repeat (apply andb_true_iff in H; destruct H as [H _]). apply is_bare_word_no_star. exact H.
  - apply andb_true_iff in H. destruct H as [_ H]. apply negb_true_iff in H. exact H.
Qed.

Lemma name_ok_not_return : forall n, name_ok_C02 n = true -> n <> return_type_key.
Proof.
  intros n H He. subst n. vm_compute in H. discriminate H.
Qed.

Lemma C02_domain_facts : forall i,
    C02_domain i = true ->
    NoDup (map fst (ir_params i))
    /\ ~ In return_type_key (map fst (ir_params i))
    /\ forallb (fun n => negb (startswith [ch 42] n)) (map fst (ir_params i)) = true.
Proof.
  intros i H. unfold C02_domain in H. apply andb_true_iff in H. destruct H as [Hd Hn].
  split; [apply names_distinct_NoDup; exact Hd|].
  rewrite forallb_forall in Hn. split.
  - intros Hin. apply (name_ok_not_return return_type_key); [|reflexivity]. apply (Hn _ Hin).
  - apply forallb_forall. intros n Hin. apply negb_true_iff. apply name_ok_no_star. apply (Hn _ Hin).
Qed.

(* ---- the final map keeps names that do not start with a star ---- *)

Lemma set_name_and_type_name_nostar : forall n p it ww n' p',
    startswith [ch 42] n = false -> set_name_and_type n p it ww = Ok (n', p') -> n' = n.
Proof.
  intros n p it ww n' p' Hs H. unfold set_name_and_type in H.
  binv H. destruct a as [n1 p1].
  assert (Hn1 : n1 = n).
  { destruct (endswith (L "kwargs") n || startswith (L "**") n).
    - inversion Ha; subst n1. unfold lstrip_chars. apply lstrip_by_id.
      intros c Hc. destruct n as [|c0 n0]; [discriminate Hc|]. cbn [head_c] in Hc. inversion Hc; subst c0.
      cbn [startswith] in Hs. unfold mem_c. cbn [existsb]. rewrite ascii_eqb_sym.
      destruct (ascii_eqb (ch 42) c); [discriminate Hs|reflexivity].
    - destruct (g_default p) as [dv|]; [binv Ha|]; inversion Ha; reflexivity. }
  subst n1.
  destruct (g_doc p1) as [| |[|c r]];
    try (inversion H; reflexivity).
  destruct (startswith (L "(Optional)") _ || startswith (L "Optional") _);
    [|inversion H; reflexivity].
  destruct (match g_typ p1 with Has t => _ | x => x end) as [| |t];
    try discriminate H; try (inversion H; reflexivity).
  destruct (startswith (L "Optional[") t); inversion H; reflexivity.
Qed.

Lemma pa_mapM_names_nostar : forall (ps l : list (str * gparam)) it ww,
    forallb (fun n => negb (startswith [ch 42] n)) (map fst ps) = true ->
    pa_mapM (fun kv => set_name_and_type (fst kv) (snd kv) it ww) ps = Ok l ->
    map fst l = map fst ps.
Proof.
  induction ps as [|[k g] ps IH]; intros l it ww Hp H; cbn [pa_mapM] in H.
  - inversion H; reflexivity.
  - cbn [map forallb fst] in Hp. apply andb_true_iff in Hp. destruct Hp as [Hk Hps]. apply negb_true_iff in Hk.
    binv H. binv H. inversion H; subst l. destruct a as [n' p']. cbn [map fst]. cbn [fst snd] in Ha.
    apply set_name_and_type_name_nostar in Ha; [|exact Hk]. subst n'. f_equal. eapply IH; eassumption.
Qed.

Lemma set_names_and_types_names_nostar : forall ps ps' it ww,
    NoDup (map fst ps) ->
    forallb (fun n => negb (startswith [ch 42] n)) (map fst ps) = true ->
    set_names_and_types ps it ww = Ok ps' ->
    map fst ps' = map fst ps.
Proof.
  intros ps ps' it ww Hnd Hp H. unfold set_names_and_types in H. binv H. inversion H; subst ps'.
  pose proof (pa_mapM_names_nostar ps a it ww Hp Ha) as Hk.
  rewrite od_of_pairs_id; [exact Hk|]. unfold keys. rewrite Hk. exact Hnd.
Qed.

(* ---- the IR emit.class_ works on, and the docstring IR ---- *)

Definition ret_entry (i : ir) : list (str * gparam) :=
  match ir_returns i with Has r => [(return_type_key, r)] | _ => [] end.

Lemma fold_returns_params : forall i,
    ~ In return_type_key (map fst (ir_params i)) ->
    ir_params (class_fold_returns i) = ir_params i ++ ret_entry i.
Proof.
  intros i Hn. unfold class_fold_returns, ret_entry. destruct (ir_returns i) as [| |r]; cbn [ir_params];
    try (rewrite app_nil_r; reflexivity).
  apply od_set_keys_notin. exact Hn.
Qed.

(* the shape of d under doc_agrees *)
Lemma doc_agrees_split : forall i d P U,
    doc_agrees i d = true ->
    ~ In return_type_key (map fst (ir_params i)) ->
    ir_params i = P ++ U -> forallb documented P = true -> forallb (fun kv => negb (documented kv)) U = true ->
    exists D0 Dr,
      ir_params d = D0 ++ Dr /\ ir_returns d = FNone
      /\ same_params same_prose P D0 = true
      /\ same_params same_prose (filter documented (ret_entry i)) Dr = true.
Proof.
  intros i d P U H Hn Hps HP HU. unfold doc_agrees in H. apply andb_true_iff in H. destruct H as [H Hr].
  rewrite (fold_returns_params i Hn), Hps, !filter_app, (filter_all _ _ HP), (filter_none _ _ HU) in H.
  rewrite app_nil_r in H. apply same_params_app_inv in H. destruct H as [D0 [Dr [Hd [H0 H1]]]].
  exists D0, Dr. split; [exact Hd|]. split; [|split; assumption].
  destruct (ir_returns d); try discriminate Hr. reflexivity.
Qed.

Lemma split_return_of : forall d D0 Dr,
    ir_params d = D0 ++ Dr -> ir_returns d = FNone -> ~ In return_type_key (keys D0) ->
    (Dr = [] \/ exists g, Dr = [(return_type_key, g)]) ->
    split_return d = (D0, match Dr with (_, g) :: _ => Has g | [] => FNone end).
Proof.
  intros d D0 Dr Hd Hr Hn HDr. unfold split_return. rewrite Hd, Hr.
  rewrite (od_get_app_notin _ D0 Dr Hn). destruct HDr as [HDr|[g HDr]]; subst Dr.
  - cbn [od_get]. rewrite app_nil_r. reflexivity.
  - cbn [od_get]. rewrite str_eqb_refl. rewrite (od_pop_app_notin _ D0 _ Hn). cbn [od_pop]. rewrite str_eqb_refl.
    rewrite app_nil_r. reflexivity.
Qed.

(* the whole pipeline up to the final map, given attribute records for the emitted statements *)
Lemma parse_emitted_params : forall i d P U xs meth,
    NoDup (map fst (ir_params i)) ->
    ~ In return_type_key (map fst (ir_params i)) ->
    ir_params i = P ++ U -> forallb documented P = true -> forallb (fun kv => negb (documented kv)) U = true ->
    doc_agrees i d = true ->
    map at_name xs = map fst (ir_params i ++ ret_entry i) ->
    Forall attr_ok xs ->
    forallb not_assign meth = true ->
    exists xsP xsU xsR D0 Dr,
      xs = xsP ++ xsU ++ xsR
      /\ map at_name xsP = map fst P /\ map at_name xsU = map fst U /\ map at_name xsR = map fst (ret_entry i)
      /\ same_params same_prose P D0 = true
      /\ same_params same_prose (filter documented (ret_entry i)) Dr = true
      /\ class_body_loop (fst (split_return d)) (snd (split_return d)) (map attr_stmt xs ++ meth)
         = Ok (zipupd xsP D0 ++ map fresh xsU,
               ret_upd xsR (match Dr with (_, g) :: _ => Has g | [] => FNone end)).
Proof.
  intros i d P U xs meth Hnd Hrt Hps HP HU Hda Hnames Hok Hmeth.
  destruct (doc_agrees_split i d P U Hda Hrt Hps HP HU) as [D0 [Dr [Hd [Hr [H0 H1]]]]].
  rewrite Hps, !map_app in Hnames.
  apply map_eq_app in Hnames. destruct Hnames as [xsPU [xsR [Hxs [HnPU HnR]]]].
  apply map_eq_app in HnPU. destruct HnPU as [xsP [xsU [HxsPU [HnP HnU]]]].
  subst xs xsPU. rewrite <- app_assoc in *.
  exists xsP, xsU, xsR, D0, Dr.
  split; [reflexivity|]. split; [exact HnP|]. split; [exact HnU|]. split; [exact HnR|].
  split; [exact H0|]. split; [exact H1|].
  assert (HkD0 : keys D0 = map fst P) by (apply (same_params_keys _ _ _ H0)).
  assert (Hnd' : NoDup (keys D0 ++ map at_name xsU)).
  { rewrite HkD0, HnU, <- map_app, <- Hps. exact Hnd. }
  assert (Hrt' : ~ In return_type_key (keys D0 ++ map at_name xsU)).
  { rewrite HkD0, HnU, <- map_app, <- Hps. exact Hrt. }
  assert (HDr : Dr = [] \/ exists g, Dr = [(return_type_key, g)]).
  { unfold ret_entry in H1. destruct (ir_returns i) as [| |r]; cbn [filter] in H1;
      try (left; apply (same_params_nil_r _ _ H1)).
    destruct (documented (return_type_key, r)).
    - right. apply same_params_single in H1. destruct H1 as [g [Hg _]]. exists g. exact Hg.
    - left. apply (same_params_nil_r _ _ H1). }
  rewrite (split_return_of d D0 Dr Hd Hr); [|intros Hin; apply Hrt'; apply in_or_app; left; exact Hin|exact HDr].
  cbn [fst snd].
  apply class_loop_emitted; try assumption.
  - rewrite HnP, HkD0. reflexivity.
  - destruct Dr as [|[k g] Dr]; discriminate.
  - unfold xsR_ok. unfold ret_entry in HnR. destruct (ir_returns i) as [| |r]; cbn [map] in HnR.
    + left. destruct xsR; [reflexivity|discriminate HnR].
    + left. destruct xsR; [reflexivity|discriminate HnR].
    + right. destruct xsR as [|x [|y xsR]]; try discriminate HnR. exists x. split; [reflexivity|].
      cbn [map fst] in HnR. inversion HnR. reflexivity.
Qed.

(* names and order, and presence of the return entry: whatever the types and defaults *)
Theorem C02_names_order_lemma : forall pt i ec cn bs ds ww tds d it ww' s i0 i',
    C02_domain i = true ->
    undocumented_precedes false (ir_params i) = false ->
    doc_agrees i d = true ->
    emit_class pt i ec cn bs ds ww tds = Ok (s, i0) ->
    parse_class (Some (Ok d)) (CStmt s) None it ww' = Ok i' ->
    map fst (ir_params i') = map fst (ir_params i)
    /\ match ir_returns i with
       | Has _ => exists r', ir_returns i' = Has r'
       | _ => ir_returns i' = FNone
       end.
Proof.
  intros pt i ec cn bs ds ww tds d it ww' s i0 i' Hdom Hup Hda Hemit Hparse.
  destruct (C02_domain_facts i Hdom) as [Hnd [Hrt Hstar]].
  destruct (undoc_split _ Hup) as [P [U [Hps [HP HU]]]].
  destruct (emit_class_inv _ _ _ _ _ _ _ _ _ _ Hemit) as [text [attrs [meth [Htds [Hattrs [Hs [Hmeth [_ Hi0]]]]]]]].
  subst s. rewrite parse_class_on_emitted in Hparse.
  binv Hparse. destruct a as [p1 r1]. cbn [fst snd] in Hparse. binv Hparse. inversion Hparse; subst i'. cbn [ir_params ir_returns].
  pose proof (map_outcome_attr_shapes _ _ _ Hattrs) as Hshapes.
  destruct (loop_success_attrs _ _ _ _ _ _ Hshapes Ha) as [xs [Hxs [Hnames Hok]]].
  rewrite (fold_returns_params i Hrt) in Hnames.
  destruct (parse_emitted_params i d P U xs meth Hnd Hrt Hps HP HU Hda Hnames Hok Hmeth)
    as [xsP [xsU [xsR [D0 [Dr [Hsplit [HnP [HnU [HnR [H0 [H1 Hloop]]]]]]]]]]].
  rewrite Hxs, Hloop in Ha. inversion Ha; subst p1 r1.
  assert (Hkeys : map fst (zipupd xsP D0 ++ map fresh xsU) = map fst (ir_params i)).
  { rewrite map_app. fold (keys (zipupd xsP D0)). rewrite zipupd_keys, (same_params_keys _ _ _ H0).
    rewrite map_map. change (map (fun x => fst (fresh x)) xsU) with (map at_name xsU).
    rewrite HnU, Hps, map_app. reflexivity. }
  split.
  - rewrite <- Hkeys. eapply set_names_and_types_names_nostar; [| |exact Ha0].
    + rewrite Hkeys. exact Hnd.
    + rewrite Hkeys. exact Hstar.
  - unfold ret_entry in HnR, H1. destruct (ir_returns i) as [| |r]; cbn [map filter] in HnR, H1.
    + destruct xsR; [|discriminate HnR]. apply same_params_nil_r in H1. subst Dr. reflexivity.
    + destruct xsR; [|discriminate HnR]. apply same_params_nil_r in H1. subst Dr. reflexivity.
    + destruct xsR as [|x xsR]; [discriminate HnR|]. cbn [ret_upd]. eexists. reflexivity.
Qed.

(* ================================================================== *)
(* Part 3: types -- ast.unparse (ast.parse t) = t on the fragment       *)
(* ================================================================== *)

Section TyInd.
  Variable P : ty -> Prop.
  Hypothesis Hname : forall parts, P (TName parts).
  Hypothesis Hsub : forall head args, Forall P args -> P (TSub head args).
  Hypothesis Hstr : forall s, P (TStrLit s).
  Hypothesis Hint : forall z, P (TIntLit z).
  Hypothesis Hconst : forall v, P (TConst v).
  Hypothesis Hlist : forall elts, Forall P elts -> P (TList elts).

  Fixpoint ty_ind' (t : ty) : P t :=
    let go := (fix go (l : list ty) : Forall P l :=
                 match l with
                 | [] => Forall_nil P
                 | x :: r => Forall_cons x (ty_ind' x) (go r)
                 end) in
    match t with
    | TName parts => Hname parts
    | TSub head args => Hsub head args (go args)
    | TStrLit s => Hstr s
    | TIntLit z => Hint z
    | TConst v => Hconst v
    | TList elts => Hlist elts (go elts)
    end.
End TyInd.

Fixpoint commas_ty (l : list ty) : str :=
  match l with
  | [] => []
  | [x] => show_ty x
  | x :: r => show_ty x ++ L ", " ++ commas_ty r
  end.

Lemma commas_ty_join : forall l, commas_ty l = join (L ", ") (map show_ty l).
Proof.
  induction l as [|x [|y r] IH]; [reflexivity|reflexivity|].
  change (commas_ty (x :: y :: r)) with (show_ty x ++ L ", " ++ commas_ty (y :: r)).
  rewrite IH. reflexivity.
Qed.

Lemma commas_go_eq : forall l,
    (fix go (l : list ty) : str :=
       match l with
       | [] => []
       | [x] => show_ty x
       | x :: r => show_ty x ++ L ", " ++ go r
       end) l = commas_ty l.
Proof.
  induction l as [|x [|y r] IH]; [reflexivity|reflexivity|].
  change (commas_ty (x :: y :: r)) with (show_ty x ++ L ", " ++ commas_ty (y :: r)).
  rewrite <- IH. reflexivity.
Qed.

Lemma show_ty_sub : forall head args,
    show_ty (TSub head args) = join [ch 46] head ++ ch 91 :: commas_ty args ++ [ch 93].
Proof. intros head args. cbn [show_ty]. rewrite commas_go_eq. reflexivity. Qed.

Lemma show_ty_list : forall elts, show_ty (TList elts) = ch 91 :: commas_ty elts ++ [ch 93].
Proof. intros elts. cbn [show_ty]. rewrite commas_go_eq. reflexivity. Qed.

Lemma tys_go_eq : forall l,
    (fix go (l : list ty) : option (list expr) :=
       match l with
       | [] => Some []
       | x :: r => match ty2expr x, go r with
                   | Some a, Some b => Some (a :: b)
                   | _, _ => None
                   end
       end) l = tys2exprs l.
Proof. induction l as [|x l IH]; [reflexivity|]. cbn [tys2exprs]. rewrite <- IH. reflexivity. Qed.

Lemma ty2expr_sub : forall head args,
    ty2expr (TSub head args)
    = match chain_expr head, tys2exprs args with
      | Some h, Some [a] => Some (ESub h a)
      | Some h, Some (a :: b :: r) => Some (ESub h (ETuple (a :: b :: r)))
      | _, _ => None
      end.
Proof. intros head args. cbn [ty2expr]. rewrite tys_go_eq. reflexivity. Qed.

Lemma ty2expr_list : forall elts, ty2expr (TList elts) = option_map EList (tys2exprs elts).
Proof. intros elts. cbn [ty2expr]. rewrite tys_go_eq. reflexivity. Qed.

(* dotted names *)
Definition dots (r : list str) : str := concat (map (fun a => ch 46 :: a) r).

Lemma join_dots : forall h r, join [ch 46] (h :: r) = h ++ dots r.
Proof.
  intros h r. revert h. induction r as [|a r IH]; intros h.
  - cbn [join dots map concat]. rewrite app_nil_r. reflexivity.
  - change (join [ch 46] (h :: a :: r)) with (h ++ [ch 46] ++ join [ch 46] (a :: r)).
    rewrite IH. unfold dots. cbn [map concat app]. reflexivity.
Qed.

Definition name_like (e : expr) : Prop :=
  pa_is_int_const e = false /\ pa_is_opaque e = false /\ expr_ok e = true
  /\ (forall es, e <> ETuple es) /\ forall p q, show_prec p e = show_prec q e.

Lemma chain_fold : forall r e,
    name_like e ->
    name_like (fold_left (fun e a => EAttr e a) r e)
    /\ forall p, show_prec p (fold_left (fun e a => EAttr e a) r e) = show_prec p e ++ dots r.
Proof.
  induction r as [|a r IH]; intros e He.
  - cbn [fold_left dots map concat]. split; [exact He|]. intros p. rewrite app_nil_r. reflexivity.
  - cbn [fold_left]. destruct He as [Hi [Ho [Hok [Ht Hp]]]].
    assert (He' : name_like (EAttr e a)).
    { unfold name_like. cbn [pa_is_int_const pa_is_opaque expr_ok]. rewrite Ho, Hok.
      repeat split; try reflexivity. intros es; discriminate. }
    destruct (IH (EAttr e a) He') as [H1 H2]. split; [exact H1|].
    intros p. rewrite H2. cbn [show_prec]. rewrite Hi. cbn [app]. rewrite (Hp PR_ATOM p).
    unfold dots. cbn [map concat]. rewrite <- !app_assoc. reflexivity.
Qed.

Lemma chain_expr_ok : forall parts e,
    chain_expr parts = Some e ->
    name_like e /\ forall p, show_prec p e = join [ch 46] parts.
Proof.
  intros [|h r] e H; cbn [chain_expr] in H; [discriminate H|].
  destruct (existsb is_const_word (h :: r)); [discriminate H|]. inversion H; subst e.
  assert (Hn : name_like (EName h)).
  { unfold name_like. cbn [pa_is_int_const pa_is_opaque expr_ok show_prec]. repeat split; try reflexivity. intros es; discriminate. }
  destruct (chain_fold r (EName h) Hn) as [H1 H2]. split; [exact H1|].
  intros p. rewrite H2, join_dots. reflexivity.
Qed.

Lemma chain_expr_some : forall parts,
    existsb is_const_word parts = false -> parts <> [] -> exists e, chain_expr parts = Some e.
Proof.
  intros [|h r] Hc Hn; [contradiction|]. unfold chain_expr. rewrite Hc. eexists. reflexivity.
Qed.

(* string constants *)
Lemma printable_code : forall c, printable c = true -> 32 <= code c /\ code c <= 126.
Proof.
  intros c H. unfold printable in H. apply andb_true_iff in H. destruct H as [H1 H2].
  apply Nat.leb_le in H1. apply Nat.leb_le in H2. split; assumption.
Qed.

Lemma pa_repr_char_plain : forall q c,
    printable c = true -> ascii_eqb c (ch 92) = false -> ascii_eqb c q = false -> pa_repr_char q c = [c].
Proof.
  intros q c Hp Hb Hq. destruct (printable_code c Hp) as [H1 H2]. unfold pa_repr_char. rewrite Hb, Hq.
  replace (Nat.eqb (code c) 9) with false by (symmetry; apply Nat.eqb_neq; lia).
  replace (Nat.eqb (code c) 10) with false by (symmetry; apply Nat.eqb_neq; lia).
  replace (Nat.eqb (code c) 13) with false by (symmetry; apply Nat.eqb_neq; lia).
  replace (Nat.ltb (code c) 32) with false by (symmetry; apply Nat.ltb_ge; lia).
  replace (Nat.leb 127 (code c)) with false by (symmetry; apply Nat.leb_gt; lia).
  reflexivity.
Qed.

Lemma flat_map_id : forall (f : ascii -> str) s, (forall c, In c s -> f c = [c]) -> flat_map f s = s.
Proof.
  intros f s. induction s as [|c s IH]; intros H; [reflexivity|]. cbn [flat_map].
  rewrite (H c (or_introl eq_refl)). cbn [app]. f_equal. apply IH. intros x Hx. apply H. right. exact Hx.
Qed.

Lemma mem_c_false_neq : forall q s c, mem_c q s = false -> In c s -> ascii_eqb c q = false.
Proof.
  intros q s c Hm Hin. destruct (ascii_eqb c q) eqn:E; [|reflexivity].
  apply ascii_eqb_eq in E. subst c. apply mem_c_In in Hin. rewrite Hin in Hm. discriminate Hm.
Qed.

Lemma pa_repr_str_simple : forall s, simple_text s = true -> pa_repr_str s = py_repr_str s.
Proof.
  intros s H. unfold simple_text in H. apply andb_true_iff in H. destruct H as [H Hboth].
  apply andb_true_iff in H. destruct H as [Hp Hb]. apply negb_true_iff in Hb. apply negb_true_iff in Hboth.
  rewrite forallb_forall in Hp.
  unfold pa_repr_str, py_repr_str. fold sq. fold dq.
  destruct (mem_c sq s) eqn:Es; destruct (mem_c dq s) eqn:Ed; cbn [andb negb] in *; try discriminate Hboth.
  - rewrite flat_map_id; [reflexivity|]. intros c Hc. apply pa_repr_char_plain.
    + apply Hp. exact Hc.
    + apply (mem_c_false_neq _ s); assumption.
    + apply (mem_c_false_neq _ s); assumption.
  - rewrite flat_map_id; [reflexivity|]. intros c Hc. apply pa_repr_char_plain.
    + apply Hp. exact Hc.
    + apply (mem_c_false_neq _ s); assumption.
    + apply (mem_c_false_neq _ s); assumption.
  - rewrite flat_map_id; [reflexivity|]. intros c Hc. apply pa_repr_char_plain.
    + apply Hp. exact Hc.
    + apply (mem_c_false_neq _ s); assumption.
    + apply (mem_c_false_neq _ s); assumption.
Qed.

Lemma printable_ascii_only : forall s, forallb printable s = true -> pa_ascii_only s = true.
Proof.
  intros s H. unfold pa_ascii_only. rewrite forallb_forall in *. intros c Hc.
  destruct (printable_code c (H c Hc)) as [_ H2]. apply Nat.ltb_lt. lia.
Qed.

Definition ty_good (t : ty) : Prop :=
  exists e, ty2expr t = Some e /\ expr_ok e = true /\ show_prec PR_TEST e = show_ty t /\ forall es, e <> ETuple es.

Lemma tys_good : forall l,
    Forall (fun t => ty_ok t = true -> ty_good t) l -> forallb ty_ok l = true ->
    exists es, tys2exprs l = Some es /\ forallb expr_ok es = true
               /\ map (show_prec PR_TEST) es = map show_ty l
               /\ (forall a, es = [a] -> forall xs, a <> ETuple xs).
Proof.
  induction l as [|t l IH]; intros HF Hok.
  - exists []. repeat split; try reflexivity. intros a Ha; discriminate Ha.
  - inversion HF as [|t' l' Ht Hl]; subst t' l'. cbn [forallb] in Hok. apply andb_true_iff in Hok. destruct Hok as [Hokt Hokl].
    destruct (Ht Hokt) as [e [He [Heok [Hshow Hnt]]]]. destruct (IH Hl Hokl) as [es [Hes [Hesok [Hmap _]]]].
    exists (e :: es). cbn [tys2exprs]. rewrite He, Hes. split; [reflexivity|].
    cbn [forallb map]. rewrite Heok, Hesok, Hshow, Hmap. repeat split; try reflexivity.
    intros a Ha. inversion Ha; subst a. exact Hnt.
Qed.

Lemma items_view_two : forall x y r, pa_items_view (x :: y :: r) = join (L ", ") (x :: y :: r).
Proof. reflexivity. Qed.

Theorem ty_roundtrip : forall t, ty_ok t = true -> ty_good t.
Proof.
  induction t as [parts|head args IH|s|z|v|elts IH] using ty_ind'; intros Hok; cbn [ty_ok] in Hok.
  - (* TName *)
    apply andb_true_iff in Hok. destruct Hok as [Hc Hn]. apply negb_true_iff in Hc.
    assert (Hne : parts <> []) by (destruct parts; [discriminate Hn|discriminate]).
    destruct (chain_expr_some parts Hc Hne) as [e He]. destruct (chain_expr_ok parts e He) as [[_ [_ [Hk [Ht _]]]] Hs].
    exists e. cbn [ty2expr show_ty]. split; [exact He|]. split; [exact Hk|]. split; [apply Hs|exact Ht].
  - (* TSub *)
    apply andb_true_iff in Hok. destruct Hok as [Hok Hargs]. apply andb_true_iff in Hok. destruct Hok as [Hok Hna].
    apply andb_true_iff in Hok. destruct Hok as [Hc Hn]. apply negb_true_iff in Hc.
    assert (Hne : head <> []) by (destruct head; [discriminate Hn|discriminate]).
    destruct (chain_expr_some head Hc Hne) as [h Hh]. destruct (chain_expr_ok head h Hh) as [[_ [Hop [Hk _]]] Hs].
    destruct (tys_good args IH Hargs) as [es [Hes [Hesok [Hmap Hsingle]]]].
    unfold ty_good. rewrite ty2expr_sub, Hh, Hes, show_ty_sub, commas_ty_join, <- Hmap.
    destruct es as [|a [|b r]].
    + destruct args; [discriminate Hna|discriminate Hmap].
    + exists (ESub h a). split; [reflexivity|]. cbn [expr_ok forallb] in *. rewrite Hop, Hk.
      apply andb_true_iff in Hesok. destruct Hesok as [Hak _]. rewrite Hak.
      split; [reflexivity|]. split; [|intros xs; discriminate].
      cbn [show_prec]. rewrite Hs. cbn [map join].
      pose proof (Hsingle a eq_refl) as Hnt.
      destruct a; try reflexivity. exfalso. apply (Hnt es). reflexivity.
    + exists (ESub h (ETuple (a :: b :: r))). split; [reflexivity|]. cbn [expr_ok]. rewrite Hop, Hk, Hesok.
      split; [reflexivity|]. split; [|intros xs; discriminate].
      cbn [show_prec]. rewrite Hs. cbn [map]. rewrite items_view_two. reflexivity.
  - (* TStrLit *)
    exists (EConst (VStr s)). split; [reflexivity|]. pose proof Hok as Hst. unfold simple_text in Hok.
    apply andb_true_iff in Hok. destruct Hok as [Hok _]. apply andb_true_iff in Hok. destruct Hok as [Hp _].
    split; [cbn [expr_ok]; apply printable_ascii_only; exact Hp|]. split; [|intros es; discriminate].
    cbn [show_prec pa_show_const pa_repr show_ty]. apply pa_repr_str_simple. exact Hst.
  - (* TIntLit *)
    destruct z as [|p|p].
    + exists (EConst (VInt 0)). repeat split; try reflexivity. intros es; discriminate.
    + exists (EConst (VInt (Zpos p))). repeat split; try reflexivity. intros es; discriminate.
    + exists (EUnary (L "USub") (EConst (VInt (Zpos p)))). repeat split; try reflexivity. intros es; discriminate.
  - (* TConst *)
    exists (EConst v). split; [reflexivity|]. split; [destruct v; try discriminate Hok; reflexivity|].
    split; [|intros es; discriminate]. destruct v as [|[|]| | |]; try discriminate Hok; reflexivity.
  - (* TList *)
    destruct (tys_good elts IH Hok) as [es [Hes [Hesok [Hmap _]]]].
    unfold ty_good. exists (EList es). rewrite ty2expr_list, Hes. split; [reflexivity|]. split; [exact Hesok|].
    split; [|intros xs; discriminate]. rewrite show_ty_list, commas_ty_join, <- Hmap. reflexivity.
Qed.

(* ---- the type text ---- *)

Lemma typ_ast_inv : forall t e,
    typ_ast t = Some e ->
    forallb printable t = true
    /\ exists ty, parse_ty t = Some ty /\ ty_ok ty = true /\ show_ty ty = t /\ ty2expr ty = Some e.
Proof.
  intros t e H. unfold typ_ast in H.
  destruct (strip t); [discriminate H|].
  destruct (mem_c bt t && negb (mem_c sq t) && negb (mem_c dq t)); [discriminate H|].
  destruct t as [|c t']; [discriminate H|].
  destruct (ascii_eqb c sp || ascii_eqb c tabch); [discriminate H|].
  destruct (forallb printable (c :: t') && negb (comma_before_rb (c :: t') false)) eqn:Ep; [|discriminate H].
  apply andb_true_iff in Ep. destruct Ep as [Ep _].
  destruct (parse_ty (c :: t')) as [ty|]; [|discriminate H].
  destruct (ty_ok ty && str_eqb (show_ty ty) (c :: t')) eqn:Eo; [|discriminate H].
  apply andb_true_iff in Eo. destruct Eo as [Eo Es]. apply str_eqb_eq in Es.
  split; [exact Ep|]. exists ty. repeat split; assumption.
Qed.

(* the model parses the text without consulting the table *)
Lemma typ_ast_parse : forall pt t e, typ_ast t = Some e -> parse_expr_src pt t = Ok e.
Proof.
  intros pt t e H. unfold typ_ast in H. unfold parse_expr_src.
  destruct (strip t); [discriminate H|].
  destruct (mem_c bt t && negb (mem_c sq t) && negb (mem_c dq t)); [discriminate H|].
  destruct t as [|c t']; [discriminate H|].
  destruct (ascii_eqb c sp || ascii_eqb c tabch); [discriminate H|].
  destruct (forallb printable (c :: t') && negb (comma_before_rb (c :: t') false)); [|discriminate H].
  destruct (parse_ty (c :: t')) as [ty|]; [|discriminate H].
  destruct (ty_ok ty && str_eqb (show_ty ty) (c :: t')); [|discriminate H].
  rewrite H. reflexivity.
Qed.

Lemma rstrip_nl_printable : forall t, forallb printable t = true -> rstrip_chars [nl] t = t.
Proof.
  intros t H. unfold rstrip_chars. apply rstrip_by_id. intros c Hc. apply last_c_In in Hc.
  rewrite forallb_forall in H. destruct (printable_code c (H c Hc)) as [H1 _].
  cbn [mem_c existsb]. unfold mem_c. cbn [existsb]. rewrite orb_false_r.
  apply ascii_eqb_neq. intros He. subst c. vm_compute in H1. lia.
Qed.

(* and ast.unparse prints the node as the text *)
Theorem typ_ast_code : forall t e, typ_ast t = Some e -> code_of e = Ok t.
Proof.
  intros t e H. destruct (typ_ast_inv t e H) as [Hp [ty [_ [Hok [Hshow He]]]]].
  destruct (ty_roundtrip ty Hok) as [e' [He' [Heok [Hs _]]]]. rewrite He in He'. inversion He'; subst e'.
  unfold code_of. rewrite Heok. unfold show_expr. rewrite Hs, Hshow, (rstrip_nl_printable t Hp). reflexivity.
Qed.

Lemma code_of_name : forall t, forallb printable t = true -> code_of (EName t) = Ok t.
Proof. intros t H. unfold code_of. cbn [expr_ok show_expr show_prec]. rewrite (rstrip_nl_printable t H). reflexivity. Qed.

(* ================================================================== *)
(* Part 4: one attribute                                                *)
(* ================================================================== *)

(* ---- closed facts about the live constants ---- *)
Lemma simple_cases : forall t,
    in_simple_types t = true -> str_eqb t (L "complex") = false ->
    t = L "int" \/ t = L "float" \/ t = L "str" \/ t = L "bool".
Proof.
  intros t H Hc. unfold in_simple_types, Extracted.simple_type_names in H. cbn [existsb] in H.
  repeat (apply orb_true_iff in H; destruct H as [H|H]); try discriminate H;
    try solve [apply str_eqb_eq in H; subst t; auto].
  rewrite H in Hc. discriminate Hc.
Qed.

Lemma none_types_str : forall s,
    in_none_types (VStr s) = false -> str_eqb s NoneStr = false.
Proof.
  intros s H. unfold in_none_types, Extracted.none_types_strs in H. cbn [existsb] in H.
  apply orb_false_iff in H. destruct H as [_ H]. apply orb_false_iff in H. destruct H as [H _]. exact H.
Qed.

Lemma is_none_default_cases : forall v, is_none_default v = true -> v = VNone \/ v = VStr NoneStr.
Proof.
  intros [|b|z|r|s] H; cbn [is_none_default] in H; try discriminate H; [left; reflexivity|].
  apply str_eqb_eq in H. subst s. right. reflexivity.
Qed.

Lemma in_none_NoneStr : in_none_types (VStr NoneStr) = true. Proof. reflexivity. Qed.
Lemma in_none_None : in_none_types VNone = true. Proof. reflexivity. Qed.

(* ---- set_value on what quote produces ---- *)
Lemma both_ends_spec : forall q c r d, last_c (c :: r) = Some d -> both_ends q (c :: r) = ascii_eqb c q && ascii_eqb d q.
Proof. intros q c r d H. unfold both_ends. rewrite H. reflexivity. Qed.

Lemma quote_plain : forall s,
    s <> [] -> both_ends dq s = false -> both_ends sq s = false -> quote s = dq :: s ++ [dq].
Proof.
  intros [|c r] Hn Hd Hs; [contradiction|].
  destruct (last_c (c :: r)) as [d|] eqn:Hl; [|apply last_c_nil_iff in Hl; discriminate Hl].
  rewrite (quote_eq c r d Hl). rewrite (both_ends_spec dq c r d Hl) in Hd. rewrite (both_ends_spec sq c r d Hl) in Hs.
  destruct (ascii_eqb c d) eqn:Ecd; [|reflexivity].
  apply ascii_eqb_eq in Ecd. subst d. cbn [andb].
  destruct (ascii_eqb c sq) eqn:E1; [discriminate Hs|].
  destruct (ascii_eqb c dq) eqn:E2; [discriminate Hd|]. reflexivity.
Qed.

Lemma set_value_str_quoted : forall s, s <> [] -> set_value_str (dq :: s ++ [dq]) = s.
Proof.
  intros s Hn. unfold set_value_str.
  assert (Hlen : List.length (dq :: s ++ [dq]) = S (S (List.length s))).
  { cbn [List.length]. rewrite app_length. cbn [List.length]. lia. }
  assert (Hb : both_ends dq (dq :: s ++ [dq]) = true).
  { unfold both_ends. pose proof (last_c_app_single (dq :: s) dq) as Hl. cbn [app] in Hl. rewrite Hl.
    rewrite ascii_eqb_refl. reflexivity. }
  rewrite Hb, Hlen.
  assert (Hlt : Nat.ltb 2 (S (S (List.length s))) = true).
  { apply Nat.ltb_lt. destruct s; [contradiction|cbn [List.length]; lia]. }
  rewrite Hlt. cbn [andb orb]. unfold slice. cbn [skipn].
  replace (S (S (List.length s)) - 1 - 1) with (List.length s) by lia. apply firstn_app_exact.
Qed.

Lemma unquote_plain : forall s, both_ends dq s = false -> both_ends sq s = false -> unquote s = s.
Proof.
  intros s Hd Hs. apply unquote_id_marks. intros q Hq [Hh Hl].
  destruct s as [|c r]; [discriminate Hh|]. cbn [head_c] in Hh. inversion Hh; subst c.
  destruct Hq as [Hq|Hq]; subst q.
  - rewrite (both_ends_spec _ _ _ _ Hl), ascii_eqb_refl in Hd. discriminate Hd.
  - rewrite (both_ends_spec _ _ _ _ Hl), ascii_eqb_refl in Hs. discriminate Hs.
Qed.

Lemma str_default_ok_inv : forall s,
    str_default_ok s = true ->
    both_ends dq s = false /\ both_ends sq s = false /\ code_quoted s = false /\ in_none_types (VStr s) = false.
Proof.
  intros s H. unfold str_default_ok in H.
  repeat (apply andb_true_iff in H; let H' := fresh "H" in destruct H as [H H']).
  repeat split; apply negb_true_iff; assumption.
Qed.

(* ---- what param2ast emits, per class of declared type ---- *)

Definition numeric (v : pyval) : Prop := match v with VInt _ | VFloat _ | VBool _ => True | _ => False end.

(* generic type that needs no quoting (Optional[int], List[float], Union[..], dotted names ...) *)
Lemma param2ast_generic_plain : forall pt n gd t e d,
    typ_ast t = Some e -> needs_quoting (Some t) = Ok false -> in_simple_types t = false ->
    bracket_fix t = t -> str_eqb t (L "dict") = false -> startswith [ch 42] t = false ->
    match d with
    | None => True
    | Some (DV v) => is_none_default v = true \/ numeric v
    | Some _ => False
    end ->
    exists g2, param2ast pt n (mkG gd (Has t) d)
               = Ok (ann_assign n e (EConst (match d with
                                            | Some (DV v) => if is_none_default v then VNone else v
                                            | _ => VNone
                                            end)), g2).
Proof.
  intros pt n gd t e d Hta Hnq Hsimple Hbf Hdict Hstar Hd.
  assert (Hgen : forall g2, g_typ g2 = Has t ->
            generic_param2ast pt n t g2
            = (do value <- match g_default g2 with
                           | None => Ok (set_value VNone)
                           | Some (DV (VStr s)) =>
                             if code_none_inner s then Ok (set_value VNone)
                             else match parse_expr_src pt s with
                                  | Ok e => Ok e
                                  | Err SyntaxError =>
                                    Ok (set_value (VStr (if code_quoted s then s else L "```" ++ s ++ L "```")))
                                  | Err x => Err x
                                  end
                           | Some (DV v) => Ok (set_value v)
                           | Some _ => Err Unmodelled
                           end; Ok (ann_assign n e value))).
  { intros g2 _. unfold generic_param2ast, ast_parse_fix. rewrite Hbf, (typ_ast_parse pt t e Hta). reflexivity. }
  unfold param2ast. cbn [typ_is_none g_typ bind].
  destruct d as [[v|ex|o]|]; try contradiction.
  - destruct Hd as [Hn|Hnum].
    + rewrite Hn. destruct (is_none_default_cases v Hn); subst v.
      * cbn [g_default g_doc g_typ pyval_eqb bind fget]. rewrite Hnq. cbn [bind]. rewrite Hsimple, Hdict, Hstar. cbn [orb].
        rewrite Hgen by reflexivity. cbn [g_default bind set_value]. eexists. reflexivity.
      * cbn [g_default g_doc g_typ pyval_eqb bind fget]. rewrite str_eqb_refl. cbn [bind g_default g_typ fget].
        rewrite Hnq. cbn [bind]. rewrite Hsimple, Hdict, Hstar. cbn [orb].
        rewrite Hgen by reflexivity. cbn [g_default bind set_value]. eexists. reflexivity.
    + destruct v as [|b|z|r|s]; try contradiction;
        cbn [g_default g_doc g_typ pyval_eqb bind fget is_none_default]; rewrite Hnq; cbn [bind];
          rewrite Hsimple, Hdict, Hstar; cbn [orb]; rewrite Hgen by reflexivity;
            cbn [g_default bind set_value]; eexists; reflexivity.
  - cbn [g_default g_doc g_typ bind fget]. rewrite Hnq. cbn [bind]. rewrite Hsimple, Hdict, Hstar. cbn [orb].
    rewrite Hgen by reflexivity. cbn [g_default bind set_value]. eexists. reflexivity.
Qed.

(* a type that needs quoting (str, Optional[str], List[str], Literal[...], ...) *)
Lemma param2ast_quoting : forall pt n gd t ann z d,
    needs_quoting (Some t) = Ok true ->
    (if in_simple_types t then Ok (EName t) else parse_expr_src pt t) = Ok ann ->
    zero_of t = Ok z -> set_value z = EConst z ->
    match d with
    | None => True
    | Some (DV v) => is_none_default v = true \/ exists s, v = VStr s /\ str_default_ok s = true
    | Some _ => False
    end ->
    exists g2, param2ast pt n (mkG gd (Has t) d)
               = Ok (ann_assign n ann (EConst (match d with
                                              | Some (DV (VStr (c :: s))) =>
                                                if str_eqb (c :: s) NoneStr then z else VStr (c :: s)
                                              | _ => z
                                              end)), g2).
Proof.
  intros pt n gd t ann z d Hnq Hann Hz Hsz Hd.
  unfold param2ast. cbn [typ_is_none g_typ bind].
  destruct d as [[v|ex|o]|]; try contradiction.
  - destruct Hd as [Hn|[s [Hv Hs]]].
    + destruct (is_none_default_cases v Hn); subst v.
      * cbn [g_default g_doc g_typ pyval_eqb bind fget]. rewrite Hnq. cbn [bind]. rewrite Hann. cbn [bind truthy].
        rewrite Hz. cbn [bind]. rewrite Hsz. eexists. reflexivity.
      * cbn [g_default g_doc g_typ pyval_eqb bind fget]. rewrite str_eqb_refl. cbn [bind g_default g_typ fget].
        rewrite Hnq. cbn [bind]. rewrite Hann. cbn [bind truthy]. rewrite Hz. cbn [bind]. rewrite Hsz.
        change (str_eqb NoneStr NoneStr) with true. cbv iota. eexists. reflexivity.
    + subst v. destruct (str_default_ok_inv s Hs) as [Hbd [Hbs [Hcq Hnn]]].
      cbn [g_default g_doc g_typ pyval_eqb bind fget]. rewrite (none_types_str s Hnn). cbn [bind g_default g_typ fget].
      rewrite Hnq. cbn [bind]. rewrite Hann. cbn [bind]. destruct s as [|c s].
      * cbn [truthy]. rewrite Hz. cbn [bind]. rewrite Hsz. eexists. reflexivity.
      * cbn [truthy quote_val bind]. rewrite (none_types_str _ Hnn).
        rewrite (quote_plain (c :: s)) by (try discriminate; assumption).
        unfold set_value. rewrite (set_value_str_quoted (c :: s)) by discriminate. eexists. reflexivity.
  - cbn [g_default g_doc g_typ bind fget]. rewrite Hnq. cbn [bind]. rewrite Hann. cbn [bind]. rewrite Hz. cbn [bind].
    rewrite Hsz. eexists. reflexivity.
Qed.

(* int / float / bool *)
Lemma param2ast_simple_plain : forall pt n gd t z d,
    in_simple_types t = true -> needs_quoting (Some t) = Ok false -> zero_of t = Ok z ->
    match d with
    | None => True
    | Some (DV v) => numeric v
    | Some _ => False
    end ->
    exists g2, param2ast pt n (mkG gd (Has t) d)
               = Ok (ann_assign n (EName t) (set_value (match d with
                                                        | Some (DV v) => if truthy v then v else z
                                                        | _ => z
                                                        end)), g2).
Proof.
  intros pt n gd t z d Hsimple Hnq Hz Hd.
  unfold param2ast. cbn [typ_is_none g_typ bind].
  destruct d as [[v|ex|o]|]; try contradiction.
  - destruct v as [|b|z0|r|s]; try contradiction;
      cbn [g_default g_doc g_typ pyval_eqb bind fget]; rewrite Hnq; cbn [bind]; rewrite Hsimple, Hz; cbn [bind];
        eexists; reflexivity.
  - cbn [g_default g_doc g_typ bind fget]. rewrite Hnq. cbn [bind]. rewrite Hsimple, Hz. cbn [bind]. eexists. reflexivity.
Qed.

(* ---- one attribute, emitted and read back ---- *)

Definition attr_codec (pt : ptable) (n : str) (g : gparam) : Prop :=
  exists x g2, param2ast pt n g = Ok (attr_stmt x, g2)
               /\ at_name x = n /\ attr_ok x /\ g_typ g = Has (at_typ x) /\ at_def x = canon_default g.

Lemma attr_codec_intro : forall pt n g t ann val g2,
    param2ast pt n g = Ok (ann_assign n ann (EConst val), g2) ->
    g_typ g = Has t -> code_of ann = Ok t -> DV (none_to_NoneStr val) = canon_default g ->
    attr_codec pt n g.
Proof.
  intros pt n g t ann val g2 He Ht Hc Hd.
  exists (mkAttr n ann (Some (EConst val)) t (DV (none_to_NoneStr val))), g2.
  split; [exact He|]. split; [reflexivity|]. split; [|split; [exact Ht|exact Hd]].
  split; [exact Hc|]. cbn [at_val at_def]. apply annassign_default_const.
Qed.

Lemma typ_ok_C02_inv : forall t,
    typ_ok_C02 t = true ->
    exists e nq, typ_ast t = Some e /\ needs_quoting (Some t) = Ok nq /\ bracket_fix t = t
                 /\ endswith google_opt t = false /\ str_eqb t (L "dict") = false
                 /\ startswith [ch 42] t = false /\ str_eqb t (L "complex") = false.
Proof.
  intros t H. unfold typ_ok_C02 in H.
  repeat (apply andb_true_iff in H; let H' := fresh "H" in destruct H as [H H']).
  destruct (typ_ast t) as [e|]; [|discriminate H]. destruct (needs_quoting (Some t)) as [nq|er]; [|discriminate H5].
  exists e, nq. apply str_eqb_eq in H4. repeat split; try reflexivity; try (apply negb_true_iff; assumption). exact H4.
Qed.

Lemma canon_default_some : forall gd gt v,
    canon_default (mkG gd gt (Some (DV v))) = if in_none_types v then DV (VStr NoneStr) else DV v.
Proof. reflexivity. Qed.

Lemma canon_default_none_generic : forall gd t,
    in_simple_types t = false -> canon_default (mkG gd (Has t) None) = DV (VStr NoneStr).
Proof.
  intros gd t H. unfold canon_default, zero_default_norm_param. cbn [g_default g_typ fget zero_of_typ].
  unfold simple_type_zero. fold (in_simple_types t). rewrite H. reflexivity.
Qed.

Lemma zero_of_generic : forall t, in_simple_types t = false -> zero_of t = Ok VNone.
Proof. intros t H. unfold zero_of. rewrite H. reflexivity. Qed.

(* generic types *)
Lemma attr_codec_generic : forall pt n gd t d,
    typ_ok_C02 t = true -> in_simple_types t = false -> default_ok_C02 t d = true ->
    attr_codec pt n (mkG gd (Has t) d).
Proof.
  intros pt n gd t d Ht Hsimple Hd.
  destruct (typ_ok_C02_inv t Ht) as [e [nq [Hta [Hnq [Hbf [_ [Hdict [Hstar _]]]]]]]].
  unfold default_ok_C02 in Hd. rewrite Hsimple, Hnq in Hd. cbn [Ok_true] in Hd.
  destruct nq.
  - (* quoting *)
    assert (Hann : (if in_simple_types t then Ok (EName t) else parse_expr_src pt t) = Ok e).
    { rewrite Hsimple. apply typ_ast_parse. exact Hta. }
    assert (Hdd0 : match d with
                   | None => True
                   | Some (DV v) => is_none_default v = true \/ exists c s, v = VStr (c :: s) /\ str_default_ok (c :: s) = true
                   | Some _ => False
                   end).
    { destruct d as [[v|ex|o]|]; try discriminate Hd; [|exact I].
      destruct (is_none_default v) eqn:En; [left; reflexivity|right].
      destruct v as [| | | |[|c s]]; try discriminate Hd. exists c, s. split; [reflexivity|exact Hd]. }
    assert (Hdd : match d with
                  | None => True
                  | Some (DV v) => is_none_default v = true \/ exists s, v = VStr s /\ str_default_ok s = true
                  | Some _ => False
                  end).
    { destruct d as [[v|ex|o]|]; try exact Hdd0. destruct Hdd0 as [Hn|[c [s [Hv Hs]]]]; [left; exact Hn|right].
      exists (c :: s). split; assumption. }
    destruct (param2ast_quoting pt n gd t e VNone d Hnq Hann (zero_of_generic t Hsimple) eq_refl Hdd) as [g2 He].
    eapply attr_codec_intro; [exact He|reflexivity|apply typ_ast_code; exact Hta|].
    destruct d as [[v|ex|o]|]; try contradiction.
    + rewrite canon_default_some. destruct Hdd0 as [Hn|[c [s [Hv Hs]]]].
      * destruct (is_none_default_cases v Hn); subst v; reflexivity.
      * subst v. destruct (str_default_ok_inv _ Hs) as [_ [_ [_ Hnn]]]. rewrite Hnn.
        rewrite (none_types_str _ Hnn). reflexivity.
    + rewrite (canon_default_none_generic gd t Hsimple). reflexivity.
  - (* no quoting *)
    assert (Hdd : match d with
                  | None => True
                  | Some (DV v) => is_none_default v = true \/ numeric v
                  | Some _ => False
                  end).
    { destruct d as [[v|ex|o]|]; try discriminate Hd; [|exact I].
      destruct (is_none_default v) eqn:En; [left; reflexivity|right].
      destruct v; try discriminate Hd; exact I. }
    destruct (param2ast_generic_plain pt n gd t e d Hta Hnq Hsimple Hbf Hdict Hstar Hdd) as [g2 He].
    eapply attr_codec_intro; [exact He|reflexivity|apply typ_ast_code; exact Hta|].
    destruct d as [[v|ex|o]|]; try contradiction.
    + rewrite canon_default_some. destruct Hdd as [Hn|Hnum].
      * rewrite Hn. destruct (is_none_default_cases v Hn); subst v; reflexivity.
      * destruct v; try contradiction; reflexivity.
    + rewrite (canon_default_none_generic gd t Hsimple). reflexivity.
Qed.

(* scalar types: closed facts, computed from the live constants *)
Lemma nq_int : needs_quoting (Some (L "int")) = Ok false. Proof. vm_compute. reflexivity. Qed.
Lemma nq_float : needs_quoting (Some (L "float")) = Ok false. Proof. vm_compute. reflexivity. Qed.
Lemma nq_bool : needs_quoting (Some (L "bool")) = Ok false. Proof. vm_compute. reflexivity. Qed.
Lemma nq_str : needs_quoting (Some (L "str")) = Ok true. Proof. vm_compute. reflexivity. Qed.
Lemma zero_int : zero_of (L "int") = Ok (VInt 0). Proof. vm_compute. reflexivity. Qed.
Lemma zero_float : zero_of (L "float") = Ok (VFloat (L "0.0")). Proof. vm_compute. reflexivity. Qed.
Lemma zero_bool : zero_of (L "bool") = Ok (VBool false). Proof. vm_compute. reflexivity. Qed.
Lemma zero_str : zero_of (L "str") = Ok (VStr []). Proof. vm_compute. reflexivity. Qed.
Lemma canon_none_int : forall gd, canon_default (mkG gd (Has (L "int")) None) = DV (VInt 0). Proof. intros gd. vm_compute. reflexivity. Qed.
Lemma canon_none_float : forall gd, canon_default (mkG gd (Has (L "float")) None) = DV (VFloat (L "0.0")). Proof. intros gd. vm_compute. reflexivity. Qed.
Lemma canon_none_bool : forall gd, canon_default (mkG gd (Has (L "bool")) None) = DV (VBool false). Proof. intros gd. vm_compute. reflexivity. Qed.
Lemma canon_none_str : forall gd, canon_default (mkG gd (Has (L "str")) None) = DV (VStr []). Proof. intros gd. vm_compute. reflexivity. Qed.

Lemma attr_codec_scalar : forall pt n gd t d,
    typ_ok_C02 t = true -> in_simple_types t = true -> default_ok_C02 t d = true ->
    attr_codec pt n (mkG gd (Has t) d).
Proof.
  intros pt n gd t d Ht Hsimple Hd.
  destruct (typ_ok_C02_inv t Ht) as [e [nq [Hta [Hnq [_ [_ [_ [_ Hcx]]]]]]]].
  destruct (typ_ast_inv t e Hta) as [Hpr _].
  pose proof (code_of_name t Hpr) as Hcode.
  unfold default_ok_C02 in Hd. rewrite Hsimple, Hnq in Hd. cbn [Ok_true] in Hd.
  destruct (simple_cases t Hsimple Hcx) as [E|[E|[E|E]]]; subst t.
  - (* int *)
    rewrite nq_int in Hnq. inversion Hnq; subst nq.
    assert (Hdd : match d with None => True | Some (DV v) => numeric v | Some _ => False end).
    { destruct d as [[v|ex|o]|]; try discriminate Hd; [|exact I]. destruct v; try exact I; vm_compute in Hd; discriminate Hd. }
    destruct (param2ast_simple_plain pt n gd _ _ d Hsimple nq_int zero_int Hdd) as [g2 He].
    destruct d as [[v|ex|o]|]; try contradiction.
    + destruct v as [|b|z|r|s]; try (vm_compute in Hd; discriminate Hd).
      assert (Hv : (if truthy (VInt z) then VInt z else VInt 0) = VInt z) by (destruct z; reflexivity).
      rewrite Hv in He. eapply attr_codec_intro; [exact He|reflexivity|exact Hcode|reflexivity].
    + eapply attr_codec_intro; [exact He|reflexivity|exact Hcode|]. rewrite canon_none_int. reflexivity.
  - (* float *)
    rewrite nq_float in Hnq. inversion Hnq; subst nq.
    assert (Hdd : match d with None => True | Some (DV v) => numeric v | Some _ => False end).
    { destruct d as [[v|ex|o]|]; try discriminate Hd; [|exact I]. destruct v; try exact I; vm_compute in Hd; discriminate Hd. }
    destruct (param2ast_simple_plain pt n gd _ _ d Hsimple nq_float zero_float Hdd) as [g2 He].
    destruct d as [[v|ex|o]|]; try contradiction.
    + destruct v as [|b|z|r|s]; try (vm_compute in Hd; discriminate Hd).
      apply andb_true_iff in Hd. destruct Hd as [_ Hneg]. apply negb_true_iff in Hneg. cbn [pyval_eqb] in Hneg.
      assert (Hv : (if truthy (VFloat r) then VFloat r else VFloat (L "0.0")) = VFloat r).
      { cbn [truthy]. rewrite Hneg, orb_false_r. destruct (str_eqb r (L "0.0")) eqn:E0; [|reflexivity].
        apply str_eqb_eq in E0. subst r. reflexivity. }
      rewrite Hv in He. eapply attr_codec_intro; [exact He|reflexivity|exact Hcode|reflexivity].
    + eapply attr_codec_intro; [exact He|reflexivity|exact Hcode|]. rewrite canon_none_float. reflexivity.
  - (* str *)
    rewrite nq_str in Hnq. inversion Hnq; subst nq.
    assert (Hann : (if in_simple_types (L "str") then Ok (EName (L "str")) else parse_expr_src pt (L "str")) = Ok (EName (L "str"))).
    { rewrite Hsimple. reflexivity. }
    assert (Hdd : match d with
                  | None => True
                  | Some (DV v) => is_none_default v = true \/ exists s, v = VStr s /\ str_default_ok s = true
                  | Some _ => False
                  end).
    { destruct d as [[v|ex|o]|]; try discriminate Hd; [|exact I]. right.
      destruct v as [| | | |s]; try discriminate Hd. exists s. split; [reflexivity|exact Hd]. }
    destruct (param2ast_quoting pt n gd _ _ (VStr []) d nq_str Hann zero_str eq_refl Hdd) as [g2 He].
    destruct d as [[v|ex|o]|]; try contradiction.
    + destruct v as [| | | |s]; try discriminate Hd.
      destruct (str_default_ok_inv s Hd) as [_ [_ [_ Hnn]]].
      assert (Hv : match s with
                   | c :: s' => if str_eqb (c :: s') NoneStr then VStr [] else VStr (c :: s')
                   | [] => VStr []
                   end = VStr s).
      { destruct s as [|c s']; [reflexivity|]. rewrite (none_types_str _ Hnn). reflexivity. }
      assert (He' : param2ast pt n (mkG gd (Has (L "str")) (Some (DV (VStr s))))
                    = Ok (ann_assign n (EName (L "str")) (EConst (VStr s)), g2)).
      { rewrite He. rewrite <- Hv. destruct s; reflexivity. }
      eapply attr_codec_intro; [exact He'|reflexivity|exact Hcode|].
      rewrite canon_default_some, Hnn. reflexivity.
    + eapply attr_codec_intro; [exact He|reflexivity|exact Hcode|]. rewrite canon_none_str. reflexivity.
  - (* bool *)
    rewrite nq_bool in Hnq. inversion Hnq; subst nq.
    assert (Hdd : match d with None => True | Some (DV v) => numeric v | Some _ => False end).
    { destruct d as [[v|ex|o]|]; try discriminate Hd; [|exact I]. destruct v; try exact I; vm_compute in Hd; discriminate Hd. }
    destruct (param2ast_simple_plain pt n gd _ _ d Hsimple nq_bool zero_bool Hdd) as [g2 He].
    destruct d as [[v|ex|o]|]; try contradiction.
    + destruct v as [|b|z|r|s]; try (vm_compute in Hd; discriminate Hd).
      assert (Hv : (if truthy (VBool b) then VBool b else VBool false) = VBool b) by (destruct b; reflexivity).
      rewrite Hv in He. eapply attr_codec_intro; [exact He|reflexivity|exact Hcode|reflexivity].
    + eapply attr_codec_intro; [exact He|reflexivity|exact Hcode|]. rewrite canon_none_bool. reflexivity.
Qed.

Theorem attr_codec_guard : forall pt n g, gparam_ok_C02 g = true -> attr_codec pt n g.
Proof.
  intros pt n [gd gt d] H. unfold gparam_ok_C02 in H. cbn [g_typ g_default] in H.
  destruct gt as [| |t]; try discriminate H.
  apply andb_true_iff in H. destruct H as [H Hd]. apply andb_true_iff in H. destruct H as [Ht _].
  destruct (in_simple_types t) eqn:Es.
  - apply attr_codec_scalar; assumption.
  - apply attr_codec_generic; assumption.
Qed.

(* ---- the default that comes back, and _set_name_and_type on it ---- *)

Definition cd_ok_b (cd : dval) : bool :=
  match cd with
  | DV VNone => false
  | DV (VStr s) => str_eqb s NoneStr
                   || (negb (in_none_types (VStr s)) && negb (both_ends dq s) && negb (both_ends sq s)
                       && negb (code_quoted s))
  | DV _ => true
  | _ => false
  end.

Lemma default_ok_str : forall t s,
    default_ok_C02 t (Some (DV (VStr s))) = true -> in_none_types (VStr s) = false -> str_default_ok s = true.
Proof.
  intros t s H Hnn. unfold default_ok_C02 in H.
  destruct (in_simple_types t) eqn:Es.
  - destruct (Ok_true (needs_quoting (Some t))) eqn:En; [exact H|].
    apply andb_true_iff in H. destruct H as [H _]. cbn [type_name] in H. apply str_eqb_eq in H. subst t.
    rewrite nq_str in En. discriminate En.
  - cbn [is_none_default] in H. rewrite (none_types_str s Hnn) in H.
    destruct (Ok_true (needs_quoting (Some t))); [|discriminate H].
    destruct s as [|c s]; [discriminate H|exact H].
Qed.

Lemma canon_default_ok : forall g, gparam_ok_C02 g = true -> cd_ok_b (canon_default g) = true.
Proof.
  intros [gd gt d] H. unfold gparam_ok_C02 in H. cbn [g_typ g_default] in H.
  destruct gt as [| |t]; try discriminate H.
  apply andb_true_iff in H. destruct H as [H Hd]. apply andb_true_iff in H. destruct H as [Ht _].
  destruct d as [[v|ex|o]|].
  - rewrite canon_default_some. destruct (in_none_types v) eqn:En; [reflexivity|].
    destruct v as [|b|z|r|s]; try reflexivity; [discriminate En|].
    pose proof (default_ok_str t s Hd En) as Hs. destruct (str_default_ok_inv s Hs) as [H1 [H2 [H3 H4]]].
    cbn [cd_ok_b]. rewrite H1, H2, H3, H4. apply orb_true_r.
  - unfold default_ok_C02 in Hd. discriminate Hd.
  - unfold default_ok_C02 in Hd. discriminate Hd.
  - destruct (in_simple_types t) eqn:Es.
    + destruct (typ_ok_C02_inv t Ht) as [e [nq [_ [_ [_ [_ [_ [_ Hcx]]]]]]]].
      destruct (simple_cases t Es Hcx) as [E|[E|[E|E]]]; subst t.
      * rewrite canon_none_int. reflexivity.
      * rewrite canon_none_float. reflexivity.
      * rewrite canon_none_str. reflexivity.
      * rewrite canon_none_bool. reflexivity.
    + rewrite (canon_default_none_generic gd t Es). reflexivity.
Qed.

Definition docf_ok (docf : fld str) (t : str) : Prop :=
  docf = Missing
  \/ exists c r, docf = Has (c :: r) /\ strip (c :: r) = c :: r /\ mem_c nl (c :: r) = false
                 /\ (prose_starts_optional (c :: r) = false \/ startswith (L "Optional[") t = true).

Lemma strip_rstrip_id : forall s, strip s = s -> rstrip s = s.
Proof.
  intros s H. unfold strip, strip_by in H. unfold rstrip.
  (* rstrip (lstrip s) = s: rstrip only removes at the end, so lstrip s = s too *)
  assert (Hl : lstrip_by isspace s = s).
  { unfold lstrip_by in *. destruct s as [|c s']; [reflexivity|]. cbn [dropwhile] in *.
    destruct (isspace c) eqn:Ec; [|reflexivity].
    exfalso.
    assert (Hlen : List.length (rstrip_by isspace (dropwhile isspace s')) <= List.length s').
    { unfold rstrip_by. rewrite rev_length.
      assert (Hdw : forall (p : ascii -> bool) l, List.length (dropwhile p l) <= List.length l).
      { intros p l. induction l as [|x l IHl]; cbn [dropwhile]; [lia|]. destruct (p x); cbn [List.length]; lia. }
      etransitivity; [apply Hdw|]. rewrite rev_length. apply Hdw. }
    rewrite H in Hlen. cbn [List.length] in Hlen. lia. }
  rewrite Hl in H. exact H.
Qed.

Lemma infer_default_canon : forall docf t cd it,
    is_Ok_bool (needs_quoting (Some t)) = true -> cd_ok_b cd = true ->
    infer_default (mkG docf (Has t) (Some cd)) cd it = Ok (mkG docf (Has t) (Some cd)).
Proof.
  intros docf t cd it Hnq Hcd. destruct (needs_quoting (Some t)) as [nq|er] eqn:En; [|discriminate Hnq].
  unfold infer_default. cbn [g_typ g_doc fld_is_none].
  destruct cd as [v|ex|o]; try discriminate Hcd.
  destruct v as [|b|z|r|s]; try discriminate Hcd.
  - cbn [bind dval_in_none_types in_none_types]. rewrite !andb_false_r. cbn [andb negb bind fget]. rewrite En. cbn [bind].
    cbn [fld_is_none andb bind dval_is_NoneStr code_quoted_dval negb]. reflexivity.
  - cbn [bind dval_in_none_types in_none_types]. rewrite !andb_false_r. cbn [andb negb bind fget]. rewrite En. cbn [bind].
    cbn [fld_is_none andb bind dval_is_NoneStr code_quoted_dval negb]. reflexivity.
  - cbn [bind dval_in_none_types in_none_types]. rewrite !andb_false_r. cbn [andb negb bind fget]. rewrite En. cbn [bind].
    cbn [fld_is_none andb bind dval_is_NoneStr code_quoted_dval negb]. reflexivity.
  - cbn [cd_ok_b] in Hcd. destruct (str_eqb s NoneStr) eqn:Es.
    + apply str_eqb_eq in Es. subst s. cbn [bind dval_in_none_types]. rewrite in_none_NoneStr.
      rewrite !andb_false_r. cbn [andb negb bind fget]. rewrite En. reflexivity.
    + cbn [orb] in Hcd. repeat (apply andb_true_iff in Hcd; let H' := fresh "H" in destruct Hcd as [Hcd H']).
      apply negb_true_iff in Hcd. apply negb_true_iff in H. apply negb_true_iff in H0. apply negb_true_iff in H1.
      cbn [bind dval_in_none_types]. rewrite Hcd. rewrite !andb_false_r. cbn [andb negb bind fget]. rewrite En. cbn [bind].
      rewrite (unquote_plain s H1 H0).
      cbn [fld_is_none andb bind dval_is_NoneStr code_quoted_dval]. rewrite Es, H. reflexivity.
Qed.

Ltac snt_tail Hg Hdoc :=
  cbn [bind g_typ g_doc g_default]; rewrite Hg;
  let Hm := fresh "Hm" in let c := fresh "c" in let r := fresh "r" in let Hd := fresh "Hd" in
  let Hstrip := fresh "Hstrip" in let Hnl := fresh "Hnl" in let Hopt := fresh "Hopt" in
  destruct Hdoc as [Hm|[c [r [Hd [Hstrip [Hnl Hopt]]]]]]; [rewrite Hm; reflexivity|]; rewrite Hd;
  match goal with
  | |- context [rstrip (if ?ww then _ else _)] =>
    let Hdoc' := fresh "Hdoc'" in
    assert (Hdoc' : rstrip (if ww then join [sp] (map strip (split [nl] (c :: r))) else c :: r) = c :: r);
    [ destruct ww;
      [ change (split [nl] (c :: r)) with (split_nl (c :: r)); rewrite (DocParseFacts.split_nl_single _ Hnl);
        cbn [map join]; rewrite Hstrip; apply strip_rstrip_id; exact Hstrip
      | apply strip_rstrip_id; exact Hstrip ]
    | rewrite Hdoc'; unfold prose_starts_optional in Hopt;
      let Ho := fresh "Ho" in
      destruct Hopt as [Ho|Ho];
      [ rewrite Ho; reflexivity
      | destruct (startswith (L "(Optional)") (c :: r) || startswith (L "Optional") (c :: r)); [|reflexivity];
        rewrite Ho; reflexivity ] ]
  end.

(* _set_name_and_type leaves such an entry as it is, whether or not the name ends in kwargs *)
Lemma set_name_and_type_guard : forall n docf t cd it ww,
    startswith [ch 42] n = false -> str_eqb t (L "dict") = false ->
    is_Ok_bool (needs_quoting (Some t)) = true -> endswith google_opt t = false ->
    cd_ok_b cd = true -> docf_ok docf t ->
    set_name_and_type n (mkG docf (Has t) (Some cd)) it ww = Ok (n, mkG docf (Has t) (Some cd)).
Proof.
  intros n docf t cd it ww Hn Hdict Hnq Hg Hcd Hdoc. unfold set_name_and_type.
  destruct (endswith (L "kwargs") n || startswith (L "**") n).
  - cbn [g_typ g_default g_doc]. rewrite Hdict.
    assert (Hl : lstrip_chars [ch 42] n = n).
    { unfold lstrip_chars. apply lstrip_by_id.
      intros c Hc. destruct n as [|c0 n0]; [discriminate Hc|]. cbn [head_c] in Hc. inversion Hc; subst c0.
      cbn [startswith] in Hn. unfold mem_c. cbn [existsb]. rewrite ascii_eqb_sym.
      destruct (ascii_eqb (ch 42) c); [discriminate Hn|reflexivity]. }
    rewrite Hl. snt_tail Hg Hdoc.
  - cbn [g_default]. rewrite (infer_default_canon docf t cd it Hnq Hcd). snt_tail Hg Hdoc.
Qed.

(* ================================================================== *)
(* Part 5: the codec                                                    *)
(* ================================================================== *)

Definition attr_for (kv : str * gparam) (x : attr) : Prop :=
  at_name x = fst kv /\ attr_ok x /\ g_typ (snd kv) = Has (at_typ x) /\ at_def x = canon_default (snd kv).

Lemma map_outcome_attrs : forall pt (l : list (str * gparam)),
    Forall (fun kv => gparam_ok_C02 (snd kv) = true) l ->
    exists xs, map_outcome (fun kv => do r <- param2ast pt (fst kv) (snd kv); Ok (fst r)) l = Ok (map attr_stmt xs)
               /\ Forall2 attr_for l xs.
Proof.
  intros pt l. induction l as [|[n g] l IH]; intros H.
  - exists []. split; [reflexivity|constructor].
  - inversion H as [|kv l' Hg Hl]; subst kv l'. cbn [snd] in Hg.
    destruct (attr_codec_guard pt n g Hg) as [x [g2 [He [Hn [Hok [Ht Hd]]]]]].
    destruct (IH Hl) as [xs [Hxs HF]].
    exists (x :: xs). split.
    + cbn [map_outcome fst snd]. rewrite He. cbn [bind fst]. rewrite Hxs. reflexivity.
    + constructor; [|exact HF]. split; [exact Hn|]. split; [exact Hok|]. split; [exact Ht|exact Hd].
Qed.

Lemma Forall2_attr_names : forall l xs, Forall2 attr_for l xs -> map at_name xs = map fst l.
Proof.
  intros l xs H. induction H as [|kv x l xs [Hn _] _ IH]; [reflexivity|]. cbn [map]. rewrite Hn, IH. reflexivity.
Qed.

Lemma Forall2_attr_ok : forall l xs, Forall2 attr_for l xs -> Forall attr_ok xs.
Proof.
  intros l xs H. induction H as [|kv x l xs [_ [Hok _]] _ IH]; constructor; assumption.
Qed.

Lemma pa_mapM_app : forall {A B} (f : A -> outcome B) a b,
    pa_mapM f (a ++ b) = (do x <- pa_mapM f a; do y <- pa_mapM f b; Ok (x ++ y)).
Proof.
  intros A B f a b. induction a as [|x a IH]; cbn [app pa_mapM bind].
  - destruct (pa_mapM f b); reflexivity.
  - destruct (f x) as [y|e]; cbn [bind]; [|reflexivity]. rewrite IH.
    destruct (pa_mapM f a) as [ya|e]; cbn [bind]; [|reflexivity].
    destruct (pa_mapM f b) as [yb|e]; reflexivity.
Qed.

Lemma param_ok_inv : forall n g,
    param_ok_C02 (n, g) = true ->
    exists t, g_typ g = Has t /\ typ_ok_C02 t = true /\ prose_ok_C02 t g = true
              /\ gparam_ok_C02 g = true.
Proof.
  intros n g H. unfold param_ok_C02 in H. cbn [fst snd] in H. rename H into Hg.
  pose proof Hg as Hg0. unfold gparam_ok_C02 in Hg. destruct (g_typ g) as [| |t]; try discriminate Hg.
  apply andb_true_iff in Hg. destruct Hg as [Hg _]. apply andb_true_iff in Hg. destruct Hg as [Ht Hp].
  exists t. repeat split; assumption.
Qed.

Lemma docf_ok_of_prose : forall t g dg,
    prose_ok_C02 t g = true -> same_prose g dg = true -> documented (L "", g) = true ->
    docf_ok (g_doc dg) t /\ g_doc dg = prose_fld g.
Proof.
  intros t g dg Hp Hs Hd. unfold documented in Hd. cbn [snd] in Hd. unfold prose_ok_C02 in Hp.
  unfold same_prose in Hs. unfold prose_fld, prose_fld_of.
  destruct (prose_of g) as [doc|] eqn:Eg; [|discriminate Hd].
  destruct (prose_of dg) as [doc'|] eqn:Ed; cbn [C02Spec.opt_str_eqb] in Hs; [|discriminate Hs].
  apply str_eqb_eq in Hs. subst doc'.
  unfold prose_of in Ed. destruct (g_doc dg) as [| |[|c r]] eqn:Edoc; try discriminate Ed. inversion Ed; subst doc.
  split; [|reflexivity]. right. exists c, r.
  apply andb_true_iff in Hp. destruct Hp as [Hp Ho]. apply andb_true_iff in Hp. destruct Hp as [H1 H2].
  apply str_eqb_eq in H1. apply negb_true_iff in H2. split; [reflexivity|]. split; [exact H1|]. split; [exact H2|].
  apply orb_true_iff in Ho. destruct Ho as [Ho|Ho]; [left; apply negb_true_iff; exact Ho|right; exact Ho].
Qed.

Lemma typ_ok_nq : forall t, typ_ok_C02 t = true ->
    is_Ok_bool (needs_quoting (Some t)) = true /\ endswith google_opt t = false /\ str_eqb t (L "dict") = false.
Proof.
  intros t H. destruct (typ_ok_C02_inv t H) as [e [nq [_ [Hnq [_ [Hg [Hd _]]]]]]]. rewrite Hnq.
  split; [reflexivity|]. split; [exact Hg|exact Hd].
Qed.

(* the final map on the documented part *)
Lemma pa_mapM_documented : forall it ww P D0 xsP,
    same_params same_prose P D0 = true -> Forall2 attr_for P xsP ->
    forallb param_ok_C02 P = true -> forallb documented P = true ->
    forallb (fun n => negb (startswith [ch 42] n)) (map fst P) = true ->
    pa_mapM (fun kv => set_name_and_type (fst kv) (snd kv) it ww) (zipupd xsP D0) = Ok (norm_params_C02 P).
Proof.
  intros it ww P. induction P as [|[n g] P IH]; intros D0 xsP Hs HF Hok Hdoc Hstar.
  - inversion HF; subst. apply same_params_nil_r in Hs. subst D0. reflexivity.
  - destruct D0 as [|[n' dg] D0]; [discriminate Hs|]. cbn [same_params] in Hs.
    apply andb_true_iff in Hs. destruct Hs as [Hs Hsr]. apply andb_true_iff in Hs. destruct Hs as [Hnn Hsp].
    apply str_eqb_eq in Hnn. subst n'.
    inversion HF as [|kv x l xs [Hxn [_ [Hxt Hxd]]] HF']; subst kv l xsP. cbn [fst snd] in Hxn, Hxt, Hxd.
    cbn [forallb] in Hok, Hdoc. apply andb_true_iff in Hok. destruct Hok as [Hokg Hok].
    apply andb_true_iff in Hdoc. destruct Hdoc as [Hdg Hdoc].
    cbn [map fst forallb] in Hstar. apply andb_true_iff in Hstar. destruct Hstar as [Hplain Hstar]. apply negb_true_iff in Hplain.
    destruct (param_ok_inv n g Hokg) as [t [Ht [Htok [Hprose Hgok]]]].
    rewrite Ht in Hxt. inversion Hxt as [Htx].
    assert (Hdg' : documented (L "", g) = true) by exact Hdg.
    destruct (docf_ok_of_prose t g dg Hprose Hsp Hdg') as [Hdocf Hdoceq].
    destruct (typ_ok_nq t Htok) as [Hnq [Hgo Hdict]].
    cbn [zipupd pa_mapM upd1 fst snd]. rewrite <- Htx, Hxd.
    rewrite (set_name_and_type_guard n (g_doc dg) t (canon_default g) it ww Hplain Hdict Hnq Hgo (canon_default_ok g Hgok) Hdocf).
    cbn [bind]. rewrite (IH D0 xs Hsr HF' Hok Hdoc Hstar). cbn [bind norm_params_C02 map fst snd].
    unfold norm_param_C02. rewrite Hdoceq, Ht. reflexivity.
Qed.

(* and on the undocumented part *)
Lemma pa_mapM_undocumented : forall it ww U xsU,
    Forall2 attr_for U xsU ->
    forallb param_ok_C02 U = true -> forallb (fun kv => negb (documented kv)) U = true ->
    forallb (fun n => negb (startswith [ch 42] n)) (map fst U) = true ->
    pa_mapM (fun kv => set_name_and_type (fst kv) (snd kv) it ww) (map fresh xsU) = Ok (norm_params_C02 U).
Proof.
  intros it ww U. induction U as [|[n g] U IH]; intros xsU HF Hok Hdoc Hstar.
  - inversion HF; subst. reflexivity.
  - inversion HF as [|kv x l xs [Hxn [_ [Hxt Hxd]]] HF']; subst kv l xsU. cbn [fst snd] in Hxn, Hxt, Hxd.
    cbn [forallb] in Hok, Hdoc. apply andb_true_iff in Hok. destruct Hok as [Hokg Hok].
    apply andb_true_iff in Hdoc. destruct Hdoc as [Hdg Hdoc]. apply negb_true_iff in Hdg.
    cbn [map fst forallb] in Hstar. apply andb_true_iff in Hstar. destruct Hstar as [Hplain Hstar]. apply negb_true_iff in Hplain.
    destruct (param_ok_inv n g Hokg) as [t [Ht [Htok [Hprose Hgok]]]].
    rewrite Ht in Hxt. inversion Hxt as [Htx].
    destruct (typ_ok_nq t Htok) as [Hnq [Hgo Hdict]].
    cbn [map pa_mapM fresh fst snd]. rewrite Hxn, <- Htx, Hxd.
    rewrite (set_name_and_type_guard n Missing t (canon_default g) it ww Hplain Hdict Hnq Hgo (canon_default_ok g Hgok) (or_introl eq_refl)).
    cbn [bind]. rewrite (IH xs HF' Hok Hdoc Hstar). cbn [bind norm_params_C02 map fst snd].
    unfold norm_param_C02, prose_fld, prose_fld_of. unfold documented in Hdg. cbn [snd] in Hdg.
    destruct (prose_of g); [discriminate Hdg|]. rewrite Ht. reflexivity.
Qed.

Lemma norm_params_keys : forall ps, map fst (norm_params_C02 ps) = map fst ps.
Proof. intros ps. unfold norm_params_C02. rewrite map_map. reflexivity. Qed.

Lemma norm_params_app : forall a b, norm_params_C02 (a ++ b) = norm_params_C02 a ++ norm_params_C02 b.
Proof. intros a b. unfold norm_params_C02. apply map_app. Qed.

(* ---- the comparison ---- *)

Lemma opt_str_eqb_refl : forall o, C02Spec.opt_str_eqb o o = true.
Proof. intros [s|]; [apply str_eqb_refl|reflexivity]. Qed.

Lemma prose_of_prose_fld : forall g gt gd, prose_of (mkG (prose_fld g) gt gd) = prose_of g.
Proof.
  intros g gt gd. unfold prose_fld, prose_fld_of. destruct (prose_of g) as [p|] eqn:E; [|reflexivity].
  unfold prose_of in *. cbn [g_doc]. destruct (g_doc g) as [| |[|c r]]; try discriminate E. inversion E; subst p. reflexivity.
Qed.

Definition scalar_default (g : gparam) : Prop :=
  match g_default g with Some (DE _) | Some (DO _) => False | _ => True end.

Lemma pyval_eqb_refl' : forall v, pyval_eqb v v = true.
Proof. intros v. apply EmitAstFacts.pyval_eqb_refl. Qed.

Lemma same_param_strict_norm : forall g,
    scalar_default g -> same_param_strict (zero_default_norm_param g) (norm_param_C02 g) = true.
Proof.
  intros g Hs. unfold same_param_strict. apply andb_true_iff. split; [apply andb_true_iff; split|].
  - unfold same_typ, zero_default_norm_param, norm_param_C02. destruct (g_default g); cbn [g_typ]; apply opt_str_eqb_refl.
  - unfold same_prose, norm_param_C02. rewrite prose_of_prose_fld.
    assert (Hp : prose_of (zero_default_norm_param g) = prose_of g).
    { unfold zero_default_norm_param. destruct (g_default g); reflexivity. }
    rewrite Hp. apply opt_str_eqb_refl.
  - unfold default_same, norm_param_C02, canon_default. cbn [g_default].
    assert (Hz : exists v, g_default (zero_default_norm_param g) = Some (DV v)).
    { unfold zero_default_norm_param, scalar_default in *. destruct (g_default g) as [[v|ex|o]|] eqn:E; try contradiction.
      - exists v. exact E.
      - cbn [g_default]. unfold zero_of_typ. destruct (fget (g_typ g)) as [t|]; [|eexists; reflexivity].
        destruct (simple_type_zero t) as [z|]; cbn [option_map]; eexists; reflexivity. }
    destruct Hz as [v Hv]. rewrite Hv. unfold same_default.
    destruct (in_none_types v) eqn:En.
    + cbn [d_none_like]. rewrite En, in_none_NoneStr. reflexivity.
    + cbn [dval_eqb]. rewrite pyval_eqb_refl'. apply orb_true_r.
Qed.

Lemma same_params_strict_norm : forall ps,
    Forall (fun kv => scalar_default (snd kv)) ps ->
    same_params same_param_strict (map (fun kv => (fst kv, zero_default_norm_param (snd kv))) ps) (norm_params_C02 ps) = true.
Proof.
  induction ps as [|[n g] ps IH]; intros H; [reflexivity|]. inversion H as [|kv l Hg Hl]; subst kv l.
  cbn [map norm_params_C02 same_params fst snd]. rewrite str_eqb_refl, (same_param_strict_norm g Hg). cbn [andb].
  apply IH. exact Hl.
Qed.

Lemma gparam_ok_scalar_default : forall g, gparam_ok_C02 g = true -> scalar_default g.
Proof.
  intros g H. unfold gparam_ok_C02 in H. destruct (g_typ g) as [| |t]; try discriminate H.
  apply andb_true_iff in H. destruct H as [_ Hd]. unfold scalar_default. unfold default_ok_C02 in Hd.
  destruct (g_default g) as [[v|ex|o]|]; try discriminate Hd; exact I.
Qed.

Lemma app_inj_length : forall {A} (a a' b b' : list A),
    a ++ b = a' ++ b' -> List.length a = List.length a' -> a = a' /\ b = b'.
Proof.
  intros A a. induction a as [|x a IH]; intros [|x' a'] b b' H Hl; cbn [List.length] in Hl; try discriminate Hl.
  - split; [reflexivity|exact H].
  - cbn [app] in H. inversion H; subst x'. injection Hl as Hl. destruct (IH a' b b' H2 Hl) as [H3 H4]. subst. split; reflexivity.
Qed.

Lemma guard_C02_ast_inv : forall i,
    guard_C02_ast i = true ->
    C02_domain i = true /\ undocumented_precedes false (ir_params i) = false
    /\ forallb param_ok_C02 (ir_params i) = true /\ return_ok_C02 (ir_returns i) = true /\ no_carried_body i = true.
Proof.
  intros i H. unfold guard_C02_ast in H.
  apply andb_true_iff in H. destruct H as [H Hb]. apply andb_true_iff in H. destruct H as [H Hr].
  apply andb_true_iff in H. destruct H as [H Hp]. apply andb_true_iff in H. destruct H as [Hd Hu].
  apply negb_true_iff in Hu. repeat split; assumption.
Qed.

Lemma emit_class_ok : forall pt i cn bs ds ww text attrs,
    no_carried_body i = true ->
    map_outcome (fun kv => do r <- param2ast pt (fst kv) (snd kv); Ok (fst r)) (ir_params (class_fold_returns i)) = Ok attrs ->
    emit_class pt i false cn bs ds ww (Ok text)
    = Ok (SClass cn (map EName bs) (SExpr (EConst (VStr (set_value_str (class_docstring text)))) :: attrs ++ [])
                 (map EName ds), i).
Proof.
  intros pt i cn bs ds ww text attrs Hb Ha. unfold emit_class.
  assert (Hbody : match ir_internal i with Some it => in_body it | None => [] end = []).
  { unfold no_carried_body in Hb. destruct (ir_internal i) as [it|]; [|reflexivity].
    destruct (in_body it); [reflexivity|discriminate Hb]. }
  rewrite Hbody. destruct (od_keys (ir_params i)); cbn [bind]; rewrite Ha; reflexivity.
Qed.

Lemma forall_folded_ok : forall i,
    forallb param_ok_C02 (ir_params i) = true -> return_ok_C02 (ir_returns i) = true ->
    Forall (fun kv => gparam_ok_C02 (snd kv) = true) (ir_params i ++ ret_entry i).
Proof.
  intros i Hp Hr. apply Forall_app. split.
  - apply Forall_forall. intros [n g] Hin. rewrite forallb_forall in Hp. specialize (Hp _ Hin).
    unfold param_ok_C02 in Hp. exact Hp.
  - unfold ret_entry, return_ok_C02 in *. destruct (ir_returns i) as [| |r]; try constructor; [|constructor].
    apply andb_true_iff in Hr. destruct Hr as [Hr _]. exact Hr.
Qed.

Lemma Forall2_length' : forall {A B} (R : A -> B -> Prop) l l', Forall2 R l l' -> List.length l = List.length l'.
Proof. intros A B R l l' H. induction H; cbn [List.length]; [reflexivity|rewrite IHForall2; reflexivity]. Qed.

(* inside guard_C02_ast: the emitter succeeds, the parser succeeds on what it emitted and returns the closed form
   norm_C02 of the input, which is the same interface as the zero-normalised input, strictly *)
Theorem C02_ast_partial_lemma : forall pt i cn bs ds ww text d it ww',
    guard_C02_ast i = true -> doc_agrees i d = true ->
    exists s i',
      emit_class pt i false cn bs ds ww (Ok text) = Ok (s, i)
      /\ parse_class (Some (Ok d)) (CStmt s) None it ww' = Ok i'
      /\ ir_params i' = norm_params_C02 (ir_params i)
      /\ ir_returns i' = norm_returns_C02 (ir_returns i)
      /\ same_interface_strict (zero_default_norm i) i' = true.
Proof.
  intros pt i cn bs ds ww text d it ww' Hg Hda.
  destruct (guard_C02_ast_inv i Hg) as [Hdom [Hup [Hpok [Hrok Hbody]]]].
  destruct (C02_domain_facts i Hdom) as [Hnd [Hrt Hstar]].
  destruct (undoc_split _ Hup) as [P [U [Hps [HP HU]]]].
  pose proof (forall_folded_ok i Hpok Hrok) as Hall.
  destruct (map_outcome_attrs pt _ Hall) as [xs [Hxs HF]].
  rewrite <- (fold_returns_params i Hrt) in Hxs.
  pose proof (emit_class_ok pt i cn bs ds ww text _ Hbody Hxs) as Hemit.
  pose proof (Forall2_attr_names _ _ HF) as Hnames. pose proof (Forall2_attr_ok _ _ HF) as Hok.
  destruct (parse_emitted_params i d P U xs [] Hnd Hrt Hps HP HU Hda Hnames Hok eq_refl)
    as [xsP [xsU [xsR [D0 [Dr [Hsplit [HnP [HnU [HnR [H0 [H1 Hloop]]]]]]]]]]].
  (* align the attribute records with the parameters *)
  rewrite Hps in HF. apply Forall2_app_inv_l in HF. destruct HF as [ysPU [ysR [HFPU [HFR Hys]]]].
  apply Forall2_app_inv_l in HFPU. destruct HFPU as [ysP [ysU [HFP [HFU HysPU]]]]. subst ysPU.
  rewrite Hsplit, <- app_assoc in Hys.
  assert (HlP : List.length xsP = List.length ysP).
  { rewrite <- (Forall2_length' _ _ _ HFP), <- (map_length at_name xsP), HnP, map_length. reflexivity. }
  destruct (app_inj_length _ _ _ _ Hys HlP) as [E1 Hys']. subst ysP.
  assert (HlU : List.length xsU = List.length ysU).
  { rewrite <- (Forall2_length' _ _ _ HFU), <- (map_length at_name xsU), HnU, map_length. reflexivity. }
  destruct (app_inj_length _ _ _ _ Hys' HlU) as [E2 E3]. subst ysU ysR.
  (* the final map *)
  assert (HpokP : forallb param_ok_C02 P = true /\ forallb param_ok_C02 U = true).
  { rewrite Hps, forallb_app in Hpok. apply andb_true_iff in Hpok. exact Hpok. }
  destruct HpokP as [HpokP HpokU].
  assert (Hset : set_names_and_types (zipupd xsP D0 ++ map fresh xsU) it ww' = Ok (norm_params_C02 (ir_params i))).
  { unfold set_names_and_types. rewrite pa_mapM_app.
    assert (HstarPU : forallb (fun n => negb (startswith [ch 42] n)) (map fst P) = true
                      /\ forallb (fun n => negb (startswith [ch 42] n)) (map fst U) = true).
    { rewrite Hps, map_app, forallb_app in Hstar. apply andb_true_iff in Hstar. exact Hstar. }
    destruct HstarPU as [HstarP HstarU].
    rewrite (pa_mapM_documented it ww' P D0 xsP H0 HFP HpokP HP HstarP). cbn [bind].
    rewrite (pa_mapM_undocumented it ww' U xsU HFU HpokU HU HstarU). cbn [bind].
    rewrite <- norm_params_app, <- Hps. rewrite od_of_pairs_id; [reflexivity|].
    unfold keys. rewrite norm_params_keys. exact Hnd. }
  (* the return entry *)
  assert (Hret : ret_upd xsR (match Dr with (_, g) :: _ => Has g | [] => FNone end) = norm_returns_C02 (ir_returns i)).
  { unfold ret_entry in HFR, H1. unfold norm_returns_C02, return_ok_C02 in *.
    destruct (ir_returns i) as [| |r]; cbn [filter] in H1.
    - inversion HFR; subst. apply same_params_nil_r in H1. subst Dr. reflexivity.
    - inversion HFR; subst. apply same_params_nil_r in H1. subst Dr. reflexivity.
    - inversion HFR as [|kv x l xs' [_ [_ [Hxt Hxd]]] HFR']; subst. inversion HFR'; subst. cbn [snd] in Hxt, Hxd.
      apply andb_true_iff in Hrok. destruct Hrok as [Hrg _].
      pose proof Hrg as Hrg0. unfold gparam_ok_C02 in Hrg. destruct (g_typ r) as [| |t] eqn:Et; try discriminate Hrg.
      apply andb_true_iff in Hrg. destruct Hrg as [Hrg _]. apply andb_true_iff in Hrg. destruct Hrg as [_ Hprose].
      inversion Hxt as [Htx]. cbn [ret_upd]. unfold norm_param_C02. rewrite Et, <- Htx, Hxd.
      destruct (documented (return_type_key, r)) eqn:Edoc.
      + apply same_params_single in H1. destruct H1 as [g' [HDr Hsp]]. subst Dr.
        destruct (docf_ok_of_prose t r g' Hprose Hsp Edoc) as [_ Hdoceq]. rewrite Hdoceq. reflexivity.
      + apply same_params_nil_r in H1. subst Dr. unfold prose_fld, prose_fld_of. unfold documented in Edoc. cbn [snd] in Edoc.
        destruct (prose_of r); [discriminate Edoc|]. reflexivity. }
  eexists. eexists. split; [exact Hemit|].
  rewrite parse_class_on_emitted, Hloop. cbn [bind fst snd]. rewrite Hset. cbn [bind].
  split; [reflexivity|]. cbn [ir_params ir_returns].
  split; [reflexivity|]. split; [exact Hret|].
  (* the comparison *)
  unfold same_interface_strict, zero_default_norm. cbn [ir_params ir_returns]. rewrite Hret.
  apply andb_true_iff. split.
  - apply same_params_strict_norm. apply Forall_forall. intros [n g] Hin. cbn [snd].
    rewrite forallb_forall in Hpok. specialize (Hpok _ Hin). unfold param_ok_C02 in Hpok.
    apply gparam_ok_scalar_default. exact Hpok.
  - unfold same_returns, norm_returns_C02, return_ok_C02 in *. destruct (ir_returns i) as [| |r]; try reflexivity.
    cbn [fget]. apply same_param_strict_norm. apply andb_true_iff in Hrok. destruct Hrok as [Hrg _].
    apply gparam_ok_scalar_default. exact Hrg.
Qed.

(* ================================================================== *)
(* Part 6: the hypothesis is satisfiable; refutation; witnesses           *)
(* ================================================================== *)

Definition w2 (n : str) (g : gparam) : ir := mkIR FNone (Has (L "static")) (Has (L "Doc.")) [(n, g)] FNone None.
Definition PG (doc t : str) (d : option dval) : gparam := mkG (Has doc) (Has t) d.

Definition w2_untyped := w2 (L "x") (mkG (Has (L "the x")) Missing (Some (DV (VInt 5)))).
Definition w2_none_scalar := w2 (L "x") (PG (L "the x") (L "int") (Some (DV VNone))).
Definition w2_quoted := w2 (L "x") (PG (L "the x") (L "str") (Some (DV (VStr (L "'a'"))))).
Definition w2_empty := w2 (L "x") (PG (L "the x") (L "Optional[str]") (Some (DV (VStr [])))).
Definition w2_nonstr := w2 (L "x") (PG (L "the x") (L "Optional[str]") (Some (DV (VInt 5)))).
Definition w2_reordered :=
  mkIR FNone (Has (L "static")) (Has (L "Doc."))
       [(L "a", mkG Missing (Has (L "int")) None); (L "b", PG (L "the b") (L "int") None)] FNone None.
Definition w2_ret_untyped :=
  mkIR FNone (Has (L "static")) (Has (L "Doc.")) [(L "x", PG (L "the x") (L "int") None)]
       (Has (mkG (Has (L "the result")) Missing None)) None.
Definition w2_optional := w2 (L "x") (PG (L "Optional thing") (L "int") None).
Definition w2_noncanon := w2 (L "x") (PG (L "the x") (L "Optional[ int]") None).
Definition w2_mismatch := w2 (L "x") (PG (L "the x") (L "float") (Some (DV (VInt 0)))).
Definition w2_negzero := w2 (L "x") (PG (L "the x") (L "float") (Some (DV (VFloat (L "-0.0"))))).

Definition o2 := mkO02 false false.
Definition fails2 (w : ir) : bool := negb (C02_ast_holds_b [] w (doc_ir_of w) (L "Doc.") false false false).

(* the docstring hypothesis can always be met *)
Lemma same_params_prose_self : forall l,
    forallb documented l = true ->
    same_params same_prose l (map (fun kv => (fst kv, mkG (prose_fld_of (snd kv)) Missing None)) l) = true.
Proof.
  induction l as [|[n g] l IH]; intros H; [reflexivity|]. cbn [forallb] in H. apply andb_true_iff in H. destruct H as [_ Hl].
  cbn [map same_params fst snd]. rewrite str_eqb_refl, (IH Hl). cbn [andb]. rewrite andb_true_r.
  unfold same_prose. change (prose_fld_of g) with (prose_fld g). rewrite prose_of_prose_fld. apply opt_str_eqb_refl.
Qed.

Lemma forallb_filter_self : forall {A} (f : A -> bool) l, forallb f (filter f l) = true.
Proof.
  intros A f l. induction l as [|x l IH]; [reflexivity|]. cbn [filter]. destruct (f x) eqn:E; [|exact IH].
  cbn [forallb]. rewrite E, IH. reflexivity.
Qed.

Theorem doc_agrees_doc_ir_of : forall i, doc_agrees i (doc_ir_of i) = true.
Proof.
  intros i. unfold doc_agrees, doc_ir_of. cbn [ir_params ir_returns]. rewrite andb_true_r.
  apply same_params_prose_self. apply forallb_filter_self.
Qed.

(* the statement at full strength is false of the faithful model: x: int = None comes back as 0 *)
Theorem C02_refuted_lemma : ~ C02_ast_statement.
Proof.
  intros H.
  specialize (H [] w2_none_scalar (L "ConfigClass") [L "object"] [] false (L "Doc.") (doc_ir_of w2_none_scalar) false false
                eq_refl (doc_agrees_doc_ir_of _)).
  destruct H as [s [i0 [i' [He [Hp Hs]]]]].
  vm_compute in He. injection He as Hs0 _. subst s.
  vm_compute in Hp. injection Hp as Hp. subst i'. vm_compute in Hs. discriminate Hs.
Qed.

(* one witness per finding class of finding_class_C02 that is visible at the AST level: the classifier names the
   class, the IR is in the domain, and the composition fails on it *)
Definition c02_witnesses : list (c02_class * ir) :=
  [(K2_untyped, w2_untyped); (K2_none_under_scalar, w2_none_scalar); (K2_str_default_quoted, w2_quoted);
   (K2_empty_str_default, w2_empty); (K2_nonstr_default_under_str_type, w2_nonstr);
   (K2_undocumented_reordered, w2_reordered); (K2_return_untyped, w2_ret_untyped);
   (K2_prose_starts_optional, w2_optional); (K2_type_not_canonical, w2_noncanon);
   (K2_default_type_mismatch, w2_mismatch)].

Definition c02_witness_ok (kw : c02_class * ir) : bool :=
  match finding_class_C02 o2 (snd kw) with
  | Some k => str_eqb (c02_class_name k) (c02_class_name (fst kw))
  | None => false
  end && C02_domain (snd kw) && negb (guard_C02_ast (snd kw)) && fails2 (snd kw).

Theorem C02_witnesses_lemma : forallb c02_witness_ok c02_witnesses = true.
Proof. vm_compute. reflexivity. Qed.

(* found by the proof: a float default of -0.0 is replaced by 0.0 (a falsy default gives way to the zero value of
   the type), and finding_class_C02 does not name it *)
Theorem C02_negative_zero_unclassified :
  finding_class_C02 o2 w2_negzero = None /\ C02_domain w2_negzero = true
  /\ guard_C02_ast w2_negzero = false /\ fails2 w2_negzero = true.
Proof. vm_compute. repeat split; reflexivity. Qed.

(* non-vacuity: an IR with every shape of parameter the theorem covers *)
Definition w2_ok : ir :=
  mkIR FNone (Has (L "static")) (Has (L "Doc."))
    [(L "a", PG (L "first.") (L "int") None);
     (L "b", PG (L "second") (L "Optional[str]") (Some (DV (VStr (L "mnist")))));
     (L "c", PG (L "third") (L "str") (Some (DV (VStr []))));
     (L "d", PG (L "4") (L "float") (Some (DV (VFloat (L "0.0")))));
     (L "e", PG (L "5") (L "List[int]") (Some (DV (VInt 0))));
     (L "f", PG (L "6") (L "Literal['a', 'b']") (Some (DV (VStr (L "a")))));
     (L "g", PG (L "7") (L "Optional[int]") (Some (DV (VStr NoneStr))));
     (L "h", PG (L "8") (L "Union[int, float]") (Some (DV VNone)));
     (L "k", PG (L "9") (L "bool") (Some (DV (VBool false))));
     (L "l", PG (L "10") (L "np.ndarray") None);
     (L "m", PG (L "Optional thing") (L "Optional[int]") (Some (DV (VInt (-5)))));
     (L "kwargs", PG (L "more") (L "Optional[dict]") (Some (DV (VStr NoneStr))));
     (L "u", mkG Missing (Has (L "str")) None);
     (L "v", mkG Missing (Has (L "Tuple[int, str]")) None)]
    (Has (PG (L "the result") (L "Optional[float]") None)) None.

Theorem C02_nonvacuous_lemma :
  guard_C02_ast w2_ok = true
  /\ guard_C02 (mkO02 false false) w2_ok = true /\ guard_C02 (mkO02 false true) w2_ok = true
  /\ C02_ast_holds_b [] w2_ok (doc_ir_of w2_ok) (L "Doc.") true false true = true.
Proof. vm_compute. repeat split; reflexivity. Qed.

(* ---- the relation of the oracles ---- *)

Lemma same_param_strict_weaken : forall a b, same_param_strict a b = true -> same_param a b = true.
Proof.
  intros a b H. unfold same_param_strict in H. unfold same_param.
  apply andb_true_iff in H. destruct H as [H Hd]. rewrite H. cbn [andb].
  unfold default_same in Hd. unfold default_ok.
  destruct (g_default a) as [v|], (g_default b) as [w|]; try discriminate Hd; [exact Hd|reflexivity].
Qed.

Lemma same_params_strict_weaken : forall a b,
    same_params same_param_strict a b = true -> same_params same_param a b = true.
Proof.
  induction a as [|[n1 p1] a IH]; intros [|[n2 p2] b] H; cbn [same_params] in *; try reflexivity; try discriminate H.
  apply andb_true_iff in H. destruct H as [H Hr]. apply andb_true_iff in H. destruct H as [Hn Hp].
  rewrite Hn, (same_param_strict_weaken _ _ Hp), (IH _ Hr). reflexivity.
Qed.

Lemma same_interface_strict_weaken : forall a b, same_interface_strict a b = true -> same_interface a b = true.
Proof.
  intros a b H. unfold same_interface_strict in H. unfold same_interface.
  apply andb_true_iff in H. destruct H as [Hp Hr]. rewrite (same_params_strict_weaken _ _ Hp). cbn [andb].
  unfold same_returns in *. destruct (fget (ir_returns a)) as [x|], (fget (ir_returns b)) as [y|]; try exact Hr.
  apply same_param_strict_weaken. exact Hr.
Qed.

(* the guarded codec in the words of the property: same interface as the zero-normalised input (strictly, hence
   also in the sense of the oracles' relation), with the closed form *)
Theorem C02_partial_lemma : forall pt i cn bs ds ww text d it ww',
    guard_C02_ast i = true -> doc_agrees i d = true ->
    exists s i',
      emit_class pt i false cn bs ds ww (Ok text) = Ok (s, i)
      /\ parse_class (Some (Ok d)) (CStmt s) None it ww' = Ok i'
      /\ ir_params i' = norm_params_C02 (ir_params i)
      /\ ir_returns i' = norm_returns_C02 (ir_returns i)
      /\ same_interface_strict (zero_default_norm i) i' = true
      /\ same_interface (zero_default_norm i) i' = true
      /\ same_interface i i' = true.
Proof.
  intros pt i cn bs ds ww text d it ww' Hg Hda.
  destruct (C02_ast_partial_lemma pt i cn bs ds ww text d it ww' Hg Hda) as [s [i' [He [Hp [H1 [H2 H3]]]]]].
  exists s, i'. repeat split; try assumption.
  - apply same_interface_strict_weaken. exact H3.
  - apply same_interface_norm_strict. exact H3.
Qed.
