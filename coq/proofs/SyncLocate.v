(* SyncLocate: the abstract tree layer of SyncFacts (find, rewrite) instantiated with the Locate model
   (find_in_ast / RewriteAtQuery on annotated modules), and what the C15 theorems give for sync:
   the frame law of the rewriter (C11), when the rewriter replaces what the finder found (REPLACES, with the
   refutation for FunctionDef targets), and that inside guard_C15 conform works on the node resolve names.
   emit / parse / render / cmp / options stay abstract.  Proofs only. *)
From Coq Require Import List Ascii Bool Arith ZArith Lia.
From Coq Require String.
Import String.StringSyntax.
From DT Require Import PyStr Sexp PyVal PureUtils PyAst FS Sync PyStrFacts FSFacts SyncFacts.
From DT Require Import Locate C15Spec LocateFacts RewriteFacts C15Facts.
Import ListNotations.

(* ------------------------------------------------------------------ *)
(* adapting the result shapes                                           *)
(* ------------------------------------------------------------------ *)

(* find_in_ast as conform sees it.  An exception inside find_in_ast (unreachable on a freshly annotated
   supported module inside guard_C15) is shown as None. *)
Definition loc_find (q : list str) (t : amodule) : option anode :=
  match find_in_ast q t with Ok r => r | Err _ => None end.

(* RewriteAtQuery(search, n).visit(t) with its flag.  conform asserts a non-empty search before it gets
   here; a visit that raises, or does not return a Module, is shown as unchanged/not replaced. *)
Definition loc_rewrite (q : list str) (n : anode) (t : amodule) : amodule * bool :=
  match q with
  | [] => (t, false)
  | _ => match rewrite_visit q n t with
         | Ok (NMod m', st) => (m', rw_replaced st)
         | _ => (t, false)
         end
  end.

Lemma loc_rewrite_ok : forall q n t m' st,
    q <> [] -> rewrite_visit q n t = Ok (NMod m', st) -> loc_rewrite q n t = (m', rw_replaced st).
Proof.
  intros q n t m' st Hq H. unfold loc_rewrite. destruct q as [|x q']; [contradiction Hq; reflexivity|].
  rewrite H. reflexivity.
Qed.

Lemma loc_rewrite_true_inv : forall q n t t',
    loc_rewrite q n t = (t', true) ->
    q <> [] /\ exists st, rewrite_visit q n t = Ok (NMod t', st) /\ rw_replaced st = true.
Proof.
  intros q n t t' H. unfold loc_rewrite in H. destruct q as [|x q']; [discriminate H|].
  split; [discriminate|].
  destruct (rewrite_visit (x :: q') n t) as [[[m'|s|a] st]|e]; try discriminate H.
  injection H as H1 H2. subst m'. exists st. split; [reflexivity|exact H2].
Qed.

(* ------------------------------------------------------------------ *)
(* (3) FIND: inside guard_C15 the finder returns the node resolve names *)
(* ------------------------------------------------------------------ *)

Lemma loc_find_resolve : forall m q,
    guard_C15 m q = true -> option_map node_view (loc_find q (annotate m)) = resolve q m.
Proof.
  intros m q Hg. pose proof (C15_partial_lemma m q Hg) as H.
  unfold C15_find_at, find_view, find_view_at in H. unfold loc_find, annotate.
  destruct (find_in_ast q (annotate_at [] m)) as [r|e]; cbn [bind] in H; [|discriminate H].
  injection H as H. exact H.
Qed.

Lemma loc_find_some_resolve : forall m q o,
    guard_C15 m q = true -> loc_find q (annotate m) = Some o -> resolve q m = Some (node_view o).
Proof.
  intros m q o Hg H. rewrite <- (loc_find_resolve m q Hg), H. reflexivity.
Qed.

Lemma loc_find_none_resolve : forall m q,
    guard_C15 m q = true -> loc_find q (annotate m) = None -> resolve q m = None.
Proof.
  intros m q Hg H. rewrite <- (loc_find_resolve m q Hg), H. reflexivity.
Qed.

(* ------------------------------------------------------------------ *)
(* (1) the frame law of the rewriter, as a function                     *)
(* ------------------------------------------------------------------ *)

(* what visit_FunctionDef may do to an addressed parent function that has no addressed argument is
   forgotten: the entries (not the number) of its positional defaults *)
Definition norm_args (a : aarguments) : aarguments :=
  mkAArguments (aar_args a) (map (fun _ => DRaw []) (aar_defaults a)) (aar_kwonly a)
               (aar_kw_defaults a) (aar_vararg a) (aar_kwarg a).

Fixpoint norm (q : loc) (s : astmt) : astmt :=
  match s with
  | AFunc i l n a b d r =>
    if oloc_eqb l (removelast q) then AFunc i l n (norm_args a) b d r else s
  | AClass i l n bs b d => AClass i l n bs (map (norm q) b) d
  | AOther i t h bl => AOther i t h (map (map (norm q)) bl)
  | _ => s
  end.

Lemma map_const_length : forall (A B : Type) (c : B) (l1 l2 : list A),
    List.length l1 = List.length l2 -> map (fun _ => c) l1 = map (fun _ => c) l2.
Proof.
  intros A B c l1. induction l1 as [|x l1 IH]; intros [|y l2] H; try discriminate H; [reflexivity|].
  cbn [map]. rewrite (IH l2) by (injection H as H; exact H). reflexivity.
Qed.

Lemma map_Forall2_eq : forall (A B : Type) (R : A -> A -> Prop) (f : A -> B) l l',
    Forall (fun x => forall y, R x y -> f x = f y) l -> Forall2 R l l' -> map f l = map f l'.
Proof.
  intros A B R f l l' HP H2. induction H2 as [|x y l l' Hxy Hl IH]; [reflexivity|].
  inversion HP as [|x0 l0 Hx Hrest]. subst. cbn [map]. rewrite (Hx y Hxy), (IH Hrest). reflexivity.
Qed.

Lemma smd_norm : forall q s s', same_mod_defaults q s s' -> norm q s = norm q s'.
Proof.
  intros q s. induction s as [i l n a b d r _|i l n bs b d IHb|i l t a v|i l ts v|i e|i e|i t h bl IHbl|a]
                using astmt_ind2; intros s' H; inversion H; subst; try reflexivity.
  - (* FunctionDef with the parent location *)
    match goal with Hl : oloc_eqb l (removelast q) = true |- _ => cbn [norm]; rewrite Hl end.
    match goal with Hs : same_args a _ |- _ => destruct Hs as [E1 [E2 [E3 [E4 [E5 E6]]]]] end.
    unfold norm_args. rewrite E1, E2, E3, E4, E5.
    rewrite (map_const_length _ _ (DRaw []) _ _ E6). reflexivity.
  - (* ClassDef *)
    cbn [norm]. f_equal. apply (map_Forall2_eq _ _ (same_mod_defaults q)); assumption.
  - (* other blocks *)
    cbn [norm]. f_equal.
    apply (map_Forall2_eq _ _ (Forall2 (same_mod_defaults q))); [|assumption].
    apply Forall_forall. intros blk Hin blk' H2. rewrite Forall_forall in IHbl.
    apply (map_Forall2_eq _ _ (same_mod_defaults q)); [apply IHbl; exact Hin|exact H2].
Qed.

(* [others_list q ref t]: the top-level statements of t, normalised, without the one at the index at which
   [ref] has the first position RewriteAtQuery would replace.  [ref] is the tree before the rewrite: the
   replaced position cannot be told from the new tree alone (the new node carries no _location). *)
Fixpoint others_list (q : loc) (ref t : list astmt) : list astmt :=
  match ref, t with
  | r :: ref', x :: t' =>
    match first_hit q r with
    | Some _ => map (norm q) t'
    | None => norm q x :: others_list q ref' t'
    end
  | _, _ => map (norm q) t
  end.

Definition others_ref (ref : amodule) (q : list str) (t : amodule) : list astmt := others_list q ref t.

Lemma visit_list_others : forall q l st l' st',
    rw_replaced st = false -> visit_list q st l = Ok (l', st') ->
    others_list q l l' = others_list q l l.
Proof.
  intros q l. induction l as [|x rest IH]; intros st l' st' Hst Hv; cbn [visit_list] in Hv.
  - injection Hv as Hv _. subst l'. reflexivity.
  - destruct (visit_stmt q st x) as [[x' st1]|e] eqn:Ex; cbn [bind fst snd] in Hv; [|discriminate Hv].
    destruct (visit_list q st1 rest) as [[r' st2]|e] eqn:El; cbn [bind fst snd] in Hv; [|discriminate Hv].
    injection Hv as Hv _. subst l'.
    destruct (frame_stmt_all q x st x' st1 Hst Ex) as [[H1 [H2 H3]]|[H1 [p [H2 H3]]]].
    + cbn [others_list]. rewrite H2. rewrite <- (smd_norm q x x' H3).
      rewrite (IH st1 r' st2 H1 El). reflexivity.
    + rewrite (visit_list_id q rest st1 H1) in El. injection El as El _. subst r'.
      cbn [others_list]. rewrite H2. reflexivity.
Qed.

(* the abstract frame law, with the tree before as the reference: holds of RewriteAtQuery for every tree
   (stale locations included), every search and every replacement node; no guard *)
Definition REWRITE_FRAME_REF_law (node tree X : Type)
           (rewrite : list str -> node -> tree -> tree * bool)
           (others : tree -> list str -> tree -> list X) : Prop :=
  forall search n t, others t search (fst (rewrite search n t)) = others t search t.

Theorem loc_rewrite_frame : REWRITE_FRAME_REF_law anode amodule astmt loc_rewrite others_ref.
Proof.
  intros q n t. unfold loc_rewrite, others_ref. destruct q as [|x q']; [reflexivity|].
  destruct (rewrite_visit (x :: q') n t) as [[[m'|s|a] st]|e] eqn:E; cbn [fst]; try reflexivity.
  unfold rewrite_visit in E.
  destruct (visit_list (x :: q') (mkRw false n) t) as [[l st1]|e] eqn:EV; cbn [bind fst snd] in E;
    [|discriminate E].
  injection E as E _. subst l. apply (visit_list_others (x :: q') t (mkRw false n) m' st1 eq_refl EV).
Qed.

(* ------------------------------------------------------------------ *)
(* (2) REPLACES: when the rewriter replaces what the finder found       *)
(* ------------------------------------------------------------------ *)

Lemma not_addressed_not_replaced : forall q n t,
    first_hit_list q t = None -> snd (loc_rewrite q n t) = false.
Proof.
  intros q n t H. unfold loc_rewrite. destruct q as [|x q']; [reflexivity|].
  destruct (rewrite_visit (x :: q') n t) as [[[m'|s|a] st]|e] eqn:E; try reflexivity.
  cbn [snd]. rewrite (C15_rewrite_position (x :: q') n t m' st) by (try discriminate; exact E).
  rewrite H. reflexivity.
Qed.

(* inside both guards a node the finder found is replaced, whenever the visit returns at all *)
Theorem replaces_resolved_nodes : forall m q n o m' st,
    guard_C15 m q = true -> rw_guard_C15 m q = true ->
    loc_find q (annotate m) = Some o ->
    rewrite_visit q n (annotate m) = Ok (NMod m', st) ->
    q <> [] ->
    loc_rewrite q n (annotate m) = (m', true)
    /\ replaced_first q (rw_node st) (fst (node_view o)) (annotate m) m'.
Proof.
  intros m q n o m' st Hg Hrw Hf Hv Hq.
  pose proof (loc_find_some_resolve m q o Hg Hf) as Hres.
  pose proof (C15_rewrite_partial_lemma m q n m' st Hq Hrw Hv) as HP. rewrite Hres in HP.
  destruct (node_view o) as [p pn]. destruct HP as [H1 H2].
  split; [|exact H2]. rewrite (loc_rewrite_ok q n (annotate m) m' st Hq Hv), H1. reflexivity.
Qed.

(* the case the sync command lives on: the finder found a ClassDef *)
Corollary replaces_class_nodes : forall m q n i l name bs body d m' st,
    guard_C15 m q = true -> rw_guard_C15 m q = true ->
    loc_find q (annotate m) = Some (NStmt (AClass i l name bs body d)) ->
    rewrite_visit q n (annotate m) = Ok (NMod m', st) ->
    q <> [] ->
    loc_rewrite q n (annotate m) = (m', true)
    /\ replaced_first q (rw_node st) i (annotate m) m'.
Proof.
  intros m q n i l name bs body d m' st Hg Hrw Hf Hv Hq.
  apply (replaces_resolved_nodes m q n _ m' st Hg Hrw Hf Hv Hq).
Qed.

(* a FunctionDef statement is never swapped for the replacement node: only its argument lists and the
   entries of its defaults can change *)
Lemma visit_keeps_function : forall q st i l n a b d r s' st',
    visit_stmt q st (AFunc i l n a b d r) = Ok (s', st') -> exists a', s' = AFunc i l n a' b d r.
Proof.
  intros q st i l n a b d r s' st' H.
  change (visit_stmt q st (AFunc i l n a b d r)) with (visit_FunctionDef q st (AFunc i l n a b d r)) in H.
  unfold visit_FunctionDef in H.
  destruct (negb (rw_replaced st) && oloc_eqb l (removelast q));
    [|injection H as H _; subst s'; exists a; reflexivity].
  match type of H with bind ?c _ = _ => destruct c as [[node' ds]|e] end; cbn [bind] in H;
    [|discriminate H].
  destruct (negb (is_arg_node node')); [discriminate H|].
  destruct (emit_arg node') as [ra|e]; cbn [bind] in H; [|discriminate H].
  destruct (replace_first_arg q ra (aar_args a)) as [args1 b1].
  destruct (replace_first_arg q ra (aar_kwonly a)) as [kw1 b2].
  injection H as H _. subst s'. eexists. reflexivity.
Qed.

(* the finding found-definition-not-replaced: a location that names a FunctionDef which no tested node
   carries is found by the finder side (resolve) and never replaced, whatever the replacement node *)
Theorem function_nodes_never_replaced : forall m q n,
    rw_finding_class_C15 m q = Some KR_function_target ->
    (exists p name args body d r, resolve q m = Some (p, PStmt (SFunc name args body d r)))
    /\ snd (loc_rewrite q n (annotate m)) = false.
Proof.
  intros m q n H. unfold rw_finding_class_C15 in H.
  destruct (const_hazard q (annotate m)); [discriminate H|].
  destruct (first_hit_list q (annotate m)) as [h|] eqn:EH.
  - destruct (resolve q m) as [[p pn]|]; [|discriminate H].
    destruct (path_eqb h p); discriminate H.
  - split; [|apply not_addressed_not_replaced; exact EH].
    destruct (resolve q m) as [[p [mm|s|a]]|]; try discriminate H.
    destruct s as [name args body d r|name bs body d|t a v|ts v|e|e|tag h bl]; try discriminate H.
    exists p, name, args, body, d, r. reflexivity.
Qed.

(* hence REPLACES_law is false of the Locate layer: def helper(a, b) is found and never replaced *)
Lemma helper_found_not_replaced :
  (exists o, loc_find [L "helper"] (annotate [w_helper; w_C]) = Some o
             /\ fst (node_view o) = [0])
  /\ guard_C15 [w_helper; w_C] [L "helper"] = true
  /\ rw_finding_class_C15 [w_helper; w_C] [L "helper"] = Some KR_function_target
  /\ forall n, snd (loc_rewrite [L "helper"] n (annotate [w_helper; w_C])) = false.
Proof.
  split; [eexists; split; vm_compute; reflexivity|].
  split; [vm_compute; reflexivity|]. split; [vm_compute; reflexivity|].
  intros n. apply not_addressed_not_replaced. vm_compute. reflexivity.
Qed.

Theorem REPLACES_law_refuted : ~ REPLACES_law anode amodule loc_find loc_rewrite.
Proof.
  intros H. destruct helper_found_not_replaced as [[o [Ho _]] [_ [_ Hn]]].
  assert (Hq : [L "helper"] <> (@nil str)) by discriminate.
  pose proof (H [L "helper"] (NStmt (AExpr [] (EConst VNone))) (annotate [w_helper; w_C]) o Ho Hq) as HT.
  rewrite Hn in HT. discriminate HT.
Qed.

(* ------------------------------------------------------------------ *)
(* conform over the Locate layer                                        *)
(* ------------------------------------------------------------------ *)

(* the abstract C11 theorem with a reference tree (proofs/SyncFacts.v has it for [others] that read the new
   tree alone, which no rewriter inserting an unlabelled node can satisfy) *)
Section StructureRef.
  Variables (node tree irT opts X : Type).
  Variable emit_k : kind -> irT -> opts -> outcome node.
  Variable parse_file : FS.path -> bytes -> outcome tree.
  Variable find : list str -> tree -> option node.
  Variable rewrite : list str -> node -> tree -> tree * bool.
  Variable cmp : node -> node -> bool.
  Variable render_node : node -> outcome bytes.
  Variable render_tree : tree -> outcome bytes.
  Variable opts_of : option node -> list str -> kind -> opts.
  Variable type_ok : kind -> node -> bool.
  Variable others : tree -> list str -> tree -> list X.

  Theorem conform_replaced_keeps_others_ref :
    REWRITE_FRAME_REF_law node tree X rewrite others ->
    RENDER_PARSE_law tree parse_file render_tree ->
    forall fs file search k ir f fs' pr content t o,
      conform emit_k parse_file find rewrite cmp render_node render_tree opts_of type_ok
              fs file search k ir f = (fs', Ok true, pr) ->
      fs_get file fs = Some content -> parse_file file content = Ok t -> find search t = Some o ->
      exists content' t' n,
        fs_get file fs' = Some content' /\ parse_file file content' = Ok t'
        /\ emit_k k ir (opts_of (Some o) search k) = Ok n
        /\ rewrite search n t = (t', true)
        /\ others t search t' = others t search t.
  Proof.
    intros HRF HRP fs file search k ir f fs' pr content t o H Hc Hp Hf.
    destruct (conform_true_wrote _ _ _ _ _ _ _ _ _ _ _ _ _ _ _ _ _ _ _ _ _ H)
      as [[Hnone _]
         |[[content0 [t0 [n [src [Hc0 [Hp0 [Hf0 _]]]]]]]
          |[content0 [t0 [o0 [n [t' [src [Hc0 [Hp0 [Hf0 [He [_ [_ [_ [HR [Hrd [E _]]]]]]]]]]]]]]]]]].
    - rewrite Hc in Hnone. discriminate Hnone.
    - rewrite Hc in Hc0. injection Hc0 as Hc0. subst content0. rewrite Hp in Hp0.
      injection Hp0 as Hp0. subst t0. rewrite Hf in Hf0. discriminate Hf0.
    - rewrite Hc in Hc0. injection Hc0 as Hc0. subst content0. rewrite Hp in Hp0.
      injection Hp0 as Hp0. subst t0. rewrite Hf in Hf0. injection Hf0 as Hf0. subst o0.
      exists src, t', n. subst fs'. rewrite written_get_file, intended_wt.
      split; [reflexivity|]. split; [apply HRP; exact Hrd|]. split; [exact He|]. split; [exact HR|].
      pose proof (HRF search n t) as HF. rewrite HR in HF. exact HF.
  Qed.
End StructureRef.

Section SyncLocate.
  Variables (irT opts : Type).
  Variable emit_k : kind -> irT -> opts -> outcome anode.
  Variable parse_file : FS.path -> bytes -> outcome amodule.
  Variable cmp : anode -> anode -> bool.
  Variable render_node : anode -> outcome bytes.
  Variable render_tree : amodule -> outcome bytes.
  Variable opts_of : option anode -> list str -> kind -> opts.
  Variable type_ok : kind -> anode -> bool.

  Notation lconform :=
    (conform emit_k parse_file loc_find loc_rewrite cmp render_node render_tree opts_of type_ok).

  (* C11: a replacement made by sync keeps every other top-level statement of the file (up to the default
     entries of an addressed parent function); no premise on the tree layer at all *)
  Theorem sync_replace_keeps_other_statements :
    RENDER_PARSE_law amodule parse_file render_tree ->
    forall fs file search k ir f fs' pr content t o,
      lconform fs file search k ir f = (fs', Ok true, pr) ->
      fs_get file fs = Some content -> parse_file file content = Ok t -> loc_find search t = Some o ->
      exists content' t',
        fs_get file fs' = Some content' /\ parse_file file content' = Ok t'
        /\ others_ref t search t' = others_ref t search t.
  Proof.
    intros HRP fs file search k ir f fs' pr content t o H Hc Hp Hf.
    destruct (conform_replaced_keeps_others_ref _ _ _ _ _ _ _ _ _ _ _ _ _ _ _
                loc_rewrite_frame HRP _ _ _ _ _ _ _ _ _ _ _ H Hc Hp Hf)
      as [content' [t' [n [H1 [H2 [_ [_ H5]]]]]]].
    exists content', t'. split; [exact H1|]. split; [exact H2|exact H5].
  Qed.

  (* C11 with the position named: the file parses to the fresh annotation of m and the location is inside
     rw_guard_C15.  Then the one position that changed is the position of resolve, replaced by the
     visitor's final node; everything visited before it is unchanged up to same_mod_defaults, everything
     after it unchanged *)
  Theorem sync_replace_preserves_other_statements :
    RENDER_PARSE_law amodule parse_file render_tree ->
    forall fs file search k ir f fs' pr content m o,
      lconform fs file search k ir f = (fs', Ok true, pr) ->
      fs_get file fs = Some content -> parse_file file content = Ok (annotate m) ->
      loc_find search (annotate m) = Some o ->
      rw_guard_C15 m search = true ->
      exists content' t' p pn r,
        fs_get file fs' = Some content' /\ parse_file file content' = Ok t'
        /\ resolve search m = Some (p, pn)
        /\ replaced_first search r p (annotate m) t'
        /\ others_ref (annotate m) search t' = others_ref (annotate m) search (annotate m).
  Proof.
    intros HRP fs file search k ir f fs' pr content m o H Hc Hp Hf Hrw.
    destruct (conform_replaced_keeps_others_ref _ _ _ _ _ _ _ _ _ _ _ _ _ _ _
                loc_rewrite_frame HRP _ _ _ _ _ _ _ _ _ _ _ H Hc Hp Hf)
      as [content' [t' [n [H1 [H2 [_ [HR H5]]]]]]].
    destruct (loc_rewrite_true_inv _ _ _ _ HR) as [Hq [st [Hv Hrep]]].
    pose proof (C15_rewrite_partial_lemma m search n t' st Hq Hrw Hv) as HP.
    destruct (resolve search m) as [[p pn]|].
    - destruct HP as [_ HP]. exists content', t', p, pn, (rw_node st).
      repeat (split; [first [assumption|reflexivity]|]). exact H5.
    - destruct HP as [HP _]. rewrite HP in Hrep. discriminate Hrep.
  Qed.

  (* (3) at the level of conform: inside guard_C15 a modification either appends because resolve finds
     nothing at the location, or rewrites at the node resolve names *)
  Theorem sync_works_on_resolved_node :
    forall fs file search k ir f fs' pr content m,
      lconform fs file search k ir f = (fs', Ok true, pr) ->
      fs_get file fs = Some content -> parse_file file content = Ok (annotate m) ->
      guard_C15 m search = true ->
      (resolve search m = None /\ exists n src,
          emit_k k ir (opts_of None search k) = Ok n /\ render_node n = Ok src
          /\ fs' = written fs file Ap src)
      \/ (exists o n t' src,
             loc_find search (annotate m) = Some o /\ resolve search m = Some (node_view o)
             /\ emit_k k ir (opts_of (Some o) search k) = Ok n /\ cmp o n = false
             /\ loc_rewrite search n (annotate m) = (t', true) /\ render_tree t' = Ok src
             /\ fs' = written fs file Wt src).
  Proof.
    intros fs file search k ir f fs' pr content m H Hc Hp Hg.
    destruct (conform_true_wrote _ _ _ _ _ _ _ _ _ _ _ _ _ _ _ _ _ _ _ _ _ H)
      as [[Hnone _]
         |[[content0 [t0 [n [src [Hc0 [Hp0 [Hf0 [He [Hr [E _]]]]]]]]]]
          |[content0 [t0 [o [n [t' [src [Hc0 [Hp0 [Hf0 [He [_ [_ [HC [HR [Hrd [E _]]]]]]]]]]]]]]]]]].
    - rewrite Hc in Hnone. discriminate Hnone.
    - rewrite Hc in Hc0. injection Hc0 as Hc0. subst content0. rewrite Hp in Hp0.
      injection Hp0 as Hp0. subst t0. left.
      split; [apply (loc_find_none_resolve m search Hg Hf0)|]. exists n, src.
      split; [exact He|]. split; [exact Hr|exact E].
    - rewrite Hc in Hc0. injection Hc0 as Hc0. subst content0. rewrite Hp in Hp0.
      injection Hp0 as Hp0. subst t0. right. exists o, n, t', src.
      split; [exact Hf0|]. split; [apply (loc_find_some_resolve m search o Hg Hf0)|].
      repeat (split; [assumption|]). exact E.
  Qed.

  (* the same for the settled state every successful run establishes (SyncFacts.sync_establishes_settled):
     the node compared with the re-emission of the truth is the one resolve names *)
  Theorem settled_node_is_resolved : forall fs file search k ir m content,
      settled anode amodule irT opts emit_k parse_file loc_find loc_rewrite cmp opts_of type_ok
              fs file search k ir ->
      fs_get file fs = Some content -> parse_file file content = Ok (annotate m) ->
      guard_C15 m search = true ->
      exists o n, resolve search m = Some (node_view o)
                  /\ emit_k k ir (opts_of (Some o) search k) = Ok n
                  /\ (cmp o n = true \/ snd (loc_rewrite search n (annotate m)) = false).
  Proof.
    intros fs file search k ir m content [content0 [t [o [n [H1 [H2 [H3 [H4 [_ [_ H7]]]]]]]]]] Hc Hp Hg.
    rewrite Hc in H1. injection H1 as H1. subst content0. rewrite Hp in H2. injection H2 as H2. subst t.
    exists o, n. split; [apply (loc_find_some_resolve m search o Hg H3)|]. split; [exact H4|exact H7].
  Qed.
End SyncLocate.

(* non-vacuity of the positive half: class C of [w_C; w_helper] is inside both guards, is found at position
   [0], and a visit with a fresh ClassDef replaces it and keeps the other statement (def helper) *)
Example class_target_replaced_example :
  let m := [w_C; w_helper] in
  let n := NStmt (AClass [] None (L "C") [] [] []) in
  guard_C15 m [L "C"] = true /\ rw_guard_C15 m [L "C"] = true
  /\ option_map (fun o => fst (node_view o)) (loc_find [L "C"] (annotate m)) = Some [0]
  /\ snd (loc_rewrite [L "C"] n (annotate m)) = true
  /\ others_ref (annotate m) [L "C"] (fst (loc_rewrite [L "C"] n (annotate m)))
     = [annotate_stmt [] [1] w_helper]
  /\ rw_guard_C15 m [L "helper"] = false.
Proof. cbv zeta. repeat split; vm_compute; reflexivity. Qed.
