(* SyncPropsFacts: theorems about SyncProps.v for property C14: the event model (one write, of the output file, only
   after every pair was applied), every pair as one first-match replacement (frame theorem of RewriteAtQuery lifted
   over the list of pairs), and the guarded statement. *)
From Coq Require Import List Ascii Bool Arith ZArith Lia.
From Coq Require String.
Import String.StringSyntax.
From DT Require Import PyStr Sexp PyVal PureUtils PyAst Locate SyncProps C15Spec C14Spec PyStrFacts LocateFacts RewriteFacts C15Facts.
Import ListNotations.

(* ------------------------------------------------------------------ addresses are never empty *)
Lemma split_aux_nonempty : forall fuel sep s cur, split_aux fuel sep s cur <> [].
Proof.
  induction fuel as [|f IH]; intros sep s cur; simpl; [discriminate|].
  destruct s as [|c r]; [discriminate|].
  destruct (startswith sep (c :: r)); [discriminate | apply IH].
Qed.

Lemma dotted_nonempty : forall s, dotted s <> [].
Proof.
  intros s H. unfold dotted, strip_split, split in H.
  apply map_eq_nil in H. exact (split_aux_nonempty _ _ _ _ H).
Qed.

(* ------------------------------------------------------------------ emit.file and the shape of a run *)
Lemma emit_file_ok : forall t evts, emit_file t = Ok evts -> evts = [EvWrite FOutput t].
Proof.
  intros t evts H. unfold emit_file in H.
  destruct (has_raw_default t && negb (has_misplaced_arg t)); [discriminate|].
  destruct (has_raw_default t || has_misplaced_arg t); [discriminate|].
  inversion H. reflexivity.
Qed.

Definition loop_pairs (x : c14_input) := zip3 (ci_ips x) (ci_ops x) (ci_evs x).

Lemma run_ok_inv : forall x evts st,
    run_C14 x = (evts, st) ->
    (exists e, evts = [] /\ st = Err e)
    \/ (exists i0 o0 tree i',
           ast_parse [1] (ci_in x) = Ok i0 /\ ast_parse [0] (ci_out x) = Ok o0
           /\ List.length (ci_ips x) = List.length (ci_ops x)
           /\ sync_loop (ci_env x) (ci_eval x) (ci_wrap x) (loop_pairs x) i0 o0 = Ok (tree, i')
           /\ evts = [EvWrite FOutput tree] /\ st = Ok tt).
Proof.
  intros x evts st H. unfold run_C14, sync_properties in H.
  destruct (ast_parse [1] (ci_in x)) as [i0|e] eqn:Ei; simpl in H; [|inversion H; left; eexists; split; reflexivity].
  destruct (ast_parse [0] (ci_out x)) as [o0|e] eqn:Eo; simpl in H; [|inversion H; left; eexists; split; reflexivity].
  destruct (Nat.eqb (List.length (ci_ips x)) (List.length (ci_ops x))) eqn:El; simpl in H;
    [|inversion H; left; eexists; split; reflexivity].
  destruct (sync_loop (ci_env x) (ci_eval x) (ci_wrap x) (zip3 (ci_ips x) (ci_ops x) (ci_evs x)) i0 o0)
    as [[tree i']|e] eqn:Es; simpl in H; [|inversion H; left; eexists; split; reflexivity].
  destruct (emit_file tree) as [ev|e] eqn:Ee; [|inversion H; left; eexists; split; reflexivity].
  apply emit_file_ok in Ee. subst ev. inversion H; subst.
  right. exists i0, o0, tree, i'. apply Nat.eqb_eq in El. repeat split; assumption.
Qed.

(* ------------------------------------------------------------------ one pair *)
Lemma apply_wrap_mid : forall env w n i1 o1 repl i2 o2,
    apply_wrap env w n i1 o1 = Ok (repl, i2, o2) ->
    o2 = o1 \/ exists i e, o2 = set_ann_by_id i e o1.
Proof.
  intros env w n i1 o1 repl i2 o2 H. unfold apply_wrap in H.
  destruct w as [w|]; [|inversion H; left; reflexivity].
  destruct n as [m|s|a].
  - discriminate.
  - destruct s; try discriminate.
    + destruct (wrap_annotation env w ann) as [e|er]; simpl in H; [|discriminate].
      destruct id; inversion H; subst; [left; reflexivity | right; eexists; eexists; reflexivity].
    + destruct (aa_ann a) as [ann|]; [|inversion H; left; reflexivity].
      destruct (wrap_annotation env w ann) as [e|er]; simpl in H; [|discriminate].
      inversion H; subst. right. eexists; eexists; reflexivity.
  - destruct (aa_ann a) as [ann|]; [|inversion H; left; reflexivity].
    destruct (wrap_annotation env w ann) as [e|er]; simpl in H; [|discriminate].
    inversion H; subst. right. eexists; eexists; reflexivity.
Qed.

Lemma sync_property_step : forall env ev ip i e op w o last o1 i1,
    sync_property env ev ip i e op w o last = Ok (o1, i1) ->
    pair_step env ev w last (ip, op, e) i o o1 i1.
Proof.
  intros env ev ip i e op w o last o1 i1 H. pose proof H as Hsp. unfold sync_property in H.
  fold (dotted op) in H. fold (dotted ip) in H.
  match type of H with (do found <- ?c; _) = _ => destruct c as [[[n input1] output1]|er] eqn:Ef end; simpl in H; [|discriminate].
  destruct (apply_wrap env w n input1 output1) as [[[repl input2] output2]|er] eqn:Ew; simpl in H; [|discriminate].
  destruct (is_container repl && negb last); [discriminate|].
  destruct (const_hazard (dotted op) output2); [discriminate|].
  destruct (rewrite_visit (dotted op) repl output2) as [[g st]|er] eqn:Er; simpl in H; [|discriminate].
  destruct (rw_replaced st) eqn:Erep; [|discriminate].
  destruct g as [gen_ast|s|a]; try discriminate. inversion H; subst.
  destruct (C15_rewrite_frame_lemma (dotted op) repl output2 o1 st (dotted_nonempty op) Er)
    as [[H1 _]|[_ [p [H2 H3]]]]; [congruence|].
  assert (Hmid : is_mid o output2 /\ (ev = false -> exists n0 log, find_in_ast_log (dotted ip) i = Ok (Some n0, log))).
  { destruct ev.
    - destruct (negb (Nat.eqb (count [ch 46] ip) 0)); [discriminate|].
      destruct (it2literal e) as [lit|er]; simpl in Ef; [|discriminate]. inversion Ef; subst.
      split; [|intros; discriminate].
      exists output1. split; [left; reflexivity|]. eapply apply_wrap_mid; eassumption.
    - destruct (find_in_ast_log (dotted ip) i) as [[r log]|er] eqn:Efi; simpl in Ef; [|discriminate].
      destruct r as [n0|]; [|discriminate]. inversion Ef; subst.
      split; [|intros; eexists; eexists; reflexivity].
      exists (apply_dlog log o). split; [right; eexists; reflexivity|]. eapply apply_wrap_mid; eassumption. }
  destruct Hmid as [Hmid Hfind].
  eapply ps_intro; eassumption.
Qed.

(* ------------------------------------------------------------------ the loop, by induction over the pairs *)
Lemma sync_loop_steps : forall env ev w pairs i o o' i',
    sync_loop env ev w pairs i o = Ok (o', i') -> pair_steps env ev w pairs i o o' i'.
Proof.
  intros env ev w pairs. induction pairs as [|[[ip op] e] rest IH]; intros i o o' i' H; simpl in H.
  - inversion H; subst. constructor.
  - destruct (sync_property env ev ip i e op w o (is_empty rest)) as [[o1 i1]|er] eqn:Es; simpl in H; [|discriminate].
    eapply pss_cons; [apply sync_property_step; eassumption | apply IH; assumption].
Qed.

(* an error in any pair ends the call before anything is written *)
Lemma sync_loop_error_no_write : forall x e,
    (forall i0 o0, ast_parse [1] (ci_in x) = Ok i0 -> ast_parse [0] (ci_out x) = Ok o0 ->
                   sync_loop (ci_env x) (ci_eval x) (ci_wrap x) (loop_pairs x) i0 o0 = Err e) ->
    fst (run_C14 x) = [].
Proof.
  intros x e H. destruct (run_C14 x) as [evts st] eqn:Er.
  destruct (run_ok_inv x evts st Er) as [[e0 [H1 H2]]|[i0 [o0 [tree [i' [Hi [Ho [Hl [Hs _]]]]]]]]]; [subst; reflexivity|].
  rewrite (H i0 o0 Hi Ho) in Hs. discriminate.
Qed.

Theorem C14_frame_lemma : forall x, C14_frame x.
Proof.
  intros x f tree Hin. destruct (run_C14 x) as [evts st] eqn:Er. simpl in Hin.
  destruct (run_ok_inv x evts st Er) as [[e0 [H1 H2]]|[i0 [o0 [tree0 [i' [Hi [Ho [Hl [Hs [He Hst]]]]]]]]]]; subst.
  - contradiction.
  - destruct Hin as [Hin|[]]. inversion Hin; subst. split; [reflexivity|]. split; [reflexivity|].
    exists i0, o0, i'. repeat split; try assumption. apply sync_loop_steps. assumption.
Qed.

(* at most one write event, never on the input file *)
Theorem C14_events_lemma : forall x,
    fst (run_C14 x) = [] \/ exists tree, fst (run_C14 x) = [EvWrite FOutput tree] /\ snd (run_C14 x) = Ok tt.
Proof.
  intros x. destruct (run_C14 x) as [evts st] eqn:Er.
  destruct (run_ok_inv x evts st Er) as [[e0 [H1 H2]]|[i0 [o0 [tree0 [i' [_ [_ [_ [_ [He Hst]]]]]]]]]]; subst; simpl.
  - left. reflexivity.
  - right. exists tree0. split; reflexivity.
Qed.

Theorem C14_error_no_write_lemma : forall x e, snd (run_C14 x) = Err e -> fst (run_C14 x) = [].
Proof.
  intros x e H. destruct (C14_events_lemma x) as [H1|[tree [H1 H2]]]; [assumption|]. rewrite H2 in H. discriminate.
Qed.

(* ------------------------------------------------------------------ first_hit does not see annotations and defaults *)
Lemma first_arg_hit_map : forall f q l,
    (forall a, aa_loc (f a) = aa_loc a /\ aa_id (f a) = aa_id a) ->
    first_arg_hit q (map f l) = first_arg_hit q l.
Proof.
  intros f q l Hf. unfold first_arg_hit. induction l as [|a r IH]; simpl; [reflexivity|].
  destruct (Hf a) as [H1 H2]. rewrite H1.
  destruct (oloc_eqb (aa_loc a) q); simpl; [rewrite H2; reflexivity | exact IH].
Qed.

Lemma first_hit_list_ext : forall q (g : astmt -> astmt) l,
    Forall (fun s => first_hit q (g s) = first_hit q s) l ->
    first_hit_list q (map g l) = first_hit_list q l.
Proof.
  intros q g l H. induction H as [|x l Hx Hl IH]; simpl; [reflexivity|]. rewrite Hx, IH. reflexivity.
Qed.

Lemma first_hit_blocks_ext : forall q (g : astmt -> astmt) bl,
    Forall (Forall (fun s => first_hit q (g s) = first_hit q s)) bl ->
    first_hit_blocks q (map (map g) bl) = first_hit_blocks q bl.
Proof.
  intros q g bl H. induction H as [|b bl Hb Hbl IH]; simpl; [reflexivity|].
  rewrite (first_hit_list_ext q g b Hb), IH. reflexivity.
Qed.

Lemma first_hit_map_args : forall f q,
    (forall a, aa_loc (f a) = aa_loc a /\ aa_id (f a) = aa_id a) ->
    forall s, first_hit q (map_args_stmt f s) = first_hit q s.
Proof.
  intros f q Hf. induction s using astmt_ind2; try reflexivity.
  - simpl. destruct (oloc_eqb l (removelast q)); [|reflexivity].
    rewrite !first_arg_hit_map by assumption. reflexivity.
  - simpl map_args_stmt. rewrite !first_hit_class. destruct (oloc_eqb l q); [reflexivity|].
    apply first_hit_list_ext. assumption.
  - simpl map_args_stmt. rewrite !first_hit_other. apply first_hit_blocks_ext. assumption.
  - simpl. destruct (Hf a) as [H1 H2]. rewrite H1, H2. reflexivity.
Qed.

Lemma first_hit_set_stmt_ann : forall i e q s,
    first_hit q (map_stmts (set_stmt_ann i e) s) = first_hit q s.
Proof.
  intros i e q. induction s using astmt_ind2; try reflexivity.
  - simpl map_stmts. unfold set_stmt_ann at 1. rewrite !first_hit_class. destruct (oloc_eqb l q); [reflexivity|].
    apply first_hit_list_ext. assumption.
  - simpl. destruct (path_eqb i0 i); reflexivity.
  - simpl map_stmts. unfold set_stmt_ann at 1. rewrite !first_hit_other. apply first_hit_blocks_ext. assumption.
Qed.

Lemma attach_default_keeps : forall log a,
    aa_loc (attach_default log a) = aa_loc a /\ aa_id (attach_default log a) = aa_id a.
Proof.
  intros log a. unfold attach_default.
  destruct (List.find (fun ev => path_eqb (fst ev) (aa_id a)) log); simpl; split; reflexivity.
Qed.

Lemma set_arg_ann_keeps : forall i e a,
    aa_loc (set_arg_ann i e a) = aa_loc a /\ aa_id (set_arg_ann i e a) = aa_id a.
Proof. intros i e a. unfold set_arg_ann. destruct (path_eqb (aa_id a) i); simpl; split; reflexivity. Qed.

Lemma first_hit_list_map_all : forall q (g : astmt -> astmt) l,
    (forall s, first_hit q (g s) = first_hit q s) -> first_hit_list q (map g l) = first_hit_list q l.
Proof. intros q g l H. apply first_hit_list_ext. apply Forall_forall. intros s _. apply H. Qed.

Lemma first_hit_mid : forall q o o_mid, is_mid o o_mid -> first_hit_list q o_mid = first_hit_list q o.
Proof.
  intros q o o_mid [t0 [Ht0 Hmid]].
  assert (H0 : first_hit_list q t0 = first_hit_list q o).
  { destruct Ht0 as [E|[log E]]; subst; [reflexivity|]. unfold apply_dlog.
    apply first_hit_list_map_all. intros s. apply first_hit_map_args. apply attach_default_keeps. }
  destruct Hmid as [E|[i [e E]]]; subst; [assumption|]. rewrite <- H0. unfold set_ann_by_id.
  apply first_hit_list_map_all. intros s. rewrite first_hit_set_stmt_ann. apply first_hit_map_args.
  apply set_arg_ann_keeps.
Qed.

(* ------------------------------------------------------------------ the guarded statement (one pair) *)
Lemma pair_steps_single : forall env ev w pr i o o' i',
    pair_steps env ev w [pr] i o o' i' -> pair_step env ev w true pr i o o' i'.
Proof.
  intros env ev w pr i o o' i' H.
  inversion H as [|pr0 rest i0 o0 o1 i1 o2 i2 Hstep Hrest]; subst.
  inversion Hrest; subst. exact Hstep.
Qed.

Lemma ast_parse_ok : forall root m t, ast_parse root m = Ok t -> t = annotate_at root m.
Proof.
  intros root m t H. unfold ast_parse in H. destruct (supported m); [|discriminate]. inversion H. reflexivity.
Qed.

Lemma domain_supported_in : forall x, C14_domain x = true -> supported (ci_in x) = true.
Proof.
  intros x H. unfold C14_domain in H.
  repeat match goal with
         | [ H0 : _ && _ = true |- _ ] => apply andb_true_iff in H0; destruct H0
         end.
  assumption.
Qed.

Lemma find_view_none_log : forall root q m,
    find_view_at root q m = Ok None -> exists log, find_in_ast_log q (annotate_at root m) = Ok (None, log).
Proof.
  intros root q m H. unfold find_view_at, find_in_ast in H.
  destruct (find_in_ast_log q (annotate_at root m)) as [[r log]|e]; simpl in H; [|discriminate].
  destruct r as [n|]; simpl in H; [discriminate|]. exists log. reflexivity.
Qed.

Lemma find_view_some_log : forall root q m n log,
    find_in_ast_log q (annotate_at root m) = Ok (Some n, log) ->
    find_view_at root q m = Ok (Some (node_view n)).
Proof.
  intros root q m n log H. unfold find_view_at, find_in_ast. rewrite H. reflexivity.
Qed.

Lemma pair_class_facts : forall x ip op,
    ci_eval x = false -> pair_class x ip op = None ->
    finding_class_C15 (ci_in x) (dotted ip) = None
    /\ first_hit_list (dotted op) (annotate_at [0] (ci_out x))
       = option_map fst (resolve_at [0] (dotted op) (ci_out x)).
Proof.
  intros x ip op Hev H. unfold pair_class in H. rewrite Hev in H.
  destruct (finding_class_C15 (ci_in x) (dotted ip)) eqn:E1; [discriminate|].
  split; [reflexivity|].
  destruct (rw_finding_class_at [0] (ci_out x) (dotted op)) eqn:E2; [discriminate|].
  unfold rw_finding_class_at in E2.
  destruct (const_hazard (dotted op) (annotate_at [0] (ci_out x))); [discriminate|].
  destruct (first_hit_list (dotted op) (annotate_at [0] (ci_out x))) as [h|];
    destruct (resolve_at [0] (dotted op) (ci_out x)) as [[p n]|]; simpl; try reflexivity; try discriminate.
  - destruct (path_eqb h p) eqn:Ep; [|discriminate]. apply path_eqb_eq in Ep. subst. reflexivity.
  - destruct n as [m0|s0|a0]; try discriminate. destruct s0; discriminate.
Qed.

Theorem C14_partial_lemma : forall x, guard_C14 x = true -> C14_holds x.
Proof.
  intros x Hg. unfold guard_C14 in Hg. apply andb_true_iff in Hg. destruct Hg as [Hdom Hg].
  pose proof (domain_supported_in x Hdom) as Hsup.
  destruct (finding_class_C14 x) eqn:Ec; [discriminate|]. clear Hg.
  unfold finding_class_C14 in Ec.
  destruct (ci_eval x) eqn:Hev; [discriminate|].
  unfold C14_holds.
  destruct (ci_ips x) as [|ip [|ip2 ips]] eqn:Eips; simpl; try exact I;
    destruct (ci_ops x) as [|op [|op2 ops]] eqn:Eops; simpl; try exact I.
  simpl in Ec. destruct (pair_class x ip op) eqn:Epc; [discriminate|]. clear Ec.
  destruct (pair_class_facts x ip op Hev Epc) as [Hin Hout].
  (* what a write implies *)
  assert (Hwrite : forall tree, fst (run_C14 x) = [EvWrite FOutput tree] ->
            exists o_mid st p,
              is_mid (annotate_at [0] (ci_out x)) o_mid
              /\ first_hit_list (dotted op) o_mid = Some p
              /\ replaced_first (dotted op) (rw_node st) p o_mid tree
              /\ exists n log, find_in_ast_log (dotted ip) (annotate_at [1] (ci_in x)) = Ok (Some n, log)).
  { intros tree Hw.
    destruct (C14_frame_lemma x FOutput tree) as [_ [_ [i0 [o0 [i' [Hi [Ho [_ Hsteps]]]]]]]].
    { rewrite Hw. left. reflexivity. }
    apply ast_parse_ok in Hi. apply ast_parse_ok in Ho. subst i0 o0.
    rewrite Eips, Eops in Hsteps.
    assert (Hz : exists e, zip3 [ip] [op] (ci_evs x) = [(ip, op, e)]).
    { destruct (ci_evs x); simpl; eexists; reflexivity. }
    destruct Hz as [e0 Hz]. rewrite Hz in Hsteps. apply pair_steps_single in Hsteps.
    inversion Hsteps as [ip0 op0 e1 i o o1' i1' o_mid repl st p Hsp Hfind Hmid Hrv Hrep Hfh Hrf]; subst.
    exists o_mid, st, p. repeat split; try assumption. apply Hfind. assumption. }
  split.
  - (* an address that does not resolve *)
    intros Hunres.
    destruct (run_C14 x) as [evts st] eqn:Er.
    destruct (run_ok_inv x evts st Er) as [[e0 [H1 H2]]|[i0 [o0 [tree [i' [_ [_ [_ [_ [He Hst]]]]]]]]]]; subst.
    + exists e0. reflexivity.
    + exfalso. destruct (Hwrite tree eq_refl) as [o_mid [st [p [Hmid [Hfh [_ [n [log Hfind]]]]]]]].
      destruct Hunres as [Hu|[_ Hu]].
      * rewrite (first_hit_mid _ _ _ Hmid), Hout, Hu in Hfh. discriminate.
      * pose proof (C15_partial_at [1] _ _ Hsup Hin) as Hv. rewrite Hu in Hv.
        destruct (find_view_none_log _ _ _ Hv) as [log' Hn]. rewrite Hn in Hfind. discriminate.
  - (* a write *)
    intros tree Hw. destruct (Hwrite tree Hw) as [o_mid [st [p [Hmid [Hfh [Hrf [n [log Hfind]]]]]]]].
    rewrite (first_hit_mid _ _ _ Hmid), Hout in Hfh.
    destruct (resolve_at [0] (dotted op) (ci_out x)) as [[p' n']|] eqn:Eres; simpl in Hfh; [|discriminate].
    inversion Hfh; subst p'.
    exists p, n', o_mid, st. repeat split; try assumption.
    intros _. pose proof (C15_partial_at [1] _ _ Hsup Hin) as Hv.
    rewrite (find_view_some_log _ _ _ _ _ Hfind) in Hv. inversion Hv as [Hv']. eexists. reflexivity.
Qed.
