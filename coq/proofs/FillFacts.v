(* FillFacts: the model of textwrap.fill (model/Fill.v) on its fragment, for every width and text of any
   length: every line fits the width, the words are exactly the words of the input in order, no line
   ends with a blank and no line other than the first starts with one; text that fits is returned
   unchanged.  Also: [words] is blind to whitespace-only edits (strip, indent, re-join).  Proofs only. *)
From Coq Require Import List Ascii Bool Arith Lia.
From Coq Require String.
Import String.StringSyntax.
From DT Require Import PyStr Sexp PyVal Extracted PureUtils Fill DocEmit C18Spec PyStrFacts SplitFacts.
Import ListNotations.

(* ------------------------------------------------------------------ *)
(* whitespace classes                                                   *)
(* ------------------------------------------------------------------ *)

Definition spc (c : ascii) : bool := ascii_eqb c sp.

Lemma tw_space_sp : tw_space sp = true.
Proof. reflexivity. Qed.

Lemma tw_space_nl : tw_space nl = true.
Proof. reflexivity. Qed.

Lemma spc_tw : forall c, spc c = true -> tw_space c = true.
Proof. intros c H. apply ascii_eqb_eq in H. subst c. reflexivity. Qed.

Definition allsp (s : str) : Prop := forallb tw_space s = true.
Definition nosp (s : str) : Prop := forallb (fun c => negb (tw_space c)) s = true.

(* ------------------------------------------------------------------ *)
(* words                                                                *)
(* ------------------------------------------------------------------ *)

Lemma cons_word_nonnil : forall c r ws, cons_word c r ws <> [].
Proof.
  intros c r ws. unfold cons_word. destruct r as [|d r']; [discriminate|].
  destruct (tw_space d); [discriminate|]. destruct ws; discriminate.
Qed.

Lemma words_cons_sp : forall c r, tw_space c = true -> words (c :: r) = words r.
Proof. intros c r H. cbn [words]. now rewrite H. Qed.

Lemma words_cons_nsp : forall c r, tw_space c = false -> words (c :: r) = cons_word c r (words r).
Proof. intros c r H. cbn [words]. now rewrite H. Qed.

Lemma words_allsp : forall s, allsp s -> words s = [].
Proof.
  intros s. induction s as [|c r IH]; intros H; [reflexivity|].
  unfold allsp in H. cbn [forallb] in H. apply andb_true_iff in H. destruct H as [Hc Hr].
  rewrite words_cons_sp by assumption. now apply IH.
Qed.

(* the key law: a whitespace character separates *)
Lemma words_app_sp_mid : forall a d b, tw_space d = true -> words (a ++ d :: b) = words a ++ words b.
Proof.
  intros a d b Hd. induction a as [|c r IH].
  - cbn [app]. now rewrite words_cons_sp.
  - cbn [app]. destruct (tw_space c) eqn:Ec.
    + now rewrite !words_cons_sp.
    + rewrite !words_cons_nsp by assumption. rewrite IH.
      destruct r as [|d' r'].
      * cbn [app cons_word words]. now rewrite Hd.
      * cbn [app cons_word]. destruct (tw_space d') eqn:Ed'; [reflexivity|].
        destruct (words (d' :: r')) as [|w1 t] eqn:Ew.
        -- rewrite words_cons_nsp in Ew by assumption. now apply cons_word_nonnil in Ew.
        -- reflexivity.
Qed.

Lemma words_app_allsp_l : forall a b, allsp a -> words (a ++ b) = words b.
Proof.
  intros a b. induction a as [|c r IH]; intros H; [reflexivity|].
  unfold allsp in H. cbn [forallb] in H. apply andb_true_iff in H. destruct H as [Hc Hr].
  cbn [app]. rewrite words_cons_sp by assumption. now apply IH.
Qed.

Lemma words_app_allsp_r : forall a b, allsp b -> words (a ++ b) = words a.
Proof.
  intros a b H. destruct b as [|d b']; [now rewrite app_nil_r|].
  unfold allsp in H. cbn [forallb] in H. apply andb_true_iff in H. destruct H as [Hd Hb].
  rewrite words_app_sp_mid by assumption. rewrite (words_allsp b') by assumption. apply app_nil_r.
Qed.

Lemma words_app_head_sp : forall a d b, tw_space d = true -> words (a ++ d :: b) = words a ++ words (d :: b).
Proof. intros a d b Hd. rewrite words_app_sp_mid by assumption. now rewrite words_cons_sp. Qed.

Lemma words_word : forall u, u <> [] -> nosp u -> words u = [u].
Proof.
  intros u. induction u as [|c r IH]; intros Hne Hu; [congruence|].
  unfold nosp in Hu. cbn [forallb] in Hu. apply andb_true_iff in Hu. destruct Hu as [Hc Hr].
  apply negb_true_iff in Hc. rewrite words_cons_nsp by assumption.
  destruct r as [|d r']; [reflexivity|].
  rewrite IH; [|discriminate|assumption].
  cbn [forallb] in Hr. apply andb_true_iff in Hr. destruct Hr as [Hd _]. apply negb_true_iff in Hd.
  cbn [cons_word]. now rewrite Hd.
Qed.

Lemma words_word_sp : forall u d b, u <> [] -> nosp u -> tw_space d = true ->
                                    words (u ++ d :: b) = u :: words b.
Proof.
  intros u d b Hne Hu Hd. rewrite words_app_sp_mid by assumption. now rewrite words_word.
Qed.

Lemma words_join_sep : forall d ls, tw_space d = true -> words (join [d] ls) = concat (map words ls).
Proof.
  intros d ls Hd. induction ls as [|x r IH]; [reflexivity|].
  destruct r as [|y r2].
  - cbn [join map concat]. now rewrite app_nil_r.
  - rewrite join_cons_cons. change ([d] ++ join [d] (y :: r2)) with (d :: join [d] (y :: r2)).
    rewrite words_app_sp_mid by assumption. rewrite IH. reflexivity.
Qed.

(* words only sees which characters are whitespace *)
Lemma words_replace_ws : forall s, words (replace_ws s) = words s.
Proof.
  intros s. induction s as [|c r IH]; [reflexivity|].
  unfold replace_ws in *. cbn [map]. destruct (tw_space c) eqn:Ec.
  - rewrite (words_cons_sp sp) by reflexivity. rewrite (words_cons_sp c) by assumption. exact IH.
  - rewrite !words_cons_nsp by assumption. rewrite IH.
    destruct r as [|d r']; [reflexivity|].
    cbn [map cons_word]. destruct (tw_space d) eqn:Ed.
    + now rewrite tw_space_sp.
    + now rewrite Ed.
Qed.

(* ---- strip and friends leave the words alone ---- *)
Lemma no_exotic_In : forall s c, no_exotic_space s = true -> In c s -> isspace c = tw_space c.
Proof.
  intros s c H Hin. unfold no_exotic_space in H. rewrite forallb_forall in H.
  specialize (H c Hin). now apply eqb_prop in H.
Qed.

Lemma no_exotic_cons : forall c r, no_exotic_space (c :: r) = true ->
                                   isspace c = tw_space c /\ no_exotic_space r = true.
Proof.
  intros c r H. unfold no_exotic_space in *. cbn [forallb] in H. apply andb_true_iff in H.
  destruct H as [Hc Hr]. split; [now apply eqb_prop in Hc|assumption].
Qed.

Lemma no_exotic_app : forall a b, no_exotic_space (a ++ b) = true <->
                                  no_exotic_space a = true /\ no_exotic_space b = true.
Proof. intros a b. unfold no_exotic_space. rewrite forallb_app. apply andb_true_iff. Qed.

Lemma words_lstrip : forall s, no_exotic_space s = true -> words (lstrip s) = words s.
Proof.
  intros s. induction s as [|c r IH]; intros H; [reflexivity|].
  apply no_exotic_cons in H. destruct H as [Hc Hr].
  unfold lstrip, lstrip_by in *. cbn [dropwhile]. destruct (isspace c) eqn:Ec; [|reflexivity].
  rewrite (words_cons_sp c) by congruence. now apply IH.
Qed.

Lemma dropwhile_takewhile : forall {A} (p : A -> bool) l, takewhile p l ++ dropwhile p l = l.
Proof.
  intros A p l. induction l as [|x r IH]; [reflexivity|].
  cbn [takewhile dropwhile]. destruct (p x); [cbn [app]; now rewrite IH|reflexivity].
Qed.

Lemma takewhile_forallb : forall {A} (p : A -> bool) l, forallb p (takewhile p l) = true.
Proof.
  intros A p l. induction l as [|x r IH]; [reflexivity|].
  cbn [takewhile]. destruct (p x) eqn:Ex; [cbn [forallb]; now rewrite Ex|reflexivity].
Qed.

Lemma rstrip_by_decomp : forall p s, exists t, s = rstrip_by p s ++ t /\ forallb p t = true.
Proof.
  intros p s. unfold rstrip_by. exists (rev (takewhile p (rev s))). split.
  - rewrite <- rev_app_distr. rewrite dropwhile_takewhile. now rewrite rev_involutive.
  - rewrite forallb_forall. intros x Hx. apply in_rev in Hx.
    pose proof (takewhile_forallb p (rev s)) as H. rewrite forallb_forall in H. now apply H.
Qed.

Lemma words_rstrip : forall s, no_exotic_space s = true -> words (rstrip s) = words s.
Proof.
  intros s H. destruct (rstrip_by_decomp isspace s) as [t [Hs Ht]].
  unfold rstrip. rewrite Hs at 2. symmetry. apply words_app_allsp_r.
  unfold allsp. rewrite forallb_forall. intros x Hx.
  rewrite forallb_forall in Ht. rewrite <- (no_exotic_In s x H).
  - now apply Ht.
  - rewrite Hs. apply in_or_app. now right.
Qed.

Lemma no_exotic_lstrip : forall s, no_exotic_space s = true -> no_exotic_space (lstrip s) = true.
Proof.
  intros s. induction s as [|c r IH]; intros H; [reflexivity|].
  unfold lstrip, lstrip_by in *. cbn [dropwhile]. destruct (isspace c); [|assumption].
  apply no_exotic_cons in H. now apply IH.
Qed.

Lemma words_strip : forall s, no_exotic_space s = true -> words (strip s) = words s.
Proof.
  intros s H. unfold strip, strip_by. change (rstrip_by isspace (lstrip_by isspace s)) with (rstrip (lstrip s)).
  rewrite words_rstrip by now apply no_exotic_lstrip. now apply words_lstrip.
Qed.

(* the parser's re-join of a wrapped block *)
Lemma words_rejoin : forall t, no_exotic_space t = true -> words (rejoin t) = words t.
Proof.
  intros t H. unfold rejoin. rewrite words_join_sep by reflexivity.
  rewrite <- (join_split_c nl t) at 2. rewrite words_join_sep by reflexivity.
  rewrite split_nl_eq. rewrite map_map. f_equal.
  apply map_ext_in. intros l Hl. apply words_strip.
  unfold no_exotic_space in *. pose proof (forallb_pieces _ nl t H) as HF.
  rewrite Forall_forall in HF. now apply HF.
Qed.

(* textwrap.indent with a blank prefix, then lstrip of the first line: indent_all_but_first *)
Lemma words_indent_lines : forall prefix ls, allsp prefix ->
    concat (map words (indent_lines prefix ls)) = concat (map words ls).
Proof.
  intros prefix ls Hp. induction ls as [|x r IH]; [reflexivity|].
  cbn [indent_lines map concat]. rewrite IH. f_equal.
  destruct (forallb isspace x); [reflexivity|]. now apply words_app_allsp_l.
Qed.

Lemma indent_lines_no_nl : forall prefix ls, ~ In nl prefix -> Forall (fun l => ~ In nl l) ls ->
                                             Forall (fun l => ~ In nl l) (indent_lines prefix ls).
Proof.
  intros prefix ls Hp H. induction H as [|x r Hx Hr IH]; [constructor|].
  cbn [indent_lines]. constructor; [|assumption].
  destruct (forallb isspace x); [assumption|].
  intros Hin. apply in_app_or in Hin. tauto.
Qed.

Lemma indent_lines_nonnil : forall prefix ls, ls <> [] -> indent_lines prefix ls <> [].
Proof. intros prefix ls H. destruct ls; [congruence|discriminate]. Qed.

Lemma indent_lines_chars : forall prefix ls l x,
    In l (indent_lines prefix ls) -> In x l -> In x prefix \/ exists l0, In l0 ls /\ In x l0.
Proof.
  intros prefix ls. induction ls as [|a r IH]; intros l x Hl Hx; [destruct Hl|].
  cbn [indent_lines] in Hl. destruct Hl as [Hl|Hl].
  - destruct (forallb isspace a).
    + subst l. right. exists a. split; [now left|assumption].
    + subst l. apply in_app_or in Hx. destruct Hx as [Hx|Hx]; [now left|].
      right. exists a. split; [now left|assumption].
  - destruct (IH l x Hl Hx) as [H|[l0 [H0 H1]]]; [now left|].
    right. exists l0. split; [now right|assumption].
Qed.

Lemma tab1_allsp : allsp (repeat_str tab 1).
Proof. reflexivity. Qed.

Lemma tab1_no_nl : ~ In nl (repeat_str tab 1).
Proof.
  intros H. assert (E : mem_c nl (repeat_str tab 1) = true) by now apply mem_c_In.
  vm_compute in E. discriminate.
Qed.

Lemma tab1_no_exotic : no_exotic_space (repeat_str tab 1) = true.
Proof. reflexivity. Qed.

Lemma words_indent_all_but_first : forall r, no_exotic_space r = true ->
    words (indent_all_but_first r 1 false) = words r.
Proof.
  intros r H. unfold indent_all_but_first, indent.
  rewrite !split_nl_eq.
  set (ls := split_c nl r).
  assert (Hls : ls <> []) by apply split_c_nonnil.
  assert (Hnn : Forall (fun l => ~ In nl l) (indent_lines (repeat_str tab 1) ls)).
  { apply indent_lines_no_nl; [apply tab1_no_nl|apply split_c_pieces_no_sep]. }
  rewrite split_c_join; [|now apply indent_lines_nonnil|assumption].
  destruct (indent_lines (repeat_str tab 1) ls) as [|l0 rest] eqn:El.
  { now apply indent_lines_nonnil in El. }
  cbv beta iota.
  rewrite (words_join_sep nl) by reflexivity.
  cbn [map concat].
  assert (Hl0 : no_exotic_space l0 = true).
  { unfold no_exotic_space. rewrite forallb_forall. intros x Hx.
    destruct (indent_lines_chars (repeat_str tab 1) ls l0 x) as [Hp|[l1 [H1 H2]]];
      [rewrite El; now left|assumption| |].
    - pose proof tab1_no_exotic as Ht. unfold no_exotic_space in Ht. rewrite forallb_forall in Ht. now apply Ht.
    - unfold no_exotic_space in H. rewrite forallb_forall in H. apply H.
      eapply split_c_pieces_chars; eassumption. }
  rewrite words_lstrip by assumption.
  change (words l0 ++ concat (map words rest)) with (concat (map words (l0 :: rest))).
  rewrite <- El. rewrite words_indent_lines by apply tab1_allsp.
  rewrite <- (words_join_sep nl) by reflexivity. unfold ls. now rewrite join_split_c.
Qed.

(* ------------------------------------------------------------------ *)
(* chunks: alternating runs of blanks and of non-blanks                 *)
(* ------------------------------------------------------------------ *)

(* a chunk of kind k: non-empty, every character is a blank iff k, and "blank" means the same to the
   splitter (== sp) and to TextWrapper (tw_space) *)
Definition chunk_ok (k : bool) (c : str) : Prop :=
  c <> [] /\ forallb (fun x => Bool.eqb (spc x) k && Bool.eqb (tw_space x) k) c = true.

Fixpoint good (k : bool) (cs : list str) : Prop :=
  match cs with
  | [] => True
  | c :: r => chunk_ok k c /\ good (negb k) r
  end.

Definition wfc (cs : list str) : Prop := exists k, good k cs.

(* text in which the only whitespace is the plain space *)
Definition normal (s : str) : Prop := forallb (fun x => Bool.eqb (tw_space x) (spc x)) s = true.

Lemma replace_ws_normal : forall s, normal (replace_ws s).
Proof.
  intros s. unfold normal, replace_ws. rewrite forallb_forall. intros x Hx.
  apply in_map_iff in Hx. destruct Hx as [c [Hc _]].
  destruct (tw_space c) eqn:Ec.
  - subst x. reflexivity.
  - subst x. rewrite Ec. unfold spc. destruct (ascii_eqb c sp) eqn:E; [|reflexivity].
    apply ascii_eqb_eq in E. subst c. discriminate.
Qed.

Lemma chunk_ok_kind : forall k c, chunk_ok k c -> is_space_chunk c = k.
Proof.
  intros k c [Hne H]. destruct c as [|x r]; [congruence|].
  cbn [forallb] in H. apply andb_true_iff in H. destruct H as [H _].
  apply andb_true_iff in H. destruct H as [H _]. apply eqb_prop in H. exact H.
Qed.

Lemma chunk_ok_space : forall c, chunk_ok true c -> allsp c.
Proof.
  intros c [_ H]. unfold allsp. rewrite forallb_forall in *. intros x Hx.
  specialize (H x Hx). apply andb_true_iff in H. destruct H as [_ H]. now apply eqb_prop in H.
Qed.

Lemma chunk_ok_word : forall c, chunk_ok false c -> nosp c.
Proof.
  intros c [_ H]. unfold nosp. rewrite forallb_forall in *. intros x Hx.
  specialize (H x Hx). apply andb_true_iff in H. destruct H as [_ H]. apply eqb_prop in H. now rewrite H.
Qed.

Lemma chunk_ok_no_nl : forall k c, chunk_ok k c -> ~ In nl c.
Proof.
  intros k c [_ H] Hin. rewrite forallb_forall in H. specialize (H nl Hin).
  apply andb_true_iff in H. destruct H as [H1 H2]. apply eqb_prop in H1. apply eqb_prop in H2.
  rewrite <- H1 in H2. discriminate.
Qed.

Lemma forallb_rev : forall {A} (p : A -> bool) l, forallb p (rev l) = forallb p l.
Proof.
  intros A p l. destruct (forallb p l) eqn:E.
  - rewrite forallb_forall in *. intros x Hx. apply E. now apply in_rev.
  - destruct (forallb p (rev l)) eqn:E2; [|reflexivity].
    rewrite forallb_forall in E2. assert (forallb p l = true).
    { rewrite forallb_forall. intros x Hx. apply E2. now apply in_rev in Hx. }
    congruence.
Qed.

Lemma chunks_aux_spec : forall s cur k,
    normal (rev cur ++ s) -> cur <> [] -> forallb (fun x => Bool.eqb (spc x) k) cur = true ->
    good k (chunks_aux s cur k) /\ concat (chunks_aux s cur k) = rev cur ++ s.
Proof.
  intros s. induction s as [|c r IH]; intros cur k Hn Hne Hk.
  - cbn [chunks_aux]. destruct cur as [|x cur']; [congruence|].
    cbn [good concat]. rewrite !app_nil_r. split; [|reflexivity]. split; [|exact I].
    split.
    + intros E. apply (f_equal (@List.length ascii)) in E. rewrite rev_length in E. discriminate.
    + rewrite app_nil_r in Hn. unfold normal in Hn. rewrite forallb_forall in *.
      intros y Hy. specialize (Hn y Hy). apply in_rev in Hy. specialize (Hk y Hy).
      apply eqb_prop in Hn. apply eqb_prop in Hk. rewrite Hn, Hk. now rewrite eqb_reflx.
  - cbn [chunks_aux]. destruct cur as [|x cur'] eqn:Ecur; [congruence|]. rewrite <- Ecur in *.
    fold (spc c). destruct (Bool.eqb (spc c) k) eqn:Eck.
    + assert (Hn' : normal (rev (c :: cur) ++ r)).
      { cbn [rev]. now rewrite <- app_assoc. }
      destruct (IH (c :: cur) k Hn') as [Hg Hc]; [discriminate| |].
      { cbn [forallb]. now rewrite Eck. }
      split; [assumption|]. rewrite Hc. cbn [rev]. now rewrite <- app_assoc.
    + assert (Hn' : normal (rev [c] ++ r)).
      { unfold normal in *. rewrite forallb_app in Hn. apply andb_true_iff in Hn. now destruct Hn. }
      destruct (IH [c] (spc c) Hn') as [Hg Hc]; [discriminate| |].
      { cbn [forallb]. now rewrite eqb_reflx. }
      assert (Ek : spc c = negb k).
      { revert Eck. destruct (spc c), k; cbn; congruence. }
      cbn [good concat]. split.
      * split; [|now rewrite <- Ek].
        split.
        -- intros E. apply (f_equal (@List.length ascii)) in E. rewrite rev_length, Ecur in E. discriminate.
        -- unfold normal in Hn. rewrite forallb_app in Hn. apply andb_true_iff in Hn. destruct Hn as [Hn _].
           rewrite forallb_forall in *. intros y Hy. specialize (Hn y Hy). apply in_rev in Hy.
           specialize (Hk y Hy). apply eqb_prop in Hn. apply eqb_prop in Hk. rewrite Hn, Hk. now rewrite eqb_reflx.
      * rewrite Hc. reflexivity.
Qed.

Lemma chunks_spec : forall s, normal s -> wfc (chunks s) /\ concat (chunks s) = s.
Proof.
  intros s Hn. unfold chunks. destruct s as [|c r].
  - cbn [chunks_aux]. split; [exists true; exact I|reflexivity].
  - cbn [chunks_aux]. fold (spc c).
    destruct (chunks_aux_spec r [c] (spc c)) as [Hg Hc]; [exact Hn|discriminate| |].
    { cbn [forallb]. now rewrite eqb_reflx. }
    split; [now exists (spc c)|exact Hc].
Qed.

Lemma wfc_tail : forall c r, wfc (c :: r) -> wfc r.
Proof. intros c r [k [_ H]]. now exists (negb k). Qed.

Lemma good_app : forall a b k, good k (a ++ b) -> good k a /\ wfc b.
Proof.
  intros a. induction a as [|x r IH]; intros b k H.
  - split; [exact I|now exists k].
  - cbn [app good] in *. destruct H as [Hx Hr]. destruct (IH b (negb k) Hr) as [Ha Hb].
    split; [now split|assumption].
Qed.

Lemma wfc_app : forall a b, wfc (a ++ b) -> wfc a /\ wfc b.
Proof. intros a b [k H]. destruct (good_app a b k H) as [Ha Hb]. split; [now exists k|assumption]. Qed.

(* the word chunks, in order *)
Definition wordsC (cs : list str) : list str := filter (fun c => negb (is_space_chunk c)) cs.

Lemma wordsC_app : forall a b, wordsC (a ++ b) = wordsC a ++ wordsC b.
Proof. intros a b. apply filter_app. Qed.

Lemma good_words : forall cs k, good k cs -> words (concat cs) = wordsC cs.
Proof.
  intros cs. induction cs as [|c r IH]; intros k H; [reflexivity|].
  cbn [good] in H. destruct H as [Hc Hr]. cbn [concat wordsC filter].
  rewrite (chunk_ok_kind k c Hc). destruct k.
  - cbn [negb]. rewrite words_app_allsp_l by now apply chunk_ok_space. now apply (IH false).
  - cbn [negb]. destruct r as [|c2 r2].
    + cbn [concat wordsC filter]. rewrite app_nil_r. apply words_word; [apply Hc|now apply chunk_ok_word].
    + cbn [good negb] in Hr. destruct Hr as [Hc2 Hr2].
      pose proof (IH true (conj Hc2 Hr2)) as IH'.
      cbn [concat] in *. destruct c2 as [|d c2']; [now destruct Hc2|].
      assert (Hd : tw_space d = true).
      { pose proof (chunk_ok_space _ Hc2) as Hs. unfold allsp in Hs. cbn [forallb] in Hs.
        apply andb_true_iff in Hs. now destruct Hs. }
      cbn [app]. rewrite words_app_head_sp by assumption.
      rewrite words_word; [|apply Hc|now apply chunk_ok_word].
      cbn [app] in IH'. now rewrite IH'.
Qed.

Lemma wfc_words : forall cs, wfc cs -> words (concat cs) = wordsC cs.
Proof. intros cs [k H]. now apply (good_words cs k). Qed.

Lemma good_no_nl : forall cs k, good k cs -> ~ In nl (concat cs).
Proof.
  intros cs. induction cs as [|c r IH]; intros k H Hin; [destruct Hin|].
  cbn [good concat] in *. destruct H as [Hc Hr]. apply in_app_or in Hin. destruct Hin as [Hin|Hin].
  - now apply (chunk_ok_no_nl k c).
  - now apply (IH (negb k)).
Qed.

(* ------------------------------------------------------------------ *)
(* take_fit / drop_last_space                                           *)
(* ------------------------------------------------------------------ *)

Lemma take_fit_app : forall w cs n t r, take_fit w n cs = (t, r) -> cs = t ++ r.
Proof.
  intros w cs. induction cs as [|c cs' IH]; intros n t r H.
  - cbn [take_fit] in H. now inversion H.
  - cbn [take_fit] in H. destruct (Nat.leb (n + List.length c) w) eqn:E.
    + destruct (take_fit w (n + List.length c) cs') as [t' r'] eqn:Et. inversion H; subst.
      cbn [app]. f_equal. now apply (IH _ _ _ Et).
    + now inversion H.
Qed.

Lemma take_fit_len : forall w cs n t r, take_fit w n cs = (t, r) -> n <= w -> n + List.length (concat t) <= w.
Proof.
  intros w cs. induction cs as [|c cs' IH]; intros n t r H Hn.
  - cbn [take_fit] in H. inversion H; subst. cbn. lia.
  - cbn [take_fit] in H. destruct (Nat.leb (n + List.length c) w) eqn:E.
    + destruct (take_fit w (n + List.length c) cs') as [t' r'] eqn:Et. inversion H; subst.
      apply Nat.leb_le in E. pose proof (IH _ _ _ Et E) as IH'.
      cbn [concat]. rewrite app_length. lia.
    + inversion H; subst. cbn. lia.
Qed.

Lemma take_fit_first : forall w c cs n, n + List.length c <= w ->
    exists t r, take_fit w n (c :: cs) = (c :: t, r).
Proof.
  intros w c cs n H. cbn [take_fit]. apply Nat.leb_le in H. rewrite H.
  destruct (take_fit w (n + List.length c) cs) as [t r]. now exists t, r.
Qed.

Lemma take_fit_all : forall w cs n, n + List.length (concat cs) <= w -> take_fit w n cs = (cs, []).
Proof.
  intros w cs. induction cs as [|c cs' IH]; intros n H; [reflexivity|].
  cbn [concat] in H. rewrite app_length in H. cbn [take_fit].
  assert (E : Nat.leb (n + List.length c) w = true) by (apply Nat.leb_le; lia).
  rewrite E. rewrite IH by lia. reflexivity.
Qed.

Lemma drop_last_space_nil : drop_last_space [] = [].
Proof. reflexivity. Qed.

Lemma drop_last_space_snoc : forall l c,
    drop_last_space (l ++ [c]) = if is_space_chunk c then l else l ++ [c].
Proof.
  intros l c. unfold drop_last_space. rewrite rev_app_distr. cbn [rev app].
  destruct (is_space_chunk c); [apply rev_involutive|reflexivity].
Qed.

(* the first and the last chunk of a chunk list, by kind *)
Definition first_is_word (l : list str) : Prop :=
  match l with c :: _ => is_space_chunk c = false | [] => True end.
Definition last_is_word (l : list str) : Prop :=
  match rev l with c :: _ => is_space_chunk c = false | [] => True end.

Lemma good_snoc_kinds : forall l a b k, good k (l ++ [a; b]) -> is_space_chunk a = negb (is_space_chunk b).
Proof.
  intros l. induction l as [|x r IH]; intros a b k H.
  - cbn [app good] in H. destruct H as [Ha [Hb _]].
    rewrite (chunk_ok_kind _ _ Ha), (chunk_ok_kind _ _ Hb). now rewrite negb_involutive.
  - cbn [app good] in H. destruct H as [_ H]. now apply (IH a b (negb k)).
Qed.

Lemma rev_case : forall {A} (l : list A), l = [] \/ exists l' x, l = l' ++ [x].
Proof.
  intros A l. destruct (rev l) as [|x r] eqn:E.
  - left. apply (f_equal (@rev A)) in E. now rewrite rev_involutive in E.
  - right. exists (rev r), x. apply (f_equal (@rev A)) in E. rewrite rev_involutive in E. exact E.
Qed.

Lemma drop_last_space_spec : forall l, wfc l ->
    exists tail, l = drop_last_space l ++ tail
                 /\ Forall (fun c => is_space_chunk c = true) tail
                 /\ last_is_word (drop_last_space l).
Proof.
  intros l Hw. destruct (rev_case l) as [E|[l' [c E]]].
  - subst l. exists []. split; [reflexivity|]. split; [constructor|exact I].
  - subst l. rewrite drop_last_space_snoc. destruct (is_space_chunk c) eqn:Ec.
    + exists [c]. split; [reflexivity|]. split; [constructor; [assumption|constructor]|].
      unfold last_is_word. destruct (rev_case l') as [E2|[l2 [c2 E2]]].
      * subst l'. exact I.
      * subst l'. rewrite rev_app_distr. cbn [rev app].
        destruct Hw as [k Hk]. rewrite <- app_assoc in Hk. cbn [app] in Hk.
        rewrite (good_snoc_kinds l2 c2 c k Hk). now rewrite Ec.
    + exists []. rewrite app_nil_r. split; [reflexivity|]. split; [constructor|].
      unfold last_is_word. rewrite rev_app_distr. cbn [rev app]. exact Ec.
Qed.


(* ------------------------------------------------------------------ *)
(* wrap_chunks as a segmentation of the chunk list                      *)
(* ------------------------------------------------------------------ *)

(* [seg w hl cs ls]: the lines ls are concatenations of consecutive groups of chunks of cs, in order;
   between groups only blank chunks are dropped; every group fits the width or is one chunk alone
   (break_long_words=False: a word longer than the width overflows), ends with a word chunk and (once a
   line exists) starts with one *)
Inductive seg (w : nat) : bool -> list str -> list str -> Prop :=
| seg_nil : forall hl, seg w hl [] []
| seg_drop : forall hl c r ls, is_space_chunk c = true -> seg w hl r ls -> seg w hl (c :: r) ls
| seg_line : forall hl line r ls,
    line <> [] -> (List.length (concat line) <= w \/ exists c, line = [c]) ->
    (hl = true -> first_is_word line) -> last_is_word line ->
    seg w true r ls -> seg w hl (line ++ r) (concat line :: ls).

Lemma seg_drop_all : forall w hl tail r ls,
    Forall (fun c => is_space_chunk c = true) tail -> seg w hl r ls -> seg w hl (tail ++ r) ls.
Proof.
  intros w hl tail r ls H Hs. induction H as [|c t Hc Ht IH]; [assumption|].
  cbn [app]. now apply seg_drop.
Qed.

Lemma Forall_app_inv : forall {A} (P : A -> Prop) a b, Forall P (a ++ b) -> Forall P a /\ Forall P b.
Proof. intros A P a b H. now apply Forall_app in H. Qed.

Lemma first_is_word_prefix : forall a b, a <> [] -> first_is_word (a ++ b) -> first_is_word a.
Proof. intros a b Hne H. destruct a; [congruence|exact H]. Qed.

Lemma wrap_chunks_nil : forall fuel w hl, wrap_chunks fuel w [] hl = [].
Proof. intros fuel w hl. destruct fuel; reflexivity. Qed.

Lemma take_fit_nil_first : forall w n c r rest, take_fit w n (c :: r) = ([], rest) -> w < n + List.length c.
Proof.
  intros w n c r rest H. cbn [take_fit] in H. destruct (Nat.leb (n + List.length c) w) eqn:E.
  - destruct (take_fit w (n + List.length c) r). discriminate.
  - apply Nat.leb_gt in E. exact E.
Qed.

(* the long-word step of _wrap_chunks: when nothing fits on an empty line, the next chunk goes there alone *)
Definition long_step (w : nat) (taken rest : list str) : list str * list str :=
  match taken, rest with
  | [], c :: r => if Nat.ltb w (List.length c) then ([c], r) else (taken, rest)
  | _, _ => (taken, rest)
  end.

Lemma long_step_spec : forall w cs1 taken rest taken' rest',
    take_fit w 0 cs1 = (taken, rest) -> long_step w taken rest = (taken', rest') ->
    cs1 = taken' ++ rest'
    /\ (List.length (concat taken') <= w \/ exists c, taken' = [c])
    /\ (cs1 <> [] -> taken' <> []).
Proof.
  intros w cs1 taken rest taken' rest' Et Hl.
  pose proof (take_fit_app _ _ _ _ _ Et) as Hcs1.
  pose proof (take_fit_len _ _ _ _ _ Et (Nat.le_0_l w)) as Htl. cbn [plus] in Htl.
  unfold long_step in Hl. destruct taken as [|x t].
  - destruct rest as [|c r].
    + inversion Hl; subst taken' rest'. split; [exact Hcs1|]. split; [now left|].
      intros Hn. exfalso. apply Hn. exact Hcs1.
    + cbn [app] in Hcs1. subst cs1. pose proof (take_fit_nil_first _ _ _ _ _ Et) as Hlt. cbn [plus] in Hlt.
      apply Nat.ltb_lt in Hlt. rewrite Hlt in Hl. inversion Hl; subst.
      split; [reflexivity|]. split; [right; now exists c|discriminate].
  - inversion Hl; subst. split; [assumption || reflexivity|]. split; [now left|discriminate].
Qed.

Lemma wrap_seg : forall w fuel cs hl,
    List.length cs <= fuel -> wfc cs -> seg w hl cs (wrap_chunks fuel w cs hl).
Proof.
  intros w fuel. induction fuel as [|f IH]; intros cs hl Hlen Hw.
  - destruct cs; [constructor|cbn in Hlen; lia].
  - destruct cs as [|c0 r0]; [constructor|].
    cbn [wrap_chunks].
    remember (is_space_chunk c0 && hl) as b eqn:Eb.
    remember (if b then r0 else c0 :: r0) as cs1 eqn:Ecs1.
    destruct (take_fit w 0 cs1) as [taken rest] eqn:Et.
    change (match taken with
            | [] => match rest with
                    | [] => (taken, rest)
                    | c :: r => if Nat.ltb w (List.length c) then ([c], r) else (taken, rest)
                    end
            | _ :: _ => (taken, rest)
            end) with (long_step w taken rest).
    destruct (long_step w taken rest) as [taken' rest'] eqn:El.
    destruct (long_step_spec w cs1 taken rest taken' rest' Et El) as [Hcs1 [Htl Hne]].
    assert (Hw1 : wfc cs1).
    { rewrite Ecs1. destruct b; [now apply wfc_tail in Hw|assumption]. }
    assert (Hfirst : hl = true -> first_is_word cs1).
    { intros Ehl. rewrite Ecs1, Eb. rewrite Ehl, andb_true_r. destruct (is_space_chunk c0) eqn:E0.
      - destruct r0 as [|c1 r1]; [exact I|]. cbn [first_is_word].
        destruct Hw as [k [Hc0 [Hc1 _]]].
        rewrite (chunk_ok_kind _ _ Hc0) in E0. rewrite (chunk_ok_kind _ _ Hc1). now rewrite E0.
      - exact E0. }
    assert (Hrest : List.length rest' <= f).
    { cbn [List.length] in Hlen. pose proof (f_equal (@List.length str) Hcs1) as HL.
      rewrite app_length in HL. destruct b.
      - rewrite Ecs1 in HL. cbv iota in HL. lia.
      - rewrite Ecs1 in HL, Hne. cbv iota in HL, Hne. cbn [List.length] in HL.
        assert (Hn : taken' <> []) by (apply Hne; discriminate).
        destruct taken'; [congruence|]. cbn [List.length] in HL. lia. }
    rewrite Hcs1 in Hw1.
    destruct (wfc_app _ _ Hw1) as [Hwt Hwr].
    destruct (drop_last_space_spec taken' Hwt) as [tail [Htk [Htail Hlast]]].
    set (line := drop_last_space taken') in *.
    assert (Hcs1' : cs1 = line ++ (tail ++ rest')).
    { rewrite Hcs1. rewrite Htk at 1. now rewrite <- app_assoc. }
    assert (Hgoal : forall res, seg w hl cs1 res -> seg w hl (c0 :: r0) res).
    { intros res Hres. rewrite Ecs1 in Hres. destruct b; [|assumption].
      symmetry in Eb. apply andb_true_iff in Eb. destruct Eb as [E _]. now apply seg_drop. }
    destruct line as [|l0 lr] eqn:Eline.
    + apply Hgoal. rewrite Hcs1'. cbn [app]. apply seg_drop_all; [assumption|]. now apply IH.
    + apply Hgoal. rewrite Hcs1'. apply seg_line.
      * discriminate.
      * destruct Htl as [Htl|[c Hc]].
        -- left. rewrite Htk in Htl. rewrite concat_app, app_length in Htl. lia.
        -- right. rewrite Hc in Htk. destruct lr as [|l1 lr'].
           ++ now exists l0.
           ++ apply (f_equal (@List.length str)) in Htk. cbn [app List.length] in Htk.
              rewrite app_length in Htk. cbn [List.length] in Htk. lia.
      * intros Ehl. apply (first_is_word_prefix _ (tail ++ rest')); [discriminate|].
        rewrite <- Hcs1'. now apply Hfirst.
      * exact Hlast.
      * apply seg_drop_all; [assumption|]. now apply IH.
Qed.

(* ---- what a segmentation implies for the lines ---- *)
Lemma seg_words : forall w hl cs ls, seg w hl cs ls -> wfc cs -> concat (map words ls) = wordsC cs.
Proof.
  intros w hl cs ls H. induction H as [hl|hl c r ls Hc Hs IH|hl line r ls Hne Hlen Hf Hl Hs IH]; intros Hw.
  - reflexivity.
  - cbn [wordsC filter]. rewrite Hc. cbn [negb]. apply IH. now apply wfc_tail in Hw.
  - destruct (wfc_app _ _ Hw) as [Hwl Hwr]. cbn [map concat]. rewrite wordsC_app.
    rewrite IH by assumption. now rewrite wfc_words.
Qed.

Lemma single_word_line : forall c r, wfc ([c] ++ r) -> last_is_word [c] -> chunk_ok false c.
Proof.
  intros c r Hw Hl. destruct Hw as [k [Hc _]]. unfold last_is_word in Hl. cbn [rev app] in Hl.
  rewrite (chunk_ok_kind _ _ Hc) in Hl. now subst k.
Qed.

Lemma seg_width : forall w hl cs ls, seg w hl cs ls -> wfc cs ->
    Forall (fun l => List.length l <= w \/ one_word l = true) ls.
Proof.
  intros w hl cs ls H. induction H as [hl|hl c r ls Hc Hs IH|hl line r ls Hne Hlen Hf Hl Hs IH]; intros Hw.
  - constructor.
  - apply IH. now apply wfc_tail in Hw.
  - destruct (wfc_app _ _ Hw) as [Hwl Hwr]. constructor; [|now apply IH].
    destruct Hlen as [Hlen|[c Hc]]; [now left|]. right. subst line.
    pose proof (single_word_line c r Hw Hl) as Hck. cbn [concat]. rewrite app_nil_r.
    exact (chunk_ok_word c Hck).
Qed.

(* when no word is longer than the width every line fits *)
Lemma seg_width_strict : forall w hl cs ls, seg w hl cs ls -> wfc cs ->
    Forall (fun c => List.length c <= w) (wordsC cs) -> Forall (fun l => List.length l <= w) ls.
Proof.
  intros w hl cs ls H. induction H as [hl|hl c r ls Hc Hs IH|hl line r ls Hne Hlen Hf Hl Hs IH]; intros Hw Hfit.
  - constructor.
  - apply IH; [now apply wfc_tail in Hw|]. cbn [wordsC filter] in Hfit. rewrite Hc in Hfit. exact Hfit.
  - destruct (wfc_app _ _ Hw) as [Hwl Hwr]. rewrite wordsC_app in Hfit. apply Forall_app in Hfit.
    destruct Hfit as [Hfl Hfr]. constructor; [|now apply IH].
    destruct Hlen as [Hlen|[c Hc]]; [assumption|]. subst line.
    pose proof (single_word_line c r Hw Hl) as Hck.
    cbn [wordsC filter] in Hfl. rewrite (chunk_ok_kind _ _ Hck) in Hfl. cbn [negb] in Hfl.
    inversion Hfl; subst. cbn [concat]. now rewrite app_nil_r.
Qed.

Lemma seg_no_nl : forall w hl cs ls, seg w hl cs ls -> wfc cs -> Forall (fun l => ~ In nl l) ls.
Proof.
  intros w hl cs ls H. induction H as [hl|hl c r ls Hc Hs IH|hl line r ls Hne Hlen Hf Hl Hs IH]; intros Hw.
  - constructor.
  - apply IH. now apply wfc_tail in Hw.
  - destruct (wfc_app _ _ Hw) as [[k Hk] Hwr]. constructor; [now apply (good_no_nl line k)|now apply IH].
Qed.

Lemma seg_chars : forall w hl cs ls, seg w hl cs ls ->
    Forall (fun l => forall x, In x l -> In x (concat cs)) ls.
Proof.
  intros w hl cs ls H. induction H as [hl|hl c r ls Hc Hs IH|hl line r ls Hne Hlen Hf Hl Hs IH].
  - constructor.
  - eapply Forall_impl; [|exact IH]. intros l Hx x Hin. cbn [concat]. apply in_or_app. right. now apply Hx.
  - rewrite concat_app. constructor.
    + intros x Hx. apply in_or_app. now left.
    + eapply Forall_impl; [|exact IH]. intros l Hx x Hin. apply in_or_app. right. now apply Hx.
Qed.

Lemma word_chunk_first_char : forall c, chunk_ok false c -> starts_with_space c = false.
Proof.
  intros c [Hne H]. destruct c as [|x r]; [congruence|]. cbn [forallb] in H.
  apply andb_true_iff in H. destruct H as [H _]. apply andb_true_iff in H. destruct H as [H _].
  apply eqb_prop in H. exact H.
Qed.

Lemma line_starts_word : forall line, wfc line -> line <> [] -> first_is_word line ->
                                      starts_with_space (concat line) = false.
Proof.
  intros line [k Hk] Hne Hf. destruct line as [|c r]; [congruence|].
  cbn [good] in Hk. destruct Hk as [Hc _]. cbn [first_is_word] in Hf.
  rewrite (chunk_ok_kind _ _ Hc) in Hf. subst k.
  pose proof (word_chunk_first_char c Hc) as Hs. cbn [concat].
  destruct c as [|x c']; [now destruct Hc|]. exact Hs.
Qed.

Lemma line_ends_word : forall line, wfc line -> line <> [] -> last_is_word line ->
                                    ends_with_space (concat line) = false.
Proof.
  intros line Hw Hne Hl. destruct (rev_case line) as [E|[l' [c E]]]; [congruence|]. subst line.
  unfold last_is_word in Hl. rewrite rev_app_distr in Hl. cbn [rev app] in Hl.
  destruct (wfc_app _ _ Hw) as [_ [k [Hc _]]].
  rewrite (chunk_ok_kind _ _ Hc) in Hl. subst k.
  rewrite concat_app. cbn [concat]. rewrite app_nil_r.
  unfold ends_with_space. rewrite last_c_app_nonnil by apply Hc.
  destruct (last_c c) as [x|] eqn:Ex; [|reflexivity].
  apply last_c_In in Ex. destruct Hc as [_ H]. rewrite forallb_forall in H. specialize (H x Ex).
  apply andb_true_iff in H. destruct H as [H _]. apply eqb_prop in H. exact H.
Qed.

Lemma seg_ends : forall w hl cs ls, seg w hl cs ls -> wfc cs ->
                                    Forall (fun l => ends_with_space l = false) ls.
Proof.
  intros w hl cs ls H. induction H as [hl|hl c r ls Hc Hs IH|hl line r ls Hne Hlen Hf Hl Hs IH]; intros Hw.
  - constructor.
  - apply IH. now apply wfc_tail in Hw.
  - destruct (wfc_app _ _ Hw) as [Hwl Hwr]. constructor; [now apply line_ends_word|now apply IH].
Qed.

Lemma seg_starts : forall w hl cs ls, seg w hl cs ls -> hl = true -> wfc cs ->
                                      Forall (fun l => starts_with_space l = false) ls.
Proof.
  intros w hl cs ls H. induction H as [hl|hl c r ls Hc Hs IH|hl line r ls Hne Hlen Hf Hl Hs IH]; intros Ehl Hw.
  - constructor.
  - apply IH; [assumption|]. now apply wfc_tail in Hw.
  - destruct (wfc_app _ _ Hw) as [Hwl Hwr]. constructor; [apply line_starts_word; auto|now apply IH].
Qed.

Lemma seg_tail_starts : forall w hl cs ls, seg w hl cs ls -> wfc cs ->
                                           Forall (fun l => starts_with_space l = false) (tl ls).
Proof.
  intros w hl cs ls H. induction H as [hl|hl c r ls Hc Hs IH|hl line r ls Hne Hlen Hf Hl Hs IH]; intros Hw.
  - constructor.
  - apply IH. now apply wfc_tail in Hw.
  - destruct (wfc_app _ _ Hw) as [Hwl Hwr]. cbn [tl]. now apply (seg_starts w true r ls).
Qed.

(* ------------------------------------------------------------------ *)
(* fill                                                                 *)
(* ------------------------------------------------------------------ *)

Lemma fill_inv : forall w s r, fill w s = Ok r ->
    0 < w /\ mem_c tabch s = false
    /\ r = join [nl] (wrap_chunks (S (List.length (chunks (replace_ws s)))) w (chunks (replace_ws s)) false).
Proof.
  intros w s r H. unfold fill in H.
  destruct (mem_c tabch s) eqn:E1; [discriminate|].
  destruct (Nat.eqb w 0) eqn:E3; [discriminate|].
  apply Nat.eqb_neq in E3. inversion H; subst. split; [lia|]. split; reflexivity.
Qed.

Lemma fill_seg : forall w s r, fill w s = Ok r ->
    exists ls, r = join [nl] ls /\ seg w false (chunks (replace_ws s)) ls
               /\ wfc (chunks (replace_ws s)) /\ concat (chunks (replace_ws s)) = replace_ws s.
Proof.
  intros w s r H. destruct (fill_inv w s r H) as [Hw [_ Hr]].
  destruct (chunks_spec (replace_ws s) (replace_ws_normal s)) as [Hwf Hcat].
  eexists. split; [exact Hr|]. split; [|split; assumption].
  apply wrap_seg; [lia|assumption].
Qed.

Lemma split_nl_join_lines : forall ls, Forall (fun l => ~ In nl l) ls ->
    split_nl (join [nl] ls) = match ls with [] => [[]] | _ => ls end.
Proof.
  intros ls H. rewrite split_nl_eq. destruct ls as [|x r]; [reflexivity|].
  apply split_c_join; [discriminate|assumption].
Qed.

(* (b) the words of the output are the words of the input, in order *)
Lemma fill_words : forall w s r, fill w s = Ok r -> words r = words s.
Proof.
  intros w s r H. destruct (fill_seg w s r H) as [ls [Hr [Hseg [Hwf Hcat]]]].
  subst r. rewrite words_join_sep by reflexivity.
  rewrite (seg_words _ _ _ _ Hseg Hwf). rewrite <- wfc_words by assumption.
  rewrite Hcat. apply words_replace_ws.
Qed.

(* (a) every line fits, or is a single word longer than the width *)
Lemma fill_width : forall w s r, fill w s = Ok r -> lines_le_or_word w r.
Proof.
  intros w s r H. destruct (fill_seg w s r H) as [ls [Hr [Hseg [Hwf Hcat]]]].
  subst r. unfold lines_le_or_word. pose proof (seg_no_nl _ _ _ _ Hseg Hwf) as Hnn.
  rewrite split_nl_join_lines by exact Hnn.
  destruct ls as [|x t].
  - constructor; [left; cbn; lia|constructor].
  - exact (seg_width w false _ _ Hseg Hwf).
Qed.

(* (a') when no word of the input is longer than the width, every line fits *)
Lemma fill_width_strict : forall w s r, fill w s = Ok r ->
    Forall (fun u => List.length u <= w) (words s) -> lines_le w r.
Proof.
  intros w s r H Hfit. destruct (fill_seg w s r H) as [ls [Hr [Hseg [Hwf Hcat]]]].
  subst r. unfold lines_le. pose proof (seg_no_nl _ _ _ _ Hseg Hwf) as Hnn.
  rewrite split_nl_join_lines by exact Hnn.
  destruct ls as [|x t].
  - constructor; [cbn; lia|constructor].
  - apply (seg_width_strict w false _ _ Hseg Hwf).
    rewrite <- wfc_words by assumption. rewrite Hcat, words_replace_ws. exact Hfit.
Qed.

(* (c) no line ends with a blank; no line but the first starts with one *)
Lemma fill_edges : forall w s r, fill w s = Ok r -> clean_edges r.
Proof.
  intros w s r H. destruct (fill_seg w s r H) as [ls [Hr [Hseg [Hwf Hcat]]]].
  subst r. unfold clean_edges. pose proof (seg_no_nl _ _ _ _ Hseg Hwf) as Hnn. rewrite split_nl_join_lines by exact Hnn.
  pose proof (seg_ends _ _ _ _ Hseg Hwf) as He.
  pose proof (seg_tail_starts _ _ _ _ Hseg Hwf) as Hs.
  destruct ls as [|x t].
  - split; [reflexivity|constructor].
  - inversion He as [|x' t' Hx Ht]; subst. cbn [tl] in Hs. split; [assumption|].
    apply Forall_forall. intros l Hl. rewrite Forall_forall in Hs, Ht. split; [now apply Hs|now apply Ht].
Qed.

Lemma C18_fill_lemma : forall w s r, fill w s = Ok r -> C18_fill_at w s r.
Proof.
  intros w s r H. unfold C18_fill_at. split; [now apply (fill_width w s)|].
  split; [now apply (fill_words w s)|now apply (fill_edges w s)].
Qed.

(* characters of the output: those of the input (whitespace possibly turned into a blank or a newline) *)
Lemma fill_chars : forall w s r x, fill w s = Ok r -> In x r -> x = nl \/ x = sp \/ In x s.
Proof.
  intros w s r x H Hx. destruct (fill_seg w s r H) as [ls [Hr [Hseg [Hwf Hcat]]]]. subst r.
  apply join_chars in Hx. destruct Hx as [Hx|[l [Hl Hxl]]].
  - left. destruct Hx as [Hx|[]]. now symmetry.
  - pose proof (seg_chars _ _ _ _ Hseg) as Hc. rewrite Forall_forall in Hc.
    specialize (Hc l Hl x Hxl). rewrite Hcat in Hc. unfold replace_ws in Hc.
    apply in_map_iff in Hc. destruct Hc as [c [Hc Hin]].
    destruct (tw_space c); [right; left; now symmetry|]. subst c. right. now right.
Qed.

Lemma fill_no_exotic : forall w s r, fill w s = Ok r -> no_exotic_space s = true -> no_exotic_space r = true.
Proof.
  intros w s r H Hs. unfold no_exotic_space in *. rewrite forallb_forall in *. intros x Hx.
  destruct (fill_chars w s r x H Hx) as [E|[E|Hin]]; [subst x; reflexivity|subst x; reflexivity|now apply Hs].
Qed.

(* ReST prose: wrap, indent the continuation lines, re-join as the parser does: same words *)
Lemma C18_rest_prose_lemma : forall w line, no_exotic_space line = true -> C18_rest_prose_at w line.
Proof.
  intros w line Hn r H. pose proof (fill_no_exotic w line r H Hn) as Hr.
  assert (Hi : no_exotic_space (indent_all_but_first r 1 false) = true).
  { unfold indent_all_but_first, indent. rewrite !split_nl_eq.
    set (ls := split_c nl r).
    assert (Hnn : Forall (fun l => ~ In nl l) (indent_lines (repeat_str tab 1) ls)).
    { apply indent_lines_no_nl; [apply tab1_no_nl|apply split_c_pieces_no_sep]. }
    rewrite split_c_join; [|apply indent_lines_nonnil; apply split_c_nonnil|assumption].
    destruct (indent_lines (repeat_str tab 1) ls) as [|l0 rest] eqn:El.
    { apply indent_lines_nonnil in El; [destruct El|apply split_c_nonnil]. }
    assert (Hall : forall l x, In l (l0 :: rest) -> In x l -> isspace x = tw_space x).
    { intros l x Hl Hx. rewrite <- El in Hl.
      destruct (indent_lines_chars _ _ _ _ Hl Hx) as [Hp|[l1 [H1 H2]]].
      - now apply (no_exotic_In (repeat_str tab 1) x tab1_no_exotic).
      - apply (no_exotic_In r x Hr). eapply split_c_pieces_chars; eassumption. }
    unfold no_exotic_space. rewrite forallb_forall. intros x Hx.
    apply join_chars in Hx. destruct Hx as [Hx|[l [Hl Hxl]]].
    - destruct Hx as [Hx|[]]. subst x. reflexivity.
    - apply eqb_true_iff. destruct Hl as [Hl|Hl].
      + subst l. apply (Hall l0 x); [now left|].
        unfold lstrip, lstrip_by in Hxl. clear - Hxl. induction l0 as [|c t IHt]; [destruct Hxl|].
        cbn [dropwhile] in Hxl. destruct (isspace c); [right; now apply IHt|assumption].
      + apply (Hall l x); [now right|assumption]. }
  rewrite words_rejoin by assumption.
  rewrite words_indent_all_but_first by assumption.
  now apply (fill_words w line).
Qed.

(* ------------------------------------------------------------------ *)
(* text that fits on one line is returned unchanged                     *)
(* ------------------------------------------------------------------ *)

Lemma replace_ws_id : forall s,
    forallb (fun c => negb (tw_space c) || ascii_eqb c sp) s = true -> replace_ws s = s.
Proof.
  intros s. induction s as [|c r IH]; intros H; [reflexivity|].
  cbn [forallb] in H. apply andb_true_iff in H. destruct H as [Hc Hr].
  unfold replace_ws in *. cbn [map]. rewrite IH by assumption. f_equal.
  destruct (tw_space c); [|reflexivity]. cbn [negb orb] in Hc. apply ascii_eqb_eq in Hc. now subst c.
Qed.

Lemma chunk_le_concat : forall (cs : list str) c, In c cs -> List.length c <= List.length (concat cs).
Proof.
  intros cs. induction cs as [|x r IH]; intros c H; [destruct H|].
  cbn [concat]. rewrite app_length. destruct H as [H|H]; [subst; lia|].
  specialize (IH c H). lia.
Qed.

Lemma one_line_clean_inv : forall s, one_line_clean s = true ->
    forallb (fun c => negb (tw_space c) || ascii_eqb c sp) s = true
    /\ ends_with_space s = false /\ mem_c tabch s = false.
Proof.
  intros s H. unfold one_line_clean in H. repeat (apply andb_true_iff in H; destruct H as [H ?]).
  repeat split; try assumption; now apply negb_true_iff.
Qed.

Lemma fill_short_id : forall w s, 0 < w -> one_line_clean s = true -> List.length s <= w -> fill w s = Ok s.
Proof.
  intros w s Hw Hc Hlen. destruct (one_line_clean_inv s Hc) as [Hch [Hend Htab]].
  unfold fill. rewrite Htab. assert (E0 : Nat.eqb w 0 = false) by (apply Nat.eqb_neq; lia). rewrite E0.
  rewrite (replace_ws_id s Hch).
  assert (Hn : normal s).
  { rewrite <- (replace_ws_id s Hch). apply replace_ws_normal. }
  destruct (chunks_spec s Hn) as [Hwf Hcat].
  f_equal. destruct (chunks s) as [|c0 r0] eqn:Ecs.
  - cbn [concat] in Hcat. subst s. reflexivity.
  - cbn [wrap_chunks]. rewrite andb_false_r.
    rewrite (take_fit_all w (c0 :: r0) 0) by (rewrite Hcat; cbn; lia).
    cbv iota beta.
    assert (Hd : drop_last_space (c0 :: r0) = c0 :: r0).
    { destruct (@rev_case str (c0 :: r0)) as [E|[l' [c E]]]; [discriminate|].
      rewrite E. rewrite drop_last_space_snoc. destruct (is_space_chunk c) eqn:Ek; [|reflexivity].
      exfalso. rewrite E in Hwf, Hcat. destruct (wfc_app _ _ Hwf) as [_ [k [Hck _]]].
      rewrite (chunk_ok_kind _ _ Hck) in Ek. subst k.
      rewrite concat_app in Hcat. cbn [concat] in Hcat. rewrite app_nil_r in Hcat.
      unfold ends_with_space in Hend. rewrite <- Hcat in Hend.
      rewrite last_c_app_nonnil in Hend by apply Hck.
      destruct (last_c c) as [x|] eqn:Ex.
      - apply last_c_In in Ex. destruct Hck as [_ H]. rewrite forallb_forall in H. specialize (H x Ex).
        apply andb_true_iff in H. destruct H as [H _]. apply eqb_prop in H. unfold spc in H. congruence.
      - apply last_c_nil_iff in Ex. now destruct Hck. }
    rewrite Hd. rewrite wrap_chunks_nil. cbn [join]. exact Hcat.
Qed.

Lemma nowrap_line_fill : forall w s, 0 < w -> nowrap_line w s = true -> fill w s = Ok s.
Proof.
  intros w s Hw H. unfold nowrap_line in H. apply andb_true_iff in H. destruct H as [Hc Hf].
  apply fill_short_id; [assumption|assumption|]. now apply Nat.leb_le.
Qed.

(* ------------------------------------------------------------------ *)
(* the guard of fill is exactly its domain                              *)
(* ------------------------------------------------------------------ *)

Lemma fill_guard_ok : forall w s, fill_guard w s = true -> exists r, fill w s = Ok r.
Proof.
  intros w s H. unfold fill_guard in H. apply andb_true_iff in H. destruct H as [Hw Htab].
  apply Nat.ltb_lt in Hw. apply negb_true_iff in Htab.
  unfold fill. rewrite Htab. assert (E0 : Nat.eqb w 0 = false) by (apply Nat.eqb_neq; lia). rewrite E0.
  eexists. reflexivity.
Qed.

Lemma fill_ok_guard : forall w s r, fill w s = Ok r -> fill_guard w s = true.
Proof.
  intros w s r H. destruct (fill_inv w s r H) as [Hw [Htab _]].
  unfold fill_guard. rewrite Htab. cbn [negb]. rewrite andb_true_r. now apply Nat.ltb_lt.
Qed.

Lemma C18_fill_partial_lemma : forall w s, fill_guard w s = true ->
                                           exists r, fill w s = Ok r /\ C18_fill_at w s r.
Proof.
  intros w s H. destruct (fill_guard_ok w s H) as [r Hr]. exists r. split; [assumption|].
  now apply C18_fill_lemma.
Qed.

(* ------------------------------------------------------------------ *)
(* a class-free corollary: any words, single-spaced                      *)
(* ------------------------------------------------------------------ *)

Lemma plain_word_inv : forall u, plain_word u = true -> u <> [] /\ nosp u.
Proof.
  intros u H. unfold plain_word in H. apply andb_true_iff in H. destruct H as [Hne Hch].
  split; [destruct u; [discriminate|discriminate]|exact Hch].
Qed.

Lemma words_join_plain : forall ws, forallb plain_word ws = true -> words (join [sp] ws) = ws.
Proof.
  intros ws H. rewrite words_join_sep by reflexivity. induction ws as [|u r IH]; [reflexivity|].
  cbn [forallb] in H. apply andb_true_iff in H. destruct H as [Hu Hr].
  destruct (plain_word_inv u Hu) as [Hne Hc].
  cbn [map concat]. rewrite IH by assumption. rewrite words_word; [reflexivity|assumption|assumption].
Qed.

Lemma fill_guard_plain_words : forall w ws, 0 < w -> forallb plain_word ws = true ->
                                            fill_guard w (join [sp] ws) = true.
Proof.
  intros w ws Hw H. unfold fill_guard. assert (E : Nat.ltb 0 w = true) by now apply Nat.ltb_lt. rewrite E.
  cbn [andb]. apply negb_true_iff. destruct (mem_c tabch (join [sp] ws)) eqn:Et; [|reflexivity].
  apply mem_c_In in Et. apply join_chars in Et. destruct Et as [[Et|[]]|[u [Hu Hx]]]; [discriminate|].
  rewrite forallb_forall in H. destruct (plain_word_inv u (H u Hu)) as [_ Hn].
  unfold nosp in Hn. rewrite forallb_forall in Hn. specialize (Hn _ Hx). discriminate.
Qed.

(* any words (hyphens, punctuation, any length), separated by single blanks: fill answers, the output has
   exactly these words, every line fits or is one of the words; and every line fits when every word does *)
Lemma C18_fill_plain_words_lemma : forall w ws, 0 < w -> forallb plain_word ws = true ->
    exists r, fill w (join [sp] ws) = Ok r /\ lines_le_or_word w r /\ words r = ws /\ clean_edges r
              /\ (Forall (fun u => List.length u <= w) ws -> lines_le w r).
Proof.
  intros w ws Hw H. destruct (fill_guard_ok w _ (fill_guard_plain_words w ws Hw H)) as [r Hr].
  exists r. split; [assumption|]. split; [exact (fill_width w _ r Hr)|]. split.
  - rewrite (fill_words w _ r Hr). now apply words_join_plain.
  - split; [exact (fill_edges w _ r Hr)|]. intros Hfit. apply (fill_width_strict w _ r Hr).
    now rewrite words_join_plain.
Qed.

Lemma fill_guard_exact : forall w s, fill_guard w s = true <-> exists r, fill w s = Ok r.
Proof. intros w s. split; [apply fill_guard_ok|intros [r Hr]; exact (fill_ok_guard w s r Hr)]. Qed.
