(* DefaultsFacts: lemmas about model/Defaults.v (location_within, scan_default, coerce_default,
   extract_default, set_default_doc) and the lemmas behind props/C17.v.  Proofs only. *)
From Coq Require Import List Ascii Bool Arith ZArith NArith Lia.
From Coq Require String.
Import String.StringSyntax.
From DT Require Import PyStr Sexp PyVal TyExpr PureUtils Defaults C17Spec PyStrFacts.
Import ListNotations.

(* ------------------------------------------------------------------ *)
(* values, outcomes                                                     *)
(* ------------------------------------------------------------------ *)

Lemma pyval_eqb_refl : forall v, pyval_eqb v v = true.
Proof.
  intros [|b|z|r|s]; cbn [pyval_eqb].
  - reflexivity.
  - apply Bool.eqb_reflx.
  - apply Z.eqb_refl.
  - apply str_eqb_refl.
  - apply str_eqb_refl.
Qed.

Lemma pyval_eqb_eq : forall a b, pyval_eqb a b = true <-> a = b.
Proof.
  intros a b. split.
  - destruct a as [|x|x|x|x], b as [|y|y|y|y]; cbn [pyval_eqb]; intros H;
      try discriminate H; try reflexivity.
    + apply Bool.eqb_prop in H. subst. reflexivity.
    + apply Z.eqb_eq in H. subst. reflexivity.
    + apply str_eqb_eq in H. subst. reflexivity.
    + apply str_eqb_eq in H. subst. reflexivity.
  - intros H. subst. apply pyval_eqb_refl.
Qed.

Lemma bind_Ok_inv : forall {A B} (x : outcome A) (f : A -> outcome B) b,
    bind x f = Ok b -> exists a, x = Ok a /\ f a = Ok b.
Proof.
  intros A B x f b H. destruct x as [a|e]; cbn [bind] in H; [|discriminate].
  exists a. split; [reflexivity|exact H].
Qed.

Lemma Ok_inj : forall {A} (a b : A), Ok a = Ok b -> a = b.
Proof. intros A a b H. injection H as H. exact H. Qed.

Lemma fget_fld_of_opt : forall {A} (o : option A), fget (fld_of_opt o) = o.
Proof. intros A [a|]; reflexivity. Qed.

Lemma existsb_str_eqb_forallb : forall (P : ascii -> bool) s l,
    forallb P s = true ->
    forallb (fun x => negb (forallb P x)) l = true ->
    existsb (str_eqb s) l = false.
Proof.
  intros P s l Hs. induction l as [|x l IHl]; intros Hl; [reflexivity|].
  cbn [forallb] in Hl. apply andb_true_iff in Hl. destruct Hl as [Hx Hl].
  apply negb_true_iff in Hx. cbn [existsb].
  rewrite (str_eqb_forallb_false P s x Hs Hx). cbn [orb]. apply IHl. exact Hl.
Qed.

(* ------------------------------------------------------------------ *)
(* location_within                                                      *)
(* ------------------------------------------------------------------ *)

Lemma location_within_none : forall norm container elems,
    (forall e, In e elems -> find (norm e) (norm container) = None) ->
    location_within norm container elems = None.
Proof.
  intros norm container elems. induction elems as [|e r IHr]; intros H; [reflexivity|].
  cbn [location_within]. rewrite (H e (or_introl eq_refl)).
  rewrite IHr by (intros e' He'; apply H; right; exact He').
  destruct (Nat.ltb (List.length container) (List.length e)); reflexivity.
Qed.

Lemma location_within_Some_inv : forall norm container elems i j e,
    location_within norm container elems = Some (i, j, e) ->
    In e elems /\ find (norm e) (norm container) = Some i /\ j = i + List.length e.
Proof.
  intros norm container elems i j e. induction elems as [|x r IHr]; intros H; [discriminate|].
  cbn [location_within] in H.
  destruct (Nat.ltb (List.length container) (List.length x)).
  - destruct (IHr H) as [H1 H2]. split; [right; exact H1|exact H2].
  - destruct (find (norm x) (norm container)) as [k|] eqn:Hk.
    + injection H as Hi Hj He. subst. split; [left; reflexivity|]. split; [exact Hk|reflexivity].
    + destruct (IHr H) as [H1 H2]. split; [right; exact H1|exact H2].
Qed.

Lemma no_announce_In : forall line e,
    no_announce line = true -> In e default_announces ->
    find (casefold e) (casefold line) = None.
Proof.
  intros line e H He. unfold no_announce in H. rewrite forallb_forall in H.
  specialize (H e He). apply negb_true_iff in H. apply contains_false_iff. exact H.
Qed.

Lemma no_announce_location : forall line,
    no_announce line = true -> location_within casefold line default_announces = None.
Proof.
  intros line H. apply location_within_none. intros e He. apply no_announce_In; assumption.
Qed.

Definition shift_loc (n : nat) (r : nat * nat * str) : nat * nat * str :=
  let '(i, j, e) := r in (n + i, n + j, e).

(* searching  d ++ " " ++ x  is searching x, when no element occurs in d, the last character of d
   occurs in no element and no element begins with a space (all after casefold) *)
Lemma location_within_sep : forall d x elems,
    (forall e, In e elems -> find (casefold e) (casefold d) = None) ->
    (forall e l, In e elems -> last_c d = Some l -> mem_c (lower_c l) (casefold e) = false) ->
    (forall e, In e elems -> startswith [sp] (casefold e) = false) ->
    location_within casefold (d ++ sp :: x) elems
    = option_map (shift_loc (List.length d + 1)) (location_within casefold x elems).
Proof.
  intros d x elems. induction elems as [|e r IHr]; intros Hnone Hlast Hsep; [reflexivity|].
  assert (IH : location_within casefold (d ++ sp :: x) r
               = option_map (shift_loc (List.length d + 1)) (location_within casefold x r)).
  { apply IHr.
    - intros e' He'. apply Hnone. right. exact He'.
    - intros e' l He'. apply Hlast. right. exact He'.
    - intros e' He'. apply Hsep. right. exact He'. }
  assert (Hfind : find (casefold e) (casefold (d ++ sp :: x))
                  = option_map (fun i => List.length d + 1 + i) (find (casefold e) (casefold x))).
  { rewrite casefold_app, casefold_cons. change (lower_c sp) with sp.
    rewrite find_app_sep.
    - rewrite casefold_length. reflexivity.
    - apply Hnone. left. reflexivity.
    - intros l Hl. rewrite last_c_casefold in Hl.
      destruct (last_c d) as [l0|] eqn:Hl0; cbn [option_map] in Hl; [|discriminate].
      injection Hl as Hl. subst l. apply (Hlast e l0); [left; reflexivity|reflexivity].
    - apply Hsep. left. reflexivity. }
  cbn [location_within]. rewrite Hfind.
  assert (Hlen : List.length (d ++ sp :: x) = List.length d + 1 + List.length x).
  { rewrite app_length. cbn [List.length]. lia. }
  destruct (Nat.ltb (List.length (d ++ sp :: x)) (List.length e)) eqn:E1.
  - apply Nat.ltb_lt in E1.
    assert (E2 : Nat.ltb (List.length x) (List.length e) = true) by (apply Nat.ltb_lt; lia).
    rewrite E2. exact IH.
  - destruct (Nat.ltb (List.length x) (List.length e)) eqn:E2.
    + apply Nat.ltb_lt in E2.
      rewrite (find_None_too_long (casefold e) (casefold x))
        by (rewrite !casefold_length; exact E2).
      cbn [option_map]. exact IH.
    + destruct (find (casefold e) (casefold x)) as [i|]; cbn [option_map shift_loc].
      * rewrite Nat.add_assoc. reflexivity.
      * exact IH.
Qed.

(* characters that may end the prose: they occur in no announcement phrase *)
Definition sep_char_ok (l : ascii) (elems : list str) : bool :=
  forallb (fun e => negb (mem_c (lower_c l) (casefold e)) && negb (startswith [sp] (casefold e))) elems.

Lemma terminal_sep_ok : forall l,
    ascii_eqb l (ch 46) || ascii_eqb l (ch 44) = true -> sep_char_ok l default_announces = true.
Proof.
  intros l H. apply orb_true_iff in H. destruct H as [H|H]; apply ascii_eqb_eq in H; subst l;
    vm_compute; reflexivity.
Qed.

Lemma location_within_sentence : forall d x l,
    last_c d = Some l -> sep_char_ok l default_announces = true -> no_announce d = true ->
    location_within casefold (d ++ sp :: x) default_announces
    = option_map (shift_loc (List.length d + 1)) (location_within casefold x default_announces).
Proof.
  intros d x l Hl Hok Hno. unfold sep_char_ok in Hok. rewrite forallb_forall in Hok.
  apply location_within_sep.
  - intros e He. apply no_announce_In; assumption.
  - intros e l' He Hl'. rewrite Hl in Hl'. injection Hl' as Hl'. subst l'.
    specialize (Hok e He). apply andb_true_iff in Hok. destruct Hok as [Hok _].
    apply negb_true_iff in Hok. exact Hok.
  - intros e He. specialize (Hok e He). apply andb_true_iff in Hok. destruct Hok as [_ Hok].
    apply negb_true_iff in Hok. exact Hok.
Qed.

(* text whose characters occur in no element cannot move the search *)
Lemma location_within_disjoint : forall A s elems,
    (forall e, In e elems ->
               casefold e <> [] /\ forallb (fun c => negb (mem_c c (casefold e))) (casefold s) = true) ->
    location_within casefold (A ++ s) elems = location_within casefold A elems.
Proof.
  intros A s elems. induction elems as [|e r IHr]; intros H; [reflexivity|].
  assert (IH : location_within casefold (A ++ s) r = location_within casefold A r).
  { apply IHr. intros e' He'. apply H. right. exact He'. }
  destruct (H e (or_introl eq_refl)) as [Hne Hdis].
  assert (Hfind : find (casefold e) (casefold (A ++ s)) = find (casefold e) (casefold A)).
  { rewrite casefold_app. apply find_app_disjoint; assumption. }
  cbn [location_within]. rewrite Hfind.
  destruct (Nat.ltb (List.length (A ++ s)) (List.length e)) eqn:E1.
  - apply Nat.ltb_lt in E1. rewrite app_length in E1.
    assert (E2 : Nat.ltb (List.length A) (List.length e) = true) by (apply Nat.ltb_lt; lia).
    rewrite E2. exact IH.
  - destruct (Nat.ltb (List.length A) (List.length e)) eqn:E2.
    + apply Nat.ltb_lt in E2.
      rewrite (find_None_too_long (casefold e) (casefold A))
        by (rewrite !casefold_length; exact E2).
      exact IH.
    + rewrite IH. reflexivity.
Qed.

(* ------------------------------------------------------------------ *)
(* scan_default                                                         *)
(* ------------------------------------------------------------------ *)

Definition not_dot (c : ascii) : bool := negb (ascii_eqb c (ch 46)).

(* without a full stop the scan takes everything, whatever the brackets *)
Lemma scan_default_no_dot : forall s depth,
    forallb not_dot s = true -> scan_default s depth = s.
Proof.
  induction s as [|c r IHr]; intros depth H; [reflexivity|].
  cbn [forallb] in H. apply andb_true_iff in H. destruct H as [Hc Hr].
  unfold not_dot in Hc. apply negb_true_iff in Hc.
  cbn [scan_default]. rewrite Hc. cbn [andb]. rewrite IHr by exact Hr. reflexivity.
Qed.

Lemma isdigit_not_dot : forall c, isdigit c = true -> not_dot c = true.
Proof.
  intros c. destruct c as [[] [] [] [] [] [] [] []]; vm_compute; intros H;
    try reflexivity; discriminate H.
Qed.

Lemma scan_default_digits : forall s, forallb isdigit s = true -> scan_default s 0 = s.
Proof.
  intros s H. apply scan_default_no_dot.
  apply (forallb_impl isdigit); [apply isdigit_not_dot|exact H].
Qed.

Lemma scan_default_True : scan_default (L "True") 0 = L "True".
Proof. reflexivity. Qed.
Lemma scan_default_False : scan_default (L "False") 0 = L "False".
Proof. reflexivity. Qed.
Lemma scan_default_None : scan_default (L "None") 0 = L "None".
Proof. reflexivity. Qed.

(* the scan result is a prefix of its input *)
Lemma scan_default_prefix : forall s depth, exists r, s = scan_default s depth ++ r.
Proof.
  induction s as [|c s IHs]; intros depth.
  - exists []. reflexivity.
  - cbn [scan_default].
    destruct (ascii_eqb c (ch 46) && match s with [] => true | d :: _ => negb (isdigit d) end
              && Nat.eqb depth 0).
    + exists (c :: s). reflexivity.
    + destruct (IHs (if is_par c then S depth else depth)) as [r Hr].
      exists r. cbn [app]. rewrite <- Hr. reflexivity.
Qed.

(* a full stop followed by a digit does not stop the scan: decimals survive *)
Lemma scan_default_dot_digit : forall c r depth,
    isdigit c = true ->
    scan_default (ch 46 :: c :: r) depth = ch 46 :: scan_default (c :: r) depth.
Proof.
  intros c r depth Hc. cbn [scan_default]. rewrite Hc.
  rewrite ascii_eqb_refl. cbn [negb andb]. reflexivity.
Qed.

(* ------------------------------------------------------------------ *)
(* characters of printed integers                                       *)
(* ------------------------------------------------------------------ *)

Definition announce_safe (c : ascii) : bool :=
  forallb (fun e => negb (mem_c (lower_c c) (casefold e))) default_announces.

Lemma intchar_announce_safe : forall c, intchar c = true -> announce_safe c = true.
Proof.
  intros c. destruct c as [[] [] [] [] [] [] [] []]; vm_compute; intros H;
    try reflexivity; discriminate H.
Qed.

Lemma intchar_not_dot : forall c, intchar c = true -> not_dot c = true.
Proof.
  intros c. destruct c as [[] [] [] [] [] [] [] []]; vm_compute; intros H;
    try reflexivity; discriminate H.
Qed.

Lemma intchar_not_strip : forall c, intchar c = true -> negb (mem_c c strip_set) = true.
Proof.
  intros c. destruct c as [[] [] [] [] [] [] [] []]; vm_compute; intros H;
    try reflexivity; discriminate H.
Qed.

Lemma intchar_not_blank : forall c,
    intchar c = true -> negb (ascii_eqb c sp || ascii_eqb c tabch) = true.
Proof.
  intros c. destruct c as [[] [] [] [] [] [] [] []]; vm_compute; intros H;
    try reflexivity; discriminate H.
Qed.

Lemma intchar_not_word_start : forall c,
    intchar c = true -> isalpha_c c || ascii_eqb c (ch 95) = false.
Proof.
  intros c. destruct c as [[] [] [] [] [] [] [] []]; vm_compute; intros H;
    try reflexivity; discriminate H.
Qed.

Lemma intchar_not_quote : forall c,
    intchar c = true -> ascii_eqb c (ch 34) || ascii_eqb c (ch 39) = false.
Proof.
  intros c. destruct c as [[] [] [] [] [] [] [] []]; vm_compute; intros H;
    try reflexivity; discriminate H.
Qed.

Lemma intchars_head : forall s, s <> [] -> forallb intchar s = true ->
    exists c r, s = c :: r /\ intchar c = true.
Proof.
  intros [|c r] Hn H; [contradiction|]. exists c, r. split; [reflexivity|].
  cbn [forallb] in H. apply andb_true_iff in H. apply H.
Qed.

(* ------------------------------------------------------------------ *)
(* value_announce_ok                                                    *)
(* ------------------------------------------------------------------ *)

Lemma value_announce_ok_nil : forall a, value_announce_ok a [] = true.
Proof. intros []; vm_compute; reflexivity. Qed.

Lemma default_announces_nonnil : forall e, In e default_announces -> casefold e <> [].
Proof.
  intros e He. cbn [default_announces In] in He.
  destruct He as [He|[He|[He|[He|[]]]]]; subst e; discriminate.
Qed.

Lemma value_announce_ok_safe : forall a s,
    forallb announce_safe s = true -> value_announce_ok a s = true.
Proof.
  intros a s Hs. rewrite <- (value_announce_ok_nil a). unfold value_announce_ok.
  rewrite app_nil_r.
  rewrite (location_within_disjoint (announce_text a) s default_announces); [reflexivity|].
  intros e He. split; [apply default_announces_nonnil; exact He|].
  unfold casefold at 2. rewrite forallb_forall. intros c Hc.
  apply in_map_iff in Hc. destruct Hc as [c0 [Hc0 Hin]]. subst c.
  rewrite forallb_forall in Hs. specialize (Hs c0 Hin).
  unfold announce_safe in Hs. rewrite forallb_forall in Hs. exact (Hs e He).
Qed.

Lemma value_announce_ok_inv : forall a s,
    value_announce_ok a s = true ->
    exists e, location_within casefold (announce_text a ++ s) default_announces
              = Some (0, List.length (announce_text a), e).
Proof.
  intros a s H. unfold value_announce_ok in H.
  destruct (location_within casefold (announce_text a ++ s) default_announces)
    as [[[i j] e]|]; [|discriminate].
  destruct i as [|i]; [|discriminate].
  apply Nat.eqb_eq in H. subst j. exists e. reflexivity.
Qed.

(* ------------------------------------------------------------------ *)
(* coerce_default                                                       *)
(* ------------------------------------------------------------------ *)

Lemma coerce_default_None_eq : forall s,
    coerce_default None s =
    if isdecimal s then Ok (VInt (Z.of_N (N_of_dec s)))
    else if signed_decimal s then
      match Z_of_dec_signed s with Some z => Ok (VInt z) | None => Err Unmodelled end
    else if str_eqb s (L "True") then Ok (VBool true)
    else if str_eqb s (L "False") then Ok (VBool false)
    else match float_of_str s with
         | Ok r => Ok (VFloat r)
         | Err ValueError => Ok (VStr s)
         | Err e => Err e
         end.
Proof. reflexivity. Qed.

Lemma coerce_default_typed_eq : forall t s,
    in_simple_types t = true -> in_none_types (VStr s) = false ->
    coerce_default (Some t) s = (do lit <- literal_eval_scalar s; coerce t lit).
Proof.
  intros t s Ht Hs. unfold coerce_default. rewrite Ht, Hs. reflexivity.
Qed.

(* untyped: every printed integer reads back as that integer *)
Lemma coerce_default_int_untyped : forall z, coerce_default None (dec_of_Z z) = Ok (VInt z).
Proof.
  intros z. rewrite coerce_default_None_eq. destruct z as [|p|p].
  - reflexivity.
  - rewrite (isdecimal_dec_of_Z_nonneg (Zpos p)) by lia.
    rewrite (N_of_dec_of_Z_nonneg (Zpos p)) by lia. reflexivity.
  - rewrite isdecimal_dec_of_Z_neg.
    assert (Hsd : signed_decimal (dec_of_Z (Zneg p)) = true).
    { cbn [dec_of_Z signed_decimal]. rewrite ascii_eqb_refl. cbn [orb andb].
      apply isdecimal_dec_of_N. }
    rewrite Hsd, Z_of_dec_signed_dec_of_Z. reflexivity.
Qed.

Lemma in_none_types_intchars : forall s,
    forallb intchar s = true -> in_none_types (VStr s) = false.
Proof.
  intros s Hs. unfold in_none_types.
  apply (existsb_str_eqb_forallb intchar); [exact Hs|]. vm_compute. reflexivity.
Qed.

Lemma literal_eval_scalar_int : forall z, literal_eval_scalar (dec_of_Z z) = Ok (VInt z).
Proof.
  intros z.
  pose proof (dec_of_Z_intchars z) as Hic.
  pose proof (dec_of_Z_nonnil z) as Hnn.
  pose proof (Z_of_dec_signed_dec_of_Z z) as Hz.
  assert (Hlead : str_eqb (dec_of_Z (Z.abs z))
                          (match dec_of_Z z with
                           | c :: r => if isdigit c then dec_of_Z z else r
                           | [] => dec_of_Z z
                           end) = true).
  { destruct z as [|p|p].
    - reflexivity.
    - cbn [Z.abs dec_of_Z].
      destruct (dec_of_N_head_digit (Npos p)) as [c [r [Hs Hc]]].
      rewrite Hs, Hc. apply str_eqb_refl.
    - cbn [Z.abs dec_of_Z]. change (isdigit (ch 45)) with false. apply str_eqb_refl. }
  remember (dec_of_Z z) as s eqn:Es.
  unfold literal_eval_scalar.
  rewrite (strip_by_forallb _ s) by (apply (forallb_impl intchar); [apply intchar_not_blank|exact Hic]).
  rewrite (str_eqb_forallb_false intchar s (L "None") Hic eq_refl).
  rewrite (str_eqb_forallb_false intchar s (L "True") Hic eq_refl).
  rewrite (str_eqb_forallb_false intchar s (L "False") Hic eq_refl).
  destruct (intchars_head s Hnn Hic) as [c [r [Hs Hc]]].
  assert (Hbw : is_bare_word s = false).
  { rewrite Hs. unfold is_bare_word. rewrite (intchar_not_word_start c Hc). reflexivity. }
  assert (Hq : quoted_simple s = None).
  { rewrite Hs. unfold quoted_simple. rewrite (intchar_not_quote c Hc). reflexivity. }
  rewrite Hbw, Hq, Hz, Hlead. reflexivity.
Qed.

Lemma in_simple_types_int : in_simple_types (L "int") = true.
Proof. vm_compute. reflexivity. Qed.

(* declared int: every printed integer reads back as that integer *)
Lemma coerce_default_int_typed : forall z,
    coerce_default (Some (L "int")) (dec_of_Z z) = Ok (VInt z).
Proof.
  intros z. rewrite coerce_default_typed_eq.
  - rewrite literal_eval_scalar_int. reflexivity.
  - exact in_simple_types_int.
  - apply in_none_types_intchars. apply dec_of_Z_intchars.
Qed.

(* ------------------------------------------------------------------ *)
(* extract_default                                                      *)
(* ------------------------------------------------------------------ *)

Lemma extract_default_not_found : forall line rs announces typ emit,
    location_within casefold line announces = None ->
    extract_default line rs announces typ emit = Ok (line, None).
Proof. intros line rs announces typ emit H. unfold extract_default. rewrite H. reflexivity. Qed.

(* prose that announces nothing is never altered *)
Lemma extract_default_no_announce : forall line rs typ emit,
    no_announce line = true ->
    extract_default line rs default_announces typ emit = Ok (line, None).
Proof.
  intros line rs typ emit H. apply extract_default_not_found. apply no_announce_location. exact H.
Qed.

Lemma slice_to_z_pred : forall (s : str) n, slice_to_z s (Z.of_nat (S n) - 1) = firstn n s.
Proof.
  intros s n. unfold slice_to_z.
  replace (Z.of_nat (S n) - 1)%Z with (Z.of_nat n) by lia.
  destruct (Z.ltb_spec (Z.of_nat n) 0) as [Hlt|Hge]; [lia|].
  rewrite Nat2Z.id. reflexivity.
Qed.

(* the sentence  d ++ " " ++ phrase ++ s : the value text s is found, read and, on removal,
   exactly the prose d is left *)
Lemma extract_default_sentence : forall d l A s t e v2 rs,
    last_c d = Some l -> sep_char_ok l default_announces = true -> no_announce d = true ->
    location_within casefold (A ++ s) default_announces = Some (0, List.length A, e) ->
    scan_default s 0 = s ->
    strip_chars strip_set s = s ->
    negb (startswith [ch 40] s) && endswith (L ").") s = false ->
    coerce_default t s = Ok v2 ->
    extract_default (d ++ [sp] ++ A ++ s) rs default_announces t true
    = Ok (d ++ [sp] ++ A ++ s, Some v2)
    /\ extract_default (d ++ [sp] ++ A ++ s) rs default_announces t false = Ok (d, Some v2).
Proof.
  intros d l A s t e v2 rs Hl Hok Hno Hloc Hscan Hstrip Hparen Hco.
  change (d ++ [sp] ++ A ++ s) with (d ++ sp :: (A ++ s)).
  assert (Hskip : skipn (List.length d + 1 + List.length A) (d ++ sp :: (A ++ s)) = s).
  { rewrite <- Nat.add_assoc. rewrite skipn_app_exact_plus.
    cbn [Nat.add skipn]. apply skipn_app_exact. }
  assert (Hlen : List.length d + 1 + List.length A + List.length s
                 = List.length (d ++ sp :: (A ++ s))).
  { rewrite app_length. cbn [List.length]. rewrite app_length. lia. }
  unfold strip_set in Hstrip.
  assert (Hfirst : slice_to_z (d ++ sp :: (A ++ s)) (Z.of_nat (List.length d + 1 + 0) - 1) = d).
  { replace (List.length d + 1 + 0) with (S (List.length d)) by lia.
    rewrite slice_to_z_pred. rewrite <- (Nat.add_0_r (List.length d)).
    rewrite firstn_app_exact_plus. cbn [firstn]. apply app_nil_r. }
  unfold extract_default.
  rewrite (location_within_sentence d (A ++ s) l Hl Hok Hno), Hloc.
  cbn [option_map shift_loc]. cbv zeta.
  rewrite Hskip, Hscan, Hstrip.
  destruct (startswith [ch 40] s); [|cbn [negb andb] in Hparen; rewrite Hparen].
  all: rewrite Hco; cbn [bind]; (split; [reflexivity|]); rewrite Hfirst, Hlen; destruct rs.
  all: rewrite skipn_all; cbn [takewhile List.length]; rewrite ?Nat.add_0_r, ?skipn_all.
  all: rewrite app_nil_r; reflexivity.
Qed.

(* ------------------------------------------------------------------ *)
(* set_default_doc                                                      *)
(* ------------------------------------------------------------------ *)

Lemma endswith_kwargs_x : endswith (L "kwargs") (L "x") = false.
Proof. reflexivity. Qed.

Lemma param_eta : forall p, mkParam (p_doc p) (p_typ p) (p_default p) = p.
Proof. intros [d t v]. reflexivity. Qed.

Lemma set_default_doc_no_default : forall name p,
    p_default p = None -> p_doc p <> FNone -> set_default_doc name p true = Ok p.
Proof.
  intros name p Hd Hdoc. unfold set_default_doc.
  destruct (p_doc p) as [| |doc]; [reflexivity|contradiction|].
  rewrite Hd. cbn [negb]. rewrite andb_false_r. reflexivity.
Qed.

Lemma set_default_doc_no_announce : forall name p doc,
    p_doc p = Has doc -> no_announce doc = true -> set_default_doc name p false = Ok p.
Proof.
  intros name p doc Hdoc Hno. unfold set_default_doc. rewrite Hdoc.
  destruct (contains (L "Defaults") doc || contains (L "defaults") doc); cbn [negb andb].
  - rewrite (extract_default_no_announce doc true None false Hno). cbn [bind fst].
    rewrite <- Hdoc. rewrite param_eta. reflexivity.
  - destruct (p_default p); reflexivity.
Qed.

(* what set_default_doc writes when it writes *)
Lemma set_default_doc_writes : forall name d l t v sv,
    last_c d = Some l ->
    contains (L "Defaults") d || contains (L "defaults") d = false ->
    (let v' := if pyval_eqb v (VStr NoneStr) then VNone else v in
     negb (pyval_eqb v' VNone) || negb (endswith (L "kwargs") name) = true
     /\ shown_default v' t = Ok sv) ->
    set_default_doc name (mkParam (Has d) (fld_of_opt t) (Some v)) true
    = Ok (mkParam (Has ((if ascii_eqb l (ch 46) || ascii_eqb l (ch 44) then d else d ++ [ch 46])
                        ++ L " Defaults to " ++ py_str sv))
                  (fld_of_opt t)
                  (Some (if pyval_eqb v (VStr NoneStr) then VNone else v))).
Proof.
  intros name d l t v sv Hl Hdef Hv. cbv zeta in Hv. destruct Hv as [Hkw Hsv].
  unfold set_default_doc. cbn [p_doc p_typ p_default]. rewrite Hdef. cbn [negb andb].
  rewrite Hkw, Hl, fget_fld_of_opt, Hsv. reflexivity.
Qed.

Lemma contains_Defaults_sentence : forall x y : str,
    contains (L "Defaults") (x ++ L " Defaults to " ++ y) = true.
Proof.
  intros x y. change (L " Defaults to ") with ([sp] ++ L "Defaults" ++ L " to ").
  rewrite <- !app_assoc. rewrite app_assoc. apply contains_app_mid.
Qed.

(* second application with emit_default_doc = True is a no-op: the sentence written contains
   the word Defaults *)
Lemma set_default_doc_idem : forall name p p',
    set_default_doc name p true = Ok p' -> set_default_doc name p' true = Ok p'.
Proof.
  intros name [doc typ dflt] p' H. unfold set_default_doc in H. cbn [p_doc p_typ p_default] in H.
  destruct doc as [| |doc]; [injection H as H; subst; reflexivity|discriminate|].
  cbn [negb] in H. rewrite andb_false_r in H.
  destruct dflt as [dflt|]; [|injection H as H; subst; unfold set_default_doc; cbn [p_doc p_default negb];
                                rewrite andb_false_r; reflexivity].
  destruct (contains (L "Defaults") doc || contains (L "defaults") doc) eqn:Hdef.
  - cbn [negb andb] in H. injection H as H. subst p'.
    unfold set_default_doc. cbn [p_doc p_default]. rewrite Hdef. reflexivity.
  - cbn [negb andb] in H.
    set (dflt' := if pyval_eqb dflt (VStr NoneStr) then VNone else dflt) in *.
    destruct (negb (pyval_eqb dflt' VNone) || negb (endswith (L "kwargs") name)) eqn:Hkw.
    + destruct (last_c doc) as [c|]; [|discriminate].
      apply bind_Ok_inv in H. destruct H as [shown [_ H]].
      destruct (ascii_eqb c (ch 46) || ascii_eqb c (ch 44)); apply Ok_inj in H; subst p';
        unfold set_default_doc; cbn [p_doc p_default];
        rewrite contains_Defaults_sentence; reflexivity.
    + injection H as H. subst p'.
      apply orb_false_iff in Hkw. destruct Hkw as [Hn Hk].
      apply negb_false_iff in Hn. apply pyval_eqb_eq in Hn.
      unfold set_default_doc. cbn [p_doc p_typ p_default]. rewrite Hdef. cbn [negb andb].
      rewrite Hn. change (pyval_eqb VNone (VStr NoneStr)) with false. cbn iota.
      change (pyval_eqb VNone VNone) with true. cbn [negb orb]. rewrite Hk. reflexivity.
Qed.

(* ------------------------------------------------------------------ *)
(* C17                                                                  *)
(* ------------------------------------------------------------------ *)

Definition prose_ok (d : str) : bool :=
  C17_domain d && ends_with_terminal d
  && negb (contains (L "Defaults") d || contains (L "defaults") d).

Lemma prose_ok_inv : forall d,
    prose_ok d = true ->
    d <> [] /\ no_announce d = true
    /\ (exists l, last_c d = Some l /\ ascii_eqb l (ch 46) || ascii_eqb l (ch 44) = true)
    /\ contains (L "Defaults") d || contains (L "defaults") d = false.
Proof.
  intros d H. unfold prose_ok, C17_domain in H.
  apply andb_true_iff in H. destruct H as [H Hdef].
  apply andb_true_iff in H. destruct H as [H Hterm].
  apply andb_true_iff in H. destruct H as [Hne Hno].
  split. { destruct d; [discriminate|discriminate]. }
  split; [exact Hno|]. split.
  - unfold ends_with_terminal in Hterm. destruct (last_c d) as [l|]; [|discriminate].
    exists l. split; [reflexivity|exact Hterm].
  - apply negb_true_iff in Hdef. exact Hdef.
Qed.

Lemma shown_value_inv : forall v t s,
    shown_value v t = Ok s ->
    exists sv, shown_default (if pyval_eqb v (VStr NoneStr) then VNone else v) t = Ok sv
               /\ s = py_str sv.
Proof.
  intros v t s H. unfold shown_value in H. cbv zeta in H.
  apply bind_Ok_inv in H. destruct H as [sv [Hsv H]]. injection H as H.
  exists sv. split; [exact Hsv|symmetry; exact H].
Qed.

(* the sentence has the shape  prose, space, phrase, value text  for every phrase *)
Lemma render_sentence : forall a d v t s l,
    last_c d = Some l -> ascii_eqb l (ch 46) || ascii_eqb l (ch 44) = true ->
    contains (L "Defaults") d || contains (L "defaults") d = false ->
    shown_value v t = Ok s ->
    render a d v t = Ok (d ++ [sp] ++ announce_text a ++ s).
Proof.
  intros a d v t s l Hl Hterm Hdef Hs.
  destruct a; try (unfold render; rewrite Hs; reflexivity).
  destruct (shown_value_inv v t s Hs) as [sv [Hsv Es]]. subst s.
  unfold render.
  rewrite (set_default_doc_writes (L "x") d l t v sv Hl Hdef).
  - rewrite Hterm. cbn [bind p_doc].
    assert (Hsw : startswith (d ++ L " Defaults to ") (d ++ L " Defaults to " ++ py_str sv) = true).
    { rewrite app_assoc. apply startswith_app. }
    rewrite Hsw. reflexivity.
  - cbv zeta. split; [|exact Hsv]. rewrite endswith_kwargs_x. cbn [negb]. apply orb_true_r.
Qed.

(* the per-value part of the guard *)
Definition value_ok (a : announce) (v : pyval) (t : option str) : bool :=
  match shown_value v t with
  | Ok s =>
    value_announce_ok a s
    && str_eqb (scan_default s 0) s
    && str_eqb (strip_chars strip_set s) s
    && negb (negb (startswith [ch 40] s) && endswith (L ").") s)
    && match coerce_default t s with Ok v2 => same_default v v2 | Err _ => false end
  | Err _ => false
  end.

Lemma guard_C17_split : forall a d v t,
    guard_C17 a d v t = true <-> prose_ok d = true /\ value_ok a v t = true.
Proof.
  intros a d v t. unfold guard_C17, finding_class_C17, prose_ok, value_ok.
  destruct (C17_domain d); cbn [andb]; [|split; [discriminate|intros [H _]; discriminate]].
  destruct (ends_with_terminal d); cbn [negb andb]; [|split; [discriminate|intros [H _]; discriminate]].
  destruct (contains (L "Defaults") d || contains (L "defaults") d); cbn [negb];
    [split; [discriminate|intros [H _]; discriminate]|].
  destruct (shown_value v t) as [s|e]; [|split; [discriminate|intros [_ H]; discriminate]].
  destruct (value_announce_ok a s); cbn [negb andb];
    [|split; [discriminate|intros [_ H]; discriminate]].
  destruct (str_eqb (scan_default s 0) s); cbn [negb andb];
    [|split; [discriminate|intros [_ H]; discriminate]].
  destruct (str_eqb (strip_chars strip_set s) s); cbn [negb andb];
    [|split; [discriminate|intros [_ H]; discriminate]].
  destruct (negb (startswith [ch 40] s) && endswith (L ").") s); cbn [negb andb];
    [split; [discriminate|intros [_ H]; discriminate]|].
  destruct (coerce_default t s) as [v2|e].
  - destruct (same_default v v2).
    + split; [intros _; split; reflexivity|reflexivity].
    + split; [|intros [_ H]; discriminate].
      destruct v; destruct t; discriminate.
  - split; [|intros [_ H]; discriminate]. destruct e; discriminate.
Qed.

(* outside the guard: out of the domain or in a named class *)
Lemma guard_C17_false_iff : forall a d v t,
    guard_C17 a d v t = false <->
    C17_domain d = false \/ exists k, finding_class_C17 a d v t = Some k.
Proof.
  intros a d v t. unfold guard_C17. destruct (C17_domain d); cbn [andb].
  - destruct (finding_class_C17 a d v t) as [k|]; split.
    + intros _. right. exists k. reflexivity.
    + reflexivity.
    + discriminate.
    + intros [H|[k H]]; discriminate.
  - split; [intros _; left; reflexivity|reflexivity].
Qed.

Lemma C17_of_prose_value : forall a d v t,
    prose_ok d = true -> value_ok a v t = true -> C17_at a d v t.
Proof.
  intros a d v t Hp Hv.
  destruct (prose_ok_inv d Hp) as [Hne [Hno [[l [Hl Hterm]] Hdef]]].
  unfold value_ok in Hv. destruct (shown_value v t) as [s|e0] eqn:Hs; [|discriminate].
  apply andb_true_iff in Hv. destruct Hv as [Hv Hco].
  apply andb_true_iff in Hv. destruct Hv as [Hv Hparen].
  apply andb_true_iff in Hv. destruct Hv as [Hv Hstrip].
  apply andb_true_iff in Hv. destruct Hv as [Hann Hscan].
  apply str_eqb_eq in Hscan. apply str_eqb_eq in Hstrip. apply negb_true_iff in Hparen.
  destruct (coerce_default t s) as [v2|e1] eqn:Hc; [|discriminate].
  destruct (value_announce_ok_inv a s Hann) as [e Hloc].
  destruct (extract_default_sentence d l (announce_text a) s t e v2 true
              Hl (terminal_sep_ok l Hterm) Hno Hloc Hscan Hstrip Hparen Hc) as [E1 E2].
  exists (d ++ [sp] ++ announce_text a ++ s).
  split; [apply (render_sentence a d v t s l Hl Hterm Hdef Hs)|].
  split; exists v2; (split; [assumption|exact Hco]).
Qed.

(* completeness of the finding classes: outside every class the property holds *)
Lemma C17_partial_lemma : forall a d v t, guard_C17 a d v t = true -> C17_at a d v t.
Proof.
  intros a d v t H. apply guard_C17_split in H. destruct H as [Hp Hv].
  apply C17_of_prose_value; assumption.
Qed.

Lemma C17_no_announce_lemma : forall line rs typ emit,
    no_announce line = true ->
    extract_default line rs default_announces typ emit = Ok (line, None).
Proof. exact extract_default_no_announce. Qed.

(* the executable form follows from the propositional one *)
Lemma C17_at_b_complete : forall a d v t, C17_at a d v t -> C17_at_b a d v t = true.
Proof.
  intros a d v t [line [Hr [[v1 [E1 S1]] [v2 [E2 S2]]]]].
  unfold C17_at_b. rewrite Hr, E1, E2, S1, S2, !str_eqb_refl. reflexivity.
Qed.

Lemma C17_at_b_sound : forall a d v t, C17_at_b a d v t = true -> C17_at a d v t.
Proof.
  intros a d v t H. unfold C17_at_b in H.
  destruct (render a d v t) as [line|e] eqn:Hr; [|discriminate].
  apply andb_true_iff in H. destruct H as [H1 H2].
  destruct (extract_default line true default_announces t true) as [[l1 [v1|]]|e1] eqn:E1;
    try discriminate.
  destruct (extract_default line true default_announces t false) as [[l2 [v2|]]|e2] eqn:E2;
    try discriminate.
  apply andb_true_iff in H1. destruct H1 as [H1 S1]. apply str_eqb_eq in H1. subst l1.
  apply andb_true_iff in H2. destruct H2 as [H2 S2]. apply str_eqb_eq in H2. subst l2.
  exists line. split; [exact Hr|]. split; [exists v1|exists v2]; split; assumption.
Qed.

(* the statement over the whole domain is false of the model: prose without terminal punctuation *)
Definition C17_statement_model : Prop :=
  forall a d v t, C17_domain d = true -> C17_at a d v t.

Lemma C17_refuted_lemma : ~ C17_statement_model.
Proof.
  intros H.
  assert (Hd : C17_domain (L "x") = true) by (vm_compute; reflexivity).
  pose proof (C17_at_b_complete _ _ _ _ (H ADefaultsTo (L "x") (VInt 5) None Hd)) as Hb.
  vm_compute in Hb. discriminate Hb.
Qed.

(* a second witness, with prose of the good shape: the value text is cut at its full stop *)
Lemma C17_refuted_value_cut :
  prose_ok (L "x.") = true /\ ~ C17_at ADefaultsTo (L "x.") (VStr (L "a.b")) (Some (L "str")).
Proof.
  split; [vm_compute; reflexivity|]. intros H. apply C17_at_b_complete in H.
  vm_compute in H. discriminate H.
Qed.

(* ---- class-free corollaries ---- *)

Lemma shown_value_int : forall z t, shown_value (VInt z) t = Ok (dec_of_Z z).
Proof. reflexivity. Qed.

Lemma same_default_refl_int : forall z, same_default (VInt z) (VInt z) = true.
Proof.
  intros z. unfold same_default. cbn [unquote_val pyval_eqb]. rewrite Z.eqb_refl. reflexivity.
Qed.

Lemma value_ok_intchars : forall a v t s v2,
    shown_value v t = Ok s -> s <> [] -> forallb intchar s = true ->
    coerce_default t s = Ok v2 -> same_default v v2 = true ->
    value_ok a v t = true.
Proof.
  intros a v t s v2 Hs Hnn Hic Hco Hsame. unfold value_ok. rewrite Hs, Hco, Hsame.
  rewrite (value_announce_ok_safe a s)
    by (apply (forallb_impl intchar); [apply intchar_announce_safe|exact Hic]).
  rewrite (scan_default_no_dot s 0)
    by (apply (forallb_impl intchar); [apply intchar_not_dot|exact Hic]).
  rewrite (strip_chars_forallb strip_set s)
    by (apply (forallb_impl intchar); [apply intchar_not_strip|exact Hic]).
  rewrite !str_eqb_refl.
  destruct (endswith (L ").") s) eqn:He.
  - apply (endswith_forallb intchar) in He; [|exact Hic]. discriminate He.
  - rewrite andb_false_r. reflexivity.
Qed.

Lemma value_ok_int_untyped : forall a z, value_ok a (VInt z) None = true.
Proof.
  intros a z.
  apply (value_ok_intchars a (VInt z) None (dec_of_Z z) (VInt z)).
  - apply shown_value_int.
  - apply dec_of_Z_nonnil.
  - apply dec_of_Z_intchars.
  - apply coerce_default_int_untyped.
  - apply same_default_refl_int.
Qed.

Lemma value_ok_int_typed : forall a z, value_ok a (VInt z) (Some (L "int")) = true.
Proof.
  intros a z.
  apply (value_ok_intchars a (VInt z) (Some (L "int")) (dec_of_Z z) (VInt z)).
  - apply shown_value_int.
  - apply dec_of_Z_nonnil.
  - apply dec_of_Z_intchars.
  - apply coerce_default_int_typed.
  - apply same_default_refl_int.
Qed.

Lemma value_ok_bool_untyped : forall a b, value_ok a (VBool b) None = true.
Proof. intros [] []; vm_compute; reflexivity. Qed.

Lemma value_ok_bool_typed : forall a b, value_ok a (VBool b) (Some (L "bool")) = true.
Proof. intros [] []; vm_compute; reflexivity. Qed.

Lemma value_ok_none : forall a, value_ok a VNone None = true.
Proof. intros []; vm_compute; reflexivity. Qed.

Lemma C17_int_untyped_lemma : forall a d z, prose_ok d = true -> C17_at a d (VInt z) None.
Proof. intros a d z Hp. apply C17_of_prose_value; [exact Hp|apply value_ok_int_untyped]. Qed.

Lemma C17_int_typed_lemma : forall a d z,
    prose_ok d = true -> C17_at a d (VInt z) (Some (L "int")).
Proof. intros a d z Hp. apply C17_of_prose_value; [exact Hp|apply value_ok_int_typed]. Qed.

Lemma C17_bool_lemma : forall a d b,
    prose_ok d = true -> C17_at a d (VBool b) None /\ C17_at a d (VBool b) (Some (L "bool")).
Proof.
  intros a d b Hp. split; apply C17_of_prose_value; try exact Hp.
  - apply value_ok_bool_untyped.
  - apply value_ok_bool_typed.
Qed.

Lemma C17_none_lemma : forall a d, prose_ok d = true -> C17_at a d VNone None.
Proof. intros a d Hp. apply C17_of_prose_value; [exact Hp|apply value_ok_none]. Qed.

Lemma C17_nonvacuous_lemma :
  guard_C17 ADefaultsTo (L "name of dataset.") (VStr (L "mnist")) (Some (L "str")) = true
  /\ prose_ok (L "name of dataset.") = true.
Proof. split; vm_compute; reflexivity. Qed.
