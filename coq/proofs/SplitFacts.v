(* SplitFacts: s.split(c) / sep.join(l) for a one-character separator as structural functions, and the
   inverse laws between them; characters of the pieces.  Proofs only. *)
From Coq Require Import List Ascii Bool Arith Lia.
From Coq Require String.
Import String.StringSyntax.
From DT Require Import PyStr PyStrFacts.
Import ListNotations.

(* structural split on one character *)
Fixpoint split_c (c : ascii) (s : str) : list str :=
  match s with
  | [] => [[]]
  | x :: r =>
    if ascii_eqb c x then [] :: split_c c r
    else match split_c c r with
         | h :: t => (x :: h) :: t
         | [] => [[x]]
         end
  end.

Lemma split_c_nonnil : forall c s, split_c c s <> [].
Proof.
  intros c s. destruct s as [|x r]; cbn [split_c].
  - discriminate.
  - destruct (ascii_eqb c x); [discriminate|].
    destruct (split_c c r); discriminate.
Qed.

Lemma split_c_cons_sep : forall c r, split_c c (c :: r) = [] :: split_c c r.
Proof. intros c r. cbn [split_c]. now rewrite ascii_eqb_refl. Qed.

Lemma split_c_cons_other : forall c x r h t,
    ascii_eqb c x = false -> split_c c r = h :: t -> split_c c (x :: r) = (x :: h) :: t.
Proof. intros c x r h t Hx Hr. cbn [split_c]. now rewrite Hx, Hr. Qed.

Lemma startswith_single_cons : forall c x r, startswith [c] (x :: r) = ascii_eqb c x.
Proof. intros c x r. cbn [startswith]. now rewrite andb_true_r. Qed.

(* the fuelled split of PyStr agrees with the structural one when the fuel suffices *)
Lemma split_aux_single : forall c fuel s cur,
    List.length s < fuel ->
    split_aux fuel [c] s cur =
    match split_c c s with
    | h :: t => (rev cur ++ h) :: t
    | [] => [rev cur]
    end.
Proof.
  intros c fuel. induction fuel as [|f IH]; intros s cur Hlen; [lia|].
  destruct s as [|x r].
  - cbn [split_aux split_c]. now rewrite app_nil_r.
  - cbn [split_aux]. rewrite startswith_single_cons.
    cbn [List.length] in Hlen.
    destruct (ascii_eqb c x) eqn:Ex.
    + apply ascii_eqb_eq in Ex. subst x. rewrite split_c_cons_sep.
      cbn [skipn List.length]. rewrite IH by lia. cbn [rev app].
      rewrite app_nil_r.
      destruct (split_c c r) as [|h t] eqn:Er; [now apply split_c_nonnil in Er|reflexivity].
    + rewrite IH by lia. cbn [split_c]. rewrite Ex.
      destruct (split_c c r) as [|h t] eqn:Er; [now apply split_c_nonnil in Er|].
      cbn [rev]. now rewrite <- app_assoc.
Qed.

Lemma split_single : forall c s, split [c] s = split_c c s.
Proof.
  intros c s. unfold split. rewrite split_aux_single by lia. cbn [rev app].
  destruct (split_c c s) as [|h t] eqn:E; [now apply split_c_nonnil in E|reflexivity].
Qed.

Lemma split_nl_eq : forall s, split_nl s = split_c nl s.
Proof. intros s. apply split_single. Qed.

(* ---- join ---- *)
Lemma join_cons_cons : forall sep x y r, join sep (x :: y :: r) = x ++ sep ++ join sep (y :: r).
Proof. reflexivity. Qed.

Lemma join_single : forall sep x, join sep [x] = x.
Proof. reflexivity. Qed.

Lemma join_cons_nonnil : forall sep x r, r <> [] -> join sep (x :: r) = x ++ sep ++ join sep r.
Proof. intros sep x r Hr. destruct r as [|y r']; [congruence|reflexivity]. Qed.

Lemma join_split_c : forall c s, join [c] (split_c c s) = s.
Proof.
  intros c s. induction s as [|x r IH]; [reflexivity|].
  cbn [split_c]. destruct (ascii_eqb c x) eqn:Ex.
  - apply ascii_eqb_eq in Ex. subst x.
    rewrite join_cons_nonnil by apply split_c_nonnil. cbn [app]. now rewrite IH.
  - destruct (split_c c r) as [|h t] eqn:Er; [now apply split_c_nonnil in Er|].
    destruct t as [|h2 t2].
    + cbn [join] in *. now rewrite IH.
    + rewrite join_cons_cons. rewrite join_cons_cons in IH. rewrite <- IH. reflexivity.
Qed.

Lemma split_c_no_sep_id : forall c s, ~ In c s -> split_c c s = [s].
Proof.
  intros c s. induction s as [|x r IH]; intros Hn; [reflexivity|].
  cbn [split_c]. destruct (ascii_eqb c x) eqn:Ex.
  - apply ascii_eqb_eq in Ex. subst x. exfalso. apply Hn. now left.
  - rewrite IH; [reflexivity|]. intros Hin. apply Hn. now right.
Qed.

Lemma split_c_app_sep : forall c a b, ~ In c a -> split_c c (a ++ c :: b) = a :: split_c c b.
Proof.
  intros c a b. induction a as [|x r IH]; intros Hn.
  - cbn [app]. apply split_c_cons_sep.
  - cbn [app split_c]. destruct (ascii_eqb c x) eqn:Ex.
    + apply ascii_eqb_eq in Ex. subst x. exfalso. apply Hn. now left.
    + rewrite IH; [reflexivity|]. intros Hin. apply Hn. now right.
Qed.

Lemma split_c_join : forall c ls,
    ls <> [] -> Forall (fun l => ~ In c l) ls -> split_c c (join [c] ls) = ls.
Proof.
  intros c ls. induction ls as [|x r IH]; intros Hne Hall; [congruence|].
  inversion Hall as [|x' r' Hx Hr]; subst.
  destruct r as [|y r2].
  - cbn [join]. now apply split_c_no_sep_id.
  - rewrite join_cons_cons. change ([c] ++ join [c] (y :: r2)) with (c :: join [c] (y :: r2)).
    rewrite split_c_app_sep by assumption. f_equal. apply IH; [discriminate|assumption].
Qed.

Lemma split_c_pieces_no_sep : forall c s, Forall (fun l => ~ In c l) (split_c c s).
Proof.
  intros c s. induction s as [|x r IH].
  - cbn [split_c]. constructor; [intros []|constructor].
  - cbn [split_c]. destruct (ascii_eqb c x) eqn:Ex.
    + constructor; [intros []|assumption].
    + destruct (split_c c r) as [|h t] eqn:Er; [now apply split_c_nonnil in Er|].
      inversion IH as [|h' t' Hh Ht]; subst.
      constructor; [|assumption].
      intros [Hx|Hin]; [|now apply Hh].
      subst x. now rewrite ascii_eqb_refl in Ex.
Qed.

Lemma split_c_pieces_chars : forall c s l x, In l (split_c c s) -> In x l -> In x s.
Proof.
  intros c s. induction s as [|y r IH]; intros l x Hl Hx.
  - cbn [split_c] in Hl. destruct Hl as [Hl|[]]. subst l. destruct Hx.
  - cbn [split_c] in Hl. destruct (ascii_eqb c y) eqn:Ey.
    + destruct Hl as [Hl|Hl]; [subst l; destruct Hx|]. right. now apply (IH l).
    + destruct (split_c c r) as [|h t] eqn:Er; [now apply split_c_nonnil in Er|].
      destruct Hl as [Hl|Hl].
      * subst l. destruct Hx as [Hx|Hx]; [now left|]. right. apply (IH h); [now left|assumption].
      * right. apply (IH l); [now right|assumption].
Qed.

Lemma join_chars : forall sep ls x, In x (join sep ls) -> In x sep \/ exists l, In l ls /\ In x l.
Proof.
  intros sep ls. induction ls as [|a r IH]; intros x Hx; [destruct Hx|].
  destruct r as [|b r2].
  - cbn [join] in Hx. right. exists a. split; [now left|assumption].
  - rewrite join_cons_cons in Hx. apply in_app_or in Hx. destruct Hx as [Hx|Hx].
    + right. exists a. split; [now left|assumption].
    + apply in_app_or in Hx. destruct Hx as [Hx|Hx]; [now left|].
      destruct (IH x Hx) as [Hs|[l [Hl Hxl]]]; [now left|].
      right. exists l. split; [now right|assumption].
Qed.

Lemma forallb_pieces : forall (P : ascii -> bool) c s,
    forallb P s = true -> Forall (fun l => forallb P l = true) (split_c c s).
Proof.
  intros P c s Hs. apply Forall_forall. intros l Hl. apply forallb_forall. intros x Hx.
  rewrite forallb_forall in Hs. apply Hs. eapply split_c_pieces_chars; eassumption.
Qed.
