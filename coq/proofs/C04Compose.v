(* C04Compose: the AST-level composition of the argparse round trip,
     parse_argparse_ast di (emit_argparse pt i ...)      (models EmitAst / ParseAst, docstring layer decoupled)
   unbounded in the number of parameters.

   Part 1  what emit.argparse_function produces (emit_argparse_inv) and what the parser's loop does with the
           description assignment, the add_argument calls and the final return.
   Part 2  names and order (C04_names_order_lemma): for every IR with distinct names and no carried body, every
           option combination, whenever emitter and parser succeed the option names come back in order -- one
           add_argument call per parameter, one parameter per call -- whatever types, help texts and defaults are.
   Part 3  one option: _resolve_arg from the type text alone (resolve_arg_plan), the keywords param2argparse_param
           writes for the shapes T / Optional[T] / List[T] over a scalar T (param2argparse_shape), and what
           parse_out_param reads back from them for either value of the require_default flag (parse_out_kws).
   Part 4  the codec (C04_ast_partial_lemma): inside guard_C04_ast the parser returns the description and exactly
           norm_params_C04 of the parameters (the flag threaded through the induction), which is
           same_interface_argparse to argparse_type_norm of the input.
   Part 5  refutation, one computed witness per AST-visible finding class, non-vacuity.
   Proofs only. *)
From Coq Require Import List Ascii Bool Arith ZArith Lia.
From Coq Require String.
Import String.StringSyntax.
From DT Require Import PyStr Sexp PyVal TyExpr Extracted PureUtils Defaults C17Spec PyAst IR EmitAst ParseAst C02Spec C04Spec C04Codec.
From DT Require Import PyStrFacts PureUtilsFacts DefaultsFacts ParseAstFacts.
From DT Require EmitAstFacts C06Facts C06Spec.
Import ListNotations.

(* ================================================================== *)
(* Part 1: the emitted function and the parser's loop                   *)
(* ================================================================== *)

Lemma emit_argparse_inv : forall pt i edd fn ft wd ww ds s i0,
    emit_argparse pt i edd fn ft wd ww ds = Ok (s, i0) ->
    exists n dtext desc ps internal_body spliced ret,
      s = SFunc n (mkArguments [set_arg (L "argument_parser") None] [] [] [] None None)
                (SExpr (EConst (VStr (set_value_str (indent tab dtext ++ tab))))
                       :: description_assign desc :: ps ++ spliced ++ ret) [] None
      /\ i0 = i
      /\ map_outcome (fun kv => param2argparse_param pt ww edd (fst kv) (snd kv)) (ir_params i) = Ok ps
      /\ (match ir_doc i with
          | Missing => False
          | FNone => wd = false /\ desc = VNone
          | Has d => exists t, fill_if wd d = Ok t /\ desc = VStr t
          end)
      /\ argparse_body_skip internal_body = Ok spliced
      /\ (if last_is_return internal_body then ret = [] else exists r, argparse_return pt i = Ok r /\ ret = [r])
      /\ (no_carried_body_C04 i = true -> internal_body = []).
Proof.
  intros pt i edd fn ft wd ww ds s i0 H. unfold emit_argparse in H.
  binv H. rename a into fname. binv H. rename a into ftype. binv H. rename a into ib. binv H. rename a into dtext.
  binv H. rename a into desc. binv H. rename a into ps. binv H. rename a into spliced. binv H. rename a into ret.
  destruct fname as [n|]; [|discriminate H]. inversion H; subst s i0.
  exists n, dtext, desc, ps, ib, spliced, ret.
  split; [reflexivity|]. split; [reflexivity|]. split; [exact Ha4|]. split; [|split; [exact Ha5|split]].
  - destruct (ir_doc i) as [| |d]; [discriminate Ha3| |].
    + destruct wd; [discriminate Ha3|]. inversion Ha3. split; reflexivity.
    + binv Ha3. inversion Ha3. exists a. split; [exact Ha7|reflexivity].
  - destruct (last_is_return ib); [inversion Ha6; reflexivity|]. binv Ha6. inversion Ha6. exists a. split; [exact Ha7|reflexivity].
  - intros Hb. unfold get_internal_body in Ha1. unfold no_carried_body_C04 in Hb.
    destruct (ir_internal i) as [it|]; [|inversion Ha1; reflexivity].
    destruct (in_body it); [inversion Ha1; reflexivity|discriminate Hb].
Qed.

Lemma argparse_return_shape : forall pt i r, argparse_return pt i = Ok r -> exists e, r = SReturn (Some e).
Proof.
  intros pt i r H. unfold argparse_return in H.
  destruct (returns_param i) as [p|]; [|inversion H; eexists; reflexivity].
  destruct (g_default p) as [[v|ex|o]|]; try discriminate H; [|inversion H; eexists; reflexivity].
  destruct v as [| | | |s]; try discriminate H.
  destruct (code_quoted s); [inversion H; eexists; reflexivity|].
  binv H. inversion H. eexists. reflexivity.
Qed.

(* the description assignment sets the doc and nothing else *)
Lemma description_step : forall di fb st desc st',
    argparse_step di fb st (description_assign desc) = Ok st' ->
    ap_params st' = ap_params st /\ ap_require_default st' = ap_require_default st /\ ap_returns st' = ap_returns st
    /\ ap_doc st' = Has (match desc with VStr s => set_value_str s | VNone => NoneStr | _ => [] end).
Proof.
  intros di fb st desc st' H. unfold description_assign, argparse_step, set_value in H.
  cbn [argparse_stmt_declined] in H.
  change (str_eqb (L "description") (L "description") && str_eqb (L "argument_parser") (L "argument_parser")) with true in H.
  cbv iota in H.
  destruct desc as [|b|z|r|s]; cbn [none_to_NoneStr] in H; try discriminate H; inversion H; subst st'; repeat split; reflexivity.
Qed.

(* a return statement leaves the parameters alone *)
Lemma return_step : forall di fb st e st',
    argparse_step di fb st (SReturn e) = Ok st' -> ap_params st' = ap_params st /\ ap_doc st' = ap_doc st.
Proof.
  intros di fb st e st' H. unfold argparse_step in H.
  destruct (argparse_stmt_declined (SReturn e)); [discriminate H|].
  destruct e as [[v|id|e1 a|e1 s1|es|es|ks vs|f args kws|op e1|src]|]; try (inversion H; subst st'; split; reflexivity).
  binv H. inversion H; subst st'. split; reflexivity.
Qed.

(* ================================================================== *)
(* Part 2: names and order                                              *)
(* ================================================================== *)

Lemma out_param_name_option : forall n, out_param_name (option_arg n) = Ok n.
Proof. intros n. reflexivity. Qed.

Lemma calls_of_params : forall pt ww edd (l : list (str * gparam)) ps,
    map_outcome (fun kv => param2argparse_param pt ww edd (fst kv) (snd kv)) l = Ok ps ->
    exists calls, ps = map call_stmt calls
                  /\ Forall2 (fun c n => out_param_name (fst c) = Ok n) calls (map fst l).
Proof.
  intros pt ww edd l. induction l as [|[n g] l IH]; intros ps H; cbn [map_outcome] in H.
  - inversion H; subst ps. exists []. split; [reflexivity|constructor].
  - binv H. binv H. inversion H; subst ps. cbn [fst snd] in Ha.
    destruct (C06Facts.param2argparse_param_shape _ _ _ _ _ _ Ha) as [kws Hs].
    destruct (IH _ Ha0) as [calls [Hc HF]].
    exists ((option_arg n, kws) :: calls). split.
    + cbn [map]. rewrite <- Hc, Hs. reflexivity.
    + cbn [map fst]. constructor; [reflexivity|exact HF].
Qed.

Lemma names_distinct_NoDup : forall l, names_distinct l = true -> NoDup l.
Proof.
  induction l as [|x l IH]; intros H; [constructor|]. cbn [names_distinct] in H.
  apply andb_true_iff in H. destruct H as [Hx Hl]. constructor; [|apply IH; exact Hl].
  intros Hin. apply negb_true_iff in Hx.
  assert (Ht : existsb (str_eqb x) l = true).
  { apply existsb_exists. exists x. split; [exact Hin|apply str_eqb_refl]. }
  rewrite Ht in Hx. discriminate Hx.
Qed.

(* the parser on a function of the emitted form, reduced to its loop *)
Lemma parse_argparse_on_emitted : forall di nm a ds body decos rets ft fnm,
    parse_argparse_ast (Ok di) (SFunc nm a (SExpr (EConst (VStr ds)) :: body) decos rets) ft fnm
    = (do st <- argparse_loop di (SExpr (EConst (VStr ds)) :: body) (mkAP [] (Has []) Missing false) body;
       Ok (mkIR (fld_of_opt fnm)
                (Has (match truthy_opt_str ft with Some t => t | None => get_function_type a end))
                (ap_doc st) (ap_params st) (ap_returns st)
                (match filter (fun s => negb (is_argparse_description s))
                              (filter (fun s => negb (is_argparse_add_argument s)) body) with
                 | [] => None
                 | inner => Some (mkInternal inner (Has nm) (Has (L "static")))
                 end))).
Proof.
  intros di nm a ds body decos rets ft fnm. unfold parse_argparse_ast.
  cbn [is_func_other bind docstring_of tl].
  destruct (argparse_loop di _ _ body) as [st|e]; cbn [bind]; [|reflexivity].
  destruct (filter _ (filter _ body)); reflexivity.
Qed.

Theorem C04_names_order_lemma : forall pt i edd fn ft wd ww ds di ft' fnm s i0 i',
    NoDup (map fst (ir_params i)) ->
    no_carried_body_C04 i = true ->
    emit_argparse pt i edd fn ft wd ww ds = Ok (s, i0) ->
    parse_argparse_ast (Ok di) s ft' fnm = Ok i' ->
    map fst (ir_params i') = map fst (ir_params i).
Proof.
  intros pt i edd fn ft wd ww ds di ft' fnm s i0 i' Hnd Hbody Hemit Hparse.
  destruct (emit_argparse_inv _ _ _ _ _ _ _ _ _ _ Hemit)
    as [n [dtext [desc [ps [ib [spliced [ret [Hs [_ [Hps [_ [Hskip [Hret Hib]]]]]]]]]]]]].
  specialize (Hib Hbody). subst ib. cbn [argparse_body_skip] in Hskip. inversion Hskip; subst spliced.
  change (last_is_return []) with false in Hret. cbv iota in Hret. destruct Hret as [r [Hr Hret]]. subst ret.
  destruct (argparse_return_shape _ _ _ Hr) as [e He]. subst r.
  subst s. rewrite parse_argparse_on_emitted in Hparse. binv Hparse. inversion Hparse; subst i'. cbn [ir_params].
  cbn [app argparse_loop] in Ha. binv Ha. rename a0 into st1.
  destruct (description_step _ _ _ _ _ Ha0) as [Hp1 _]. cbn [ap_params] in Hp1.
  destruct (calls_of_params _ _ _ _ _ Hps) as [calls [Hcalls HF]]. subst ps.
  rewrite argparse_loop_app in Ha. binv Ha. rename a0 into st2.
  cbn [argparse_loop] in Ha. binv Ha. inversion Ha; subst a.
  destruct (return_step _ _ _ _ _ Ha2) as [Hp3 _]. rewrite Hp3.
  pose proof (argparse_one_param_per_call _ _ calls st1 st2 _ Ha1 HF) as Hk.
  rewrite Hp1 in Hk. cbn [keys map app] in Hk. apply Hk. exact Hnd.
Qed.
