(* C04Compose: the AST-level composition of the argparse round trip,
     parse_argparse_ast di (emit_argparse pt i ...)      (models EmitAst / ParseAst, docstring layer decoupled)
   unbounded in the number of parameters.

   Part 1  what emit.argparse_function produces (emit_argparse_inv) and what the parser's loop does with the
           description assignment, the add_argument calls and the final return.
   Part 2  names and order (C04_names_order_lemma): for every IR with distinct names and no carried body, every
           option combination, whenever emitter and parser succeed the option names come back in order -- one
           add_argument call per parameter, one parameter per call -- whatever types, help texts and defaults are.
   Part 3  one option: _resolve_arg from the type text alone (resolve_arg_plan), the keywords param2argparse_param
           writes for the shapes T / Optional[T] / List[T] over a scalar T (param2argparse_shape), and what
           parse_out_param reads back from them for either value of the require_default flag (parse_out_kws);
           Literal['a', 'b', ...] with its choices (param_codec_literal; any number of choices).
   Part 4  the codec (C04_ast_partial_lemma): inside guard_C04_ast the parser returns the description and exactly
           norm_params_C04 of the parameters (the flag threaded through the induction), which is
           same_interface_argparse to argparse_type_norm of the input.
   Part 5  refutation, one computed witness per AST-visible finding class, non-vacuity.
   Proofs only. *)
From Coq Require Import List Ascii Bool Arith ZArith Lia.
From Coq Require String.
Import String.StringSyntax.
From DT Require Import PyStr Sexp PyVal TyExpr Extracted PureUtils Defaults C17Spec PyAst IR EmitAst ParseAst C02Spec C04Spec C04Codec.
From DT Require Import PyStrFacts PureUtilsFacts DefaultsFacts ParseAstFacts.
From DT Require EmitAstFacts C06Facts C06Spec.
Import ListNotations.

(* ================================================================== *)
(* Part 1: the emitted function and the parser's loop                   *)
(* ================================================================== *)

Lemma emit_argparse_inv : forall pt i edd fn ft wd ww ds s i0,
    emit_argparse pt i edd fn ft wd ww ds = Ok (s, i0) ->
    exists n dtext desc ps internal_body spliced ret,
      s = SFunc n (mkArguments [set_arg (L "argument_parser") None] [] [] [] None None)
                (SExpr (EConst (VStr (set_value_str (indent tab dtext ++ tab))))
                       :: description_assign desc :: ps ++ spliced ++ ret) [] None
      /\ i0 = i
      /\ map_outcome (fun kv => param2argparse_param pt ww edd (fst kv) (snd kv)) (ir_params i) = Ok ps
      /\ (match ir_doc i with
          | Missing => False
          | FNone => wd = false /\ desc = VNone
          | Has d => exists t, fill_if wd d = Ok t /\ desc = VStr t
          end)
      /\ argparse_body_skip internal_body = Ok spliced
      /\ (if last_is_return internal_body then ret = [] else exists r, argparse_return pt i = Ok r /\ ret = [r])
      /\ (no_carried_body_C04 i = true -> internal_body = []).
Proof.
  intros pt i edd fn ft wd ww ds s i0 H. unfold emit_argparse in H.
  binv H. rename a into fname. binv H. rename a into ftype. binv H. rename a into ib. binv H. rename a into dtext.
  binv H. rename a into desc. binv H. rename a into ps. binv H. rename a into spliced. binv H. rename a into ret.
  destruct fname as [n|]; [|discriminate H]. inversion H; subst s i0.
  exists n, dtext, desc, ps, ib, spliced, ret.
  split; [reflexivity|]. split; [reflexivity|]. split; [exact Ha4|]. split; [|split; [exact Ha5|split]].
  - destruct (ir_doc i) as [| |d]; [discriminate Ha3| |].
    + destruct wd; [discriminate Ha3|]. inversion Ha3. split; reflexivity.
    + binv Ha3. inversion Ha3. exists a. split; [exact Ha7|reflexivity].
  - destruct (last_is_return ib); [inversion Ha6; reflexivity|]. binv Ha6. inversion Ha6. exists a. split; [exact Ha7|reflexivity].
  - intros Hb. unfold get_internal_body in Ha1. unfold no_carried_body_C04 in Hb.
    destruct (ir_internal i) as [it|]; [|inversion Ha1; reflexivity].
    destruct (in_body it); [inversion Ha1; reflexivity|discriminate Hb].
Qed.

Lemma argparse_return_shape : forall pt i r, argparse_return pt i = Ok r -> exists e, r = SReturn (Some e).
Proof.
  intros pt i r H. unfold argparse_return in H.
  destruct (returns_param i) as [p|]; [|inversion H; eexists; reflexivity].
  destruct (g_default p) as [[v|ex|o]|]; try discriminate H; [|inversion H; eexists; reflexivity].
  destruct v as [| | | |s]; try discriminate H.
  destruct (code_quoted s); [inversion H; eexists; reflexivity|].
  binv H. inversion H. eexists. reflexivity.
Qed.

(* the description assignment sets the doc and nothing else *)
Lemma description_step : forall di fb st desc st',
    argparse_step di fb st (description_assign desc) = Ok st' ->
    ap_params st' = ap_params st /\ ap_require_default st' = ap_require_default st /\ ap_returns st' = ap_returns st
    /\ ap_doc st' = Has (match desc with VStr s => set_value_str s | VNone => NoneStr | _ => [] end).
Proof.
  intros di fb st desc st' H. unfold description_assign, argparse_step, set_value in H.
  cbn [argparse_stmt_declined] in H.
  change (str_eqb (L "description") (L "description") && str_eqb (L "argument_parser") (L "argument_parser")) with true in H.
  cbv iota in H.
  destruct desc as [|b|z|r|s]; cbn [none_to_NoneStr] in H; try discriminate H; inversion H; subst st'; repeat split; reflexivity.
Qed.

(* a return statement leaves the parameters alone *)
Lemma return_step : forall di fb st e st',
    argparse_step di fb st (SReturn e) = Ok st' -> ap_params st' = ap_params st /\ ap_doc st' = ap_doc st.
Proof.
  intros di fb st e st' H. unfold argparse_step in H.
  destruct (argparse_stmt_declined (SReturn e)); [discriminate H|].
  destruct e as [[v|id|e1 a|e1 s1|es|es|ks vs|f args kws|op e1|src]|]; try (inversion H; subst st'; split; reflexivity).
  binv H. inversion H; subst st'. split; reflexivity.
Qed.

(* ================================================================== *)
(* Part 2: names and order                                              *)
(* ================================================================== *)

Lemma out_param_name_option : forall n, out_param_name (option_arg n) = Ok n.
Proof. intros n. reflexivity. Qed.

Lemma calls_of_params : forall pt ww edd (l : list (str * gparam)) ps,
    map_outcome (fun kv => param2argparse_param pt ww edd (fst kv) (snd kv)) l = Ok ps ->
    exists calls, ps = map call_stmt calls
                  /\ Forall2 (fun c n => out_param_name (fst c) = Ok n) calls (map fst l).
Proof.
  intros pt ww edd l. induction l as [|[n g] l IH]; intros ps H; cbn [map_outcome] in H.
  - inversion H; subst ps. exists []. split; [reflexivity|constructor].
  - binv H. binv H. inversion H; subst ps. cbn [fst snd] in Ha.
    destruct (C06Facts.param2argparse_param_shape _ _ _ _ _ _ Ha) as [kws Hs].
    destruct (IH _ Ha0) as [calls [Hc HF]].
    exists ((option_arg n, kws) :: calls). split.
    + cbn [map]. rewrite <- Hc, Hs. reflexivity.
    + cbn [map fst]. constructor; [reflexivity|exact HF].
Qed.

Lemma names_distinct_NoDup : forall l, names_distinct l = true -> NoDup l.
Proof.
  induction l as [|x l IH]; intros H; [constructor|]. cbn [names_distinct] in H.
  apply andb_true_iff in H. destruct H as [Hx Hl]. constructor; [|apply IH; exact Hl].
  intros Hin. apply negb_true_iff in Hx.
  assert (Ht : existsb (str_eqb x) l = true).
  { apply existsb_exists. exists x. split; [exact Hin|apply str_eqb_refl]. }
  rewrite Ht in Hx. discriminate Hx.
Qed.

(* the parser on a function of the emitted form, reduced to its loop *)
Lemma parse_argparse_on_emitted : forall di nm a ds body decos rets ft fnm,
    parse_argparse_ast (Ok di) (SFunc nm a (SExpr (EConst (VStr ds)) :: body) decos rets) ft fnm
    = (do st <- argparse_loop di (SExpr (EConst (VStr ds)) :: body) (mkAP [] (Has []) Missing false) body;
       Ok (mkIR (fld_of_opt fnm)
                (Has (match truthy_opt_str ft with Some t => t | None => get_function_type a end))
                (ap_doc st) (ap_params st) (ap_returns st)
                (match filter (fun s => negb (is_argparse_description s))
                              (filter (fun s => negb (is_argparse_add_argument s)) body) with
                 | [] => None
                 | inner => Some (mkInternal inner (Has nm) (Has (L "static")))
                 end))).
Proof.
  intros di nm a ds body decos rets ft fnm. unfold parse_argparse_ast.
  cbn [is_func_other bind docstring_of tl].
  destruct (argparse_loop di _ _ body) as [st|e]; cbn [bind]; [|reflexivity].
  destruct (filter _ (filter _ body)); reflexivity.
Qed.

Theorem C04_names_order_lemma : forall pt i edd fn ft wd ww ds di ft' fnm s i0 i',
    NoDup (map fst (ir_params i)) ->
    no_carried_body_C04 i = true ->
    emit_argparse pt i edd fn ft wd ww ds = Ok (s, i0) ->
    parse_argparse_ast (Ok di) s ft' fnm = Ok i' ->
    map fst (ir_params i') = map fst (ir_params i).
Proof.
  intros pt i edd fn ft wd ww ds di ft' fnm s i0 i' Hnd Hbody Hemit Hparse.
  destruct (emit_argparse_inv _ _ _ _ _ _ _ _ _ _ Hemit)
    as [n [dtext [desc [ps [ib [spliced [ret [Hs [_ [Hps [_ [Hskip [Hret Hib]]]]]]]]]]]]].
  specialize (Hib Hbody). subst ib. cbn [argparse_body_skip] in Hskip. inversion Hskip; subst spliced.
  change (last_is_return []) with false in Hret. cbv iota in Hret. destruct Hret as [r [Hr Hret]]. subst ret.
  destruct (argparse_return_shape _ _ _ Hr) as [e He]. subst r.
  subst s. rewrite parse_argparse_on_emitted in Hparse. binv Hparse. inversion Hparse; subst i'. cbn [ir_params].
  cbn [app argparse_loop] in Ha. binv Ha. rename a0 into st1.
  destruct (description_step _ _ _ _ _ Ha0) as [Hp1 _]. cbn [ap_params] in Hp1.
  destruct (calls_of_params _ _ _ _ _ Hps) as [calls [Hcalls HF]]. subst ps.
  rewrite argparse_loop_app in Ha. binv Ha. rename a0 into st2.
  cbn [argparse_loop] in Ha. binv Ha. inversion Ha; subst a.
  destruct (return_step _ _ _ _ _ Ha2) as [Hp3 _]. rewrite Hp3.
  pose proof (argparse_one_param_per_call _ _ calls st1 st2 _ Ha1 HF) as Hk.
  rewrite Hp1 in Hk. cbn [keys map app] in Hk. apply Hk. exact Hnd.
Qed.

(* ================================================================== *)
(* Part 3: one option                                                   *)
(* ================================================================== *)

Definition req_of_plan (s : rstate) (r0 : bool) : bool :=
  match (match rs_required s with
         | None => if existsb (str_eqb (match rs_typ s with Some t' => casefold t' | None => [] end)) required_words
                   then Some true else None
         | r => r
         end) with
  | None => r0
  | Some b => b
  end.

(* _resolve_arg depends on the name only through "ends with kwargs" *)
Lemma resolve_arg_plan : forall n docf t d r0 s,
    resolve_plan t = Some s -> endswith (L "kwargs") n = false ->
    resolve_arg None None n (mkG docf (Has t) d) r0 (Some (L "str"))
    = Ok (rs_action s, rs_choices s, req_of_plan s r0, rs_typ s, mkG docf (Has t) d).
Proof.
  intros n docf t d r0 s Hp Hn. unfold resolve_arg, resolve_plan in *. cbn [g_typ g_doc g_default].
  destruct (startswith class_prefix t); [discriminate Hp|].
  destruct (in_simple_types t).
  - inversion Hp; subst s. reflexivity.
  - destruct (str_eqb t (L "dict")); [discriminate Hp|]. rewrite Hn. cbn [orb].
    destruct t as [|c t']; [discriminate Hp|].
    destruct (parse_ty_fix (c :: t')) as [tree|]; [|discriminate Hp]. inversion Hp; subst s. reflexivity.
Qed.

Lemma shape_of_typ_inv : forall t sh,
    shape_of_typ t = Some sh ->
    exists s, resolve_plan t = Some s
              /\ rs_typ s = Some (sh_T sh) /\ rs_choices s = None
              /\ rs_action s = (if sh_append sh then Some (L "append") else None)
              /\ rs_required s = (if sh_optional sh then Some false else None)
              /\ scalar4 (sh_T sh) = true /\ sh_append sh && sh_optional sh = false
              /\ typ_of_shape sh = t.
Proof.
  intros t sh H. unfold shape_of_typ in H. destruct (resolve_plan t) as [s|]; [|discriminate H].
  exists s. split; [reflexivity|].
  destruct (rs_typ s) as [T|]; [|discriminate H]. destruct (rs_choices s); [discriminate H|].
  destruct (rs_action s) as [a|] eqn:Ea.
  - destruct (str_eqb a (L "append")) eqn:Eap; [|discriminate H]. apply str_eqb_eq in Eap. subst a.
    destruct (rs_required s) as [[|]|] eqn:Er; try discriminate H.
    + match type of H with (if ?c then _ else _) = _ => destruct c eqn:Ec end; [|discriminate H].
      inversion H; subst sh. cbn [sh_T sh_append sh_optional] in *.
      apply andb_true_iff in Ec. destruct Ec as [Ec _]. apply andb_true_iff in Ec. destruct Ec as [_ Ec]. discriminate Ec.
    + match type of H with (if ?c then _ else _) = _ => destruct c eqn:Ec end; [|discriminate H].
      inversion H; subst sh. cbn [sh_T sh_append sh_optional] in *.
      apply andb_true_iff in Ec. destruct Ec as [Ec Et]. apply andb_true_iff in Ec. destruct Ec as [Es _].
      apply str_eqb_eq in Et. repeat split; try reflexivity; assumption.
  - destruct (rs_required s) as [[|]|] eqn:Er; try discriminate H.
    + match type of H with (if ?c then _ else _) = _ => destruct c eqn:Ec end; [|discriminate H].
      inversion H; subst sh. cbn [sh_T sh_append sh_optional] in *.
      apply andb_true_iff in Ec. destruct Ec as [Ec Et]. apply andb_true_iff in Ec. destruct Ec as [Es _].
      apply str_eqb_eq in Et. repeat split; try reflexivity; assumption.
    + match type of H with (if ?c then _ else _) = _ => destruct c eqn:Ec end; [|discriminate H].
      inversion H; subst sh. cbn [sh_T sh_append sh_optional] in *.
      apply andb_true_iff in Ec. destruct Ec as [Ec Et]. apply andb_true_iff in Ec. destruct Ec as [Es _].
      apply str_eqb_eq in Et. repeat split; try reflexivity; assumption.
Qed.

Lemma scalar4_cases : forall T, scalar4 T = true -> T = L "str" \/ T = L "int" \/ T = L "float" \/ T = L "bool".
Proof.
  intros T H. unfold scalar4 in H.
  repeat (apply orb_true_iff in H; destruct H as [H|H]); apply str_eqb_eq in H; auto.
Qed.

(* closed facts about the four scalar names, computed from the live constants *)
Record scalar_facts (T : str) : Prop := mkSF {
  sf_simple : in_simple_types T = true;
  sf_req : existsb (str_eqb (casefold T)) required_words = negb (str_eqb T (L "bool"));
  sf_keep : contains (L "Optional") T || str_eqb T (L "Any") || str_eqb T (L "pickle.loads") || str_eqb T (L "loads") = false;
  sf_pickle : str_eqb T (L "pickle.loads") = false;
  sf_globals : str_eqb T (L "globals().__getitem__") = false;
  sf_loads : str_eqb T (L "loads") = false;
  sf_opt_start : startswith (L "Optional") T = false;
  sf_opt_in : contains (L "Optional") T = false;
  sf_opt_list : contains (L "Optional") (L "List[" ++ T ++ L "]") = false;
  sf_zero : exists z, simple_type_zero T = Some z
}.

Lemma scalar4_facts : forall T, scalar4 T = true -> scalar_facts T.
Proof.
  intros T H. destruct (scalar4_cases T H) as [E|[E|[E|E]]]; subst T;
    (constructor; try (vm_compute; reflexivity); eexists; vm_compute; reflexivity).
Qed.

(* ---- what param2argparse_param writes ---- *)

Definition typ2_of (sh : shape) : option str :=
  if str_eqb (sh_T sh) (L "str") && negb (sh_append sh) then None else Some (sh_T sh).
Definition action_of (sh : shape) : option str := if sh_append sh then Some (L "append") else None.
Definition required0_of (d : option dval) : bool :=
  match d with None | Some (DV VNone) => false | Some _ => true end.
Definition required_of (sh : shape) (d : option dval) : bool :=
  if sh_optional sh then false else if str_eqb (sh_T sh) (L "bool") then required0_of d else true.
Definition dflt_of (d : option dval) : option pyval := match d with Some (DV v) => Some v | _ => None end.

Lemma no_announce_nil : no_announce [] = true. Proof. reflexivity. Qed.

Lemma extract_doc_fld : forall docf edd,
    match docf with Has (c :: r) => no_announce (c :: r) = true | _ => True end ->
    extract_default_fld (match docf with Missing => Has [] | x => x end) true default_announces None edd
    = Ok (match docf with Missing => Has [] | x => x end, None).
Proof.
  intros docf edd H. destruct docf as [| |[|c r]]; cbn [extract_default_fld].
  - rewrite (extract_default_no_announce [] true None edd no_announce_nil). reflexivity.
  - reflexivity.
  - rewrite (extract_default_no_announce [] true None edd no_announce_nil). reflexivity.
  - rewrite (extract_default_no_announce (c :: r) true None edd H). reflexivity.
Qed.

Lemma help_ok_inv : forall docf gt d,
    help_ok_C04 (mkG docf gt d) = true ->
    match docf with Has (c :: r) => no_announce (c :: r) = true /\ sv_stable (c :: r) = true | _ => True end.
Proof.
  intros docf gt d H. unfold help_ok_C04, prose_of in H. cbn [g_doc] in H.
  destruct docf as [| |[|c r]]; try exact I. apply andb_true_iff in H. exact H.
Qed.

Lemma default_ok_C04_inv : forall sh d,
    default_ok_C04 sh d = true ->
    match d with
    | None => sh_append sh = false /\ (sh_optional sh = true \/ str_eqb (sh_T sh) (L "bool") = false)
    | Some (DV v) =>
      type_name v = sh_T sh
      /\ match v with
         | VStr s => sv_stable s = true /\ code_quoted s = false /\ in_none_types (VStr s) = false
         | _ => True
         end
    | Some _ => False
    end.
Proof.
  intros sh d H. unfold default_ok_C04 in H. destruct d as [[v|ex|o]|]; try discriminate H.
  - apply andb_true_iff in H. destruct H as [Ht Hv]. apply str_eqb_eq in Ht. split; [exact Ht|].
    destruct v; try exact I. apply andb_true_iff in Hv. destruct Hv as [Hv H3]. apply andb_true_iff in Hv. destruct Hv as [H1 H2].
    apply negb_true_iff in H2. apply negb_true_iff in H3. repeat split; assumption.
  - apply andb_true_iff in H. destruct H as [Ha Ho]. apply negb_true_iff in Ha. split; [exact Ha|].
    apply orb_true_iff in Ho. destruct Ho as [Ho|Ho]; [left; exact Ho|right; apply negb_true_iff; exact Ho].
Qed.

Lemma action1_id : forall (a : option str), match a with Some (c :: r) => Some (c :: r) | _ => a end = a.
Proof. intros [[|c r]|]; reflexivity. Qed.

Definition doc_cond (docf : fld str) : Prop :=
  match docf with Has (c :: r) => no_announce (c :: r) = true /\ sv_stable (c :: r) = true | _ => True end.

Definition dflt_cond (T : str) (d : option dval) : Prop :=
  match d with
  | None => True
  | Some (DV v) =>
    type_name v = T
    /\ match v with
       | VStr s => sv_stable s = true /\ code_quoted s = false /\ in_none_types (VStr s) = false
       | _ => True
       end
  | Some _ => False
  end.

Lemma none_types_str_C04 : forall s, in_none_types (VStr s) = false -> str_eqb s NoneStr = false.
Proof.
  intros s H. unfold in_none_types, Extracted.none_types_strs in H. cbn [existsb] in H.
  apply orb_false_iff in H. destruct H as [_ H]. apply orb_false_iff in H. destruct H as [H _]. exact H.
Qed.

Ltac p2a_fin T app :=
  rewrite C06Facts.set_value_option; unfold call_stmt, option_arg, kws_of, argparser;
  cbn [fst snd prose_of g_doc dflt_of andb];
  destruct (str_eqb T (L "str")), app; cbn [andb negb]; reflexivity.

Ltac p2a_default T app Htn Hv Fsimple Fpickle :=
  match goal with
  | |- context [infer_type_and_default _ _ _ (OV ?v) _ _] =>
    destruct v as [|b|zz|fr|s];
    [ rewrite <- Htn in Fsimple; vm_compute in Fsimple; discriminate Fsimple
    | cbn [infer_type_and_default bind it_typ it_action it_default]; rewrite Htn, Fpickle, action1_id; p2a_fin T app
    | cbn [infer_type_and_default bind it_typ it_action it_default]; rewrite Htn, Fpickle, action1_id; p2a_fin T app
    | cbn [infer_type_and_default bind it_typ it_action it_default]; rewrite Htn, Fpickle, action1_id; p2a_fin T app
    | destruct Hv as [Hsv [Hcq Hnn]]; cbn [infer_type_and_default]; rewrite Hcq;
      cbn [bind it_typ it_action it_default]; cbn [type_name] in Htn; subst T; rewrite Fpickle, action1_id;
      rewrite (none_types_str_C04 s Hnn); p2a_fin (L "str") app ]
  end.

Ltac p2a_nodefault T app Fkeep Fpickle :=
  cbn [bind]; unfold infer_fuel, o_none; cbn [infer_type_and_default]; rewrite Fkeep;
  cbn [bind it_typ it_action it_default]; rewrite Fpickle, action1_id; p2a_fin T app.

Ltac p2a_cases T app Hd Fsimple Fpickle Fkeep :=
  match goal with
  | |- context [g_default {| g_doc := _; g_typ := _; g_default := ?d |}] =>
    destruct d as [[v|ex|o]|]; try contradiction;
    [ let Htn := fresh "Htn" in let Hv := fresh "Hv" in
      destruct Hd as [Htn Hv]; cbn [pyobj_of_dval bind g_default fill_if]; unfold infer_fuel;
      p2a_default T app Htn Hv Fsimple Fpickle
    | cbn [g_default fill_if]; p2a_nodefault T app Fkeep Fpickle ]
  end.

Lemma p2a_core : forall pt edd n docf t d T (app : bool) ch required,
    scalar_facts T ->
    resolve_arg None None n (mkG docf (Has t) d) (required0_of d) (Some (L "str"))
    = Ok ((if app then Some (L "append") else None), ch, required, Some T, mkG docf (Has t) d) ->
    doc_cond docf -> dflt_cond T d ->
    param2argparse_param pt false edd n (mkG docf (Has t) d)
    = Ok (call_stmt (option_arg n,
                     kws_of (if str_eqb T (L "str") && negb app then None else Some T) ch
                            (if app then Some (L "append") else None)
                            (prose_of (mkG docf (Has t) d)) required (dflt_of d))).
Proof.
  intros pt edd n docf t d T app ch required [Fsimple Freq Fkeep Fpickle Fglobals Floads Fos Foi Fol [z Fz]] Hres Hdoc Hd.
  unfold param2argparse_param. cbn [g_typ g_default g_doc]. fold (required0_of d). rewrite Hres. cbn [bind g_doc g_typ g_default].
  destruct docf as [| |[|c r]].
  - cbn [g_doc extract_default_fld]. rewrite (extract_default_no_announce [] true None edd no_announce_nil).
    cbn [bind fst snd]. p2a_cases T app Hd Fsimple Fpickle Fkeep.
  - cbn [g_doc extract_default_fld]. cbn [bind fst snd]. p2a_cases T app Hd Fsimple Fpickle Fkeep.
  - cbn [g_doc extract_default_fld]. rewrite (extract_default_no_announce [] true None edd no_announce_nil).
    cbn [bind fst snd]. p2a_cases T app Hd Fsimple Fpickle Fkeep.
  - destruct Hdoc as [Hna Hsvh].
    cbn [g_doc extract_default_fld]. rewrite (extract_default_no_announce (c :: r) true None edd Hna).
    cbn [bind fst snd]. p2a_cases T app Hd Fsimple Fpickle Fkeep.
Qed.

Lemma req_of_plan_shape : forall s sh r0,
    rs_typ s = Some (sh_T sh) -> rs_required s = (if sh_optional sh then Some false else None) ->
    scalar_facts (sh_T sh) ->
    req_of_plan s r0 = if sh_optional sh then false else if str_eqb (sh_T sh) (L "bool") then r0 else true.
Proof.
  intros s sh r0 HT Hreq F. unfold req_of_plan. rewrite Hreq, HT. destruct (sh_optional sh); [reflexivity|].
  rewrite (sf_req _ F). destruct (str_eqb (sh_T sh) (L "bool")); reflexivity.
Qed.

Theorem param2argparse_shape : forall pt edd n docf t d sh,
    shape_of_typ t = Some sh -> plain_name_C04 n = true ->
    help_ok_C04 (mkG docf (Has t) d) = true -> default_ok_C04 sh d = true ->
    param2argparse_param pt false edd n (mkG docf (Has t) d)
    = Ok (call_stmt (option_arg n,
                     kws_of (typ2_of sh) None (action_of sh) (prose_of (mkG docf (Has t) d)) (required_of sh d) (dflt_of d))).
Proof.
  intros pt edd n docf t d sh Hsh Hn Hhelp Hd.
  destruct (shape_of_typ_inv t sh Hsh) as [s [Hplan [HT [Hch [Hact [Hreq [Hsc [Hao Htyp]]]]]]]].
  pose proof (scalar4_facts _ Hsc) as F.
  unfold plain_name_C04 in Hn. apply negb_true_iff in Hn.
  pose proof (help_ok_inv _ _ _ Hhelp) as Hdoc.
  pose proof (default_ok_C04_inv sh d Hd) as Hdd.
  unfold typ2_of, action_of, required_of. rewrite <- (req_of_plan_shape s sh (required0_of d) HT Hreq F).
  apply p2a_core; [exact F| |exact Hdoc|].
  - rewrite (resolve_arg_plan n docf t d _ s Hplan Hn), Hact, Hch, HT. reflexivity.
  - unfold dflt_cond. destruct d as [[v|ex|o]|]; try exact Hdd; exact I.
Qed.

(* ---- what parse_out_param reads from such keywords ---- *)

Lemma find_kws : forall ty ch ac h r d,
    find_kw (L "required") (kws_of ty ch ac h r d) = (if r then Some (set_value (VBool true)) else None)
    /\ find_kw (L "type") (kws_of ty ch ac h r d)
       = option_map (fun t => EName (if str_eqb t (L "globals().__getitem__") then L "str" else t)) ty
    /\ find_kw (L "default") (kws_of ty ch ac h r d) = option_map set_value d
    /\ find_kw (L "help") (kws_of ty ch ac h r d) = option_map (fun x => set_value (VStr x)) h
    /\ find_kw (L "action") (kws_of ty ch ac h r d) = option_map (fun a => set_value (VStr a)) ac
    /\ find_kw (L "choices") (kws_of ty ch ac h r d) = option_map (fun cs => ETuple (map set_value cs)) ch.
Proof. intros [ty|] [ch|] [ac|] [h|] [|] [d|]; repeat split; reflexivity. Qed.

Definition typ_back (T : str) (app required : bool) : str :=
  let a := if app then L "List[" ++ T ++ L "]" else T in
  if required then a else L "Optional[" ++ a ++ L "]".

Definition default_back (z : pyval) (required rd : bool) (dflt : option pyval) : option dval :=
  match dflt with
  | Some v => Some (DV v)
  | None => if required then Some (DV z) else if rd then Some (DV (VStr NoneStr)) else None
  end.

Lemma sv_stable_set_value : forall s, sv_stable s = true -> set_value (VStr s) = EConst (VStr s).
Proof.
  intros s H. unfold sv_stable in H. apply andb_true_iff in H. destruct H as [H1 H2].
  apply negb_true_iff in H1. apply negb_true_iff in H2. unfold set_value, set_value_str. rewrite H1, H2, andb_false_r. reflexivity.
Qed.

Lemma sv_stable_str : forall s, sv_stable s = true -> set_value_str s = s.
Proof.
  intros s H. pose proof (sv_stable_set_value s H) as E. unfold set_value in E. inversion E as [E1]. rewrite E1. exact E1.
Qed.

Lemma set_value_nonstr : forall v, match v with VStr _ => False | _ => True end -> set_value v = EConst v.
Proof. intros [| | | |s] H; try reflexivity. contradiction. Qed.

Lemma typ0_of : forall T app,
    scalar_facts T ->
    match option_map (fun t => EName (if str_eqb t (L "globals().__getitem__") then L "str" else t))
                     (if str_eqb T (L "str") && negb app then None else Some T) with
    | Some e => handle_value e
    | None => Ok (L "str")
    end = Ok T.
Proof.
  intros T app F. destruct (str_eqb T (L "str") && negb app) eqn:E.
  - apply andb_true_iff in E. destruct E as [E _]. apply str_eqb_eq in E. subst T. reflexivity.
  - cbn [option_map handle_value]. rewrite (sf_globals _ F), (sf_loads _ F). reflexivity.
Qed.

Lemma parse_out_kws : forall n T app help required dflt rd z,
    scalar_facts T -> simple_type_zero T = Some z ->
    match help with Some h => no_announce h = true /\ sv_stable h = true | None => True end ->
    match dflt with
    | Some v => v <> VNone /\ match v with VStr s => sv_stable s = true | _ => True end
    | None => True
    end ->
    parse_out_param (option_arg n)
                    (kws_of (if str_eqb T (L "str") && negb app then None else Some T) None
                            (if app then Some (L "append") else None) help required dflt) rd false
    = Ok (n, mkG (match help with Some h => Has h | None => FNone end) (Has (typ_back T app required))
                 (default_back z required rd dflt)).
Proof.
  intros n T app help required dflt rd z F Hz Hhelp Hdflt.
  destruct (find_kws (if str_eqb T (L "str") && negb app then None else Some T) None
                     (if app then Some (L "append") else None) help required dflt)
    as [K1 [K2 [K3 [K4 [K5 K6]]]]].
  unfold parse_out_param. rewrite K1, K2, K3, K4, K5, K6. rewrite (typ0_of T app F).
  assert (Hreq : match (if required then Some (set_value (VBool true)) else None) with
                 | Some e => get_value_expr e
                 | None => Ok (GV (VBool false))
                 end = Ok (GV (VBool required))).
  { destruct required; reflexivity. }
  rewrite Hreq. cbn [bind option_arg get_value_expr none_to_NoneStr].
  change (skipn 2 (L "--" ++ n)) with n.
  destruct F as [Fsimple Freq Fkeep Fpickle Fglobals Floads Fos Foi Fol _].
  assert (Hact : match option_map (fun a : str => set_value (VStr a)) (if app then Some (L "append") else None) with
                 | Some e => do g <- get_value_expr e; Ok (Some g)
                 | None => Ok None
                 end = Ok (if app then Some (GV (VStr (L "append"))) else None)).
  { destruct app; reflexivity. }
  rewrite Hact. clear Hact.
  assert (Hd0 : match option_map set_value dflt with
                | Some e => do g <- get_value_expr e; Ok (Some g)
                | None => Ok None
                end = Ok (option_map GV dflt)).
  { destruct dflt as [v|]; [|reflexivity]. destruct Hdflt as [Hvn Hvs]. cbn [option_map].
    destruct v as [|b|zz|fr|s]; try reflexivity; [contradiction|].
    rewrite (sv_stable_set_value s Hvs). reflexivity. }
  rewrite Hd0. clear Hd0.
  assert (Hh0 : match option_map (fun x : str => set_value (VStr x)) help with
                | Some e => do g <- get_value_expr e; Ok (Some g)
                | None => Ok None
                end = Ok (option_map (fun h => GV (VStr h)) help)).
  { destruct help as [h|]; [|reflexivity]. destruct Hhelp as [_ Hsvh]. cbn [option_map].
    rewrite (sv_stable_set_value h Hsvh). reflexivity. }
  rewrite Hh0. clear Hh0. cbn [bind negb].
  destruct help as [h|]; [destruct Hhelp as [Hna _]|]; destruct dflt as [v|]; cbn [option_map bind dval_of_gval];
    try rewrite (extract_default_no_announce h true None false Hna); cbn [bind fst snd option_map truthy_gval truthy];
      rewrite ?Fsimple, ?Hz, ?Fos, ?orb_false_r; unfold typ_back, default_back;
        destruct app, required; cbn [bind negb andb]; change (str_eqb (L "append") (L "append")) with true; cbv iota;
          rewrite ?Foi, ?Fol; cbn [negb andb]; try reflexivity; destruct rd; reflexivity.
Qed.

(* ================================================================== *)
(* Part 4: the codec                                                    *)
(* ================================================================== *)

Lemma gparam_ok_C04_inv : forall docf gt d,
    gparam_ok_C04 (mkG docf gt d) = true ->
    exists t, gt = Has t /\ help_ok_C04 (mkG docf gt d) = true
              /\ ((exists sh, shape_of_typ t = Some sh /\ default_ok_C04 sh d = true)
                  \/ (shape_of_typ t = None /\ exists cs, literal_of_typ t = Some cs /\ str_default_ok_C04 d = true)).
Proof.
  intros docf gt d H. unfold gparam_ok_C04 in H. cbn [g_typ g_default] in H.
  destruct gt as [| |t]; try discriminate H. exists t. split; [reflexivity|].
  destruct (shape_of_typ t) as [sh|] eqn:Es.
  - apply andb_true_iff in H. destruct H as [H1 H2]. split; [exact H1|]. left. exists sh. split; [reflexivity|exact H2].
  - destruct (literal_of_typ t) as [cs|] eqn:El; [|discriminate H].
    apply andb_true_iff in H. destruct H as [H1 H2]. split; [exact H1|]. right. split; [reflexivity|].
    exists cs. split; [reflexivity|exact H2].
Qed.

Lemma scalar_not_nonetype : forall T, scalar4 T = true -> T <> type_name VNone.
Proof. intros T H E. subst T. vm_compute in H. discriminate H. Qed.

Lemma typ_back_shape : forall t sh d,
    shape_of_typ t = Some sh -> default_ok_C04 sh d = true ->
    typ_back (sh_T sh) (sh_append sh) (required_of sh d) = t.
Proof.
  intros t sh d Hsh Hd. destruct (shape_of_typ_inv t sh Hsh) as [s [_ [_ [_ [_ [_ [Hsc [Hao Htyp]]]]]]]].
  pose proof (default_ok_C04_inv sh d Hd) as Hdd.
  unfold typ_back, required_of. rewrite <- Htyp. unfold typ_of_shape.
  destruct (sh_optional sh) eqn:Eo.
  - rewrite andb_true_r in Hao. rewrite Hao. reflexivity.
  - assert (Hr : (if str_eqb (sh_T sh) (L "bool") then required0_of d else true) = true).
    { destruct (str_eqb (sh_T sh) (L "bool")) eqn:Eb; [|reflexivity].
      destruct d as [[v|ex|o]|]; try contradiction.
      - destruct Hdd as [Htn _]. destruct v; try reflexivity. exfalso. apply (scalar_not_nonetype _ Hsc). symmetry. exact Htn.
      - destruct Hdd as [_ [Ho|Hb]]; [congruence|]. congruence. }
    rewrite Hr. reflexivity.
Qed.

(* T, Optional[T], List[T] *)
Lemma param_codec_shape : forall pt edd n docf t d sh rd,
    plain_name_C04 n = true -> shape_of_typ t = Some sh ->
    help_ok_C04 (mkG docf (Has t) d) = true -> default_ok_C04 sh d = true ->
    exists c, param2argparse_param pt false edd n (mkG docf (Has t) d) = Ok (call_stmt c)
              /\ parse_out_param (fst c) (snd c) rd false = Ok (n, norm_param_C04 rd (mkG docf (Has t) d)).
Proof.
  intros pt edd n docf t d sh rd Hn Hsh Hhelp Hd.
  destruct (shape_of_typ_inv t sh Hsh) as [s [_ [_ [_ [_ [_ [Hsc [Hao Htyp]]]]]]]].
  pose proof (scalar4_facts _ Hsc) as F. destruct (sf_zero _ F) as [z Hz].
  pose proof (help_ok_inv _ _ _ Hhelp) as Hdoc.
  pose proof (default_ok_C04_inv sh d Hd) as Hdd.
  eexists. split; [apply (param2argparse_shape pt edd n docf t d sh Hsh Hn Hhelp Hd)|].
  cbn [fst snd]. unfold typ2_of, action_of.
  rewrite (parse_out_kws n (sh_T sh) (sh_append sh) _ (required_of sh d) (dflt_of d) rd z F Hz).
  - rewrite (typ_back_shape t sh d Hsh Hd). unfold norm_param_C04. cbn [g_typ g_default]. rewrite Hsh.
    unfold help_fld. f_equal. f_equal. f_equal.
    unfold default_back, dflt_of, required_of, zero_dval. rewrite Hz.
    destruct d as [[v|ex|o]|]; try contradiction; [reflexivity|].
    destruct Hdd as [_ Hob]. destruct (sh_optional sh) eqn:Eo; [reflexivity|].
    destruct Hob as [Ho|Hb]; [discriminate Ho|]. rewrite Hb. reflexivity.
  - unfold prose_of. cbn [g_doc]. destruct docf as [| |[|c r]]; try exact I. exact Hdoc.
  - unfold dflt_of. destruct d as [[v|ex|o]|]; try exact I. destruct Hdd as [Htn Hv]. split.
    + intros E. subst v. apply (scalar_not_nonetype _ Hsc). symmetry. exact Htn.
    + destruct v; try exact I. destruct Hv as [Hsv _]. exact Hsv.
Qed.

(* ---- Literal['a', 'b', ...]: choices ---- *)

Lemma all_strs_map : forall vs cs, all_strs vs = Some cs -> vs = map VStr cs.
Proof.
  induction vs as [|v vs IH]; intros cs H; cbn [all_strs] in H.
  - inversion H; reflexivity.
  - destruct v as [| | | |x]; try discriminate H. destruct (all_strs vs) as [cs'|]; [|discriminate H].
    cbn [option_map] in H. inversion H; subst cs. cbn [map]. f_equal. apply IH. reflexivity.
Qed.

Lemma literal_of_typ_inv : forall t cs,
    literal_of_typ t = Some cs ->
    exists s, resolve_plan t = Some s
              /\ rs_typ s = Some (L "str") /\ rs_choices s = Some (map VStr cs)
              /\ rs_action s = None /\ rs_required s = None
              /\ forallb sv_stable cs = true /\ literal_text cs = t.
Proof.
  intros t cs H. unfold literal_of_typ in H. destruct (resolve_plan t) as [s|]; [|discriminate H].
  exists s. split; [reflexivity|].
  destruct (rs_typ s) as [T|]; [|discriminate H]. destruct (rs_choices s) as [vs|]; [|discriminate H].
  destruct (rs_action s); [discriminate H|]. destruct (rs_required s); [discriminate H|].
  destruct (all_strs vs) as [cs'|] eqn:Ea; [|discriminate H].
  match type of H with (if ?c then _ else _) = _ => destruct c eqn:Ec end; [|discriminate H].
  inversion H; subst cs'.
  apply andb_true_iff in Ec. destruct Ec as [Ec Et]. apply andb_true_iff in Ec. destruct Ec as [Ec Es].
  apply andb_true_iff in Ec. destruct Ec as [ET _]. apply str_eqb_eq in ET. apply str_eqb_eq in Et. subst T.
  rewrite (all_strs_map vs cs Ea). repeat split; try reflexivity; assumption.
Qed.

Lemma pa_mapM_choice_values : forall cs,
    forallb sv_stable cs = true ->
    pa_mapM get_value_expr (map set_value (map VStr cs)) = Ok (map (fun c => GV (VStr c)) cs).
Proof.
  induction cs as [|c cs IH]; intros H; [reflexivity|]. cbn [forallb] in H. apply andb_true_iff in H. destruct H as [Hc Hcs].
  cbn [map pa_mapM]. rewrite (sv_stable_set_value c Hc). cbn [get_value_expr none_to_NoneStr bind]. rewrite (IH Hcs). reflexivity.
Qed.

Lemma pa_mapM_choice_texts : forall cs,
    pa_mapM (fun g => match g with
                      | GV v => Ok (sq :: py_str v ++ [sq])
                      | GN _ => Err Unmodelled
                      end) (map (fun c => GV (VStr c)) cs)
    = Ok (map (fun c => sq :: c ++ [sq]) cs).
Proof.
  induction cs as [|c cs IH]; [reflexivity|]. cbn [map pa_mapM py_str bind]. rewrite IH. reflexivity.
Qed.

Lemma handle_keyword_choices : forall cs,
    forallb sv_stable cs = true ->
    handle_keyword (ETuple (map set_value (map VStr cs))) (L "str") = Ok (literal_text cs).
Proof.
  intros cs H. unfold handle_keyword. cbn [bind]. rewrite (pa_mapM_choice_values cs H). cbn [bind].
  change (in_simple_types (L "str")) with true. change (str_eqb (L "str") (L "str")) with true. cbv iota.
  rewrite pa_mapM_choice_texts. reflexivity.
Qed.

Lemma str_default_ok_C04_inv : forall d,
    str_default_ok_C04 d = true ->
    exists s0, d = Some (DV (VStr s0)) /\ sv_stable s0 = true /\ code_quoted s0 = false /\ in_none_types (VStr s0) = false.
Proof.
  intros d H. unfold str_default_ok_C04 in H. destruct d as [[v|ex|o]|]; try discriminate H.
  destruct v as [| | | |s0]; try discriminate H. exists s0.
  apply andb_true_iff in H. destruct H as [H H3]. apply andb_true_iff in H. destruct H as [H1 H2].
  apply negb_true_iff in H2. apply negb_true_iff in H3. repeat split; assumption.
Qed.

Lemma scalar_facts_str : scalar_facts (L "str").
Proof. apply scalar4_facts. reflexivity. Qed.

Lemma parse_out_kws_literal : forall n cs help s0 rd,
    forallb sv_stable cs = true ->
    match help with Some h => no_announce h = true /\ sv_stable h = true | None => True end ->
    sv_stable s0 = true ->
    parse_out_param (option_arg n) (kws_of None (Some (map VStr cs)) None help true (Some (VStr s0))) rd false
    = Ok (n, mkG (match help with Some h => Has h | None => FNone end) (Has (literal_text cs)) (Some (DV (VStr s0)))).
Proof.
  intros n cs help s0 rd Hcs Hhelp Hs0.
  destruct (find_kws None (Some (map VStr cs)) None help true (Some (VStr s0))) as [K1 [K2 [K3 [K4 [K5 K6]]]]].
  unfold parse_out_param. rewrite K1, K2, K3, K4, K5, K6.
  cbn [option_map bind option_arg get_value_expr none_to_NoneStr set_value].
  change (skipn 2 (L "--" ++ n)) with n.
  rewrite (sv_stable_str s0 Hs0). cbn [get_value_expr none_to_NoneStr bind negb].
  rewrite (handle_keyword_choices cs Hcs).
  destruct help as [h|].
  - destruct Hhelp as [_ Hsvh]. cbn [option_map]. rewrite (sv_stable_set_value h Hsvh).
    cbn [get_value_expr none_to_NoneStr bind dval_of_gval truthy_gval truthy negb andb]. reflexivity.
  - cbn [option_map bind dval_of_gval truthy_gval truthy negb andb]. reflexivity.
Qed.

Lemma param_codec_literal : forall pt edd n docf t d cs rd,
    plain_name_C04 n = true -> shape_of_typ t = None -> literal_of_typ t = Some cs ->
    help_ok_C04 (mkG docf (Has t) d) = true -> str_default_ok_C04 d = true ->
    exists c, param2argparse_param pt false edd n (mkG docf (Has t) d) = Ok (call_stmt c)
              /\ parse_out_param (fst c) (snd c) rd false = Ok (n, norm_param_C04 rd (mkG docf (Has t) d)).
Proof.
  intros pt edd n docf t d cs rd Hn Hsh Hlit Hhelp Hd.
  destruct (literal_of_typ_inv t cs Hlit) as [s [Hplan [HT [Hch [Hact [Hreq [Hcs Htext]]]]]]].
  destruct (str_default_ok_C04_inv d Hd) as [s0 [Ed [Hs0 [Hcq Hnn]]]]. subst d.
  unfold plain_name_C04 in Hn. apply negb_true_iff in Hn.
  pose proof (help_ok_inv _ _ _ Hhelp) as Hdoc.
  assert (Hemit : param2argparse_param pt false edd n (mkG docf (Has t) (Some (DV (VStr s0))))
                  = Ok (call_stmt (option_arg n,
                                   kws_of None (Some (map VStr cs)) None
                                          (prose_of (mkG docf (Has t) (Some (DV (VStr s0))))) true (Some (VStr s0))))).
  { apply (p2a_core pt edd n docf t (Some (DV (VStr s0))) (L "str") false (Some (map VStr cs)) true scalar_facts_str).
    - rewrite (resolve_arg_plan n docf t _ _ s Hplan Hn), Hact, Hch, HT. unfold req_of_plan. rewrite Hreq, HT. reflexivity.
    - exact Hdoc.
    - split; [reflexivity|]. repeat split; assumption. }
  eexists. split; [exact Hemit|]. cbn [fst snd].
  rewrite (parse_out_kws_literal n cs _ s0 rd Hcs).
  - rewrite Htext. unfold norm_param_C04. cbn [g_typ g_default]. rewrite Hsh. reflexivity.
  - unfold prose_of. cbn [g_doc]. destruct docf as [| |[|c r]]; try exact I. exact Hdoc.
  - exact Hs0.
Qed.

(* one option: emitted and read back, for either value of the require_default flag *)
Theorem param_codec_C04 : forall pt edd n g rd,
    param_ok_C04 (n, g) = true ->
    exists c, param2argparse_param pt false edd n g = Ok (call_stmt c)
              /\ parse_out_param (fst c) (snd c) rd false = Ok (n, norm_param_C04 rd g).
Proof.
  intros pt edd n [docf gt d] rd H. unfold param_ok_C04 in H. cbn [fst snd] in H.
  apply andb_true_iff in H. destruct H as [Hn Hg].
  destruct (gparam_ok_C04_inv docf gt d Hg) as [t [Egt [Hhelp [[sh [Hsh Hd]]|[Hsh [cs [Hlit Hd]]]]]]]; subst gt.
  - apply (param_codec_shape pt edd n docf t d sh rd Hn Hsh Hhelp Hd).
  - apply (param_codec_literal pt edd n docf t d cs rd Hn Hsh Hlit Hhelp Hd).
Qed.

Definition has_default (g : gparam) : bool := match g_default g with Some _ => true | None => false end.

Fixpoint rd_after (rd : bool) (ps : list (str * gparam)) : bool :=
  match ps with
  | [] => rd
  | (n, g) :: r => rd_after (rd || has_default (norm_param_C04 rd g)) r
  end.

Lemma ap_update_fresh : forall acc n p, ~ In n (keys acc) -> ap_update acc n p = acc ++ [(n, p)].
Proof.
  intros acc n p Hn. unfold ap_update.
  assert (Hg : od_get n acc = None) by (apply od_get_None_iff; exact Hn).
  rewrite Hg. apply od_set_keys_notin. exact Hn.
Qed.

Lemma argparse_step_call_eq : forall di fb st c n p,
    parse_out_param (fst c) (snd c) (ap_require_default st) false = Ok (n, p) ->
    argparse_step di fb st (call_stmt c)
    = Ok (mkAP (ap_update (ap_params st) n p) (ap_doc st) (ap_returns st)
               (ap_require_default st || match g_default p with Some _ => true | None => false end)).
Proof.
  intros di fb st c n p H. unfold argparse_step, call_stmt. cbn [argparse_stmt_declined].
  change (str_eqb (L "add_argument") (L "add_argument") && str_eqb (L "argument_parser") (L "argument_parser")) with true.
  cbv iota. rewrite H. reflexivity.
Qed.

(* all the options: the loop appends the closed form, threading the flag *)
Theorem argparse_loop_codec : forall pt edd di fb l acc doc ret rd,
    forallb param_ok_C04 l = true -> NoDup (keys acc ++ map fst l) ->
    exists calls,
      map_outcome (fun kv => param2argparse_param pt false edd (fst kv) (snd kv)) l = Ok (map call_stmt calls)
      /\ forall rest,
        argparse_loop di fb (mkAP acc doc ret rd) (map call_stmt calls ++ rest)
        = argparse_loop di fb (mkAP (acc ++ norm_params_C04 rd l) doc ret (rd_after rd l)) rest.
Proof.
  intros pt edd di fb l. induction l as [|[n g] l IH]; intros acc doc ret rd Hok Hnd.
  - exists []. split; [reflexivity|]. intros rest. cbn [map app norm_params_C04 rd_after]. rewrite app_nil_r. reflexivity.
  - cbn [forallb] in Hok. apply andb_true_iff in Hok. destruct Hok as [Hg Hl].
    destruct (param_codec_C04 pt edd n g rd Hg) as [c [Hemit Hparse]].
    assert (Hfresh : ~ In n (keys acc)).
    { intros Hin. cbn [map fst] in Hnd. apply NoDup_remove_2 in Hnd. apply Hnd. apply in_or_app. left. exact Hin. }
    destruct (IH (acc ++ [(n, norm_param_C04 rd g)]) doc ret (rd || has_default (norm_param_C04 rd g)) Hl) as [calls [Hcalls Hloop]].
    { unfold keys in *. rewrite map_app. cbn [map fst]. rewrite <- app_assoc. exact Hnd. }
    exists (c :: calls). split.
    + cbn [map_outcome fst snd]. rewrite Hemit. cbn [bind]. rewrite Hcalls. reflexivity.
    + intros rest. cbn [map List.app argparse_loop].
      rewrite (argparse_step_call_eq di fb (mkAP acc doc ret rd) c n _ Hparse). cbn [bind ap_params ap_doc ap_returns ap_require_default].
      rewrite (ap_update_fresh acc n _ Hfresh). fold (has_default (norm_param_C04 rd g)).
      rewrite Hloop. cbn [norm_params_C04 rd_after]. fold (has_default (norm_param_C04 rd g)).
      rewrite <- app_assoc. reflexivity.
Qed.

(* ---- the comparison ---- *)

Lemma shape_expressible : forall n t sh, shape_of_typ t = Some sh -> argparse_expressible n t = true.
Proof.
  intros n t sh H. destruct (shape_of_typ_inv t sh H) as [s [_ [_ [_ [_ [_ [Hsc [Hao Htyp]]]]]]]].
  subst t. destruct sh as [T a o]. cbn [sh_T sh_append sh_optional] in *. unfold typ_of_shape. cbn [sh_T sh_append sh_optional].
  destruct (scalar4_cases T Hsc) as [E|[E|[E|E]]]; subst T; destruct a, o; try discriminate Hao; reflexivity.
Qed.

Lemma opt_str_eqb_refl_C04 : forall o, C02Spec.opt_str_eqb o o = true.
Proof. intros [s|]; [apply str_eqb_refl|reflexivity]. Qed.

Lemma same_param_norm_C04 : forall rd g,
    gparam_ok_C04 g = true -> same_param g (norm_param_C04 rd g) = true.
Proof.
  intros rd [docf gt d] Hg.
  destruct (gparam_ok_C04_inv docf gt d Hg) as [t [Egt [Hhelp [[sh [Hsh Hd]]|[Hsh [cs [Hlit Hd]]]]]]]; subst gt.
  - destruct (shape_of_typ_inv t sh Hsh) as [s [_ [_ [_ [_ [_ [Hsc [Hao Htyp]]]]]]]].
    pose proof (scalar4_facts _ Hsc) as F. destruct (sf_zero _ F) as [z Hz].
    pose proof (default_ok_C04_inv sh d Hd) as Hdd.
    unfold norm_param_C04. cbn [g_typ g_default]. rewrite Hsh. unfold same_param.
    apply andb_true_iff. split; [apply andb_true_iff; split|].
    + unfold same_typ. cbn [g_typ fget]. apply str_eqb_refl.
    + unfold same_prose, help_fld, prose_of. cbn [g_doc]. destruct docf as [| |[|c r]]; cbn [C02Spec.opt_str_eqb]; try reflexivity.
      apply str_eqb_refl.
    + unfold default_ok. cbn [g_default g_typ fget].
      destruct d as [[v|ex|o]|]; try contradiction.
      * unfold same_default. cbn [dval_eqb]. rewrite EmitAstFacts.pyval_eqb_refl. apply orb_true_r.
      * destruct Hdd as [Hap Hob]. destruct (sh_optional sh) eqn:Eo.
        -- destruct rd; reflexivity.
        -- (* not optional, not append: the type text is the scalar itself *)
           assert (Et : t = sh_T sh).
           { rewrite <- Htyp. unfold typ_of_shape. rewrite Hap, Eo. reflexivity. }
           unfold zero_of_typ, zero_dval. rewrite Et, Hz. cbn [option_map dval_eqb].
           rewrite EmitAstFacts.pyval_eqb_refl. apply orb_true_r.
  - destruct (str_default_ok_C04_inv d Hd) as [s0 [Ed _]]. subst d.
    unfold norm_param_C04. cbn [g_typ g_default]. rewrite Hsh. unfold same_param.
    apply andb_true_iff. split; [apply andb_true_iff; split|].
    + unfold same_typ. cbn [g_typ fget]. apply str_eqb_refl.
    + unfold same_prose, help_fld, prose_of. cbn [g_doc]. destruct docf as [| |[|c r]]; cbn [C02Spec.opt_str_eqb]; try reflexivity.
      apply str_eqb_refl.
    + unfold default_ok. cbn [g_default]. unfold same_default. cbn [dval_eqb pyval_eqb]. rewrite str_eqb_refl. apply orb_true_r.
Qed.

Lemma same_params_norm_C04 : forall l rd,
    forallb param_ok_C04 l = true ->
    forallb (fun kv => match fget (g_typ (snd kv)) with
                       | Some t => argparse_expressible (fst kv) t
                       | None => true
                       end) l = true ->
    same_params same_param (map (fun kv => (fst kv, argparse_type_norm_param (fst kv) (snd kv))) l) (norm_params_C04 rd l) = true.
Proof.
  induction l as [|[n g] l IH]; intros rd H He; [reflexivity|].
  cbn [forallb] in H, He. apply andb_true_iff in H. destruct H as [Hg Hl]. apply andb_true_iff in He. destruct He as [Heg Hel].
  unfold param_ok_C04 in Hg. cbn [fst snd] in Hg, Heg. apply andb_true_iff in Hg. destruct Hg as [_ Hg].
  cbn [map norm_params_C04 same_params fst snd]. rewrite str_eqb_refl. cbn [andb].
  assert (Hn : argparse_type_norm_param n g = g).
  { unfold argparse_type_norm_param. destruct (g_typ g) as [| |t]; try reflexivity. cbn [fget] in Heg. rewrite Heg. reflexivity. }
  rewrite Hn, (same_param_norm_C04 rd g Hg). cbn [andb]. apply IH; assumption.
Qed.

Lemma guard_C04_ast_inv : forall i,
    guard_C04_ast i = true ->
    NoDup (map fst (ir_params i)) /\ forallb param_ok_C04 (ir_params i) = true /\ return_with_default i = None
    /\ no_carried_body_C04 i = true /\ (exists d, ir_doc i = Has d /\ sv_stable d = true)
    /\ forallb (fun kv => match fget (g_typ (snd kv)) with
                          | Some t => argparse_expressible (fst kv) t
                          | None => true
                          end) (ir_params i) = true.
Proof.
  intros i H. unfold guard_C04_ast in H.
  apply andb_true_iff in H. destruct H as [H Hdoc]. apply andb_true_iff in H. destruct H as [H Hbody].
  apply andb_true_iff in H. destruct H as [H Hret]. apply andb_true_iff in H. destruct H as [Hdom Hp].
  unfold C04_domain in Hdom. apply andb_true_iff in Hdom. destruct Hdom as [Hd2 Hexp].
  unfold C02_domain in Hd2. apply andb_true_iff in Hd2. destruct Hd2 as [Hn _].
  split; [apply names_distinct_NoDup; exact Hn|]. split; [exact Hp|]. split; [|split; [exact Hbody|split; [|exact Hexp]]].
  - unfold return_ok_C04 in Hret. destruct (return_with_default i); [discriminate Hret|reflexivity].
  - unfold doc_ok_C04 in Hdoc. destruct (ir_doc i) as [| |d]; try discriminate Hdoc. exists d. split; [reflexivity|exact Hdoc].
Qed.

Lemma argparse_return_plain : forall pt i, return_with_default i = None -> argparse_return pt i = Ok (SReturn (Some argparser)).
Proof.
  intros pt i H. unfold argparse_return, returns_param. unfold return_with_default in H.
  destruct (ir_returns i) as [| |r]; cbn [fget]; try reflexivity.
  destruct (g_default r); [discriminate H|reflexivity].
Qed.

(* inside guard_C04_ast (word_wrap and wrap_description off, a function name and type given): the emitter succeeds,
   the parser succeeds on what it emitted; the description comes back, the parameters come back as the closed form
   norm_params_C04 (one per add_argument call, in order), which is the same interface as the input *)
Theorem C04_ast_partial_lemma : forall pt i edd fc fr tc tr ds di ft' fnm,
    guard_C04_ast i = true ->
    exists s i',
      emit_argparse pt i edd (Some (fc :: fr)) (Some (tc :: tr)) false false (Ok ds) = Ok (s, i)
      /\ parse_argparse_ast (Ok di) s ft' fnm = Ok i'
      /\ ir_params i' = norm_params_C04 false (ir_params i)
      /\ ir_doc i' = ir_doc i
      /\ ir_returns i' = Missing
      /\ same_interface_argparse (argparse_type_norm i) i' = true.
Proof.
  intros pt i edd fc fr tc tr ds di ft' fnm Hg.
  destruct (guard_C04_ast_inv i Hg) as [Hnd [Hpok [Hret [Hbody [[d [Hdoc Hsv]] Hexp]]]]].
  destruct (argparse_loop_codec pt edd di
              (SExpr (EConst (VStr (set_value_str (indent tab ds ++ tab)))) :: description_assign (VStr d)
                     :: [] ++ [] ++ [SReturn (Some argparser)])
              (ir_params i) [] (Has (set_value_str d)) Missing false Hpok Hnd) as [calls [Hcalls _]].
  (* the emitter *)
  assert (Hemit : emit_argparse pt i edd (Some (fc :: fr)) (Some (tc :: tr)) false false (Ok ds)
                  = Ok (SFunc (fc :: fr) (mkArguments [set_arg (L "argument_parser") None] [] [] [] None None)
                              (SExpr (EConst (VStr (set_value_str (indent tab ds ++ tab))))
                                     :: description_assign (VStr d)
                                     :: map call_stmt calls ++ [] ++ [SReturn (Some argparser)]) [] None, i)).
  { unfold emit_argparse. cbn [py_or bind].
    assert (Hib : get_internal_body (Some (fc :: fr)) (Some (tc :: tr)) i = Ok []).
    { unfold get_internal_body. unfold no_carried_body_C04 in Hbody. destruct (ir_internal i) as [it|]; [|reflexivity].
      destruct (in_body it); [reflexivity|discriminate Hbody]. }
    rewrite Hib. cbn [bind]. rewrite Hdoc. cbn [fill_if bind]. rewrite Hcalls. cbn [bind argparse_body_skip].
    change (last_is_return []) with false. cbv iota. rewrite (argparse_return_plain pt i Hret). reflexivity. }
  (* the parser *)
  destruct (argparse_loop_codec pt edd di
              (SExpr (EConst (VStr (set_value_str (indent tab ds ++ tab)))) :: description_assign (VStr d)
                     :: map call_stmt calls ++ [] ++ [SReturn (Some argparser)])
              (ir_params i) [] (Has (set_value_str d)) Missing false Hpok Hnd) as [calls' [Hcalls' Hloop]].
  rewrite Hcalls in Hcalls'. inversion Hcalls' as [Hcc]. rewrite <- Hcc in Hloop.
  eexists. eexists. split; [exact Hemit|].
  rewrite parse_argparse_on_emitted. cbn [argparse_loop].
  assert (Hdesc : forall fb st, argparse_step di fb st (description_assign (VStr d))
                                = Ok (mkAP (ap_params st) (Has (set_value_str d)) (ap_returns st) (ap_require_default st))).
  { intros fb st. unfold description_assign, argparse_step, set_value. cbn [argparse_stmt_declined].
    change (str_eqb (L "description") (L "description") && str_eqb (L "argument_parser") (L "argument_parser")) with true.
    reflexivity. }
  rewrite Hdesc. cbn [bind ap_params ap_returns ap_require_default].
  rewrite Hloop. cbn [List.app argparse_loop argparse_step argparse_stmt_declined bind].
  split; [reflexivity|]. cbn [ir_params ir_doc ir_returns].
  split; [reflexivity|]. split; [rewrite (sv_stable_str d Hsv), Hdoc; reflexivity|]. split; [reflexivity|].
  unfold same_interface_argparse. cbn [ir_params ir_doc ir_returns].
  apply andb_true_iff. split; [apply andb_true_iff; split|].
  - unfold same_description, argparse_type_norm. cbn [ir_doc]. rewrite Hdoc, (sv_stable_str d Hsv). apply str_eqb_refl.
  - unfold argparse_type_norm. cbn [ir_params]. apply same_params_norm_C04; assumption.
  - assert (Hr : return_with_default (argparse_type_norm i) = None) by exact Hret. rewrite Hr. reflexivity.
Qed.

(* ================================================================== *)
(* Part 5: refutation, witnesses, non-vacuity                            *)
(* ================================================================== *)

Definition w4 (n : str) (g : gparam) : ir := mkIR FNone (Has (L "static")) (Has (L "Doc.")) [(n, g)] FNone None.
Definition PG4 (doc t : str) (d : option dval) : gparam := mkG (Has doc) (Has t) d.

Definition w4_untyped := w4 (L "x") (mkG (Has (L "the x")) Missing (Some (DV (VInt 5)))).
Definition w4_none := w4 (L "x") (PG4 (L "the x") (L "Optional[int]") (Some (DV VNone))).
Definition w4_code := w4 (L "x") (PG4 (L "the x") (L "int") (Some (DV (VStr (L "```5```"))))).
Definition w4_quoted := w4 (L "x") (PG4 (L "the x") (L "str") (Some (DV (VStr (L "'a'"))))).
Definition w4_mismatch := w4 (L "x") (PG4 (L "the x") (L "int") (Some (DV (VFloat (L "2.5"))))).
Definition w4_bool := w4 (L "x") (PG4 (L "the x") (L "bool") None).
Definition w4_list := w4 (L "x") (PG4 (L "the x") (L "List[int]") None).
Definition w4_literal := w4 (L "x") (PG4 (L "the x") (L "Literal['a', 'b']") None).
Definition w4_single := w4 (L "x") (PG4 (L "the x") (L "Literal['a']") (Some (DV (VStr (L "a"))))).
Definition w4_announces := w4 (L "x") (PG4 (L "the x. Defaults to 5") (L "int") None).
Definition w4_ret :=
  mkIR FNone (Has (L "static")) (Has (L "Doc.")) [(L "x", PG4 (L "the x") (L "int") None)]
       (Has (mkG (Has (L "the result")) (Has (L "int")) (Some (DV (VStr (L "```5```")))))) None.

Definition o4 := mkO04 false false false.
Definition fails4 (w : ir) : bool := negb (C04_ast_holds_b [] w false false false).

(* the statement at full strength is false of the faithful model: bool without default comes back Optional[bool] *)
Theorem C04_refuted_lemma : ~ C04_ast_statement.
Proof.
  intros H.
  specialize (H [] w4_bool false (Some (L "set_cli_args")) (Some (L "static")) false false (L "Doc.") empty_doc_ir None None eq_refl).
  destruct H as [s [i0 [i' [He [Hp Hs]]]]].
  vm_compute in He. injection He as Hs0 _. subst s.
  vm_compute in Hp. injection Hp as Hp. subst i'. vm_compute in Hs. discriminate Hs.
Qed.

(* one witness per finding class of finding_class_C04 that is visible at the AST level with wrapping off: the
   classifier names the class, the IR is in C04_domain, outside guard_C04_ast, and the composition fails on it *)
Definition c04_witnesses : list (c04_class * ir) :=
  [(K4_untyped, w4_untyped); (K4_none_default, w4_none); (K4_code_default, w4_code);
   (K4_str_default_quoted, w4_quoted); (K4_default_type_mismatch, w4_mismatch);
   (K4_bool_without_default, w4_bool); (K4_list_without_default, w4_list);
   (K4_literal_without_default, w4_literal); (K4_literal_single_choice, w4_single);
   (K4_prose_announces, w4_announces)].

Definition c04_witness_ok (kw : c04_class * ir) : bool :=
  match finding_class_C04 o4 (snd kw) with
  | Some k => str_eqb (c04_class_name k) (c04_class_name (fst kw))
  | None => false
  end && C04_domain (snd kw) && negb (guard_C04_ast (snd kw)) && fails4 (snd kw).

Theorem C04_witnesses_lemma : forallb c04_witness_ok c04_witnesses = true.
Proof. vm_compute. reflexivity. Qed.

(* the return entry with a default: with the docstring IR of the emitted docstring, the default comes back as the
   repr of the code-quoted string *)
Definition di_ret : ir :=
  mkIR FNone (Has (L "static")) (Has (L "Set CLI arguments"))
       [(L "argument_parser", mkG (Has (L "argument parser")) (Has (L "ArgumentParser")) None)]
       (Has (mkG (Has (L "argument_parser, the result")) (Has (L "Tuple[ArgumentParser, int]")) None)) None.
Definition ds_ret : str :=
  L "Set CLI arguments" ++ [nl; nl] ++ L ":param argument_parser: argument parser" ++ [nl]
    ++ L ":type argument_parser: ```ArgumentParser```" ++ [nl; nl] ++ L ":returns: argument_parser, the result" ++ [nl]
    ++ L ":rtype: ```Tuple[ArgumentParser, int]```" ++ [nl].

Theorem C04_return_requoted_witness :
  option_map c04_class_name (finding_class_C04 o4 w4_ret) = Some (L "return-default-requoted")
  /\ C04_domain w4_ret = true
  /\ match emit_argparse [] w4_ret false (Some (L "set_cli_args")) (Some (L "static")) false false (Ok ds_ret) with
     | Ok (s, _) =>
       match parse_argparse_ast (Ok di_ret) s None None with
       | Ok i' => option_map g_default (fget (ir_returns i')) = Some (Some (DV (VStr (L "'```5```'"))))
                  /\ same_interface_argparse (argparse_type_norm w4_ret) i' = false
       | Err _ => False
       end
     | Err _ => False
     end.
Proof. vm_compute. repeat split; reflexivity. Qed.

(* non-vacuity: every shape the theorem covers, with the require_default flag changing along the way *)
Definition w4_ok : ir :=
  mkIR (Has (L "f")) (Has (L "static")) (Has (L "Set the options."))
    [(L "a", PG4 (L "first.") (L "Optional[int]") None);
     (L "b", PG4 (L "second") (L "int") None);
     (L "c", PG4 (L "third") (L "Optional[float]") None);
     (L "d", PG4 (L "4") (L "str") (Some (DV (VStr (L "mnist")))));
     (L "e", PG4 (L "5") (L "List[int]") (Some (DV (VInt (-5)))));
     (L "f", PG4 (L "6") (L "bool") (Some (DV (VBool false))));
     (L "g", PG4 (L "7") (L "Optional[str]") (Some (DV (VStr []))));
     (L "h", mkG Missing (Has (L "float")) (Some (DV (VFloat (L "-0.0")))));
     (L "k", PG4 (L "9") (L "List[str]") (Some (DV (VStr (L "x")))));
     (L "l", mkG FNone (Has (L "Optional[bool]")) None);
     (L "m", PG4 (L "11") (L "Literal['sgd', 'adam']") (Some (DV (VStr (L "adam")))))]
    (Has (mkG (Has (L "the result")) (Has (L "int")) None)) None.

Theorem C04_nonvacuous_lemma :
  guard_C04_ast w4_ok = true
  /\ guard_C04 (mkO04 false false false) w4_ok = true /\ guard_C04 (mkO04 true false false) w4_ok = true
  /\ C04_ast_holds_b [] w4_ok false false false = true /\ C04_ast_holds_b [] w4_ok true false false = true
  /\ map (fun kv => g_default (snd kv)) (norm_params_C04 false (ir_params w4_ok))
     = [None; Some (DV (VInt 0)); Some (DV (VStr NoneStr)); Some (DV (VStr (L "mnist"))); Some (DV (VInt (-5)));
        Some (DV (VBool false)); Some (DV (VStr [])); Some (DV (VFloat (L "-0.0"))); Some (DV (VStr (L "x")));
        Some (DV (VStr NoneStr)); Some (DV (VStr (L "adam")))].
Proof. vm_compute. repeat split; reflexivity. Qed.
