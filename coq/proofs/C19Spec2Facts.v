(* Facts about the refined C19 classifier (model/C19Spec2.v): the refinement keeps every old class and only adds the two
   interface classes where the old classifier is silent; each new class has one shape; the witnesses (replayed on /repo by
   the oracle: findings/C19-entry-documented-attribute-reordered.json, C19-entry-nested-class-init-merged.json) are
   classified, their neighbours are not. *)
From Coq Require Import List Ascii Bool Arith ZArith.
From Coq Require String.
Import String.StringSyntax.
From DT Require Import PyStr PyStrFacts Sexp PyVal Gen C19Spec C19Spec2.
Import ListNotations.

(* ------------------------------------------------------------------ the refinement only adds *)
Lemma new_class_C19_new : forall shapes f c,
    new_class_C19 shapes f = Some c -> c = K19r_nested_init_merged \/ c = K19r_documented_attribute_reordered.
Proof.
  intros shapes f c H. unfold new_class_C19 in H.
  destruct f as [f|]; [|discriminate H].
  destruct (nth_error shapes (if_entry f)) as [s|]; [|discriminate H].
  destruct (nested_init_merged s f); [injection H as H; left; symmetry; exact H|].
  destruct (documented_attribute_reordered s f); [injection H as H; right; symmetry; exact H|discriminate H].
Qed.

Lemma finding_class_C19_r_adds : forall ps x shapes f c,
    finding_class_C19_r ps x shapes f = Some c ->
    (exists k, finding_class_C19 ps x = Some k /\ c = K19r_old k)
    \/ (finding_class_C19 ps x = None
        /\ ((conversion_failed x = false /\ (c = K19r_nested_init_merged \/ c = K19r_documented_attribute_reordered))
            \/ (conversion_failed x = true /\ c = K19r_annotated_documented_class))).
Proof.
  intros ps x shapes f c H. unfold finding_class_C19_r in H.
  destruct (finding_class_C19 ps x) as [k|].
  - left. exists k. injection H as H. split; [reflexivity|symmetry; exact H].
  - right. split; [reflexivity|]. destruct (conversion_failed x).
    + right. split; [reflexivity|]. unfold conversion_class_C19 in H.
      destruct (first_failed_shape (entries_of (ci_gen x)) (ci_feats x) shapes) as [[ff s]|]; [|discriminate H].
      destruct (annotated_documented_class (gi_type (ci_gen x)) ff s); [|discriminate H].
      injection H as H. symmetry. exact H.
    + left. split; [reflexivity|]. apply new_class_C19_new with (shapes := shapes) (f := f). exact H.
Qed.

(* the third addition carries the name of the old class it widens: no new KNOWN_FINDINGS line *)
Lemma annotated_documented_class_name :
  c19_class_r_name K19r_annotated_documented_class = class_name K_entry_annotated.
Proof. reflexivity. Qed.

Lemma finding_class_C19_r_old : forall ps x shapes f k,
    finding_class_C19 ps x = Some k -> finding_class_C19_r ps x shapes f = Some (K19r_old k).
Proof. intros ps x shapes f k H. unfold finding_class_C19_r. rewrite H. reflexivity. Qed.

(* the name of a kept class is the old name: KNOWN_FINDINGS lines of the old classes stay valid *)
Lemma c19_class_r_name_old : forall k, c19_class_r_name (K19r_old k) = class_name k.
Proof. reflexivity. Qed.

(* the refined region is inside the old one *)
Lemma guard_C19_r_inside : forall ps x shapes f, guard_C19_r ps x shapes f = true -> guard_C19 ps x = true.
Proof. intros ps x shapes f H. unfold guard_C19_r in H. apply andb_true_iff in H. destruct H as [H _]. exact H. Qed.

(* inside the old guard (every entry converted, or an existing output) and without a failed interface clause the
   refinement says nothing new *)
Lemma guard_C19_r_no_failure : forall ps x shapes, guard_C19_r ps x shapes None = guard_C19 ps x.
Proof.
  intros ps x shapes. unfold guard_C19_r. destruct (guard_C19 ps x) eqn:G; [|reflexivity].
  cbn [andb]. unfold guard_C19 in G. apply andb_true_iff in G. destruct G as [G Hem].
  apply andb_true_iff in G. destruct G as [_ Hc].
  unfold finding_class_C19_r. destruct (finding_class_C19 ps x) as [k|]; [discriminate Hc|].
  unfold conversion_failed. destruct (ci_existing x) as [old|]; cbn [is_some orb] in Hem.
  - reflexivity.
  - rewrite Hem. reflexivity.
Qed.

(* ------------------------------------------------------------------ each new class: one shape *)
Lemma nested_init_class_shape : forall ps x shapes f,
    finding_class_C19_r ps x shapes (Some f) = Some K19r_nested_init_merged ->
    finding_class_C19 ps x = None
    /\ exists s d, nth_error shapes (if_entry f) = Some s
                   /\ es_is_class s = true /\ has_own_init s = false
                   /\ merged_init s = Some d /\ 1 < d_depth d
                   /\ strs_eqb (if_got f) (listed_by_merge s d) = true
                   /\ strs_eqb (if_got f) (listed_by_property s (if_want f)) = false.
Proof.
  intros ps x shapes f H. unfold finding_class_C19_r in H.
  destruct (finding_class_C19 ps x) as [k|]; [discriminate H|]. split; [reflexivity|].
  destruct (conversion_failed x).
  { unfold conversion_class_C19 in H.
    destruct (first_failed_shape (entries_of (ci_gen x)) (ci_feats x) shapes) as [[ff s0]|]; [|discriminate H].
    destruct (annotated_documented_class (gi_type (ci_gen x)) ff s0); discriminate H. }
  unfold new_class_C19 in H. destruct (nth_error shapes (if_entry f)) as [s|]; [|discriminate H].
  destruct (nested_init_merged s f) eqn:E.
  - unfold nested_init_merged in E. apply andb_true_iff in E. destruct E as [E Em].
    apply andb_true_iff in E. destruct E as [Hc Ho]. apply negb_true_iff in Ho.
    destruct (merged_init s) as [d|] eqn:Emi; [|discriminate Em].
    apply andb_true_iff in Em. destruct Em as [Em Hne]. apply andb_true_iff in Em. destruct Em as [Hd Hg].
    apply Nat.ltb_lt in Hd. apply negb_true_iff in Hne.
    exists s, d.
    split; [reflexivity|]. split; [exact Hc|]. split; [exact Ho|]. split; [exact Emi|].
    split; [exact Hd|]. split; [exact Hg|exact Hne].
  - destruct (documented_attribute_reordered s f); discriminate H.
Qed.

Lemma documented_attribute_class_shape : forall ps x shapes f,
    finding_class_C19_r ps x shapes (Some f) = Some K19r_documented_attribute_reordered ->
    finding_class_C19 ps x = None
    /\ exists s d, nth_error shapes (if_entry f) = Some s
                   /\ es_is_class s = true /\ has_own_init s = true
                   /\ merged_init s = Some d /\ d_depth d = 1
                   /\ strs_eqb (params_of_def d) (if_want f) = true
                   /\ existsb (fun n => mem_s n (if_want f)) (es_cvars s) = true
                   /\ strs_eqb (if_got f) (listed_by_merge s d) = true
                   /\ strs_eqb (if_got f) (listed_by_property s (if_want f)) = false.
Proof.
  intros ps x shapes f H. unfold finding_class_C19_r in H.
  destruct (finding_class_C19 ps x) as [k|]; [discriminate H|]. split; [reflexivity|].
  destruct (conversion_failed x).
  { unfold conversion_class_C19 in H.
    destruct (first_failed_shape (entries_of (ci_gen x)) (ci_feats x) shapes) as [[ff s0]|]; [|discriminate H].
    destruct (annotated_documented_class (gi_type (ci_gen x)) ff s0); discriminate H. }
  unfold new_class_C19 in H. destruct (nth_error shapes (if_entry f)) as [s|]; [|discriminate H].
  destruct (nested_init_merged s f); [discriminate H|].
  destruct (documented_attribute_reordered s f) eqn:E; [|discriminate H].
  unfold documented_attribute_reordered in E. apply andb_true_iff in E. destruct E as [E Em].
  apply andb_true_iff in E. destruct E as [Hc Ho].
  destruct (merged_init s) as [d|] eqn:Emi; [|discriminate Em].
  apply andb_true_iff in Em. destruct Em as [Em Hne]. apply andb_true_iff in Em. destruct Em as [Em Hg].
  apply andb_true_iff in Em. destruct Em as [Em Hx]. apply andb_true_iff in Em. destruct Em as [Hd Hw].
  apply Nat.eqb_eq in Hd. apply negb_true_iff in Hne.
  exists s, d.
  split; [reflexivity|]. split; [exact Hc|]. split; [exact Ho|]. split; [exact Emi|].
  split; [exact Hd|]. split; [exact Hw|]. split; [exact Hx|]. split; [exact Hg|exact Hne].
Qed.

(* a class with an __init__ of its own whose docstring names no parameter of it is in neither class *)
Lemma disjoint_cvars_unclassified : forall s f,
    has_own_init s = true -> existsb (fun n => mem_s n (if_want f)) (es_cvars s) = false ->
    nested_init_merged s f = false /\ documented_attribute_reordered s f = false.
Proof.
  intros s f Ho Hx. split.
  - unfold nested_init_merged. rewrite Ho. cbn [negb]. rewrite andb_false_r. reflexivity.
  - unfold documented_attribute_reordered. destruct (merged_init s) as [d|]; [|rewrite andb_false_r; reflexivity].
    rewrite Hx. repeat rewrite andb_false_r. cbn [andb]. repeat rewrite andb_false_r. reflexivity.
Qed.

(* ------------------------------------------------------------------ witnesses *)
(* a run on a fresh output in which every entry was converted: the old classifier is silent *)
Definition x_fresh (key : String.string) (text : String.string) : c19_in :=
  mkC19 ViaApi
        (mkGenIn (L "{name}Config") (L "m.M") (GOk [mkEntry (L key) false (Emitted (L text))]) (L "class") None None None
                 (mkOpts false true None))
        None [mkFeat false true 3 1 true false false] None.
Arguments x_fresh (key text)%string_scope.

Lemma all_emitted_fresh_unclassified : forall ps x,
    ci_existing x = None -> forallb is_emitted (entries_of (ci_gen x)) = true -> finding_class_C19 ps x = None.
Proof. intros ps x He Ha. unfold finding_class_C19. rewrite He, Ha. reflexivity. Qed.

(* --- 4. :cvar registry: :cvar epochs: + __init__(self, dataset, epochs, batch_size) *)
Definition w4_shape : entry_shape :=
  mkShape true [L "registry"; L "epochs"]
          [mkDef 1 init_name [L "self"; L "dataset"; L "epochs"; L "batch_size"]].
Definition w4_want : list str := [L "dataset"; L "epochs"; L "batch_size"].
Definition w4_fail : iface_failure := mkIF 0 [L "registry"; L "epochs"; L "dataset"; L "batch_size"] w4_want.
Definition w4_x : c19_in := x_fresh "Trainer" "class TrainerConfig(object): ...".

Lemma w4_classified : forall ps,
    finding_class_C19 ps w4_x = None
    /\ finding_class_C19_r ps w4_x [w4_shape] (Some w4_fail) = Some K19r_documented_attribute_reordered.
Proof.
  intro ps. assert (H : finding_class_C19 ps w4_x = None) by (apply all_emitted_fresh_unclassified; reflexivity).
  split; [exact H|]. unfold finding_class_C19_r. rewrite H. vm_compute. reflexivity.
Qed.

(* --- the widened old class: `:cvar k:` + an annotated __init__(self, k: int, x: str = ...), type class: SyntaxError *)
Definition w6_x (ty : str) (annotated : bool) : c19_in :=
  mkC19 ViaApi
        (mkGenIn (L "{name}Config") (L "m.M") (GOk [mkEntry (L "C") false (EmitRaises (L "SyntaxError"))]) ty None None None
                 (mkOpts false true None))
        None [mkFeat false true 2 1 true annotated false] None.
Definition w6_shape : entry_shape := mkShape true [L "k"] [mkDef 1 init_name [L "self"; L "k"; L "x"]].

Lemma w6_classified : forall ps,
    finding_class_C19 ps (w6_x (L "class") true) = None
    /\ finding_class_C19_r ps (w6_x (L "class") true) [w6_shape] None = Some K19r_annotated_documented_class.
Proof. intro ps. split; vm_compute; reflexivity. Qed.

(* neighbours: no annotations; the class docstring documents no parameter of __init__; type argparse *)
Lemma w6_neighbours_unclassified : forall ps,
    finding_class_C19_r ps (w6_x (L "class") false) [w6_shape] None = None
    /\ finding_class_C19_r ps (w6_x (L "class") true) [mkShape true [L "registry"] [mkDef 1 init_name [L "self"; L "k"; L "x"]]] None = None
    /\ finding_class_C19_r ps (w6_x (L "argparse") true) [w6_shape] None = None.
Proof. intro ps. repeat split; vm_compute; reflexivity. Qed.

(* neighbours: another order than the merge gives (what appending the missing parameters in hash order would list);
   the documented name is the first parameter (then the generated order IS the signature's: no failure, no class) *)
Lemma w4_other_order_unclassified :
  new_class_C19 [w4_shape] (Some (mkIF 0 [L "registry"; L "epochs"; L "batch_size"; L "dataset"] w4_want)) = None.
Proof. vm_compute. reflexivity. Qed.

Lemma w4_first_parameter_unclassified :
  new_class_C19 [mkShape true [L "registry"; L "dataset"]
                         [mkDef 1 init_name [L "self"; L "dataset"; L "epochs"; L "batch_size"]]]
                (Some (mkIF 0 [L "registry"; L "dataset"; L "epochs"; L "batch_size"] w4_want)) = None.
Proof. vm_compute. reflexivity. Qed.

(* a nested class with its own __init__ next to the class's own __init__ does not excuse anything: what taking the
   LAST __init__ of the walk would list stays unclassified *)
Lemma w4_nested_besides_own_unclassified :
  new_class_C19 [mkShape true [] [mkDef 2 init_name [L "self"; L "verbose"; L "colour"];
                                   mkDef 1 init_name [L "self"; L "width"; L "name"]]]
                (Some (mkIF 0 [L "width"; L "name"; L "verbose"; L "colour"] [L "width"; L "name"])) = None
  /\ new_class_C19 [mkShape true [] [mkDef 2 init_name [L "self"; L "verbose"; L "colour"];
                                      mkDef 1 init_name [L "self"; L "width"; L "name"]]]
                   (Some (mkIF 0 [L "verbose"; L "colour"] [L "width"; L "name"])) = None.
Proof. split; vm_compute; reflexivity. Qed.

(* --- 5. class Outer: class Options: def __init__(self, verbose=False, colour=...) and no __init__ of its own *)
Definition w5_shape : entry_shape :=
  mkShape true [] [mkDef 2 init_name [L "self"; L "verbose"; L "colour"]].
Definition w5_fail : iface_failure := mkIF 0 [L "verbose"; L "colour"] [].
Definition w5_x : c19_in := x_fresh "Outer" "class OuterConfig(object): ...".

Lemma w5_classified : forall ps,
    finding_class_C19 ps w5_x = None
    /\ finding_class_C19_r ps w5_x [w5_shape] (Some w5_fail) = Some K19r_nested_init_merged.
Proof.
  intro ps. assert (H : finding_class_C19 ps w5_x = None) by (apply all_emitted_fresh_unclassified; reflexivity).
  split; [exact H|]. unfold finding_class_C19_r. rewrite H. vm_compute. reflexivity.
Qed.

(* breadth first: of two nested __init__ the one of least depth, the earliest of a level *)
Lemma w5_breadth_first :
  merged_init (mkShape true [] [mkDef 3 init_name [L "self"; L "deep"];
                                mkDef 2 init_name [L "self"; L "verbose"; L "colour"];
                                mkDef 2 init_name [L "self"; L "second"];
                                mkDef 2 init_name [L "q"]])
  = Some (mkDef 2 init_name [L "self"; L "verbose"; L "colour"]).
Proof. vm_compute. reflexivity. Qed.

(* neighbours: the parameters of ANOTHER nested __init__ than the walk meets first; a class with nothing nested that is
   called __init__ (nothing is merged: the generated definition lists the documented attributes only) *)
Lemma w5_other_nested_unclassified :
  new_class_C19 [mkShape true [] [mkDef 2 init_name [L "self"; L "verbose"; L "colour"];
                                   mkDef 2 init_name [L "self"; L "second"]]]
                (Some (mkIF 0 [L "second"] [])) = None.
Proof. vm_compute. reflexivity. Qed.

Lemma w5_nothing_nested_unclassified :
  new_class_C19 [mkShape true [L "registry"] [mkDef 1 (L "build") [L "self"]]]
                (Some (mkIF 0 [L "registry"; L "x"] [])) = None.
Proof. vm_compute. reflexivity. Qed.

(* a function entry is in neither class *)
Lemma function_entry_unclassified : forall cv ds f, new_class_C19 [mkShape false cv ds] (Some (mkIF 0 f [])) = None.
Proof. intros cv ds f. unfold new_class_C19. cbn [nth_error if_entry]. unfold nested_init_merged, documented_attribute_reordered. reflexivity. Qed.
