(* LocateFacts: lemmas about Locate.v (annotate / find_in_ast / resolve) and the C15 lookup theorems. *)
From Coq Require Import List Ascii Bool Arith ZArith Lia.
From Coq Require String.
Import String.StringSyntax.
From DT Require Import PyStr Sexp PyVal PureUtils PyAst Locate C15Spec PyStrFacts.
Import ListNotations.

(* ------------------------------------------------------------------ induction principles (nested lists) *)
Section StmtInd.
  Variable P : stmt -> Prop.
  Hypothesis Hfunc : forall n a b d r, Forall P b -> P (SFunc n a b d r).
  Hypothesis Hclass : forall n bs b d, Forall P b -> P (SClass n bs b d).
  Hypothesis Hann : forall t a v, P (SAnnAssign t a v).
  Hypothesis Hassign : forall ts v, P (SAssign ts v).
  Hypothesis Hexpr : forall e, P (SExpr e).
  Hypothesis Hret : forall e, P (SReturn e).
  Hypothesis Hother : forall t h bl, Forall (Forall P) bl -> P (SOther t h bl).

  Fixpoint stmt_ind2 (s : stmt) : P s :=
    match s with
    | SFunc n a b d r =>
      Hfunc n a b d r ((fix go (l : list stmt) : Forall P l :=
                          match l with [] => Forall_nil _ | x :: r => Forall_cons _ (stmt_ind2 x) (go r) end) b)
    | SClass n bs b d =>
      Hclass n bs b d ((fix go (l : list stmt) : Forall P l :=
                          match l with [] => Forall_nil _ | x :: r => Forall_cons _ (stmt_ind2 x) (go r) end) b)
    | SAnnAssign t a v => Hann t a v
    | SAssign ts v => Hassign ts v
    | SExpr e => Hexpr e
    | SReturn e => Hret e
    | SOther t h bl =>
      Hother t h bl
             ((fix gob (l : list (list stmt)) : Forall (Forall P) l :=
                 match l with
                 | [] => Forall_nil _
                 | b :: r =>
                   Forall_cons _ ((fix go (l : list stmt) : Forall P l :=
                                     match l with [] => Forall_nil _ | x :: r => Forall_cons _ (stmt_ind2 x) (go r) end) b)
                               (gob r)
                 end) bl)
    end.
End StmtInd.

Section AStmtInd.
  Variable P : astmt -> Prop.
  Hypothesis Hfunc : forall i l n a b d r, Forall P b -> P (AFunc i l n a b d r).
  Hypothesis Hclass : forall i l n bs b d, Forall P b -> P (AClass i l n bs b d).
  Hypothesis Hann : forall i l t a v, P (AAnnAssign i l t a v).
  Hypothesis Hassign : forall i l ts v, P (AAssign i l ts v).
  Hypothesis Hexpr : forall i e, P (AExpr i e).
  Hypothesis Hret : forall i e, P (AReturn i e).
  Hypothesis Hother : forall i t h bl, Forall (Forall P) bl -> P (AOther i t h bl).
  Hypothesis Hargs : forall a, P (AArgS a).

  Fixpoint astmt_ind2 (s : astmt) : P s :=
    match s with
    | AFunc i l n a b d r =>
      Hfunc i l n a b d r ((fix go (l : list astmt) : Forall P l :=
                              match l with [] => Forall_nil _ | x :: r => Forall_cons _ (astmt_ind2 x) (go r) end) b)
    | AClass i l n bs b d =>
      Hclass i l n bs b d ((fix go (l : list astmt) : Forall P l :=
                              match l with [] => Forall_nil _ | x :: r => Forall_cons _ (astmt_ind2 x) (go r) end) b)
    | AAnnAssign i l t a v => Hann i l t a v
    | AAssign i l ts v => Hassign i l ts v
    | AExpr i e => Hexpr i e
    | AReturn i e => Hret i e
    | AOther i t h bl =>
      Hother i t h bl
             ((fix gob (l : list (list astmt)) : Forall (Forall P) l :=
                 match l with
                 | [] => Forall_nil _
                 | b :: r =>
                   Forall_cons _ ((fix go (l : list astmt) : Forall P l :=
                                     match l with [] => Forall_nil _ | x :: r => Forall_cons _ (astmt_ind2 x) (go r) end) b)
                               (gob r)
                 end) bl)
    | AArgS a => Hargs a
    end.
End AStmtInd.

(* ------------------------------------------------------------------ equality tests *)
Lemma list_eqb_eq : forall (A : Type) (f : A -> A -> bool),
    (forall a b, f a b = true <-> a = b) -> forall x y, list_eqb f x y = true <-> x = y.
Proof.
  intros A f Hf x. induction x as [|a x IH]; intros y; destruct y as [|b y]; simpl; split; intros H;
    try reflexivity; try discriminate.
  - apply andb_true_iff in H. destruct H as [H1 H2]. apply Hf in H1. apply IH in H2. subst. reflexivity.
  - inversion H; subst. apply andb_true_iff. split; [apply Hf; reflexivity | apply IH; reflexivity].
Qed.

Lemma loc_eqb_eq : forall a b, loc_eqb a b = true <-> a = b.
Proof. intros a b. unfold loc_eqb. apply list_eqb_eq. exact str_eqb_eq. Qed.

Lemma loc_eqb_refl : forall a, loc_eqb a a = true.
Proof. intros a. apply loc_eqb_eq. reflexivity. Qed.

Lemma loc_eqb_neq : forall a b, a <> b -> loc_eqb a b = false.
Proof. intros a b H. destruct (loc_eqb a b) eqn:E; [apply loc_eqb_eq in E; contradiction | reflexivity]. Qed.

Lemma nat_eqb_iff : forall a b : nat, Nat.eqb a b = true <-> a = b.
Proof. intros a b. apply Nat.eqb_eq. Qed.

Lemma path_eqb_eq : forall a b, path_eqb a b = true <-> a = b.
Proof. intros a b. unfold path_eqb. apply list_eqb_eq. exact nat_eqb_iff. Qed.

Lemma path_eqb_refl : forall a, path_eqb a a = true.
Proof. intros a. apply path_eqb_eq. reflexivity. Qed.

Lemma oloc_eqb_some : forall l s, oloc_eqb (Some l) s = loc_eqb l s.
Proof. reflexivity. Qed.

Lemma loc_eqb_length : forall a b, List.length a <> List.length b -> loc_eqb a b = false.
Proof. intros a b H. apply loc_eqb_neq. intros E. subst. apply H. reflexivity. Qed.

Lemma loc_eqb_snoc : forall p a b, loc_eqb (p ++ [a]) (p ++ [b]) = str_eqb a b.
Proof.
  intros p a b. destruct (str_eqb a b) eqn:E.
  - apply str_eqb_eq in E. subst. apply loc_eqb_refl.
  - apply loc_eqb_neq. intros H. apply app_inv_head in H. inversion H; subst.
    rewrite str_eqb_refl in E. discriminate.
Qed.

(* ------------------------------------------------------------------ annotate: shape lemmas *)
Lemma annotate_class_body : forall (n : str) (p : path) b j,
    (fix go (j : nat) (b : list stmt) : list astmt :=
       match b with [] => [] | x :: r => annotate_stmt [n] (p ++ [j]) x :: go (S j) r end) j b
    = annotate_body [n] p j b.
Proof. intros n p b. induction b as [|x r IH]; intros j; simpl; [reflexivity | rewrite IH; reflexivity]. Qed.

Lemma annotate_class : forall pname p n bs body d,
    annotate_stmt pname p (SClass n bs body d)
    = AClass p (Some (pname ++ [n])) n bs (annotate_body [n] p 0 body) d.
Proof. intros. simpl. rewrite annotate_class_body. reflexivity. Qed.

Lemma annotate_body_app : forall pname p a b j,
    annotate_body pname p j (a ++ b)
    = annotate_body pname p j a ++ annotate_body pname p (j + List.length a) b.
Proof.
  intros pname p a. induction a as [|x r IH]; intros b j; simpl.
  - rewrite Nat.add_0_r. reflexivity.
  - rewrite IH. replace (S j + List.length r) with (j + S (List.length r)) by lia. reflexivity.
Qed.

(* the _location of a freshly annotated statement, read off the PyAst statement *)
Definition plain_loc (pname : list str) (c : stmt) : option loc :=
  match c with
  | SFunc n _ _ _ _ => Some (pname ++ [n])
  | SClass n _ _ _ => Some (pname ++ [n])
  | SAnnAssign t _ _ => option_map (fun i => pname ++ [i]) (name_id t)
  | SAssign ts _ => option_map (fun i => pname ++ [i]) (assign_last_name ts None)
  | _ => None
  end.

Lemma stmt_loc_annotate : forall pname p c, stmt_loc (annotate_stmt pname p c) = plain_loc pname c.
Proof. intros pname p c. destruct c; reflexivity. Qed.

Lemma stmt_id_annotate : forall pname p c, stmt_id (annotate_stmt pname p c) = p.
Proof. intros pname p c. destruct c; reflexivity. Qed.

(* ------------------------------------------------------------------ erase after annotate *)
Lemma erase_annotate_args : forall floc p k idx l, map erase_arg (annotate_args floc p k idx l) = l.
Proof.
  intros floc p k idx l. revert k idx. induction l as [|a r IH]; intros k idx; simpl; [reflexivity|].
  rewrite IH. destruct a; reflexivity.
Qed.

Lemma map_erase_default_DExpr : forall l, map erase_default (map DExpr l) = l.
Proof. induction l as [|a r IH]; simpl; [reflexivity | rewrite IH; reflexivity]. Qed.

Lemma erase_annotate_arguments : forall floc p a, erase_arguments (annotate_arguments floc p a) = a.
Proof.
  intros floc p a. unfold erase_arguments, annotate_arguments. simpl.
  rewrite !erase_annotate_args, map_erase_default_DExpr. destruct a; reflexivity.
Qed.

Definition erases (s : stmt) : Prop := forall pname p, erase_stmt (annotate_stmt pname p s) = s.

Lemma erase_go_func : forall (n : str) (p : path) l, Forall erases l -> forall j,
    map erase_stmt
        ((fix go (j : nat) (b : list stmt) : list astmt :=
            match b with [] => [] | x :: r => annotate_stmt [n] (p ++ [2; j]) x :: go (S j) r end) j l) = l.
Proof.
  intros n p l H. induction H as [|x l Hx Hl IH]; intros j; simpl; [reflexivity|].
  rewrite Hx, IH. reflexivity.
Qed.

Lemma erase_go_class : forall (n : str) (p : path) l, Forall erases l -> forall j,
    map erase_stmt
        ((fix go (j : nat) (b : list stmt) : list astmt :=
            match b with [] => [] | x :: r => annotate_stmt [n] (p ++ [j]) x :: go (S j) r end) j l) = l.
Proof.
  intros n p l H. induction H as [|x l Hx Hl IH]; intros j; simpl; [reflexivity|].
  rewrite Hx, IH. reflexivity.
Qed.

Lemma erase_go_block : forall (p : path) (bi : nat) l, Forall erases l -> forall j,
    map erase_stmt
        ((fix go (j : nat) (b : list stmt) : list astmt :=
            match b with [] => [] | x :: r' => annotate_stmt [] (p ++ [bi; j]) x :: go (S j) r' end) j l) = l.
Proof.
  intros p bi l H. induction H as [|x l Hx Hl IH]; intros j; simpl; [reflexivity|].
  rewrite Hx, IH. reflexivity.
Qed.

Lemma erase_gob : forall (p : path) bl, Forall (Forall erases) bl -> forall bi,
    map (map erase_stmt)
        ((fix gob (bi : nat) (bl : list (list stmt)) : list (list astmt) :=
            match bl with
            | [] => []
            | b :: r =>
              ((fix go (j : nat) (b : list stmt) : list astmt :=
                  match b with [] => [] | x :: r' => annotate_stmt [] (p ++ [bi; j]) x :: go (S j) r' end) 0 b)
              :: gob (S bi) r
            end) bi bl) = bl.
Proof.
  intros p bl H. induction H as [|b l Hb Hl IH]; intros bi; simpl; [reflexivity|].
  rewrite IH, erase_go_block by assumption. reflexivity.
Qed.

Lemma erase_annotate : forall s pname p, erase_stmt (annotate_stmt pname p s) = s.
Proof.
  intros s. change (erases s). induction s using stmt_ind2; intros pname p; simpl; try reflexivity.
  - rewrite erase_annotate_arguments, erase_go_func by assumption. reflexivity.
  - rewrite erase_go_class by assumption. reflexivity.
  - rewrite erase_gob by assumption. reflexivity.
Qed.

Lemma erase_annotate_body : forall b pname p j, map erase_stmt (annotate_body pname p j b) = b.
Proof.
  induction b as [|x r IH]; intros pname p j; simpl; [reflexivity|].
  rewrite erase_annotate, IH. reflexivity.
Qed.

(* attaching defaults does not change what node_view sees *)
Lemma attach_default_view : forall log a,
    aa_id (attach_default log a) = aa_id a /\ erase_arg (attach_default log a) = erase_arg a.
Proof.
  intros log a. unfold attach_default.
  destruct (List.find (fun ev => path_eqb (fst ev) (aa_id a)) log); simpl; split; reflexivity.
Qed.

Lemma erase_map_args : forall f, (forall a, erase_arg (f a) = erase_arg a) ->
                                 forall s, erase_stmt (map_args_stmt f s) = erase_stmt s.
Proof.
  intros f Hf. induction s using astmt_ind2; simpl; try reflexivity.
  - f_equal.
    + unfold erase_arguments, map_arguments. simpl. rewrite !map_map.
      f_equal; apply map_ext; intros x; apply Hf.
    + rewrite map_map. induction H as [|x l0 Hx Hl IH]; simpl; [reflexivity | rewrite Hx, IH; reflexivity].
  - f_equal. rewrite map_map. induction H as [|x l0 Hx Hl IH]; simpl; [reflexivity | rewrite Hx, IH; reflexivity].
  - f_equal. rewrite map_map. induction H as [|b0 l0 Hb Hl IH]; simpl; [reflexivity|].
    rewrite IH. f_equal. rewrite map_map.
    induction Hb as [|x l1 Hx Hl' IH']; simpl; [reflexivity | rewrite Hx, IH'; reflexivity].
  - specialize (Hf a). unfold erase_arg in Hf. inversion Hf as [[H1 H2]]. rewrite H1. reflexivity.
Qed.

Lemma stmt_id_map_args : forall f, (forall a, aa_id (f a) = aa_id a) ->
                                   forall s, stmt_id (map_args_stmt f s) = stmt_id s.
Proof. intros f Hf s. destruct s; simpl; try reflexivity. apply Hf. Qed.

Lemma node_view_apply_dlog : forall log n, node_view (apply_dlog_node log n) = node_view n.
Proof.
  intros log n. destruct n as [m|s|a]; simpl.
  - f_equal. f_equal. unfold erase, apply_dlog. rewrite map_map. apply map_ext. intros s.
    apply erase_map_args. intros a. apply attach_default_view.
  - f_equal.
    + apply stmt_id_map_args. intros a. apply attach_default_view.
    + f_equal. apply erase_map_args. intros a. apply attach_default_view.
  - destruct (attach_default_view log a) as [H1 H2]. rewrite H1, H2. reflexivity.
Qed.

(* ------------------------------------------------------------------ find_for: statements the loop passes over *)
Definition askip (search : loc) (query : str) (cs : list str) (c : astmt) : bool :=
  negb (oloc_eqb (stmt_loc c) search) &&
  match c with
  | AFunc _ _ n _ _ _ _ => match cs with [] => true | _ => negb (str_eqb n query) end
  | AAnnAssign _ _ t _ _ => match name_id t with Some i => negb (str_eqb i query) | None => true end
  | AClass _ _ n _ _ _ => negb (str_eqb n query)
  | _ => true
  end.

Fixpoint last_of (kids : list astmt) (last : option astmt) : option astmt :=
  match kids with [] => last | c :: r => last_of r (Some c) end.

Lemma find_for_skip : forall search pre rest query cs cur last log,
    forallb (askip search query cs) pre = true ->
    find_for search (pre ++ rest) query cs cur last log
    = find_for search rest query cs cur (last_of pre last) log.
Proof.
  intros search pre. induction pre as [|c pre IH]; intros rest query cs cur last log H; simpl in *; [reflexivity|].
  apply andb_true_iff in H. destruct H as [Hc Hpre].
  unfold askip in Hc. apply andb_true_iff in Hc. destruct Hc as [Hloc Hkind].
  apply negb_true_iff in Hloc. rewrite Hloc.
  destruct c; try (apply IH; assumption).
  - destruct cs as [|c0 cs0]; [apply IH; assumption|]. rewrite Hkind. apply IH; assumption.
  - destruct (str_eqb name query) eqn:E; [discriminate|]. apply IH; assumption.
  - destruct (name_id target) as [i|] eqn:E.
    + destruct (str_eqb i query) eqn:E2; [discriminate|]. apply IH; assumption.
    + apply IH; assumption.
Qed.

Lemma find_for_skip_all : forall search kids query cs cur last log,
    forallb (askip search query cs) kids = true ->
    find_for search kids query cs cur last log = FDone cs cur (last_of kids last) log.
Proof.
  intros. rewrite <- (app_nil_r kids) at 1. rewrite find_for_skip by assumption. reflexivity.
Qed.

Lemma forallb_annotate_body : forall (f : astmt -> bool) pname p b j,
    (forall c q, In c b -> f (annotate_stmt pname q c) = true) ->
    forallb f (annotate_body pname p j b) = true.
Proof.
  intros f pname p b. induction b as [|c r IH]; intros j H; simpl; [reflexivity|].
  rewrite H by (left; reflexivity). simpl. apply IH. intros c0 q Hin. apply H. right. assumption.
Qed.

(* what the loop variable holds after a whole body was passed over: its last statement *)
Lemma last_of_app1 : forall l x last, last_of (l ++ [x]) last = Some x.
Proof. induction l as [|y r IH]; intros x last; simpl; [reflexivity | apply IH]. Qed.

Lemma last_of_annotate_body : forall pname p b j last,
    last_of (annotate_body pname p j b) last
    = match rev b with
      | [] => last
      | c :: _ => Some (annotate_stmt pname (p ++ [j + (List.length b - 1)]) c)
      end.
Proof.
  intros pname p b j last. destruct (rev b) as [|c r] eqn:E.
  - apply (f_equal (@rev stmt)) in E. rewrite rev_involutive in E. subst. reflexivity.
  - apply (f_equal (@rev stmt)) in E. rewrite rev_involutive in E. simpl in E. subst b.
    rewrite annotate_body_app. simpl. rewrite last_of_app1. rewrite app_length. simpl.
    replace (List.length (rev r) + 1 - 1) with (List.length (rev r)) by lia. reflexivity.
Qed.

(* ------------------------------------------------------------------ members, locations, arguments *)
Lemma split_member_some : forall y b pre t post,
    split_member y b = Some (pre, t, post) ->
    b = pre ++ t :: post /\ is_member y t = true /\ forallb (fun c => negb (is_member y c)) pre = true.
Proof.
  intros y b. induction b as [|c r IH]; intros pre t post H; simpl in H; [discriminate|].
  destruct (is_member y c) eqn:E.
  - inversion H; subst. simpl. repeat split; assumption.
  - destruct (split_member y r) as [[[pre0 t0] post0]|] eqn:E2; [|discriminate].
    inversion H; subst. destruct (IH _ _ _ eq_refl) as [H1 [H2 H3]]. subst r.
    simpl. rewrite E. simpl. repeat split; assumption.
Qed.

Lemma split_member_none : forall y b,
    split_member y b = None -> forallb (fun c => negb (is_member y c)) b = true.
Proof.
  intros y b. induction b as [|c r IH]; intros H; simpl in *; [reflexivity|].
  destruct (is_member y c) eqn:E; [discriminate|].
  destruct (split_member y r) as [[[pre0 t0] post0]|] eqn:E2; [discriminate|].
  simpl. apply IH. reflexivity.
Qed.

Lemma member_loc : forall y pname c, assign_ok c = true -> is_member y c = true ->
                                      plain_loc pname c = Some (pname ++ [y]).
Proof.
  intros y pname c Hok Hm. destruct c; simpl in *; try discriminate.
  - apply str_eqb_eq in Hm. subst. reflexivity.
  - apply str_eqb_eq in Hm. subst. reflexivity.
  - destruct (name_id target) as [i|]; [|discriminate]. apply str_eqb_eq in Hm. subst. reflexivity.
  - destruct targets as [|t [|t2 r]]; simpl in *; try discriminate.
    destruct (name_id t) as [i|]; simpl in *; [|discriminate].
    rewrite orb_false_r in Hm. apply str_eqb_eq in Hm. subst. reflexivity.
Qed.

Lemma nonmember_loc : forall y pname c, assign_ok c = true -> is_member y c = false ->
                                         oloc_eqb (plain_loc pname c) (pname ++ [y]) = false.
Proof.
  intros y pname c Hok Hm. destruct c; simpl in *; try reflexivity.
  - rewrite loc_eqb_snoc. assumption.
  - rewrite loc_eqb_snoc. assumption.
  - destruct (name_id target) as [i|]; simpl; [|reflexivity]. rewrite loc_eqb_snoc. assumption.
  - destruct targets as [|t [|t2 r]]; simpl in *; try reflexivity; try discriminate.
    destruct (name_id t) as [i|]; simpl in *; [|reflexivity].
    rewrite orb_false_r in Hm. rewrite loc_eqb_snoc. assumption.
Qed.

Lemma plain_loc_shape : forall pname c l, plain_loc pname c = Some l -> exists n, l = pname ++ [n].
Proof.
  intros pname c l H. destruct c; simpl in H; try discriminate.
  - inversion H. eexists; reflexivity.
  - inversion H. eexists; reflexivity.
  - destruct (name_id target); simpl in H; inversion H. eexists; reflexivity.
  - destruct (assign_last_name targets None); simpl in H; inversion H. eexists; reflexivity.
Qed.

Lemma loc_never : forall pname c search, (forall n, search <> pname ++ [n]) ->
                                          oloc_eqb (plain_loc pname c) search = false.
Proof.
  intros pname c search H. destruct (plain_loc pname c) as [l|] eqn:E; [|reflexivity].
  destruct (plain_loc_shape _ _ _ E) as [n Hn]. subst l. simpl. apply loc_eqb_neq. intros E2. apply (H n). symmetry. assumption.
Qed.

Lemma find_arg_annot_none : forall y l floc p k idx i,
    has_arg_named y l = false -> find_arg_named y i (annotate_args floc p k idx l) = None.
Proof.
  intros y l. induction l as [|a r IH]; intros floc p k idx i H; simpl in *; [reflexivity|].
  apply orb_false_iff in H. destruct H as [H1 H2]. rewrite H1. apply IH. assumption.
Qed.

Lemma find_plain_none : forall y l k, has_arg_named y l = false -> find_plain_arg y k l = None.
Proof.
  intros y l. induction l as [|a r IH]; intros k H; simpl in *; [reflexivity|].
  apply orb_false_iff in H. destruct H as [H1 H2]. rewrite H1. apply IH. assumption.
Qed.

Lemma find_arg_annot_some : forall y l floc p k idx i,
    has_arg_named y l = true ->
    exists k' a i' a',
      find_plain_arg y k l = Some (k', a)
      /\ find_arg_named y i (annotate_args floc p k idx l) = Some (i', a')
      /\ aa_id a' = p ++ [k'] /\ erase_arg a' = a /\ i <= i' < i + List.length l.
Proof.
  intros y l. induction l as [|a r IH]; intros floc p k idx i H; simpl in *; [discriminate|].
  destruct (str_eqb (a_name a) y) eqn:E.
  - exists k, a, i. eexists. repeat split; try lia. destruct a; reflexivity.
  - simpl in H. destruct (IH floc p (S k) (idx + 1)%Z (S i) H) as [k' [a0 [i' [a' [H1 [H2 [H3 [H4 H5]]]]]]]].
    exists k', a0, i', a'. repeat split; try assumption; lia.
Qed.

Lemma nth_error_map_DExpr : forall l i,
    nth_error (map DExpr l) i = option_map DExpr (nth_error l i).
Proof. intros l i. apply nth_error_map. Qed.

Lemma with_default_view : forall a e, node_view (NArg (with_default a e)) = node_view (NArg a).
Proof. intros a e. reflexivity. Qed.

(* ------------------------------------------------------------------ resolve: shape lemmas *)
Lemma resolve_body_split : forall seg q' p b j,
    resolve_body seg q' p j b
    = match split_member seg b with
      | Some (pre, t, _) => resolve_stmt q' (p ++ [j + List.length pre]) t
      | None => None
      end.
Proof.
  intros seg q' p b. induction b as [|c r IH]; intros j; simpl; [reflexivity|].
  destruct (is_member seg c) eqn:E.
  - simpl. rewrite Nat.add_0_r. reflexivity.
  - rewrite IH. destruct (split_member seg r) as [[[pre t] post]|]; [|reflexivity].
    simpl. replace (S (j + List.length pre)) with (j + S (List.length pre)) by lia. reflexivity.
Qed.

Lemma resolve_first_member : forall seg q' p b j,
    (fix first_member (j : nat) (b : list stmt) : option (path * pnode) :=
       match b with
       | [] => None
       | x :: r => if is_member seg x then resolve_stmt q' (p ++ [j]) x else first_member (S j) r
       end) j b
    = resolve_body seg q' p j b.
Proof.
  intros seg q' p b. induction b as [|c r IH]; intros j; simpl; [reflexivity|].
  rewrite IH. reflexivity.
Qed.

Lemma resolve_stmt_class : forall seg q' p n bs body d,
    resolve_stmt (seg :: q') p (SClass n bs body d) = resolve_body seg q' p 0 body.
Proof. intros. simpl. apply resolve_first_member. Qed.

(* ------------------------------------------------------------------ the last step of a lookup *)
Lemma askip_leaf : forall y pname p c,
    assign_ok c = true -> is_member y c = false ->
    askip (pname ++ [y]) y [] (annotate_stmt pname p c) = true.
Proof.
  intros y pname p c Hok Hm. unfold askip. rewrite stmt_loc_annotate, nonmember_loc by assumption. simpl.
  destruct c; simpl in *; try reflexivity.
  - rewrite Hm. reflexivity.
  - destruct (name_id target); [rewrite Hm|]; reflexivity.
Qed.

Lemma forallb_In : forall (A : Type) (f : A -> bool) l x, forallb f l = true -> In x l -> f x = true.
Proof. intros A f l x H Hin. rewrite forallb_forall in H. apply H. assumption. Qed.

Lemma existsb_In_false : forall (A : Type) (f : A -> bool) l x, existsb f l = false -> In x l -> f x = false.
Proof.
  intros A f l x H Hin. destruct (f x) eqn:E; [|reflexivity].
  assert (existsb f l = true) by (apply existsb_exists; exists x; split; assumption). congruence.
Qed.

Lemma leaf_found : forall pname p j b y pre t post cur last log,
    split_member y b = Some (pre, t, post) -> forallb assign_ok b = true ->
    find_for (pname ++ [y]) (annotate_body pname p j b) y [] cur last log
    = FReturn (NStmt (annotate_stmt pname (p ++ [j + List.length pre]) t)) log.
Proof.
  intros pname p j b y pre t post cur last log Hs Hok.
  destruct (split_member_some _ _ _ _ _ Hs) as [Hb [Hmt Hpre]]. subst b.
  rewrite annotate_body_app, find_for_skip.
  - simpl. rewrite stmt_loc_annotate, (member_loc y); [|apply (forallb_In _ _ _ t Hok); apply in_or_app; right; left; reflexivity|assumption].
    simpl. rewrite loc_eqb_refl. reflexivity.
  - apply forallb_annotate_body. intros c q Hin. apply askip_leaf.
    + apply (forallb_In _ _ _ c Hok). apply in_or_app. left. assumption.
    + apply negb_true_iff. apply (forallb_In _ _ _ c Hpre). assumption.
Qed.

Lemma leaf_notfound : forall pname p j b y cur last log,
    split_member y b = None -> forallb assign_ok b = true ->
    find_for (pname ++ [y]) (annotate_body pname p j b) y [] cur last log
    = FDone [] cur (last_of (annotate_body pname p j b) last) log.
Proof.
  intros pname p j b y cur last log Hs Hok. apply find_for_skip_all.
  apply forallb_annotate_body. intros c q Hin. apply askip_leaf.
  - apply (forallb_In _ _ _ c Hok). assumption.
  - apply negb_true_iff. apply (forallb_In _ _ _ c (split_member_none _ _ Hs)). assumption.
Qed.

(* ------------------------------------------------------------------ walking past the head of a longer path *)
Lemma nonmember_kinds : forall x c, is_member x c = false ->
                                     func_named x c = false /\ annassign_named x c = false /\ class_named x c = false.
Proof. intros x c H. destruct c; simpl in *; repeat split; try reflexivity; assumption. Qed.

Lemma askip_head : forall search x cs pname p c,
    (forall n, search <> pname ++ [n]) -> cs <> [] ->
    func_named x c = false -> annassign_named x c = false -> class_named x c = false ->
    askip search x cs (annotate_stmt pname p c) = true.
Proof.
  intros search x cs pname p c Hs Hcs Hf Ha Hc. unfold askip. rewrite stmt_loc_annotate, loc_never by assumption. simpl.
  destruct c; simpl in *; try reflexivity.
  - destruct cs; [contradiction|]. rewrite Hf. reflexivity.
  - rewrite Hc. reflexivity.
  - destruct (name_id target); [rewrite Ha|]; reflexivity.
Qed.

Lemma askip_fall : forall search z pname p c,
    (forall n, search <> pname ++ [n]) ->
    annassign_named z c = false -> class_named z c = false ->
    askip search z [] (annotate_stmt pname p c) = true.
Proof.
  intros search z pname p c Hs Ha Hc. unfold askip. rewrite stmt_loc_annotate, loc_never by assumption. simpl.
  destruct c; simpl in *; try reflexivity.
  - rewrite Hc. reflexivity.
  - destruct (name_id target); [rewrite Ha|]; reflexivity.
Qed.

(* a class whose name is the current segment: the cursor moves into its body *)
Lemma class_enter : forall search pname p n bs body d rest cs cur last log,
    (forall k, search <> pname ++ [k]) ->
    find_for search (annotate_stmt pname p (SClass n bs body d) :: rest) n cs cur last log
    = FDone cs (CList (annotate_body [n] p 0 body)) (Some (annotate_stmt pname p (SClass n bs body d))) log.
Proof.
  intros search pname p n bs body d rest cs cur last log Hs.
  assert (Hloc : loc_eqb (pname ++ [n]) search = false).
  { apply loc_eqb_neq. intros E. apply (Hs n). symmetry. assumption. }
  rewrite annotate_class. simpl find_for. rewrite Hloc, str_eqb_refl. reflexivity.
Qed.

(* ------------------------------------------------------------------ the while loop, one iteration *)
Lemma find_while_nil : forall fuel search child cur log,
    find_while (S fuel) search child cur [] log = Ok (None, log).
Proof. reflexivity. Qed.

Definition step_result (fuel : nat) (search : loc) (r : for_res) : outcome (option anode * dlog) :=
  match r with
  | FReturn n log' => Ok (Some n, log')
  | FNone log' => Ok (None, log')
  | FErr e => Err e
  | FDone cs2 cur' child' log' => find_while fuel search child' cur' cs2 log'
  end.

Lemma find_while_step_more : forall fuel search child kids query c cs log,
    find_while (S fuel) search child (CList kids) (query :: c :: cs) log
    = step_result fuel search (find_for search kids query (c :: cs) (CList kids) child log).
Proof. intros. simpl. destruct child; reflexivity. Qed.

Lemma find_while_step_none : forall fuel search kids query cs log,
    find_while (S fuel) search None (CList kids) (query :: cs) log
    = step_result fuel search (find_for search kids query cs (CList kids) None log).
Proof. intros. simpl. destruct cs; reflexivity. Qed.

Lemma find_while_step_name : forall fuel search c kids query log,
    match astmt_name c with Some n => str_eqb n query | None => false end = false ->
    find_while (S fuel) search (Some c) (CList kids) [query] log
    = step_result fuel search (find_for search kids query [] (CList kids) (Some c) log).
Proof. intros fuel search c kids query log H. simpl. rewrite H. reflexivity. Qed.

(* ------------------------------------------------------------------ the function named by the current segment *)
(* exactly one segment left: the argument (positional, else keyword-only) or None; the loop ends either way *)
Lemma func_last_segment : forall search pname p n args body d r rest z cur last log fuel,
    (forall k, search <> pname ++ [k]) ->
    List.length (ar_kw_defaults args) = List.length (ar_kwonly args) ->
    exists res log',
      step_result fuel search
                  (find_for search (annotate_stmt pname p (SFunc n args body d r) :: rest) n [z] cur last log)
      = Ok (res, log')
      /\ option_map node_view res = resolve_arg z p args.
Proof.
  intros search pname p n args body d r rest z cur last log fuel Hs Hkw.
  assert (Hloc : loc_eqb (pname ++ [n]) search = false).
  { apply loc_eqb_neq. intros E. apply (Hs n). symmetry. assumption. }
  simpl find_for. rewrite Hloc, str_eqb_refl. simpl negb. cbv iota.
  unfold resolve_arg.
  destruct (has_arg_named z (ar_args args)) eqn:Ha.
  - destruct (find_arg_annot_some z (ar_args args) (pname ++ [n]) (p ++ [0]) 0 (args_start (ar_args args)) 0 Ha)
      as [k' [a [i' [a' [H1 [H2 [H3 [H4 _]]]]]]]].
    rewrite H2, nth_error_map_DExpr, H1.
    destruct (nth_error (ar_defaults args) i') as [e|]; simpl.
    + eexists. eexists. split; [reflexivity|]. simpl. rewrite H3, <- app_assoc. simpl.
      unfold erase_arg in *. simpl. rewrite H4. reflexivity.
    + eexists. eexists. split; [reflexivity|]. simpl. rewrite H3, <- app_assoc. simpl. rewrite H4. reflexivity.
  - rewrite find_arg_annot_none by assumption. rewrite find_plain_none by assumption.
    destruct (has_arg_named z (ar_kwonly args)) eqn:Hk.
    + destruct (find_arg_annot_some z (ar_kwonly args) (pname ++ [n]) (p ++ [1]) 0 0%Z 0 Hk)
        as [k' [a [i' [a' [H1 [H2 [H3 [H4 H5]]]]]]]].
      cbn [aar_kwonly annotate_arguments aar_kw_defaults]. rewrite H2, H1.
      destruct (nth_error (ar_kw_defaults args) i') as [[e|]|] eqn:En; simpl.
      * eexists. eexists. split; [reflexivity|]. simpl. rewrite H3, <- app_assoc. simpl.
        unfold erase_arg in *. simpl. rewrite H4. reflexivity.
      * eexists. eexists. split; [reflexivity|]. simpl. rewrite H3, <- app_assoc. simpl. rewrite H4. reflexivity.
      * exfalso. apply nth_error_None in En. lia.
    + cbn [aar_kwonly annotate_arguments]. rewrite find_arg_annot_none by assumption.
      rewrite find_plain_none by assumption.
      exists None. eexists. split; reflexivity.
Qed.

(* two or more segments left: None, whatever the arguments *)
Lemma func_more_segments : forall search pname p n args body d r rest z w more cur last log fuel,
    (forall k, search <> pname ++ [k]) ->
    List.length (ar_kw_defaults args) = List.length (ar_kwonly args) ->
    exists log',
      step_result fuel search
                  (find_for search (annotate_stmt pname p (SFunc n args body d r) :: rest) n (z :: w :: more) cur last log)
      = Ok (None, log').
Proof.
  intros search pname p n args body d r rest z w more cur last log fuel Hs Hkw.
  assert (Hloc : loc_eqb (pname ++ [n]) search = false).
  { apply loc_eqb_neq. intros E. apply (Hs n). symmetry. assumption. }
  simpl find_for. rewrite Hloc, str_eqb_refl. simpl negb. cbv iota.
  destruct (has_arg_named z (ar_args args)) eqn:Ha.
  - destruct (find_arg_annot_some z (ar_args args) (pname ++ [n]) (p ++ [0]) 0 (args_start (ar_args args)) 0 Ha)
      as [k' [a [i' [a' [H1 [H2 _]]]]]].
    rewrite H2, nth_error_map_DExpr.
    destruct (nth_error (ar_defaults args) i') as [e|]; simpl; eexists; reflexivity.
  - rewrite find_arg_annot_none by assumption.
    destruct (has_arg_named z (ar_kwonly args)) eqn:Hk.
    + destruct (find_arg_annot_some z (ar_kwonly args) (pname ++ [n]) (p ++ [1]) 0 0%Z 0 Hk)
        as [k' [a [i' [a' [H1 [H2 [_ [_ H5]]]]]]]].
      cbn [aar_kwonly annotate_arguments aar_kw_defaults]. rewrite H2.
      destruct (nth_error (ar_kw_defaults args) i') as [[e|]|] eqn:En; simpl; try (eexists; reflexivity).
      exfalso. apply nth_error_None in En. lia.
    + cbn [aar_kwonly annotate_arguments]. rewrite find_arg_annot_none by assumption. eexists. reflexivity.
Qed.

(* from the loop to find_view *)
Lemma find_view_of_while : forall root q m r log res,
    q <> [] ->
    find_while (S (List.length q)) q None (CList (annotate_at root m)) q [] = Ok (r, log) ->
    option_map node_view r = res ->
    find_view_at root q m = Ok res.
Proof.
  intros root q m r log res Hq Hw Hr. unfold find_view_at, find_in_ast, find_in_ast_log.
  destruct q as [|x q']; [contradiction|]. rewrite Hw. simpl.
  destruct r as [n|]; simpl in *; [rewrite node_view_apply_dlog|]; subst; reflexivity.
Qed.

(* ------------------------------------------------------------------ supported: the invariant find_in_ast relies on *)
Lemma supported_func_kw : forall n args body d r,
    supported_stmt (SFunc n args body d r) = true ->
    List.length (ar_kw_defaults args) = List.length (ar_kwonly args).
Proof.
  intros n args body d r H. simpl in H. apply andb_true_iff in H. destruct H as [H _].
  apply Nat.eqb_eq. assumption.
Qed.

Lemma supported_split : forall x b pre t post,
    forallb supported_stmt b = true -> split_member x b = Some (pre, t, post) -> supported_stmt t = true.
Proof.
  intros x b pre t post H Hs. destruct (split_member_some _ _ _ _ _ Hs) as [Hb _]. subst b.
  apply (forallb_In _ _ _ t H). apply in_or_app. right. left. reflexivity.
Qed.

(* ------------------------------------------------------------------ C15, the lookup half: the guarded equality *)
Lemma leaf_lookup_facts : forall b, leaf_lookup_class b = None -> forallb assign_ok b = true.
Proof.
  intros b H. unfold leaf_lookup_class in H. destruct (forallb assign_ok b); [reflexivity | discriminate].
Qed.

Lemma c15_depth1 : forall root m x, leaf_lookup_class m = None ->
                                    find_view_at root [x] m = Ok (resolve_at root [x] m).
Proof.
  intros root m x H. pose proof (leaf_lookup_facts _ H) as Hok.
  unfold resolve_at. rewrite resolve_body_split.
  destruct (split_member x m) as [[[pre t] post]|] eqn:Hs.
  - apply find_view_of_while with (r := Some (NStmt (annotate_stmt [] (root ++ [List.length pre]) t))) (log := []).
    + discriminate.
    + simpl List.length. rewrite find_while_step_none. unfold annotate_at.
      pose proof (leaf_found [] root 0 m x pre t post (CList (annotate_body [] root 0 m)) None [] Hs Hok) as L.
      simpl in L. rewrite L. reflexivity.
    + simpl. rewrite stmt_id_annotate, erase_annotate. reflexivity.
  - apply find_view_of_while with (r := None) (log := []).
    + discriminate.
    + simpl List.length. rewrite find_while_step_none. unfold annotate_at.
      pose proof (leaf_notfound [] root 0 m x (CList (annotate_body [] root 0 m)) None [] Hs Hok) as L.
      simpl in L. rewrite L. reflexivity.
    + reflexivity.
Qed.

(* the statements before the first member called x: all passed over, functions included *)
Lemma head_pre_skipped : forall search x cs pname p j pre,
    (forall n, search <> pname ++ [n]) -> cs <> [] ->
    forallb (fun c => negb (is_member x c)) pre = true ->
    forallb (askip search x cs) (annotate_body pname p j pre) = true.
Proof.
  intros search x cs pname p j pre Hs Hcs Hm. apply forallb_annotate_body. intros c q Hin.
  assert (Hmc : is_member x c = false) by (apply negb_true_iff; apply (forallb_In _ _ _ c Hm Hin)).
  destruct (nonmember_kinds _ _ Hmc) as [Hf [Ha Hc]].
  apply askip_head; assumption.
Qed.

Lemma walk_to_member : forall search x cs pname p j b pre t post cur last log,
    split_member x b = Some (pre, t, post) ->
    (forall n, search <> pname ++ [n]) -> cs <> [] ->
    find_for search (annotate_body pname p j b) x cs cur last log
    = find_for search
               (annotate_stmt pname (p ++ [j + List.length pre]) t
                              :: annotate_body pname p (S (j + List.length pre)) post)
               x cs cur (last_of (annotate_body pname p j pre) last) log.
Proof.
  intros search x cs pname p j b pre t post cur last log Hs Hn Hcs.
  destruct (split_member_some _ _ _ _ _ Hs) as [Hm [Hmt Hpre]]. subst b.
  rewrite annotate_body_app, find_for_skip by (apply head_pre_skipped; assumption).
  reflexivity.
Qed.

Lemma func_member_name : forall x n args body d r, is_member x (SFunc n args body d r) = true -> n = x.
Proof. intros x n args body d r H. simpl in H. apply str_eqb_eq in H. assumption. Qed.

Lemma class_member_name : forall x n bs body d, is_member x (SClass n bs body d) = true -> n = x.
Proof. intros x n bs body d H. simpl in H. apply str_eqb_eq in H. assumption. Qed.

Lemma c15_depth2_func : forall root m x y pre n args body d r post,
    supported m = true ->
    split_member x m = Some (pre, SFunc n args body d r, post) ->
    find_view_at root [x; y] m = Ok (resolve_at root [x; y] m).
Proof.
  intros root m x y pre n args body d r post Hsup Hs.
  destruct (split_member_some _ _ _ _ _ Hs) as [_ [Hmt _]]. apply func_member_name in Hmt. subst n.
  pose proof (supported_func_kw _ _ _ _ _ (supported_split _ _ _ _ _ Hsup Hs)) as Hkw.
  assert (Hlen : forall k : str, [x; y] <> [] ++ [k]) by (intros k; discriminate).
  destruct (func_last_segment [x; y] [] (root ++ [0 + List.length pre]) x args body d r
                              (annotate_body [] root (S (0 + List.length pre)) post) y
                              (CList (annotate_at root m)) (last_of (annotate_body [] root 0 pre) None) [] 2 Hlen Hkw)
    as [res [log' [H1 H2]]].
  apply find_view_of_while with (r := res) (log := log').
  - discriminate.
  - simpl List.length. rewrite find_while_step_more.
    set (cur := CList (annotate_at root m)) in *. unfold annotate_at.
    rewrite (walk_to_member [x; y] x [y] [] root 0 m pre _ post cur None [] Hs Hlen) by discriminate.
    exact H1.
  - rewrite H2. unfold resolve_at. rewrite resolve_body_split, Hs. reflexivity.
Qed.

Lemma astmt_name_annotate : forall pname p c, astmt_name (annotate_stmt pname p c) = stmt_name c.
Proof. intros pname p c. destruct c; reflexivity. Qed.

Lemma c15_depth2_class : forall root m x y pre n bs body d post,
    split_member x m = Some (pre, SClass n bs body d, post) ->
    str_eqb x y = false -> leaf_lookup_class body = None ->
    find_view_at root [x; y] m = Ok (resolve_at root [x; y] m).
Proof.
  intros root m x y pre n bs body d post Hs Hxy Hl.
  destruct (split_member_some _ _ _ _ _ Hs) as [_ [Hmt _]].
  apply class_member_name in Hmt. subst n.
  pose proof (leaf_lookup_facts _ Hl) as Hok.
  assert (Hlen : forall k : str, [x; y] <> [] ++ [k]) by (intros k; discriminate).
  set (p1 := root ++ [0 + List.length pre]).
  assert (Hres : resolve_at root [x; y] m = resolve_body y [] p1 0 body).
  { unfold resolve_at. rewrite resolve_body_split, Hs. apply resolve_stmt_class. }
  assert (Hwalk : forall res log',
             step_result 1 [x; y]
                         (find_for [x; y] (annotate_body [x] p1 0 body) y [] (CList (annotate_body [x] p1 0 body))
                                   (Some (annotate_stmt [] p1 (SClass x bs body d))) []) = Ok (res, log') ->
             find_while 3 [x; y] None (CList (annotate_at root m)) [x; y] [] = Ok (res, log')).
  { intros res log' H. rewrite find_while_step_more.
    set (cur := CList (annotate_at root m)). unfold annotate_at.
    rewrite (walk_to_member [x; y] x [y] [] root 0 m pre _ post cur None [] Hs Hlen) by discriminate.
    fold p1. rewrite class_enter by exact Hlen. unfold step_result at 1.
    rewrite find_while_step_name; [exact H|].
    rewrite astmt_name_annotate. simpl. exact Hxy. }
  rewrite Hres, resolve_body_split.
  destruct (split_member y body) as [[[pre' t'] post']|] eqn:Hs'.
  - apply find_view_of_while with (r := Some (NStmt (annotate_stmt [x] (p1 ++ [0 + List.length pre']) t'))) (log := []).
    + discriminate.
    + apply Hwalk.
      pose proof (leaf_found [x] p1 0 body y pre' t' post' (CList (annotate_body [x] p1 0 body))
                             (Some (annotate_stmt [] p1 (SClass x bs body d))) [] Hs' Hok) as L.
      simpl app in L at 1. rewrite L. reflexivity.
    + simpl option_map. unfold node_view. rewrite stmt_id_annotate, erase_annotate. reflexivity.
  - apply find_view_of_while with (r := None) (log := []).
    + discriminate.
    + apply Hwalk.
      pose proof (leaf_notfound [x] p1 0 body y (CList (annotate_body [x] p1 0 body))
                                (Some (annotate_stmt [] p1 (SClass x bs body d))) [] Hs' Hok) as L.
      simpl app in L at 1. rewrite L. reflexivity.
    + reflexivity.
Qed.

Lemma unresolved_head_facts : forall x y m,
    unresolved_head_class x y m = None ->
    existsb (fun c => func_named x c || annassign_named x c || class_named x c) m = false
    /\ existsb (fun c => annassign_named y c || class_named y c) m = false
    /\ last_func_named y m = false.
Proof.
  intros x y m H. unfold unresolved_head_class in H.
  destruct (existsb (fun c => func_named x c || annassign_named x c || class_named x c) m); [discriminate|].
  destruct (existsb (fun c => annassign_named y c || class_named y c) m); simpl in H; [discriminate|].
  destruct (last_func_named y m); [discriminate|]. repeat split; reflexivity.
Qed.

Lemma c15_depth2_unresolved : forall root m x y,
    unresolved_head_class x y m = None -> resolve_at root [x; y] m = None ->
    find_view_at root [x; y] m = Ok (resolve_at root [x; y] m).
Proof.
  intros root m x y H Hres. rewrite Hres.
  destruct (unresolved_head_facts _ _ _ H) as [Hx [Hy Hlast]].
  assert (Hlen : forall k : str, [x; y] <> [] ++ [k]) by (intros k; discriminate).
  apply find_view_of_while with (r := None) (log := []); [discriminate | | reflexivity].
  simpl List.length. rewrite find_while_step_more.
  set (cur := CList (annotate_at root m)). unfold annotate_at.
  assert (Hskip1 : forallb (askip [x; y] x [y]) (annotate_body [] root 0 m) = true).
  { apply forallb_annotate_body. intros c q Hin.
    pose proof (existsb_In_false _ _ _ c Hx Hin) as Hc. simpl in Hc.
    apply orb_false_iff in Hc. destruct Hc as [Hc H3]. apply orb_false_iff in Hc. destruct Hc as [H1 H2].
    apply askip_head; try assumption; discriminate. }
  assert (Hskip2 : forallb (askip [x; y] y []) (annotate_body [] root 0 m) = true).
  { apply forallb_annotate_body. intros c q Hin.
    pose proof (existsb_In_false _ _ _ c Hy Hin) as Hc. simpl in Hc. apply orb_false_iff in Hc. destruct Hc as [H1 H2].
    apply askip_fall; assumption. }
  rewrite find_for_skip_all by exact Hskip1. unfold step_result at 1.
  rewrite last_of_annotate_body. unfold last_func_named in Hlast.
  destruct (rev m) as [|c r] eqn:Erev.
  - subst cur. rewrite find_while_step_none. unfold annotate_at.
    rewrite find_for_skip_all by exact Hskip2. reflexivity.
  - subst cur. rewrite find_while_step_name.
    + unfold annotate_at. rewrite find_for_skip_all by exact Hskip2. reflexivity.
    + rewrite astmt_name_annotate.
      assert (Hin : In c m). { apply in_rev. rewrite Erev. left. reflexivity. }
      pose proof (existsb_In_false _ _ _ c Hy Hin) as Hc. simpl in Hc. apply orb_false_iff in Hc. destruct Hc as [H1 H2].
      destruct c; simpl in *; try reflexivity; assumption.
Qed.

(* x.y.z where x is a function: a function has no members, and find_in_ast returns None as well *)
Lemma c15_depth3_func_head : forall root m x y z pre n args body d r post,
    supported m = true ->
    split_member x m = Some (pre, SFunc n args body d r, post) ->
    find_view_at root [x; y; z] m = Ok (resolve_at root [x; y; z] m).
Proof.
  intros root m x y z pre n args body d r post Hsup Hs.
  destruct (split_member_some _ _ _ _ _ Hs) as [_ [Hmt _]]. apply func_member_name in Hmt. subst n.
  pose proof (supported_func_kw _ _ _ _ _ (supported_split _ _ _ _ _ Hsup Hs)) as Hkw.
  assert (Hlen : forall k : str, [x; y; z] <> [] ++ [k]) by (intros k; discriminate).
  destruct (func_more_segments [x; y; z] [] (root ++ [0 + List.length pre]) x args body d r
                               (annotate_body [] root (S (0 + List.length pre)) post) y z []
                               (CList (annotate_at root m)) (last_of (annotate_body [] root 0 pre) None) [] 3 Hlen Hkw)
    as [log' H1].
  apply find_view_of_while with (r := None) (log := log').
  - discriminate.
  - simpl List.length. rewrite find_while_step_more.
    set (cur := CList (annotate_at root m)) in *. unfold annotate_at.
    rewrite (walk_to_member [x; y; z] x [y; z] [] root 0 m pre _ post cur None [] Hs Hlen) by discriminate.
    exact H1.
  - unfold resolve_at. rewrite resolve_body_split, Hs. reflexivity.
Qed.

Lemma c15_depth3 : forall root m x y z pre n bs body d post pre' n' args body' d' r' post',
    supported m = true ->
    split_member x m = Some (pre, SClass n bs body d, post) ->
    split_member y body = Some (pre', SFunc n' args body' d' r', post') ->
    find_view_at root [x; y; z] m = Ok (resolve_at root [x; y; z] m).
Proof.
  intros root m x y z pre n bs body d post pre' n' args body' d' r' post' Hsup Hs Hs'.
  destruct (split_member_some _ _ _ _ _ Hs) as [_ [Hmt _]].
  apply class_member_name in Hmt. subst n.
  destruct (split_member_some _ _ _ _ _ Hs') as [_ [Hmt' _]]. apply func_member_name in Hmt'. subst n'.
  assert (Hkw : List.length (ar_kw_defaults args) = List.length (ar_kwonly args)).
  { pose proof (supported_split _ _ _ _ _ Hsup Hs) as Hc. simpl in Hc.
    exact (supported_func_kw _ _ _ _ _ (supported_split _ _ _ _ _ Hc Hs')). }
  assert (Hlen : forall k : str, [x; y; z] <> [] ++ [k]) by (intros k; discriminate).
  assert (Hlen' : forall k : str, [x; y; z] <> [x] ++ [k]) by (intros k; discriminate).
  set (p1 := root ++ [0 + List.length pre]).
  destruct (func_last_segment [x; y; z] [x] (p1 ++ [0 + List.length pre']) y args body' d' r'
                              (annotate_body [x] p1 (S (0 + List.length pre')) post') z
                              (CList (annotate_body [x] p1 0 body))
                              (last_of (annotate_body [x] p1 0 pre') (Some (annotate_stmt [] p1 (SClass x bs body d))))
                              [] 2 Hlen' Hkw)
    as [res [log' [H1 H2]]].
  apply find_view_of_while with (r := res) (log := log').
  - discriminate.
  - simpl List.length. rewrite find_while_step_more.
    set (cur := CList (annotate_at root m)). unfold annotate_at.
    rewrite (walk_to_member [x; y; z] x [y; z] [] root 0 m pre _ post cur None [] Hs Hlen) by discriminate.
    fold p1. rewrite class_enter by exact Hlen. unfold step_result at 1.
    rewrite find_while_step_more.
    rewrite (walk_to_member [x; y; z] y [z] [x] p1 0 body pre' _ post' _ _ [] Hs' Hlen') by discriminate.
    exact H1.
  - rewrite H2. unfold resolve_at. rewrite resolve_body_split, Hs. fold p1.
    rewrite resolve_stmt_class, resolve_body_split, Hs'. reflexivity.
Qed.

Lemma c15_depth0 : forall root m, find_view_at root [] m = Ok (resolve_at root [] m).
Proof.
  intros root m. unfold find_view_at, find_in_ast, find_in_ast_log. simpl.
  unfold erase, annotate_at. rewrite erase_annotate_body. reflexivity.
Qed.

(* for every root the positions are counted from *)
Theorem C15_partial_at : forall root m q,
    supported m = true -> finding_class_C15 m q = None ->
    find_view_at root q m = Ok (resolve_at root q m).
Proof.
  intros root m q Hsup E.
  destruct q as [|x [|y [|z [|w q]]]]; simpl in E.
  - apply c15_depth0.
  - apply c15_depth1. assumption.
  - destruct (split_member x m) as [[[pre t] post]|] eqn:Hs.
    + destruct t.
      * eapply c15_depth2_func; eassumption.
      * destruct (str_eqb x y) eqn:Hxy; [discriminate|]. eapply c15_depth2_class; eassumption.
      * discriminate.
      * apply c15_depth2_unresolved; [assumption|]. unfold resolve_at. rewrite resolve_body_split, Hs. reflexivity.
      * apply c15_depth2_unresolved; [assumption|]. unfold resolve_at. rewrite resolve_body_split, Hs. reflexivity.
      * apply c15_depth2_unresolved; [assumption|]. unfold resolve_at. rewrite resolve_body_split, Hs. reflexivity.
      * apply c15_depth2_unresolved; [assumption|]. unfold resolve_at. rewrite resolve_body_split, Hs. reflexivity.
    + apply c15_depth2_unresolved; [assumption|]. unfold resolve_at. rewrite resolve_body_split, Hs. reflexivity.
  - destruct (split_member x m) as [[[pre t] post]|] eqn:Hs; [|discriminate].
    destruct t; try discriminate.
    + eapply c15_depth3_func_head; eassumption.
    + destruct (split_member y body) as [[[pre' t'] post']|] eqn:Hs'; [|discriminate].
      destruct t'; try discriminate.
      eapply c15_depth3; eassumption.
  - discriminate.
Qed.

Theorem C15_partial_lemma : forall m q, guard_C15 m q = true -> C15_find_at m q.
Proof.
  intros m q H. unfold guard_C15 in H. apply andb_true_iff in H. destruct H as [Hsup H].
  unfold C15_find_at, find_view, resolve.
  destruct (finding_class_C15 m q) eqn:E; [discriminate|]. apply C15_partial_at; assumption.
Qed.
