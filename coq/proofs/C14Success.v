(* C14Success: (1) inside guard_C14_total a single-pair call of sync_properties SUCCEEDS in the model (one write of
   the output file) and the written tree is the parsed output tree with exactly the addressed node replaced by the
   input's node; (2) several pairs: inside guard_C14_multi every pair lands at the position its output address
   resolves to in the original output file. *)
From Coq Require Import List Ascii Bool Arith ZArith Lia.
From Coq Require String.
Import String.StringSyntax.
From DT Require Import PyStr Sexp PyVal PureUtils PyAst Locate SyncProps C15Spec C14Spec C14Guard2 PyStrFacts
     LocateFacts RewriteFacts C15Facts SyncPropsFacts C14Facts.
Import ListNotations.

(* ------------------------------------------------------------------ resolve_at: the root is a prefix *)
Definition shift (root : path) (o : option (path * pnode)) : option (path * pnode) :=
  option_map (fun r => (root ++ fst r, snd r)) o.

Lemma resolve_arg_shift : forall seg root p a, resolve_arg seg (root ++ p) a = shift root (resolve_arg seg p a).
Proof.
  intros seg root p a. unfold resolve_arg.
  destruct (find_plain_arg seg 0 (ar_args a)) as [[k x]|]; simpl; [rewrite <- app_assoc; reflexivity|].
  destruct (find_plain_arg seg 0 (ar_kwonly a)) as [[k x]|]; simpl; [rewrite <- app_assoc|]; reflexivity.
Qed.

Lemma resolve_stmt_shift : forall q root p s, resolve_stmt q (root ++ p) s = shift root (resolve_stmt q p s).
Proof.
  induction q as [|seg q' IH]; intros root p s; [reflexivity|].
  destruct s as [n a b d r|n bs body d|t a v|ts v|e|e|t h bl]; try reflexivity.
  - simpl. destruct q'; [apply resolve_arg_shift | reflexivity].
  - rewrite !resolve_stmt_class. generalize 0. induction body as [|c rest IHb]; intros j; simpl; [reflexivity|].
    destruct (is_member seg c); [rewrite <- app_assoc; apply IH | apply IHb].
Qed.

Lemma resolve_body_shift : forall seg q' root p b j,
    resolve_body seg q' (root ++ p) j b = shift root (resolve_body seg q' p j b).
Proof.
  intros seg q' root p b. induction b as [|c rest IH]; intros j; simpl; [reflexivity|].
  destruct (is_member seg c); [rewrite <- app_assoc; apply resolve_stmt_shift | apply IH].
Qed.

Lemma resolve_at_shift : forall root q m, q <> [] -> resolve_at root q m = shift root (resolve q m).
Proof.
  intros root q m Hq. destruct q as [|seg q']; [contradiction|]. unfold resolve, resolve_at.
  rewrite <- (app_nil_r root) at 1. apply resolve_body_shift.
Qed.

Lemma resolve_at_some : forall root q m p n,
    q <> [] -> resolve q m = Some (p, n) -> resolve_at root q m = Some (root ++ p, n).
Proof. intros root q m p n Hq H. rewrite resolve_at_shift by assumption. rewrite H. reflexivity. Qed.

Lemma resolve_at_some_inv : forall root q m p n,
    q <> [] -> resolve_at root q m = Some (p, n) -> exists p', p = root ++ p' /\ resolve q m = Some (p', n).
Proof.
  intros root q m p n Hq H. rewrite resolve_at_shift in H by assumption.
  destruct (resolve q m) as [[p' n']|]; simpl in H; [|discriminate]. inversion H; subst.
  exists p'. split; reflexivity.
Qed.

(* ------------------------------------------------------------------ list helpers *)
Lemma existsb_map_Forall : forall (A B : Type) (g : A -> B) (f : B -> bool) (f' : A -> bool) l,
    Forall (fun x => f (g x) = f' x) l -> existsb f (map g l) = existsb f' l.
Proof. intros A B g f f' l H. induction H as [|x l Hx Hl IH]; simpl; [reflexivity | rewrite Hx, IH; reflexivity]. Qed.

Lemma forallb_map_Forall : forall (A B : Type) (g : A -> B) (f : B -> bool) (f' : A -> bool) l,
    Forall (fun x => f (g x) = f' x) l -> forallb f (map g l) = forallb f' l.
Proof. intros A B g f f' l H. induction H as [|x l Hx Hl IH]; simpl; [reflexivity | rewrite Hx, IH; reflexivity]. Qed.

Lemma existsb_false_Forall : forall (A : Type) (f : A -> bool) l,
    existsb f l = false -> Forall (fun x => f x = false) l.
Proof.
  intros A f l. induction l as [|x r IH]; intros H; simpl in H; [constructor|].
  apply orb_false_iff in H. destruct H as [H1 H2]. constructor; [assumption | apply IH; assumption].
Qed.

Lemma Forall_existsb_false : forall (A : Type) (f : A -> bool) l,
    Forall (fun x => f x = false) l -> existsb f l = false.
Proof. intros A f l H. induction H as [|x l Hx Hl IH]; simpl; [reflexivity | rewrite Hx, IH; reflexivity]. Qed.

Lemma forallb_true_Forall : forall (A : Type) (f : A -> bool) l,
    forallb f l = true -> Forall (fun x => f x = true) l.
Proof.
  intros A f l. induction l as [|x r IH]; intros H; simpl in H; [constructor|].
  apply andb_true_iff in H. destruct H as [H1 H2]. constructor; [assumption | apply IH; assumption].
Qed.

Lemma Forall_and2 : forall (A : Type) (P Q : A -> Prop) l, Forall P l -> Forall Q l -> Forall (fun x => P x /\ Q x) l.
Proof. intros A P Q l H. induction H; intros HQ; inversion HQ; subst; constructor; auto. Qed.

Lemma Forall_mp : forall (A : Type) (P Q : A -> Prop) l, Forall (fun x => P x -> Q x) l -> Forall P l -> Forall Q l.
Proof. intros A P Q l H. induction H; intros HP; inversion HP; subst; constructor; auto. Qed.

(* ------------------------------------------------------------------ stmt_exists: unfolding, weakening, maps *)
Lemma stmt_exists_func : forall p i l n a b d r,
    stmt_exists p (AFunc i l n a b d r) = p (AFunc i l n a b d r) || existsb (stmt_exists p) b.
Proof. reflexivity. Qed.

Lemma stmt_exists_class : forall p i l n bs b d,
    stmt_exists p (AClass i l n bs b d) = p (AClass i l n bs b d) || existsb (stmt_exists p) b.
Proof. reflexivity. Qed.

Lemma stmt_exists_other : forall p i t h bl,
    stmt_exists p (AOther i t h bl) = p (AOther i t h bl) || existsb (fun b => existsb (stmt_exists p) b) bl.
Proof. reflexivity. Qed.

Lemma stmt_exists_head : forall p s, stmt_exists p s = false -> p s = false.
Proof. intros p s H. destruct s; simpl in H; apply orb_false_iff in H; destruct H; assumption. Qed.

Lemma stmt_exists_weaken : forall (p p' : astmt -> bool),
    (forall s, p' s = false -> p s = false) ->
    forall s, stmt_exists p' s = false -> stmt_exists p s = false.
Proof.
  intros p p' Hw. induction s using astmt_ind2; intros Hs;
    try (simpl in *; apply orb_false_iff in Hs; destruct Hs as [H1 _]; rewrite (Hw _ H1); reflexivity).
  - rewrite stmt_exists_func in *. apply orb_false_iff in Hs. destruct Hs as [H1 H2]. rewrite (Hw _ H1). simpl.
    apply Forall_existsb_false. apply existsb_false_Forall in H2.
    apply (Forall_mp _ (fun x => stmt_exists p' x = false) (fun x => stmt_exists p x = false)); assumption.
  - rewrite stmt_exists_class in *. apply orb_false_iff in Hs. destruct Hs as [H1 H2]. rewrite (Hw _ H1). simpl.
    apply Forall_existsb_false. apply existsb_false_Forall in H2.
    apply (Forall_mp _ (fun x => stmt_exists p' x = false) (fun x => stmt_exists p x = false)); assumption.
  - rewrite stmt_exists_other in *. apply orb_false_iff in Hs. destruct Hs as [H1 H2]. rewrite (Hw _ H1). simpl.
    apply existsb_false_Forall in H2. apply Forall_existsb_false. clear H1.
    induction H as [|b0 bl0 Hb Hbl IHbl]; [constructor|]. inversion H2; subst. constructor; [|apply IHbl; assumption].
    apply Forall_existsb_false.
    apply (Forall_mp _ (fun x => stmt_exists p' x = false) (fun x => stmt_exists p x = false)); [assumption|].
    apply existsb_false_Forall. assumption.
Qed.

Lemma stmt_exists_map_args : forall (p : astmt -> bool) f,
    (forall s, p (map_args_stmt f s) = p s) ->
    forall s, stmt_exists p (map_args_stmt f s) = stmt_exists p s.
Proof.
  intros p f Hp. induction s using astmt_ind2; try reflexivity.
  - specialize (Hp (AFunc i l n a b d r)). simpl map_args_stmt in *. rewrite !stmt_exists_func, Hp. f_equal.
    apply existsb_map_Forall. assumption.
  - specialize (Hp (AClass i l n bs b d)). simpl map_args_stmt in *. rewrite !stmt_exists_class, Hp. f_equal.
    apply existsb_map_Forall. assumption.
  - specialize (Hp (AOther i t h bl)). simpl map_args_stmt in *. rewrite !stmt_exists_other, Hp. f_equal.
    apply existsb_map_Forall. clear Hp. induction H as [|b0 bl0 Hb Hbl IHbl]; constructor; [|assumption].
    apply existsb_map_Forall. assumption.
  - specialize (Hp (AArgS a)). simpl in *. rewrite Hp. reflexivity.
Qed.

Lemma exists_apply_dlog : forall (p : astmt -> bool) log m,
    (forall s, p (map_args_stmt (attach_default log) s) = p s) ->
    existsb (stmt_exists p) (apply_dlog log m) = existsb (stmt_exists p) m.
Proof.
  intros p log m Hp. unfold apply_dlog. apply existsb_map_Forall. apply Forall_forall. intros s _.
  apply stmt_exists_map_args. assumption.
Qed.

(* ------------------------------------------------------------------ stmt_exists on a freshly annotated tree *)
Section ExistsAnnotate.
  Variable bad : astmt -> bool.
  Variable Q : path -> Prop.
  Hypothesis Qapp : forall p l, Q p -> Q (p ++ l).
  Hypothesis Hbad : forall pname p s, Q p -> bad (annotate_stmt pname p s) = false.

  Definition ex_free (s : stmt) : Prop :=
    forall pname p, Q p -> stmt_exists bad (annotate_stmt pname p s) = false.

  Lemma ex_go_func : forall (n : str) (p : path) l, Q p -> Forall ex_free l -> forall j,
      existsb (stmt_exists bad)
        ((fix go (j : nat) (b : list stmt) : list astmt :=
            match b with [] => [] | x :: r => annotate_stmt [n] (p ++ [2; j]) x :: go (S j) r end) j l) = false.
  Proof.
    intros n p l Hq H. induction H as [|x l Hx Hl IH]; intros j; simpl; [reflexivity|].
    rewrite Hx by (apply Qapp; assumption). apply IH.
  Qed.

  Lemma ex_go_class : forall (n : str) (p : path) l, Q p -> Forall ex_free l -> forall j,
      existsb (stmt_exists bad)
        ((fix go (j : nat) (b : list stmt) : list astmt :=
            match b with [] => [] | x :: r => annotate_stmt [n] (p ++ [j]) x :: go (S j) r end) j l) = false.
  Proof.
    intros n p l Hq H. induction H as [|x l Hx Hl IH]; intros j; simpl; [reflexivity|].
    rewrite Hx by (apply Qapp; assumption). apply IH.
  Qed.

  Lemma ex_go_block : forall (p : path) (bi : nat) l, Q p -> Forall ex_free l -> forall j,
      existsb (stmt_exists bad)
        ((fix go (j : nat) (b : list stmt) : list astmt :=
            match b with [] => [] | x :: r' => annotate_stmt [] (p ++ [bi; j]) x :: go (S j) r' end) j l) = false.
  Proof.
    intros p bi l Hq H. induction H as [|x l Hx Hl IH]; intros j; simpl; [reflexivity|].
    rewrite Hx by (apply Qapp; assumption). apply IH.
  Qed.

  Lemma ex_gob : forall (p : path) bl, Q p -> Forall (Forall ex_free) bl -> forall bi,
      existsb (fun b => existsb (stmt_exists bad) b)
        ((fix gob (bi : nat) (bl : list (list stmt)) : list (list astmt) :=
            match bl with
            | [] => []
            | b :: r =>
              ((fix go (j : nat) (b : list stmt) : list astmt :=
                  match b with [] => [] | x :: r' => annotate_stmt [] (p ++ [bi; j]) x :: go (S j) r' end) 0 b)
              :: gob (S bi) r
            end) bi bl) = false.
  Proof.
    intros p bl Hq H. induction H as [|b l Hb Hl IH]; intros bi; simpl; [reflexivity|].
    rewrite ex_go_block by assumption. apply IH.
  Qed.

  Lemma ex_free_all : forall s, ex_free s.
  Proof.
    induction s using stmt_ind2; intros pname p Hq.
    - pose proof (Hbad pname p (SFunc n a b d r) Hq) as Hb. simpl annotate_stmt in *.
      rewrite stmt_exists_func, Hb. simpl. apply ex_go_func; assumption.
    - pose proof (Hbad pname p (SClass n bs b d) Hq) as Hb. simpl annotate_stmt in *.
      rewrite stmt_exists_class, Hb. simpl. apply ex_go_class; assumption.
    - pose proof (Hbad pname p (SAnnAssign t a v) Hq) as Hb. simpl in *. rewrite Hb. reflexivity.
    - pose proof (Hbad pname p (SAssign ts v) Hq) as Hb. simpl in *. rewrite Hb. reflexivity.
    - pose proof (Hbad pname p (SExpr e) Hq) as Hb. simpl in *. rewrite Hb. reflexivity.
    - pose proof (Hbad pname p (SReturn e) Hq) as Hb. simpl in *. rewrite Hb. reflexivity.
    - pose proof (Hbad pname p (SOther t h bl) Hq) as Hb. simpl annotate_stmt in *.
      rewrite stmt_exists_other, Hb. simpl. apply ex_gob; assumption.
  Qed.

  Lemma ex_free_body : forall b pname p j, Q p ->
      existsb (stmt_exists bad) (annotate_body pname p j b) = false.
  Proof.
    induction b as [|x r IH]; intros pname p j Hq; simpl; [reflexivity|].
    rewrite (ex_free_all x) by (apply Qapp; assumption). apply IH. assumption.
  Qed.
End ExistsAnnotate.

(* ---- nothing that emit.file rejects is in a parsed tree ---- *)
Definition dirty (s : astmt) : bool :=
  match s with
  | AFunc _ _ _ a _ _ _ => existsb default_is_raw (aar_defaults a) || existsb default_is_arg (aar_defaults a)
  | AArgS _ => true
  | _ => false
  end.

Lemma defaults_DExpr_clean : forall l,
    existsb default_is_raw (map DExpr l) = false /\ existsb default_is_arg (map DExpr l) = false.
Proof. induction l as [|e r [IH1 IH2]]; simpl; split; auto. Qed.

Lemma dirty_annotate : forall pname p s, True -> dirty (annotate_stmt pname p s) = false.
Proof.
  intros pname p s _. destruct s; try reflexivity. simpl.
  destruct (defaults_DExpr_clean (ar_defaults args)) as [H1 H2]. rewrite H1, H2. reflexivity.
Qed.

Lemma annotate_clean : forall root m, existsb (stmt_exists dirty) (annotate_at root m) = false.
Proof.
  intros root m. unfold annotate_at.
  apply (ex_free_body dirty (fun _ => True)); auto. apply dirty_annotate.
Qed.

Lemma clean_emit : forall t, existsb (stmt_exists dirty) t = false -> emit_file t = Ok [EvWrite FOutput t].
Proof.
  intros t H. unfold emit_file.
  assert (H1 : has_raw_default t = false).
  { unfold has_raw_default. apply Forall_existsb_false. apply existsb_false_Forall in H.
    eapply Forall_impl; [|exact H]. intros s Hs. simpl in Hs. revert Hs. apply stmt_exists_weaken.
    intros s0 Hd. destruct s0; try reflexivity. simpl in Hd. apply orb_false_iff in Hd. destruct Hd; assumption. }
  assert (H2 : has_misplaced_arg t = false).
  { unfold has_misplaced_arg. apply Forall_existsb_false. apply existsb_false_Forall in H.
    eapply Forall_impl; [|exact H]. intros s Hs. simpl in Hs. revert Hs. apply stmt_exists_weaken.
    intros s0 Hd. destruct s0; try reflexivity; simpl in Hd; [|discriminate].
    apply orb_false_iff in Hd. destruct Hd; assumption. }
  rewrite H1, H2. reflexivity.
Qed.

Lemma dirty_map_args : forall f s, dirty (map_args_stmt f s) = dirty s.
Proof. intros f s. destruct s; reflexivity. Qed.

Lemma parent_map_args : forall q f s, is_parent_func q (map_args_stmt f s) = is_parent_func q s.
Proof. intros q f s. destruct s; reflexivity. Qed.

(* ------------------------------------------------------------------ identities: the two trees are disjoint *)
Definition bad_id (i : path) (s : astmt) : bool :=
  match s with
  | AFunc _ _ _ a _ _ _ =>
    existsb (fun x => path_eqb (aa_id x) i) (aar_args a) || existsb (fun x => path_eqb (aa_id x) i) (aar_kwonly a)
  | AAnnAssign j _ _ _ _ => path_eqb j i
  | AArgS a => path_eqb (aa_id a) i
  | _ => false
  end.

Definition starts0 (p : path) : Prop := exists r, p = 0 :: r.

Lemma starts0_app : forall p l, starts0 p -> starts0 (p ++ l).
Proof. intros p l [r H]. subst. exists (r ++ l). reflexivity. Qed.

Lemma starts0_neq : forall p r, starts0 p -> path_eqb p (1 :: r) = false.
Proof. intros p r [r' H]. subst. reflexivity. Qed.

Lemma annotate_args_ids : forall floc p r l k idx, starts0 p ->
    existsb (fun x => path_eqb (aa_id x) (1 :: r)) (annotate_args floc p k idx l) = false.
Proof.
  intros floc p r l. induction l as [|a rest IH]; intros k idx Hp; simpl; [reflexivity|].
  rewrite starts0_neq by (apply starts0_app; assumption). apply IH. assumption.
Qed.

Lemma bad_id_annotate : forall r pname p s, starts0 p -> bad_id (1 :: r) (annotate_stmt pname p s) = false.
Proof.
  intros r pname p s Hp. destruct s; try reflexivity.
  - simpl. rewrite !annotate_args_ids by (apply starts0_app; assumption). reflexivity.
  - simpl. apply starts0_neq. assumption.
Qed.

Lemma annotate0_ids : forall r m, existsb (stmt_exists (bad_id (1 :: r))) (annotate_at [0] m) = false.
Proof.
  intros r m. unfold annotate_at. apply (ex_free_body (bad_id (1 :: r)) starts0).
  - apply starts0_app.
  - apply bad_id_annotate.
  - exists []. reflexivity.
Qed.

Lemma bad_id_map_args : forall i f, (forall a, aa_id (f a) = aa_id a) ->
                                   forall s, bad_id i (map_args_stmt f s) = bad_id i s.
Proof.
  intros i f Hf s. destruct s; try reflexivity.
  - simpl. f_equal; apply existsb_map_Forall; apply Forall_forall; intros x _; rewrite Hf; reflexivity.
  - simpl. rewrite Hf. reflexivity.
Qed.

Lemma map_id_Forall : forall (A : Type) (g : A -> A) l, Forall (fun x => g x = x) l -> map g l = l.
Proof. intros A g l H. induction H as [|x l Hx Hl IH]; simpl; [reflexivity | rewrite Hx, IH; reflexivity]. Qed.

Lemma set_arg_ann_list_id : forall i e l,
    existsb (fun x => path_eqb (aa_id x) i) l = false -> map (set_arg_ann i e) l = l.
Proof.
  intros i e l H. apply map_id_Forall. apply existsb_false_Forall in H.
  eapply Forall_impl; [|exact H]. intros a Ha. simpl in Ha. unfold set_arg_ann. rewrite Ha. reflexivity.
Qed.

Lemma set_ann_args_id : forall i e s, stmt_exists (bad_id i) s = false -> map_args_stmt (set_arg_ann i e) s = s.
Proof.
  intros i e. induction s using astmt_ind2; intros Hs; try reflexivity.
  - rewrite stmt_exists_func in Hs. apply orb_false_iff in Hs. destruct Hs as [H1 H2].
    simpl in H1. apply orb_false_iff in H1. destruct H1 as [Ha Hk]. simpl. f_equal.
    + destruct a as [aa ad ak akd av akw]. unfold map_arguments. simpl in *.
      rewrite !set_arg_ann_list_id by assumption. reflexivity.
    + apply map_id_Forall. apply existsb_false_Forall in H2.
      apply (Forall_mp _ (fun x => stmt_exists (bad_id i) x = false)); assumption.
  - rewrite stmt_exists_class in Hs. apply orb_false_iff in Hs. destruct Hs as [_ H2]. simpl. f_equal.
    apply map_id_Forall. apply existsb_false_Forall in H2.
    apply (Forall_mp _ (fun x => stmt_exists (bad_id i) x = false)); assumption.
  - rewrite stmt_exists_other in Hs. apply orb_false_iff in Hs. destruct Hs as [_ H2]. simpl. f_equal.
    apply existsb_false_Forall in H2. apply map_id_Forall.
    induction H as [|b0 bl0 Hb Hbl IHbl]; [constructor|]. inversion H2; subst. constructor; [|apply IHbl; assumption].
    apply map_id_Forall. apply (Forall_mp _ (fun x => stmt_exists (bad_id i) x = false)); [assumption|].
    apply existsb_false_Forall. assumption.
  - simpl in Hs. rewrite orb_false_r in Hs. simpl. unfold set_arg_ann. rewrite Hs. reflexivity.
Qed.

Lemma set_ann_stmts_id : forall i e s, stmt_exists (bad_id i) s = false -> map_stmts (set_stmt_ann i e) s = s.
Proof.
  intros i e. induction s using astmt_ind2; intros Hs; try reflexivity.
  - rewrite stmt_exists_func in Hs. apply orb_false_iff in Hs. destruct Hs as [_ H2]. simpl. f_equal.
    apply map_id_Forall. apply existsb_false_Forall in H2.
    apply (Forall_mp _ (fun x => stmt_exists (bad_id i) x = false)); assumption.
  - rewrite stmt_exists_class in Hs. apply orb_false_iff in Hs. destruct Hs as [_ H2]. simpl. f_equal.
    apply map_id_Forall. apply existsb_false_Forall in H2.
    apply (Forall_mp _ (fun x => stmt_exists (bad_id i) x = false)); assumption.
  - simpl in Hs. rewrite orb_false_r in Hs. simpl. rewrite Hs. reflexivity.
  - rewrite stmt_exists_other in Hs. apply orb_false_iff in Hs. destruct Hs as [_ H2]. simpl. f_equal.
    apply existsb_false_Forall in H2. apply map_id_Forall.
    induction H as [|b0 bl0 Hb Hbl IHbl]; [constructor|]. inversion H2; subst. constructor; [|apply IHbl; assumption].
    apply map_id_Forall. apply (Forall_mp _ (fun x => stmt_exists (bad_id i) x = false)); [assumption|].
    apply existsb_false_Forall. assumption.
Qed.

Lemma set_ann_by_id_absent : forall i e m,
    existsb (stmt_exists (bad_id i)) m = false -> set_ann_by_id i e m = m.
Proof.
  intros i e m H. unfold set_ann_by_id. apply map_id_Forall. apply existsb_false_Forall in H.
  eapply Forall_impl; [|exact H]. intros s Hs. simpl in Hs.
  rewrite set_ann_args_id by assumption. apply set_ann_stmts_id. assumption.
Qed.

(* the output tree after find_in_ast ran on the input tree: no node of it has an identity of the input tree *)
Lemma output_ids_after_dlog : forall r log m,
    existsb (stmt_exists (bad_id (1 :: r))) (apply_dlog log (annotate_at [0] m)) = false.
Proof.
  intros r log m. rewrite exists_apply_dlog; [apply annotate0_ids|].
  intros s. apply bad_id_map_args. intros a. apply attach_default_keeps.
Qed.

(* ------------------------------------------------------------------ const_hazard and stmt_loc_free do not see defaults *)
Lemma stmt_hazard_map_args : forall seg f, (forall a, aa_ann (f a) = aa_ann a) ->
                                           forall s, stmt_hazard seg (map_args_stmt f s) = stmt_hazard seg s.
Proof.
  intros seg f Hf. induction s using astmt_ind2; try reflexivity.
  - simpl. f_equal. apply existsb_map_Forall. assumption.
  - simpl. f_equal. apply existsb_map_Forall.
    induction H as [|b0 bl0 Hb Hbl IHbl]; constructor; [|assumption]. apply existsb_map_Forall. assumption.
  - simpl. rewrite Hf. reflexivity.
Qed.

Lemma attach_default_ann : forall log a, aa_ann (attach_default log a) = aa_ann a.
Proof.
  intros log a. unfold attach_default.
  destruct (List.find (fun ev => path_eqb (fst ev) (aa_id a)) log); reflexivity.
Qed.

Lemma const_hazard_apply_dlog : forall q log m, const_hazard q (apply_dlog log m) = const_hazard q m.
Proof.
  intros q log m. unfold const_hazard. destruct q as [|x q']; [reflexivity|]. unfold apply_dlog.
  apply existsb_map_Forall. apply Forall_forall. intros s _. apply stmt_hazard_map_args. apply attach_default_ann.
Qed.

Lemma stmt_loc_free_map_args : forall q f, (forall a, aa_loc (f a) = aa_loc a) ->
                                           forall s, stmt_loc_free q (map_args_stmt f s) = stmt_loc_free q s.
Proof.
  intros q f Hf. induction s using astmt_ind2; try reflexivity.
  - simpl. f_equal. apply forallb_map_Forall. assumption.
  - simpl. apply forallb_map_Forall.
    induction H as [|b0 bl0 Hb Hbl IHbl]; constructor; [|assumption]. apply forallb_map_Forall. assumption.
  - simpl. rewrite Hf. reflexivity.
Qed.

Lemma stmt_loc_free_apply_dlog : forall q log m,
    forallb (stmt_loc_free q) (apply_dlog log m) = forallb (stmt_loc_free q) m.
Proof.
  intros q log m. unfold apply_dlog. apply forallb_map_Forall. apply Forall_forall. intros s _.
  apply stmt_loc_free_map_args. intros a. apply attach_default_keeps.
Qed.

(* ------------------------------------------------------------------ the visit terminates: an assignment as replacement *)
Section VisitStmtRepl.
  Variable q : loc.
  Variable s0 : astmt.
  Hypothesis Hs0clean : stmt_exists dirty s0 = false.

  Definition vs_ok (s : astmt) : Prop :=
    stmt_exists (is_parent_func q) s = false ->
    forall st, rw_node st = NStmt s0 ->
      exists s' st', visit_stmt q st s = Ok (s', st') /\ rw_node st' = NStmt s0
                     /\ (stmt_exists dirty s = false -> stmt_exists dirty s' = false).

  Definition vs_list_ok (l : list astmt) : Prop :=
    existsb (stmt_exists (is_parent_func q)) l = false ->
    forall st, rw_node st = NStmt s0 ->
      exists l' st', visit_list q st l = Ok (l', st') /\ rw_node st' = NStmt s0
                     /\ (existsb (stmt_exists dirty) l = false -> existsb (stmt_exists dirty) l' = false).

  Lemma vs_list_of : forall l, Forall vs_ok l -> vs_list_ok l.
  Proof.
    intros l H. induction H as [|x l Hx Hl IH]; intros Hp st Hst.
    - exists [], st. repeat split; auto.
    - simpl in Hp. apply orb_false_iff in Hp. destruct Hp as [Hp1 Hp2].
      destruct (Hx Hp1 st Hst) as [x' [st1 [E1 [N1 D1]]]].
      destruct (IH Hp2 st1 N1) as [l' [st2 [E2 [N2 D2]]]].
      exists (x' :: l'), st2. simpl. rewrite E1. simpl. rewrite E2. simpl. split; [reflexivity|]. split; [assumption|].
      intros Hd. apply orb_false_iff in Hd. destruct Hd as [Hd1 Hd2]. rewrite (D1 Hd1), (D2 Hd2). reflexivity.
  Qed.

  Lemma vs_blocks_of : forall bl, Forall (Forall vs_ok) bl ->
    existsb (fun b => existsb (stmt_exists (is_parent_func q)) b) bl = false ->
    forall st, rw_node st = NStmt s0 ->
      exists bl' st', visit_blocks q st bl = Ok (bl', st') /\ rw_node st' = NStmt s0
                      /\ (existsb (fun b => existsb (stmt_exists dirty) b) bl = false
                          -> existsb (fun b => existsb (stmt_exists dirty) b) bl' = false).
  Proof.
    intros bl H. induction H as [|b bl Hb Hbl IH]; intros Hp st Hst.
    - exists [], st. repeat split; auto.
    - simpl in Hp. apply orb_false_iff in Hp. destruct Hp as [Hp1 Hp2].
      destruct (vs_list_of b Hb Hp1 st Hst) as [b' [st1 [E1 [N1 D1]]]].
      destruct (IH Hp2 st1 N1) as [bl' [st2 [E2 [N2 D2]]]].
      exists (b' :: bl'), st2. simpl. rewrite E1. simpl. rewrite E2. simpl. split; [reflexivity|]. split; [assumption|].
      intros Hd. apply orb_false_iff in Hd. destruct Hd as [Hd1 Hd2]. rewrite (D1 Hd1), (D2 Hd2). reflexivity.
  Qed.

  Lemma vs_leaf : forall s st,
      rw_node st = NStmt s0 ->
      (forall c : bool,
          visit_stmt q st s = (if c then (do r <- node_as_stmt (rw_node st); Ok (r, mkRw true (rw_node st))) else Ok (s, st))
          -> exists s' st', visit_stmt q st s = Ok (s', st') /\ rw_node st' = NStmt s0
                            /\ (stmt_exists dirty s = false -> stmt_exists dirty s' = false)).
  Proof.
    intros s st Hst c E. rewrite E. destruct c.
    - rewrite Hst. simpl. exists s0. eexists. split; [reflexivity|]. split; [reflexivity|]. intros _. exact Hs0clean.
    - exists s, st. repeat split; auto.
  Qed.

  Lemma vs_all : forall s, vs_ok s.
  Proof.
    induction s using astmt_ind2; intros Hp st Hst.
    - apply stmt_exists_head in Hp. simpl in Hp. exists (AFunc i l n a b d r), st.
      change (visit_stmt q st (AFunc i l n a b d r)) with (visit_FunctionDef q st (AFunc i l n a b d r)).
      unfold visit_FunctionDef. rewrite Hp, andb_false_r. repeat split; auto.
    - rewrite visit_stmt_class. rewrite stmt_exists_class in Hp. apply orb_false_iff in Hp. destruct Hp as [_ Hp].
      destruct (negb (rw_replaced st) && oloc_eqb l q).
      + rewrite Hst. simpl. exists s0. eexists. split; [reflexivity|]. split; [reflexivity|]. intros _. exact Hs0clean.
      + destruct (vs_list_of b H Hp st Hst) as [b' [st1 [E1 [N1 D1]]]]. rewrite E1. simpl.
        eexists. eexists. split; [reflexivity|]. split; [assumption|].
        rewrite !stmt_exists_class. simpl. exact D1.
    - apply (vs_leaf _ st Hst (negb (rw_replaced st) && oloc_eqb l q)). reflexivity.
    - apply (vs_leaf _ st Hst (negb (rw_replaced st) && oloc_eqb l q)). reflexivity.
    - apply (vs_leaf _ st Hst (negb (rw_replaced st) && false)). reflexivity.
    - apply (vs_leaf _ st Hst (negb (rw_replaced st) && false)). reflexivity.
    - rewrite visit_stmt_other. rewrite stmt_exists_other in Hp. apply orb_false_iff in Hp. destruct Hp as [_ Hp].
      destruct (vs_blocks_of bl H Hp st Hst) as [bl' [st1 [E1 [N1 D1]]]]. rewrite E1. simpl.
      eexists. eexists. split; [reflexivity|]. split; [assumption|].
      rewrite !stmt_exists_other. simpl. exact D1.
    - apply (vs_leaf _ st Hst (negb (rw_replaced st) && oloc_eqb (aa_loc a) q)). reflexivity.
  Qed.

  Lemma rewrite_stmt_ok : forall t p,
      q <> [] -> existsb (stmt_exists (is_parent_func q)) t = false ->
      existsb (stmt_exists dirty) t = false -> first_hit_list q t = Some p ->
      exists g st, rewrite_visit q (NStmt s0) t = Ok (NMod g, st) /\ rw_replaced st = true
                   /\ rw_node st = NStmt s0 /\ existsb (stmt_exists dirty) g = false.
  Proof.
    intros t p Hq Hp Hd Hf.
    assert (Hall : Forall vs_ok t) by (apply Forall_forall; intros x _; apply vs_all).
    destruct (vs_list_of t Hall Hp (mkRw false (NStmt s0)) eq_refl) as [g [st [E [N D]]]].
    assert (Hv : rewrite_visit q (NStmt s0) t = Ok (NMod g, st)).
    { unfold rewrite_visit. destruct q; [contradiction|]. rewrite E. reflexivity. }
    exists g, st. split; [assumption|]. split; [|split; [assumption | apply D; assumption]].
    rewrite (C15_rewrite_position q (NStmt s0) t g st Hq Hv), Hf. reflexivity.
  Qed.
End VisitStmtRepl.

(* ------------------------------------------------------------------ the visit terminates: an argument as replacement *)
Section VisitArgRepl.
  Variable q : loc.
  Variable a0 : aarg.

  Definition va_ok (s : astmt) : Prop :=
    stmt_loc_free q s = true ->
    forall st, rw_node st = NArg a0 ->
      exists s' st', visit_stmt q st s = Ok (s', st') /\ rw_node st' = NArg a0
                     /\ (stmt_exists dirty s = false -> stmt_exists dirty s' = false).

  Lemma va_list_of : forall l, Forall va_ok l ->
    forallb (stmt_loc_free q) l = true ->
    forall st, rw_node st = NArg a0 ->
      exists l' st', visit_list q st l = Ok (l', st') /\ rw_node st' = NArg a0
                     /\ (existsb (stmt_exists dirty) l = false -> existsb (stmt_exists dirty) l' = false).
  Proof.
    intros l H. induction H as [|x l Hx Hl IH]; intros Hp st Hst.
    - exists [], st. repeat split; auto.
    - simpl in Hp. apply andb_true_iff in Hp. destruct Hp as [Hp1 Hp2].
      destruct (Hx Hp1 st Hst) as [x' [st1 [E1 [N1 D1]]]].
      destruct (IH Hp2 st1 N1) as [l' [st2 [E2 [N2 D2]]]].
      exists (x' :: l'), st2. simpl. rewrite E1. simpl. rewrite E2. simpl. split; [reflexivity|]. split; [assumption|].
      intros Hd. apply orb_false_iff in Hd. destruct Hd as [Hd1 Hd2]. rewrite (D1 Hd1), (D2 Hd2). reflexivity.
  Qed.

  Lemma va_blocks_of : forall bl, Forall (Forall va_ok) bl ->
    forallb (fun b => forallb (stmt_loc_free q) b) bl = true ->
    forall st, rw_node st = NArg a0 ->
      exists bl' st', visit_blocks q st bl = Ok (bl', st') /\ rw_node st' = NArg a0
                      /\ (existsb (fun b => existsb (stmt_exists dirty) b) bl = false
                          -> existsb (fun b => existsb (stmt_exists dirty) b) bl' = false).
  Proof.
    intros bl H. induction H as [|b bl Hb Hbl IH]; intros Hp st Hst.
    - exists [], st. repeat split; auto.
    - simpl in Hp. apply andb_true_iff in Hp. destruct Hp as [Hp1 Hp2].
      destruct (va_list_of b Hb Hp1 st Hst) as [b' [st1 [E1 [N1 D1]]]].
      destruct (IH Hp2 st1 N1) as [bl' [st2 [E2 [N2 D2]]]].
      exists (b' :: bl'), st2. simpl. rewrite E1. simpl. rewrite E2. simpl. split; [reflexivity|]. split; [assumption|].
      intros Hd. apply orb_false_iff in Hd. destruct Hd as [Hd1 Hd2]. rewrite (D1 Hd1), (D2 Hd2). reflexivity.
  Qed.

  Lemma va_all : forall s, va_ok s.
  Proof.
    induction s using astmt_ind2; intros Hp st Hst.
    - change (visit_stmt q st (AFunc i l n a b d r)) with (visit_FunctionDef q st (AFunc i l n a b d r)).
      unfold visit_FunctionDef. destruct (negb (rw_replaced st) && oloc_eqb l (removelast q)).
      + rewrite Hst. simpl.
        destruct (replace_first_arg q a0 (aar_args a)) as [args1 b1].
        destruct (replace_first_arg q a0 (aar_kwonly a)) as [kw1 b2].
        eexists. eexists. split; [reflexivity|]. split; [reflexivity|].
        rewrite !stmt_exists_func. simpl. auto.
      + exists (AFunc i l n a b d r), st. repeat split; auto.
    - rewrite visit_stmt_class. simpl in Hp. apply andb_true_iff in Hp. destruct Hp as [Hl Hp].
      apply negb_true_iff in Hl. rewrite Hl, andb_false_r.
      destruct (va_list_of b H Hp st Hst) as [b' [st1 [E1 [N1 D1]]]]. rewrite E1. simpl.
      eexists. eexists. split; [reflexivity|]. split; [assumption|].
      rewrite !stmt_exists_class. simpl. exact D1.
    - simpl in Hp. apply negb_true_iff in Hp. simpl. rewrite Hp, andb_false_r.
      eexists. eexists. split; [reflexivity|]. split; auto.
    - simpl in Hp. apply negb_true_iff in Hp. simpl. rewrite Hp, andb_false_r.
      eexists. eexists. split; [reflexivity|]. split; auto.
    - simpl. rewrite andb_false_r. eexists. eexists. split; [reflexivity|]. split; auto.
    - simpl. rewrite andb_false_r. eexists. eexists. split; [reflexivity|]. split; auto.
    - rewrite visit_stmt_other. simpl in Hp.
      destruct (va_blocks_of bl H Hp st Hst) as [bl' [st1 [E1 [N1 D1]]]]. rewrite E1. simpl.
      eexists. eexists. split; [reflexivity|]. split; [assumption|].
      rewrite !stmt_exists_other. simpl. exact D1.
    - simpl in Hp. apply negb_true_iff in Hp. simpl. rewrite Hp, andb_false_r.
      eexists. eexists. split; [reflexivity|]. split; auto.
  Qed.

  Lemma rewrite_arg_ok : forall t p,
      q <> [] -> forallb (stmt_loc_free q) t = true ->
      existsb (stmt_exists dirty) t = false -> first_hit_list q t = Some p ->
      exists g st, rewrite_visit q (NArg a0) t = Ok (NMod g, st) /\ rw_replaced st = true
                   /\ rw_node st = NArg a0 /\ existsb (stmt_exists dirty) g = false.
  Proof.
    intros t p Hq Hp Hd Hf.
    assert (Hall : Forall va_ok t) by (apply Forall_forall; intros x _; apply va_all).
    destruct (va_list_of t Hall Hp (mkRw false (NArg a0)) eq_refl) as [g [st [E [N D]]]].
    assert (Hv : rewrite_visit q (NArg a0) t = Ok (NMod g, st)).
    { unfold rewrite_visit. destruct q; [contradiction|]. rewrite E. reflexivity. }
    exists g, st. split; [assumption|]. split; [|split; [assumption | apply D; assumption]].
    rewrite (C15_rewrite_position q (NArg a0) t g st Hq Hv), Hf. reflexivity.
  Qed.
End VisitArgRepl.

(* ------------------------------------------------------------------ the node found, read through node_view *)
Lemma view_arg : forall n p a, node_view n = (p, PArg a) -> exists a', n = NArg a' /\ aa_id a' = p /\ erase_arg a' = a.
Proof.
  intros n p a H. destruct n as [m|s|a']; simpl in H; try discriminate.
  inversion H; subst. exists a'. repeat split.
Qed.

Lemma view_annassign : forall n p t ann v,
    node_view n = (p, PStmt (SAnnAssign t ann v)) -> exists l, n = NStmt (AAnnAssign p l t ann v).
Proof.
  intros n p t ann v H. destruct n as [m|s|a']; simpl in H; try discriminate.
  destruct s; simpl in H; try discriminate. inversion H; subst. eexists. reflexivity.
Qed.

Lemma view_assign : forall n p ts v,
    node_view n = (p, PStmt (SAssign ts v)) -> exists l, n = NStmt (AAssign p l ts v).
Proof.
  intros n p ts v H. destruct n as [m|s|a']; simpl in H; try discriminate.
  destruct s; simpl in H; try discriminate. inversion H; subst. eexists. reflexivity.
Qed.

(* the template step on a leaf node *)
Lemma apply_wrap_leaf : forall env w n i1 o1 pi src,
    node_view n = (pi, src) -> leaf_pnode src = true ->
    (match w, src with Some _, PStmt (SAssign _ _) => true | _, _ => false end) = false ->
    (forall w0 e, w = Some w0 -> src_ann src = Some e -> is_ok (wrap_annotation env w0 e) = true) ->
    exists repl i2 o2 want,
      apply_wrap env w n i1 o1 = Ok (repl, i2, o2)
      /\ (o2 = o1 \/ exists e, o2 = set_ann_by_id pi e o1)
      /\ node_view repl = (pi, want)
      /\ is_container repl = false
      /\ (forall x dst, ci_wrap x = w -> ci_env x = env -> leaf_pnode dst = true -> is_parg dst = is_parg src ->
                        expected_node x src dst = Some (Ok want))
      /\ ((is_parg src = true /\ exists a, repl = NArg a)
          \/ (is_parg src = false /\ exists s0, repl = NStmt s0 /\ stmt_exists dirty s0 = false)).
Proof.
  intros env w n i1 o1 pi src Hv Hleaf Hnw Hwr.
  destruct src as [m|s|a]; simpl in Hleaf; try discriminate.
  - (* an assignment *)
    destruct s as [fn fa fb fd fr|cn cbs cb cd|t ann v|ts v|e|e|tg hd bl]; try discriminate.
    + destruct (view_annassign _ _ _ _ _ Hv) as [l Hn]. subst n. unfold apply_wrap.
      destruct w as [w0|].
      * pose proof (Hwr w0 ann eq_refl eq_refl) as Hok.
        destruct (wrap_annotation env w0 ann) as [e'|er] eqn:Ew; [|discriminate]. simpl.
        exists (NStmt (AAnnAssign pi l t e' v)).
        destruct pi as [|k pi'].
        -- eexists. eexists. eexists. split; [reflexivity|]. split; [left; reflexivity|]. split; [reflexivity|].
           split; [reflexivity|]. split.
           ++ intros x dst Hw He Hld Hpd. destruct dst as [dm|ds|da]; simpl in Hpd; try discriminate.
              ** unfold expected_node, expected_ann. rewrite Hw, He. destruct t; simpl; rewrite Ew; reflexivity.
           ++ right. split; [reflexivity|]. eexists. split; reflexivity.
        -- eexists. eexists. eexists. split; [reflexivity|]. split; [right; eexists; reflexivity|]. split; [reflexivity|].
           split; [reflexivity|]. split.
           ++ intros x dst Hw He Hld Hpd. destruct dst as [dm|ds|da]; simpl in Hpd; try discriminate.
              ** unfold expected_node, expected_ann. rewrite Hw, He. destruct t; simpl; rewrite Ew; reflexivity.
           ++ right. split; [reflexivity|]. eexists. split; reflexivity.
      * eexists. eexists. eexists. eexists. split; [reflexivity|]. split; [left; reflexivity|]. split; [reflexivity|].
        split; [reflexivity|]. split.
        -- intros x dst Hw He Hld Hpd. destruct dst as [dm|ds|da]; simpl in Hpd; try discriminate.
           ++ unfold expected_node, expected_ann. rewrite Hw. destruct t; reflexivity.
        -- right. split; [reflexivity|]. eexists. split; reflexivity.
    + destruct (view_assign _ _ _ _ Hv) as [l Hn]. subst n. unfold apply_wrap.
      destruct w as [w0|]; [discriminate|].
      eexists. eexists. eexists. eexists. split; [reflexivity|]. split; [left; reflexivity|]. split; [reflexivity|].
      split; [reflexivity|]. split.
      * intros x dst Hw He Hld Hpd. destruct dst as [dm|ds|da]; simpl in Hpd; try discriminate.
        -- unfold expected_node. rewrite Hw. reflexivity.
      * right. split; [reflexivity|]. eexists. split; reflexivity.
  - (* an argument *)
    destruct (view_arg _ _ _ Hv) as [a' [Hn [Hid Hera]]]. subst n. unfold apply_wrap.
    assert (Hann : a_ann a = aa_ann a') by (rewrite <- Hera; reflexivity).
    assert (Hname : a_name a = aa_name a') by (rewrite <- Hera; reflexivity).
    destruct w as [w0|].
    + destruct (aa_ann a') as [ann|] eqn:Ea.
      * pose proof (Hwr w0 ann eq_refl Hann) as Hok.
        destruct (wrap_annotation env w0 ann) as [e'|er] eqn:Ew; [|discriminate]. simpl. rewrite Hid.
        eexists. eexists. eexists. eexists. split; [reflexivity|]. split; [right; eexists; reflexivity|].
        split; [reflexivity|]. split; [reflexivity|]. split.
        -- intros x dst Hw He Hld Hpd. destruct dst as [dm|ds|da]; simpl in Hpd; try discriminate.
           unfold expected_node, expected_ann. rewrite Hw, He, Hann. simpl. rewrite Ew. simpl.
           unfold erase_arg. simpl. rewrite Hname. reflexivity.
        -- left. split; [reflexivity|]. eexists. reflexivity.
      * eexists. eexists. eexists. eexists. split; [reflexivity|]. split; [left; reflexivity|].
        split; [simpl; rewrite Hid; reflexivity|]. split; [reflexivity|]. split.
        -- intros x dst Hw He Hld Hpd. destruct dst as [dm|ds|da]; simpl in Hpd; try discriminate.
           unfold expected_node, expected_ann. rewrite Hw, Hann. simpl.
           unfold erase_arg. rewrite Ea, Hname. reflexivity.
        -- left. split; [reflexivity|]. eexists. reflexivity.
    + eexists. eexists. eexists. eexists. split; [reflexivity|]. split; [left; reflexivity|].
      split; [simpl; rewrite Hid; reflexivity|]. split; [reflexivity|]. split.
      * intros x dst Hw He Hld Hpd. destruct dst as [dm|ds|da]; simpl in Hpd; try discriminate.
        unfold expected_node, expected_ann. rewrite Hw. simpl. rewrite <- Hera. reflexivity.
      * left. split; [reflexivity|]. eexists. reflexivity.
Qed.

(* ------------------------------------------------------------------ one pair: the call succeeds *)
Lemma sync_property_success : forall env ip i e op w o last n log repl i2 o2 g st,
    find_in_ast_log (dotted ip) i = Ok (Some n, log) ->
    apply_wrap env w n (apply_dlog log i) (apply_dlog log o) = Ok (repl, i2, o2) ->
    is_container repl = false -> const_hazard (dotted op) o2 = false ->
    rewrite_visit (dotted op) repl o2 = Ok (NMod g, st) -> rw_replaced st = true ->
    sync_property env false ip i e op w o last = Ok (g, i2).
Proof.
  intros env ip i e op w o last n log repl i2 o2 g st Hf Hw Hc Hh Hr Hrep.
  unfold sync_property. fold (dotted op). fold (dotted ip). rewrite Hf. simpl. rewrite Hw. simpl.
  rewrite Hc. simpl. rewrite Hh, Hr. simpl. rewrite Hrep. reflexivity.
Qed.

Lemma run_single : forall x ip op i0 o0 g i2,
    ast_parse [1] (ci_in x) = Ok i0 -> ast_parse [0] (ci_out x) = Ok o0 ->
    ci_ips x = [ip] -> ci_ops x = [op] ->
    (forall e, sync_property (ci_env x) (ci_eval x) ip i0 e op (ci_wrap x) o0 true = Ok (g, i2)) ->
    emit_file g = Ok [EvWrite FOutput g] ->
    run_C14 x = ([EvWrite FOutput g], Ok tt).
Proof.
  intros x ip op i0 o0 g i2 Hi Ho Eips Eops Hsp He.
  unfold run_C14, sync_properties. rewrite Hi, Ho, Eips, Eops. cbn [bind List.length Nat.eqb negb].
  destruct (ci_evs x); cbn [zip3 sync_loop is_empty]; rewrite Hsp; cbn [bind fst snd sync_loop]; rewrite He; reflexivity.
Qed.

Lemma domain_facts : forall x, C14_domain x = true ->
    supported (ci_in x) = true /\ supported (ci_out x) = true
    /\ Nat.eqb (List.length (ci_ips x)) (List.length (ci_ops x)) = true
    /\ negb (Nat.eqb (List.length (ci_ips x)) 0) = true
    /\ forallb (fun o => match o with Some (_, n) => leaf_pnode n | None => true end) (in_nodes x) = true
    /\ forallb (fun op => match resolve (dotted op) (ci_out x) with Some (_, n) => leaf_pnode n | None => true end)
               (ci_ops x) = true.
Proof.
  intros x H. unfold C14_domain in H.
  repeat match goal with
         | [ H0 : _ && _ = true |- _ ] => apply andb_true_iff in H0; destruct H0
         end.
  repeat split; assumption.
Qed.

Lemma erase_apply_dlog_annotate : forall log root m, erase (apply_dlog log (annotate_at root m)) = m.
Proof.
  intros log root m. unfold erase, apply_dlog. rewrite map_map.
  rewrite (map_ext _ erase_stmt); [apply erase_annotate_body|].
  intros s. apply erase_map_args. intros a. apply attach_default_view.
Qed.

Theorem C14_total_lemma : forall x, guard_C14_total x = true -> C14_total_holds x.
Proof.
  intros x Hg. unfold guard_C14_total in Hg.
  apply andb_true_iff in Hg. destruct Hg as [Hg Hun].
  apply andb_true_iff in Hg. destruct Hg as [Hg Hwr].
  apply andb_true_iff in Hg. destruct Hg as [Hg Hres].
  unfold guard_C14 in Hg. apply andb_true_iff in Hg. destruct Hg as [Hdom Hcls].
  destruct (finding_class_C14 x) eqn:Ec; [discriminate|]. clear Hcls. unfold finding_class_C14 in Ec.
  destruct (ci_eval x) eqn:Hev; [discriminate|].
  destruct (first_pair_class x (ci_ips x) (ci_ops x)) eqn:Efp; [discriminate|].
  destruct (Nat.ltb 1 (List.length (ci_ips x))) eqn:Elen; [discriminate|]. clear Ec.
  destruct (domain_facts x Hdom) as [Hsi [Hso [Hleq [Hne [Hleafin Hleafout]]]]].
  assert (Hshape : exists ip op, ci_ips x = [ip] /\ ci_ops x = [op]).
  { revert Hleq Hne Elen. destruct (ci_ips x) as [|ip [|ip2 r]]; destruct (ci_ops x) as [|op [|op2 r']];
      simpl; intros; try discriminate. eauto. }
  destruct Hshape as [ip [op [Eips Eops]]].
  (* both addresses resolve, to leaves *)
  unfold addresses_resolve, out_positions, in_nodes in Hres. rewrite Eips, Eops, Hev in Hres. simpl in Hres.
  destruct (resolve (dotted op) (ci_out x)) as [[p0 dst]|] eqn:Ero; simpl in Hres; [|discriminate].
  destruct (resolve (dotted ip) (ci_in x)) as [[pi0 src]|] eqn:Eri; simpl in Hres; [|discriminate].
  unfold in_nodes in Hleafin. rewrite Eips in Hleafin. simpl in Hleafin. rewrite Eri, andb_true_r in Hleafin.
  rewrite Eops in Hleafout. simpl in Hleafout. rewrite Ero, andb_true_r in Hleafout.
  pose proof (resolve_at_some [0] _ _ _ _ (dotted_nonempty op) Ero) as Hro.
  pose proof (resolve_at_some [1] _ _ _ _ (dotted_nonempty ip) Eri) as Hri.
  simpl app in Hro, Hri.
  (* the pair is in no finding class *)
  rewrite Eips, Eops in Efp. simpl in Efp. destruct (pair_class x ip op) eqn:Epc; [discriminate|]. clear Efp.
  destruct (pair_class_facts x ip op Hev Epc) as [Hin Hout]. rewrite Hro in Hout. simpl in Hout.
  unfold pair_class in Epc. rewrite Hev, Hin in Epc.
  destruct (rw_finding_class_at [0] (ci_out x) (dotted op)) eqn:E2; [discriminate|].
  rewrite Hri, Hro in Epc.
  destruct (is_parg src && negb (is_parg dst)) eqn:G1; [discriminate|].
  destruct (negb (is_parg src) && is_parg dst) eqn:G2; [discriminate|].
  match type of Epc with context [if ?c then Some K14_wrap_without_annotation else _] => destruct c eqn:G3 end;
    [discriminate|].
  destruct (negb (is_parg dst) && existsb (stmt_exists (is_parent_func (dotted op))) (annotate_at [0] (ci_out x)))
           eqn:G4; [discriminate|]. clear Epc.
  unfold rw_finding_class_at in E2.
  destruct (const_hazard (dotted op) (annotate_at [0] (ci_out x))) eqn:Ehz; [discriminate|]. clear E2.
  (* the input node is found *)
  pose proof (C15_partial_at [1] _ _ Hsi Hin) as Hfv. rewrite Hri in Hfv. unfold find_view_at, find_in_ast in Hfv.
  destruct (find_in_ast_log (dotted ip) (annotate_at [1] (ci_in x))) as [[rn log]|er] eqn:Efind; simpl in Hfv; [|discriminate].
  destruct rn as [n|]; simpl in Hfv; [|discriminate]. inversion Hfv as [Hview]. clear Hfv.
  (* the template step *)
  assert (Hwr' : forall w0 e, ci_wrap x = Some w0 -> src_ann src = Some e -> is_ok (wrap_annotation (ci_env x) w0 e) = true).
  { intros w0 e Hw0 Hsa. unfold wrap_ready in Hwr. rewrite Hw0 in Hwr. unfold in_nodes in Hwr. rewrite Eips in Hwr.
    simpl in Hwr. rewrite Eri, Hsa, andb_true_r in Hwr. exact Hwr. }
  set (i0 := annotate_at [1] (ci_in x)) in *. set (o0 := annotate_at [0] (ci_out x)) in *.
  destruct (apply_wrap_leaf (ci_env x) (ci_wrap x) n (apply_dlog log i0) (apply_dlog log o0) (1 :: pi0) src
                            Hview Hleafin G3 Hwr')
    as [repl [i2 [o2 [want [Hw [Ho2 [Hrv [Hcont [Hexp Hkind]]]]]]]]].
  set (t := apply_dlog log o0) in *.
  assert (Ho2' : o2 = t).
  { destruct Ho2 as [E|[e E]]; [assumption|]. subst o2. apply set_ann_by_id_absent. apply output_ids_after_dlog. }
  subst o2.
  assert (T1 : const_hazard (dotted op) t = false) by (unfold t; rewrite const_hazard_apply_dlog; assumption).
  assert (T2 : first_hit_list (dotted op) t = Some (0 :: p0)).
  { unfold t, apply_dlog. rewrite first_hit_list_map_all; [exact Hout|].
    intros s. apply first_hit_map_args. apply attach_default_keeps. }
  assert (T3 : existsb (stmt_exists dirty) t = false).
  { unfold t. rewrite exists_apply_dlog; [apply annotate_clean | intros s; apply dirty_map_args]. }
  assert (Hrw : exists g st, rewrite_visit (dotted op) repl t = Ok (NMod g, st) /\ rw_replaced st = true
                             /\ rw_node st = repl /\ existsb (stmt_exists dirty) g = false).
  { destruct Hkind as [[Hpa [a Ha]]|[Hps [s0 [Hs0 Hcl]]]]; subst repl.
    - rewrite Hpa in G1. simpl in G1. apply negb_false_iff in G1.
      destruct dst as [dm|ds|da]; simpl in G1; try discriminate.
      unfold target_unshadowed in Hun. rewrite Eops in Hun. simpl in Hun. rewrite Hro, andb_true_r in Hun.
      apply rewrite_arg_ok with (p := 0 :: p0); try assumption; [apply dotted_nonempty|].
      unfold t. rewrite stmt_loc_free_apply_dlog. exact Hun.
    - rewrite Hps in G2. simpl in G2. rewrite G2 in G4. simpl in G4.
      apply rewrite_stmt_ok with (p := 0 :: p0); try assumption; [apply dotted_nonempty|].
      unfold t. rewrite exists_apply_dlog; [exact G4 | intros s; apply parent_map_args]. }
  destruct Hrw as [g [st [Hrv' [Hrep [Hnode Hclean]]]]].
  assert (Hpd : is_parg dst = is_parg src).
  { destruct (is_parg src); destruct (is_parg dst); simpl in *; congruence. }
  destruct (C15_rewrite_frame_lemma (dotted op) repl t g st (dotted_nonempty op) Hrv') as [[Hf _]|[_ [p' [Hfh Hrf]]]];
    [congruence|].
  rewrite T2 in Hfh. inversion Hfh; subst p'. rewrite Hnode in Hrf.
  exists ip, op, g, (0 :: p0), dst, (1 :: pi0), src, log, repl, want.
  split; [assumption|]. split; [assumption|]. split.
  { apply (run_single x ip op i0 o0 g i2); try assumption.
    - unfold ast_parse. rewrite Hsi. reflexivity.
    - unfold ast_parse. rewrite Hso. reflexivity.
    - intros e. rewrite Hev. eapply sync_property_success; eassumption.
    - apply clean_emit. assumption. }
  split; [assumption|]. split; [assumption|]. split; [apply erase_apply_dlog_annotate|].
  split; [assumption|]. split; [assumption|].
  apply Hexp; try reflexivity; assumption.
Qed.

(* ====================================================================== several pairs *)
Lemma oloc_eqb_other : forall o q q', oloc_eqb o q = true -> q' <> q -> oloc_eqb o q' = false.
Proof.
  intros o q q' H Hne. destruct o as [l|]; simpl in *; [|reflexivity].
  apply loc_eqb_eq in H. subst. apply loc_eqb_neq. intros E. apply Hne. symmetry. assumption.
Qed.

Lemma first_arg_hit_replace : forall q q' ra l l' b,
    q' <> q -> oloc_eqb (aa_loc ra) q' = false -> replace_first_arg q ra l = (l', b) ->
    first_arg_hit q' l' = first_arg_hit q' l.
Proof.
  intros q q' ra l. induction l as [|a rest IH]; intros l' b Hne Hra H; simpl in H.
  - inversion H. reflexivity.
  - destruct (oloc_eqb (aa_loc a) q) eqn:E.
    + inversion H; subst. unfold first_arg_hit. simpl. rewrite Hra, (oloc_eqb_other _ _ _ E Hne). reflexivity.
    + destruct (replace_first_arg q ra rest) as [rest' b0] eqn:E2. inversion H; subst.
      specialize (IH rest' b Hne Hra eq_refl). unfold first_arg_hit in *. simpl.
      destruct (oloc_eqb (aa_loc a) q'); [reflexivity | exact IH].
Qed.

Lemma forallb_const_true : forall (A : Type) (l : list A), forallb (fun _ => true) l = true.
Proof. induction l; simpl; auto. Qed.

Lemma node_quiet_fresh_arg : forall Q a, aa_loc a = None -> node_quiet Q (NArg a) = true.
Proof. intros Q a H. unfold node_quiet. simpl. rewrite H. simpl. apply forallb_const_true. Qed.

Lemma node_quiet_loc : forall Q r q', node_quiet Q r = true -> In q' Q -> oloc_eqb (anode_loc r) q' = false.
Proof.
  intros Q r q' H Hin. unfold node_quiet in H. apply andb_true_iff in H. destruct H as [_ H].
  rewrite forallb_forall in H. specialize (H q' Hin). apply negb_true_iff in H. exact H.
Qed.

Lemma quiet_as_stmt : forall Q r rs, node_quiet Q r = true -> node_as_stmt r = Ok rs ->
    (forall q', In q' Q -> first_hit q' rs = None) /\ (forall q'', class_loc_free q'' rs = true).
Proof.
  intros Q r rs H Hs. split.
  - intros q' Hin. pose proof (node_quiet_loc Q r q' H Hin) as Hl.
    unfold node_quiet in H. apply andb_true_iff in H. destruct H as [Hk _].
    destruct r as [m|s|a]; simpl in Hs; try discriminate; inversion Hs; subst.
    + destruct rs; try discriminate; simpl in *; rewrite Hl; reflexivity.
    + simpl in *. rewrite Hl. reflexivity.
  - intros q''. unfold node_quiet in H. apply andb_true_iff in H. destruct H as [Hk _].
    destruct r as [m|s|a]; simpl in Hs; try discriminate; inversion Hs; subst; [|reflexivity].
    destruct rs; try discriminate; reflexivity.
Qed.

Lemma emit_arg_loc : forall r ra, is_arg_node r = true -> emit_arg r = Ok ra -> anode_loc r = aa_loc ra.
Proof.
  intros r ra H He. destruct r as [m|s|a]; simpl in H; try discriminate.
  - destruct s; try discriminate. simpl in He. inversion He. reflexivity.
  - simpl in He. inversion He. reflexivity.
Qed.

(* what visit_FunctionDef did when it did something *)
Lemma vfd_shape : forall q st i l n a b d r s' st',
    visit_FunctionDef q st (AFunc i l n a b d r) = Ok (s', st') ->
    (s' = AFunc i l n a b d r /\ st' = st)
    \/ exists ra args1 b1 kw1 b2 ds,
        is_arg_node (rw_node st') = true /\ emit_arg (rw_node st') = Ok ra
        /\ replace_first_arg q ra (aar_args a) = (args1, b1) /\ replace_first_arg q ra (aar_kwonly a) = (kw1, b2)
        /\ s' = AFunc i l n (mkAArguments args1 ds kw1 (aar_kw_defaults a) (aar_vararg a) (aar_kwarg a)) b d r
        /\ (rw_node st' = rw_node st \/ exists a0, rw_node st' = NArg a0 /\ aa_loc a0 = None).
Proof.
  intros q st i l n a b d r s' st' Hv. unfold visit_FunctionDef in Hv.
  destruct (negb (rw_replaced st) && oloc_eqb l (removelast q)); [|inversion Hv; left; split; reflexivity].
  right.
  match type of Hv with (do conv <- ?c; _) = _ => destruct c as [[node' ds]|er] eqn:Ec end; simpl in Hv; [|discriminate].
  assert (Hnode : node' = rw_node st \/ exists a0, node' = NArg a0 /\ aa_loc a0 = None).
  { destruct (rw_node st) as [m|s0|a0]; try (inversion Ec; left; reflexivity).
    destruct s0; try (inversion Ec; left; reflexivity).
    - destruct (idx_for_annassign target (aar_args a)) as [idx|er]; simpl in Ec; [|discriminate].
      destruct (update_defaults idx _ (aar_defaults a)) as [ds0|er]; simpl in Ec; [|discriminate].
      destruct (name_id target) as [ti|]; simpl in Ec; [|discriminate].
      inversion Ec; subst. right. eexists. split; reflexivity.
    - destruct (idx_for_assign targets (aar_args a)) as [idx|er]; simpl in Ec; [|discriminate].
      match type of Ec with (do r1 <- ?c; _) = _ => destruct c as [r1|er] eqn:Er1 end; simpl in Ec; [|discriminate].
      destruct (update_defaults idx _ (aar_defaults a)) as [ds0|er]; simpl in Ec; [|discriminate].
      inversion Ec; subst. right. exists r1. split; [reflexivity|].
      destruct targets as [|t0 tr]; [discriminate|]. destruct (name_id t0); inversion Er1. reflexivity. }
  destruct (is_arg_node node') eqn:Ea; simpl in Hv; [|discriminate].
  destruct (emit_arg node') as [ra|er] eqn:Er; simpl in Hv; [|discriminate].
  destruct (replace_first_arg q ra (aar_args a)) as [args1 b1] eqn:E1.
  destruct (replace_first_arg q ra (aar_kwonly a)) as [kw1 b2] eqn:E2.
  inversion Hv; subst. simpl. exists ra, args1, b1, kw1, b2, ds. repeat split; assumption.
Qed.

Section VisitPreserves.
  Variable q : loc.
  Variable Q : list loc.
  Hypothesis HqQ : forall q', In q' Q -> q' <> q.

  Definition vp_ok (s : astmt) : Prop :=
    forall st s' st', visit_stmt q st s = Ok (s', st') ->
      node_quiet Q (rw_node st) = true -> class_loc_free q s = true ->
      node_quiet Q (rw_node st') = true
      /\ (forall q', In q' Q -> first_hit q' s' = first_hit q' s)
      /\ (forall q'', class_loc_free q'' s' = class_loc_free q'' s).

  Definition vp_list_ok (l : list astmt) : Prop :=
    forall st l' st', visit_list q st l = Ok (l', st') ->
      node_quiet Q (rw_node st) = true -> forallb (class_loc_free q) l = true ->
      node_quiet Q (rw_node st') = true
      /\ (forall q', In q' Q -> first_hit_list q' l' = first_hit_list q' l)
      /\ (forall q'', forallb (class_loc_free q'') l' = forallb (class_loc_free q'') l).

  Lemma vp_list_of : forall l, Forall vp_ok l -> vp_list_ok l.
  Proof.
    intros l H. induction H as [|x l Hx Hl IH]; intros st l' st' Hv Hq Hc; simpl in Hv.
    - inversion Hv; subst. repeat split; auto.
    - destruct (visit_stmt q st x) as [[x' st1]|er] eqn:Ex; simpl in Hv; [|discriminate].
      destruct (visit_list q st1 l) as [[l1 st2]|er] eqn:El; simpl in Hv; [|discriminate].
      inversion Hv; subst. simpl in Hc. apply andb_true_iff in Hc. destruct Hc as [Hc1 Hc2].
      destruct (Hx st x' st1 Ex Hq Hc1) as [Q1 [F1 C1]].
      destruct (IH st1 l1 st' El Q1 Hc2) as [Q2 [F2 C2]].
      split; [assumption|]. split.
      + intros q' Hin. simpl. rewrite (F1 q' Hin), (F2 q' Hin). reflexivity.
      + intros q''. simpl. rewrite C1, C2. reflexivity.
  Qed.

  Lemma vp_blocks_of : forall bl, Forall (Forall vp_ok) bl ->
    forall st bl' st', visit_blocks q st bl = Ok (bl', st') ->
      node_quiet Q (rw_node st) = true -> forallb (fun b => forallb (class_loc_free q) b) bl = true ->
      node_quiet Q (rw_node st') = true
      /\ (forall q', In q' Q -> first_hit_blocks q' bl' = first_hit_blocks q' bl)
      /\ (forall q'', forallb (fun b => forallb (class_loc_free q'') b) bl'
                      = forallb (fun b => forallb (class_loc_free q'') b) bl).
  Proof.
    intros bl H. induction H as [|b bl Hb Hbl IH]; intros st bl' st' Hv Hq Hc; simpl in Hv.
    - inversion Hv; subst. repeat split; auto.
    - destruct (visit_list q st b) as [[b' st1]|er] eqn:Eb; simpl in Hv; [|discriminate].
      destruct (visit_blocks q st1 bl) as [[bl1 st2]|er] eqn:El; simpl in Hv; [|discriminate].
      inversion Hv; subst. simpl in Hc. apply andb_true_iff in Hc. destruct Hc as [Hc1 Hc2].
      destruct (vp_list_of b Hb st b' st1 Eb Hq Hc1) as [Q1 [F1 C1]].
      destruct (IH st1 bl1 st' El Q1 Hc2) as [Q2 [F2 C2]].
      split; [assumption|]. split.
      + intros q' Hin. simpl. rewrite (F1 q' Hin), (F2 q' Hin). reflexivity.
      + intros q''. simpl. rewrite C1, C2. reflexivity.
  Qed.

  (* a statement that is no FunctionDef, ClassDef or block statement *)
  Lemma vp_leaf : forall s,
      (forall q', first_hit q' s = if oloc_eqb (stmt_loc s) q' then Some (stmt_id s) else None) ->
      (forall q'', class_loc_free q'' s = true) ->
      (forall st, visit_stmt q st s
                  = if negb (rw_replaced st) && oloc_eqb (stmt_loc s) q
                    then (do r <- node_as_stmt (rw_node st); Ok (r, mkRw true (rw_node st))) else Ok (s, st)) ->
      vp_ok s.
  Proof.
    intros s Hfh Hcf Hvs st s' st' Hv Hq Hc. rewrite Hvs in Hv.
    destruct (negb (rw_replaced st) && oloc_eqb (stmt_loc s) q) eqn:Ec.
    - apply andb_true_iff in Ec. destruct Ec as [_ Eloc].
      destruct (node_as_stmt (rw_node st)) as [rs|er] eqn:En; simpl in Hv; [|discriminate].
      inversion Hv; subst. simpl. destruct (quiet_as_stmt Q _ _ Hq En) as [F C].
      split; [assumption|]. split.
      + intros q' Hin. rewrite (F q' Hin), Hfh, (oloc_eqb_other _ _ _ Eloc (HqQ q' Hin)). reflexivity.
      + intros q''. rewrite C, Hcf. reflexivity.
    - inversion Hv; subst. repeat split; auto.
  Qed.

  Lemma vp_all : forall s, vp_ok s.
  Proof.
    induction s using astmt_ind2.
    - intros st s' st' Hv Hq Hc.
      change (visit_stmt q st (AFunc i l n a b d r)) with (visit_FunctionDef q st (AFunc i l n a b d r)) in Hv.
      destruct (vfd_shape _ _ _ _ _ _ _ _ _ _ _ Hv)
        as [[E1 E2]|[ra [args1 [b1 [kw1 [b2 [ds [Ha [He [R1 [R2 [Es Hn]]]]]]]]]]]].
      + subst. repeat split; auto.
      + assert (Hq' : node_quiet Q (rw_node st') = true).
        { destruct Hn as [E|[a0 [E Hl]]]; rewrite E; [assumption | apply node_quiet_fresh_arg; assumption]. }
        split; [assumption|]. subst s'. split; [|reflexivity].
        intros q' Hin. simpl.
        pose proof (node_quiet_loc Q _ q' Hq' Hin) as Hl. rewrite (emit_arg_loc _ _ Ha He) in Hl.
        rewrite (first_arg_hit_replace q q' ra _ _ _ (HqQ q' Hin) Hl R1).
        rewrite (first_arg_hit_replace q q' ra _ _ _ (HqQ q' Hin) Hl R2). reflexivity.
    - intros st s' st' Hv Hq Hc. rewrite visit_stmt_class in Hv. simpl in Hc.
      apply andb_true_iff in Hc. destruct Hc as [Hl Hc]. apply negb_true_iff in Hl. rewrite Hl, andb_false_r in Hv.
      destruct (visit_list q st b) as [[b' st1]|er] eqn:Eb; simpl in Hv; [|discriminate]. inversion Hv; subst.
      destruct (vp_list_of b H st b' st' Eb Hq Hc) as [Q1 [F1 C1]].
      split; [assumption|]. split.
      + intros q' Hin. rewrite !first_hit_class, (F1 q' Hin). reflexivity.
      + intros q''. simpl. rewrite C1. reflexivity.
    - apply vp_leaf; intros; reflexivity.
    - apply vp_leaf; intros; reflexivity.
    - apply vp_leaf; intros; reflexivity.
    - apply vp_leaf; intros; reflexivity.
    - intros st s' st' Hv Hq Hc. rewrite visit_stmt_other in Hv. simpl in Hc.
      destruct (visit_blocks q st bl) as [[bl' st1]|er] eqn:Eb; simpl in Hv; [|discriminate]. inversion Hv; subst.
      destruct (vp_blocks_of bl H st bl' st' Eb Hq Hc) as [Q1 [F1 C1]].
      split; [assumption|]. split.
      + intros q' Hin. rewrite !first_hit_other, (F1 q' Hin). reflexivity.
      + intros q''. simpl. rewrite C1. reflexivity.
    - apply vp_leaf; intros; reflexivity.
  Qed.

  Lemma rewrite_preserves : forall repl t g st,
      q <> [] -> rewrite_visit q repl t = Ok (NMod g, st) ->
      node_quiet Q repl = true -> forallb (class_loc_free q) t = true ->
      (forall q', In q' Q -> first_hit_list q' g = first_hit_list q' t)
      /\ (forall q'', forallb (class_loc_free q'') g = forallb (class_loc_free q'') t).
  Proof.
    intros repl t g st Hq Hv Hr Hc. unfold rewrite_visit in Hv. destruct q as [|x q0] eqn:Eq; [contradiction|].
    rewrite <- Eq in *.
    destruct (visit_list q (mkRw false repl) t) as [[l st1]|er] eqn:E; simpl in Hv; [|discriminate].
    inversion Hv; subst l st1.
    assert (Hall : Forall vp_ok t) by (apply Forall_forall; intros y _; apply vp_all).
    destruct (vp_list_of t Hall _ _ _ E Hr Hc) as [_ [F C]]. split; assumption.
  Qed.
End VisitPreserves.

(* ---- class_loc_free does not see what find_in_ast and the template step change ---- *)
Lemma clf_map_args : forall q f s, class_loc_free q (map_args_stmt f s) = class_loc_free q s.
Proof.
  intros q f. induction s using astmt_ind2; try reflexivity.
  - simpl. f_equal. apply forallb_map_Forall. assumption.
  - simpl. apply forallb_map_Forall.
    induction H as [|b0 bl0 Hb Hbl IHbl]; constructor; [|assumption]. apply forallb_map_Forall. assumption.
Qed.

Lemma clf_map_stmts : forall q i e s, class_loc_free q (map_stmts (set_stmt_ann i e) s) = class_loc_free q s.
Proof.
  intros q i e. induction s using astmt_ind2; try reflexivity.
  - simpl. f_equal. apply forallb_map_Forall. assumption.
  - simpl. destruct (path_eqb i0 i); reflexivity.
  - simpl. apply forallb_map_Forall.
    induction H as [|b0 bl0 Hb Hbl IHbl]; constructor; [|assumption]. apply forallb_map_Forall. assumption.
Qed.

Lemma clf_mid : forall q o o_mid, is_mid o o_mid ->
    forallb (class_loc_free q) o_mid = forallb (class_loc_free q) o.
Proof.
  intros q o o_mid [t0 [Ht0 Hmid]].
  assert (H0 : forallb (class_loc_free q) t0 = forallb (class_loc_free q) o).
  { destruct Ht0 as [E|[log E]]; subst; [reflexivity|]. unfold apply_dlog.
    apply forallb_map_Forall. apply Forall_forall. intros s _. apply clf_map_args. }
  destruct Hmid as [E|[i [e E]]]; subst; [assumption|]. rewrite <- H0. unfold set_ann_by_id.
  apply forallb_map_Forall. apply Forall_forall. intros s _. rewrite clf_map_stmts. apply clf_map_args.
Qed.

(* ---- one successful pair, taken apart ---- *)
Lemma sp_inv : forall env ip i e op w o last o1 i1,
    sync_property env false ip i e op w o last = Ok (o1, i1) ->
    exists repl i2 o2 st,
      sp_prepare env false ip i e op w o = Ok (repl, i2, o2) /\ is_mid o o2
      /\ rewrite_visit (dotted op) repl o2 = Ok (NMod o1, st) /\ rw_replaced st = true.
Proof.
  intros env ip i e op w o last o1 i1 H. unfold sync_property in H. unfold sp_prepare.
  fold (dotted op) in H. fold (dotted ip) in H. fold (dotted ip).
  destruct (find_in_ast_log (dotted ip) i) as [[r log]|er] eqn:Ef; simpl in H; [|discriminate].
  destruct r as [n|]; simpl in H; [|discriminate]. simpl.
  destruct (apply_wrap env w n (apply_dlog log i) (apply_dlog log o)) as [[[repl i2] o2]|er] eqn:Ew; simpl in H; [|discriminate].
  destruct (is_container repl && negb last); [discriminate|].
  destruct (const_hazard (dotted op) o2); [discriminate|].
  destruct (rewrite_visit (dotted op) repl o2) as [[gn st]|er] eqn:Er; simpl in H; [|discriminate].
  destruct (rw_replaced st) eqn:Erep; [|discriminate].
  destruct gn as [gen|s|a]; try discriminate. inversion H; subst.
  exists repl, i1, o2, st. split; [reflexivity|]. split; [|split; assumption].
  exists (apply_dlog log o). split; [right; eexists; reflexivity|]. eapply apply_wrap_mid; eassumption.
Qed.

Definition q_of (pr : str * str * evald) : loc := dotted (snd (fst pr)).

Lemma multi_loop : forall om env w pairs i o o' i',
    sync_loop env false w pairs i o = Ok (o', i') ->
    quiet_loop env false w pairs i o = true ->
    locs_distinct (map q_of pairs) = true ->
    Forall (fun pr => first_hit_list (q_of pr) (annotate_at [0] om)
                      = option_map fst (resolve_at [0] (q_of pr) om)) pairs ->
    Forall (fun pr => first_hit_list (q_of pr) o = first_hit_list (q_of pr) (annotate_at [0] om)
                      /\ forallb (class_loc_free (q_of pr)) o = true) pairs ->
    placed om (map (fun pr => snd (fst pr)) pairs) o o'.
Proof.
  intros om env w pairs. induction pairs as [|[[ip op] e] rest IH]; intros i o o' i' Hl Hq Hd Hres Hinv.
  - simpl in Hl. inversion Hl; subst. constructor.
  - simpl in Hl.
    destruct (sync_property env false ip i e op w o (is_empty rest)) as [[o1 i1]|er] eqn:Es; simpl in Hl; [|discriminate].
    destruct (sp_inv _ _ _ _ _ _ _ _ _ _ Es) as [repl [i2 [o2 [st [Hp [Hmid [Hrv Hrep]]]]]]].
    simpl in Hq. rewrite Hp, Es in Hq. apply andb_true_iff in Hq. destruct Hq as [Hnq Hq'].
    simpl in Hd. apply andb_true_iff in Hd. destruct Hd as [Hnotin Hd']. apply negb_true_iff in Hnotin.
    inversion Hres as [|pr0 l0 Hr1 Hres']; subst. inversion Hinv as [|pr1 l1 [Hi1 Hi2] Hinv']; subst.
    unfold q_of in Hi1, Hi2, Hr1, Hnotin. simpl in Hi1, Hi2, Hr1, Hnotin.
    destruct (C15_rewrite_frame_lemma (dotted op) repl o2 o1 st (dotted_nonempty op) Hrv) as [[Hf _]|[_ [p [Hfh Hrf]]]];
      [congruence|].
    rewrite (first_hit_mid _ _ _ Hmid), Hi1, Hr1 in Hfh.
    destruct (resolve_at [0] (dotted op) om) as [[p' n]|] eqn:Er; simpl in Hfh; [|discriminate]. inversion Hfh; subst p'.
    simpl map. eapply pl_cons; [exact Er | exact Hmid | exact Hrf |].
    apply (IH i1 o1 o' i' Hl Hq' Hd' Hres').
    assert (HqQ : forall q', In q' (map q_of rest) -> q' <> dotted op).
    { intros q' Hin E. subst q'. pose proof (existsb_In_false _ _ _ _ Hnotin Hin) as Hc.
      rewrite loc_eqb_refl in Hc. discriminate. }
    assert (Hc2 : forallb (class_loc_free (dotted op)) o2 = true) by (rewrite (clf_mid _ _ _ Hmid); exact Hi2).
    destruct (rewrite_preserves (dotted op) (map q_of rest) HqQ repl o2 o1 st (dotted_nonempty op) Hrv Hnq Hc2) as [F C].
    rewrite Forall_forall in *. intros pr Hin. destruct (Hinv' pr Hin) as [A B]. split.
    + rewrite F by (apply in_map; assumption). rewrite (first_hit_mid _ _ _ Hmid). exact A.
    + rewrite C, (clf_mid _ _ _ Hmid). exact B.
Qed.

Lemma zip3_ops : forall ips ops evs, List.length ips = List.length ops ->
    map (fun pr : str * str * evald => snd (fst pr)) (zip3 ips ops evs) = ops.
Proof.
  induction ips as [|ip ips IH]; intros ops evs Hl; destruct ops as [|op ops]; simpl in Hl; try discriminate; [reflexivity|].
  simpl. destruct evs as [|ev evs]; simpl; rewrite IH by lia; reflexivity.
Qed.

Lemma zip3_clean : forall x ips ops evs, ci_eval x = false -> all_pairs_clean x ips ops = true ->
    Forall (fun pr => first_hit_list (q_of pr) (annotate_at [0] (ci_out x))
                      = option_map fst (resolve_at [0] (q_of pr) (ci_out x))) (zip3 ips ops evs).
Proof.
  intros x ips. induction ips as [|ip ips IH]; intros ops evs Hev Hc; [constructor|].
  destruct ops as [|op ops]; [constructor|]. simpl in Hc.
  destruct (pair_class x ip op) eqn:Epc; [discriminate|].
  destruct (pair_class_facts x ip op Hev Epc) as [_ Hout].
  simpl. destruct evs as [|ev evs]; constructor; try (apply IH; assumption); exact Hout.
Qed.

Theorem C14_multi_lemma : forall x, guard_C14_multi x = true ->
    forall tree, fst (run_C14 x) = [EvWrite FOutput tree] ->
                 placed (ci_out x) (ci_ops x) (annotate_at [0] (ci_out x)) tree.
Proof.
  intros x Hg tree Hw. unfold guard_C14_multi in Hg.
  apply andb_true_iff in Hg. destruct Hg as [Hg Hquiet].
  apply andb_true_iff in Hg. destruct Hg as [Hg Hclf].
  apply andb_true_iff in Hg. destruct Hg as [Hg Hdist].
  apply andb_true_iff in Hg. destruct Hg as [Hg Hclean].
  apply andb_true_iff in Hg. destruct Hg as [Hdom Hev]. apply negb_true_iff in Hev.
  destruct (run_C14 x) as [evts stt] eqn:Er. simpl in Hw.
  destruct (run_ok_inv x evts stt Er) as [[e0 [H1 H2]]|[i0 [o0 [tree0 [i' [Hi [Ho [Hlen [Hs [He Hst]]]]]]]]]];
    [rewrite H1 in Hw; discriminate|]. rewrite He in Hw. inversion Hw; subst tree0.
  apply ast_parse_ok in Hi. apply ast_parse_ok in Ho. subst i0 o0.
  unfold loop_pairs in Hs. rewrite Hev in Hs.
  rewrite <- (zip3_ops (ci_ips x) (ci_ops x) (ci_evs x) Hlen) at 1.
  apply (multi_loop (ci_out x) (ci_env x) (ci_wrap x) _ _ _ _ _ Hs Hquiet).
  - replace (map q_of (zip3 (ci_ips x) (ci_ops x) (ci_evs x))) with (map dotted (ci_ops x)); [assumption|].
    rewrite <- (zip3_ops (ci_ips x) (ci_ops x) (ci_evs x) Hlen) at 1. rewrite map_map. reflexivity.
  - apply zip3_clean; assumption.
  - apply Forall_forall. intros pr Hin. split; [reflexivity|].
    rewrite forallb_forall in Hclf. apply (Hclf (snd (fst pr))).
    rewrite <- (zip3_ops (ci_ips x) (ci_ops x) (ci_evs x) Hlen).
    apply (in_map (fun pr0 : str * str * evald => snd (fst pr0))). assumption.
Qed.

(* ====================================================================== witnesses: non-vacuity, needed side conditions *)
(* input:  class K:  lr: int = 3 ;  def m(self, a: int, b=4, *, k: int = 1): pass *)
Definition w_in_cls : module :=
  [SClass (L "K") []
          [SAnnAssign (EName (L "lr")) (EName (L "int")) (Some (EConst (VInt 3)));
           w_fn (L "m") [w_arg (L "self") None; w_arg (L "a") (Some (L "int")); w_arg (L "b") None] [EConst (VInt 4)]
                [w_arg (L "k") (Some (L "int"))] [Some (EConst (VInt 1))]] []].
(* output: a docstring ;  class Cfg:  lr: float = 5 ; q = 0 ;  def train(x, y: int = 2, *, opt): pass ;  return *)
Definition w_out_cls : module :=
  [SExpr (EConst (VStr (L "Doc.")));
   SClass (L "Cfg") [] [SAnnAssign (EName (L "lr")) (EName (L "float")) (Some (EConst (VInt 5)));
                        SAssign [EName (L "q")] (EConst (VInt 0))] [];
   w_fn (L "train") [w_arg (L "x") None; w_arg (L "y") (Some (L "int"))] [EConst (VInt 2)] [w_arg (L "opt") None] [None];
   SReturn None].
Definition w_opt : option str := Some (L "Optional[{output_param}]").

Lemma C14_total_nonvacuous_lemma :
  guard_C14_total (w_call w_in [L "f.a"] w_out [L "g.x"] w_opt) = true
  /\ guard_C14_total (w_call w_in_cls [L "K.lr"] w_out_cls [L "Cfg.lr"] w_opt) = true
  /\ guard_C14_total (w_call w_in_cls [L "K.m.a"] w_out_cls [L "train.opt"] w_opt) = true
  /\ guard_C14_total (w_call w_in_cls [L "K.m.k"] w_out_cls [L "train.y"] None) = true
  /\ C14_at_b (w_call w_in_cls [L "K.m.a"] w_out_cls [L "train.opt"] w_opt) = true.
Proof. repeat split; vm_compute; reflexivity. Qed.

(* the side conditions of guard_C14_total beyond guard_C14 *)
Definition x_no_tables : c14_input := mkC14 (mkEnv [] []) false w_in [L "f.a"] w_out [L "g.x"] w_opt [].
Definition w_out_shadow : module :=
  [w_fn (L "C") [w_arg (L "z") None] [] [] []; SClass (L "C") [] [SAssign [EName (L "z")] (EConst (VInt 1))] []].

Lemma C14_total_side_conditions :
  (* an address that does not resolve: inside guard_C14, no success *)
  (guard_C14 (w_call w_in [L "f.nope"] w_out [L "g.x"] None) = true
   /\ addresses_resolve (w_call w_in [L "f.nope"] w_out [L "g.x"] None) = false
   /\ run_C14 (w_call w_in [L "f.nope"] w_out [L "g.x"] None) = ([], Err AssertionError))
  (* the request's tables do not cover the template step: the model declines *)
  /\ (guard_C14 x_no_tables = true /\ addresses_resolve x_no_tables = true /\ wrap_ready x_no_tables = false
      /\ run_C14 x_no_tables = ([], Err Unmodelled))
  (* target_unshadowed is sufficient, not necessary *)
  /\ (guard_C14 (w_call w_in [L "f.a"] w_out_shadow [L "C.z"] None) = true
      /\ target_unshadowed (w_call w_in [L "f.a"] w_out_shadow [L "C.z"] None) = false
      /\ C14_at_b (w_call w_in [L "f.a"] w_out_shadow [L "C.z"] None) = true).
Proof. repeat split; vm_compute; reflexivity. Qed.

(* several pairs *)
Definition x_multi3 (w : option str) : c14_input :=
  w_call w_in_cls [L "K.lr"; L "K.m.a"; L "K.m.k"] w_out_cls [L "Cfg.lr"; L "train.x"; L "train.opt"] w.
Definition w_in_ff : module := [w_fn (L "f") [w_arg (L "a") (Some (L "int")); w_arg (L "b") (Some (L "int"))] [] [] []].
Definition w_out_ff : module := [w_fn (L "f") [w_arg (L "a") None; w_arg (L "b") None] [] [] []].
Definition is_write (r : list event * outcome unit) : bool :=
  match r with ([EvWrite FOutput _], Ok _) => true | _ => false end.

Lemma C14_multi_nonvacuous_lemma :
  guard_C14_multi (x_multi3 None) = true /\ is_write (run_C14 (x_multi3 None)) = true /\ C14_at_b (x_multi3 None) = true
  /\ guard_C14_multi (x_multi3 w_opt) = true /\ is_write (run_C14 (x_multi3 w_opt)) = true
  /\ C14_at_b (x_multi3 w_opt) = true
  (* the same input parameter for two outputs, no template *)
  /\ guard_C14_multi (w_call w_in [L "f.a"; L "f.a"] w_out [L "g.x"; L "g.y"] None) = true
  (* the same names in both files *)
  /\ guard_C14_multi (w_call w_in_ff [L "f.a"; L "f.b"] w_out_ff [L "f.a"; L "f.b"] None) = true
  /\ C14_at_b (w_call w_in_ff [L "f.a"; L "f.b"] w_out_ff [L "f.a"; L "f.b"] None) = true.
Proof. repeat split; vm_compute; reflexivity. Qed.

(* the region guard_C14_multi excludes is where several-pairs-on-unreannotated-tree bites *)
Definition w_in_g : module := [w_fn (L "g") [w_arg (L "y") (Some (L "int"))] [] [] []].
Definition w_out_g : module := [w_fn (L "g") [w_arg (L "x") None; w_arg (L "y") None] [] [] []].
Definition x_same_output : c14_input := w_call w_in [L "f.a"; L "f.a"] w_out [L "g.x"; L "g.x"] None.
Definition x_moved_hit : c14_input := w_call w_in_g [L "g.y"; L "g.y"] w_out_g [L "g.x"; L "g.y"] None.
Definition x_swap : c14_input := w_call w_in_ff [L "f.b"; L "f.a"] w_out_ff [L "f.a"; L "f.b"] None.

Lemma C14_multi_refuted_lemma :
  (* one output address twice: the second pair no longer finds it (the moved node carries the INPUT location) *)
  (C14_domain x_same_output = true /\ all_pairs_clean x_same_output (ci_ips x_same_output) (ci_ops x_same_output) = true
   /\ addresses_resolve x_same_output = true
   /\ locs_distinct (map dotted (ci_ops x_same_output)) = false
   /\ run_C14 x_same_output = ([], Err AssertionError))
  (* different output addresses, but the node moved by the first pair carries the second address and is hit first *)
  /\ (C14_domain x_moved_hit = true /\ all_pairs_clean x_moved_hit (ci_ips x_moved_hit) (ci_ops x_moved_hit) = true
      /\ addresses_resolve x_moved_hit = true
      /\ locs_distinct (map dotted (ci_ops x_moved_hit)) = true
      /\ guard_C14_multi x_moved_hit = false
      /\ C14_at_b x_moved_hit = false
      /\ option_map (fun t => match t with [SFunc _ a _ _ _] => map a_name (ar_args a) | _ => [] end)
                    (written_tree (run_C14 x_moved_hit)) = Some [L "y"; L "y"])
  (* swapping two parameters of one function: the second pair overwrites the first *)
  /\ (guard_C14_multi x_swap = false /\ C14_at_b x_swap = false
      /\ option_map (fun t => match t with [SFunc _ a _ _ _] => map a_name (ar_args a) | _ => [] end)
                    (written_tree (run_C14 x_swap)) = Some [L "a"; L "b"]
      /\ option_map (fun t => match t with [SFunc _ a _ _ _] => map a_ann (ar_args a) | _ => [] end)
                    (written_tree (run_C14 x_swap)) = Some [Some (EName (L "int")); None]).
Proof. repeat split; vm_compute; reflexivity. Qed.

(* ====================================================================== the statements props/C14Ext.v exports *)
Lemma guard_total_guard : forall x, guard_C14_total x = true -> guard_C14 x = true.
Proof.
  intros x H. unfold guard_C14_total in H.
  do 3 (apply andb_true_iff in H; destruct H as [H _]). exact H.
Qed.

Theorem C14_success_lemma : forall x, guard_C14_total x = true ->
    exists tree, run_C14 x = ([EvWrite FOutput tree], Ok tt).
Proof.
  intros x H. destruct (C14_total_lemma x H) as [ip [op [tree [p [dst [pi [src [log [repl [want [_ [_ [Hr _]]]]]]]]]]]]].
  exists tree. exact Hr.
Qed.

Theorem C14_partial_total_lemma : forall x, guard_C14_total x = true -> C14_total_holds x /\ C14_holds x.
Proof.
  intros x H. split; [apply C14_total_lemma; assumption | apply C14_partial_lemma; apply guard_total_guard; assumption].
Qed.

(* ====================================================================== round 2 *)
(* ------------------------------------------------------------------ tree positions as identities: a statement that
   RewriteAtQuery visits never has the identity of a resolved function argument *)
Fixpoint id_free (h : path) (s : astmt) : bool :=
  match s with
  | AFunc _ _ _ _ _ _ _ => true
  | AClass i _ _ _ b _ => negb (path_eqb i h) && forallb (id_free h) b
  | AOther _ _ _ bl => forallb (fun b => forallb (id_free h) b) bl
  | _ => negb (path_eqb (stmt_id s) h)
  end.

Definition nonprefix (p h : path) : Prop := forall r, h <> p ++ r.

Lemma nonprefix_neq : forall p h, nonprefix p h -> path_eqb p h = false.
Proof.
  intros p h H. destruct (path_eqb p h) eqn:E; [|reflexivity]. apply path_eqb_eq in E. subst.
  exfalso. apply (H []). rewrite app_nil_r. reflexivity.
Qed.

Lemma nonprefix_app : forall p l h, nonprefix p h -> nonprefix (p ++ l) h.
Proof. intros p l h H r E. apply (H (l ++ r)). rewrite app_assoc. exact E. Qed.

Lemma nonprefix_sibling : forall p j k r, j <> k -> nonprefix (p ++ [j]) (p ++ k :: r).
Proof.
  intros p j k r Hjk r' E. rewrite <- app_assoc in E. apply app_inv_head in E. simpl in E. inversion E. congruence.
Qed.

Definition idf_ok (c : stmt) : Prop :=
  forall pname p1 h, nonprefix p1 h -> id_free h (annotate_stmt pname p1 c) = true.

Lemma idf_body_of : forall b, Forall idf_ok b -> forall pname p j h, nonprefix p h ->
    forallb (id_free h) (annotate_body pname p j b) = true.
Proof.
  intros b H. induction H as [|x l Hx Hl IH]; intros pname p j h Hn; simpl; [reflexivity|].
  rewrite Hx by (apply nonprefix_app; assumption). apply IH. assumption.
Qed.

Lemma idf_go_block : forall (p : path) (bi : nat) h l, nonprefix p h -> Forall idf_ok l -> forall j,
    forallb (id_free h)
      ((fix go (j : nat) (b : list stmt) : list astmt :=
          match b with [] => [] | x :: r' => annotate_stmt [] (p ++ [bi; j]) x :: go (S j) r' end) j l) = true.
Proof.
  intros p bi h l Hn H. induction H as [|x l Hx Hl IH]; intros j; simpl; [reflexivity|].
  rewrite Hx by (apply nonprefix_app; assumption). apply IH.
Qed.

Lemma idf_gob : forall (p : path) h bl, nonprefix p h -> Forall (Forall idf_ok) bl -> forall bi,
    forallb (fun b => forallb (id_free h) b)
      ((fix gob (bi : nat) (bl : list (list stmt)) : list (list astmt) :=
          match bl with
          | [] => []
          | b :: r =>
            ((fix go (j : nat) (b : list stmt) : list astmt :=
                match b with [] => [] | x :: r' => annotate_stmt [] (p ++ [bi; j]) x :: go (S j) r' end) 0 b)
            :: gob (S bi) r
          end) bi bl) = true.
Proof.
  intros p h bl Hn H. induction H as [|b l Hb Hl IH]; intros bi; simpl; [reflexivity|].
  rewrite idf_go_block by assumption. apply IH.
Qed.

Lemma idf_all : forall c, idf_ok c.
Proof.
  induction c using stmt_ind2; intros pname p1 hh Hn.
  - reflexivity.
  - rewrite annotate_class. simpl. rewrite (nonprefix_neq _ _ Hn). simpl. apply idf_body_of; assumption.
  - simpl. rewrite (nonprefix_neq _ _ Hn). reflexivity.
  - simpl. rewrite (nonprefix_neq _ _ Hn). reflexivity.
  - simpl. rewrite (nonprefix_neq _ _ Hn). reflexivity.
  - simpl. rewrite (nonprefix_neq _ _ Hn). reflexivity.
  - simpl. apply idf_gob; assumption.
Qed.

(* the children of a scope other than the k-th *)
Lemma idf_body_other : forall b pname p j k r,
    (k < j \/ j + List.length b <= k) ->
    forallb (id_free (p ++ k :: r)) (annotate_body pname p j b) = true.
Proof.
  induction b as [|x l IH]; intros pname p j k r Hk; simpl; [reflexivity|].
  rewrite (idf_all x) by (apply nonprefix_sibling; simpl in Hk; lia). apply IH. simpl in Hk. lia.
Qed.

Lemma resolve_stmt_prefix : forall q p0 c pos n, resolve_stmt q p0 c = Some (pos, n) -> exists r, pos = p0 ++ r.
Proof.
  intros q p0 c pos n H. rewrite <- (app_nil_r p0) in H. rewrite resolve_stmt_shift in H.
  destruct (resolve_stmt q [] c) as [[p' n']|]; simpl in H; [|discriminate]. inversion H. eexists. reflexivity.
Qed.

Lemma app_cons_neq_self : forall (p : path) k r, p ++ k :: r <> p.
Proof. intros p k r E. apply (f_equal (@List.length nat)) in E. rewrite app_length in E. simpl in E. lia. Qed.

Definition arg_free_stmt (q : list str) : Prop :=
  forall c pname p0 pos a, resolve_stmt q p0 c = Some (pos, PArg a) -> id_free pos (annotate_stmt pname p0 c) = true.

Lemma arg_free_body : forall q', arg_free_stmt q' ->
    forall seg b pname p pos a, resolve_body seg q' p 0 b = Some (pos, PArg a) ->
                                forallb (id_free pos) (annotate_body pname p 0 b) = true.
Proof.
  intros q' IH seg b pname p pos a H. rewrite resolve_body_split in H.
  destruct (split_member seg b) as [[[pre t] post]|] eqn:Es; [|discriminate].
  destruct (split_member_some _ _ _ _ _ Es) as [Hb _]. subst b. simpl in H.
  destruct (resolve_stmt_prefix _ _ _ _ _ H) as [r Hr]. rewrite <- app_assoc in Hr. simpl in Hr.
  rewrite annotate_body_app, forallb_app. simpl annotate_body. simpl forallb.
  rewrite (IH _ pname _ _ _ H). rewrite Hr.
  rewrite idf_body_other by lia. rewrite idf_body_other by lia. reflexivity.
Qed.

Lemma arg_free_all : forall q, arg_free_stmt q.
Proof.
  induction q as [|seg q' IH]; intros c pname p0 pos a H; [discriminate|].
  destruct c as [n ar b d r|n bs body d|t an v|ts v|e|e|t h bl]; try discriminate.
  - reflexivity.
  - rewrite resolve_stmt_class in H. rewrite annotate_class. simpl.
    rewrite (arg_free_body q' IH _ _ _ _ _ _ H), andb_true_r.
    rewrite resolve_body_split in H. destruct (split_member seg body) as [[[pre t] post]|]; [|discriminate].
    destruct (resolve_stmt_prefix _ _ _ _ _ H) as [r Hr]. rewrite <- app_assoc in Hr. subst pos.
    apply negb_true_iff. destruct (path_eqb p0 (p0 ++ [0 + List.length pre] ++ r)) eqn:E; [|reflexivity].
    apply path_eqb_eq in E. symmetry in E. exfalso. exact (app_cons_neq_self _ _ _ E).
Qed.

Lemma arg_free_module : forall root q m pos a, resolve_at root q m = Some (pos, PArg a) ->
    forallb (id_free pos) (annotate_at root m) = true.
Proof.
  intros root q m pos a H. destruct q as [|seg q']; [discriminate|]. unfold resolve_at in H. unfold annotate_at.
  exact (arg_free_body q' (arg_free_all q') _ _ _ _ _ _ H).
Qed.

Lemma id_free_map_args : forall h f, (forall a, aa_id (f a) = aa_id a) ->
                                     forall s, id_free h (map_args_stmt f s) = id_free h s.
Proof.
  intros h f Hf. induction s using astmt_ind2; try reflexivity.
  - simpl. f_equal. apply forallb_map_Forall. assumption.
  - simpl. apply forallb_map_Forall.
    induction H as [|b0 bl0 Hb Hbl IHbl]; constructor; [|assumption]. apply forallb_map_Forall. assumption.
  - simpl. rewrite Hf. reflexivity.
Qed.

Lemma id_free_apply_dlog : forall h log m, forallb (id_free h) (apply_dlog log m) = forallb (id_free h) m.
Proof.
  intros h log m. unfold apply_dlog. apply forallb_map_Forall. apply Forall_forall. intros s _.
  apply id_free_map_args. intros a. apply attach_default_keeps.
Qed.

(* ------------------------------------------------------------------ the visit with an argument as replacement, when the
   first addressed node is no visited statement *)
Section VisitArgKind.
  Variable q : loc.
  Variable a0 : aarg.

  Definition vk_ok (s : astmt) : Prop :=
    forall st, rw_replaced st = false -> rw_node st = NArg a0 ->
      (forall h, first_hit q s = Some h -> id_free h s = true) ->
      exists s' st', visit_stmt q st s = Ok (s', st') /\ rw_node st' = NArg a0
                     /\ (stmt_exists dirty s = false -> stmt_exists dirty s' = false).

  Lemma vk_list_of : forall l, Forall vk_ok l ->
    forall st, rw_replaced st = false -> rw_node st = NArg a0 ->
      (forall h, first_hit_list q l = Some h -> forallb (id_free h) l = true) ->
      exists l' st', visit_list q st l = Ok (l', st') /\ rw_node st' = NArg a0
                     /\ (existsb (stmt_exists dirty) l = false -> existsb (stmt_exists dirty) l' = false).
  Proof.
    intros l H. induction H as [|x l Hx Hl IH]; intros st Hu Hn Hh.
    - exists [], st. repeat split; auto.
    - assert (Hhx : forall h, first_hit q x = Some h -> id_free h x = true).
      { intros h E. specialize (Hh h). simpl in Hh. rewrite E in Hh. specialize (Hh eq_refl).
        apply andb_true_iff in Hh. destruct Hh; assumption. }
      destruct (Hx st Hu Hn Hhx) as [x' [st1 [E1 [N1 D1]]]].
      destruct (frame_stmt_all q x st x' st1 Hu E1) as [[R1 [F1 _]]|[R1 _]].
      + assert (Hhl : forall h, first_hit_list q l = Some h -> forallb (id_free h) l = true).
        { intros h E. specialize (Hh h). simpl in Hh. rewrite F1 in Hh. specialize (Hh E).
          apply andb_true_iff in Hh. destruct Hh; assumption. }
        destruct (IH st1 R1 N1 Hhl) as [l' [st2 [E2 [N2 D2]]]].
        exists (x' :: l'), st2. simpl. rewrite E1. simpl. rewrite E2. simpl. split; [reflexivity|]. split; [assumption|].
        intros Hd. apply orb_false_iff in Hd. destruct Hd as [Hd1 Hd2]. rewrite (D1 Hd1), (D2 Hd2). reflexivity.
      + exists (x' :: l), st1. simpl. rewrite E1. simpl. rewrite (visit_list_id q l st1 R1). simpl.
        split; [reflexivity|]. split; [assumption|].
        intros Hd. apply orb_false_iff in Hd. destruct Hd as [Hd1 Hd2]. rewrite (D1 Hd1), Hd2. reflexivity.
  Qed.

  Lemma vk_blocks_of : forall bl, Forall (Forall vk_ok) bl ->
    forall st, rw_replaced st = false -> rw_node st = NArg a0 ->
      (forall h, first_hit_blocks q bl = Some h -> forallb (fun b => forallb (id_free h) b) bl = true) ->
      exists bl' st', visit_blocks q st bl = Ok (bl', st') /\ rw_node st' = NArg a0
                      /\ (existsb (fun b => existsb (stmt_exists dirty) b) bl = false
                          -> existsb (fun b => existsb (stmt_exists dirty) b) bl' = false).
  Proof.
    intros bl H. induction H as [|b bl Hb Hbl IH]; intros st Hu Hn Hh.
    - exists [], st. repeat split; auto.
    - assert (Hhb : forall h, first_hit_list q b = Some h -> forallb (id_free h) b = true).
      { intros h E. specialize (Hh h). simpl in Hh. rewrite E in Hh. specialize (Hh eq_refl).
        apply andb_true_iff in Hh. destruct Hh; assumption. }
      destruct (vk_list_of b Hb st Hu Hn Hhb) as [b' [st1 [E1 [N1 D1]]]].
      destruct (frame_list q b st b' st1 Hu E1) as [[R1 [F1 _]]|[R1 _]].
      + assert (Hhl : forall h, first_hit_blocks q bl = Some h -> forallb (fun b0 => forallb (id_free h) b0) bl = true).
        { intros h E. specialize (Hh h). simpl in Hh. rewrite F1 in Hh. specialize (Hh E).
          apply andb_true_iff in Hh. destruct Hh; assumption. }
        destruct (IH st1 R1 N1 Hhl) as [bl' [st2 [E2 [N2 D2]]]].
        exists (b' :: bl'), st2. simpl. rewrite E1. simpl. rewrite E2. simpl. split; [reflexivity|]. split; [assumption|].
        intros Hd. apply orb_false_iff in Hd. destruct Hd as [Hd1 Hd2]. rewrite (D1 Hd1), (D2 Hd2). reflexivity.
      + exists (b' :: bl), st1. simpl. rewrite E1. simpl. rewrite (visit_blocks_id q bl st1 R1). simpl.
        split; [reflexivity|]. split; [assumption|].
        intros Hd. apply orb_false_iff in Hd. destruct Hd as [Hd1 Hd2]. rewrite (D1 Hd1), Hd2. reflexivity.
  Qed.

  Lemma vk_leaf : forall s,
      (forall st, visit_stmt q st s
                  = if negb (rw_replaced st) && oloc_eqb (stmt_loc s) q
                    then (do r <- node_as_stmt (rw_node st); Ok (r, mkRw true (rw_node st))) else Ok (s, st)) ->
      first_hit q s = (if oloc_eqb (stmt_loc s) q then Some (stmt_id s) else None) ->
      id_free (stmt_id s) s = false ->
      vk_ok s.
  Proof.
    intros s Hvs Hfh Hidf st Hu Hn Hh. rewrite Hvs. destruct (oloc_eqb (stmt_loc s) q) eqn:El.
    - specialize (Hh _ Hfh). congruence.
    - rewrite andb_false_r. exists s, st. repeat split; auto.
  Qed.

  Lemma vk_all : forall s, vk_ok s.
  Proof.
    induction s using astmt_ind2.
    - intros st Hu Hn Hh.
      change (visit_stmt q st (AFunc i l n a b d r)) with (visit_FunctionDef q st (AFunc i l n a b d r)).
      unfold visit_FunctionDef. destruct (negb (rw_replaced st) && oloc_eqb l (removelast q)).
      + rewrite Hn. simpl.
        destruct (replace_first_arg q a0 (aar_args a)) as [args1 b1].
        destruct (replace_first_arg q a0 (aar_kwonly a)) as [kw1 b2].
        eexists. eexists. split; [reflexivity|]. split; [reflexivity|].
        rewrite !stmt_exists_func. simpl. auto.
      + exists (AFunc i l n a b d r), st. repeat split; auto.
    - intros st Hu Hn Hh. rewrite visit_stmt_class. rewrite first_hit_class in Hh.
      destruct (oloc_eqb l q) eqn:El.
      + specialize (Hh i eq_refl). simpl in Hh. rewrite path_eqb_refl in Hh. discriminate.
      + rewrite andb_false_r.
        assert (Hhb : forall h, first_hit_list q b = Some h -> forallb (id_free h) b = true).
        { intros h E. specialize (Hh h E). simpl in Hh. apply andb_true_iff in Hh. destruct Hh; assumption. }
        destruct (vk_list_of b H st Hu Hn Hhb) as [b' [st1 [E1 [N1 D1]]]]. rewrite E1. simpl.
        eexists. eexists. split; [reflexivity|]. split; [assumption|].
        rewrite !stmt_exists_class. simpl. exact D1.
    - apply vk_leaf; try reflexivity. simpl. rewrite path_eqb_refl. reflexivity.
    - apply vk_leaf; try reflexivity. simpl. rewrite path_eqb_refl. reflexivity.
    - apply vk_leaf; try reflexivity. simpl. rewrite path_eqb_refl. reflexivity.
    - apply vk_leaf; try reflexivity. simpl. rewrite path_eqb_refl. reflexivity.
    - intros st Hu Hn Hh. rewrite visit_stmt_other. rewrite first_hit_other in Hh.
      destruct (vk_blocks_of bl H st Hu Hn Hh) as [bl' [st1 [E1 [N1 D1]]]]. rewrite E1. simpl.
      eexists. eexists. split; [reflexivity|]. split; [assumption|].
      rewrite !stmt_exists_other. simpl. exact D1.
    - apply vk_leaf; try reflexivity. simpl. rewrite path_eqb_refl. reflexivity.
  Qed.

  Lemma rewrite_arg_ok' : forall t p,
      q <> [] -> first_hit_list q t = Some p -> forallb (id_free p) t = true ->
      existsb (stmt_exists dirty) t = false ->
      exists g st, rewrite_visit q (NArg a0) t = Ok (NMod g, st) /\ rw_replaced st = true
                   /\ rw_node st = NArg a0 /\ existsb (stmt_exists dirty) g = false.
  Proof.
    intros t p Hq Hf Hp Hd.
    assert (Hall : Forall vk_ok t) by (apply Forall_forall; intros x _; apply vk_all).
    assert (Hh : forall h, first_hit_list q t = Some h -> forallb (id_free h) t = true).
    { intros h E. rewrite Hf in E. inversion E; subst. assumption. }
    destruct (vk_list_of t Hall (mkRw false (NArg a0)) eq_refl eq_refl Hh) as [g [st [E [N D]]]].
    assert (Hv : rewrite_visit q (NArg a0) t = Ok (NMod g, st)).
    { unfold rewrite_visit. destruct q; [contradiction|]. rewrite E. reflexivity. }
    exists g, st. split; [assumption|]. split; [|split; [assumption | apply D; assumption]].
    rewrite (C15_rewrite_position q (NArg a0) t g st Hq Hv), Hf. reflexivity.
  Qed.
End VisitArgKind.

(* the same without target_unshadowed *)
Theorem C14_total_lemma' : forall x, guard_C14_total' x = true -> C14_total_holds x.
Proof.
  intros x Hg. unfold guard_C14_total' in Hg.
  apply andb_true_iff in Hg. destruct Hg as [Hg Hwr].
  apply andb_true_iff in Hg. destruct Hg as [Hg Hres].
  unfold guard_C14 in Hg. apply andb_true_iff in Hg. destruct Hg as [Hdom Hcls].
  destruct (finding_class_C14 x) eqn:Ec; [discriminate|]. clear Hcls. unfold finding_class_C14 in Ec.
  destruct (ci_eval x) eqn:Hev; [discriminate|].
  destruct (first_pair_class x (ci_ips x) (ci_ops x)) eqn:Efp; [discriminate|].
  destruct (Nat.ltb 1 (List.length (ci_ips x))) eqn:Elen; [discriminate|]. clear Ec.
  destruct (domain_facts x Hdom) as [Hsi [Hso [Hleq [Hne [Hleafin Hleafout]]]]].
  assert (Hshape : exists ip op, ci_ips x = [ip] /\ ci_ops x = [op]).
  { revert Hleq Hne Elen. destruct (ci_ips x) as [|ip [|ip2 r]]; destruct (ci_ops x) as [|op [|op2 r']];
      simpl; intros; try discriminate. eauto. }
  destruct Hshape as [ip [op [Eips Eops]]].
  (* both addresses resolve, to leaves *)
  unfold addresses_resolve, out_positions, in_nodes in Hres. rewrite Eips, Eops, Hev in Hres. simpl in Hres.
  destruct (resolve (dotted op) (ci_out x)) as [[p0 dst]|] eqn:Ero; simpl in Hres; [|discriminate].
  destruct (resolve (dotted ip) (ci_in x)) as [[pi0 src]|] eqn:Eri; simpl in Hres; [|discriminate].
  unfold in_nodes in Hleafin. rewrite Eips in Hleafin. simpl in Hleafin. rewrite Eri, andb_true_r in Hleafin.
  rewrite Eops in Hleafout. simpl in Hleafout. rewrite Ero, andb_true_r in Hleafout.
  pose proof (resolve_at_some [0] _ _ _ _ (dotted_nonempty op) Ero) as Hro.
  pose proof (resolve_at_some [1] _ _ _ _ (dotted_nonempty ip) Eri) as Hri.
  simpl app in Hro, Hri.
  (* the pair is in no finding class *)
  rewrite Eips, Eops in Efp. simpl in Efp. destruct (pair_class x ip op) eqn:Epc; [discriminate|]. clear Efp.
  destruct (pair_class_facts x ip op Hev Epc) as [Hin Hout]. rewrite Hro in Hout. simpl in Hout.
  unfold pair_class in Epc. rewrite Hev, Hin in Epc.
  destruct (rw_finding_class_at [0] (ci_out x) (dotted op)) eqn:E2; [discriminate|].
  rewrite Hri, Hro in Epc.
  destruct (is_parg src && negb (is_parg dst)) eqn:G1; [discriminate|].
  destruct (negb (is_parg src) && is_parg dst) eqn:G2; [discriminate|].
  match type of Epc with context [if ?c then Some K14_wrap_without_annotation else _] => destruct c eqn:G3 end;
    [discriminate|].
  destruct (negb (is_parg dst) && existsb (stmt_exists (is_parent_func (dotted op))) (annotate_at [0] (ci_out x)))
           eqn:G4; [discriminate|]. clear Epc.
  unfold rw_finding_class_at in E2.
  destruct (const_hazard (dotted op) (annotate_at [0] (ci_out x))) eqn:Ehz; [discriminate|]. clear E2.
  (* the input node is found *)
  pose proof (C15_partial_at [1] _ _ Hsi Hin) as Hfv. rewrite Hri in Hfv. unfold find_view_at, find_in_ast in Hfv.
  destruct (find_in_ast_log (dotted ip) (annotate_at [1] (ci_in x))) as [[rn log]|er] eqn:Efind; simpl in Hfv; [|discriminate].
  destruct rn as [n|]; simpl in Hfv; [|discriminate]. inversion Hfv as [Hview]. clear Hfv.
  (* the template step *)
  assert (Hwr' : forall w0 e, ci_wrap x = Some w0 -> src_ann src = Some e -> is_ok (wrap_annotation (ci_env x) w0 e) = true).
  { intros w0 e Hw0 Hsa. unfold wrap_ready in Hwr. rewrite Hw0 in Hwr. unfold in_nodes in Hwr. rewrite Eips in Hwr.
    simpl in Hwr. rewrite Eri, Hsa, andb_true_r in Hwr. exact Hwr. }
  set (i0 := annotate_at [1] (ci_in x)) in *. set (o0 := annotate_at [0] (ci_out x)) in *.
  destruct (apply_wrap_leaf (ci_env x) (ci_wrap x) n (apply_dlog log i0) (apply_dlog log o0) (1 :: pi0) src
                            Hview Hleafin G3 Hwr')
    as [repl [i2 [o2 [want [Hw [Ho2 [Hrv [Hcont [Hexp Hkind]]]]]]]]].
  set (t := apply_dlog log o0) in *.
  assert (Ho2' : o2 = t).
  { destruct Ho2 as [E|[e E]]; [assumption|]. subst o2. apply set_ann_by_id_absent. apply output_ids_after_dlog. }
  subst o2.
  assert (T1 : const_hazard (dotted op) t = false) by (unfold t; rewrite const_hazard_apply_dlog; assumption).
  assert (T2 : first_hit_list (dotted op) t = Some (0 :: p0)).
  { unfold t, apply_dlog. rewrite first_hit_list_map_all; [exact Hout|].
    intros s. apply first_hit_map_args. apply attach_default_keeps. }
  assert (T3 : existsb (stmt_exists dirty) t = false).
  { unfold t. rewrite exists_apply_dlog; [apply annotate_clean | intros s; apply dirty_map_args]. }
  assert (Hrw : exists g st, rewrite_visit (dotted op) repl t = Ok (NMod g, st) /\ rw_replaced st = true
                             /\ rw_node st = repl /\ existsb (stmt_exists dirty) g = false).
  { destruct Hkind as [[Hpa [a Ha]]|[Hps [s0 [Hs0 Hcl]]]]; subst repl.
    - rewrite Hpa in G1. simpl in G1. apply negb_false_iff in G1.
      destruct dst as [dm|ds|da]; simpl in G1; try discriminate.
      apply rewrite_arg_ok' with (p := 0 :: p0); try assumption; [apply dotted_nonempty|].
      unfold t. rewrite id_free_apply_dlog. exact (arg_free_module _ _ _ _ _ Hro).
    - rewrite Hps in G2. simpl in G2. rewrite G2 in G4. simpl in G4.
      apply rewrite_stmt_ok with (p := 0 :: p0); try assumption; [apply dotted_nonempty|].
      unfold t. rewrite exists_apply_dlog; [exact G4 | intros s; apply parent_map_args]. }
  destruct Hrw as [g [st [Hrv' [Hrep [Hnode Hclean]]]]].
  assert (Hpd : is_parg dst = is_parg src).
  { destruct (is_parg src); destruct (is_parg dst); simpl in *; congruence. }
  destruct (C15_rewrite_frame_lemma (dotted op) repl t g st (dotted_nonempty op) Hrv') as [[Hf _]|[_ [p' [Hfh Hrf]]]];
    [congruence|].
  rewrite T2 in Hfh. inversion Hfh; subst p'. rewrite Hnode in Hrf.
  exists ip, op, g, (0 :: p0), dst, (1 :: pi0), src, log, repl, want.
  split; [assumption|]. split; [assumption|]. split.
  { apply (run_single x ip op i0 o0 g i2); try assumption.
    - unfold ast_parse. rewrite Hsi. reflexivity.
    - unfold ast_parse. rewrite Hso. reflexivity.
    - intros e. rewrite Hev. eapply sync_property_success; eassumption.
    - apply clean_emit. assumption. }
  split; [assumption|]. split; [assumption|]. split; [apply erase_apply_dlog_annotate|].
  split; [assumption|]. split; [assumption|].
  apply Hexp; try reflexivity; assumption.
Qed.

Theorem C14_success_lemma' : forall x, guard_C14_total' x = true ->
    exists tree, run_C14 x = ([EvWrite FOutput tree], Ok tt).
Proof.
  intros x H. destruct (C14_total_lemma' x H) as [ip [op [tree [p [dst [pi [src [log [repl [want [_ [_ [Hr _]]]]]]]]]]]]].
  exists tree. exact Hr.
Qed.

Theorem C14_partial_total_lemma' : forall x, guard_C14_total' x = true -> C14_total_holds x /\ C14_holds x.
Proof.
  intros x H. split; [apply C14_total_lemma'; assumption|]. apply C14_partial_lemma.
  unfold guard_C14_total' in H. do 2 (apply andb_true_iff in H; destruct H as [H _]). exact H.
Qed.

(* the former counterexample to the sufficiency-only condition is now covered *)
Lemma C14_total_shadow_covered :
  guard_C14_total' (w_call w_in [L "f.a"] w_out_shadow [L "C.z"] None) = true
  /\ guard_C14_total (w_call w_in [L "f.a"] w_out_shadow [L "C.z"] None) = false.
Proof. split; vm_compute; reflexivity. Qed.

(* ====================================================================== several pairs: success *)
Lemma map_args_stmt_id : forall f, (forall a, f a = a) -> forall s, map_args_stmt f s = s.
Proof.
  intros f Hf. induction s using astmt_ind2; try reflexivity.
  - simpl. f_equal.
    + destruct a as [aa ad ak akd av akw]. unfold map_arguments. simpl.
      rewrite !map_id_Forall by (apply Forall_forall; intros; apply Hf). reflexivity.
    + apply map_id_Forall. assumption.
  - simpl. f_equal. apply map_id_Forall. assumption.
  - simpl. f_equal. apply map_id_Forall.
    induction H as [|b0 bl0 Hb Hbl IHbl]; constructor; [|assumption]. apply map_id_Forall. assumption.
  - simpl. rewrite Hf. reflexivity.
Qed.

Lemma apply_dlog_nil : forall m, apply_dlog [] m = m.
Proof.
  intros m. unfold apply_dlog. apply map_id_Forall. apply Forall_forall. intros s _.
  apply map_args_stmt_id. intros a. destruct a; reflexivity.
Qed.

(* what a visit preserves of the predicates the next pairs need, when the replacement node is not converted *)
Section VisitGood.
  Variable q : loc.
  Variable r0 : anode.
  Variable rs0 : astmt.
  Hypothesis Hrs0 : node_as_stmt r0 = Ok rs0.

  Definition vg_concl (s s' : astmt) : Prop :=
    (forall h, id_free h rs0 = true -> id_free h s = true -> id_free h s' = true)
    /\ (forall q', stmt_exists (is_parent_func q') rs0 = false ->
                   stmt_exists (is_parent_func q') s = false -> stmt_exists (is_parent_func q') s' = false)
    /\ (forall seg, stmt_hazard seg rs0 = false -> stmt_hazard seg s = false -> stmt_hazard seg s' = false).

  Definition vg_ok (s : astmt) : Prop :=
    forall st s' st', visit_stmt q st s = Ok (s', st') -> rw_node st = r0 ->
      (is_arg_node r0 = true \/ stmt_exists (is_parent_func q) s = false) ->
      rw_node st' = r0 /\ vg_concl s s'.

  Definition vg_list_concl (l l' : list astmt) : Prop :=
    (forall h, id_free h rs0 = true -> forallb (id_free h) l = true -> forallb (id_free h) l' = true)
    /\ (forall q', stmt_exists (is_parent_func q') rs0 = false ->
                   existsb (stmt_exists (is_parent_func q')) l = false -> existsb (stmt_exists (is_parent_func q')) l' = false)
    /\ (forall seg, stmt_hazard seg rs0 = false ->
                    existsb (stmt_hazard seg) l = false -> existsb (stmt_hazard seg) l' = false).

  Lemma vg_list_of : forall l, Forall vg_ok l ->
    forall st l' st', visit_list q st l = Ok (l', st') -> rw_node st = r0 ->
      (is_arg_node r0 = true \/ existsb (stmt_exists (is_parent_func q)) l = false) ->
      rw_node st' = r0 /\ vg_list_concl l l'.
  Proof.
    intros l H. induction H as [|x l Hx Hl IH]; intros st l' st' Hv Hn Hd; simpl in Hv.
    - injection Hv as Ei1 Ei2; subst l' st'. split; [first [assumption | reflexivity]|]. repeat split; auto.
    - destruct (visit_stmt q st x) as [[x' st1]|er] eqn:Ex; simpl in Hv; [|discriminate].
      destruct (visit_list q st1 l) as [[l1 st2]|er] eqn:El; simpl in Hv; [|discriminate].
      injection Hv as Ei1 Ei2; subst l' st'.
      assert (Hd1 : is_arg_node r0 = true \/ stmt_exists (is_parent_func q) x = false).
      { destruct Hd as [Hd|Hd]; [left; assumption|]. simpl in Hd. apply orb_false_iff in Hd. right. tauto. }
      assert (Hd2 : is_arg_node r0 = true \/ existsb (stmt_exists (is_parent_func q)) l = false).
      { destruct Hd as [Hd|Hd]; [left; assumption|]. simpl in Hd. apply orb_false_iff in Hd. right. tauto. }
      destruct (Hx st x' st1 Ex Hn Hd1) as [N1 [A1 [B1 C1]]].
      destruct (IH st1 l1 st2 El N1 Hd2) as [N2 [A2 [B2 C2]]].
      split; [assumption|]. split; [|split].
      + intros h Hr Hs. simpl in *. apply andb_true_iff in Hs. destruct Hs as [Hs1 Hs2].
        rewrite (A1 h Hr Hs1), (A2 h Hr Hs2). reflexivity.
      + intros q' Hr Hs. simpl in *. apply orb_false_iff in Hs. destruct Hs as [Hs1 Hs2].
        rewrite (B1 q' Hr Hs1), (B2 q' Hr Hs2). reflexivity.
      + intros seg Hr Hs. simpl in *. apply orb_false_iff in Hs. destruct Hs as [Hs1 Hs2].
        rewrite (C1 seg Hr Hs1), (C2 seg Hr Hs2). reflexivity.
  Qed.

  Definition vg_blocks_concl (bl bl' : list (list astmt)) : Prop :=
    (forall h, id_free h rs0 = true -> forallb (fun b => forallb (id_free h) b) bl = true
               -> forallb (fun b => forallb (id_free h) b) bl' = true)
    /\ (forall q', stmt_exists (is_parent_func q') rs0 = false ->
                   existsb (fun b => existsb (stmt_exists (is_parent_func q')) b) bl = false
                   -> existsb (fun b => existsb (stmt_exists (is_parent_func q')) b) bl' = false)
    /\ (forall seg, stmt_hazard seg rs0 = false ->
                    existsb (fun b => existsb (stmt_hazard seg) b) bl = false
                    -> existsb (fun b => existsb (stmt_hazard seg) b) bl' = false).

  Lemma vg_blocks_of : forall bl, Forall (Forall vg_ok) bl ->
    forall st bl' st', visit_blocks q st bl = Ok (bl', st') -> rw_node st = r0 ->
      (is_arg_node r0 = true \/ existsb (fun b => existsb (stmt_exists (is_parent_func q)) b) bl = false) ->
      rw_node st' = r0 /\ vg_blocks_concl bl bl'.
  Proof.
    intros bl H. induction H as [|b bl Hb Hbl IH]; intros st bl' st' Hv Hn Hd; simpl in Hv.
    - injection Hv as Ei1 Ei2; subst bl' st'. split; [first [assumption | reflexivity]|]. repeat split; auto.
    - destruct (visit_list q st b) as [[b' st1]|er] eqn:Eb; simpl in Hv; [|discriminate].
      destruct (visit_blocks q st1 bl) as [[bl1 st2]|er] eqn:El; simpl in Hv; [|discriminate].
      injection Hv as Ei1 Ei2; subst bl' st'.
      assert (Hd1 : is_arg_node r0 = true \/ existsb (stmt_exists (is_parent_func q)) b = false).
      { destruct Hd as [Hd|Hd]; [left; assumption|]. simpl in Hd. apply orb_false_iff in Hd. right. tauto. }
      assert (Hd2 : is_arg_node r0 = true \/ existsb (fun b0 => existsb (stmt_exists (is_parent_func q)) b0) bl = false).
      { destruct Hd as [Hd|Hd]; [left; assumption|]. simpl in Hd. apply orb_false_iff in Hd. right. tauto. }
      destruct (vg_list_of b Hb st b' st1 Eb Hn Hd1) as [N1 [A1 [B1 C1]]].
      destruct (IH st1 bl1 st2 El N1 Hd2) as [N2 [A2 [B2 C2]]].
      split; [assumption|]. split; [|split].
      + intros h Hr Hs. simpl in *. apply andb_true_iff in Hs. destruct Hs as [Hs1 Hs2].
        rewrite (A1 h Hr Hs1), (A2 h Hr Hs2). reflexivity.
      + intros q' Hr Hs. simpl in *. apply orb_false_iff in Hs. destruct Hs as [Hs1 Hs2].
        rewrite (B1 q' Hr Hs1), (B2 q' Hr Hs2). reflexivity.
      + intros seg Hr Hs. simpl in *. apply orb_false_iff in Hs. destruct Hs as [Hs1 Hs2].
        rewrite (C1 seg Hr Hs1), (C2 seg Hr Hs2). reflexivity.
  Qed.

  Lemma vg_leaf : forall s,
      (forall st, visit_stmt q st s
                  = if negb (rw_replaced st) && oloc_eqb (stmt_loc s) q
                    then (do r <- node_as_stmt (rw_node st); Ok (r, mkRw true (rw_node st))) else Ok (s, st)) ->
      vg_ok s.
  Proof.
    intros s Hvs st s' st' Hv Hn Hd. rewrite Hvs in Hv.
    destruct (negb (rw_replaced st) && oloc_eqb (stmt_loc s) q).
    - rewrite Hn, Hrs0 in Hv. simpl in Hv. injection Hv as Ei1 Ei2; subst s' st'. split; [first [assumption | reflexivity]|]. repeat split; auto.
    - injection Hv as Ei1 Ei2; subst s' st'. split; [first [assumption | reflexivity]|]. repeat split; auto.
  Qed.

  Lemma vg_all : forall s, vg_ok s.
  Proof.
    induction s using astmt_ind2.
    - intros st s' st' Hv Hn Hd. destruct Hd as [Hd|Hd].
      + rewrite <- Hn in Hd. destruct (is_arg_node_conv _ _ _ _ _ _ _ _ _ _ _ Hd Hv) as [N [a' [Es Ed]]].
        subst s'. split; [congruence|]. split; [|split].
        * intros; reflexivity.
        * intros q' _ Hs. rewrite stmt_exists_func in *. exact Hs.
        * intros; reflexivity.
      + apply stmt_exists_head in Hd. simpl in Hd.
        change (visit_stmt q st (AFunc i l n a b d r)) with (visit_FunctionDef q st (AFunc i l n a b d r)) in Hv.
        unfold visit_FunctionDef in Hv. rewrite Hd, andb_false_r in Hv. injection Hv as Ei1 Ei2; subst s' st'.
        split; [first [assumption | reflexivity]|]. repeat split; auto.
    - intros st s' st' Hv Hn Hd. rewrite visit_stmt_class in Hv.
      destruct (negb (rw_replaced st) && oloc_eqb l q).
      + rewrite Hn, Hrs0 in Hv. simpl in Hv. injection Hv as Ei1 Ei2; subst s' st'. split; [first [assumption | reflexivity]|]. repeat split; auto.
      + destruct (visit_list q st b) as [[b' st1]|er] eqn:Eb; simpl in Hv; [|discriminate]. injection Hv as Ei1 Ei2; subst s' st'.
        assert (Hd' : is_arg_node r0 = true \/ existsb (stmt_exists (is_parent_func q)) b = false).
        { destruct Hd as [Hd|Hd]; [left; assumption|]. rewrite stmt_exists_class in Hd.
          apply orb_false_iff in Hd. right. tauto. }
        destruct (vg_list_of b H st b' st1 Eb Hn Hd') as [N1 [A1 [B1 C1]]].
        split; [assumption|]. split; [|split].
        * intros h Hr Hs. simpl in *. apply andb_true_iff in Hs. destruct Hs as [Hs1 Hs2].
          rewrite Hs1, (A1 h Hr Hs2). reflexivity.
        * intros q' Hr Hs. rewrite stmt_exists_class in *. apply orb_false_iff in Hs. destruct Hs as [Hs1 Hs2].
          simpl. exact (B1 q' Hr Hs2).
        * intros seg Hr Hs. simpl in *. apply orb_false_iff in Hs. destruct Hs as [Hs1 Hs2].
          rewrite Hs1, (C1 seg Hr Hs2). reflexivity.
    - apply vg_leaf; intros; reflexivity.
    - apply vg_leaf; intros; reflexivity.
    - apply vg_leaf; intros; reflexivity.
    - apply vg_leaf; intros; reflexivity.
    - intros st s' st' Hv Hn Hd. rewrite visit_stmt_other in Hv.
      destruct (visit_blocks q st bl) as [[bl' st1]|er] eqn:Eb; simpl in Hv; [|discriminate]. injection Hv as Ei1 Ei2; subst s' st'.
      assert (Hd' : is_arg_node r0 = true \/ existsb (fun b0 => existsb (stmt_exists (is_parent_func q)) b0) bl = false).
      { destruct Hd as [Hd|Hd]; [left; assumption|]. rewrite stmt_exists_other in Hd.
        apply orb_false_iff in Hd. right. tauto. }
      destruct (vg_blocks_of bl H st bl' st1 Eb Hn Hd') as [N1 [A1 [B1 C1]]].
      split; [assumption|]. split; [|split].
      + intros hh Hr Hs. simpl in *. exact (A1 hh Hr Hs).
      + intros q' Hr Hs. rewrite stmt_exists_other in *. apply orb_false_iff in Hs. destruct Hs as [Hs1 Hs2].
        simpl. exact (B1 q' Hr Hs2).
      + intros seg Hr Hs. simpl in *. apply orb_false_iff in Hs. destruct Hs as [Hs1 Hs2].
        rewrite Hs1. simpl. exact (C1 seg Hr Hs2).
    - apply vg_leaf; intros; reflexivity.
  Qed.

  Lemma rewrite_good : forall t g st,
      q <> [] -> rewrite_visit q r0 t = Ok (NMod g, st) ->
      (is_arg_node r0 = true \/ existsb (stmt_exists (is_parent_func q)) t = false) ->
      vg_list_concl t g.
  Proof.
    intros t g st Hq Hv Hd. unfold rewrite_visit in Hv. destruct q as [|x q0] eqn:Eq; [contradiction|].
    rewrite <- Eq in *.
    destruct (visit_list q (mkRw false r0) t) as [[l st1]|er] eqn:E; simpl in Hv; [|discriminate].
    inversion Hv; subst l st1.
    assert (Hall : Forall vg_ok t) by (apply Forall_forall; intros y _; apply vg_all).
    destruct (vg_list_of t Hall _ _ _ E eq_refl Hd) as [_ C]. exact C.
  Qed.
End VisitGood.

(* ------------------------------------------------------------------ the loop succeeds *)
Definition is_leaf_astmt (s : astmt) : bool :=
  match s with AAnnAssign _ _ _ _ _ => true | AAssign _ _ _ _ => true | _ => false end.

Lemma leaf_node_cases : forall n id src, node_view n = (id, src) -> leaf_pnode src = true ->
    (is_parg src = true /\ exists a, n = NArg a /\ aa_id a = id)
    \/ (is_parg src = false /\ exists s0, n = NStmt s0 /\ stmt_id s0 = id /\ is_leaf_astmt s0 = true).
Proof.
  intros n id src Hv Hl. destruct src as [m|s|a]; simpl in Hl; try discriminate.
  - right. split; [reflexivity|]. destruct s; try discriminate.
    + destruct (view_annassign _ _ _ _ _ Hv) as [l E]. subst. eexists. repeat split.
    + destruct (view_assign _ _ _ _ Hv) as [l E]. subst. eexists. repeat split.
  - left. split; [reflexivity|]. destruct (view_arg _ _ _ Hv) as [a' [E [Hid _]]]. exists a'. split; assumption.
Qed.

Lemma leaf_astmt_facts : forall s0, is_leaf_astmt s0 = true ->
    stmt_exists dirty s0 = false /\ is_container (NStmt s0) = false
    /\ (forall q', stmt_exists (is_parent_func q') s0 = false)
    /\ (forall h, id_free h s0 = negb (path_eqb (stmt_id s0) h)).
Proof. intros s0 H. destruct s0; try discriminate; repeat split. Qed.

Lemma const_hazard_nonempty : forall q m, q <> [] -> const_hazard q m = existsb (stmt_hazard (last q [])) m.
Proof. intros q m H. destruct q; [contradiction | reflexivity]. Qed.

Definition pair_inv (x : c14_input) (i0 o : amodule) (pr : str * str * evald) : Prop :=
  exists n pi src p dst,
    find_in_ast_log (dotted (fst (fst pr))) i0 = Ok (Some n, [])
    /\ node_view n = (1 :: pi, src) /\ leaf_pnode src = true
    /\ resolve_at [0] (q_of pr) (ci_out x) = Some (0 :: p, dst) /\ is_parg dst = is_parg src
    /\ first_hit_list (q_of pr) o = Some (0 :: p)
    /\ forallb (class_loc_free (q_of pr)) o = true
    /\ const_hazard (q_of pr) o = false
    /\ (is_parg src = true -> forallb (id_free (0 :: p)) o = true)
    /\ (is_parg src = false -> existsb (stmt_exists (is_parent_func (q_of pr))) o = false).

Fixpoint hz_pairs (i0 : amodule) (pairs : list (str * str * evald)) : bool :=
  match pairs with
  | [] => true
  | pr :: rest =>
    match find_in_ast_log (dotted (fst (fst pr))) i0 with
    | Ok (Some n, _) =>
      match node_as_stmt n with
      | Ok s => forallb (fun pr' => negb (stmt_hazard (last (q_of pr') []) s)) rest
      | Err _ => true
      end
    | _ => true
    end && hz_pairs i0 rest
  end.

Lemma q_of_nonempty : forall pr, q_of pr <> [].
Proof. intros pr. apply dotted_nonempty. Qed.

Lemma multi_success_loop : forall x env i0 pairs o,
    Forall (pair_inv x i0 o) pairs ->
    existsb (stmt_exists dirty) o = false ->
    locs_distinct (map q_of pairs) = true ->
    quiet_loop env false None pairs i0 o = true ->
    hz_pairs i0 pairs = true ->
    exists o', sync_loop env false None pairs i0 o = Ok (o', i0) /\ existsb (stmt_exists dirty) o' = false.
Proof.
  intros x env i0 pairs. induction pairs as [|[[ip op] e] rest IH]; intros o Hinv Hclean Hd Hq Hhz.
  - exists o. split; [reflexivity | assumption].
  - inversion Hinv as [|pr0 l0 Hinv1 Hinvr]; subst.
    destruct Hinv1 as [n [pi [src [p [dst [Hfind [Hview [Hleaf [Hres [Hkind [Hfh [Hclf [Hhaz [Hidf Hpar]]]]]]]]]]]]]].
    unfold q_of in Hres, Hfh, Hclf, Hhaz, Hpar. simpl in Hfind, Hres, Hfh, Hclf, Hhaz, Hpar.
    (* the rewrite of this pair *)
    assert (Hrw : exists rs0 g st,
               node_as_stmt n = Ok rs0 /\ is_container n = false
               /\ rewrite_visit (dotted op) n o = Ok (NMod g, st) /\ rw_replaced st = true
               /\ existsb (stmt_exists dirty) g = false
               /\ (is_arg_node n = true \/ existsb (stmt_exists (is_parent_func (dotted op))) o = false)
               /\ (forall h p', h = 0 :: p' -> id_free h rs0 = true)
               /\ (forall q', stmt_exists (is_parent_func q') rs0 = false)).
    { destruct (leaf_node_cases _ _ _ Hview Hleaf) as [[Hpa [a [En Ea]]]|[Hps [s0 [En [Es Hl0]]]]]; subst n.
      - destruct (rewrite_arg_ok' (dotted op) a o (0 :: p) (dotted_nonempty op) Hfh (Hidf Hpa) Hclean)
          as [g [st [Hrv [Hrep [_ Hcg]]]]].
        exists (AArgS a), g, st. repeat split; try assumption; try reflexivity.
        + left. reflexivity.
        + intros h p' Eh. subst h. simpl. rewrite Ea. reflexivity.
      - destruct (leaf_astmt_facts s0 Hl0) as [Hd0 [Hc0 [Hp0 Hi0]]].
        destruct (rewrite_stmt_ok (dotted op) s0 Hd0 o (0 :: p) (dotted_nonempty op) (Hpar Hps) Hclean Hfh)
          as [g [st [Hrv [Hrep [_ Hcg]]]]].
        exists s0, g, st. repeat split; try assumption; try reflexivity.
        + right. exact (Hpar Hps).
        + intros h p' Eh. subst h. rewrite Hi0. simpl in Es. rewrite Es. reflexivity. }
    destruct Hrw as [rs0 [g [st [Hrs0 [Hcont [Hrv [Hrep [Hcg [Hdisj [Hid0 Hpar0]]]]]]]]]].
    assert (Hsp : sync_property env false ip i0 e op None o (is_empty rest) = Ok (g, i0)).
    { eapply sync_property_success with (n := n) (log := []) (repl := n) (o2 := o); try eassumption.
      rewrite !apply_dlog_nil. reflexivity. }
    assert (Hprep : sp_prepare env false ip i0 e op None o = Ok (n, i0, o)).
    { unfold sp_prepare. fold (dotted ip). rewrite Hfind. simpl. rewrite !apply_dlog_nil. reflexivity. }
    simpl in Hq. rewrite Hprep, Hsp in Hq. apply andb_true_iff in Hq. destruct Hq as [Hnq Hq'].
    simpl in Hd. apply andb_true_iff in Hd. destruct Hd as [Hnotin Hd']. apply negb_true_iff in Hnotin.
    unfold q_of in Hnotin. simpl in Hnotin.
    simpl in Hhz. rewrite Hfind, Hrs0 in Hhz. apply andb_true_iff in Hhz. destruct Hhz as [Hhz1 Hhz'].
    assert (HqQ : forall q', In q' (map q_of rest) -> q' <> dotted op).
    { intros q' Hin E. subst q'. pose proof (existsb_In_false _ _ _ _ Hnotin Hin) as Hc.
      rewrite loc_eqb_refl in Hc. discriminate. }
    destruct (rewrite_preserves (dotted op) (map q_of rest) HqQ n o g st (dotted_nonempty op) Hrv Hnq Hclf) as [F C].
    destruct (rewrite_good (dotted op) n rs0 Hrs0 o g st (dotted_nonempty op) Hrv Hdisj) as [GA [GB GC]].
    assert (Hinv' : Forall (pair_inv x i0 g) rest).
    { rewrite Forall_forall in *. intros pr Hin.
      destruct (Hinvr pr Hin) as [n' [pi' [src' [p' [dst' [Hf' [Hv' [Hl' [Hr' [Hk' [Hfh' [Hclf' [Hhaz' [Hidf' Hpar']]]]]]]]]]]]]].
      exists n', pi', src', p', dst'. repeat split; try assumption.
      - rewrite F by (apply in_map; assumption). assumption.
      - rewrite C. assumption.
      - rewrite const_hazard_nonempty in * by apply q_of_nonempty. apply GC; [|assumption].
        rewrite forallb_forall in Hhz1. specialize (Hhz1 pr Hin). apply negb_true_iff in Hhz1. exact Hhz1.
      - intros Hs. apply GA; [apply (Hid0 _ p' eq_refl) | apply Hidf'; assumption].
      - intros Hs. apply GB; [apply Hpar0 | apply Hpar'; assumption]. }
    destruct (IH g Hinv' Hcg Hd' Hq' Hhz') as [o' [Hl' Hc']].
    exists o'. simpl. rewrite Hsp. simpl. split; assumption.
Qed.

(* ------------------------------------------------------------------ from the guard to the loop invariant *)
Lemma pair_inv_init : forall x ip op e p0 dst pi0 src,
    ci_eval x = false -> supported (ci_in x) = true ->
    pair_class x ip op = None ->
    resolve (dotted op) (ci_out x) = Some (p0, dst) -> resolve (dotted ip) (ci_in x) = Some (pi0, src) ->
    leaf_pnode src = true ->
    (match find_in_ast_log (dotted ip) (annotate_at [1] (ci_in x)) with Ok (_, []) => true | _ => false end) = true ->
    forallb (class_loc_free (dotted op)) (annotate_at [0] (ci_out x)) = true ->
    pair_inv x (annotate_at [1] (ci_in x)) (annotate_at [0] (ci_out x)) (ip, op, e).
Proof.
  intros x ip op e p0 dst pi0 src Hev Hsi Epc Ero Eri Hleaf Hlog Hclf.
  pose proof (resolve_at_some [0] _ _ _ _ (dotted_nonempty op) Ero) as Hro.
  pose proof (resolve_at_some [1] _ _ _ _ (dotted_nonempty ip) Eri) as Hri.
  simpl app in Hro, Hri.
  destruct (pair_class_facts x ip op Hev Epc) as [Hin Hout]. rewrite Hro in Hout. simpl in Hout.
  unfold pair_class in Epc. rewrite Hev, Hin in Epc.
  destruct (rw_finding_class_at [0] (ci_out x) (dotted op)) eqn:E2; [discriminate|].
  rewrite Hri, Hro in Epc.
  destruct (is_parg src && negb (is_parg dst)) eqn:G1; [discriminate|].
  destruct (negb (is_parg src) && is_parg dst) eqn:G2; [discriminate|].
  match type of Epc with context [if ?c then Some K14_wrap_without_annotation else _] => destruct c eqn:G3 end;
    [discriminate|].
  destruct (negb (is_parg dst) && existsb (stmt_exists (is_parent_func (dotted op))) (annotate_at [0] (ci_out x)))
           eqn:G4; [discriminate|]. clear Epc.
  unfold rw_finding_class_at in E2.
  destruct (const_hazard (dotted op) (annotate_at [0] (ci_out x))) eqn:Ehz; [discriminate|]. clear E2.
  pose proof (C15_partial_at [1] _ _ Hsi Hin) as Hfv. rewrite Hri in Hfv. unfold find_view_at, find_in_ast in Hfv.
  destruct (find_in_ast_log (dotted ip) (annotate_at [1] (ci_in x))) as [[rn log]|er] eqn:Efind; simpl in Hfv; [|discriminate].
  destruct rn as [n|]; simpl in Hfv; [|discriminate]. inversion Hfv as [Hview]. clear Hfv.
  destruct log as [|lg lgs]; [|discriminate].
  assert (Hpd : is_parg dst = is_parg src).
  { destruct (is_parg src); destruct (is_parg dst); simpl in *; congruence. }
  exists n, pi0, src, p0, dst. unfold q_of. simpl.
  split; [exact Efind|]. split; [assumption|]. split; [assumption|]. split; [assumption|]. split; [assumption|].
  split; [assumption|]. split; [assumption|]. split; [assumption|]. split.
  - intros Hpa. rewrite <- Hpd in Hpa. destruct dst as [dm|ds|da]; simpl in Hpa; try discriminate.
    exact (arg_free_module _ _ _ _ _ Hro).
  - intros Hps. rewrite <- Hpd in Hps. rewrite Hps in G4. simpl in G4. exact G4.
Qed.

Lemma pair_inv_all : forall x, ci_eval x = false -> supported (ci_in x) = true ->
    forall ips ops evs,
      all_pairs_clean x ips ops = true ->
      all_some (map (fun op => option_map fst (resolve (dotted op) (ci_out x))) ops) = true ->
      all_some (map (fun ip => resolve (dotted ip) (ci_in x)) ips) = true ->
      forallb (fun o => match o with Some (_, n) => leaf_pnode n | None => true end)
              (map (fun ip => resolve (dotted ip) (ci_in x)) ips) = true ->
      forallb (fun ip => match find_in_ast_log (dotted ip) (annotate_at [1] (ci_in x)) with
                         | Ok (_, []) => true | _ => false end) ips = true ->
      forallb (fun op => forallb (class_loc_free (dotted op)) (annotate_at [0] (ci_out x))) ops = true ->
      Forall (pair_inv x (annotate_at [1] (ci_in x)) (annotate_at [0] (ci_out x))) (zip3 ips ops evs).
Proof.
  intros x Hev Hsi ips. induction ips as [|ip ips IH]; intros ops evs Hc Hro Hri Hlf Hlg Hcl; [constructor|].
  destruct ops as [|op ops]; [constructor|].
  simpl in Hc. destruct (pair_class x ip op) eqn:Epc; [discriminate|].
  unfold all_some in Hro, Hri. simpl in Hro, Hri, Hlf, Hlg, Hcl.
  apply andb_true_iff in Hro. destruct Hro as [Hro1 Hro2].
  apply andb_true_iff in Hri. destruct Hri as [Hri1 Hri2].
  apply andb_true_iff in Hlf. destruct Hlf as [Hlf1 Hlf2].
  apply andb_true_iff in Hlg. destruct Hlg as [Hlg1 Hlg2].
  apply andb_true_iff in Hcl. destruct Hcl as [Hcl1 Hcl2].
  destruct (resolve (dotted op) (ci_out x)) as [[p0 dst]|] eqn:Ero; simpl in Hro1; [|discriminate].
  destruct (resolve (dotted ip) (ci_in x)) as [[pi0 src]|] eqn:Eri; [|discriminate].
  assert (Hrest : Forall (pair_inv x (annotate_at [1] (ci_in x)) (annotate_at [0] (ci_out x))) (zip3 ips ops (tl evs))).
  { apply IH; assumption. }
  simpl. destruct evs as [|ev evs]; constructor; try assumption;
    eapply pair_inv_init; eassumption.
Qed.

Lemma zip3_forallb : forall (P : loc -> bool) ips ops evs,
    forallb (fun op' => P (dotted op')) ops = true -> forallb (fun pr' => P (q_of pr')) (zip3 ips ops evs) = true.
Proof.
  intros P ips. induction ips as [|ip ips IH]; intros ops evs H; [reflexivity|].
  destruct ops as [|op ops]; [reflexivity|]. simpl in H. apply andb_true_iff in H. destruct H as [H1 H2].
  simpl. destruct evs as [|ev evs]; simpl; unfold q_of at 1; simpl; rewrite H1; apply IH; assumption.
Qed.

Lemma hz_of_hazard_free : forall x ips ops evs, hazard_free_pairs x ips ops = true ->
    hz_pairs (annotate_at [1] (ci_in x)) (zip3 ips ops evs) = true.
Proof.
  intros x ips. induction ips as [|ip ips IH]; intros ops evs H; [reflexivity|].
  destruct ops as [|op ops]; [reflexivity|]. simpl in H. apply andb_true_iff in H. destruct H as [H1 H2].
  assert (Hhead : forall rest' : list (str * str * evald), rest' = zip3 ips ops (tl evs) ->
             match find_in_ast_log (dotted ip) (annotate_at [1] (ci_in x)) with
             | Ok (Some n, _) =>
               match node_as_stmt n with
               | Ok s => forallb (fun pr' => negb (stmt_hazard (last (q_of pr') []) s)) rest'
               | Err _ => true
               end
             | _ => true
             end = true).
  { intros rest' E. subst rest'. unfold in_stmt in H1.
    destruct (find_in_ast_log (dotted ip) (annotate_at [1] (ci_in x))) as [[[n|] lg]|er]; try reflexivity.
    destruct (node_as_stmt n) as [s|er]; [|reflexivity].
    apply (zip3_forallb (fun q => negb (stmt_hazard (last q []) s))). exact H1. }
  simpl. destruct evs as [|ev evs]; simpl.
  - rewrite (Hhead (zip3 ips ops []) eq_refl). simpl. apply IH. assumption.
  - rewrite (Hhead (zip3 ips ops evs) eq_refl). simpl. apply IH. assumption.
Qed.

Lemma run_multi : forall x i0 o0 o' i',
    ast_parse [1] (ci_in x) = Ok i0 -> ast_parse [0] (ci_out x) = Ok o0 ->
    Nat.eqb (List.length (ci_ips x)) (List.length (ci_ops x)) = true ->
    sync_loop (ci_env x) (ci_eval x) (ci_wrap x) (zip3 (ci_ips x) (ci_ops x) (ci_evs x)) i0 o0 = Ok (o', i') ->
    emit_file o' = Ok [EvWrite FOutput o'] ->
    run_C14 x = ([EvWrite FOutput o'], Ok tt).
Proof.
  intros x i0 o0 o' i' Hi Ho Hl Hs He. unfold run_C14, sync_properties. rewrite Hi, Ho. cbn [bind].
  rewrite Hl. cbn [negb]. rewrite Hs. cbn [bind fst]. rewrite He. reflexivity.
Qed.

Theorem C14_multi_total_lemma : forall x, guard_C14_multi_total x = true -> C14_multi_total_holds x.
Proof.
  intros x Hg. unfold guard_C14_multi_total in Hg.
  apply andb_true_iff in Hg. destruct Hg as [Hg Hhzf].
  apply andb_true_iff in Hg. destruct Hg as [Hg Hlogs].
  apply andb_true_iff in Hg. destruct Hg as [Hg Hnw].
  apply andb_true_iff in Hg. destruct Hg as [Hgm Hres].
  pose proof Hgm as Hgm0. unfold guard_C14_multi in Hgm.
  apply andb_true_iff in Hgm. destruct Hgm as [Hgm Hquiet].
  apply andb_true_iff in Hgm. destruct Hgm as [Hgm Hclf].
  apply andb_true_iff in Hgm. destruct Hgm as [Hgm Hdist].
  apply andb_true_iff in Hgm. destruct Hgm as [Hgm Hclean].
  apply andb_true_iff in Hgm. destruct Hgm as [Hdom Hev]. apply negb_true_iff in Hev.
  destruct (domain_facts x Hdom) as [Hsi [Hso [Hleq [Hne [Hleafin Hleafout]]]]].
  unfold no_wrap in Hnw. destruct (ci_wrap x) as [w|] eqn:Ew; [discriminate|].
  unfold addresses_resolve in Hres. rewrite Hev in Hres. simpl in Hres.
  apply andb_true_iff in Hres. destruct Hres as [Hres1 Hres2].
  pose proof (pair_inv_all x Hev Hsi (ci_ips x) (ci_ops x) (ci_evs x) Hclean Hres1 Hres2 Hleafin Hlogs Hclf) as Hinv.
  assert (Hd : locs_distinct (map q_of (zip3 (ci_ips x) (ci_ops x) (ci_evs x))) = true).
  { apply Nat.eqb_eq in Hleq.
    replace (map q_of (zip3 (ci_ips x) (ci_ops x) (ci_evs x))) with (map dotted (ci_ops x)); [assumption|].
    rewrite <- (zip3_ops (ci_ips x) (ci_ops x) (ci_evs x) Hleq) at 1. rewrite map_map. reflexivity. }
  try rewrite Ew in Hquiet.
  destruct (multi_success_loop x (ci_env x) _ _ _ Hinv (annotate_clean [0] (ci_out x)) Hd Hquiet
                               (hz_of_hazard_free x _ _ _ Hhzf)) as [o' [Hl Hc]].
  assert (Hrun : run_C14 x = ([EvWrite FOutput o'], Ok tt)).
  { apply (run_multi x (annotate_at [1] (ci_in x)) (annotate_at [0] (ci_out x)) o' (annotate_at [1] (ci_in x))).
    - unfold ast_parse. rewrite Hsi. reflexivity.
    - unfold ast_parse. rewrite Hso. reflexivity.
    - assumption.
    - rewrite Hev, Ew. exact Hl.
    - apply clean_emit. assumption. }
  exists o'. split; [assumption|]. apply C14_multi_lemma; [assumption|]. rewrite Hrun. reflexivity.
Qed.

(* ------------------------------------------------------------------ round 2: witnesses *)
Definition x_mt_mixed : c14_input :=
  w_call w_in_cls [L "K.lr"; L "K.m.a"; L "K.m.b"] w_out_cls [L "Cfg.q"; L "train.opt"; L "train.y"] None.
Definition w_in_hz : module :=
  [SClass (L "K") [] [SAnnAssign (EName (L "lr")) (EName (L "str")) (Some (EConst (VStr (L "x"))));
                      SAnnAssign (EName (L "m")) (EName (L "int")) None] []].
Definition w_out_hz : module :=
  [SClass (L "Cfg") [] [SAnnAssign (EName (L "lr")) (EName (L "float")) None;
                        SAnnAssign (EName (L "x")) (EName (L "float")) None] []].
Definition x_hz : c14_input := w_call w_in_hz [L "K.lr"; L "K.m"] w_out_hz [L "Cfg.lr"; L "Cfg.x"] None.

Lemma C14_multi_total_nonvacuous_lemma :
  guard_C14_multi_total x_mt_mixed = true /\ C14_at_b x_mt_mixed = true
  /\ guard_C14_multi_total (w_call w_in_ff [L "f.a"; L "f.b"] w_out_ff [L "f.a"; L "f.b"] None) = true
  /\ guard_C14_multi_total (w_call w_in_cls [L "K.lr"; L "K.m.a"] w_out_cls [L "Cfg.lr"; L "train.x"] None) = true.
Proof. repeat split; vm_compute; reflexivity. Qed.

Lemma C14_multi_total_side_conditions :
  (* a moved node holding a string constant equal to the last segment of a later address: the model declines *)
  (guard_C14_multi x_hz = true /\ addresses_resolve x_hz = true /\ logs_empty x_hz = true
   /\ hazard_free_pairs x_hz (ci_ips x_hz) (ci_ops x_hz) = false /\ run_C14 x_hz = ([], Err Unmodelled))
  (* logs_empty (and no_wrap) restrict the PROOF, not the truth: an input argument with a default still succeeds *)
  /\ (guard_C14_multi (x_multi3 None) = true /\ logs_empty (x_multi3 None) = false
      /\ is_write (run_C14 (x_multi3 None)) = true).
Proof. repeat split; vm_compute; reflexivity. Qed.
