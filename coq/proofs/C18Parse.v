(* C18Parse: parse-level transparency of word wrapping, ReST style.  Proofs only.
   The text emit.docstring writes with word_wrap on and the text it writes with word_wrap off are both
   scanned into blocks (DocParseFacts.scan_rest_blocks); a wrapped  :param  block and its unwrapped twin
   take the parser state to the same state (the value is stripped, then re-joined by _set_name_and_type);
   type lines are the same text; the summary and the prose of the return entry keep their line breaks. *)
From Coq Require Import List Ascii Bool Arith ZArith Lia.
From Coq Require String.
Import String.StringSyntax.
From DT Require Import PyStr Sexp PyVal TyExpr PureUtils Defaults PyAst IR Extracted Fill C17Spec.
From DT Require Import DocEmit C18Spec DocParse C01Spec C18ParseSpec.
From DT Require Import PyStrFacts DefaultsFacts SplitFacts FillFacts DocEmitFacts C18Facts DocParseFacts C01RestLink.
Import ListNotations.

(* ------------------------------------------------------------------ small string facts *)

Lemma edge_okb_spec : forall x, edge_okb x = true -> edge_ok x.
Proof.
  intros x H. unfold edge_okb in H. apply andb_true_iff in H. destruct H as [H1 H2]. split.
  - destruct x as [|c r]; [discriminate|]. exists c, r. split; [reflexivity|]. apply negb_true_iff. exact H1.
  - destruct (last_c x) as [c|]; [|discriminate]. exists c. split; [reflexivity|]. apply negb_true_iff. exact H2.
Qed.

Lemma edge_ok_nonnil : forall x, edge_ok x -> x <> [].
Proof. intros x [[c [r [E _]]] _]. rewrite E. discriminate. Qed.

Lemma value_after_spec : forall hdr t pad val,
    value_after hdr t = Some (pad, val) -> t = hdr ++ pad ++ val /\ forallb isspace pad = true.
Proof.
  intros hdr t pad val H. unfold value_after in H.
  destruct (startswith hdr t) eqn:E; [|discriminate]. apply startswith_iff in E. destruct E as [r E]. subst t.
  rewrite skipn_app_exact in H. injection H as H1 H2. subst pad val. split.
  - rewrite dropwhile_takewhile. reflexivity.
  - apply takewhile_forallb.
Qed.

Lemma strs_eqb_eq : forall a b, strs_eqb a b = true -> a = b.
Proof.
  induction a as [|x a IH]; intros [|y b] H; try discriminate; [reflexivity|].
  cbn [strs_eqb] in H. apply andb_true_iff in H. destruct H as [H1 H2].
  apply str_eqb_eq in H1. subst y. f_equal. apply IH. exact H2.
Qed.

Lemma strs_eqb_refl : forall a, strs_eqb a a = true.
Proof. induction a as [|x a IH]; [reflexivity|]. cbn [strs_eqb]. rewrite str_eqb_refl, IH. reflexivity. Qed.

Lemma ws_eqb_eq : forall a b, ws_eqb a b = true -> words a = words b.
Proof. intros a b H. apply strs_eqb_eq. exact H. Qed.

Lemma ws_eqb_of_words : forall a b, words a = words b -> ws_eqb a b = true.
Proof. intros a b H. unfold ws_eqb. rewrite H. apply strs_eqb_refl. Qed.

(* blanks in front of token-free text *)
Lemma no_rest_token_pad : forall pad x, forallb isspace pad = true -> no_rest_token x = true ->
    no_rest_token (pad ++ x) = true.
Proof.
  induction pad as [|c pad IH]; intros x Hp Hx; [exact Hx|].
  cbn [forallb] in Hp. apply andb_true_iff in Hp. destruct Hp as [Hc Hp].
  change ((c :: pad) ++ x) with ([c] ++ (pad ++ x)).
  apply no_rest_token_app_l.
  - apply no_colon_no_token. rewrite mem_c_cons. cbn [mem_c existsb]. rewrite orb_false_r.
    destruct (isspace_not_lower c Hc) as [_ Hn]. apply ascii_eqb_neq. intros E. apply Hn. symmetry. exact E.
  - apply IH; assumption.
  - intros c' Hc'. injection Hc' as Hc'. subst c'. apply (isspace_not_lower c Hc).
Qed.

(* ------------------------------------------------------------------ a key line whose value starts after any blanks *)

Definition key_line' (tokn n pad val ws : str) : str := tokn ++ sp :: n ++ colon :: pad ++ val ++ ws.

Lemma key_body_token_free' : forall n pad val ws,
    mem_c colon n = false -> pad <> [] -> forallb isspace pad = true ->
    no_rest_token val = true -> forallb isspace ws = true ->
    no_rest_token (sp :: n ++ colon :: pad ++ val ++ ws) = true.
Proof.
  intros n pad val ws Hn Hne Hpad Hval Hws.
  change (sp :: n ++ colon :: pad ++ val ++ ws) with ([] ++ sp :: (n ++ colon :: pad ++ val ++ ws)).
  apply no_rest_token_sp; [reflexivity|].
  apply no_rest_token_app_r; [apply no_colon_no_token; exact Hn| |].
  - change (colon :: pad ++ val ++ ws) with ([colon] ++ (pad ++ val ++ ws)).
    apply no_rest_token_app_r; [reflexivity| |].
    + apply no_rest_token_pad; [exact Hpad|]. apply no_rest_token_ws; assumption.
    + intros c Hc. destruct pad as [|c0 pad]; [contradiction|]. cbn [app head_c] in Hc. injection Hc as Hc. subst c0.
      cbn [forallb] in Hpad. apply andb_true_iff in Hpad. apply (isspace_not_lower c (proj1 Hpad)).
  - intros c Hc. injection Hc as Hc. subst c. reflexivity.
Qed.

(* the param-line step, as a function of the parser state *)
Definition pline_step (edd : bool) (n : str) (upd : param -> param) (st : rstate) : outcome rstate :=
  do fl <- flush_for n st;
  do p2 <- interpolate_defaults (upd (snd (snd fl))) default_announces false edd;
  do np <- set_name_and_type (Some n) p2 false true;
  Ok (mkRS (rs_doc st) (fst fl) (rs_returns st) (Some (fst np), snd np)).

Definition upd_doc (val : str) (c : param) : param := mkParam (Has val) (p_typ c) (p_default c).
Definition upd_typ (t : str) (c : param) : param := mkParam (p_doc c) (Has t) (p_default c).

Lemma step_param_line' : forall edd st n pad val ws,
    mem_c colon n = false -> edge_ok val -> forallb isspace pad = true -> forallb isspace ws = true ->
    step true edd st (true, key_line' (L ":param") n pad val ws) = pline_step edd n (upd_doc val) st.
Proof.
  intros edd st n pad val ws Hn Hval Hpad Hws. unfold step, parse_rest_line, key_line', pline_step, upd_doc.
  assert (Hret : existsb (fun t => startswith t (L ":param" ++ sp :: n ++ colon :: pad ++ val ++ ws))
                         Extracted.return_tokens_rest = false) by reflexivity.
  rewrite Hret.
  destruct (key_line_fields (L ":param") n (pad ++ val ++ ws) eq_refl Hn) as [Hname Hval'].
  cbv zeta in Hname, Hval'. change (ch 58) with colon. rewrite Hname, Hval'.
  rewrite (strip_pad pad val ws Hpad Hws Hval).
  fold (flush_for n st).
  destruct (flush_for n st) as [fl|e]; [|reflexivity]. cbn [bind].
  assert (Hkv : set_param_values (L ":param" ++ sp :: n ++ colon :: pad ++ val ++ ws) val (L ":type") = (false, val))
    by reflexivity.
  rewrite Hkv. unfold set_kv. cbn [fst snd].
  destruct (interpolate_defaults _ default_announces false edd) as [p2|e]; [|reflexivity]. cbn [bind].
  destruct (set_name_and_type (Some n) p2 false true) as [np|e]; [|reflexivity]. cbn [bind].
  unfold maybe_remove. rewrite andb_false_r. reflexivity.
Qed.

Lemma step_type_line' : forall edd st n t ws,
    mem_c colon n = false -> mem_c bt t = false -> t <> [] -> startswith (L "**") t = false ->
    forallb isspace ws = true ->
    step true edd st (true, key_line (L ":type") n (L "```" ++ t ++ L "```") ws) = pline_step edd n (upd_typ t) st.
Proof.
  intros edd st n t ws H1 H2 H3 H4 H5. unfold step. rewrite step_type_line by assumption. reflexivity.
Qed.

(* ---- frame: the summary is carried along, the return entry is not touched ---- *)
Definition set_doc (x : str) (st : rstate) : rstate := mkRS x (rs_params st) (rs_returns st) (rs_cur st).

Definition omap_doc (x : str) (o : outcome rstate) : outcome rstate :=
  match o with Ok s => Ok (set_doc x s) | Err e => Err e end.

Lemma pline_step_set_doc : forall edd n upd x st,
    pline_step edd n upd (set_doc x st) = omap_doc x (pline_step edd n upd st).
Proof.
  intros edd n upd x st. unfold pline_step.
  assert (Ef : flush_for n (set_doc x st) = flush_for n st) by reflexivity.
  rewrite Ef. destruct (flush_for n st) as [fl|e]; [|reflexivity]. cbn [bind].
  destruct (interpolate_defaults _ default_announces false edd) as [p2|e]; [|reflexivity]. cbn [bind].
  destruct (set_name_and_type (Some n) p2 false true) as [np|e]; [|reflexivity]. reflexivity.
Qed.

Lemma pline_step_returns : forall edd n upd st st',
    pline_step edd n upd st = Ok st' -> rs_returns st' = rs_returns st.
Proof.
  intros edd n upd st st' H. unfold pline_step in H.
  destruct (flush_for n st) as [fl|e]; [|discriminate]. cbn [bind] in H.
  destruct (interpolate_defaults _ default_announces false edd) as [p2|e]; [|discriminate]. cbn [bind] in H.
  destruct (set_name_and_type (Some n) p2 false true) as [np|e]; [|discriminate]. cbn [bind] in H.
  injection H as H. subst st'. reflexivity.
Qed.

(* two line lists: the same effect on every state; the second carries the summary along and leaves the
   return entry alone *)
Definition tok_lines_ok (edd : bool) (lw lu : list (bool * str)) : Prop :=
  (forall st, fold_outcome (step true edd) lw st = fold_outcome (step true edd) lu st)
  /\ (forall st x, fold_outcome (step true edd) lu (set_doc x st) = omap_doc x (fold_outcome (step true edd) lu st))
  /\ (forall st st', fold_outcome (step true edd) lu st = Ok st' -> rs_returns st' = rs_returns st).

Lemma tok_lines_ok_nil : forall edd, tok_lines_ok edd [] [].
Proof.
  intros edd. split; [reflexivity|]. split; [reflexivity|]. intros st st' H. injection H as H. subst. reflexivity.
Qed.

Lemma tok_lines_ok_app : forall edd a b a' b',
    tok_lines_ok edd a a' -> tok_lines_ok edd b b' -> tok_lines_ok edd (a ++ b) (a' ++ b').
Proof.
  intros edd a b a' b' [A1 [A2 A3]] [B1 [B2 B3]]. split; [|split].
  - intros st. rewrite !fold_outcome_app, A1. destruct (fold_outcome (step true edd) a' st); [|reflexivity].
    cbn [bind]. apply B1.
  - intros st x. rewrite !fold_outcome_app, A2.
    destruct (fold_outcome (step true edd) a' st) as [s|e]; [|reflexivity]. cbn [omap_doc bind]. apply B2.
  - intros st st' H. rewrite fold_outcome_app in H.
    destruct (fold_outcome (step true edd) a' st) as [s|e] eqn:E; [|discriminate]. cbn [bind] in H.
    rewrite (B3 _ _ H). apply (A3 _ _ E).
Qed.

Lemma tok_lines_ok_single : forall edd lw lu n updw updu,
    (forall st, step true edd st lw = pline_step edd n updw st) ->
    (forall st, step true edd st lu = pline_step edd n updu st) ->
    (forall c, (do p2 <- interpolate_defaults (updw c) default_announces false edd;
                set_name_and_type (Some n) p2 false true)
               = (do p2 <- interpolate_defaults (updu c) default_announces false edd;
                  set_name_and_type (Some n) p2 false true)) ->
    tok_lines_ok edd [lw] [lu].
Proof.
  intros edd lw lu n updw updu Hw Hu HK.
  assert (Heq : forall st, pline_step edd n updw st = pline_step edd n updu st).
  { intros st. unfold pline_step. destruct (flush_for n st) as [fl|e]; [|reflexivity]. cbn [bind].
    pose proof (HK (snd (snd fl))) as H.
    destruct (interpolate_defaults (updw (snd (snd fl))) default_announces false edd) as [a|ea];
      destruct (interpolate_defaults (updu (snd (snd fl))) default_announces false edd) as [b|eb];
      cbn [bind] in *.
    - rewrite H. reflexivity.
    - rewrite H. reflexivity.
    - rewrite <- H. reflexivity.
    - congruence. }
  split; [|split].
  - intros st. cbn [fold_outcome]. rewrite Hw, Hu, Heq. reflexivity.
  - intros st x. cbn [fold_outcome]. rewrite !Hu, pline_step_set_doc.
    destruct (pline_step edd n updu st); reflexivity.
  - intros st st' H. cbn [fold_outcome] in H. rewrite Hu in H.
    destruct (pline_step edd n updu st) as [s|e] eqn:E; [|discriminate]. cbn [bind] in H. injection H as H. subst s.
    apply (pline_step_returns _ _ _ _ _ E).
Qed.

(* ------------------------------------------------------------------ _set_name_and_type reads the prose only re-joined *)

Lemma infer_default_doc : forall D T v it,
    infer_default (mkParam D T (Some v)) it
    = match infer_default (mkParam Missing T (Some v)) it with
      | Ok q => Ok (mkParam D (p_typ q) (p_default q))
      | Err e => Err e
      end.
Proof.
  intros D T v it. unfold infer_default. cbn [p_default p_typ p_doc].
  destruct (needs_quoting _) as [nq|e]; [|reflexivity]. cbn [bind].
  match goal with |- context [if ?c then _ else _] => destruct c end.
  - match goal with |- context [match ?t with Missing => _ | FNone => _ | Has _ => _ end] => destruct t as [| |tt] end;
      try reflexivity.
    destruct (contains [ch 91] tt); reflexivity.
  - reflexivity.
Qed.

Lemma snt_doc : forall n d1 d2 T Df,
    d1 <> [] -> d2 <> [] -> norm_doc d1 = norm_doc d2 ->
    set_name_and_type (Some n) (mkParam (Has d1) T Df) false true
    = set_name_and_type (Some n) (mkParam (Has d2) T Df) false true.
Proof.
  intros n d1 d2 T Df H1 H2 Hn.
  destruct d1 as [|c1 r1]; [contradiction|]. destruct d2 as [|c2 r2]; [contradiction|].
  unfold norm_doc, rejoin in Hn.
  unfold set_name_and_type. cbn [p_doc p_typ p_default].
  destruct (endswith (L "kwargs") n || startswith (L "**") n).
  - cbn [bind fst snd p_doc p_typ p_default]. rewrite Hn. reflexivity.
  - destruct Df as [v|].
    + rewrite (infer_default_doc (Has (c1 :: r1))), (infer_default_doc (Has (c2 :: r2))).
      destruct (infer_default (mkParam Missing T (Some v)) false) as [q|e]; [|reflexivity].
      cbn [bind fst snd p_doc p_typ p_default]. rewrite Hn. reflexivity.
    + cbn [bind fst snd p_doc p_typ p_default]. rewrite Hn. reflexivity.
Qed.

(* a wrapped  :param  line and its unwrapped twin *)
Lemma doc_lines_ok : forall edd n pad val ws pad' D ws',
    mem_c colon n = false ->
    edge_ok val -> forallb isspace pad = true -> forallb isspace ws = true ->
    edge_ok D -> forallb isspace pad' = true -> forallb isspace ws' = true ->
    no_announce val = true -> no_announce D = true -> norm_doc val = norm_doc D ->
    tok_lines_ok edd [(true, key_line' (L ":param") n pad val ws)] [(true, key_line' (L ":param") n pad' D ws')].
Proof.
  intros edd n pad val ws pad' D ws' Hn Hv Hp Hw HD Hp' Hw' Hav HaD Hnorm.
  apply (tok_lines_ok_single edd _ _ n (upd_doc val) (upd_doc D)).
  - intros st. apply step_param_line'; assumption.
  - intros st. apply step_param_line'; assumption.
  - intros c. unfold upd_doc. rewrite (I_noannounce val _ _ edd Hav), (I_noannounce D _ _ edd HaD). cbn [bind].
    apply snt_doc; [apply edge_ok_nonnil; exact Hv|apply edge_ok_nonnil; exact HD|exact Hnorm].
Qed.

Lemma same_line_ok : forall edd n upd l,
    (forall st, step true edd st l = pline_step edd n upd st) -> tok_lines_ok edd [l] [l].
Proof. intros edd n upd l H. apply (tok_lines_ok_single edd l l n upd upd); auto. Qed.

Lemma typ_line_ok : forall edd n t ws,
    mem_c colon n = false -> mem_c bt t = false -> t <> [] -> startswith (L "**") t = false ->
    forallb isspace ws = true ->
    tok_lines_ok edd [(true, key_line (L ":type") n (L "```" ++ t ++ L "```") ws)]
                     [(true, key_line (L ":type") n (L "```" ++ t ++ L "```") ws)].
Proof.
  intros edd n t ws H1 H2 H3 H4 H5. apply (same_line_ok edd n (upd_typ t)).
  intros st. apply step_type_line'; assumption.
Qed.

(* ------------------------------------------------------------------ the return lines *)

Definition ret_line' (key pad val ws : str) : str := colon :: key ++ colon :: pad ++ val ++ ws.

Lemma step_returns_line' : forall edd st pad d ws,
    edge_ok d -> no_announce d = true -> forallb isspace pad = true -> forallb isspace ws = true ->
    step true edd st (true, ret_line' (L "returns") pad d ws)
    = Ok (mkRS (rs_doc st) (rs_params st)
               (Some (update_param (match rs_returns st with None => empty_param | Some r => r end)
                                   (mkParam (Has d) Missing None)))
               (rs_cur st)).
Proof.
  intros edd st pad d ws Hd Hno Hpad Hws. unfold step, parse_rest_line, ret_line'.
  assert (Hret : existsb (fun t => startswith t (colon :: L "returns" ++ colon :: pad ++ d ++ ws))
                         Extracted.return_tokens_rest = true) by reflexivity.
  rewrite Hret. change (ch 58) with colon.
  pose proof (ret_line_value (L "returns") (pad ++ d ++ ws) eq_refl) as Hv. cbv zeta in Hv. rewrite Hv.
  rewrite (strip_pad pad d ws Hpad Hws Hd).
  assert (Hkv : set_param_values (colon :: L "returns" ++ colon :: pad ++ d ++ ws) d
                                 (last_str Extracted.return_tokens_rest) = (false, d)) by reflexivity.
  rewrite Hkv. unfold set_kv, empty_param. cbn [fst snd p_doc p_typ p_default].
  rewrite (I_noannounce d Missing None edd Hno). reflexivity.
Qed.

(* ------------------------------------------------------------------ parse_rest as: lines, final flush, post passes *)

Definition flush_tail (edd : bool) (P : list (str * param)) (c : option str * param)
  : outcome (list (str * param)) :=
  do P' <- (match fst c with
            | None => Ok P
            | Some _ =>
              do p <- interpolate_defaults (snd c) default_announces false edd;
              do np <- set_name_and_type (fst c) p false true;
              do p' <- maybe_remove (snd np) true edd;
              Ok (od_set (fst np) p' P)
            end);
  map_params (fun p => interpolate_defaults p default_announces false edd) P'.

Lemma parse_rest_unfold : forall text edd lines d0,
    scan_rest text = (false, d0) :: lines ->
    parse_rest text false true true edd
    = (do st <- fold_outcome (step true edd) lines (mkRS (strip d0) [] None (None, empty_param));
       do ps <- flush_tail edd (rs_params st) (rs_cur st);
       do r <- map_returns (fun p => interpolate_defaults p default_announces false edd) (rs_returns st);
       Ok (ir_of_parts (rs_doc st) ps r)).
Proof.
  intros text edd lines d0 Hscan. unfold parse_rest, parse_phase_rest. rewrite Hscan. cbn [fold_outcome].
  assert (E0 : parse_rest_line false true true edd init_rstate (false, d0)
               = Ok (mkRS (strip d0) [] None (None, empty_param))) by reflexivity.
  rewrite E0. cbn [bind]. fold (step true edd).
  destruct (fold_outcome (step true edd) lines (mkRS (strip d0) [] None (None, empty_param))) as [st|e];
    [|reflexivity].
  cbn [bind]. unfold flush_tail.
  destruct (fst (rs_cur st)) as [m|].
  - destruct (interpolate_defaults (snd (rs_cur st)) default_announces false edd) as [p|e]; [|reflexivity].
    cbn [bind].
    destruct (set_name_and_type (Some m) p false true) as [np|e]; [|reflexivity]. cbn [bind].
    destruct (maybe_remove (snd np) true edd) as [p'|e]; [|reflexivity]. cbn [bind rs_params rs_returns rs_doc].
    destruct (map_params _ (od_set (fst np) p' (rs_params st))) as [ps|e]; [|reflexivity]. cbn [bind].
    destruct (map_returns _ (rs_returns st)) as [r|e]; [|reflexivity]. reflexivity.
  - cbn [bind].
    destruct (map_params _ (rs_params st)) as [ps|e]; [|reflexivity]. cbn [bind].
    destruct (map_returns _ (rs_returns st)) as [r|e]; [|reflexivity]. reflexivity.
Qed.

(* one text: summary part, then blocks *)
Lemma text_parse : forall edd sdoc sep blocks,
    no_rest_token sdoc = true -> strip sdoc = sdoc -> forallb isspace sep = true ->
    (forall b, In b blocks -> block_good b) -> blocks <> [] ->
    let text := ([nl] ++ sdoc ++ sep) ++ concat (map blk blocks) in
    parse_dot_docstring ng_unmodelled text false true edd
    = (do st <- fold_outcome (step true edd) (map as_line blocks) (mkRS sdoc [] None (None, empty_param));
       do ps <- flush_tail edd (rs_params st) (rs_cur st);
       do r <- map_returns (fun p => interpolate_defaults p default_announces false edd) (rs_returns st);
       Ok (ir_of_parts (rs_doc st) ps r)).
Proof.
  intros edd sdoc sep blocks Htok Hstrip Hsep Hgood Hne text.
  destruct (docpart_facts sdoc sep Htok Hstrip Hsep) as [Hdoctok Hdocstrip].
  assert (Hscan : scan_rest text = (false, [nl] ++ sdoc ++ sep) :: map as_line blocks).
  { unfold text. apply scan_rest_blocks; [exact Hdoctok|exact Hgood|left; exact Hne]. }
  assert (Hstyle : detect_style (Some text) = DocParse.Rest).
  { destruct blocks as [|b0 bl]; [contradiction|].
    apply (detect_style_rest _ (fst b0)).
    - rewrite <- rest_scan_tokens_eq. apply (Hgood b0). left. reflexivity.
    - unfold text. apply contains_block_token. left. reflexivity. }
  rewrite parse_dot_rest; [|unfold text; discriminate|exact Hstyle].
  rewrite (parse_rest_unfold text edd (map as_line blocks) ([nl] ++ sdoc ++ sep) Hscan).
  rewrite Hdocstrip. reflexivity.
Qed.

(* the wrapped and the unwrapped text, block lists related as above *)
Theorem assemble : forall edd sdw sdu sepw sepu pbw pbu rbw rbu orpw orpu,
    no_rest_token sdw = true -> strip sdw = sdw -> no_rest_token sdu = true -> strip sdu = sdu ->
    forallb isspace sepw = true -> forallb isspace sepu = true ->
    (forall b, In b (pbw ++ rbw) -> block_good b) -> (forall b, In b (pbu ++ rbu) -> block_good b) ->
    pbw ++ rbw <> [] -> pbu ++ rbu <> [] ->
    tok_lines_ok edd (map as_line pbw) (map as_line pbu) ->
    (forall st, rs_returns st = None ->
        fold_outcome (step true edd) (map as_line rbw) st = Ok (mkRS (rs_doc st) (rs_params st) orpw (rs_cur st))) ->
    (forall st, rs_returns st = None ->
        fold_outcome (step true edd) (map as_line rbu) st = Ok (mkRS (rs_doc st) (rs_params st) orpu (rs_cur st))) ->
    map_returns (fun p => interpolate_defaults p default_announces false edd) orpw = Ok orpw ->
    map_returns (fun p => interpolate_defaults p default_announces false edd) orpu = Ok orpu ->
    forall du,
      parse_dot_docstring ng_unmodelled (([nl] ++ sdu ++ sepu) ++ concat (map blk (pbu ++ rbu))) false true edd = Ok du ->
      exists ps, du = ir_of_parts sdu ps orpu
                 /\ parse_dot_docstring ng_unmodelled (([nl] ++ sdw ++ sepw) ++ concat (map blk (pbw ++ rbw))) false true edd
                    = Ok (ir_of_parts sdw ps orpw).
Proof.
  intros edd sdw sdu sepw sepu pbw pbu rbw rbu orpw orpu Htw Hsw Htu Hsu Hsepw Hsepu Hgw Hgu Hnew Hneu
         [A1 [A2 A3]] Hrw Hru Hmw Hmu du Hdu.
  rewrite (text_parse edd sdu sepu (pbu ++ rbu) Htu Hsu Hsepu Hgu Hneu) in Hdu.
  rewrite (text_parse edd sdw sepw (pbw ++ rbw) Htw Hsw Hsepw Hgw Hnew).
  rewrite map_app, fold_outcome_app in *.
  set (st00 := mkRS [] [] None (None, empty_param)) in *.
  change (mkRS sdu [] None (None, empty_param)) with (set_doc sdu st00) in Hdu.
  change (mkRS sdw [] None (None, empty_param)) with (set_doc sdw st00).
  rewrite A2 in Hdu. rewrite A1, A2.
  destruct (fold_outcome (step true edd) (map as_line pbu) st00) as [s1|e] eqn:E1; [|discriminate].
  cbn [omap_doc bind] in *.
  assert (Hr1 : rs_returns s1 = None) by (rewrite (A3 _ _ E1); reflexivity).
  rewrite Hru in Hdu by exact Hr1. rewrite Hrw by exact Hr1.
  cbn [bind set_doc rs_doc rs_params rs_cur rs_returns] in *.
  destruct (flush_tail edd (rs_params s1) (rs_cur s1)) as [ps|e]; [|discriminate].
  cbn [bind] in *. rewrite Hmu in Hdu. rewrite Hmw. cbn [bind] in *.
  exists ps. split; [|reflexivity]. injection Hdu as Hdu. symmetry. exact Hdu.
Qed.

(* ------------------------------------------------------------------ the pieces of one entry, emitter side *)

Definition dblock' (n pad val ws : str) : str * str := (L ":param", sp :: n ++ colon :: pad ++ val ++ ws).
Definition rblock' (pad val ws : str) : str * str := (L ":return", L "s" ++ colon :: pad ++ val ++ ws).

Lemma nowrap_line_no_nl : forall w s, nowrap_line w s = true -> ~ In nl s.
Proof.
  intros w s H Hin. unfold nowrap_line in H. apply andb_true_iff in H. destruct H as [Hc _].
  destruct (one_line_clean_inv s Hc) as [Hch _]. rewrite forallb_forall in Hch.
  specialize (Hch nl Hin). discriminate.
Qed.

Lemma mem_c_false_notin : forall c s, mem_c c s = false -> ~ In c s.
Proof. intros c s H Hin. apply mem_c_In in Hin. congruence. Qed.

Lemma is_ident_chars : forall n, is_ident n = true -> mem_c colon n = false /\ mem_c nl n = false.
Proof.
  intros n Hi. unfold is_ident in Hi. destruct n as [|c r]; [discriminate|].
  apply andb_true_iff in Hi. destruct Hi as [_ Hall]. split.
  - apply (id_chars_exclude colon); [reflexivity|exact Hall].
  - apply (id_chars_exclude nl); [reflexivity|exact Hall].
Qed.

Lemma prose_line_ok_inv : forall D, prose_line_ok D = true ->
    edge_ok D /\ mem_c nl D = false /\ no_announce D = true.
Proof.
  intros D H. unfold prose_line_ok in H. apply andb_true_iff in H. destruct H as [H H3].
  apply andb_true_iff in H. destruct H as [H1 H2]. apply negb_true_iff in H2.
  split; [apply edge_okb_spec; exact H1|]. split; assumption.
Qed.

Lemma doc_piece_inv : forall w edd n D,
    is_ident n = true -> is_return n = false -> no_rest_token D = true -> doc_piece_ok w n D = true ->
    exists r pad val,
      fill w (rest_doc_line n D) = Ok r
      /\ (forall ws, indent_all_but_first r 1 false ++ ws = blk (dblock' n pad val ws))
      /\ (forall ws, indent_all_but_first (rest_doc_line n D) 1 false ++ ws = blk (dblock' n [sp] D ws))
      /\ (forall ws, forallb isspace ws = true ->
            block_good (dblock' n pad val ws) /\ block_good (dblock' n [sp] D ws)
            /\ tok_lines_ok edd [as_line (dblock' n pad val ws)] [as_line (dblock' n [sp] D ws)]).
Proof.
  intros w edd n D Hid Hret Htok H. unfold doc_piece_ok in H.
  apply andb_true_iff in H. destruct H as [HD H].
  destruct (prose_line_ok_inv D HD) as [HDe [HDnl HDa]].
  destruct (is_ident_chars n Hid) as [Hcolon Hnnl].
  unfold wrapped_line in H. destruct (fill w (rest_doc_line n D)) as [r|e] eqn:Ef; [|discriminate].
  cbn [bind] in H.
  destruct (value_after (L ":param " ++ n ++ L ":") (indent_all_but_first r 1 false)) as [[pad val]|] eqn:Ev;
    [|discriminate].
  destruct (value_after_spec _ _ _ _ Ev) as [Et Hpad].
  repeat (apply andb_true_iff in H; let H' := fresh "Hc" in destruct H as [H H']).
  apply str_eqb_eq in Hc. apply edge_okb_spec in Hc2.
  assert (Hpne : pad <> []) by (destruct pad; [discriminate|discriminate]).
  assert (Eline : rest_doc_line n D = L ":param" ++ sp :: n ++ colon :: [sp] ++ D).
  { unfold rest_doc_line, rest_key. rewrite Hret. rewrite <- !app_assoc. reflexivity. }
  exists r, pad, val. split; [reflexivity|]. split; [|split].
  - intros ws. rewrite Et. unfold blk, dblock'. cbn [fst snd]. rewrite <- !app_assoc. reflexivity.
  - intros ws. rewrite iabf_rest_doc_line.
    + rewrite Eline. unfold blk, dblock'. cbn [fst snd].
      repeat (rewrite <- app_assoc || (progress cbn [app])). reflexivity.
    + apply mem_c_false_notin. rewrite Eline.
      change (L ":param" ++ sp :: n ++ colon :: [sp] ++ D) with ((L ":param" ++ [sp]) ++ n ++ (colon :: [sp]) ++ D).
      rewrite !mem_c_app, Hnnl, HDnl. reflexivity.
  - intros ws Hws. split; [|split].
    + split; [left; reflexivity|]. cbn [snd dblock']. apply key_body_token_free'; assumption.
    + split; [left; reflexivity|]. cbn [snd dblock']. apply key_body_token_free'; try assumption; [discriminate|reflexivity].
    + apply doc_lines_ok; try assumption; reflexivity.
Qed.

Lemma typ_piece_inv : forall w edd n t,
    0 < w -> is_ident n = true -> is_return n = false -> typ_piece_ok w n t = true ->
    fill w (rest_typ_line n t) = Ok (rest_typ_line n t)
    /\ (forall ws, indent_all_but_first (rest_typ_line n t) 1 false ++ ws = blk (tblock n t ws))
    /\ (forall ws, forallb isspace ws = true ->
          block_good (tblock n t ws) /\ tok_lines_ok edd [as_line (tblock n t ws)] [as_line (tblock n t ws)]).
Proof.
  intros w edd n t Hw Hid Hret H. unfold typ_piece_ok in H. apply andb_true_iff in H. destruct H as [Hnw Hdom].
  destruct (is_ident_chars n Hid) as [Hcolon Hnnl].
  destruct (type_in_domain_inv t Hdom) as [[Hbt [Hne [Hstar Hopt]]] [Htnl [Httok _]]].
  split; [apply nowrap_line_fill; assumption|]. split.
  - intros ws. rewrite iabf_rest_typ_line by (apply (nowrap_line_no_nl w); exact Hnw).
    unfold rest_typ_line, rest_key_typ. rewrite Hret. apply typ_line_text.
  - intros ws Hws. split; [apply tblock_good; assumption|].
    apply typ_line_ok; assumption.
Qed.

Lemma rest_block_of_name : forall edd n p b p', rest_block_of edd n p = Ok (b, p') -> rb_name b = n.
Proof.
  intros edd n p b p' H. unfold rest_block_of in H.
  destruct (DocEmit.truthy_fld (p_doc p)).
  - destruct (sdd_doc n p edd) as [dp|e]; [|discriminate]. cbn [bind] in H. injection H as H _. subst b. reflexivity.
  - cbn [bind] in H. injection H as H _. subst b. reflexivity.
Qed.

Lemma mapM_fill2 : forall w a b a' b',
    fill w a = Ok a' -> fill w b = Ok b' -> mapM (fill_or_id true w) [a; b] = Ok [a'; b'].
Proof. intros w a b a' b' Ha Hb. cbn [mapM fill_or_id]. rewrite Ha, Hb. reflexivity. Qed.

Lemma mapM_fill1 : forall w a a', fill w a = Ok a' -> mapM (fill_or_id true w) [a] = Ok [a'].
Proof. intros w a a' Ha. cbn [mapM fill_or_id]. rewrite Ha. reflexivity. Qed.

Lemma param_pieces : forall w edd n p,
    0 < w -> param_name_ok (n, p) = true -> entry_pieces_ok w (n, p) = true ->
    exists tw tu bw bu,
      emit_param_str w n p DocEmit.Rest true true true true = Ok (tw, p)
      /\ emit_param_str w n p DocEmit.Rest true true false true = Ok (tu, p)
      /\ tw ++ nl2 = concat (map blk bw) /\ tu ++ nl2 = concat (map blk bu)
      /\ (forall b, In b bw -> block_good b) /\ (forall b, In b bu -> block_good b)
      /\ bw <> [] /\ bu <> []
      /\ tok_lines_ok edd (map as_line bw) (map as_line bu).
Proof.
  intros w edd n p Hw Hname H. unfold param_name_ok in Hname. cbn [fst] in Hname.
  apply andb_true_iff in Hname. destruct Hname as [Hid Hret]. apply negb_true_iff in Hret.
  unfold entry_pieces_ok in H. cbn [fst snd] in H.
  destruct (rest_block_of true n p) as [[b p']|e] eqn:Eb; [|discriminate].
  pose proof (rest_block_of_name _ _ _ _ _ Eb) as En.
  unfold emit_param_str. rewrite rest_raw_lines_block, Eb. cbn [bind fst snd].
  rewrite mapM_id. cbn [bind].
  destruct b as [bn bd bt]. cbn [rb_name rb_doc rb_typ] in *. subst bn.
  unfold block_lines. cbn [rb_name rb_doc rb_typ].
  apply andb_true_iff in H. destruct H as [H Htyp]. apply andb_true_iff in H. destruct H as [Hsome Hdoc].
  rewrite Hret in Hdoc.
  destruct bd as [D|]; destruct bt as [t|]; cbn [option_map cat_options]; try discriminate.
  - apply andb_true_iff in Hdoc. destruct Hdoc as [HDtok Hdoc].
    destruct (doc_piece_inv w edd n D Hid Hret HDtok Hdoc) as [r [pad [val [Hf [Hbw [Hbu Hgood]]]]]].
    destruct (typ_piece_inv w edd n t Hw Hid Hret Htyp) as [Hft [Hbt Hgt]].
    destruct (Hgood nl1 eq_refl) as [G1 [G2 G3]]. destruct (Hgt nl2 eq_refl) as [G4 G5].
    rewrite (mapM_fill2 w _ _ _ _ Hf Hft). cbn [bind map join].
    exists (indent_all_but_first r 1 false ++ [nl] ++ indent_all_but_first (rest_typ_line n t) 1 false),
           (indent_all_but_first (rest_doc_line n D) 1 false ++ [nl] ++ indent_all_but_first (rest_typ_line n t) 1 false),
           [dblock' n pad val nl1; tblock n t nl2], [dblock' n [sp] D nl1; tblock n t nl2].
    split; [reflexivity|]. split; [reflexivity|]. split; [|split].
    + cbn [map concat]. rewrite <- Hbw, <- Hbt. unfold nl1. rewrite <- !app_assoc, app_nil_r. reflexivity.
    + cbn [map concat]. rewrite <- Hbu, <- Hbt. unfold nl1. rewrite <- !app_assoc, app_nil_r. reflexivity.
    + split; [intros b [Hb|[Hb|[]]]; subst b; assumption|].
      split; [intros b [Hb|[Hb|[]]]; subst b; assumption|].
      split; [discriminate|]. split; [discriminate|].
      apply (tok_lines_ok_app edd [_] [_] [_] [_]); assumption.
  - apply andb_true_iff in Hdoc. destruct Hdoc as [HDtok Hdoc].
    destruct (doc_piece_inv w edd n D Hid Hret HDtok Hdoc) as [r [pad [val [Hf [Hbw [Hbu Hgood]]]]]].
    destruct (Hgood nl2 eq_refl) as [G1 [G2 G3]].
    rewrite (mapM_fill1 w _ _ Hf). cbn [bind map join].
    exists (indent_all_but_first r 1 false), (indent_all_but_first (rest_doc_line n D) 1 false),
           [dblock' n pad val nl2], [dblock' n [sp] D nl2].
    split; [reflexivity|]. split; [reflexivity|]. split; [|split].
    + cbn [map concat]. rewrite <- Hbw, app_nil_r. reflexivity.
    + cbn [map concat]. rewrite <- Hbu, app_nil_r. reflexivity.
    + split; [intros b [Hb|[]]; subst b; assumption|].
      split; [intros b [Hb|[]]; subst b; assumption|].
      split; [discriminate|]. split; [discriminate|]. exact G3.
  - destruct (typ_piece_inv w edd n t Hw Hid Hret Htyp) as [Hft [Hbt Hgt]].
    destruct (Hgt nl2 eq_refl) as [G4 G5].
    rewrite (mapM_fill1 w _ _ Hft). cbn [bind map join].
    exists (indent_all_but_first (rest_typ_line n t) 1 false), (indent_all_but_first (rest_typ_line n t) 1 false),
           [tblock n t nl2], [tblock n t nl2].
    split; [reflexivity|]. split; [reflexivity|]. split; [|split].
    + cbn [map concat]. rewrite <- Hbt, app_nil_r. reflexivity.
    + cbn [map concat]. rewrite <- Hbt, app_nil_r. reflexivity.
    + split; [intros b [Hb|[]]; subst b; assumption|].
      split; [intros b [Hb|[]]; subst b; assumption|].
      split; [discriminate|]. split; [discriminate|]. exact G5.
Qed.

(* ------------------------------------------------------------------ the return entry *)

Definition ret_base (st : rstate) : param := match rs_returns st with None => empty_param | Some r => r end.

Lemma rblock_good' : forall pad d ws,
    pad <> [] -> forallb isspace pad = true -> no_rest_token d = true -> forallb isspace ws = true ->
    block_good (rblock' pad d ws).
Proof.
  intros pad d ws Hne Hpad Hd Hws. split.
  - right. right. right. right. right. left. reflexivity.
  - cbn [snd rblock']. apply no_rest_token_app_r; [reflexivity| |].
    + change (colon :: pad ++ d ++ ws) with ([colon] ++ (pad ++ d ++ ws)).
      apply no_rest_token_app_r; [reflexivity| |].
      * apply no_rest_token_pad; [exact Hpad|]. apply no_rest_token_ws; assumption.
      * intros c Hc. destruct pad as [|c0 pad]; [contradiction|]. cbn [app head_c] in Hc. injection Hc as Hc. subst c0.
        cbn [forallb] in Hpad. apply andb_true_iff in Hpad. apply (isspace_not_lower c (proj1 Hpad)).
    + intros c Hc. injection Hc as Hc. subst c. reflexivity.
Qed.

Lemma ret_doc_inv : forall w edd D,
    no_rest_token D = true -> ret_piece_ok w D = true ->
    exists r pad val,
      fill w (rest_doc_line (L "return_type") D) = Ok r
      /\ (forall ws, indent_all_but_first r 1 false ++ ws = blk (rblock' pad val ws))
      /\ (forall ws, indent_all_but_first (rest_doc_line (L "return_type") D) 1 false ++ ws = blk (rblock' [sp] D ws))
      /\ (forall ws, forallb isspace ws = true ->
            block_good (rblock' pad val ws) /\ block_good (rblock' [sp] D ws)
            /\ (forall st, step true edd st (as_line (rblock' pad val ws))
                           = Ok (mkRS (rs_doc st) (rs_params st)
                                      (Some (update_param (ret_base st) (mkParam (Has val) Missing None))) (rs_cur st)))
            /\ (forall st, step true edd st (as_line (rblock' [sp] D ws))
                           = Ok (mkRS (rs_doc st) (rs_params st)
                                      (Some (update_param (ret_base st) (mkParam (Has D) Missing None))) (rs_cur st))))
      /\ val <> [] /\ D <> [] /\ no_announce val = true /\ no_announce D = true /\ words val = words D.
Proof.
  intros w edd D Htok H. unfold ret_piece_ok in H.
  apply andb_true_iff in H. destruct H as [HD H].
  destruct (prose_line_ok_inv D HD) as [HDe [HDnl HDa]].
  unfold wrapped_line in H. destruct (fill w (rest_doc_line (L "return_type") D)) as [r|e] eqn:Ef; [|discriminate].
  cbn [bind] in H.
  destruct (value_after (L ":returns:") (indent_all_but_first r 1 false)) as [[pad val]|] eqn:Ev; [|discriminate].
  destruct (value_after_spec _ _ _ _ Ev) as [Et Hpad].
  repeat (apply andb_true_iff in H; let H' := fresh "Hc" in destruct H as [H H']).
  apply ws_eqb_eq in Hc. apply edge_okb_spec in Hc2.
  assert (Hpne : pad <> []) by (intros E; subst pad; discriminate).
  assert (Eline : rest_doc_line (L "return_type") D = L ":returns:" ++ [sp] ++ D) by reflexivity.
  exists r, pad, val. split; [reflexivity|]. split; [|split; [|split]].
  - intros ws. rewrite Et. unfold blk, rblock'. cbn [fst snd].
    repeat (rewrite <- app_assoc || (progress cbn [app])). reflexivity.
  - intros ws. rewrite iabf_rest_doc_line.
    + rewrite Eline. unfold blk, rblock'. cbn [fst snd].
      repeat (rewrite <- app_assoc || (progress cbn [app])). reflexivity.
    + apply mem_c_false_notin. rewrite Eline. rewrite !mem_c_app, HDnl. reflexivity.
  - intros ws Hws. split; [|split; [|split]].
    + apply rblock_good'; assumption.
    + apply rblock_good'; try assumption; [discriminate|reflexivity].
    + intros st. change (as_line (rblock' pad val ws)) with (true, ret_line' (L "returns") pad val ws).
      apply step_returns_line'; assumption.
    + intros st. change (as_line (rblock' [sp] D ws)) with (true, ret_line' (L "returns") [sp] D ws).
      apply step_returns_line'; try assumption. reflexivity.
  - split; [apply edge_ok_nonnil; exact Hc2|]. split; [apply edge_ok_nonnil; exact HDe|].
    split; [exact Hc0|]. split; [exact HDa|exact Hc].
Qed.

Lemma ret_typ_inv : forall w edd t,
    0 < w -> typ_piece_ok w (L "return_type") t = true ->
    fill w (rest_typ_line (L "return_type") t) = Ok (rest_typ_line (L "return_type") t)
    /\ (forall ws, indent_all_but_first (rest_typ_line (L "return_type") t) 1 false ++ ws = blk (rtblock t ws))
    /\ (forall ws, forallb isspace ws = true ->
          block_good (rtblock t ws)
          /\ (forall st, step true edd st (as_line (rtblock t ws))
                         = Ok (mkRS (rs_doc st) (rs_params st)
                                    (Some (update_param (ret_base st) (mkParam Missing (Has t) None))) (rs_cur st)))).
Proof.
  intros w edd t Hw H. unfold typ_piece_ok in H. apply andb_true_iff in H. destruct H as [Hnw Hdom].
  destruct (type_in_domain_inv t Hdom) as [[Hbt [Hne [Hstar Hopt]]] [Htnl [Httok _]]].
  split; [apply nowrap_line_fill; assumption|]. split.
  - intros ws. rewrite iabf_rest_typ_line by (apply (nowrap_line_no_nl w); exact Hnw).
    apply ret_typ_line_text.
  - intros ws Hws. split; [apply rtblock_good; assumption|].
    intros st. rewrite rtblock_line. unfold step. apply step_rtype_line; assumption.
Qed.

(* how the two return dicts differ: only in the white space of the prose *)
Definition ret_rel (rw ru : param) : Prop :=
  p_typ rw = p_typ ru /\ p_default rw = None /\ p_default ru = None
  /\ ((p_doc rw = Missing /\ p_doc ru = Missing)
      \/ exists V D, p_doc rw = Has V /\ p_doc ru = Has D /\ V <> [] /\ D <> [] /\ words V = words D).

Lemma ret_pieces : forall w edd p,
    0 < w -> entry_pieces_ok w (L "return_type", p) = true ->
    exists tw tu bw bu rw ru,
      emit_param_str w (L "return_type") p DocEmit.Rest true true true true = Ok (tw, p)
      /\ emit_param_str w (L "return_type") p DocEmit.Rest true true false true = Ok (tu, p)
      /\ tw ++ nl1 = concat (map blk bw) /\ tu ++ nl1 = concat (map blk bu)
      /\ (forall b, In b bw -> block_good b) /\ (forall b, In b bu -> block_good b)
      /\ bw <> [] /\ bu <> []
      /\ (forall st, rs_returns st = None ->
            fold_outcome (step true edd) (map as_line bw) st = Ok (mkRS (rs_doc st) (rs_params st) (Some rw) (rs_cur st)))
      /\ (forall st, rs_returns st = None ->
            fold_outcome (step true edd) (map as_line bu) st = Ok (mkRS (rs_doc st) (rs_params st) (Some ru) (rs_cur st)))
      /\ interpolate_defaults rw default_announces false edd = Ok rw
      /\ interpolate_defaults ru default_announces false edd = Ok ru
      /\ ret_rel rw ru.
Proof.
  intros w edd p Hw H. unfold entry_pieces_ok in H. cbn [fst snd] in H.
  destruct (rest_block_of true (L "return_type") p) as [[b p']|e] eqn:Eb; [|discriminate].
  pose proof (rest_block_of_name _ _ _ _ _ Eb) as En.
  unfold emit_param_str. rewrite rest_raw_lines_block, Eb. cbn [bind fst snd].
  rewrite mapM_id. cbn [bind].
  destruct b as [bn bd bt]. cbn [rb_name rb_doc rb_typ] in *. subst bn.
  unfold block_lines. cbn [rb_name rb_doc rb_typ].
  apply andb_true_iff in H. destruct H as [H Htyp]. apply andb_true_iff in H. destruct H as [Hsome Hdoc].
  change (is_return (L "return_type")) with true in Hdoc. cbv iota in Hdoc.
  destruct bd as [D|]; destruct bt as [t|]; cbn [option_map cat_options]; try discriminate.
  - apply andb_true_iff in Hdoc. destruct Hdoc as [HDtok Hdoc].
    destruct (ret_doc_inv w edd D HDtok Hdoc) as [r [pad [val [Hf [Hbw [Hbu [Hgood [Hvne [HDne [Hav [HaD Hwords]]]]]]]]]]].
    destruct (ret_typ_inv w edd t Hw Htyp) as [Hft [Hbt Hgt]].
    destruct (Hgood nl1 eq_refl) as [G1 [G2 [S1 S2]]]. destruct (Hgt nl1 eq_refl) as [G4 S3].
    rewrite (mapM_fill2 w _ _ _ _ Hf Hft). cbn [bind map join].
    exists (indent_all_but_first r 1 false ++ [nl] ++ indent_all_but_first (rest_typ_line (L "return_type") t) 1 false),
           (indent_all_but_first (rest_doc_line (L "return_type") D) 1 false ++ [nl]
            ++ indent_all_but_first (rest_typ_line (L "return_type") t) 1 false),
           [rblock' pad val nl1; rtblock t nl1], [rblock' [sp] D nl1; rtblock t nl1],
           (mkParam (Has val) (Has t) None), (mkParam (Has D) (Has t) None).
    split; [reflexivity|]. split; [reflexivity|]. split; [|split].
    + cbn [map concat]. rewrite <- Hbw, <- Hbt. unfold nl1. rewrite <- !app_assoc, app_nil_r. reflexivity.
    + cbn [map concat]. rewrite <- Hbu, <- Hbt. unfold nl1. rewrite <- !app_assoc, app_nil_r. reflexivity.
    + split; [intros b [Hb|[Hb|[]]]; subst b; assumption|].
      split; [intros b [Hb|[Hb|[]]]; subst b; assumption|].
      split; [discriminate|]. split; [discriminate|].
      split; [|split; [|split; [|split]]].
      * intros st Hst. cbn [map fold_outcome]. rewrite S1. cbn [bind]. rewrite S3.
        unfold ret_base. cbn [rs_returns rs_doc rs_params rs_cur]. rewrite Hst. reflexivity.
      * intros st Hst. cbn [map fold_outcome]. rewrite S2. cbn [bind]. rewrite S3.
        unfold ret_base. cbn [rs_returns rs_doc rs_params rs_cur]. rewrite Hst. reflexivity.
      * apply I_noannounce. exact Hav.
      * apply I_noannounce. exact HaD.
      * split; [reflexivity|]. split; [reflexivity|]. split; [reflexivity|]. right.
        exists val, D. repeat split; assumption.
  - apply andb_true_iff in Hdoc. destruct Hdoc as [HDtok Hdoc].
    destruct (ret_doc_inv w edd D HDtok Hdoc) as [r [pad [val [Hf [Hbw [Hbu [Hgood [Hvne [HDne [Hav [HaD Hwords]]]]]]]]]]].
    destruct (Hgood nl1 eq_refl) as [G1 [G2 [S1 S2]]].
    rewrite (mapM_fill1 w _ _ Hf). cbn [bind map join].
    exists (indent_all_but_first r 1 false), (indent_all_but_first (rest_doc_line (L "return_type") D) 1 false),
           [rblock' pad val nl1], [rblock' [sp] D nl1],
           (mkParam (Has val) Missing None), (mkParam (Has D) Missing None).
    split; [reflexivity|]. split; [reflexivity|]. split; [|split].
    + cbn [map concat]. rewrite <- Hbw, app_nil_r. reflexivity.
    + cbn [map concat]. rewrite <- Hbu, app_nil_r. reflexivity.
    + split; [intros b [Hb|[]]; subst b; assumption|].
      split; [intros b [Hb|[]]; subst b; assumption|].
      split; [discriminate|]. split; [discriminate|].
      split; [|split; [|split; [|split]]].
      * intros st Hst. cbn [map fold_outcome]. rewrite S1. cbn [bind].
        unfold ret_base. rewrite Hst. reflexivity.
      * intros st Hst. cbn [map fold_outcome]. rewrite S2. cbn [bind].
        unfold ret_base. rewrite Hst. reflexivity.
      * apply I_noannounce. exact Hav.
      * apply I_noannounce. exact HaD.
      * split; [reflexivity|]. split; [reflexivity|]. split; [reflexivity|]. right.
        exists val, D. repeat split; assumption.
  - destruct (ret_typ_inv w edd t Hw Htyp) as [Hft [Hbt Hgt]].
    destruct (Hgt nl1 eq_refl) as [G4 S3].
    rewrite (mapM_fill1 w _ _ Hft). cbn [bind map join].
    exists (indent_all_but_first (rest_typ_line (L "return_type") t) 1 false),
           (indent_all_but_first (rest_typ_line (L "return_type") t) 1 false),
           [rtblock t nl1], [rtblock t nl1], (mkParam Missing (Has t) None), (mkParam Missing (Has t) None).
    split; [reflexivity|]. split; [reflexivity|]. split; [|split].
    + cbn [map concat]. rewrite <- Hbt, app_nil_r. reflexivity.
    + cbn [map concat]. rewrite <- Hbt, app_nil_r. reflexivity.
    + split; [intros b [Hb|[]]; subst b; assumption|].
      split; [intros b [Hb|[]]; subst b; assumption|].
      split; [discriminate|]. split; [discriminate|].
      split; [|split; [|split; [|split]]].
      * intros st Hst. cbn [map fold_outcome]. rewrite S3. cbn [bind].
        unfold ret_base. rewrite Hst. reflexivity.
      * intros st Hst. cbn [map fold_outcome]. rewrite S3. cbn [bind].
        unfold ret_base. rewrite Hst. reflexivity.
      * apply I_nodoc.
      * apply I_nodoc.
      * split; [reflexivity|]. split; [reflexivity|]. split; [reflexivity|]. left. split; reflexivity.
Qed.

(* ------------------------------------------------------------------ all parameters *)

Lemma items_pieces : forall w edd ps,
    0 < w -> forallb param_name_ok ps = true -> forallb (entry_pieces_ok w) ps = true ->
    exists txw txu pbw pbu,
      emit_items (fun k p => emit_param_str w k p DocEmit.Rest true true true true) ps = Ok (txw, ps)
      /\ emit_items (fun k p => emit_param_str w k p DocEmit.Rest true true false true) ps = Ok (txu, ps)
      /\ concat (map (fun t => t ++ nl2) txw) = concat (map blk pbw)
      /\ concat (map (fun t => t ++ nl2) txu) = concat (map blk pbu)
      /\ (forall b, In b pbw -> block_good b) /\ (forall b, In b pbu -> block_good b)
      /\ (ps <> [] -> pbw <> [] /\ pbu <> [])
      /\ List.length txw = List.length ps /\ List.length txu = List.length ps
      /\ tok_lines_ok edd (map as_line pbw) (map as_line pbu).
Proof.
  intros w edd ps Hw. induction ps as [|[n p] ps IH]; intros Hn Hp.
  - exists [], [], [], [].
    split; [reflexivity|]. split; [reflexivity|]. split; [reflexivity|]. split; [reflexivity|].
    split; [intros b []|]. split; [intros b []|]. split; [intros H; contradiction|].
    split; [reflexivity|]. split; [reflexivity|]. apply tok_lines_ok_nil.
  - cbn [forallb] in Hn, Hp. apply andb_true_iff in Hn. destruct Hn as [Hn1 Hn2].
    apply andb_true_iff in Hp. destruct Hp as [Hp1 Hp2].
    destruct (IH Hn2 Hp2) as [txw [txu [pbw [pbu [E1 [E2 [T1 [T2 [G1 [G2 [_ [L1 [L2 R]]]]]]]]]]]]].
    destruct (param_pieces w edd n p Hw Hn1 Hp1) as [tw [tu [bw [bu [F1 [F2 [U1 [U2 [K1 [K2 [N1 [N2 R0]]]]]]]]]]]].
    exists (tw :: txw), (tu :: txu), (bw ++ pbw), (bu ++ pbu).
    cbn [emit_items]. rewrite F1, F2. cbn [bind]. rewrite E1, E2. cbn [bind fst snd].
    split; [reflexivity|]. split; [reflexivity|].
    split; [cbn [map concat]; rewrite map_app, concat_app, U1, T1; reflexivity|].
    split; [cbn [map concat]; rewrite map_app, concat_app, U2, T2; reflexivity|].
    split; [intros b Hb; apply in_app_or in Hb; destruct Hb as [Hb|Hb]; [apply K1|apply G1]; exact Hb|].
    split; [intros b Hb; apply in_app_or in Hb; destruct Hb as [Hb|Hb]; [apply K2|apply G2]; exact Hb|].
    split.
    { intros _. split; intros E; apply app_eq_nil in E; destruct E as [E _]; [apply N1|apply N2]; exact E. }
    split; [cbn [List.length]; rewrite L1; reflexivity|].
    split; [cbn [List.length]; rewrite L2; reflexivity|].
    rewrite !map_app. apply tok_lines_ok_app; assumption.
Qed.

(* the layout of emit.docstring, rest *)
Lemma text_shape : forall doc txts pb rpart rb,
    concat (map (fun t => t ++ nl2) txts) = concat (map blk pb) ->
    rpart ++ nl1 = nl1 ++ concat (map blk rb) ->
    [nl] ++ doc ++ [nl; nl] ++ [] ++ join (nl :: [nl]) txts ++ [nl] ++ rpart ++ [nl] ++ []
    = ([nl] ++ doc ++ (match txts with [] => nl2 ++ nl2 | _ => nl2 end)) ++ concat (map blk (pb ++ rb)).
Proof.
  intros doc txts pb rpart rb H1 H2. rewrite map_app, concat_app, <- H1.
  change (nl :: [nl]) with nl2. change [nl; nl] with nl2. rewrite app_nil_r. cbn [app].
  f_equal. rewrite <- !app_assoc. f_equal.
  change (nl :: rpart ++ [nl]) with (nl1 ++ (rpart ++ nl1)). rewrite H2.
  destruct txts as [|t ts].
  - cbn [join map concat app]. reflexivity.
  - rewrite <- (join_sep_concat nl2 (t :: ts)) by discriminate. rewrite <- !app_assoc. reflexivity.
Qed.

(* ------------------------------------------------------------------ the relation between the two parses *)

Lemma same_entry_ws_refl : forall n p,
    same_entry_ws false n (gparam_of_param p) (gparam_of_param p) = true.
Proof.
  intros n p. unfold same_entry_ws, same_typ, same_prose_ws.
  assert (H1 : forall o : option str, opt_eqb str_eqb o o = true) by (intros [x|]; [apply str_eqb_refl|reflexivity]).
  assert (H2 : forall o : option str, opt_eqb ws_eqb o o = true).
  { intros [x|]; [|reflexivity]. cbn [opt_eqb]. apply ws_eqb_of_words. reflexivity. }
  rewrite H1, H2. cbn [andb gparam_of_param g_default].
  destruct (p_default p) as [v|]; [|reflexivity]. cbn [option_map same_default_ir dval_eqb].
  rewrite DefaultsFacts.pyval_eqb_refl. reflexivity.
Qed.

Lemma same_params_ws_refl : forall ps,
    same_params_ws false (map (fun kv : str * param => (fst kv, gparam_of_param (snd kv))) ps)
                         (map (fun kv : str * param => (fst kv, gparam_of_param (snd kv))) ps) = true.
Proof.
  induction ps as [|[n p] ps IH]; [reflexivity|].
  cbn [map same_params_ws fst snd]. rewrite str_eqb_refl, same_entry_ws_refl, IH. reflexivity.
Qed.

Lemma opt_eqb_mono : forall (o1 o2 : option str),
    opt_eqb str_eqb o1 o2 = true -> opt_eqb ws_eqb o1 o2 = true.
Proof.
  intros [x|] [y|] H; try discriminate; [|reflexivity]. cbn [opt_eqb] in *.
  apply str_eqb_eq in H. subst y. apply ws_eqb_of_words. reflexivity.
Qed.

Lemma same_entry_to_ws : forall k n g g', same_entry k n g g' = true -> same_entry_ws k n g g' = true.
Proof.
  intros k n g g' H. unfold same_entry in H. unfold same_entry_ws.
  apply andb_true_iff in H. destruct H as [H H3]. apply andb_true_iff in H. destruct H as [H1 H2].
  rewrite H1, H3. cbn [andb]. rewrite andb_true_r. destruct k.
  - unfold same_prose_dflt in H2. unfold same_prose_dflt_ws. apply orb_true_iff in H2. destruct H2 as [H2|H2].
    + unfold same_prose in H2. unfold same_prose_ws. rewrite (opt_eqb_mono _ _ H2). reflexivity.
    + destruct (sentence_doc n g) as [x|]; [|discriminate]. destruct (fld_str (g_doc g')) as [y|]; [|discriminate].
      apply str_eqb_eq in H2. subst y. rewrite (ws_eqb_of_words x x eq_refl). apply orb_true_r.
  - unfold same_prose in H2. unfold same_prose_ws. apply opt_eqb_mono. exact H2.
Qed.

Lemma same_params_to_ws : forall k a b, same_params k a b = true -> same_params_ws k a b = true.
Proof.
  intros k a. induction a as [|[n g] a IH]; intros [|[n' g'] b] H; try discriminate; [reflexivity|].
  cbn [same_params] in H. cbn [same_params_ws].
  apply andb_true_iff in H. destruct H as [H H3]. apply andb_true_iff in H. destruct H as [H1 H2].
  rewrite H1, (same_entry_to_ws _ _ _ _ H2), (IH _ H3). reflexivity.
Qed.

(* the return dicts: what the unwrapped one satisfies against g, the wrapped one satisfies modulo white space *)
Lemma ret_rel_fld : forall rw ru, ret_rel rw ru ->
    (fld_str (p_doc ru) = None /\ fld_str (p_doc rw) = None)
    \/ exists D V, fld_str (p_doc ru) = Some D /\ fld_str (p_doc rw) = Some V /\ words V = words D.
Proof.
  intros rw ru [_ [_ [_ [[Hw Hu]|[V [D [Hw [Hu [HV [HD Hwd]]]]]]]]]].
  - left. rewrite Hw, Hu. split; reflexivity.
  - right. exists D, V. rewrite Hw, Hu. rewrite !fld_str_nonempty by assumption. repeat split. exact Hwd.
Qed.

Lemma same_entry_ret_transfer : forall k n g rw ru,
    ret_rel rw ru ->
    same_entry k n g (gparam_of_param ru) = true -> same_entry_ws k n g (gparam_of_param rw) = true.
Proof.
  intros k n g rw ru Hrel H. pose proof (ret_rel_fld rw ru Hrel) as Hdoc.
  destruct Hrel as [Ht [Hdw [Hdu _]]].
  unfold same_entry in H. unfold same_entry_ws.
  apply andb_true_iff in H. destruct H as [H H3]. apply andb_true_iff in H. destruct H as [H1 H2].
  assert (E1 : same_typ g (gparam_of_param rw) = true).
  { unfold same_typ in *. cbn [gparam_of_param g_typ] in *. rewrite Ht. exact H1. }
  assert (E3 : same_default_ir (g_default g) (g_default (gparam_of_param rw)) = true).
  { cbn [gparam_of_param g_default] in *. rewrite Hdw. rewrite Hdu in H3. exact H3. }
  rewrite E1, E3. cbn [andb]. rewrite andb_true_r.
  assert (P : forall o : option str, opt_eqb str_eqb o (fld_str (p_doc ru)) = true ->
                                     opt_eqb ws_eqb o (fld_str (p_doc rw)) = true).
  { intros o Ho. destruct Hdoc as [[Eu Ew]|[D [V [Eu [Ew Hwd]]]]]; rewrite Eu in Ho; rewrite Ew.
    - destruct o; [discriminate|reflexivity].
    - destruct o as [x|]; [|discriminate]. cbn [opt_eqb] in *. apply str_eqb_eq in Ho. subst x.
      apply ws_eqb_of_words. symmetry. exact Hwd. }
  destruct k.
  - unfold same_prose_dflt in H2. unfold same_prose_dflt_ws. apply orb_true_iff in H2. destruct H2 as [H2|H2].
    + unfold same_prose in H2. unfold same_prose_ws. cbn [gparam_of_param g_doc] in *. rewrite (P _ H2). reflexivity.
    + cbn [gparam_of_param g_doc] in *. destruct (sentence_doc n g) as [x|]; [|discriminate].
      destruct Hdoc as [[Eu Ew]|[D [V [Eu [Ew Hwd]]]]]; rewrite Eu in H2; [discriminate|].
      rewrite Ew. apply str_eqb_eq in H2. subst x. rewrite (ws_eqb_of_words D V (eq_sym Hwd)). apply orb_true_r.
  - unfold same_prose in H2. unfold same_prose_ws. cbn [gparam_of_param g_doc] in *. apply P. exact H2.
Qed.

(* the result pair of [assemble]: same parameters; summary and return prose modulo white space *)
Definition orp_rel (ow ou : option param) : Prop :=
  match ow, ou with
  | None, None => True
  | Some rw, Some ru => ret_rel rw ru
  | _, _ => False
  end.

Lemma parts_rel : forall sdw sdu ps ow ou,
    words sdw = words sdu -> orp_rel ow ou ->
    same_interface_ws false (ir_of_parts sdu ps ou) (ir_of_parts sdw ps ow) = true.
Proof.
  intros sdw sdu ps ow ou Hs Ho. unfold same_interface_ws, same_summary_ws, ir_of_parts.
  cbn [ir_doc ir_params ir_returns fld_opt opt_eqb].
  rewrite (ws_eqb_of_words sdu sdw (eq_sym Hs)), same_params_ws_refl. cbn [andb].
  unfold same_returns_ws. destruct ow as [rw|]; destruct ou as [ru|]; try contradiction; [|reflexivity].
  cbn [fld_opt opt_eqb]. apply (same_entry_ret_transfer false _ _ rw ru Ho).
  assert (R : forall n p, same_entry false n (gparam_of_param p) (gparam_of_param p) = true).
  { intros n p. unfold same_entry, same_typ, same_prose. rewrite !opt_eqb_str_refl. cbn [andb gparam_of_param g_default].
    destruct (p_default p) as [v|]; [|reflexivity]. cbn [option_map same_default_ir dval_eqb].
    rewrite DefaultsFacts.pyval_eqb_refl. reflexivity. }
  apply R.
Qed.

Lemma parts_link : forall k i sdw sdu ps ow ou,
    words sdw = words sdu -> orp_rel ow ou ->
    same_interface k i (ir_of_parts sdu ps ou) = true ->
    same_interface_ws k i (ir_of_parts sdw ps ow) = true.
Proof.
  intros k i sdw sdu ps ow ou Hs Ho H. unfold same_interface in H. unfold same_interface_ws.
  apply andb_true_iff in H. destruct H as [H H3]. apply andb_true_iff in H. destruct H as [H1 H2].
  unfold ir_of_parts in *. cbn [ir_doc ir_params ir_returns] in *.
  rewrite (same_params_to_ws _ _ _ H2).
  assert (E1 : same_summary_ws i (mkIR FNone (Has (L "static")) (Has sdw)
                 (map (fun kv : str * param => (fst kv, gparam_of_param (snd kv))) ps)
                 (match ow with None => FNone | Some r => Has (gparam_of_param r) end) None) = true).
  { unfold same_summary in H1. unfold same_summary_ws. cbn [ir_doc fld_opt] in *.
    destruct (fld_opt (ir_doc i)) as [x|]; [|discriminate]. cbn [opt_eqb] in *.
    apply str_eqb_eq in H1. subst x. apply ws_eqb_of_words. symmetry. exact Hs. }
  rewrite E1. cbn [andb].
  unfold same_returns in H3. unfold same_returns_ws.
  destruct ow as [rw|]; destruct ou as [ru|]; try contradiction.
  - cbn [fld_opt] in *. destruct (fld_opt (ir_returns i)) as [g|]; [|discriminate]. cbn [opt_eqb] in *.
    apply (same_entry_ret_transfer k _ g rw ru Ho H3).
  - cbn [fld_opt] in *. destruct (fld_opt (ir_returns i)); [discriminate|reflexivity].
Qed.

(* ------------------------------------------------------------------ the theorem, piece-wise guard *)

Lemma summary_piece_inv : forall w d, summary_piece_ok w d = true ->
    no_rest_token d = true /\ strip d = d
    /\ exists r, fill w d = Ok r /\ no_rest_token r = true /\ strip r = r /\ words r = words d.
Proof.
  intros w d H. unfold summary_piece_ok in H.
  apply andb_true_iff in H. destruct H as [H H3]. apply andb_true_iff in H. destruct H as [H1 H2].
  apply str_eqb_eq in H2. split; [exact H1|]. split; [exact H2|].
  destruct (fill w d) as [r|e]; [|discriminate]. exists r. split; [reflexivity|].
  apply andb_true_iff in H3. destruct H3 as [H3 H5]. apply andb_true_iff in H3. destruct H3 as [H3 H4].
  split; [exact H4|]. split; [apply strip_edge_ok; apply edge_okb_spec; exact H3|apply ws_eqb_eq; exact H5].
Qed.

Lemma sep_ws : forall (txts : list str), forallb isspace (match txts with [] => nl2 ++ nl2 | _ => nl2 end) = true.
Proof. intros [|t ts]; reflexivity. Qed.

Lemma same_len_sep : forall (a b : list str), List.length a = List.length b ->
    (match a with [] => nl2 ++ nl2 | _ => nl2 end) = (match b with [] => nl2 ++ nl2 | _ => nl2 end).
Proof. intros [|x a] [|y b] H; try discriminate; reflexivity. Qed.

Theorem C18_rest_pieces_lemma : forall w edd i,
    0 < w -> guard_C18_rest_pieces w i = true ->
    exists tw tu,
      emit_docstring w DocEmit.Rest true true i = Ok (tw, i)
      /\ emit_docstring w DocEmit.Rest false true i = Ok (tu, i)
      /\ forall du, parse_dot_docstring ng_unmodelled tu false true edd = Ok du ->
           exists dw, parse_dot_docstring ng_unmodelled tw false true edd = Ok dw
                      /\ ir_params dw = ir_params du
                      /\ same_interface_ws false du dw = true
                      /\ (forall k i0, same_interface k i0 du = true -> same_interface_ws k i0 dw = true).
Proof.
  intros w edd i Hw Hg. unfold guard_C18_rest_pieces in Hg.
  destruct (ir_doc i) as [| |d] eqn:Edoc; try discriminate.
  destruct (params_of (ir_params i)) as [ps|] eqn:Eps; [|discriminate].
  apply andb_true_iff in Hg. destruct Hg as [Hg Hret]. apply andb_true_iff in Hg. destruct Hg as [Hg Hpieces].
  apply andb_true_iff in Hg. destruct Hg as [Hsum Hnames].
  destruct (summary_piece_inv w d Hsum) as [Hdtok [Hdstrip [r [Hfill [Hrtok [Hrstrip Hrwords]]]]]].
  destruct (items_pieces w edd ps Hw Hnames Hpieces)
    as [txw [txu [pbw [pbu [E1 [E2 [T1 [T2 [G1 [G2 [Hne [L1 [L2 R]]]]]]]]]]]]].
  (* the return entry *)
  assert (Hrets : exists rpw rpu rbw rbu ow ou,
             (match ir_returns i with
              | Has g => match param_of_gparam g with
                         | None => Err Unmodelled
                         | Some p => do sp <- emit_param_str w (L "return_type") p DocEmit.Rest true true true true;
                                     Ok ([] ++ [nl] ++ fst sp, Has (gparam_of_param (snd sp)))
                         end
              | other => Ok ([], other)
              end) = Ok rpw
             /\ (match ir_returns i with
                 | Has g => match param_of_gparam g with
                            | None => Err Unmodelled
                            | Some p => do sp <- emit_param_str w (L "return_type") p DocEmit.Rest true true false true;
                                        Ok ([] ++ [nl] ++ fst sp, Has (gparam_of_param (snd sp)))
                            end
                 | other => Ok ([], other)
                 end) = Ok rpu
             /\ fst rpw ++ nl1 = nl1 ++ concat (map blk rbw) /\ fst rpu ++ nl1 = nl1 ++ concat (map blk rbu)
             /\ (forall b, In b rbw -> block_good b) /\ (forall b, In b rbu -> block_good b)
             /\ (pbw ++ rbw <> []) /\ (pbu ++ rbu <> [])
             /\ (forall st, rs_returns st = None ->
                   fold_outcome (step true edd) (map as_line rbw) st = Ok (mkRS (rs_doc st) (rs_params st) ow (rs_cur st)))
             /\ (forall st, rs_returns st = None ->
                   fold_outcome (step true edd) (map as_line rbu) st = Ok (mkRS (rs_doc st) (rs_params st) ou (rs_cur st)))
             /\ map_returns (fun p => interpolate_defaults p default_announces false edd) ow = Ok ow
             /\ map_returns (fun p => interpolate_defaults p default_announces false edd) ou = Ok ou
             /\ orp_rel ow ou).
  { assert (Hnone : match ps with [] => false | _ => true end = true ->
                    forall other : fld gparam, exists rpw rpu rbw rbu ow ou,
                      Ok (@nil ascii, other) = Ok rpw /\ Ok (@nil ascii, other) = Ok rpu
                      /\ fst rpw ++ nl1 = nl1 ++ concat (map blk rbw) /\ fst rpu ++ nl1 = nl1 ++ concat (map blk rbu)
                      /\ (forall b, In b rbw -> block_good b) /\ (forall b, In b rbu -> block_good b)
                      /\ (pbw ++ rbw <> []) /\ (pbu ++ rbu <> [])
                      /\ (forall st, rs_returns st = None ->
                            fold_outcome (step true edd) (map as_line rbw) st = Ok (mkRS (rs_doc st) (rs_params st) ow (rs_cur st)))
                      /\ (forall st, rs_returns st = None ->
                            fold_outcome (step true edd) (map as_line rbu) st = Ok (mkRS (rs_doc st) (rs_params st) ou (rs_cur st)))
                      /\ map_returns (fun p => interpolate_defaults p default_announces false edd) ow = Ok ow
                      /\ map_returns (fun p => interpolate_defaults p default_announces false edd) ou = Ok ou
                      /\ orp_rel ow ou).
    { intros Hps other. exists ([], other), ([], other), [], [], None, None.
      assert (Hpsne : ps <> []) by (intros E; subst ps; discriminate).
      destruct (Hne Hpsne) as [N1 N2].
      split; [reflexivity|]. split; [reflexivity|]. split; [reflexivity|]. split; [reflexivity|].
      split; [intros b []|]. split; [intros b []|].
      split; [rewrite app_nil_r; exact N1|]. split; [rewrite app_nil_r; exact N2|].
      split; [intros st Hst; cbn [map fold_outcome]; destruct st; cbn in *; subst; reflexivity|].
      split; [intros st Hst; cbn [map fold_outcome]; destruct st; cbn in *; subst; reflexivity|].
      split; [reflexivity|]. split; [reflexivity|exact I]. }
    destruct (ir_returns i) as [| |g]; [apply Hnone; exact Hret|apply Hnone; exact Hret|].
    destruct (param_of_gparam g) as [p|]; [|discriminate].
    destruct (ret_pieces w edd p Hw Hret)
      as [tw [tu [bw [bu [rw [ru [F1 [F2 [U1 [U2 [K1 [K2 [N1 [N2 [S1 [S2 [I1 [I2 Hrel]]]]]]]]]]]]]]]]]].
    rewrite F1, F2. cbn [bind fst snd].
    eexists. eexists. exists bw, bu, (Some rw), (Some ru).
    split; [reflexivity|]. split; [reflexivity|]. cbn [fst].
    split; [cbn [app]; rewrite <- U1; reflexivity|]. split; [cbn [app]; rewrite <- U2; reflexivity|].
    split; [exact K1|]. split; [exact K2|].
    split; [intros E; apply app_eq_nil in E; destruct E as [_ E]; exact (N1 E)|].
    split; [intros E; apply app_eq_nil in E; destruct E as [_ E]; exact (N2 E)|].
    split; [exact S1|]. split; [exact S2|].
    split; [cbn [map_returns]; rewrite I1; reflexivity|]. split; [cbn [map_returns]; rewrite I2; reflexivity|].
    exact Hrel. }
  destruct Hrets as [rpw [rpu [rbw [rbu [ow [ou [Rw [Ru [Vw [Vu [K1 [K2 [N1 [N2 [S1 [S2 [M1 [M2 Hrel]]]]]]]]]]]]]]]]]].
  assert (Etw : emit_docstring w DocEmit.Rest true true i
                = Ok (([nl] ++ r ++ (match txw with [] => nl2 ++ nl2 | _ => nl2 end)) ++ concat (map blk (pbw ++ rbw)), i)).
  { unfold emit_docstring. rewrite Eps, Edoc. cbn [fill_or_id]. rewrite Hfill. cbn [bind]. rewrite E1. cbn [bind fst snd].
    assert (Epl : match txw with [] => txw | _ :: _ => txw end = txw) by (destruct txw; reflexivity).
    rewrite Epl, Rw. cbn [bind]. rewrite (text_shape r txw pbw (fst rpw) rbw T1 Vw). reflexivity. }
  assert (Etu : emit_docstring w DocEmit.Rest false true i
                = Ok (([nl] ++ d ++ (match txu with [] => nl2 ++ nl2 | _ => nl2 end)) ++ concat (map blk (pbu ++ rbu)), i)).
  { unfold emit_docstring. rewrite Eps, Edoc. cbn [fill_or_id bind]. rewrite E2. cbn [bind fst snd].
    assert (Epl : match txu with [] => txu | _ :: _ => txu end = txu) by (destruct txu; reflexivity).
    rewrite Epl, Ru. cbn [bind]. rewrite (text_shape d txu pbu (fst rpu) rbu T2 Vu). reflexivity. }
  eexists. eexists. split; [exact Etw|]. split; [exact Etu|].
  intros du Hdu.
  assert (Gw : forall b, In b (pbw ++ rbw) -> block_good b).
  { intros b Hb. apply in_app_or in Hb. destruct Hb as [Hb|Hb]; [apply G1|apply K1]; exact Hb. }
  assert (Gu : forall b, In b (pbu ++ rbu) -> block_good b).
  { intros b Hb. apply in_app_or in Hb. destruct Hb as [Hb|Hb]; [apply G2|apply K2]; exact Hb. }
  destruct (assemble edd r d _ _ pbw pbu rbw rbu ow ou Hrtok Hrstrip Hdtok Hdstrip (sep_ws txw) (sep_ws txu)
                     Gw Gu N1 N2 R S1 S2 M1 M2 du Hdu) as [ps' [Edu Hpw]].
  exists (ir_of_parts r ps' ow). split; [exact Hpw|]. subst du. split; [reflexivity|].
  split; [apply parts_rel; assumption|].
  intros k i0 Hk. apply (parts_link k i0 r d ps' ow ou); assumption.
Qed.

(* ------------------------------------------------------------------ inside the ReST guard of C01 *)

Theorem C18_rest_parse_lemma : forall w edd i,
    guard_C18_rest_parse w edd i = true ->
    exists tw tu dw du,
      emit_docstring w DocEmit.Rest true true i = Ok (tw, i)
      /\ emit_docstring w DocEmit.Rest false true i = Ok (tu, i)
      /\ parse_dot_docstring ng_unmodelled tw false true edd = Ok dw
      /\ parse_dot_docstring ng_unmodelled tu false true edd = Ok du
      /\ ir_params dw = ir_params du
      /\ same_interface_ws false du dw = true
      /\ same_interface edd i du = true
      /\ same_interface_ws edd i dw = true.
Proof.
  intros w edd i Hg. unfold guard_C18_rest_parse in Hg.
  apply andb_true_iff in Hg. destruct Hg as [Hg Hp]. apply andb_true_iff in Hg. destruct Hg as [Hw H01].
  apply Nat.ltb_lt in Hw.
  destruct (C18_rest_pieces_lemma w edd i Hw Hp) as [tw [tu [Etw [Etu Hall]]]].
  destruct (C01_rest_partial_emit_lemma w edd i H01) as [text [i0 [du [Hemit [_ [Hparse Hsame]]]]]].
  rewrite Etu in Hemit. injection Hemit as Ht _. subst text.
  destruct (Hall du Hparse) as [dw [Hpw [Hps [Hrel Hlink]]]].
  exists tw, tu, dw, du. repeat (split; [assumption|]). apply Hlink. exact Hsame.
Qed.

Lemma C18_rest_parse_b_lemma : forall w edd i,
    guard_C18_rest_parse w edd i = true -> C18_rest_parse_at_b w edd i = true.
Proof.
  intros w edd i Hg.
  destruct (C18_rest_parse_lemma w edd i Hg) as [tw [tu [dw [du [E1 [E2 [P1 [P2 [_ [R1 [_ R2]]]]]]]]]]].
  unfold C18_rest_parse_at_b. rewrite E1, E2, P1, P2, R1, R2. reflexivity.
Qed.

(* ------------------------------------------------------------------ non-vacuity and the excluded regions *)

Definition gp18 (d : str) (t : option str) (v : option pyval) : gparam :=
  mkG (Has d) (match t with Some t => Has t | None => Missing end) (option_map DV v).

(* three parameters and a return entry; every prose is several times longer than the width 30 *)
Definition c18_long_ir : ir :=
  mkIR FNone (Has (L "static")) (Has (L "Summary words that go on and on for quite a while here."))
       [(L "alpha", gp18 (L "first parameter with a long prose that needs wrapping several times over") (Some (L "int")) None);
        (L "beta", gp18 (L "second one also quite long enough to wrap around the width limit") None None);
        (L "gamma", gp18 (L "third one, typed, with a long prose to wrap around as well") (Some (L "str")) None)]
       (Has (gp18 (L "the result value described at great length so that it wraps too") (Some (L "str")) None)) None.

Lemma C18_rest_parse_nonvacuous_lemma :
  guard_C18_rest_parse 30 true c18_long_ir = true
  /\ guard_C18_rest_parse 30 false c18_long_ir = true
  /\ guard_C18_rest_parse 79 true c18_long_ir = true
  /\ guard_nowrap 30 DocEmit.Rest true c18_long_ir = false
  /\ (exists tw tu, emit_docstring 30 DocEmit.Rest true true c18_long_ir = Ok (tw, c18_long_ir)
                    /\ emit_docstring 30 DocEmit.Rest false true c18_long_ir = Ok (tu, c18_long_ir)
                    /\ tw <> tu).
Proof.
  split; [vm_compute; reflexivity|]. split; [vm_compute; reflexivity|]. split; [vm_compute; reflexivity|].
  split; [vm_compute; reflexivity|].
  eexists. eexists. split; [vm_compute; reflexivity|]. split; [vm_compute; reflexivity|].
  intros E. apply (f_equal (@List.length ascii)) in E. vm_compute in E. discriminate.
Qed.

(* ---- outside the piece-wise guard but inside the ReST guard of C01: the statement fails (witnesses) ---- *)

(* a typed parameter whose default sentence is split by the wrapper, read with emit_default_doc=False:
   the line break and the indent end up inside the default *)
Definition c18_w_default_split : ir :=
  mkIR FNone (Has (L "static")) (Has (L "Summary."))
       [(L "alpha", gp18 (L "first parameter with a long prose that needs wrapping.") (Some (L "str"))
                         (Some (VStr (L "a b c d e f g h"))))] FNone None.

(* two blanks between  defaults  and  to : the wrapper breaks there, the reader re-joins with one blank and
   now finds a default announced *)
Definition c18_w_double_blank : ir :=
  mkIR FNone (Has (L "static")) (Has (L "Summary."))
       [(L "alpha", gp18 (L "the value that it defaults  to 5 when nothing else is given") (Some (L "int")) None)]
       FNone None.

Lemma C18_rest_parse_witnesses_lemma :
  (guard_C01_rest false c18_w_default_split = true /\ C18_rest_parse_at_b 30 false c18_w_default_split = false
   /\ guard_C18_rest_parse 30 false c18_w_default_split = false)
  /\ (guard_C01_rest true c18_w_double_blank = true /\ C18_rest_parse_at_b 40 true c18_w_double_blank = false
      /\ guard_C18_rest_parse 40 true c18_w_double_blank = false)
  /\ (guard_C01_rest true c18_long_ir = true /\ C18_rest_parse_at_b 12 true c18_long_ir = false
      /\ guard_C18_rest_parse 12 true c18_long_ir = false).
Proof. vm_compute. repeat split. Qed.

Definition C18_rest_parse_statement : Prop :=
  forall w edd i, 0 < w -> guard_C01_rest edd i = true -> C18_rest_parse_at_b w edd i = true.

Lemma C18_rest_parse_refuted_lemma : ~ C18_rest_parse_statement.
Proof.
  intros H. specialize (H 40 true c18_w_double_blank).
  assert (E : C18_rest_parse_at_b 40 true c18_w_double_blank = false) by (vm_compute; reflexivity).
  rewrite H in E; [discriminate|lia|vm_compute; reflexivity].
Qed.

(* the closed-form guard implies the piece-wise one on the sample (per point, not a theorem) *)
Lemma C18_rest_tidy_sample_lemma :
  forallb (fun w => implb (guard_C18_rest_tidy w c18_long_ir) (guard_C18_rest_pieces w c18_long_ir)) (seq 1 100) = true
  /\ guard_C18_rest_tidy 22 c18_long_ir = true /\ guard_C18_rest_tidy 21 c18_long_ir = false.
Proof. vm_compute. repeat split. Qed.
