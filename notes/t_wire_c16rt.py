import sys, ast, copy
sys.path.insert(0,'/verif/harness')
import common
from common import Sym, dumps, loads, opt, run_model, impl
import astwire, irwire, fam_emitast, fam_parsesig, fam_parseast
m = impl()

def show(tag, req, want=None):
    out = run_model([req])[0]
    print("==", tag)
    print("REQ :", req if len(req) < 1500 else req[:1500] + " ...")
    print("RESP:", out if len(out) < 400 else out[:400] + " ...")
    if want is not None:
        print("AGREES WITH IMPLEMENTATION:", out == want)
    return out

# ---------------- function
def fn_case(src, ft=None, fnm=None, efn=None, eft=None, inl=False, kw=False):
    fd = ast.parse(src).body[0]
    d = fam_parsesig._doc_ir(fd, False)
    pi, pj = fam_parsesig._orders("sorted", fd, d)
    try:
        ir = m.parse.function(copy.deepcopy(fd), infer_type=False, word_wrap=True, function_type=ft, function_name=fnm)
    except Exception as e:
        ir = None
    o = dict(function_name=efn, function_type=eft, word_wrap=True, emit_default_doc=False, indent_level=2,
             emit_separating_tab=False, inline_types=inl, emit_as_kwonlyargs=kw)
    if ir is not None:
        before = copy.deepcopy(ir)
        res, rec = fam_emitast.call_emitter("function", ir, o)
        strings = set(); fam_emitast._strings_of_ir(before, strings)
        for s in rec.irs: fam_emitast._strings_of_ir(s, strings)
        pt = fam_emitast.parse_table(strings); tds = rec.tds
        if tds is fam_emitast.NOT_CALLED: tds = [Sym("err"), Sym("Unmodelled")]
        want = dumps([Sym("ok"), astwire.enc_stmt(rec.node)]) if rec.node is not None else dumps(res)
    else:
        pt, tds, want = [], [Sym("err"), Sym("Unmodelled")], None
    req = dumps([Sym("c16rt_function"), pi, pj, opt(d, irwire.enc_ir), astwire.enc_stmt(fd), False, True, opt(ft), opt(fnm),
                 opt(efn), opt(eft), inl, kw, tds, pt])
    creq = dumps([Sym("c16rt_function_class"), pt, opt(d, irwire.enc_ir), astwire.enc_stmt(fd), False, True])
    greq = dumps([Sym("c16rt_function_guard"), pt, opt(d, irwire.enc_ir), astwire.enc_stmt(fd), False, True, opt(ft), opt(fnm), opt(efn), opt(eft)])
    return req, creq, greq, want

F1 = 'def f(a, b=2):\n    """doc\n\n    :param a: the a\n    :param b: the b\n    """\n    "a string first"\n    t = g(a)\n    if t:\n        return a\n    def inner(q):\n        return g(q, b)\n    return %s\n'
for ret in ["t", "g(t)", "'abc'"]:
    req, creq, greq, want = fn_case(F1 % ret)
    show("c16rt_function   return " + ret, req, want)
    show("c16rt_function_class", creq)
    show("c16rt_function_guard", greq)
req, creq, greq, want = fn_case('def f(a):\n    """doc\n\n    :param a: the a\n    """\n    return t\n    z = 1\n')
show("c16rt_function dead code after return", req, want); show("class", creq)
req, creq, greq, want = fn_case('def f(self, a):\n    x = a\n    for i in a:\n        x += i\n')
show("c16rt_function method without docstring/return", req, want); show("class", creq); show("guard", greq)

# ---------------- argparse
def ap_case(src, efn="set_cli_args"):
    fd = ast.parse(src).body[0]
    with fam_parseast._Recorder("parse_docstring") as r:
        ir = m.parse.argparse_ast(copy.deepcopy(fd), function_name="set_cli_args")
    di = fam_parseast._enc_outcome_ir(r.rec)
    o = dict(emit_default_doc=False, function_name=efn, function_type=None, wrap_description=False, word_wrap=True)
    before = copy.deepcopy(ir)
    res, rec = fam_emitast.call_emitter("argparse", ir, o)
    strings = set(); fam_emitast._strings_of_ir(before, strings)
    for s in rec.irs: fam_emitast._strings_of_ir(s, strings)
    pt = fam_emitast.parse_table(strings)
    want = dumps([Sym("ok"), astwire.enc_stmt(rec.node)]) if rec.node is not None else dumps(res)
    req = dumps([Sym("c16rt_argparse"), di, astwire.enc_stmt(fd), opt(None), opt("set_cli_args"), False, opt(efn), opt(None), False, True, rec.ds, pt])
    creq = dumps([Sym("c16rt_argparse_class"), astwire.enc_stmt(fd)])
    greq = dumps([Sym("c16rt_argparse_guard"), astwire.enc_stmt(fd), opt(None), opt("set_cli_args"), opt(efn), opt(None)])
    return req, creq, greq, want
A1 = '''def set_cli_args(argument_parser):
    """
    Set CLI arguments

    :param argument_parser: argument parser
    :type argument_parser: ```ArgumentParser```

    :returns: argument_parser
    :rtype: ```ArgumentParser```
    """
    argument_parser.description = 'Summary.'
    argument_parser.add_argument('--x', type=int, help='the x', required=True, default=5)
%s    argument_parser.add_argument('--name', help='the name')
    t = g(x)
    return argument_parser
'''
for mid in ["", "    'note'\n"]:
    req, creq, greq, want = ap_case(A1 % mid)
    show("c16rt_argparse mid=%r" % mid, req, want); show("c16rt_argparse_class", creq); show("c16rt_argparse_guard", greq)

# ---------------- class
def cl_case(src, ec):
    cd = ast.parse(src).body[0]
    with fam_parseast._Recorder("docstring") as r:
        ir = m.parse.class_(copy.deepcopy(cd), infer_type=False, word_wrap=True)
    di = opt(r.rec, fam_parseast._enc_outcome_ir)
    o = dict(emit_call=ec, class_name="C", word_wrap=True, emit_default_doc=False)
    before = copy.deepcopy(ir)
    res, rec = fam_emitast.call_emitter("class", ir, o)
    strings = set(); fam_emitast._strings_of_ir(before, strings)
    for s in rec.irs: fam_emitast._strings_of_ir(s, strings)
    pt = fam_emitast.parse_table(strings)
    want = dumps([Sym("ok"), astwire.enc_stmt(rec.node)]) if rec.node is not None else dumps(res)
    req = dumps([Sym("c16rt_class"), di, [Sym("stmt"), astwire.enc_stmt(cd)], opt(None), False, True, ec, "C", ["object"], [], True, rec.tds, pt])
    creq = dumps([Sym("c16rt_class_class"), astwire.enc_stmt(cd), ec])
    greq = dumps([Sym("c16rt_class_guard"), astwire.enc_stmt(cd), ec])
    return req, creq, greq, want
C1 = 'class C(object):\n    """\n    doc\n\n    :cvar a: the a\n    """\n    a: int = 1\n%s'
for extra in ["", "\n    def run(self):\n        return self.a\n", "\n    def __call__(self):\n        return self.a\n"]:
    for ec in (True, False):
        req, creq, greq, want = cl_case(C1 % extra, ec)
        show("c16rt_class extra=%r emit_call=%s" % (extra, ec), req, want); show("c16rt_class_class", creq); show("c16rt_class_guard", greq)
